/-
C43 helper lemmas, part 2: where the replace range of a completion context
comes from (the leaf's end, a compound of the path, or the tail of a variable
written bare), and that every node of the path is a node of the tree.
-/
import ElvProofs.C01
import ElvProofs.C43.Basic
namespace C43
open Go C01
open Gen.C01Chars

mutual
/-- every node on the path found by `np.find` is the root or below it -/
theorem findN_desc (p : Int) (pl : Bool) : ∀ (n : Node) (i : Nat) (path : Path),
    findN p pl i n = some path → ∀ x ∈ path, C01_Desc n x.1
  | .mk k a b t f cs, i, path => by
    intro h x hx
    cases cs with
    | nil =>
      simp only [findN, Option.some.injEq] at h
      subst h
      simp only [List.mem_singleton] at hx
      subst hx
      exact .self _
    | cons c cs' =>
      simp only [findN] at h
      cases hl : findL p pl 0 (c :: cs') with
      | none => rw [hl] at h; cases h
      | some pth =>
        rw [hl] at h
        simp only [Option.some.injEq] at h
        subst h
        rcases List.mem_append.mp hx with hx | hx
        · obtain ⟨c', hc', hd⟩ := findL_desc p pl (c :: cs') 0 pth hl x hx
          exact .child hc' hd
        · simp only [List.mem_singleton] at hx
          subst hx
          exact .self _
theorem findL_desc (p : Int) (pl : Bool) : ∀ (cs : List Node) (i : Nat) (path : Path),
    findL p pl i cs = some path → ∀ x ∈ path, ∃ c ∈ cs, C01_Desc c x.1
  | [], _, _ => by intro h; simp [findL] at h
  | c :: rest, i, path => by
    intro h x hx
    simp only [findL] at h
    split at h
    · exact ⟨c, List.mem_cons_self, findN_desc p pl c i path h x hx⟩
    · obtain ⟨c', hc', hd⟩ := findL_desc p pl rest (i + 1) path h x hx
      exact ⟨c', List.mem_cons_of_mem _ hc', hd⟩
end

/-- `np.find` went into this node at position `p`. -/
def Holds (p : Int) (n : Node) : Prop := ((n.frm : Int) ≤ p ∧ p < (n.to : Int)) ∨ p = (n.to : Int)

mutual
/-- the path ends in the node the search started from; every node before it was entered at `p` -/
theorem findN_shape (p : Int) (pl : Bool) : ∀ (n : Node) (i : Nat) (path : Path),
    findN p pl i n = some path → ∃ pre, path = pre ++ [(n, i)] ∧ ∀ x ∈ pre, Holds p x.1
  | .mk k a b t f cs, i, path => by
    intro h
    cases cs with
    | nil =>
      simp only [findN, Option.some.injEq] at h
      exact ⟨[], by rw [← h]; rfl, by simp⟩
    | cons c cs' =>
      simp only [findN] at h
      cases hl : findL p pl 0 (c :: cs') with
      | none => rw [hl] at h; cases h
      | some pth =>
        rw [hl] at h
        simp only [Option.some.injEq] at h
        exact ⟨pth, h.symm, findL_holds p pl (c :: cs') 0 pth hl⟩
theorem findL_holds (p : Int) (pl : Bool) : ∀ (cs : List Node) (i : Nat) (path : Path),
    findL p pl i cs = some path → ∀ x ∈ path, Holds p x.1
  | [], _, _ => by intro h; simp [findL] at h
  | c :: rest, i, path => by
    intro h x hx
    simp only [findL] at h
    split at h
    · rename_i hc
      obtain ⟨pre, hp, hpre⟩ := findN_shape p pl c i path h
      rw [hp] at hx
      rcases List.mem_append.mp hx with hx | hx
      · exact hpre x hx
      · simp only [List.mem_singleton] at hx
        subst hx
        simp only [Bool.or_eq_true, Bool.and_eq_true, decide_eq_true_eq, beq_iff_eq] at hc
        rcases hc with hc | hc
        · exact Or.inl hc
        · exact Or.inr hc.2
    · exact findL_holds p pl rest (i + 1) path h x hx
end

theorem findN_dropLast_holds {p : Int} {pl : Bool} {n : Node} {i : Nat} {path : Path}
    (h : findN p pl i n = some path) : ∀ x ∈ path.dropLast, Holds p x.1 := by
  obtain ⟨pre, hp, hpre⟩ := findN_shape p pl n i path h
  rw [hp, List.dropLast_concat]
  exact hpre

theorem matchKind_some {k : Kind} {p : Path} {n : Node} {rest : Path}
    (h : matchKind k p = some (n, rest)) : ∃ i, p = (n, i) :: rest := by
  cases p with
  | nil => simp [matchKind] at h
  | cons x xs =>
    obtain ⟨m, i⟩ := x
    simp only [matchKind] at h
    split at h
    · simp only [Option.some.injEq, Prod.mk.injEq] at h
      exact ⟨i, by rw [h.1, h.2]⟩
    · cases h

theorem matchSimpleExpr_some {env : Env} {p : Path} {d : SimpleExprData} {rest : Path}
    (h : matchSimpleExpr env p = .ok (some (d, rest))) :
    ∃ a b, p = a :: b :: (d.compound, d.cidx) :: rest := by
  match p, h with
  | (pn, i) :: (inn, j) :: (cn, ci) :: rest', h =>
    simp only [matchSimpleExpr] at h
    split at h
    · split at h
      · simp only [Res.ok.injEq, Option.some.injEq, Prod.mk.injEq] at h
        obtain ⟨h1, h2⟩ := h
        subst h1
        exact ⟨_, _, by rw [h2]⟩
      all_goals cases h
    · cases h
  | [], h => simp [matchSimpleExpr] at h
  | [_], h => simp [matchSimpleExpr] at h
  | [_, _], h => simp [matchSimpleExpr] at h

/-- Where the range of a context comes from. -/
def CtxRange (fixed : Bool) (p : Path) (ctx : Ctx) : Prop :=
  (∃ x, p.head? = some x ∧ ctx.frm = x.1.to ∧ ctx.to = x.1.to ∧ ctx.seed = []) ∨
  (∃ x ∈ p.dropLast, x.1.kind = .compound ∧ ctx.frm = x.1.frm ∧ ctx.to = x.1.to) ∨
  (∃ x, p.head? = some x ∧ (fixed = true → x.1.text = 36 :: x.1.value) ∧
    ctx.frm = x.1.frm + 1 + (splitSigil x.1.value).1.length +
      (splitIncompleteQNameNs (splitSigil x.1.value).2).1.length ∧
    ctx.to = x.1.to ∧ ctx.seed = (splitIncompleteQNameNs (splitSigil x.1.value).2).2)

theorem res_bind_ok {α β : Type} {a : Res α} {f : α → Res β} {v : β} (h : (a >>= f) = .ok v) :
    ∃ m, a = .ok m ∧ f m = .ok v := by
  cases a with
  | ok m => exact ⟨m, rfl, h⟩
  | exc e => cases h
  | panic w => cases h

theorem res_pure_ok {α : Type} {a v : α} (h : (pure a : Res α) = .ok v) : a = v := by
  cases h; rfl

theorem sepBelow_some {k : Kind} {p : Path} {sep n : Node} (h : sepBelow k p = some (sep, n)) :
    ∃ i rest, p = (sep, i) :: rest := by
  unfold sepBelow at h
  split at h
  · rename_i sep' rest hm
    split at h
    · simp only [Option.some.injEq, Prod.mk.injEq] at h
      obtain ⟨i, hp⟩ := matchKind_some hm
      exact ⟨i, rest, by rw [hp, h.1]⟩
    · cases h
  · cases h

theorem ctxRange_range0 {fixed : Bool} {leaf : Node} {i : Nat} {xs : Path} (name : String) :
    CtxRange fixed ((leaf, i) :: xs) (range0 name leaf.to) := by
  left
  exact ⟨(leaf, i), rfl, rfl, rfl, rfl⟩

theorem ctxRange_expr {fixed : Bool} {env : Env} {p : Path} {expr : SimpleExprData} {rest : Path}
    (name : String) (hm : matchSimpleExpr env p = .ok (some (expr, rest))) (hk : expr.compound.kind = .compound)
    {k : Kind} (hr : (matchKind k rest).isSome = true) :
    CtxRange fixed p (exprCtx name expr) := by
  obtain ⟨a, b, hp⟩ := matchSimpleExpr_some hm
  right; left
  refine ⟨(expr.compound, expr.cidx), ?_, hk, rfl, rfl⟩
  rw [hp]
  cases rest with
  | nil => simp [matchKind] at hr
  | cons y ys => simp [List.dropLast]

theorem matchSimpleExpr_kind {env : Env} {p : Path} {d : SimpleExprData} {rest : Path}
    (h : matchSimpleExpr env p = .ok (some (d, rest))) : d.compound.kind = .compound := by
  match p, h with
  | (pn, i) :: (inn, j) :: (cn, ci) :: rest', h =>
    simp only [matchSimpleExpr] at h
    split at h
    · rename_i hk
      split at h
      · simp only [Res.ok.injEq, Option.some.injEq, Prod.mk.injEq] at h
        obtain ⟨h1, _⟩ := h
        subst h1
        simp only [Bool.and_eq_true, beq_iff_eq] at hk
        exact hk.2
      all_goals cases h
    · cases h
  | [], h => simp [matchSimpleExpr] at h
  | [_], h => simp [matchSimpleExpr] at h
  | [_, _], h => simp [matchSimpleExpr] at h

theorem completeRedir_range {fixed : Bool} {env : Env} {p : Path} {ctx : Ctx} {g : Gen}
    (h : completeRedir env p = .ok (some (ctx, g))) : CtxRange fixed p ctx := by
  unfold completeRedir at h
  cases p with
  | nil => simp at h
  | cons x xs =>
    obtain ⟨leaf, i⟩ := x
    simp only at h
    split at h
    · have := res_pure_ok h
      simp only [Option.some.injEq, Prod.mk.injEq] at this
      rw [← this.1]
      exact ctxRange_range0 _
    · obtain ⟨m, hm, h⟩ := res_bind_ok h
      split at h
      · rename_i expr rest
        split at h
        · rename_i hr
          have := res_pure_ok h
          simp only [Option.some.injEq, Prod.mk.injEq] at this
          rw [← this.1]
          exact ctxRange_expr _ hm (matchSimpleExpr_kind hm) hr
        · cases res_pure_ok h
      · cases res_pure_ok h

theorem completeCommand_range {fixed : Bool} {env : Env} {p : Path} {ctx : Ctx} {g : Gen}
    (h : completeCommandG fixed env p = .ok (some (ctx, g))) : CtxRange fixed p ctx := by
  unfold completeCommandG at h
  cases p with
  | nil => simp at h
  | cons x xs =>
    obtain ⟨leaf, i⟩ := x
    simp only at h
    split at h
    · have := res_pure_ok h
      simp only [Option.some.injEq, Prod.mk.injEq] at this
      rw [← this.1]
      exact ctxRange_range0 _
    · obtain ⟨m, hm, h⟩ := res_bind_ok h
      split at h
      · rename_i expr rest
        split at h
        · rename_i hr
          have := res_pure_ok h
          simp only [Option.some.injEq, Prod.mk.injEq] at this
          rw [← this.1]
          exact ctxRange_expr _ hm (matchSimpleExpr_kind hm) (Bool.and_eq_true_iff.mp hr).1
        · cases res_pure_ok h
      · cases res_pure_ok h

theorem completeIndex_range {fixed : Bool} {env : Env} {p : Path} {ctx : Ctx} {g : Gen}
    (h : completeIndexG fixed env p = .ok (some (ctx, g))) : CtxRange fixed p ctx := by
  unfold completeIndexG at h
  cases p with
  | nil => simp at h
  | cons x xs =>
    obtain ⟨leaf, i⟩ := x
    simp only at h
    obtain ⟨r1, hr1, h⟩ := res_bind_ok h
    split at h
    · rename_i c
      have := res_pure_ok h
      simp only [Option.some.injEq] at this
      subst this
      unfold completeNewIndex at hr1
      split at hr1
      · obtain ⟨v, _, hr1⟩ := res_bind_ok hr1
        split at hr1
        · have := res_pure_ok hr1
          simp only [Option.some.injEq, Prod.mk.injEq] at this
          rw [← this.1]
          exact ctxRange_range0 _
        · cases res_pure_ok hr1
      · cases res_pure_ok hr1
    · unfold completeOldIndex at h
      obtain ⟨m, hm, h⟩ := res_bind_ok h
      split at h
      · rename_i expr rest
        split at h
        · rename_i harr
          split at h
          · obtain ⟨v, _, h⟩ := res_bind_ok h
            split at h
            · have := res_pure_ok h
              simp only [Option.some.injEq, Prod.mk.injEq] at this
              rw [← this.1]
              exact ctxRange_expr _ hm (matchSimpleExpr_kind hm) (k := .array) (by rw [harr]; rfl)
            · cases res_pure_ok h
          · cases res_pure_ok h
        · cases res_pure_ok h
      · cases res_pure_ok h

theorem completeArg_range {fixed : Bool} {env : Env} {p : Path} {ctx : Ctx} {g : Gen}
    (h : completeArg env p = .ok (some (ctx, g))) : CtxRange fixed p ctx := by
  unfold completeArg at h
  split at h
  · rename_i sep form hc
    obtain ⟨args, _, h⟩ := res_bind_ok h
    obtain ⟨g', _, h⟩ := res_bind_ok h
    have := res_pure_ok h
    simp only [Option.some.injEq, Prod.mk.injEq] at this
    rw [← this.1]
    unfold argCase1 at hc
    split at hc
    · rename_i sep' form' hs
      split at hc
      · simp only [Option.some.injEq, Prod.mk.injEq] at hc
        obtain ⟨i, rest, hp⟩ := sepBelow_some hs
        rw [hp, ← hc.1]
        exact ctxRange_range0 _
      · cases hc
    · cases hc
  · obtain ⟨m, hm, h⟩ := res_bind_ok h
    split at h
    · rename_i expr rest
      split at h
      · rename_i hform
        split at h
        · obtain ⟨args, _, h⟩ := res_bind_ok h
          obtain ⟨g', _, h⟩ := res_bind_ok h
          have := res_pure_ok h
          simp only [Option.some.injEq, Prod.mk.injEq] at this
          rw [← this.1]
          exact ctxRange_expr _ hm (matchSimpleExpr_kind hm) (k := .form) (by rw [hform]; rfl)
        · cases res_pure_ok h
      · cases res_pure_ok h
    · cases res_pure_ok h

theorem completeVariable_range {fixed : Bool} {env : Env} {p : Path} {ctx : Ctx} {g : Gen}
    (h : completeVariableG fixed env p = .ok (some (ctx, g))) : CtxRange fixed p ctx := by
  unfold completeVariableG at h
  cases p with
  | nil => simp at h
  | cons x xs =>
    obtain ⟨primary, i⟩ := x
    simp only at h
    split at h
    · split at h
      · cases h
      · rename_i hfix
        simp only [Res.ok.injEq, Option.some.injEq, Prod.mk.injEq] at h
        right; right
        refine ⟨(primary, i), rfl, ?_, ?_⟩
        · intro hf
          simp only [hf, Bool.true_and, bne_iff_ne, ne_eq, Decidable.not_not] at hfix
          exact hfix
        · rw [← h.1]
          exact ⟨rfl, rfl, rfl⟩
    · cases h

theorem runCompleters_range {fixed : Bool} {env : Env} {p : Path} {ctx : Ctx} {g : Gen}
    (h : runCompleters fixed env p = .ok (some (ctx, g))) : CtxRange fixed p ctx := by
  unfold runCompleters at h
  obtain ⟨c1, h1, h⟩ := res_bind_ok h
  split at h
  · cases res_pure_ok h; exact completeCommand_range h1
  obtain ⟨c2, h2, h⟩ := res_bind_ok h
  split at h
  · cases res_pure_ok h; exact completeIndex_range h2
  obtain ⟨c3, h3, h⟩ := res_bind_ok h
  split at h
  · cases res_pure_ok h; exact completeRedir_range h3
  obtain ⟨c4, h4, h⟩ := res_bind_ok h
  split at h
  · cases res_pure_ok h; exact completeVariable_range h4
  exact completeArg_range h

end C43
