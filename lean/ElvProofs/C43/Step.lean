/-
C43 helper lemmas, part 4: running the parser of C01 "in situ" — at a given
position of a buffer `pre ++ body ++ rest` — equationally.  Only `peek`,
`next`, `sliceSrc` occur on the paths that parse a quoted word, so all that is
needed of the state is `pos ≤ |src|` and the text from `pos` on.
-/
import ElvProofs.C01
import ElvProofs.Lemmas.Utf8
import ElvModel.C43.Model
namespace C43
open Go C01
open Gen.C01Chars

/-- what `peek` answers when the text from the position on is `t` -/
def peekOf (t : Bytes) : Int := if t = [] then eof else ((decodeRune t).1 : Nat)

/-- the parser state moved forward by `n` bytes -/
def adv (s : St) (n : Nat) : St := { s with pos := s.pos + n }

theorem adv_adv (s : St) (a b : Nat) : adv (adv s a) b = adv s (a + b) := by
  simp [adv, Nat.add_assoc]

theorem adv_zero (s : St) : adv s 0 = s := by simp [adv]

/-- "the text from the position of `s` on is `t`" -/
def At (e : C01.Env) (s : St) (t : Bytes) : Prop := s.pos ≤ e.src.length ∧ e.src.drop s.pos = t

theorem At.adv {e : C01.Env} {s : St} {a b : Bytes} (h : At e s (a ++ b)) : At e (adv s a.length) b := by
  obtain ⟨hle, hd⟩ := h
  have hlen : (e.src.drop s.pos).length = (a ++ b).length := by rw [hd]
  simp only [List.length_drop, List.length_append] at hlen
  refine ⟨by simp only [C43.adv]; omega, ?_⟩
  simp only [C43.adv]
  rw [← List.drop_drop, hd, List.drop_left]

theorem peek_at {e : C01.Env} {s : St} {t : Bytes} (h : At e s t) : peek e s = .ok (peekOf t) s := by
  obtain ⟨hle, hd⟩ := h
  unfold peek peekOf
  by_cases hs : s.pos = e.src.length
  · have : t = [] := by rw [← hd, hs]; simp
    simp [hs, this]
  · have hne : t ≠ [] := by
      intro ht
      have := congrArg List.length hd
      simp [ht] at this
      omega
    simp [hs, hle, hne, hd]

/-- `next` on a non-empty rest: the rune, and the state after it -/
theorem next_at {e : C01.Env} {s : St} {t : Bytes} (h : At e s t) (hne : t ≠ []) :
    next e s = .ok ((decodeRune t).1 : Nat) (adv s (decodeRune t).2) := by
  obtain ⟨hle, hd⟩ := h
  have hs : s.pos ≠ e.src.length := by
    intro hs
    apply hne
    rw [← hd, hs]; simp
  unfold next
  simp [hs, hle, hd, adv]

/-- `next` over one encoded rune -/
theorem next_rune {e : C01.Env} {s : St} {r : Nat} {t : Bytes} (hv : validRune r = true)
    (h : At e s (encodeRune r ++ t)) :
    next e s = .ok (r : Int) (adv s (encodeRune r).length) ∧ At e (adv s (encodeRune r).length) t := by
  have hne : encodeRune r ++ t ≠ [] := by
    have := encodeRune_ne_nil r
    intro h0
    exact this (List.append_eq_nil_iff.mp h0).1
  rw [next_at h hne, decodeRune_encodeRune_append r hv t]
  exact ⟨rfl, h.adv⟩

theorem peekOf_rune {r : Nat} (hv : validRune r = true) (t : Bytes) : peekOf (encodeRune r ++ t) = (r : Int) := by
  unfold peekOf
  have hne : encodeRune r ++ t ≠ [] := by
    have := encodeRune_ne_nil r
    intro h0
    exact this (List.append_eq_nil_iff.mp h0).1
  simp [hne, decodeRune_encodeRune_append r hv t]

/-- one ASCII byte -/
theorem encodeRune_ascii' {b : Nat} (h : b < 128) : encodeRune b = [UInt8.ofNat b] := encodeRune_one h

theorem sliceSrc_at {e : C01.Env} {s : St} {a b : Nat} (h1 : a ≤ b) (h2 : b ≤ e.src.length) :
    sliceSrc a b e s = .ok ((e.src.drop a).take (b - a)) s := by
  unfold sliceSrc slice
  have : (0 : Int) ≤ a ∧ (a : Int) ≤ b ∧ (b : Int) ≤ e.src.length := by omega
  simp [this]

/-- `skipWhile p` over a run of runes satisfying `p`, stopping at the rest -/
theorem skipWhile_run {e : C01.Env} (p : Int → Bool) : ∀ (rs : List Nat) (n : Nat) (s : St) (rest : Bytes),
    (∀ r ∈ rs, validRune r = true ∧ p (r : Int) = true) → p (peekOf rest) = false → rs.length < n →
    At e s (encodeRunes rs ++ rest) →
    skipWhile p n e s = .ok () (adv s (encodeRunes rs).length)
  | [], n + 1, s, rest, _, hstop, _, hat => by
    unfold skipWhile
    simp only [encodeRunes, List.flatMap_nil, List.nil_append] at hat
    rw [bind_of_eq (peek_at hat)]
    simp [hstop, encodeRunes, adv_zero]
  | r :: rs, n + 1, s, rest, hall, hstop, hn, hat => by
    have hr := hall r List.mem_cons_self
    have henc : encodeRunes (r :: rs) ++ rest = encodeRune r ++ (encodeRunes rs ++ rest) := by
      simp [encodeRunes]
    rw [henc] at hat
    unfold skipWhile
    rw [bind_of_eq (peek_at hat), peekOf_rune hr.1]
    simp only [hr.2, if_true]
    obtain ⟨hnx, hat'⟩ := next_rune hr.1 hat
    rw [bind_of_eq hnx]
    rw [skipWhile_run p rs n _ rest (fun x hx => hall x (List.mem_cons_of_mem _ hx)) hstop
      (by simp only [List.length_cons] at hn; omega) hat', adv_adv]
    simp [encodeRunes]

end C43
