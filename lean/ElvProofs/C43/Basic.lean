/-
C43 helper lemmas, part 1: lists (filter / sort / dedup of `Complete`), the
path splitting of `generateFileNames`, and the prefix filter.
-/
import ElvModel.C43.Model
namespace C43
open Go C01
open Gen.C01Chars

/-! ## `bytesLt` is the strict lexicographic order -/

theorem bytesLt_irrefl : ∀ a : Bytes, bytesLt a a = false
  | [] => rfl
  | x :: xs => by
    simp only [bytesLt, UInt8.lt_irrefl, if_false]
    exact bytesLt_irrefl xs

theorem bytesLe_refl (a : Bytes) : bytesLe a a = true := by
  simp [bytesLe, bytesLt_irrefl]

theorem bytesLt_asymm : ∀ a b : Bytes, bytesLt a b = true → bytesLt b a = false
  | [], [], h => by simp [bytesLt] at h
  | [], _ :: _, _ => rfl
  | _ :: _, [], h => by simp [bytesLt] at h
  | x :: xs, y :: ys, h => by
    simp only [bytesLt] at h ⊢
    by_cases hxy : x < y
    · have : ¬ y < x := UInt8.lt_asymm hxy
      simp [this, hxy]
    · simp only [hxy, if_false] at h
      by_cases hyx : y < x
      · simp [hyx] at h
      · simp only [hyx, hxy, if_false] at h ⊢
        exact bytesLt_asymm xs ys h

theorem bytesLe_total (a b : Bytes) : bytesLe a b = true ∨ bytesLe b a = true := by
  unfold bytesLe
  cases h : bytesLt b a
  · left; rfl
  · right; simp [bytesLt_asymm b a h]

theorem bytesLt_trans : ∀ a b c : Bytes, bytesLt a b = true → bytesLt b c = true → bytesLt a c = true
  | [], [], _, h, _ => by simp [bytesLt] at h
  | [], _ :: _, [], _, h => by simp [bytesLt] at h
  | [], _ :: _, _ :: _, _, _ => rfl
  | _ :: _, [], _, h, _ => by simp [bytesLt] at h
  | _ :: _, _ :: _, [], _, h => by simp [bytesLt] at h
  | x :: xs, y :: ys, z :: zs, h1, h2 => by
    simp only [bytesLt] at h1 h2 ⊢
    by_cases hxy : x < y
    · by_cases hyz : y < z
      · simp [UInt8.lt_trans hxy hyz]
      · simp only [hyz, if_false] at h2
        by_cases hzy : z < y
        · simp [hzy] at h2
        · have : y = z := UInt8.le_antisymm (UInt8.not_lt.mp hzy) (UInt8.not_lt.mp hyz)
          subst this
          simp [hxy]
    · simp only [hxy, if_false] at h1
      by_cases hyx : y < x
      · simp [hyx] at h1
      · simp only [hyx, if_false] at h1
        have : x = y := UInt8.le_antisymm (UInt8.not_lt.mp hyx) (UInt8.not_lt.mp hxy)
        subst this
        by_cases hxz : x < z
        · simp [hxz]
        · simp only [hxz, if_false] at h2 ⊢
          by_cases hzx : z < x
          · simp [hzx] at h2
          · simp only [hzx, if_false] at h2 ⊢
            exact bytesLt_trans xs ys zs h1 h2

theorem bytesLe_trans (a b c : Bytes) (h1 : bytesLe a b = true) (h2 : bytesLe b c = true) :
    bytesLe a c = true := by
  unfold bytesLe at *
  cases h : bytesLt c a
  · rfl
  · -- c < a ≤ b ≤ c : contradiction
    exfalso
    cases hcb : bytesLt c b
    · -- ¬ c < b and b ≤ c, i.e. ¬ c < b ∧ ¬ ... we derive a < … contradiction through trans
      cases hba : bytesLt b a
      · -- ¬ b < a, ¬ c < b, c < a.  Use trichotomy-free argument: from c < a and ¬ c < b get b < a?  Not in general
        -- so go through the contrapositive form of transitivity on the complement
        revert h hcb hba
        exact bytesLe_trans_aux a b c
      · simp [hba] at h1
    · simp [hcb] at h2
where
  bytesLe_trans_aux : ∀ a b c : Bytes, bytesLt c a = true → bytesLt c b = false → bytesLt b a = false → False
    | [], _, [], h, _, _ => by simp [bytesLt] at h
    | [], _, _ :: _, h, _, _ => by simp [bytesLt] at h
    | _ :: _, [], [], _, _, h => by simp [bytesLt] at h
    | _ :: _, [], _ :: _, _, _, h => by simp [bytesLt] at h
    | _ :: _, _ :: _, [], _, h, _ => by simp [bytesLt] at h
    | x :: xs, y :: ys, z :: zs, h1, h2, h3 => by
      simp only [bytesLt] at h1 h2 h3
      by_cases hzy : z < y
      · simp [hzy] at h2
      · simp only [hzy, if_false] at h2
        by_cases hyx : y < x
        · simp [hyx] at h3
        · simp only [hyx, if_false] at h3
          by_cases hyz : y < z
          · -- y < z, ¬ y < x so x ≤ y < z, but z ≤ x from h1
            by_cases hzx : z < x
            · exact absurd (UInt8.lt_trans hyz hzx) hyx
            · simp only [hzx, if_false] at h1
              by_cases hxz : x < z
              · simp [hxz] at h1
              · have : x = z := UInt8.le_antisymm (UInt8.not_lt.mp hzx) (UInt8.not_lt.mp hxz)
                subst this
                exact hyx hyz
          · simp only [hyz, if_false] at h2
            have hyz' : y = z := UInt8.le_antisymm (UInt8.not_lt.mp hzy) (UInt8.not_lt.mp hyz)
            subst hyz'
            by_cases hxy : x < y
            · have : ¬ y < x := UInt8.lt_asymm hxy
              simp [this, hxy] at h1
            · simp only [hxy, if_false] at h3
              have hxy' : x = y := UInt8.le_antisymm (UInt8.not_lt.mp hyx) (UInt8.not_lt.mp hxy)
              subst hxy'
              simp only [UInt8.lt_irrefl, if_false] at h1
              exact bytesLe_trans_aux xs ys zs h1 h2 h3

theorem bytesLe_antisymm : ∀ a b : Bytes, bytesLe a b = true → bytesLe b a = true → a = b
  | [], [], _, _ => rfl
  | [], _ :: _, _, h => by simp [bytesLe, bytesLt] at h
  | _ :: _, [], h, _ => by simp [bytesLe, bytesLt] at h
  | x :: xs, y :: ys, h1, h2 => by
    simp only [bytesLe, bytesLt] at h1 h2
    by_cases hxy : x < y
    · simp [hxy] at h2
    · by_cases hyx : y < x
      · simp [hyx] at h1
      · simp only [hxy, hyx, if_false] at h1 h2
        have : x = y := UInt8.le_antisymm (UInt8.not_lt.mp hyx) (UInt8.not_lt.mp hxy)
        subst this
        rw [bytesLe_antisymm xs ys (by simpa [bytesLe] using h1) (by simpa [bytesLe] using h2)]

/-! ## `sortRaw` -/

theorem insertRaw_perm (x : Raw) : ∀ l : List Raw, (insertRaw x l).Perm (x :: l)
  | [] => List.Perm.refl _
  | y :: ys => by
    simp only [insertRaw]
    split
    · exact List.Perm.refl _
    · exact ((insertRaw_perm x ys).cons y).trans (List.Perm.swap x y ys)

theorem sortRaw_perm : ∀ l : List Raw, (sortRaw l).Perm l
  | [] => List.Perm.refl _
  | x :: xs => by
    show (insertRaw x (sortRaw xs)).Perm (x :: xs)
    exact (insertRaw_perm x _).trans ((sortRaw_perm xs).cons x)

theorem insertRaw_sorted (x : Raw) : ∀ l : List Raw,
    l.Pairwise (fun a b => bytesLe a.stem b.stem = true) →
    (insertRaw x l).Pairwise fun a b => bytesLe a.stem b.stem = true
  | [], _ => by simp [insertRaw]
  | y :: ys, h => by
    simp only [insertRaw]
    have hy := List.pairwise_cons.mp h
    split
    · rename_i hxy
      refine List.pairwise_cons.mpr ⟨?_, h⟩
      intro z hz
      rcases List.mem_cons.mp hz with rfl | hz
      · exact hxy
      · exact bytesLe_trans _ _ _ hxy (hy.1 z hz)
    · rename_i hxy
      refine List.pairwise_cons.mpr ⟨?_, insertRaw_sorted x ys hy.2⟩
      intro z hz
      rcases List.mem_cons.mp ((insertRaw_perm x ys).mem_iff.mp hz) with rfl | hz
      · rcases bytesLe_total z.stem y.stem with h1 | h1
        · exact absurd h1 hxy
        · exact h1
      · exact hy.1 z hz

theorem sortRaw_sorted : ∀ l : List Raw,
    (sortRaw l).Pairwise fun a b => bytesLe a.stem b.stem = true
  | [] => List.Pairwise.nil
  | x :: xs => insertRaw_sorted x _ (sortRaw_sorted xs)

theorem mem_sortRaw {l : List Raw} {r : Raw} : r ∈ sortRaw l ↔ r ∈ l := (sortRaw_perm l).mem_iff

/-! ## `dedup` -/

theorem dedupFrom_sublist : ∀ (prev : Option Bytes) (l : List Item), (dedupFrom prev l).Sublist l
  | _, [] => List.Sublist.slnil
  | prev, it :: rest => by
    simp only [dedupFrom]
    split
    · exact (dedupFrom_sublist _ rest).cons _
    · exact (dedupFrom_sublist _ rest).cons_cons _

theorem dedup_sublist (l : List Item) : (dedup l).Sublist l := dedupFrom_sublist none l

/-- nothing is lost: every `ToInsert` of the input is still there -/
theorem dedupFrom_insert_mem : ∀ (prev : Option Bytes) (l : List Item) (it : Item), it ∈ l →
    prev = some it.toInsert ∨ ∃ it' ∈ dedupFrom prev l, it'.toInsert = it.toInsert
  | _, [], _, h => by cases h
  | prev, x :: rest, it, h => by
    simp only [dedupFrom]
    rcases List.mem_cons.mp h with rfl | hin
    · by_cases hp : prev = some it.toInsert
      · left; exact hp
      · right
        have : (prev == some it.toInsert) = false := by simpa using hp
        simp only [this]
        exact ⟨it, List.mem_cons_self, rfl⟩
    · rcases dedupFrom_insert_mem (some x.toInsert) rest it hin with h1 | ⟨it', h1, h2⟩
      · -- it has the same ToInsert as x
        have hx : x.toInsert = it.toInsert := by simpa using h1
        by_cases hp : prev = some x.toInsert
        · left; rw [hp, hx]
        · right
          have : (prev == some x.toInsert) = false := by simpa using hp
          simp only [this]
          exact ⟨x, List.mem_cons_self, hx⟩
      · right
        split
        · exact ⟨it', h1, h2⟩
        · exact ⟨it', List.mem_cons_of_mem _ h1, h2⟩

theorem dedup_insert_mem (l : List Item) (it : Item) (h : it ∈ l) :
    ∃ it' ∈ dedup l, it'.toInsert = it.toInsert := by
  rcases dedupFrom_insert_mem none l it h with h1 | h1
  · cases h1
  · exact h1

/-! ## `splitPath` -/

theorem mem_takeWhile_imp {α} (q : α → Bool) : ∀ (l : List α) (x : α), x ∈ l.takeWhile q → q x = true
  | [], _, h => by cases h
  | a :: l, x, h => by
    simp only [List.takeWhile] at h
    split at h
    · rename_i ha
      rcases List.mem_cons.mp h with rfl | h'
      · exact ha
      · exact mem_takeWhile_imp q l x h'
    · cases h

/-- `splitPath p = (d, f)` with `p = d ++ f`, no `/` in `f`, and `d` empty or ending in `/`. -/
theorem splitPath_spec (p : Bytes) :
    (splitPath p).1 ++ (splitPath p).2 = p ∧ (47 : UInt8) ∉ (splitPath p).2 ∧
      ((splitPath p).1 = [] ∨ (splitPath p).1.getLast? = some 47) := by
  have hsplit : (p.reverse.takeWhile (· != 47)) ++ (p.reverse.dropWhile (· != 47)) = p.reverse :=
    List.takeWhile_append_dropWhile
  generalize htw : p.reverse.takeWhile (· != 47) = tw at hsplit
  generalize hdw : p.reverse.dropWhile (· != 47) = dw at hsplit
  have hp : p = dw.reverse ++ tw.reverse := by
    have := congrArg List.reverse hsplit
    simpa using this.symm
  have hlen : p.length - tw.length = dw.reverse.length := by
    rw [hp]; simp
  have hdir : (splitPath p).1 = dw.reverse := by
    unfold splitPath
    simp only [htw, List.length_reverse]
    rw [List.length_reverse] at hlen
    rw [hlen]
    conv => lhs; rw [hp]
    exact List.take_left' (by simp)
  have hfile : (splitPath p).2 = tw.reverse := by
    unfold splitPath
    simp only [htw]
  refine ⟨by rw [hdir, hfile]; exact hp.symm, ?_, ?_⟩
  · rw [hfile]
    intro h
    have h' : (47 : UInt8) ∈ p.reverse.takeWhile (· != 47) := by rw [htw]; simpa using h
    have := mem_takeWhile_imp _ _ _ h'
    simp at this
  · rw [hdir]
    cases hd : dw with
    | nil => left; rfl
    | cons a as =>
      right
      have hh := List.head?_dropWhile_not (· != (47 : UInt8)) p.reverse
      rw [hdw, hd] at hh
      simp only [List.head?_cons] at hh
      have ha : a = 47 := by simpa using hh
      simp [ha]

theorem splitPath_append (p : Bytes) : (splitPath p).1 ++ (splitPath p).2 = p := (splitPath_spec p).1

theorem splitPath_file_noslash (p : Bytes) : (47 : UInt8) ∉ (splitPath p).2 := (splitPath_spec p).2.1

theorem splitPath_dir (p : Bytes) : (splitPath p).1 = [] ∨ (splitPath p).1.getLast? = some 47 :=
  (splitPath_spec p).2.2

/-! ## prefix filter -/

theorem isPrefixOf_append_left (d a b : Bytes) : (d ++ a).isPrefixOf (d ++ b) = a.isPrefixOf b := by
  induction d with
  | nil => rfl
  | cons x xs ih => simp [ih]

/-- a prefix without `/` of `name ++ "/"` is a prefix of `name` -/
theorem isPrefixOf_snoc_slash (pre name : Bytes) (h : (47 : UInt8) ∉ pre) :
    pre.isPrefixOf (name ++ [47]) = pre.isPrefixOf name := by
  induction pre generalizing name with
  | nil => simp
  | cons x xs ih =>
    cases name with
    | nil =>
      have hx : x ≠ 47 := fun e => h (by simp [e])
      simp [List.isPrefixOf, hx]
    | cons y ys =>
      simp only [List.cons_append, List.isPrefixOf]
      rw [ih ys (fun hm => h (List.mem_cons_of_mem _ hm))]

end C43
