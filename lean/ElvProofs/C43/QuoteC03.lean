/-
C43 helper lemmas, part 9 (round 2): the quoting functions of
`ElvModel/C43/Quote.lean` ARE the functions of the C03 model
(`ElvModel/C03/Model.lean`) — one quoting model for both properties.

C43's copy is written without outcomes (structural `skip` counter instead of
fuel, Boolean folds instead of the `range` loop with early return); C03's has
the Go partial operations explicit (`QRes.ok | panic | fuel`).  Every function
is proved equal to its C03 counterpart returning `.ok`.
-/
import ElvProofs.C43.Words
import ElvModel.C03.Model
namespace C43
open Go C01
open Gen.C01Chars

theorem hexLower_eq (d : Nat) : hexLower d = C03.hexDigitByte d := by
  unfold hexLower C03.hexDigitByte
  split
  · rfl
  · congr 1; omega

theorem rtohex_eq : ∀ (w r : Nat), rtohex r w = C03.rtohex r w
  | 0, _ => rfl
  | w + 1, r => by
    simp only [rtohex, C03.rtohex, rtohex_eq w, hexLower_eq]

/-- the two ways of building `doubleUnescape` give the same table -/
theorem doubleUnescape_eq : doubleUnescape = C03.doubleUnescape := by decide

theorem dqPiece_eq (isPrint : Int → Bool) (r w : Nat) (b0 : UInt8) :
    dqPiece isPrint r w b0 = C03.dqPiece isPrint b0 r w := by
  unfold dqPiece C03.dqPiece
  simp only [rtohex_eq, doubleUnescape_eq]
  rfl

theorem quoteSingle_eq (s : Bytes) : quoteSingle s = C03.quoteSingle s := by
  unfold quoteSingle quoteSingleBody C03.quoteSingle toRunes
  rw [List.flatMap_map]
  rfl

/-- C03's fuel loop with the explicit bound check returns, and appends what
C43's structural loop computes -/
theorem quoteDoubleLoop_eq (isPrint : Int → Bool) :
    ∀ (fuel : Nat) (s buf : Bytes), s.length ≤ fuel →
      C03.quoteDoubleLoop isPrint fuel s buf = .ok (buf ++ quoteDoubleLoop isPrint 0 s)
  | _, [], buf, _ => by cases ‹Nat› <;> simp [C03.quoteDoubleLoop, quoteDoubleLoop]
  | 0, _ :: _, _, h => by simp at h
  | fuel + 1, b0 :: t, buf, h => by
    have hle := Go.decodeRune_size_le (b0 :: t)
    have hpos := Go.decodeRune_size_pos (s := b0 :: t) (by simp)
    have hlen : ((b0 :: t).drop (decodeRune (b0 :: t)).2).length ≤ fuel := by
      rw [List.length_drop]; simp only [List.length_cons] at h ⊢; omega
    unfold C03.quoteDoubleLoop
    simp only [hle, if_true]
    rw [quoteDoubleLoop_eq isPrint fuel _ _ hlen, qdl_step, dqPiece_eq, List.append_assoc]

theorem quoteDouble_eq (isPrint : Int → Bool) (s : Bytes) :
    C03.quoteDouble isPrint s = .ok (quoteDouble isPrint s) := by
  unfold C03.quoteDouble quoteDouble
  rw [quoteDoubleLoop_eq isPrint (s.length + 1) s [34] (by omega)]
  simp [C03.QRes.map]

/-- the `range` loop with the early return, as the two Boolean folds -/
theorem scanLoop_eq (isPrint allowed : Int → Bool) :
    ∀ (l : List (Nat × Rune × Nat)) (b : Bool),
      C03.scanLoop isPrint allowed l b =
        if (l.any fun x => x.2.1 == RuneError || !isPrint (x.2.1 : Int)) then none
        else some (b && l.all fun x => allowed (x.2.1 : Int))
  | [], b => by simp [C03.scanLoop]
  | x :: l, b => by
    unfold C03.scanLoop
    by_cases hx : (x.2.1 == RuneError || !isPrint (x.2.1 : Int)) = true
    · simp [hx]
    · have hx' : (x.2.1 == RuneError || !isPrint (x.2.1 : Int)) = false := by simpa using hx
      simp only [hx', Bool.false_eq_true, if_false, List.any_cons, Bool.false_or, List.all_cons]
      rw [scanLoop_eq isPrint allowed l]
      split
      · rfl
      · cases allowed (x.2.1 : Int) <;> cases b <;> simp

theorem needsDouble_runes (isPrint : Int → Bool) (s : Bytes) :
    needsDouble isPrint s = (runes s).any fun x => x.2.1 == RuneError || !isPrint (x.2.1 : Int) := by
  unfold needsDouble toRunes
  rw [List.any_map]
  rfl

theorem isBare_runes (isPrint : Int → Bool) (b0 : UInt8) (t : Bytes) (ctx : Int) :
    isBare isPrint (b0 :: t) ctx =
      ((b0 != 126) && (runes (b0 :: t)).all fun x => allowedInBareword isPrint (x.2.1 : Int) ctx) := by
  unfold isBare toRunes
  rw [List.all_map]
  have : ((b0 :: t).head? != some 126) = (b0 != 126) := by
    simp only [List.head?_cons]
    cases h : b0 == 126 <;> simp_all [bne]
  rw [this]
  rfl

/-- **`quoteAs` is C03's `quoteAs`** (every string, style and context): C03's
function returns (no panic, enough fuel) exactly the pair C43's computes. -/
theorem quoteAs_eq (isPrint : Int → Bool) (s : Bytes) (q ctx : Int) :
    C03.quoteAs isPrint s q ctx = .ok (quoteAs isPrint s q ctx) := by
  unfold C03.quoteAs quoteAs
  by_cases hq : (q == DoubleQuoted) = true
  · simp only [hq, if_true, quoteDouble_eq, C03.QRes.map]
  · simp only [hq, Bool.false_eq_true, if_false]
    cases s with
    | nil => simp
    | cons b0 t =>
      simp only [List.isEmpty_cons, Bool.false_eq_true, if_false]
      rw [scanLoop_eq, ← needsDouble_runes]
      by_cases hnd : needsDouble isPrint (b0 :: t) = true
      · simp only [hnd, if_true, quoteDouble_eq, C03.QRes.map]
      · simp only [hnd, Bool.false_eq_true, if_false]
        rw [← isBare_runes, quoteSingle_eq]
        split <;> rfl

theorem QuoteAs_eq (isPrint : Int → Bool) (s : Bytes) (q : Int) :
    C03.QuoteAs isPrint s q = .ok (QuoteAs isPrint s q) :=
  quoteAs_eq isPrint s q strictExpr

end C43
