/-
C43 helper lemmas, part 10: the candidates `Complete` offers for file names
are exactly the matching directory entries, each once, sorted.
-/
import ElvModel.C43.Spec
import ElvProofs.C43.Words
import ElvProofs.C43.Basic
namespace C43
open Go C01
open Gen.C01Chars

/-! ## `Cook` is injective on what the generators produce -/

theorem peekOf_nil : peekOf [] = eof := rfl

theorem stops_nil (isPrint : Int → Bool) (ctx : Int) : startsIndexing isPrint (peekOf []) ctx = false := by
  simp [peekOf_nil, eof, startsIndexing, startsPrimary, allowedInBareword, allowedInVariableName]

theorem stops_space (isPrint : Int → Bool) (ctx : Int) (t : Bytes) :
    startsIndexing isPrint (peekOf (32 :: t)) ctx = false := by
  rw [peekOf_cons_ascii 32 t (by decide)]
  have : (((32 : UInt8).toNat : Nat) : Int) = 32 := by decide
  rw [this]
  simp [startsIndexing, startsPrimary, allowedInBareword, allowedInVariableName]

/-- a code suffix as the generators use it: nothing or one space -/
def PlainSuffix (s : Bytes) : Prop := s = [] ∨ s = [32]

theorem stops_suffix (isPrint : Int → Bool) (ctx : Int) (s : Bytes) (h : PlainSuffix s) :
    startsIndexing isPrint (peekOf (s ++ [])) ctx = false := by
  rcases h with rfl | rfl
  · exact stops_nil isPrint ctx
  · exact stops_space isPrint ctx []

/-- two candidates with the same insertion text are the same candidate -/
theorem quoteAs_inj (isPrint : Int → Bool) (q : Int) (a b sa sb : Bytes)
    (ha : PlainSuffix sa) (hb : PlainSuffix sb)
    (h : (QuoteAs isPrint a q).1 ++ sa = (QuoteAs isPrint b q).1 ++ sb) : a = b := by
  have h1 := quoteAs_word_rt isPrint a q 0 [] (sa ++ []) 0 [] (stops_suffix isPrint 0 sa ha)
  have h2 := quoteAs_word_rt isPrint b q 0 [] (sb ++ []) 0 [] (stops_suffix isPrint 0 sb hb)
  have hsrc : ([] : Bytes) ++ (QuoteAs isPrint a q).1 ++ (sa ++ []) = [] ++ (QuoteAs isPrint b q).1 ++ (sb ++ []) := by
    simpa using h
  rw [hsrc, h2] at h1
  have hv : ∀ {c f w t v c' f' w' t' v'}, wordNode c f w t v = wordNode c' f' w' t' v' → v = v' := by
    intro c f w t v c' f' w' t' v' hh
    simp only [wordNode, quotedNode, Node.mk.injEq, List.cons.injEq, Fields.mk.injEq] at hh
    exact hh.2.2.2.2.2.1.2.2.2.2.2.1.2.2.2.2.1.2.2.1
  simp only [Out.ok.injEq] at h1
  exact (hv h1.1).symm

/-! ## `dedup` keeps a list without repeated insertion texts -/

theorem dedupFrom_id : ∀ (prev : Option Bytes) (l : List Item),
    (∀ x ∈ l, prev ≠ some x.toInsert) → (l.map (·.toInsert)).Nodup → dedupFrom prev l = l
  | _, [], _, _ => rfl
  | prev, x :: rest, hp, hn => by
    have hx : (prev == some x.toInsert) = false := by
      have := hp x List.mem_cons_self
      simpa using this
    simp only [dedupFrom, hx, Bool.false_eq_true, if_false]
    simp only [List.map_cons, List.nodup_cons] at hn
    congr 1
    apply dedupFrom_id
    · intro y hy hxy
      simp only [Option.some.injEq] at hxy
      exact hn.1 (by rw [hxy]; exact List.mem_map_of_mem hy)
    · exact hn.2

theorem dedup_id (l : List Item) (hn : (l.map (·.toInsert)).Nodup) : dedup l = l :=
  dedupFrom_id none l (by intro x _ h; cases h) hn

/-! ## the generator against its specification -/

/-- what `generateFileNames` makes of an entry that passes -/
def entryRaw (dir : Bytes) (e : Entry) : Raw :=
  if e.dirLike then { stem := dir ++ e.name ++ [47], suffix := [] } else { stem := dir ++ e.name, suffix := [32] }

theorem fileItem_eq (dir pre : Bytes) (x : Bool) (e : Entry) :
    fileItem dir pre x e =
      if e.infoOk && (dotfile pre == dotfile e.name) && (!x || e.exec || e.isDir) then some (entryRaw dir e)
      else none := by
  unfold fileItem entryRaw
  cases h1 : e.infoOk <;> cases h2 : (dotfile pre == dotfile e.name) <;> cases h3 : x <;>
    cases h4 : e.exec <;> cases h5 : e.isDir <;> cases h6 : e.dirLike <;>
    simp_all [bne]

theorem entryRaw_stem (dir : Bytes) (e : Entry) :
    (entryRaw dir e).stem = dir ++ e.name ++ (if e.dirLike then [47] else []) := by
  unfold entryRaw; split <;> simp

theorem entryRaw_suffix (dir : Bytes) (e : Entry) : PlainSuffix (entryRaw dir e).suffix := by
  unfold entryRaw PlainSuffix; split <;> simp

theorem entryRaw_noQuote (dir : Bytes) (e : Entry) : (entryRaw dir e).noQuote = false := by
  unfold entryRaw; split <;> rfl

/-- the prefix filter on a file candidate is the prefix test on the name -/
theorem prefix_entry (seed : Bytes) (e : Entry) :
    seed.isPrefixOf (entryRaw (splitPath seed).1 e).stem = (splitPath seed).2.isPrefixOf e.name := by
  rw [entryRaw_stem]
  conv => lhs; arg 1; rw [← splitPath_append seed]
  rw [List.append_assoc, isPrefixOf_append_left]
  split
  · exact isPrefixOf_snoc_slash _ _ (splitPath_file_noslash seed)
  · simp

/-- the candidates that survive the prefix filter, in listing order -/
theorem filtered_eq (seed : Bytes) (x : Bool) : ∀ listing : List Entry,
    filterPrefix seed (listing.filterMap (fileItem (splitPath seed).1 (splitPath seed).2 x)) =
      (listing.filter fun e => e.infoOk && (dotfile (splitPath seed).2 == dotfile e.name) &&
        (!x || e.exec || e.isDir) && (splitPath seed).2.isPrefixOf e.name).map (entryRaw (splitPath seed).1)
  | [] => rfl
  | e :: rest => by
    have ih := filtered_eq seed x rest
    unfold filterPrefix at ih ⊢
    rw [List.filterMap_cons, fileItem_eq]
    by_cases hc : (e.infoOk && (dotfile (splitPath seed).2 == dotfile e.name) && (!x || e.exec || e.isDir)) = true
    · simp only [hc, if_true, List.filter_cons, prefix_entry, Bool.true_and]
      split
      · rw [List.map_cons, ih]
      · exact ih
    · have hc' : (e.infoOk && (dotfile (splitPath seed).2 == dotfile e.name) && (!x || e.exec || e.isDir)) = false := by
        simpa using hc
      simp only [hc', Bool.false_eq_true, if_false, List.filter_cons, Bool.false_and]
      exact ih

theorem fileStems_eq (listing : List Entry) (dir pre : Bytes) (x : Bool) :
    fileStems listing dir pre x =
      ((listing.filter fun e => e.infoOk && (dotfile pre == dotfile e.name) && (!x || e.exec || e.isDir) &&
        pre.isPrefixOf e.name).map (entryRaw dir)).map (·.stem) := by
  unfold fileStems
  rw [List.map_map]
  congr 1
  funext e
  simp [entryRaw_stem]

/-- distinct names (without `/`) give distinct stems -/
theorem stem_inj (dir : Bytes) (e1 e2 : Entry) (h1 : (47 : UInt8) ∉ e1.name) (h2 : (47 : UInt8) ∉ e2.name)
    (h : (entryRaw dir e1).stem = (entryRaw dir e2).stem) : e1.name = e2.name := by
  rw [entryRaw_stem, entryRaw_stem, List.append_assoc, List.append_assoc] at h
  have h' := List.append_cancel_left h
  by_cases d1 : e1.dirLike = true <;> by_cases d2 : e2.dirLike = true <;>
    simp only [d1, d2, if_true, if_false, Bool.false_eq_true, List.append_nil] at h'
  · exact List.append_cancel_right h'
  · exfalso; apply h2; rw [← h']; simp
  · exfalso; apply h1; rw [h']; simp
  · exact h'

end C43
