/-
C04 — the text printed by repr evaluates back to an eq value; map entries
print in an order that depends only on the contents of the map.
Property theorems (helpers in ElvProofs/C04/*).

Objects: `C04.repr L fixed v indent` = `vals.Repr(v, indent)` (`indent =
C04.minInt` is `ReprPlain`, `indent ≥ 0` pretty printing; `fixed = true` is
the tree with fixes/C04-repr-map-tiebreak.patch), `C04.evalLit isPrint text` =
the value `put <text>` outputs (parser of C01 + the literal evaluator),
`C04.canon L v` = `v` with NaN payloads normalised and every map re-built in
printed order, `C08.Equal` = `vals.Equal`.  `L : Lib` = `unicode.IsPrint`,
strconv's two shortest float formats, the address order of the type descriptors.
-/
import ElvProofs.C04.Full
open Go C08 C09 C04

/-- A value of the fragment with ARBITRARY strings (what C04 quantifies over):
exact numbers in elvish's own representation, floats under C05's strconv
hypothesis `C05.strconvOKAt` (the library hypothesis of `C05_float_roundtrip`,
stated once for both properties; round 1's extra alphabet condition
`floatHypOK` is derived from it: `C04_float_hypothesis_is_C05`). -/
def C04_Frag (L : Lib) : Val → Prop
  | .nil | .bool _ | .str _ => True
  | .int i => C05.fitsInt i = true
  | .bigint i => C05.fitsInt i = false
  | .rat q => q.den ≠ 1
  | .float b => C05.strconvOKAt L.fmt b.toNat = true
  | .list xs => ∀ x ∈ xs, C04_Frag L x
  | .map false kvs => ∀ p ∈ kvs, C04_Frag L p.1 ∧ C04_Frag L p.2
  | .map true _ | .ref _ _ => False
decreasing_by
  all_goals simp_wf
  · have := List.sizeOf_lt_of_mem ‹x ∈ xs›; omega
  · have := List.sizeOf_lt_of_mem ‹p ∈ kvs›
    have : sizeOf p.1 < sizeOf p := by cases p; simp; omega
    omega
  · have := List.sizeOf_lt_of_mem ‹p ∈ kvs›
    have : sizeOf p.2 < sizeOf p := by cases p; simp; omega
    omega

/-- The conclusions of C04 for one value: (1) the text of `v` at every indent
(plain and pretty) evaluates to `canon v`; (2) `canon v` is eq to `v` when `v`
holds no NaN (eq never identifies numbers of different kinds, so every number
keeps its exact/inexact type); (3) a map prints the same text whatever the
order of its entries. -/
def C04_Holds (L : Lib) (v : Val) : Prop :=
  (∀ indent : Int, evalLit L.isPrint (C04.repr L true v indent) = some (canon L v)) ∧
  (NaNFree v → Equal v (canon L v) = true) ∧
  (∀ kvs kvs' indent, v = .map false kvs → (∀ p ∈ kvs, NaNFree p.1) → kvs'.Perm kvs →
    C04.repr L true (.map false kvs') indent = C04.repr L true (.map false kvs) indent)

/-- The property at full strength on the model: every well-formed value of the
fragment — ARBITRARY byte strings (non-ASCII runes, control characters,
invalid UTF-8, U+FFFD included) — and every `unicode.IsPrint`. -/
def C04_full : Prop :=
  ∀ (L : Lib), (∀ s t, L.rank s = L.rank t → s = t) → ∀ v : Val, C04_Frag L v → WF v → C04_Holds L v

/-- C04's local model of `parse.Quote` (`C04.quote`, what `repr` prints for a
string) is C03's model `C03.Quote`, for every byte string and every `IsPrint`:
the quoting property C03 and this property speak about the same function. -/
theorem C04_quote_is_C03 (isPrint : Int → Bool) (s : Bytes) :
    C03.Quote isPrint s = .ok (C04.quote isPrint s) :=
  quote_eq_C03 isPrint s

-- a concrete instance, evaluated on both models: `\xff`, newline, `'` ↦ `"\xff\n'"`
example : C04.quote C03_asciiPrint [255, 10, 39] = [34, 92, 120, 102, 102, 92, 110, 39, 34] ∧
    C03.Quote C03_asciiPrint [255, 10, 39] = .ok [34, 92, 120, 102, 102, 92, 110, 39, 34] := by decide

/-- The string leaf, for EVERY byte string (round 1 had it as the hypothesis
`StrOK`): wherever `parse.Quote s` stands in a source — as a list element /
map value (`NormalExpr`) or as a map key (`LHSExpr`), in front of any text that
cannot continue a primary — the parser reads exactly that text as one primary
whose value is `s`, from any parser state satisfying the C01 invariant.
Proved from C03's lemmas (`C03.DQ`/`dq_piece_step`, `scanLoop_some`, …). -/
theorem C04_string_leaf (e : C01.Env) (s : Bytes) : StrOK e s := strOK_all s

-- non-vacuity of `C04_string_leaf` (`PrimOK` has satisfiable hypotheses): the source `"\xff"]`,
-- the parser standing at its beginning in front of `"\xff"` ++ `]`; `]` cannot continue a primary
example : At { isPrint := fun _ => true, src := [34, 92, 120, 102, 102, 34, 93] }
      { pos := 0, overEOF := 0, errors := [] } (C04.quote (fun _ => true) [255] ++ [93]) ∧
    Stop (fun _ => true) Gen.C01Chars.NormalExpr [93] :=
  ⟨⟨C01.inv_init _, by decide⟩, ⟨by decide⟩⟩

/-- The float hypothesis of round 1 (`floatHypOK` = C05's `strconvOKAt` AND
"`formatFloat64`'s text is made of number bytes", what the driver evaluates on
Go's actual outputs for every float) is just C05's `strconvOKAt`: under it the
text is accepted by `ParseNum` (`C05_float_roundtrip`), and whatever `ParseNum`
accepts is written in the number alphabet (`C05.parseNum_all`). -/
theorem C04_float_hypothesis_is_C05 (L : Lib) (b : UInt64) :
    floatHypOK L b = C05.strconvOKAt L.fmt b.toNat :=
  floatHypOK_eq_strconv L b

-- non-vacuity: a library for which `0.0` satisfies the hypothesis (`0` / `0e+00`)
example : C05.strconvOKAt (⟨fun _ => [48], fun _ => [48, 101, 43, 48, 48]⟩ : C05.Strconv) (0 : UInt64).toNat = true := by
  decide +kernel

/-- the fragment of `C04_full` unfolds as `FragLike` asks -/
theorem C04_frag_like (L : Lib) : FragLike L (C04_Frag L) where
  int i h := by simpa [C04_Frag] using h
  bigint i h := by simpa [C04_Frag] using h
  rat q h := by simpa [C04_Frag] using h
  float b h := by simpa [C04_Frag] using h
  list xs h := by simpa [C04_Frag] using h
  map kvs h := by
    intro p hp
    rw [C04_Frag] at h
    exact h p hp
  fmap kvs h := by simp [C04_Frag] at h
  ref a b h := by simp [C04_Frag] at h

/-- The round trip with the leaf conditions as hypotheses (`GoodAll`: `StrOK`
for every string inside, exact numbers canonical, floats under the strconv
hypothesis), in plain AND pretty mode (every indent).  This is the induction
on the value; round 1 stopped here because `StrOK` was proved for
printable-ASCII strings only.  `C04_roundtrip` below discharges `GoodAll` for
the whole fragment; the name is kept from round 1. -/
theorem C04_roundtrip_partial (L : Lib) (hinj : ∀ s t, L.rank s = L.rank t → s = t) (v : Val)
    (hg : GoodAll L v) (hwf : WF v) : C04_Holds L v := by
  refine ⟨fun indent => evalLit_repr L v hg indent, fun hnf => (canonOK L v hwf hnf).eq, ?_⟩
  intro kvs kvs' indent hv hnf hperm
  subst hv
  exact repr_map_perm_good L hinj kvs kvs' indent hg hwf hnf hperm

/-- **C04 at full strength**: for every library `L` (rank injective), every
well-formed value `v` of the fragment with ARBITRARY byte strings — no
hypothesis on the strings — (1) at every indent, `put <repr v>` parses without
error and evaluates to `canon v`; (2) `canon v` is eq to `v` when `v` holds no
NaN; (3) a map prints the same text for every order of its entries. -/
theorem C04_roundtrip : C04_full := by
  intro L hinj v hf hwf
  exact C04_roundtrip_partial L hinj v (goodAll_of_frag (C04_frag_like L) v hf) hwf

-- non-vacuity: `[&"\xff\n"=['é' '' "\ufffd" 'a b' (num 1)] &(num 1/2)=[&]]` is in the fragment
-- (invalid UTF-8, a control character, a non-ASCII rune, the empty string, U+FFFD)
example (L : Lib) : C04_Frag L (.map false [(.str [255, 10], .list [.str [0xC3, 0xA9], .str [],
    .str [0xEF, 0xBF, 0xBD], .str [97, 32, 98], .int 1]), (.rat (mkRat 1 2), .map false [])]) := by
  simp only [C04_Frag, List.mem_cons, List.not_mem_nil, or_false, forall_eq_or_imp, forall_eq, and_true]
  refine ⟨by decide, ?_, fun _ h => h.elim⟩
  show (mkRat 1 2).den ≠ 1
  decide

/-- C04 for values whose strings are printable ASCII (barewords and
single-quoted strings) — round 1's unconditional theorem, now an instance of
`C04_roundtrip` (kept; its own proof does not go through C03). -/
theorem C04_roundtrip_ascii (L : Lib) (hinj : ∀ s t, L.rank s = L.rank t → s = t)
    (hp : IsPrintAscii L.isPrint) (v : Val) (hf : AsciiFrag L v) (hwf : WF v) : C04_Holds L v :=
  C04_roundtrip_partial L hinj v (goodAll_of_ascii hp v hf) hwf

-- non-vacuity: `[&a=[x 'b c' (num 1)] &(num 0)=$nil &(num 1/2)=[&]]` is in the ASCII fragment
example (L : Lib) : AsciiFrag L (.map false [(.str [97], .list [.str [120], .str [98, 32, 99], .int 1]),
    (.int 0, .nil), (.rat (mkRat 1 2), .map false [])]) := by
  simp only [AsciiFrag, AsciiFragEntries, AsciiFragList, PrintableAscii, and_true, true_and]
  refine ⟨by decide, ⟨by decide, by decide, by decide⟩, by decide, ?_⟩
  show (mkRat 1 2).den ≠ 1
  decide

/-- (2) alone: the value read back is eq to the original, for every
well-formed value without NaN (field maps and identity kinds included). -/
theorem C04_readback_eq (L : Lib) (v : Val) (hwf : WF v) (hnf : NaNFree v) : Equal v (canon L v) = true :=
  (canonOK L v hwf hnf).eq

/-- Every number keeps its representation (int / big int / rational /
float64), NaN reads back as NaN, any other float bit for bit (−0.0 included). -/
theorem C04_number_kind (L : Lib) (v : Val) :
    numType (canon L v) = numType v ∧
    ∀ b, v = .float b → ∃ b', canon L v = .float b' ∧ F64.isNaN b' = F64.isNaN b ∧
      (F64.isNaN b = false → b' = b) := by
  constructor
  · cases v with
    | map f kvs => cases f <;> simp [canon, numType]
    | _ => simp [canon, numType]
  · intro b hb
    subst hb
    refine ⟨canonFloat b, by simp [canon], ?_, ?_⟩
    · unfold canonFloat
      split
      · next h => rw [h]; decide
      · rfl
    · intro h; simp [canonFloat, h]

/-- … at every depth: the elements of the list read back are the elements read
back, the entries of the map read back are the entries read back (in printed order). -/
theorem C04_canon_structure (L : Lib) :
    (∀ xs, canon L (.list xs) = .list (xs.map (canon L))) ∧
    (∀ kvs, canon L (.map false kvs) =
      .map false (assocAll ((isort (pairLess L) kvs).map fun p => (canon L p.1, canon L p.2)) [])) :=
  ⟨fun xs => by rw [canon, canonList_eq_map], fun kvs => canon_map_sorted L kvs⟩

/-- (3) for ANY correct sort: whatever permutation of the collected pairs
`sort.Slice` returns, if it is sorted by the comparator of `reprMap` it is the
one the model prints — as long as the comparator tells any two keys apart
(`KeysSeparated`: by `CmpTotal`, or else by plain text). -/
theorem C04_any_sorted_permutation (L : Lib) (hinj : ∀ s t, L.rank s = L.rank t → s = t)
    (kvs : List (Val × Val)) (indent : Int) (hwf : ∀ p ∈ kvs, WF p.1) (hsep : KeysSeparated L kvs)
    (p : List Entry) (hperm : p.Perm (kvs.map (entryOf L true indent)))
    (hsorted : p.Pairwise (fun a b => entryLess L.rank true b a = false)) :
    p = isort (entryLess L.rank true) (kvs.map (entryOf L true indent)) :=
  sorted_entries_unique L hinj kvs indent hwf hsep p hperm hsorted

/-- (3) with the separation of the keys as the only hypothesis (no hypothesis
on strings or numbers): the text of a map is the same for every order of its entries. -/
theorem C04_order_partial (L : Lib) (hinj : ∀ s t, L.rank s = L.rank t → s = t)
    (kvs kvs' : List (Val × Val)) (indent : Int) (hwf : ∀ p ∈ kvs, WF p.1) (hsep : KeysSeparated L kvs)
    (hperm : kvs'.Perm kvs) :
    C04.repr L true (.map false kvs') indent = C04.repr L true (.map false kvs) indent :=
  repr_map_perm L hinj kvs kvs' indent hwf hsep hperm

/-- Why (3) speaks about permutations of the entries and not about eq maps:
`[&(num 0.0)=a]` and `[&(num -0.0)=a]` are eq (`0.0` and `-0.0` are the same
key) and print differently — as they must, both texts read back bit for bit. -/
theorem C04_eq_maps_print_differently :
    Equal (.map false [(.float 0, .str [97])]) (.map false [(.float 0x8000000000000000, .str [97])]) = true ∧
    C04.repr { isPrint := fun _ => true, fmt := ⟨fun b => if b = 0 then [48] else [45, 48], fun _ => []⟩, rank := id }
        true (.map false [(.float 0, .str [97])]) minInt ≠
      C04.repr { isPrint := fun _ => true, fmt := ⟨fun b => if b = 0 then [48] else [45, 48], fun _ => []⟩, rank := id }
        true (.map false [(.float 0x8000000000000000, .str [97])]) minInt := by
  constructor
  · simp [Equal, entriesEq, lookupEq]
    decide
  · decide +kernel

/-- a concrete library for the examples: ASCII `IsPrint`, `0.0` formats as `0` / `0e+00` -/
def C04_L0 : Lib :=
  { isPrint := fun r => decide (32 ≤ r ∧ r ≤ 126), fmt := ⟨fun _ => [48], fun _ => [48, 101, 43, 48, 48]⟩, rank := id }

/-- The unchanged tree (`fixed = false`: ties of `CmpTotal` stay in iteration
order) violates (3): `[&(num 0)=x &(num 0.0)=y]` prints differently when the
same two entries arrive in the other order — `(num 0)` and `(num 0.0)` are not
eq, but `CmpTotal` calls them equal, and both hash to 0, so the hash map hands
them over in insertion order.  Witness replayed on the real code by
harness/corpus/C04.txt. -/
theorem C04_counterexample :
    C04.repr C04_L0 false (.map false [(.int 0, .str [120]), (.float 0, .str [121])]) minInt ≠
    C04.repr C04_L0 false (.map false [(.float 0, .str [121]), (.int 0, .str [120])]) minInt := by
  decide +kernel

/-- … and the fixed tree prints both orders the same way (instance of `C04_order_partial`). -/
theorem C04_counterexample_fixed :
    C04.repr C04_L0 true (.map false [(.int 0, .str [120]), (.float 0, .str [121])]) minInt =
    C04.repr C04_L0 true (.map false [(.float 0, .str [121]), (.int 0, .str [120])]) minInt := by
  decide +kernel

-- non-vacuity of `KeysSeparated`: the two keys of the witness tie in CmpTotal and are separated by text
example : KeysSeparated C04_L0 [(.int 0, .str [120]), (.float 0, .str [121])] := by
  unfold KeysSeparated
  refine List.Pairwise.cons ?_ (List.Pairwise.cons (by intro _ h; cases h) List.Pairwise.nil)
  intro q hq
  have : q = (.float 0, .str [121]) := by simpa using hq
  subst this
  exact Or.inr (by decide +kernel)
