/-
C13 — Indexing and slicing follow the language reference exactly.
Property theorems.  Spec: ElvModel/C13/Spec.lean (`Ref.RefIndex`, written from
the reference); model: ElvModel/C13/Model.lean (+ generated
`Gen.C13Index.adjustAndCheckIndex`).  Helper lemmas: ElvProofs/C13/*.lean.

`n < 2^62` (as a hypothesis on a length) stands for "n is the length of a Go
value": it keeps `n + 1`, `-n` and `i + n` inside int64, where the model's
unbounded `Int` arithmetic coincides with Go's.
-/
import ElvModel.C13.Model
import ElvProofs.C13.Convert
import ElvProofs.C13.Lists
import ElvProofs.C13.StringIndex
open Go C13 C13.Ref

/-! ## Index conversion -/

/-- Full statement for index conversion: for every length, every raw index
value (typed int, any byte string, any other type) the code's
`ConvertListIndex` yields exactly the selection the reference prescribes, and an
exception (never a panic) for everything the reference rules out. -/
def C13_full_convert : Prop :=
  ∀ (n : Nat) (raw : Raw) (r : Option Sel), (n : Int) < 4611686018427387904 →
    RefIndex n raw r → Agrees (convertListIndex raw n) r

theorem C13_convert_refines_reference : C13_full_convert := by
  intro n raw r hn href
  cases raw with
  | int i => simp only [RefIndex] at href; subst href; exact convert_int n i
  | other =>
    simp only [RefIndex] at href; subst href
    simp [convertListIndex, C13.throw, Agrees]
  | str s =>
    rcases href with ⟨idx, hp, rfl⟩ | ⟨hno, rfl⟩
    · cases hp with
      | elem hi => exact convert_elem hi n hn
      | excl hlo hhi => exact convert_slice false hlo hhi n hn
      | incl hlo hhi => exact convert_slice true hlo hhi n hn
    · cases h : convertListIndex (.str s) (n : Int) with
      | ok ix => exact absurd (parses_of_convert_ok h) hno
      | exc e => trivial
      | panic w => exact absurd h (convert_no_panic _ _ w)

-- non-vacuity: `1..=2` on a list of 4 selects [1, 3); `..=-1` reaches the end; `5` is ruled out
example : RefIndex 4 (.str [49, 46, 46, 61, 50]) (some (.range 1 3)) :=
  .inl ⟨.slice (some 1) (some 2) true,
    .incl (lo := [49]) (hi := [50]) (.given (.plain [49] (by simp) (by decide))) (.given (.plain [50] (by simp) (by decide))),
    by decide⟩
example : RefIndex 4 (.str [46, 46, 61, 45, 49]) (some (.range 0 4)) :=
  .inl ⟨.slice none (some (-1)) true,
    .incl (lo := []) (hi := [45, 49]) .omitted (.given (.minus [49] (by simp) (by decide))),
    by decide⟩
example : RefIndex 4 (.int 5) none := by show none = select 4 (.elem 5); decide
set_option maxRecDepth 8192 in
example : convertListIndex (.str [49, 46, 46, 61, 50]) 4 = .ok ⟨true, 1, 3⟩ := by decide

/-- The reference's reading of a string index is unambiguous (consequence of the refinement). -/
theorem C13_reference_functional (n : Nat) (raw : Raw) (r1 r2 : Option Sel)
    (hn : (n : Int) < 4611686018427387904) (h1 : RefIndex n raw r1) (h2 : RefIndex n raw r2) : r1 = r2 := by
  have a1 := C13_convert_refines_reference n raw r1 hn h1
  have a2 := C13_convert_refines_reference n raw r2 hn h2
  clear h1 h2
  cases h : convertListIndex raw (n : Int) with
  | panic w => rw [h] at a1; cases r1 <;> simp [Agrees] at a1
  | exc e =>
    rw [h] at a1 a2; clear h
    cases r1 <;> cases r2 <;> simp_all [Agrees]
  | ok ix =>
    rw [h] at a1 a2; clear h
    rcases r1 with _ | ⟨k1 | ⟨l1, u1⟩⟩ <;> rcases r2 with _ | ⟨k2 | ⟨l2, u2⟩⟩ <;>
      simp only [Agrees] at a1 a2
    · obtain ⟨-, e1⟩ := a1; obtain ⟨-, e2⟩ := a2
      have : k1 = k2 := by omega
      subst this; rfl
    · obtain ⟨s1, -⟩ := a1; obtain ⟨s2, -⟩ := a2
      rw [s1] at s2; cases s2
    · obtain ⟨s1, -⟩ := a1; obtain ⟨s2, -⟩ := a2
      rw [s1] at s2; cases s2
    · obtain ⟨-, e1, f1⟩ := a1; obtain ⟨-, e2, f2⟩ := a2
      have : l1 = l2 := by omega
      have : u1 = u2 := by omega
      subst_vars; rfl

/-- Range lemma: whatever `ConvertListIndex` returns lies in `[0, n]`, ordered, so
`SubVector` / `s[i:j]` are always called in bounds (any `n ≥ 0`, any raw value). -/
theorem C13_bounds_in_range (raw : Raw) (n : Int) (ix : ListIndex) (hn : 0 ≤ n)
    (h : convertListIndex raw n = .ok ix) :
    0 ≤ ix.lower ∧ (ix.slice = true → ix.lower ≤ ix.upper ∧ ix.upper ≤ n) ∧
      (ix.slice = false → ix.lower < n) :=
  convert_bounds hn h

set_option maxRecDepth 8192 in
example : convertListIndex (.str [45, 49]) 3 = .ok ⟨false, 2, 0⟩ := by decide

/-- Panic-freedom of the conversion, for every raw value and every `n`. -/
theorem C13_convert_no_panic (raw : Raw) (n : Int) (w : String) : convertListIndex raw n ≠ .panic w :=
  convert_no_panic raw n w

/-! ## Lists -/

/-- Indexing a list returns exactly the element / sub-list the reference
specifies and raises an exception for every index it rules out. -/
theorem C13_list_index {α} (l : List α) (raw : Raw) (r : Option Sel)
    (hlen : (l.length : Int) < 4611686018427387904) (href : RefIndex l.length raw r) :
    match r with
    | some (.elem k) => ∃ v, l[k]? = some v ∧ indexList l raw = .ok (.elem v)
    | some (.range lo hi) => indexList l raw = .ok (.list ((l.drop lo).take (hi - lo)))
    | none => ∃ e, indexList l raw = .exc e := by
  have ha := C13_convert_refines_reference l.length raw r hlen href
  rcases r with _ | ⟨k | ⟨lo, hi⟩⟩
  · obtain ⟨e, he⟩ := agrees_none ha
    exact ⟨e, by simp [indexList, he, bind, Res.bind]⟩
  · obtain ⟨u, hu⟩ := agrees_elem ha
    have hk := refIndex_elem_lt href
    refine ⟨l[k], by simp [hk], ?_⟩
    simp [indexList, hu, bind, Res.bind, pure, vecIndex_nat l k hk]
  · have hu := agrees_range_inv ha
    obtain ⟨h1, h2⟩ := refIndex_range_le href
    simp [indexList, hu, bind, Res.bind, pure, vecSubVector_nat l lo hi h1 h2]

set_option maxRecDepth 8192 in
example : indexList [10, 11, 12, 13] (.str [49, 46, 46, 61, 50]) = .ok (.list [11, 12]) := by decide
set_option maxRecDepth 8192 in
example : indexList [10, 11, 12, 13] (.int (-1)) = .ok (.elem 13) := by decide

/-- `assoc` / `set $x[i] = v` on a list: changes exactly the addressed element
(same length, position `k` holds `v`, every other position is unchanged); a
slice or a ruled-out index is an exception. -/
theorem C13_list_assoc {α} (l : List α) (raw : Raw) (v : α) (r : Option Sel)
    (hlen : (l.length : Int) < 4611686018427387904) (href : RefIndex l.length raw r) :
    match r with
    | some (.elem k) =>
      ∃ l', assocList l raw v = .ok (some l') ∧ l'.length = l.length ∧ l'[k]? = some v ∧
        ∀ j, j ≠ k → l'[j]? = l[j]?
    | _ => ∃ e, assocList l raw v = .exc e := by
  have ha := C13_convert_refines_reference l.length raw r hlen href
  rcases r with _ | ⟨k | ⟨lo, hi⟩⟩
  · obtain ⟨e, he⟩ := agrees_none ha
    exact ⟨e, by simp [assocList, he, bind, Res.bind]⟩
  · obtain ⟨u, hu⟩ := agrees_elem ha
    have hk := refIndex_elem_lt href
    refine ⟨l.set k v, ?_, by simp, by simp [hk], ?_⟩
    · simp [assocList, hu, bind, Res.bind, pure, vecAssoc_nat l k v hk]
    · intro j hj
      simp [List.getElem?_set, Ne.symm hj]
  · have hu := agrees_range_inv ha
    refine ⟨Err.assocWithSlice.render, ?_⟩
    simp only [assocList, hu, bind, Res.bind, C13.throw, if_true]

set_option maxRecDepth 8192 in
example : assocList [10, 11, 12] (.int (-1)) 99 = .ok (some [10, 11, 99]) := by decide
set_option maxRecDepth 8192 in
example : assocList [10, 11, 12] (.str [46, 46]) 99 = .exc Err.assocWithSlice.render := by decide

/-! ## Strings

A valid UTF-8 string is `encodeRunes cs` for a list `cs` of Unicode scalar
values (`ValidRunes cs`); `Boundary cs i` / `StartsAt cs i k` are the code
point boundaries of that string (Spec.lean).  The model is index_string.go
with fixes/C13-fffd-boundary.patch applied; U+FFFD needs no special case in
any statement below. -/

/-- Shared core: what `convertStringIndex` returns for each selection of the reference. -/
theorem C13_string_convert (cs : List Rune) (hv : ValidRunes cs) (raw : Raw) (r : Option Sel)
    (hlen : ((encodeRunes cs).length : Int) < 4611686018427387904)
    (href : RefIndex (encodeRunes cs).length raw r) :
    match r with
    | some (.elem i) =>
      (∀ k c, StartsAt cs i k → cs[k]? = some c →
        convertStringIndex raw (encodeRunes cs) = .ok ((i : Int), ((i + (encodeRune c).length : Nat) : Int))) ∧
      (¬ Boundary cs i → ∃ e, convertStringIndex raw (encodeRunes cs) = .exc e)
    | some (.range lo hi) =>
      (Boundary cs lo ∧ Boundary cs hi →
        convertStringIndex raw (encodeRunes cs) = .ok ((lo : Int), (hi : Int))) ∧
      (¬ (Boundary cs lo ∧ Boundary cs hi) → ∃ e, convertStringIndex raw (encodeRunes cs) = .exc e)
    | none => ∃ e, convertStringIndex raw (encodeRunes cs) = .exc e := by
  have ha := C13_convert_refines_reference _ raw r hlen href
  rcases r with _ | ⟨i | ⟨lo, hi⟩⟩
  · obtain ⟨e, he⟩ := agrees_none ha
    exact ⟨e, by simp [convertStringIndex, he, bind, Res.bind]⟩
  · obtain ⟨u, hu⟩ := agrees_elem ha
    have hi := refIndex_elem_lt href
    constructor
    · intro k c hs hk
      have := convertString_elem_start hv hu hs
      have hck : cs[k]! = c := by simp [hk]
      rw [hck] at this
      rw [this]; simp
    · intro hnb
      exact ⟨_, convertString_elem_bad hv hu hi hnb⟩
  · have hu := agrees_range_inv ha
    obtain ⟨h1, h2⟩ := refIndex_range_le href
    exact ⟨fun hb => convertString_slice_ok hv hu h1 h2 hb.1 hb.2,
      fun hb => ⟨_, convertString_slice_bad hv hu h1 h2 hb⟩⟩

/-- Indexing a valid UTF-8 string: an element index must be where a code point
starts and yields exactly that code point; a slice must begin and end at code
point boundaries and yields exactly that byte range; everything else — off a
boundary, or ruled out by the reference — is an exception. -/
theorem C13_string_index (cs : List Rune) (hv : ValidRunes cs) (raw : Raw) (r : Option Sel)
    (hlen : ((encodeRunes cs).length : Int) < 4611686018427387904)
    (href : RefIndex (encodeRunes cs).length raw r) :
    match r with
    | some (.elem i) =>
      (∀ k c, StartsAt cs i k → cs[k]? = some c →
        indexString (encodeRunes cs) raw = .ok (encodeRune c)) ∧
      (¬ Boundary cs i → ∃ e, indexString (encodeRunes cs) raw = .exc e)
    | some (.range lo hi) =>
      (Boundary cs lo ∧ Boundary cs hi →
        indexString (encodeRunes cs) raw = .ok (((encodeRunes cs).drop lo).take (hi - lo))) ∧
      (¬ (Boundary cs lo ∧ Boundary cs hi) → ∃ e, indexString (encodeRunes cs) raw = .exc e)
    | none => ∃ e, indexString (encodeRunes cs) raw = .exc e := by
  have hcv := C13_string_convert cs hv raw r hlen href
  rcases r with _ | ⟨i | ⟨lo, hi⟩⟩
  · obtain ⟨e, he⟩ := hcv
    exact ⟨e, indexString_of_convert_exc he⟩
  · obtain ⟨h1, h2⟩ := hcv
    constructor
    · intro k c hs hk
      have hconv := h1 k c hs hk
      obtain ⟨hdrop, hget⟩ := drop_at_start hs
      have hck : cs[k]! = c := by simp [hk]
      rw [hck] at hdrop
      have hle : i + (encodeRune c).length ≤ (encodeRunes cs).length := by
        have := congrArg List.length hdrop
        simp only [List.length_drop, List.length_append] at this
        have hc : validRune c = true := hv c (List.mem_of_getElem? hk)
        have := encode_length_pos c hc
        omega
      rw [indexString_of_convert hconv (by omega) hle, hdrop]
      simp
    · intro hnb
      obtain ⟨e, he⟩ := h2 hnb
      exact ⟨e, indexString_of_convert_exc he⟩
  · obtain ⟨h1, h2⟩ := hcv
    obtain ⟨hle, hhi⟩ := refIndex_range_le href
    constructor
    · intro hb
      exact indexString_of_convert (h1 hb) hle hhi
    · intro hb
      obtain ⟨e, he⟩ := h2 hb
      exact ⟨e, indexString_of_convert_exc he⟩

-- non-vacuity: "a�b" (U+FFFD in the middle, bytes 61 ef bf bd 62): index 1 is the start of
-- code point 1 and yields U+FFFD; index 2 is inside it; `1..4` is that code point as a slice.
example : ValidRunes [97, 0xFFFD, 98] := by intro c hc; simp at hc; rcases hc with rfl | rfl | rfl <;> decide
example : StartsAt [97, 0xFFFD, 98] 1 1 := ⟨by decide, by decide⟩
set_option maxRecDepth 8192 in
example : indexString (encodeRunes [97, 0xFFFD, 98]) (.int 1) = .ok [0xEF, 0xBF, 0xBD] := by decide
set_option maxRecDepth 8192 in
example : indexString (encodeRunes [97, 0xFFFD, 98]) (.str [49, 46, 46, 52]) = .ok [0xEF, 0xBF, 0xBD] := by decide
set_option maxRecDepth 8192 in
example : indexString (encodeRunes [97, 0xFFFD, 98]) (.int 2) = .exc Err.notAtRuneBoundary.render := by decide

/-- `assoc` / `set $s[i] = v` on a valid UTF-8 string replaces exactly the
addressed code point (or the addressed byte range, for a slice on
boundaries) by the replacement string and leaves every other byte in place;
a replacement that is not a string, an index off a boundary or a ruled-out
index is an exception. -/
theorem C13_string_assoc (cs : List Rune) (hv : ValidRunes cs) (raw : Raw) (r : Option Sel)
    (repl : Bytes) (hlen : ((encodeRunes cs).length : Int) < 4611686018427387904)
    (href : RefIndex (encodeRunes cs).length raw r) :
    (∃ e, assocString (encodeRunes cs) raw none = .exc e) ∧
    match r with
    | some (.elem i) =>
      (∀ k c, StartsAt cs i k → cs[k]? = some c →
        assocString (encodeRunes cs) raw (some repl) =
          .ok ((encodeRunes cs).take i ++ repl ++ (encodeRunes cs).drop (i + (encodeRune c).length))) ∧
      (¬ Boundary cs i → ∃ e, assocString (encodeRunes cs) raw (some repl) = .exc e)
    | some (.range lo hi) =>
      (Boundary cs lo ∧ Boundary cs hi →
        assocString (encodeRunes cs) raw (some repl) =
          .ok ((encodeRunes cs).take lo ++ repl ++ (encodeRunes cs).drop hi)) ∧
      (¬ (Boundary cs lo ∧ Boundary cs hi) → ∃ e, assocString (encodeRunes cs) raw (some repl) = .exc e)
    | none => ∃ e, assocString (encodeRunes cs) raw (some repl) = .exc e := by
  refine ⟨assocString_nonstring _ _, ?_⟩
  have hcv := C13_string_convert cs hv raw r hlen href
  rcases r with _ | ⟨i | ⟨lo, hi⟩⟩
  · obtain ⟨e, he⟩ := hcv
    exact ⟨e, assocString_of_convert_exc _ he⟩
  · obtain ⟨h1, h2⟩ := hcv
    constructor
    · intro k c hs hk
      have hconv := h1 k c hs hk
      obtain ⟨hdrop, hget⟩ := drop_at_start hs
      have hck : cs[k]! = c := by simp [hk]
      rw [hck] at hdrop
      have hle : i + (encodeRune c).length ≤ (encodeRunes cs).length := by
        have := congrArg List.length hdrop
        simp only [List.length_drop, List.length_append] at this
        have hc : validRune c = true := hv c (List.mem_of_getElem? hk)
        have := encode_length_pos c hc
        omega
      exact assocString_of_convert repl hconv (by omega) hle
    · intro hnb
      obtain ⟨e, he⟩ := h2 hnb
      exact ⟨e, assocString_of_convert_exc _ he⟩
  · obtain ⟨h1, h2⟩ := hcv
    obtain ⟨hle, hhi⟩ := refIndex_range_le href
    constructor
    · intro hb
      exact assocString_of_convert repl (h1 hb) hle hhi
    · intro hb
      obtain ⟨e, he⟩ := h2 hb
      exact ⟨e, assocString_of_convert_exc _ he⟩

set_option maxRecDepth 8192 in
example : assocString (encodeRunes [97, 0xFFFD, 98]) (.int 1) (some [90]) = .ok [97, 90, 98] := by decide

/-- No string index or string assoc can panic — for ANY byte string (valid
UTF-8 or not), any raw index and any replacement: every Go slice expression in
index_string.go / assocString is evaluated in bounds. -/
theorem C13_string_no_panic (s : Bytes) (raw : Raw) (v : Option Bytes) (w : String) :
    indexString s raw ≠ .panic w ∧ assocString s raw v ≠ .panic w :=
  ⟨indexString_no_panic s raw w, assocString_no_panic s raw v w⟩

set_option maxRecDepth 8192 in
example : indexString [0xFF, 0x80, 0xE4] (.str [49, 46, 46]) = .exc Err.notAtRuneBoundary.render := by decide
