import ElvProofs.C18.Inv
namespace C18

theorem invCloseStop {cfg : Cfg} {s s' : State} {i : Nat}  (hinv : Inv cfg s) (hi : i < cfg.n)
    (h : stepCloseStop s i = some s') : Inv cfg s' := by
  obtain ⟨hL, hS, hc⟩ := hinv
  unfold stepCloseStop at h
  inv_step h hL hS hc i

theorem invStoreGone {cfg : Cfg} {s s' : State} {i : Nat}  (hinv : Inv cfg s) (hi : i < cfg.n)
    (h : stepStoreGone s i = some s') : Inv cfg s' := by
  obtain ⟨hL, hS, hc⟩ := hinv
  unfold stepStoreGone at h
  inv_step h hL hS hc i

theorem invCloseIn {cfg : Cfg} {s s' : State} {i : Nat}  (hinv : Inv cfg s) (hi : i < cfg.n)
    (h : stepCloseIn s i = some s') : Inv cfg s' := by
  obtain ⟨hL, hS, hc⟩ := hinv
  unfold stepCloseIn at h
  inv_step h hL hS hc i

theorem invCloseOutFile {cfg : Cfg} {s s' : State} {i : Nat}  (hinv : Inv cfg s) (hi : i < cfg.n)
    (h : stepCloseOutFile cfg s i = some s') : Inv cfg s' := by
  obtain ⟨hL, hS, hc⟩ := hinv
  unfold stepCloseOutFile at h
  inv_step h hL hS hc i

theorem invCloseOutChan {cfg : Cfg} {s s' : State} {i : Nat}  (hinv : Inv cfg s) (hi : i < cfg.n)
    (h : stepCloseOutChan cfg s i = some s') : Inv cfg s' := by
  obtain ⟨hL, hS, hc⟩ := hinv
  unfold stepCloseOutChan at h
  inv_step h hL hS hc i

end C18
