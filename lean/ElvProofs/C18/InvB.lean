import ElvProofs.C18.Inv
namespace C18

theorem invWrEpipe {cfg : Cfg} {s s' : State} {i : Nat}  (hinv : Inv cfg s) (hi : i < cfg.n)
    (h : stepWrEpipe cfg s i = some s') : Inv cfg s' := by
  obtain ⟨hL, hS, hc⟩ := hinv
  unfold stepWrEpipe at h
  inv_step h hL hS hc i

theorem invWriteEnd {cfg : Cfg} {s s' : State} {i : Nat}  (hinv : Inv cfg s) (hi : i < cfg.n)
    (h : stepWriteEnd s i = some s') : Inv cfg s' := by
  obtain ⟨hL, hS, hc⟩ := hinv
  unfold stepWriteEnd at h
  inv_step h hL hS hc i

theorem invTakeBeg {cfg : Cfg} {s s' : State} {i : Nat}  (hinv : Inv cfg s) (hi : i < cfg.n)
    (h : stepTakeBeg s i = some s') : Inv cfg s' := by
  obtain ⟨hL, hS, hc⟩ := hinv
  unfold stepTakeBeg at h
  inv_step h hL hS hc i

theorem invDeq {cfg : Cfg} {s s' : State} {i : Nat}  (hinv : Inv cfg s) (hi : i < cfg.n)
    (h : stepDeq s i = some s') : Inv cfg s' := by
  obtain ⟨hL, hS, hc⟩ := hinv
  unfold stepDeq at h
  inv_step h hL hS hc i

theorem invDeqClosed {cfg : Cfg} {s s' : State} {i : Nat}  (hinv : Inv cfg s) (hi : i < cfg.n)
    (h : stepDeqClosed s i = some s') : Inv cfg s' := by
  obtain ⟨hL, hS, hc⟩ := hinv
  unfold stepDeqClosed at h
  inv_step h hL hS hc i

theorem invTakeEnd {cfg : Cfg} {s s' : State} {i : Nat}  (hinv : Inv cfg s) (hi : i < cfg.n)
    (h : stepTakeEnd s i = some s') : Inv cfg s' := by
  obtain ⟨hL, hS, hc⟩ := hinv
  unfold stepTakeEnd at h
  inv_step h hL hS hc i

theorem invReadBeg {cfg : Cfg} {s s' : State} {i : Nat} (max : Nat) (hinv : Inv cfg s) (hi : i < cfg.n)
    (h : stepReadBeg s i max = some s') : Inv cfg s' := by
  obtain ⟨hL, hS, hc⟩ := hinv
  unfold stepReadBeg at h
  inv_step h hL hS hc i

theorem invRd {cfg : Cfg} {s s' : State} {i : Nat} (k : Nat) (hinv : Inv cfg s) (hi : i < cfg.n)
    (h : stepRd s i k = some s') : Inv cfg s' := by
  obtain ⟨hL, hS, hc⟩ := hinv
  have e1 : (s.link (i - 1)).brecvd ++ List.take k (s.link (i - 1)).pipe ++ List.drop k (s.link (i - 1)).pipe
      = (s.link (i - 1)).brecvd ++ (s.link (i - 1)).pipe := by
    rw [List.append_assoc, List.take_append_drop]
  have e2 : (List.drop k (s.link (i - 1)).pipe).length ≤ (s.link (i - 1)).pipe.length := by
    rw [List.length_drop]; omega
  have e3 : ∀ (h : (s.link (i - 1)).pipe = []), List.drop k (s.link (i - 1)).pipe = [] := by
    intro h; rw [h]; simp
  unfold stepRd at h
  inv_step h hL hS hc i

end C18
