/-
C18 — which errors `Put` and `Write` can hand to a stage: on a pipe of the
pipeline only reader-gone (never a nil error with the value silently dropped),
after a file redirection only "port does not support value output".
-/
import ElvProofs.C18.Global
namespace C18

macro "err_step" h:ident hS:ident hL:ident hE:ident i:ident : tactic => `(tactic| (
  have hSi := $hS $i
  have hLi := $hL $i
  have hEi := $hE $i
  simp only [] at $h:ident
  (repeat' split at $h:ident) <;> (first | cases $h:ident | skip)
  all_goals (intro m; have hEm := $hE m; constructor <;> (try simp only [setStage, setLink, upd, crash]) <;>
    grind [ErrInv, StageInv, LinkInv])))

theorem errStart {cfg : Cfg} {s s' : State} {j : Nat}  (hinv : Inv cfg s) (hE : ∀ j, ErrInv s j)
    (h : stepStart s j = some s') : ∀ m, ErrInv s' m := by
  obtain ⟨hL, hS, hc⟩ := hinv
  unfold stepStart at h
  err_step h hS hL hE j

theorem errPutBeg {cfg : Cfg} {s s' : State} {j : Nat} (v : Val) (hinv : Inv cfg s) (hE : ∀ j, ErrInv s j)
    (h : stepPutBeg s j v = some s') : ∀ m, ErrInv s' m := by
  obtain ⟨hL, hS, hc⟩ := hinv
  unfold stepPutBeg at h
  err_step h hS hL hE j

theorem errEnq {cfg : Cfg} {s s' : State} {j : Nat}  (hinv : Inv cfg s) (hE : ∀ j, ErrInv s j)
    (h : stepEnq cfg s j = some s') : ∀ m, ErrInv s' m := by
  obtain ⟨hL, hS, hc⟩ := hinv
  unfold stepEnq at h
  err_step h hS hL hE j

theorem errSelStop {cfg : Cfg} {s s' : State} {j : Nat}  (hinv : Inv cfg s) (hE : ∀ j, ErrInv s j)
    (h : stepSelStop cfg s j = some s') : ∀ m, ErrInv s' m := by
  obtain ⟨hL, hS, hc⟩ := hinv
  unfold stepSelStop at h
  err_step h hS hL hE j

theorem errPutEnd {cfg : Cfg} {s s' : State} {j : Nat}  (hinv : Inv cfg s) (hE : ∀ j, ErrInv s j)
    (h : stepPutEnd s j = some s') : ∀ m, ErrInv s' m := by
  obtain ⟨hL, hS, hc⟩ := hinv
  unfold stepPutEnd at h
  err_step h hS hL hE j

theorem errWriteBeg {cfg : Cfg} {s s' : State} {j : Nat} (bs : List Byte) (hinv : Inv cfg s) (hE : ∀ j, ErrInv s j)
    (h : stepWriteBeg s j bs = some s') : ∀ m, ErrInv s' m := by
  obtain ⟨hL, hS, hc⟩ := hinv
  unfold stepWriteBeg at h
  err_step h hS hL hE j

theorem errWr {cfg : Cfg} {s s' : State} {j : Nat} (k : Nat) (hinv : Inv cfg s) (hE : ∀ j, ErrInv s j)
    (h : stepWr cfg s j k = some s') : ∀ m, ErrInv s' m := by
  obtain ⟨hL, hS, hc⟩ := hinv
  unfold stepWr at h
  err_step h hS hL hE j

theorem errWrEpipe {cfg : Cfg} {s s' : State} {j : Nat}  (hinv : Inv cfg s) (hE : ∀ j, ErrInv s j)
    (h : stepWrEpipe cfg s j = some s') : ∀ m, ErrInv s' m := by
  obtain ⟨hL, hS, hc⟩ := hinv
  unfold stepWrEpipe at h
  err_step h hS hL hE j

theorem errWriteEnd {cfg : Cfg} {s s' : State} {j : Nat}  (hinv : Inv cfg s) (hE : ∀ j, ErrInv s j)
    (h : stepWriteEnd s j = some s') : ∀ m, ErrInv s' m := by
  obtain ⟨hL, hS, hc⟩ := hinv
  unfold stepWriteEnd at h
  err_step h hS hL hE j

theorem errTakeBeg {cfg : Cfg} {s s' : State} {j : Nat}  (hinv : Inv cfg s) (hE : ∀ j, ErrInv s j)
    (h : stepTakeBeg s j = some s') : ∀ m, ErrInv s' m := by
  obtain ⟨hL, hS, hc⟩ := hinv
  unfold stepTakeBeg at h
  err_step h hS hL hE j

theorem errDeq {cfg : Cfg} {s s' : State} {j : Nat}  (hinv : Inv cfg s) (hE : ∀ j, ErrInv s j)
    (h : stepDeq s j = some s') : ∀ m, ErrInv s' m := by
  obtain ⟨hL, hS, hc⟩ := hinv
  unfold stepDeq at h
  err_step h hS hL hE j

theorem errDeqClosed {cfg : Cfg} {s s' : State} {j : Nat}  (hinv : Inv cfg s) (hE : ∀ j, ErrInv s j)
    (h : stepDeqClosed s j = some s') : ∀ m, ErrInv s' m := by
  obtain ⟨hL, hS, hc⟩ := hinv
  unfold stepDeqClosed at h
  err_step h hS hL hE j

theorem errTakeEnd {cfg : Cfg} {s s' : State} {j : Nat}  (hinv : Inv cfg s) (hE : ∀ j, ErrInv s j)
    (h : stepTakeEnd s j = some s') : ∀ m, ErrInv s' m := by
  obtain ⟨hL, hS, hc⟩ := hinv
  unfold stepTakeEnd at h
  err_step h hS hL hE j

theorem errReadBeg {cfg : Cfg} {s s' : State} {j : Nat} (mx : Nat) (hinv : Inv cfg s) (hE : ∀ j, ErrInv s j)
    (h : stepReadBeg s j mx = some s') : ∀ m, ErrInv s' m := by
  obtain ⟨hL, hS, hc⟩ := hinv
  unfold stepReadBeg at h
  err_step h hS hL hE j

theorem errRd {cfg : Cfg} {s s' : State} {j : Nat} (k : Nat) (hinv : Inv cfg s) (hE : ∀ j, ErrInv s j)
    (h : stepRd s j k = some s') : ∀ m, ErrInv s' m := by
  obtain ⟨hL, hS, hc⟩ := hinv
  unfold stepRd at h
  err_step h hS hL hE j

theorem errRdEof {cfg : Cfg} {s s' : State} {j : Nat}  (hinv : Inv cfg s) (hE : ∀ j, ErrInv s j)
    (h : stepRdEof s j = some s') : ∀ m, ErrInv s' m := by
  obtain ⟨hL, hS, hc⟩ := hinv
  unfold stepRdEof at h
  err_step h hS hL hE j

theorem errReadEnd {cfg : Cfg} {s s' : State} {j : Nat}  (hinv : Inv cfg s) (hE : ∀ j, ErrInv s j)
    (h : stepReadEnd s j = some s') : ∀ m, ErrInv s' m := by
  obtain ⟨hL, hS, hc⟩ := hinv
  unfold stepReadEnd at h
  err_step h hS hL hE j

theorem errRedirIn {cfg : Cfg} {s s' : State} {j : Nat}  (hinv : Inv cfg s) (hE : ∀ j, ErrInv s j)
    (h : stepRedirIn s j = some s') : ∀ m, ErrInv s' m := by
  obtain ⟨hL, hS, hc⟩ := hinv
  unfold stepRedirIn at h
  err_step h hS hL hE j

theorem errRedirOutFile {cfg : Cfg} {s s' : State} {j : Nat}  (hinv : Inv cfg s) (hE : ∀ j, ErrInv s j)
    (h : stepRedirOutFile cfg s j = some s') : ∀ m, ErrInv s' m := by
  obtain ⟨hL, hS, hc⟩ := hinv
  unfold stepRedirOutFile at h
  err_step h hS hL hE j

theorem errRedirOutChan {cfg : Cfg} {s s' : State} {j : Nat}  (hinv : Inv cfg s) (hE : ∀ j, ErrInv s j)
    (h : stepRedirOutChan cfg s j = some s') : ∀ m, ErrInv s' m := by
  obtain ⟨hL, hS, hc⟩ := hinv
  unfold stepRedirOutChan at h
  err_step h hS hL hE j

theorem errRet {cfg : Cfg} {s s' : State} {j : Nat} (r : Option Exc) (hinv : Inv cfg s) (hE : ∀ j, ErrInv s j)
    (h : stepRet cfg s j r = some s') : ∀ m, ErrInv s' m := by
  obtain ⟨hL, hS, hc⟩ := hinv
  unfold stepRet at h
  err_step h hS hL hE j

theorem errSetErr {cfg : Cfg} {s s' : State} {j : Nat}  (hinv : Inv cfg s) (hE : ∀ j, ErrInv s j)
    (h : stepSetErr s j = some s') : ∀ m, ErrInv s' m := by
  obtain ⟨hL, hS, hc⟩ := hinv
  unfold stepSetErr at h
  err_step h hS hL hE j

theorem errCloseStop {cfg : Cfg} {s s' : State} {j : Nat}  (hinv : Inv cfg s) (hE : ∀ j, ErrInv s j)
    (h : stepCloseStop s j = some s') : ∀ m, ErrInv s' m := by
  obtain ⟨hL, hS, hc⟩ := hinv
  unfold stepCloseStop at h
  err_step h hS hL hE j

theorem errStoreGone {cfg : Cfg} {s s' : State} {j : Nat}  (hinv : Inv cfg s) (hE : ∀ j, ErrInv s j)
    (h : stepStoreGone s j = some s') : ∀ m, ErrInv s' m := by
  obtain ⟨hL, hS, hc⟩ := hinv
  unfold stepStoreGone at h
  err_step h hS hL hE j

theorem errCloseIn {cfg : Cfg} {s s' : State} {j : Nat}  (hinv : Inv cfg s) (hE : ∀ j, ErrInv s j)
    (h : stepCloseIn s j = some s') : ∀ m, ErrInv s' m := by
  obtain ⟨hL, hS, hc⟩ := hinv
  unfold stepCloseIn at h
  err_step h hS hL hE j

theorem errCloseOutFile {cfg : Cfg} {s s' : State} {j : Nat}  (hinv : Inv cfg s) (hE : ∀ j, ErrInv s j)
    (h : stepCloseOutFile cfg s j = some s') : ∀ m, ErrInv s' m := by
  obtain ⟨hL, hS, hc⟩ := hinv
  unfold stepCloseOutFile at h
  err_step h hS hL hE j

theorem errCloseOutChan {cfg : Cfg} {s s' : State} {j : Nat}  (hinv : Inv cfg s) (hE : ∀ j, ErrInv s j)
    (h : stepCloseOutChan cfg s j = some s') : ∀ m, ErrInv s' m := by
  obtain ⟨hL, hS, hc⟩ := hinv
  unfold stepCloseOutChan at h
  err_step h hS hL hE j

theorem errWgDone {cfg : Cfg} {s s' : State} {j : Nat}  (hinv : Inv cfg s) (hE : ∀ j, ErrInv s j)
    (h : stepWgDone s j = some s') : ∀ m, ErrInv s' m := by
  obtain ⟨hL, hS, hc⟩ := hinv
  unfold stepWgDone at h
  err_step h hS hL hE j

theorem err_step' {cfg : Cfg} {s s' : State} {l : Label} (hinv : Inv cfg s) (hE : ∀ j, ErrInv s j)
    (h : step cfg s l = some s') : ∀ j, ErrInv s' j := by
  have hg := step_guard h
  cases l with
  | start j =>
    rw [step_of_core hg.1 rfl (hg.2 j rfl)] at h
    exact errStart  hinv hE h
  | putBeg j v =>
    rw [step_of_core hg.1 rfl (hg.2 j rfl)] at h
    exact errPutBeg v hinv hE h
  | enq j =>
    rw [step_of_core hg.1 rfl (hg.2 j rfl)] at h
    exact errEnq  hinv hE h
  | selStop j =>
    rw [step_of_core hg.1 rfl (hg.2 j rfl)] at h
    exact errSelStop  hinv hE h
  | putEnd j =>
    rw [step_of_core hg.1 rfl (hg.2 j rfl)] at h
    exact errPutEnd  hinv hE h
  | writeBeg j bs =>
    rw [step_of_core hg.1 rfl (hg.2 j rfl)] at h
    exact errWriteBeg bs hinv hE h
  | wr j k =>
    rw [step_of_core hg.1 rfl (hg.2 j rfl)] at h
    exact errWr k hinv hE h
  | wrEpipe j =>
    rw [step_of_core hg.1 rfl (hg.2 j rfl)] at h
    exact errWrEpipe  hinv hE h
  | writeEnd j =>
    rw [step_of_core hg.1 rfl (hg.2 j rfl)] at h
    exact errWriteEnd  hinv hE h
  | takeBeg j =>
    rw [step_of_core hg.1 rfl (hg.2 j rfl)] at h
    exact errTakeBeg  hinv hE h
  | deq j =>
    rw [step_of_core hg.1 rfl (hg.2 j rfl)] at h
    exact errDeq  hinv hE h
  | deqClosed j =>
    rw [step_of_core hg.1 rfl (hg.2 j rfl)] at h
    exact errDeqClosed  hinv hE h
  | takeEnd j =>
    rw [step_of_core hg.1 rfl (hg.2 j rfl)] at h
    exact errTakeEnd  hinv hE h
  | readBeg j mx =>
    rw [step_of_core hg.1 rfl (hg.2 j rfl)] at h
    exact errReadBeg mx hinv hE h
  | rd j k =>
    rw [step_of_core hg.1 rfl (hg.2 j rfl)] at h
    exact errRd k hinv hE h
  | rdEof j =>
    rw [step_of_core hg.1 rfl (hg.2 j rfl)] at h
    exact errRdEof  hinv hE h
  | readEnd j =>
    rw [step_of_core hg.1 rfl (hg.2 j rfl)] at h
    exact errReadEnd  hinv hE h
  | redirIn j =>
    rw [step_of_core hg.1 rfl (hg.2 j rfl)] at h
    exact errRedirIn  hinv hE h
  | redirOutFile j =>
    rw [step_of_core hg.1 rfl (hg.2 j rfl)] at h
    exact errRedirOutFile  hinv hE h
  | redirOutChan j =>
    rw [step_of_core hg.1 rfl (hg.2 j rfl)] at h
    exact errRedirOutChan  hinv hE h
  | ret j r =>
    rw [step_of_core hg.1 rfl (hg.2 j rfl)] at h
    exact errRet r hinv hE h
  | setErr j =>
    rw [step_of_core hg.1 rfl (hg.2 j rfl)] at h
    exact errSetErr  hinv hE h
  | closeStop j =>
    rw [step_of_core hg.1 rfl (hg.2 j rfl)] at h
    exact errCloseStop  hinv hE h
  | storeGone j =>
    rw [step_of_core hg.1 rfl (hg.2 j rfl)] at h
    exact errStoreGone  hinv hE h
  | closeIn j =>
    rw [step_of_core hg.1 rfl (hg.2 j rfl)] at h
    exact errCloseIn  hinv hE h
  | closeOutFile j =>
    rw [step_of_core hg.1 rfl (hg.2 j rfl)] at h
    exact errCloseOutFile  hinv hE h
  | closeOutChan j =>
    rw [step_of_core hg.1 rfl (hg.2 j rfl)] at h
    exact errCloseOutChan  hinv hE h
  | wgDone j =>
    rw [step_of_core hg.1 rfl (hg.2 j rfl)] at h
    exact errWgDone  hinv hE h
  | waitRet =>
    unfold step at h
    simp only [hg.1, Label.stage?] at h
    simp only [Bool.false_eq_true, ↓reduceIte, Bool.true_eq_false] at h
    unfold stepWaitRet at h
    (try simp only [] at h)
    (repeat' split at h) <;> (first | cases h | skip)
    all_goals (intro m; exact ⟨(hE m).putErr, (hE m).writeErr, (hE m).readPos⟩)

theorem err_init (cfg : Cfg) : ∀ j, ErrInv (State.init cfg) j := by
  intro j; constructor <;> simp [State.init, Stage.init]

end C18
