import ElvProofs.C18.Inv
namespace C18

theorem invRdEof {cfg : Cfg} {s s' : State} {i : Nat}  (hinv : Inv cfg s) (hi : i < cfg.n)
    (h : stepRdEof s i = some s') : Inv cfg s' := by
  obtain ⟨hL, hS, hc⟩ := hinv
  unfold stepRdEof at h
  inv_step h hL hS hc i

theorem invReadEnd {cfg : Cfg} {s s' : State} {i : Nat}  (hinv : Inv cfg s) (hi : i < cfg.n)
    (h : stepReadEnd s i = some s') : Inv cfg s' := by
  obtain ⟨hL, hS, hc⟩ := hinv
  unfold stepReadEnd at h
  inv_step h hL hS hc i

theorem invRedirIn {cfg : Cfg} {s s' : State} {i : Nat}  (hinv : Inv cfg s) (hi : i < cfg.n)
    (h : stepRedirIn s i = some s') : Inv cfg s' := by
  obtain ⟨hL, hS, hc⟩ := hinv
  unfold stepRedirIn at h
  inv_step h hL hS hc i

theorem invRedirOutFile {cfg : Cfg} {s s' : State} {i : Nat}  (hinv : Inv cfg s) (hi : i < cfg.n)
    (h : stepRedirOutFile cfg s i = some s') : Inv cfg s' := by
  obtain ⟨hL, hS, hc⟩ := hinv
  unfold stepRedirOutFile at h
  inv_step h hL hS hc i

theorem invRedirOutChan {cfg : Cfg} {s s' : State} {i : Nat}  (hinv : Inv cfg s) (hi : i < cfg.n)
    (h : stepRedirOutChan cfg s i = some s') : Inv cfg s' := by
  obtain ⟨hL, hS, hc⟩ := hinv
  unfold stepRedirOutChan at h
  inv_step h hL hS hc i

theorem invRet {cfg : Cfg} {s s' : State} {i : Nat} (r : Option Exc) (hinv : Inv cfg s) (hi : i < cfg.n)
    (h : stepRet cfg s i r = some s') : Inv cfg s' := by
  obtain ⟨hL, hS, hc⟩ := hinv
  unfold stepRet at h
  inv_step h hL hS hc i

theorem invSetErr {cfg : Cfg} {s s' : State} {i : Nat}  (hinv : Inv cfg s) (hi : i < cfg.n)
    (h : stepSetErr s i = some s') : Inv cfg s' := by
  obtain ⟨hL, hS, hc⟩ := hinv
  unfold stepSetErr at h
  inv_step h hL hS hc i

end C18
