/-
C18 — progress: which labels are enabled.

* the epilogue of a stage (`f` after `form.exec` returned) never blocks;
* once the reader of a link has signalled (`close(sendStop)`, pipe reader
  closed), a pending `Put` / `Write` of the upstream stage can complete;
* a state in which no protocol step is enabled consists only of stages that
  are still running `form.exec` and wait for a neighbour that is also still
  running — an exited (or exiting) stage is never what the others wait for;
* once every `form.exec` has returned, every step decreases a measure and
  some step is enabled until `exec` has its result.
-/
import ElvProofs.C18.All
namespace C18

/-- The epilogue step a stage performs when its program counter is `pc`. -/
def epilogueLabel (pc i : Nat) : Label :=
  match pc with
  | 2 => .setErr i | 3 => .closeStop i | 4 => .storeGone i | 5 => .closeIn i
  | 6 => .closeOutFile i | 7 => .closeOutChan i | _ => .wgDone i

/-- The epilogue never blocks: whatever the other stages do, the next step of
an exiting stage is enabled. -/
theorem epilogue_enabled {cfg : Cfg} {s : State} {i : Nat} (hc : s.crashed = false) (hi : i < cfg.n)
    (h2 : 2 ≤ (s.stage i).pc) (h8 : (s.stage i).pc ≤ 8) :
    ∃ s', step cfg s (epilogueLabel (s.stage i).pc i) = some s' := by
  have hcases : (s.stage i).pc = 2 ∨ (s.stage i).pc = 3 ∨ (s.stage i).pc = 4 ∨ (s.stage i).pc = 5 ∨
      (s.stage i).pc = 6 ∨ (s.stage i).pc = 7 ∨ (s.stage i).pc = 8 := by omega
  rcases hcases with h | h | h | h | h | h | h <;> rw [h] <;> simp only [epilogueLabel] <;>
    rw [step_of_core hc rfl hi] <;> simp only []
  · unfold stepSetErr; simp [h]
  · unfold stepCloseStop; simp only [h, ↓reduceIte]; (repeat' split) <;> exact ⟨_, rfl⟩
  · unfold stepStoreGone; simp [h]
  · unfold stepCloseIn; simp [h]
  · unfold stepCloseOutFile; simp [h]
  · unfold stepCloseOutChan; simp only [h, ↓reduceIte]; (repeat' split) <;> exact ⟨_, rfl⟩
  · unfold stepWgDone; simp only [h, ↓reduceIte]; (repeat' split) <;> exact ⟨_, rfl⟩

theorem start_enabled {cfg : Cfg} {s : State} {i : Nat} (hc : s.crashed = false) (hi : i < cfg.n)
    (h0 : (s.stage i).pc = 0) : ∃ s', step cfg s (.start i) = some s' := by
  rw [step_of_core hc rfl hi]; simp [stepStart, h0]

theorem waitRet_enabled {cfg : Cfg} {s : State} (hc : s.crashed = false) (hr : s.result = none) (hw : s.wg = 0) :
    ∃ s', step cfg s .waitRet = some s' := by
  unfold step
  simp only [hc, Label.stage?]
  unfold stepWaitRet
  rw [makePipelineError_eq]
  simp [hr, hw]

/-- After the reader of link `k` has closed `sendStop`, a pending `Put` of stage
`k` can return, and it returns reader-gone. -/
theorem put_completes_after_stop {cfg : Cfg} {s : State} {k : Nat} {v : Val} (ha : AllInv cfg s)
    (hk : k + 1 < cfg.n) (hpc : 4 ≤ (s.stage (k + 1)).pc) (hout : (s.stage k).out = .putting v)
    (hr : (s.stage k).outRedir = 0) :
    ∃ s', step cfg s (.selStop k) = some s' ∧ (s'.stage k).out = .putDone (.stopped (some .readerGone)) := by
  obtain ⟨⟨hL, hS, hc⟩, _, _⟩ := ha
  have hstop : (s.link k).stop = true := (hL k).cStop.mpr ⟨hk, hpc⟩
  have herr : (s.link k).errSet = true := (hL k).stopErr hstop
  rw [step_of_core hc rfl (by omega)]
  simp only []
  unfold stepSelStop
  simp [hout, hr, hk, hstop, herr, setStage, upd]

/-- After the reader of link `k` has closed its end of the pipe, a pending
`Write` of stage `k` returns (EPIPE, converted to reader-gone). -/
theorem write_completes_after_close {cfg : Cfg} {s : State} {k : Nat} {todo : List Byte} {m : Nat} (ha : AllInv cfg s)
    (hk : k + 1 < cfg.n) (hpc : (s.stage (k + 1)).inRedir = true ∨ 6 ≤ (s.stage (k + 1)).pc)
    (hout : (s.stage k).out = .writing todo m) (hr : (s.stage k).outRedir = 0) :
    ∃ s', step cfg s (.wrEpipe k) = some s' ∧ (s'.stage k).out = .writeDone m (some .readerGone) := by
  obtain ⟨⟨hL, hS, hc⟩, _, _⟩ := ha
  have hcl : (s.link k).rClosed = true := (hL k).cR.mpr ⟨hk, hpc⟩
  rw [step_of_core hc rfl (by omega)]
  simp only []
  unfold stepWrEpipe
  simp [hout, hr, hk, hcl, setStage, upd]

/-- Labels chosen by the stage programs (everything else is the protocol). -/
def Label.isProgramChoice : Label → Bool
  | .putBeg _ _ | .writeBeg _ _ | .takeBeg _ | .readBeg _ _ | .redirIn _ | .redirOutFile _ | .redirOutChan _
  | .ret _ _ => true
  | _ => false

/-- No protocol step is enabled. -/
def ProtocolStuck (cfg : Cfg) (s : State) : Prop := ∀ l, l.isProgramChoice = false → step cfg s l = none

/-- What a protocol-stuck state looks like. -/
structure StuckShape (cfg : Cfg) (s : State) : Prop where
  /-- every stage is still inside `form.exec` or completely done -/
  pcs : ∀ i, i < cfg.n → (s.stage i).pc = 1 ∨ (s.stage i).pc = 9
  /-- and at least one is still inside `form.exec` -/
  alive : ∃ i, i < cfg.n ∧ (s.stage i).pc = 1
  /-- a blocked `Put` waits for a downstream stage that is still running -/
  put : ∀ i v, i < cfg.n → (s.stage i).out = .putting v →
    i + 1 < cfg.n ∧ (s.stage (i + 1)).pc = 1 ∧ cfg.cap ≤ (s.link i).q.length
  /-- a blocked `Write` waits for a downstream stage that is still running -/
  write : ∀ i todo m, i < cfg.n → (s.stage i).out = .writing todo m →
    i + 1 < cfg.n ∧ (s.stage (i + 1)).pc = 1 ∧ (s.stage (i + 1)).inRedir = false
  /-- a blocked receive waits for an upstream stage that is still running -/
  take : ∀ i, i < cfg.n → (s.stage i).vin = .taking → 0 < i ∧ (s.stage (i - 1)).pc = 1 ∧ (s.link (i - 1)).q = []
  /-- a blocked read waits for an upstream stage that is still running -/
  read : ∀ i max, i < cfg.n → (s.stage i).bin = .reading max → 0 < i ∧ (s.stage (i - 1)).pc = 1 ∧ (s.link (i - 1)).pipe = []

theorem stuck_shape {cfg : Cfg} {s : State} (ha : AllInv cfg s) (hres : s.result = none)
    (hstuck : ProtocolStuck cfg s) : StuckShape cfg s := by
  obtain ⟨⟨hL, hS, hc⟩, hg, hE⟩ := ha
  have hpcs : ∀ i, i < cfg.n → (s.stage i).pc = 1 ∨ (s.stage i).pc = 9 := by
    intro i hi
    have hle := (hS i).pcLe
    by_cases h0 : (s.stage i).pc = 0
    · obtain ⟨s', hs'⟩ := start_enabled hc hi h0
      rw [hstuck _ rfl] at hs'; cases hs'
    · by_cases h28 : 2 ≤ (s.stage i).pc ∧ (s.stage i).pc ≤ 8
      · obtain ⟨s', hs'⟩ := epilogue_enabled hc hi h28.1 h28.2
        have : (epilogueLabel (s.stage i).pc i).isProgramChoice = false := by
          unfold epilogueLabel; split <;> rfl
        rw [hstuck _ this] at hs'; cases hs'
      · omega
  have none_of {l : Label} {i : Nat} (hl : l.stage? = some i) (hi : i < cfg.n) (hp : l.isProgramChoice = false) :=
    (step_of_core (l := l) hc hl hi).symm.trans (hstuck l hp)
  refine ⟨hpcs, ?_, ?_, ?_, ?_, ?_⟩
  · -- somebody is still running, else wg.Wait could return
    apply Classical.byContradiction
    intro hno
    have hall : ∀ j, j < cfg.n → notDone s j = false := by
      intro j hj
      rcases hpcs j hj with h | h
      · exact absurd ⟨j, hj, h⟩ hno
      · simp [notDone, h]
    have hw : s.wg = 0 := by rw [hg.wg]; exact cnt_all_false hall
    obtain ⟨s', hs'⟩ := waitRet_enabled (cfg := cfg) hc hres hw
    rw [hstuck _ rfl] at hs'; cases hs'
  · intro i v hi hout
    have hSi := hS i
    have hb := hSi.outBusy (by simp [hout])
    have hLi := hL i
    have e1 := none_of (l := .enq i) rfl hi rfl
    have e2 := none_of (l := .selStop i) rfl hi rfl
    simp only [] at e1 e2
    unfold stepEnq at e1
    unfold stepSelStop at e2
    simp only [hout] at e1 e2
    have hrl := hSi.redirLe
    have hSn := hS (i + 1)
    have hn := hpcs (i + 1)
    grind [LinkInv, StageInv]
  · intro i todo m hi hout
    have hSi := hS i
    have hb := hSi.outBusy (by simp [hout])
    have hne := hSi.wrNe todo m hout
    have hLi := hL i
    have e1 := none_of (l := .wr i todo.length) rfl hi rfl
    have e2 := none_of (l := .wrEpipe i) rfl hi rfl
    simp only [] at e1 e2
    unfold stepWr at e1
    unfold stepWrEpipe at e2
    simp only [hout] at e1 e2
    have hlen : 0 < todo.length := List.length_pos_iff.mpr hne
    have hrl := hSi.redirLe
    have hSn := hS (i + 1)
    have hn := hpcs (i + 1)
    grind [LinkInv, StageInv]
  · intro i hi hvin
    have hSi := hS i
    have e1 := none_of (l := .deq i) rfl hi rfl
    have e2 := none_of (l := .deqClosed i) rfl hi rfl
    simp only [] at e1 e2
    unfold stepDeq at e1
    unfold stepDeqClosed at e2
    simp only [hvin] at e1 e2
    have hLp := hL (i - 1)
    have hSp := hS (i - 1)
    have hp := hpcs (i - 1)
    grind [LinkInv, StageInv]
  · intro i max hi hbin
    have hSi := hS i
    have hmax := (hE i).readPos max hbin
    have e1 := none_of (l := .rd i 1) rfl hi rfl
    have e2 := none_of (l := .rdEof i) rfl hi rfl
    simp only [] at e1 e2
    unfold stepRd at e1
    unfold stepRdEof at e2
    simp only [hbin] at e1 e2
    have hLp := hL (i - 1)
    have hSp := hS (i - 1)
    have hp := hpcs (i - 1)
    have hlen : (s.link (i - 1)).pipe = [] ∨ 1 ≤ (s.link (i - 1)).pipe.length := by
      cases (s.link (i - 1)).pipe <;> simp
    clear none_of
    grind [LinkInv, StageInv]

/-! ### Once every `form.exec` has returned, the pipeline finishes -/

def sumTo (f : Nat → Nat) : Nat → Nat
  | 0 => 0
  | k + 1 => sumTo f k + f k

theorem sumTo_congr {f g : Nat → Nat} {k : Nat} (h : ∀ j, j < k → g j = f j) : sumTo g k = sumTo f k := by
  induction k with
  | zero => rfl
  | succ k ih => simp only [sumTo]; rw [ih (fun j hj => h j (by omega)), h k (by omega)]

theorem sumTo_dec {f g : Nat → Nat} {k i : Nat} (hi : i < k) (hd : g i + 1 = f i) (h : ∀ j, j ≠ i → g j = f j) :
    sumTo g k + 1 = sumTo f k := by
  induction k with
  | zero => omega
  | succ k ih =>
    simp only [sumTo]
    by_cases hik : i = k
    · subst hik
      rw [sumTo_congr (f := f) (g := g) (fun j hj => h j (by omega))]; omega
    · rw [h k (by omega)]; have := ih (by omega); omega

/-- What a step of an already-returned stage looks like: it is an epilogue
step, advancing that stage's program counter by one. -/
structure EpiStep (s s' : State) (i : Nat) : Prop where
  pc : (s'.stage i).pc = (s.stage i).pc + 1
  other : ∀ j, j ≠ i → s'.stage j = s.stage j
  res : s'.result = s.result

macro "epi_step" h:ident hS:ident i:ident hc:ident : tactic => `(tactic| (
  have hSi := $hS $i
  simp only [] at $h:ident
  (repeat' split at $h:ident) <;> (first | cases $h:ident | skip)
  all_goals (first
    | (constructor <;> (try simp only [setStage, setLink, upd, crash]) <;> grind [StageInv])
    | (exfalso; simp [crash] at $hc:ident)
    | (exfalso; grind [StageInv]))))

theorem epi_step_of {cfg : Cfg} {s s' : State} {l : Label} {i : Nat} (ha : AllInv cfg s)
    (hl : l.stage? = some i) (h2 : 2 ≤ (s.stage i).pc) (h : step cfg s l = some s') : EpiStep s s' i := by
  have ha' := all_step ha h
  have hc' := ha'.inv.2.2
  obtain ⟨⟨hL, hS, hc⟩, hg, hE⟩ := ha
  have hgd := step_guard h
  cases l with
  | start j =>
    simp only [Label.stage?, Option.some.injEq] at hl; subst hl
    rw [step_of_core hgd.1 rfl (hgd.2 j rfl)] at h
    simp only [] at h; unfold stepStart at h; epi_step h hS j hc'
  | putBeg j v =>
    simp only [Label.stage?, Option.some.injEq] at hl; subst hl
    rw [step_of_core hgd.1 rfl (hgd.2 j rfl)] at h
    simp only [] at h; unfold stepPutBeg at h; epi_step h hS j hc'
  | enq j =>
    simp only [Label.stage?, Option.some.injEq] at hl; subst hl
    rw [step_of_core hgd.1 rfl (hgd.2 j rfl)] at h
    simp only [] at h; unfold stepEnq at h; epi_step h hS j hc'
  | selStop j =>
    simp only [Label.stage?, Option.some.injEq] at hl; subst hl
    rw [step_of_core hgd.1 rfl (hgd.2 j rfl)] at h
    simp only [] at h; unfold stepSelStop at h; epi_step h hS j hc'
  | putEnd j =>
    simp only [Label.stage?, Option.some.injEq] at hl; subst hl
    rw [step_of_core hgd.1 rfl (hgd.2 j rfl)] at h
    simp only [] at h; unfold stepPutEnd at h; epi_step h hS j hc'
  | writeBeg j bs =>
    simp only [Label.stage?, Option.some.injEq] at hl; subst hl
    rw [step_of_core hgd.1 rfl (hgd.2 j rfl)] at h
    simp only [] at h; unfold stepWriteBeg at h; epi_step h hS j hc'
  | wr j k =>
    simp only [Label.stage?, Option.some.injEq] at hl; subst hl
    rw [step_of_core hgd.1 rfl (hgd.2 j rfl)] at h
    simp only [] at h; unfold stepWr at h; epi_step h hS j hc'
  | wrEpipe j =>
    simp only [Label.stage?, Option.some.injEq] at hl; subst hl
    rw [step_of_core hgd.1 rfl (hgd.2 j rfl)] at h
    simp only [] at h; unfold stepWrEpipe at h; epi_step h hS j hc'
  | writeEnd j =>
    simp only [Label.stage?, Option.some.injEq] at hl; subst hl
    rw [step_of_core hgd.1 rfl (hgd.2 j rfl)] at h
    simp only [] at h; unfold stepWriteEnd at h; epi_step h hS j hc'
  | takeBeg j =>
    simp only [Label.stage?, Option.some.injEq] at hl; subst hl
    rw [step_of_core hgd.1 rfl (hgd.2 j rfl)] at h
    simp only [] at h; unfold stepTakeBeg at h; epi_step h hS j hc'
  | deq j =>
    simp only [Label.stage?, Option.some.injEq] at hl; subst hl
    rw [step_of_core hgd.1 rfl (hgd.2 j rfl)] at h
    simp only [] at h; unfold stepDeq at h; epi_step h hS j hc'
  | deqClosed j =>
    simp only [Label.stage?, Option.some.injEq] at hl; subst hl
    rw [step_of_core hgd.1 rfl (hgd.2 j rfl)] at h
    simp only [] at h; unfold stepDeqClosed at h; epi_step h hS j hc'
  | takeEnd j =>
    simp only [Label.stage?, Option.some.injEq] at hl; subst hl
    rw [step_of_core hgd.1 rfl (hgd.2 j rfl)] at h
    simp only [] at h; unfold stepTakeEnd at h; epi_step h hS j hc'
  | readBeg j mx =>
    simp only [Label.stage?, Option.some.injEq] at hl; subst hl
    rw [step_of_core hgd.1 rfl (hgd.2 j rfl)] at h
    simp only [] at h; unfold stepReadBeg at h; epi_step h hS j hc'
  | rd j k =>
    simp only [Label.stage?, Option.some.injEq] at hl; subst hl
    rw [step_of_core hgd.1 rfl (hgd.2 j rfl)] at h
    simp only [] at h; unfold stepRd at h; epi_step h hS j hc'
  | rdEof j =>
    simp only [Label.stage?, Option.some.injEq] at hl; subst hl
    rw [step_of_core hgd.1 rfl (hgd.2 j rfl)] at h
    simp only [] at h; unfold stepRdEof at h; epi_step h hS j hc'
  | readEnd j =>
    simp only [Label.stage?, Option.some.injEq] at hl; subst hl
    rw [step_of_core hgd.1 rfl (hgd.2 j rfl)] at h
    simp only [] at h; unfold stepReadEnd at h; epi_step h hS j hc'
  | redirIn j =>
    simp only [Label.stage?, Option.some.injEq] at hl; subst hl
    rw [step_of_core hgd.1 rfl (hgd.2 j rfl)] at h
    simp only [] at h; unfold stepRedirIn at h; epi_step h hS j hc'
  | redirOutFile j =>
    simp only [Label.stage?, Option.some.injEq] at hl; subst hl
    rw [step_of_core hgd.1 rfl (hgd.2 j rfl)] at h
    simp only [] at h; unfold stepRedirOutFile at h; epi_step h hS j hc'
  | redirOutChan j =>
    simp only [Label.stage?, Option.some.injEq] at hl; subst hl
    rw [step_of_core hgd.1 rfl (hgd.2 j rfl)] at h
    simp only [] at h; unfold stepRedirOutChan at h; epi_step h hS j hc'
  | ret j r =>
    simp only [Label.stage?, Option.some.injEq] at hl; subst hl
    rw [step_of_core hgd.1 rfl (hgd.2 j rfl)] at h
    simp only [] at h; unfold stepRet at h; epi_step h hS j hc'
  | setErr j =>
    simp only [Label.stage?, Option.some.injEq] at hl; subst hl
    rw [step_of_core hgd.1 rfl (hgd.2 j rfl)] at h
    simp only [] at h; unfold stepSetErr at h; epi_step h hS j hc'
  | closeStop j =>
    simp only [Label.stage?, Option.some.injEq] at hl; subst hl
    rw [step_of_core hgd.1 rfl (hgd.2 j rfl)] at h
    simp only [] at h; unfold stepCloseStop at h; epi_step h hS j hc'
  | storeGone j =>
    simp only [Label.stage?, Option.some.injEq] at hl; subst hl
    rw [step_of_core hgd.1 rfl (hgd.2 j rfl)] at h
    simp only [] at h; unfold stepStoreGone at h; epi_step h hS j hc'
  | closeIn j =>
    simp only [Label.stage?, Option.some.injEq] at hl; subst hl
    rw [step_of_core hgd.1 rfl (hgd.2 j rfl)] at h
    simp only [] at h; unfold stepCloseIn at h; epi_step h hS j hc'
  | closeOutFile j =>
    simp only [Label.stage?, Option.some.injEq] at hl; subst hl
    rw [step_of_core hgd.1 rfl (hgd.2 j rfl)] at h
    simp only [] at h; unfold stepCloseOutFile at h; epi_step h hS j hc'
  | closeOutChan j =>
    simp only [Label.stage?, Option.some.injEq] at hl; subst hl
    rw [step_of_core hgd.1 rfl (hgd.2 j rfl)] at h
    simp only [] at h; unfold stepCloseOutChan at h; epi_step h hS j hc'
  | wgDone j =>
    simp only [Label.stage?, Option.some.injEq] at hl; subst hl
    rw [step_of_core hgd.1 rfl (hgd.2 j rfl)] at h
    simp only [] at h; unfold stepWgDone at h; epi_step h hS j hc'
  | waitRet => simp [Label.stage?] at hl

/-- every `form.exec` has returned -/
def AllReturned (cfg : Cfg) (s : State) : Prop := ∀ i, i < cfg.n → 2 ≤ (s.stage i).pc

/-- number of steps left until `exec` has its result -/
def remaining (cfg : Cfg) (s : State) : Nat :=
  sumTo (fun i => 9 - (s.stage i).pc) cfg.n + (if s.result = none then 1 else 0)

theorem finishing_step {cfg : Cfg} {s s' : State} {l : Label} (ha : AllInv cfg s) (hret : AllReturned cfg s)
    (h : step cfg s l = some s') : AllReturned cfg s' ∧ remaining cfg s' + 1 = remaining cfg s := by
  have hgd := step_guard h
  cases hl : l.stage? with
  | some i =>
    have hlt := hgd.2 i hl
    have es := epi_step_of ha hl (hret i hlt) h
    have hle := ((all_step ha h).inv.2.1 i).pcLe
    refine ⟨fun j hj => ?_, ?_⟩
    · by_cases hji : j = i
      · subst hji; have := hret j hj; rw [es.pc]; omega
      · rw [es.other j hji]; exact hret j hj
    · unfold remaining
      rw [es.res]
      have := sumTo_dec (f := fun j => 9 - (s.stage j).pc) (g := fun j => 9 - (s'.stage j).pc) hlt
        (by show 9 - (s'.stage i).pc + 1 = 9 - (s.stage i).pc; rw [es.pc] at hle ⊢; omega)
        (by intro j hj; show 9 - (s'.stage j).pc = 9 - (s.stage j).pc; rw [es.other j hj])
      omega
  | none =>
    have hw : l = .waitRet := by cases l <;> simp [Label.stage?] at hl ⊢
    subst hw
    obtain ⟨⟨hL, hS, hc⟩, hg, hE⟩ := ha
    unfold step at h
    simp only [hc, Label.stage?, Bool.false_eq_true, ↓reduceIte, Bool.true_eq_false] at h
    unfold stepWaitRet at h
    rw [makePipelineError_eq] at h
    simp only [] at h
    split at h
    · rename_i hgd'
      cases h
      refine ⟨hret, ?_⟩
      unfold remaining
      simp [hgd'.1]
    · cases h

theorem finishing_enabled {cfg : Cfg} {s : State} (ha : AllInv cfg s) (hret : AllReturned cfg s)
    (hres : s.result = none) : ∃ l s', step cfg s l = some s' := by
  obtain ⟨⟨hL, hS, hc⟩, hg, hE⟩ := ha
  by_cases hall : ∀ i, i < cfg.n → (s.stage i).pc = 9
  · have hw : s.wg = 0 := by
      rw [hg.wg]; exact cnt_all_false (fun j hj => by simp [notDone, hall j hj])
    obtain ⟨s', hs'⟩ := waitRet_enabled (cfg := cfg) hc hres hw
    exact ⟨_, s', hs'⟩
  · have : ∃ i, i < cfg.n ∧ (s.stage i).pc ≠ 9 := by
      apply Classical.byContradiction
      intro hno
      apply hall
      intro i hi
      apply Classical.byContradiction
      intro h9
      exact hno ⟨i, hi, h9⟩
    obtain ⟨i, hi, h9⟩ := this
    have hle := (hS i).pcLe
    obtain ⟨s', hs'⟩ := epilogue_enabled hc hi (hret i hi) (by omega)
    exact ⟨_, s', hs'⟩

theorem remaining_zero {cfg : Cfg} {s : State} (h : remaining cfg s = 0) : s.result ≠ none := by
  unfold remaining at h
  intro hn
  simp [hn] at h

end C18
