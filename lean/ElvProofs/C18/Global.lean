/-
C18 — global part of the invariant: the WaitGroup counter counts the stages
that have not called `wg.Done`, and once `exec` has a result every stage is
done and the result is `MakePipelineError` of the recorded exceptions.
Also the "frame" of every stage step (what it cannot change) and the second
per-stage invariant about the errors `Put` / `Write` can return.
-/
import ElvProofs.C18.Inv
namespace C18

/-- the guards every step checks first -/
theorem step_guard {cfg : Cfg} {s s' : State} {l : Label} (h : step cfg s l = some s') :
    s.crashed = false ∧ ∀ i, l.stage? = some i → i < cfg.n := by
  unfold step at h
  by_cases hc : s.crashed = true
  · simp [hc] at h
  · have hc' : s.crashed = false := by simpa using hc
    refine ⟨hc', fun i hi => ?_⟩
    simp only [hc', hi] at h
    by_cases hlt : i < cfg.n
    · exact hlt
    · simp [hlt] at h

theorem step_of_core {cfg : Cfg} {s : State} {l : Label} {i : Nat} (hc : s.crashed = false)
    (hl : l.stage? = some i) (hi : i < cfg.n) :
    step cfg s l = (match l with
      | .start i => stepStart s i
      | .putBeg i v => stepPutBeg s i v
      | .enq i => stepEnq cfg s i
      | .selStop i => stepSelStop cfg s i
      | .putEnd i => stepPutEnd s i
      | .writeBeg i bs => stepWriteBeg s i bs
      | .wr i k => stepWr cfg s i k
      | .wrEpipe i => stepWrEpipe cfg s i
      | .writeEnd i => stepWriteEnd s i
      | .takeBeg i => stepTakeBeg s i
      | .deq i => stepDeq s i
      | .deqClosed i => stepDeqClosed s i
      | .takeEnd i => stepTakeEnd s i
      | .readBeg i max => stepReadBeg s i max
      | .rd i k => stepRd s i k
      | .rdEof i => stepRdEof s i
      | .readEnd i => stepReadEnd s i
      | .redirIn i => stepRedirIn s i
      | .redirOutFile i => stepRedirOutFile cfg s i
      | .redirOutChan i => stepRedirOutChan cfg s i
      | .ret i r => stepRet cfg s i r
      | .setErr i => stepSetErr s i
      | .closeStop i => stepCloseStop s i
      | .storeGone i => stepStoreGone s i
      | .closeIn i => stepCloseIn s i
      | .closeOutFile i => stepCloseOutFile cfg s i
      | .closeOutChan i => stepCloseOutChan cfg s i
      | .wgDone i => stepWgDone s i
      | .waitRet => stepWaitRet cfg s) := by
  unfold step
  simp only [hc, hl, hi, decide_true, Bool.false_eq_true, Bool.true_eq_false, ↓reduceIte]
  cases l <;> rfl

/-- number of `i < k` with `p i` -/
def cnt (p : Nat → Bool) : Nat → Nat
  | 0 => 0
  | k + 1 => cnt p k + (if p k then 1 else 0)

theorem cnt_congr {p q : Nat → Bool} {k : Nat} (h : ∀ j, j < k → p j = q j) : cnt p k = cnt q k := by
  induction k with
  | zero => rfl
  | succ k ih =>
    simp only [cnt]
    rw [ih (fun j hj => h j (by omega)), h k (by omega)]

theorem cnt_zero {p : Nat → Bool} {k : Nat} (h : cnt p k = 0) : ∀ j, j < k → p j = false := by
  induction k with
  | zero => intro j hj; omega
  | succ k ih =>
    simp only [cnt] at h
    intro j hj
    by_cases hjk : j = k
    · subst hjk
      cases hp : p j <;> simp_all
    · exact ih (by omega) j (by omega)

theorem cnt_all_false {p : Nat → Bool} {k : Nat} (h : ∀ j, j < k → p j = false) : cnt p k = 0 := by
  induction k with
  | zero => rfl
  | succ k ih =>
    simp only [cnt]
    rw [ih (fun j hj => h j (by omega)), h k (by omega)]
    rfl

/-- switching one `true` position below `k` to `false` decreases the count by one -/
theorem cnt_flip {p q : Nat → Bool} {k i : Nat} (hi : i < k) (hp : p i = true) (hq : q i = false)
    (h : ∀ j, j ≠ i → p j = q j) : cnt p k = cnt q k + 1 := by
  induction k with
  | zero => omega
  | succ k ih =>
    simp only [cnt]
    by_cases hik : i = k
    · subst hik
      rw [cnt_congr (p := p) (q := q) (fun j hj => h j (by omega)), hp, hq]
      simp
    · rw [ih (by omega), h k (by omega)]
      omega

theorem cnt_pos {p : Nat → Bool} {k i : Nat} (hi : i < k) (hp : p i = true) : 0 < cnt p k := by
  induction k with
  | zero => omega
  | succ k ih =>
    simp only [cnt]
    by_cases hik : i = k
    · subst hik; rw [hp]; simp
    · have := ih (by omega); omega

def notDone (s : State) (i : Nat) : Bool := (s.stage i).pc != 9

structure GInv (cfg : Cfg) (s : State) : Prop where
  wg : s.wg = cnt (notDone s) cfg.n
  res : ∀ r, s.result = some r → s.wg = 0 ∧ makePipelineError (s.excs cfg) = some r

/-- Errors `Put` and `Write` can hand to a stage. -/
structure ErrInv (s : State) (i : Nat) : Prop where
  putErr : ∀ e, (s.stage i).out = .putDone (.stopped e) →
    ((s.stage i).outRedir = 0 → e = some .readerGone) ∧ ((s.stage i).outRedir = 2 → e = some .noValueOutput)
  writeErr : ∀ m e, (s.stage i).out = .writeDone m (some e) → e = .readerGone
  readPos : ∀ max, (s.stage i).bin = .reading max → 0 < max

/-- Labels of a stage other than `wgDone`. -/
def Label.ordinary : Label → Bool
  | .wgDone _ | .waitRet => false
  | _ => true

/-- What an ordinary stage step cannot change. -/
structure Frame (s s' : State) (i : Nat) : Prop where
  wg : s'.wg = s.wg
  res : s'.result = s.result
  live : (s.stage i).pc ≠ 9
  live' : (s'.stage i).pc ≠ 9
  other : ∀ j, j ≠ i → s'.stage j = s.stage j

macro "frame_step" h:ident hS:ident i:ident : tactic => `(tactic| (
  have hSi := $hS $i
  simp only [] at $h:ident
  (repeat' split at $h:ident) <;> (first | cases $h:ident | skip)
  all_goals (constructor <;> (try simp only [setStage, setLink, upd, crash]) <;> grind [StageInv])))

theorem frame_of_step {cfg : Cfg} {s s' : State} {l : Label} {i : Nat} (hinv : Inv cfg s)
    (hl : l.stage? = some i) (hord : l.ordinary = true) (h : step cfg s l = some s') : Frame s s' i := by
  obtain ⟨hL, hS, hc⟩ := hinv
  unfold step at h
  simp only [hc, hl] at h
  split at h
  · cases h
  · cases l with
    | start j =>
      simp only [Label.stage?, Option.some.injEq] at hl; subst hl
      simp only [] at h; unfold stepStart at h; frame_step h hS j
    | putBeg j v =>
      simp only [Label.stage?, Option.some.injEq] at hl; subst hl
      simp only [] at h; unfold stepPutBeg at h; frame_step h hS j
    | enq j =>
      simp only [Label.stage?, Option.some.injEq] at hl; subst hl
      simp only [] at h; unfold stepEnq at h; frame_step h hS j
    | selStop j =>
      simp only [Label.stage?, Option.some.injEq] at hl; subst hl
      simp only [] at h; unfold stepSelStop at h; frame_step h hS j
    | putEnd j =>
      simp only [Label.stage?, Option.some.injEq] at hl; subst hl
      simp only [] at h; unfold stepPutEnd at h; frame_step h hS j
    | writeBeg j bs =>
      simp only [Label.stage?, Option.some.injEq] at hl; subst hl
      simp only [] at h; unfold stepWriteBeg at h; frame_step h hS j
    | wr j k =>
      simp only [Label.stage?, Option.some.injEq] at hl; subst hl
      simp only [] at h; unfold stepWr at h; frame_step h hS j
    | wrEpipe j =>
      simp only [Label.stage?, Option.some.injEq] at hl; subst hl
      simp only [] at h; unfold stepWrEpipe at h; frame_step h hS j
    | writeEnd j =>
      simp only [Label.stage?, Option.some.injEq] at hl; subst hl
      simp only [] at h; unfold stepWriteEnd at h; frame_step h hS j
    | takeBeg j =>
      simp only [Label.stage?, Option.some.injEq] at hl; subst hl
      simp only [] at h; unfold stepTakeBeg at h; frame_step h hS j
    | deq j =>
      simp only [Label.stage?, Option.some.injEq] at hl; subst hl
      simp only [] at h; unfold stepDeq at h; frame_step h hS j
    | deqClosed j =>
      simp only [Label.stage?, Option.some.injEq] at hl; subst hl
      simp only [] at h; unfold stepDeqClosed at h; frame_step h hS j
    | takeEnd j =>
      simp only [Label.stage?, Option.some.injEq] at hl; subst hl
      simp only [] at h; unfold stepTakeEnd at h; frame_step h hS j
    | readBeg j mx =>
      simp only [Label.stage?, Option.some.injEq] at hl; subst hl
      simp only [] at h; unfold stepReadBeg at h; frame_step h hS j
    | rd j k =>
      simp only [Label.stage?, Option.some.injEq] at hl; subst hl
      simp only [] at h; unfold stepRd at h; frame_step h hS j
    | rdEof j =>
      simp only [Label.stage?, Option.some.injEq] at hl; subst hl
      simp only [] at h; unfold stepRdEof at h; frame_step h hS j
    | readEnd j =>
      simp only [Label.stage?, Option.some.injEq] at hl; subst hl
      simp only [] at h; unfold stepReadEnd at h; frame_step h hS j
    | redirIn j =>
      simp only [Label.stage?, Option.some.injEq] at hl; subst hl
      simp only [] at h; unfold stepRedirIn at h; frame_step h hS j
    | redirOutFile j =>
      simp only [Label.stage?, Option.some.injEq] at hl; subst hl
      simp only [] at h; unfold stepRedirOutFile at h; frame_step h hS j
    | redirOutChan j =>
      simp only [Label.stage?, Option.some.injEq] at hl; subst hl
      simp only [] at h; unfold stepRedirOutChan at h; frame_step h hS j
    | ret j r =>
      simp only [Label.stage?, Option.some.injEq] at hl; subst hl
      simp only [] at h; unfold stepRet at h; frame_step h hS j
    | setErr j =>
      simp only [Label.stage?, Option.some.injEq] at hl; subst hl
      simp only [] at h; unfold stepSetErr at h; frame_step h hS j
    | closeStop j =>
      simp only [Label.stage?, Option.some.injEq] at hl; subst hl
      simp only [] at h; unfold stepCloseStop at h; frame_step h hS j
    | storeGone j =>
      simp only [Label.stage?, Option.some.injEq] at hl; subst hl
      simp only [] at h; unfold stepStoreGone at h; frame_step h hS j
    | closeIn j =>
      simp only [Label.stage?, Option.some.injEq] at hl; subst hl
      simp only [] at h; unfold stepCloseIn at h; frame_step h hS j
    | closeOutFile j =>
      simp only [Label.stage?, Option.some.injEq] at hl; subst hl
      simp only [] at h; unfold stepCloseOutFile at h; frame_step h hS j
    | closeOutChan j =>
      simp only [Label.stage?, Option.some.injEq] at hl; subst hl
      simp only [] at h; unfold stepCloseOutChan at h; frame_step h hS j
    | wgDone j => simp [Label.ordinary] at hord
    | waitRet => simp [Label.ordinary] at hord

end C18
