/-
C18 — `MakePipelineError` (the loop with its counter and `lastNotOK` index, as
in pkg/eval/exception.go) equals its specification: nil when no stage left an
exception with a non-nil reason, that exception when there is exactly one, and
otherwise a pipeline error listing every stage in order (OK for the others).
-/
import ElvModel.C18.Model
namespace C18

/-- `newexcs`: nil entries turned into OK. -/
def newexcs (l : List (Option Exc)) : List Exc := l.map fun | none => Exc.ok | some e => e

/-- the exceptions with a non-nil reason, in stage order -/
def notOKs (l : List (Option Exc)) : List Exc := (newexcs l).filter (· ≠ Exc.ok)

/-- Specification of `MakePipelineError`. -/
def mpeSpec (l : List (Option Exc)) : PipeRes :=
  match notOKs l with
  | [] => .nil
  | [e] => .single e
  | _ => .multi (newexcs l)

private def J (acc : List Exc) (c last : Nat) : Prop :=
  c = (acc.filter (· ≠ Exc.ok)).length ∧
  (0 < c → ∃ e, acc[last]? = some e ∧ (acc.filter (· ≠ Exc.ok)).getLast? = some e)

private theorem J_snoc_ok {acc c last} (h : J acc c last) : J (acc ++ [Exc.ok]) c last := by
  obtain ⟨h1, h2⟩ := h
  refine ⟨by simp [List.filter_append, h1], fun hc => ?_⟩
  obtain ⟨e, he, hl⟩ := h2 hc
  refine ⟨e, ?_, by simpa [List.filter_append] using hl⟩
  have : last < acc.length := by
    rcases Nat.lt_or_ge last acc.length with h | h
    · exact h
    · rw [List.getElem?_eq_none h] at he; cases he
  rw [List.getElem?_append_left this]; exact he

private theorem J_snoc_notok {acc c last} {x : Exc} (hx : x ≠ Exc.ok) (h : J acc c last) :
    J (acc ++ [x]) (c + 1) acc.length := by
  obtain ⟨h1, _⟩ := h
  refine ⟨by simp [List.filter_append, hx, h1], fun _ => ⟨x, by simp, by simp [List.filter_append, hx]⟩⟩

private theorem mpeLoop_spec : ∀ (l : List (Option Exc)) (acc : List Exc) (c last : Nat), J acc c last →
    ∃ c' last', mpeLoop l acc.length (acc, c, last) = (acc ++ newexcs l, c', last') ∧ J (acc ++ newexcs l) c' last' := by
  intro l
  induction l with
  | nil => intro acc c last h; exact ⟨c, last, by simp [mpeLoop, newexcs], by simpa [newexcs] using h⟩
  | cons e rest ih =>
    intro acc c last h
    cases e with
    | none =>
      have := ih (acc ++ [Exc.ok]) c last (J_snoc_ok h)
      simpa [mpeLoop, newexcs, List.append_assoc] using this
    | some x =>
      by_cases hx : x = Exc.ok
      · subst hx
        have := ih (acc ++ [Exc.ok]) c last (J_snoc_ok h)
        simpa [mpeLoop, newexcs, List.append_assoc] using this
      · have := ih (acc ++ [x]) (c + 1) acc.length (J_snoc_notok hx h)
        simpa [mpeLoop, newexcs, List.append_assoc, hx] using this

/-- `MakePipelineError` never indexes out of range and computes `mpeSpec`. -/
theorem makePipelineError_eq (l : List (Option Exc)) : makePipelineError l = some (mpeSpec l) := by
  obtain ⟨c, last, heq, hc, hl⟩ := mpeLoop_spec l [] 0 0 ⟨by simp, by omega⟩
  simp only [List.nil_append, List.length_nil] at heq hc hl
  unfold makePipelineError mpeSpec notOKs
  rw [heq]
  simp only
  generalize hf : List.filter (fun x => decide (x ≠ Exc.ok)) (newexcs l) = f at hc hl
  match f, hc, hl with
  | [], hc, _ => simp [hc]
  | [e], hc, hl =>
    have hc1 : c = 1 := by simpa using hc
    subst hc1
    obtain ⟨e', h1, h2⟩ := hl (by omega)
    simp at h2; subst h2
    simp [h1]
  | _ :: _ :: _, hc, _ =>
    have : c ≠ 0 ∧ c ≠ 1 := by simp at hc; omega
    simp [this.1, this.2]

end C18
