import ElvProofs.C18.Inv
namespace C18

theorem invStart {cfg : Cfg} {s s' : State} {i : Nat}  (hinv : Inv cfg s) (hi : i < cfg.n)
    (h : stepStart s i = some s') : Inv cfg s' := by
  obtain ⟨hL, hS, hc⟩ := hinv
  unfold stepStart at h
  inv_step h hL hS hc i

theorem invPutBeg {cfg : Cfg} {s s' : State} {i : Nat} (v : Val) (hinv : Inv cfg s) (hi : i < cfg.n)
    (h : stepPutBeg s i v = some s') : Inv cfg s' := by
  obtain ⟨hL, hS, hc⟩ := hinv
  unfold stepPutBeg at h
  inv_step h hL hS hc i

theorem invEnq {cfg : Cfg} {s s' : State} {i : Nat}  (hinv : Inv cfg s) (hi : i < cfg.n)
    (h : stepEnq cfg s i = some s') : Inv cfg s' := by
  obtain ⟨hL, hS, hc⟩ := hinv
  unfold stepEnq at h
  inv_step h hL hS hc i

theorem invSelStop {cfg : Cfg} {s s' : State} {i : Nat}  (hinv : Inv cfg s) (hi : i < cfg.n)
    (h : stepSelStop cfg s i = some s') : Inv cfg s' := by
  obtain ⟨hL, hS, hc⟩ := hinv
  unfold stepSelStop at h
  inv_step h hL hS hc i

theorem invPutEnd {cfg : Cfg} {s s' : State} {i : Nat}  (hinv : Inv cfg s) (hi : i < cfg.n)
    (h : stepPutEnd s i = some s') : Inv cfg s' := by
  obtain ⟨hL, hS, hc⟩ := hinv
  unfold stepPutEnd at h
  inv_step h hL hS hc i

theorem invWriteBeg {cfg : Cfg} {s s' : State} {i : Nat} (bs : List Byte) (hinv : Inv cfg s) (hi : i < cfg.n)
    (h : stepWriteBeg s i bs = some s') : Inv cfg s' := by
  obtain ⟨hL, hS, hc⟩ := hinv
  unfold stepWriteBeg at h
  inv_step h hL hS hc i

theorem invWr {cfg : Cfg} {s s' : State} {i : Nat} (k : Nat) (hinv : Inv cfg s) (hi : i < cfg.n)
    (h : stepWr cfg s i k = some s') : Inv cfg s' := by
  obtain ⟨hL, hS, hc⟩ := hinv
  unfold stepWr at h
  inv_step h hL hS hc i

end C18
