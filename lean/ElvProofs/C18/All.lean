/-
C18 — the full invariant holds in every reachable state.
-/
import ElvProofs.C18.InvA
import ElvProofs.C18.InvB
import ElvProofs.C18.InvC
import ElvProofs.C18.InvD
import ElvProofs.C18.Global
import ElvProofs.C18.Mpe
import ElvProofs.C18.Err
namespace C18

/-- Preservation of `Inv` by every label except `wgDone` and `waitRet`. -/
theorem inv_ordinary {cfg : Cfg} {s s' : State} {l : Label} (hinv : Inv cfg s) (hord : l.ordinary = true)
    (h : step cfg s l = some s') : Inv cfg s' := by
  have hg := step_guard h
  have hc := hg.1
  unfold step at h
  simp only [hc] at h
  cases l with
  | start j =>
    have hlt := hg.2 j rfl
    simp only [Label.stage?, hlt, decide_true] at h
    exact invStart  hinv hlt (by simpa using h)
  | putBeg j v =>
    have hlt := hg.2 j rfl
    simp only [Label.stage?, hlt, decide_true] at h
    exact invPutBeg v hinv hlt (by simpa using h)
  | enq j =>
    have hlt := hg.2 j rfl
    simp only [Label.stage?, hlt, decide_true] at h
    exact invEnq  hinv hlt (by simpa using h)
  | selStop j =>
    have hlt := hg.2 j rfl
    simp only [Label.stage?, hlt, decide_true] at h
    exact invSelStop  hinv hlt (by simpa using h)
  | putEnd j =>
    have hlt := hg.2 j rfl
    simp only [Label.stage?, hlt, decide_true] at h
    exact invPutEnd  hinv hlt (by simpa using h)
  | writeBeg j bs =>
    have hlt := hg.2 j rfl
    simp only [Label.stage?, hlt, decide_true] at h
    exact invWriteBeg bs hinv hlt (by simpa using h)
  | wr j k =>
    have hlt := hg.2 j rfl
    simp only [Label.stage?, hlt, decide_true] at h
    exact invWr k hinv hlt (by simpa using h)
  | wrEpipe j =>
    have hlt := hg.2 j rfl
    simp only [Label.stage?, hlt, decide_true] at h
    exact invWrEpipe  hinv hlt (by simpa using h)
  | writeEnd j =>
    have hlt := hg.2 j rfl
    simp only [Label.stage?, hlt, decide_true] at h
    exact invWriteEnd  hinv hlt (by simpa using h)
  | takeBeg j =>
    have hlt := hg.2 j rfl
    simp only [Label.stage?, hlt, decide_true] at h
    exact invTakeBeg  hinv hlt (by simpa using h)
  | deq j =>
    have hlt := hg.2 j rfl
    simp only [Label.stage?, hlt, decide_true] at h
    exact invDeq  hinv hlt (by simpa using h)
  | deqClosed j =>
    have hlt := hg.2 j rfl
    simp only [Label.stage?, hlt, decide_true] at h
    exact invDeqClosed  hinv hlt (by simpa using h)
  | takeEnd j =>
    have hlt := hg.2 j rfl
    simp only [Label.stage?, hlt, decide_true] at h
    exact invTakeEnd  hinv hlt (by simpa using h)
  | readBeg j mx =>
    have hlt := hg.2 j rfl
    simp only [Label.stage?, hlt, decide_true] at h
    exact invReadBeg mx hinv hlt (by simpa using h)
  | rd j k =>
    have hlt := hg.2 j rfl
    simp only [Label.stage?, hlt, decide_true] at h
    exact invRd k hinv hlt (by simpa using h)
  | rdEof j =>
    have hlt := hg.2 j rfl
    simp only [Label.stage?, hlt, decide_true] at h
    exact invRdEof  hinv hlt (by simpa using h)
  | readEnd j =>
    have hlt := hg.2 j rfl
    simp only [Label.stage?, hlt, decide_true] at h
    exact invReadEnd  hinv hlt (by simpa using h)
  | redirIn j =>
    have hlt := hg.2 j rfl
    simp only [Label.stage?, hlt, decide_true] at h
    exact invRedirIn  hinv hlt (by simpa using h)
  | redirOutFile j =>
    have hlt := hg.2 j rfl
    simp only [Label.stage?, hlt, decide_true] at h
    exact invRedirOutFile  hinv hlt (by simpa using h)
  | redirOutChan j =>
    have hlt := hg.2 j rfl
    simp only [Label.stage?, hlt, decide_true] at h
    exact invRedirOutChan  hinv hlt (by simpa using h)
  | ret j r =>
    have hlt := hg.2 j rfl
    simp only [Label.stage?, hlt, decide_true] at h
    exact invRet r hinv hlt (by simpa using h)
  | setErr j =>
    have hlt := hg.2 j rfl
    simp only [Label.stage?, hlt, decide_true] at h
    exact invSetErr  hinv hlt (by simpa using h)
  | closeStop j =>
    have hlt := hg.2 j rfl
    simp only [Label.stage?, hlt, decide_true] at h
    exact invCloseStop  hinv hlt (by simpa using h)
  | storeGone j =>
    have hlt := hg.2 j rfl
    simp only [Label.stage?, hlt, decide_true] at h
    exact invStoreGone  hinv hlt (by simpa using h)
  | closeIn j =>
    have hlt := hg.2 j rfl
    simp only [Label.stage?, hlt, decide_true] at h
    exact invCloseIn  hinv hlt (by simpa using h)
  | closeOutFile j =>
    have hlt := hg.2 j rfl
    simp only [Label.stage?, hlt, decide_true] at h
    exact invCloseOutFile  hinv hlt (by simpa using h)
  | closeOutChan j =>
    have hlt := hg.2 j rfl
    simp only [Label.stage?, hlt, decide_true] at h
    exact invCloseOutChan  hinv hlt (by simpa using h)
  | wgDone j => simp [Label.ordinary] at hord
  | waitRet => simp [Label.ordinary] at hord

/-- the invariant only looks at the stages, the links and `crashed` -/
theorem Inv.congr {cfg : Cfg} {s : State} (wg : Nat) (res : Option PipeRes) (h : Inv cfg s) :
    Inv cfg { s with wg := wg, result := res } := by
  obtain ⟨hL, hS, hc⟩ := h
  refine ⟨fun k => ?_, fun j => ?_, hc⟩
  · have h := hL k
    exact ⟨h.queue, h.cap, h.bqueue, h.bcap, h.stopErr, h.sawC, h.sawE, h.cErr, h.cStop, h.cGone, h.cR, h.pW, h.pC⟩
  · have h := hS j
    exact ⟨h.outBusy, h.vinBusy, h.binBusy, h.redir1, h.redirLe, h.pcLe, h.inRedirPc, h.outRedirPc, h.wrNe, h.retv,
      h.retvN, h.retvPc, h.range⟩

theorem cnt_all_true {k : Nat} : cnt (fun _ => true) k = k := by
  induction k with
  | zero => rfl
  | succ k ih => simp [cnt, ih]

/-- Everything that is proved invariant. -/
structure AllInv (cfg : Cfg) (s : State) : Prop where
  inv : Inv cfg s
  g : GInv cfg s
  err : ∀ j, ErrInv s j

theorem all_init (cfg : Cfg) : AllInv cfg (State.init cfg) := by
  refine ⟨⟨fun k => ?_, fun j => ?_, rfl⟩, ⟨?_, ?_⟩, err_init cfg⟩
  · constructor <;> simp [State.init, Link.init, Stage.init]
  · constructor <;> simp [State.init, Stage.init]
  · show cfg.n = cnt (notDone (State.init cfg)) cfg.n
    have : notDone (State.init cfg) = fun _ => true := by
      funext j; simp [notDone, State.init, Stage.init]
    rw [this, cnt_all_true]
  · intro r hr; simp [State.init] at hr

theorem all_step {cfg : Cfg} {s s' : State} {l : Label} (ha : AllInv cfg s) (h : step cfg s l = some s') :
    AllInv cfg s' := by
  obtain ⟨hinv, hg, herr⟩ := ha
  have herr' := err_step' hinv herr h
  have hgd := step_guard h
  by_cases hord : l.ordinary = true
  · -- a stage step other than wg.Done
    have hinv' := inv_ordinary hinv hord h
    have hst : ∃ i, l.stage? = some i := by
      cases l <;> simp [Label.stage?, Label.ordinary] at hord ⊢
    obtain ⟨i, hi⟩ := hst
    have hlt := hgd.2 i hi
    have fr := frame_of_step hinv hi hord h
    have hnd : ∀ j, notDone s' j = notDone s j := by
      intro j
      by_cases hj : j = i
      · subst hj
        simp only [notDone]
        rw [bne_iff_ne.mpr fr.live, bne_iff_ne.mpr fr.live']
      · simp [notDone, fr.other j hj]
    refine ⟨hinv', ⟨?_, ?_⟩, herr'⟩
    · rw [fr.wg, hg.wg]; exact cnt_congr (fun j _ => (hnd j).symm)
    · intro r hr
      rw [fr.res] at hr
      have hz := (hg.res r hr).1
      rw [hg.wg] at hz
      have := cnt_zero hz i hlt
      simp [notDone, fr.live] at this
  · cases l with
    | wgDone j =>
      have hlt := hgd.2 j rfl
      obtain ⟨hL, hS, hc⟩ := hinv
      unfold step at h
      simp only [hc, Label.stage?, hlt, decide_true] at h
      simp only [Bool.false_eq_true, ↓reduceIte, Bool.true_eq_false] at h
      unfold stepWgDone at h
      simp only [] at h
      split at h
      · rename_i hpc
        have hndj : notDone s j = true := by simp [notDone, hpc]
        have hpos := cnt_pos (p := notDone s) hlt hndj
        split at h
        · rename_i hz; rw [hg.wg] at hz; omega
        · cases h
          refine ⟨⟨fun k => ?_, fun i => ?_, by simp [setStage, hc]⟩, ⟨?_, ?_⟩, herr'⟩
          · have hLk := hL k
            have hSk := hS k
            have hSk1 := hS (k + 1)
            have hSj := hS j
            constructor <;> simp only [setStage, setLink, upd] <;> grind [LinkInv, StageInv]
          · have hSi := hS i
            have hSj := hS j
            constructor <;> simp only [setStage, setLink, upd] <;> grind [LinkInv, StageInv, keptExc]
          · show s.wg - 1 = cnt (notDone (setStage s j { s.stage j with pc := 9 })) cfg.n
            have := cnt_flip (p := notDone s) (q := notDone (setStage s j { s.stage j with pc := 9 })) hlt hndj
              (by simp [notDone, setStage, upd])
              (by intro i hi; simp [notDone, setStage, upd, hi])
            rw [hg.wg]; omega
          · intro r hr
            have hz := (hg.res r hr).1
            rw [hg.wg] at hz; omega
      · cases h
    | waitRet =>
      obtain ⟨hL, hS, hc⟩ := hinv
      unfold step at h
      simp only [hc, Label.stage?] at h
      simp only [Bool.false_eq_true, ↓reduceIte, Bool.true_eq_false] at h
      unfold stepWaitRet at h
      rw [makePipelineError_eq] at h
      simp only [] at h
      split at h
      · rename_i hgd
        cases h
        refine ⟨Inv.congr s.wg _ ⟨hL, hS, hc⟩, ⟨hg.wg, ?_⟩, herr'⟩
        intro r hr
        simp only [Option.some.injEq] at hr
        subst hr
        exact ⟨hgd.2, makePipelineError_eq _⟩
      · cases h
    | _ => simp [Label.ordinary] at hord

theorem reachable_all {cfg : Cfg} {s : State} (h : Reachable cfg s) : AllInv cfg s := by
  induction h with
  | init => exact all_init cfg
  | step l _ hs ih => exact all_step ih hs

end C18
