/-
C18 — the inductive invariant of the pipeline transition system: per link
(queue/ghost-log relation, capacity, flag ↔ program-counter relations) and per
stage (a stage with a pending operation is still inside `form.exec`, …).
Preservation is proved label by label in InvA … InvD.
-/
import ElvModel.C18.Model
namespace C18

structure LinkInv (cfg : Cfg) (s : State) (k : Nat) : Prop where
  queue : (s.link k).sent = (s.link k).recvd ++ (s.link k).q
  cap : (s.link k).q.length ≤ cfg.cap
  bqueue : (s.link k).bsent = (s.link k).brecvd ++ (s.link k).pipe
  bcap : (s.link k).pipe.length ≤ cfg.pcap
  stopErr : (s.link k).stop = true → (s.link k).errSet = true
  sawC : (s.link k).sawClosed = true → (s.link k).chClosed = true ∧ (s.link k).q = []
  sawE : (s.link k).sawEof = true → (s.link k).wClosed = true ∧ (s.link k).pipe = []
  cErr : (s.link k).errSet = true ↔ (k + 1 < cfg.n ∧ 3 ≤ (s.stage (k + 1)).pc)
  cStop : (s.link k).stop = true ↔ (k + 1 < cfg.n ∧ 4 ≤ (s.stage (k + 1)).pc)
  cGone : (s.link k).gone = true ↔ (k + 1 < cfg.n ∧ 5 ≤ (s.stage (k + 1)).pc)
  cR : (s.link k).rClosed = true ↔ (k + 1 < cfg.n ∧ ((s.stage (k + 1)).inRedir = true ∨ 6 ≤ (s.stage (k + 1)).pc))
  pW : (s.link k).wClosed = true ↔ (k + 1 < cfg.n ∧ (1 ≤ (s.stage k).outRedir ∨ 7 ≤ (s.stage k).pc))
  pC : (s.link k).chClosed = true ↔ (k + 1 < cfg.n ∧ ((s.stage k).outRedir = 2 ∨ ((s.stage k).outRedir = 0 ∧ 8 ≤ (s.stage k).pc)))

structure StageInv (cfg : Cfg) (s : State) (i : Nat) : Prop where
  outBusy : (s.stage i).out ≠ .idle → (s.stage i).pc = 1 ∧ (s.stage i).outRedir ≠ 1
  vinBusy : (s.stage i).vin ≠ .idle → (s.stage i).pc = 1
  binBusy : (s.stage i).bin ≠ .idle → (s.stage i).pc = 1
  redir1 : (s.stage i).outRedir = 1 → (s.stage i).pc = 1
  redirLe : (s.stage i).outRedir ≤ 2
  pcLe : (s.stage i).pc ≤ 9
  inRedirPc : (s.stage i).inRedir = true → 1 ≤ (s.stage i).pc
  outRedirPc : 1 ≤ (s.stage i).outRedir → 1 ≤ (s.stage i).pc
  wrNe : ∀ todo m, (s.stage i).out = .writing todo m → todo ≠ []
  retv : ∀ r, (s.stage i).retv = some r → (s.stage i).exc = keptExc cfg i r
  retvN : (s.stage i).retv = none → (s.stage i).exc = none
  retvPc : (s.stage i).retv = none ↔ (s.stage i).pc < 2
  range : cfg.n ≤ i → (s.stage i).pc = 0

/-- The invariant: all link and stage invariants, and no Go panic happened. -/
def Inv (cfg : Cfg) (s : State) : Prop :=
  (∀ k, LinkInv cfg s k) ∧ (∀ j, StageInv cfg s j) ∧ s.crashed = false

/-- One label's preservation proof: case-split the step function; in a branch
that ends in a Go panic derive a contradiction, otherwise re-establish every
field, distinguishing whether the index is the stepping stage or a neighbour. -/
macro "inv_step" h:ident hL:ident hS:ident hc:ident i:ident : tactic => `(tactic| (
  have hSi := $hS $i
  have hLi := $hL $i
  have hLp := $hL ($i - 1)
  have hSp := $hS ($i - 1)
  have hSn := $hS ($i + 1)
  simp only [] at $h:ident
  (repeat' split at $h:ident) <;> (first | cases $h:ident | skip)
  all_goals first
    | (refine ⟨fun k => ?_, fun j => ?_, by simp [setStage, setLink, $hc:ident]⟩
       · have hLk := $hL k
         have hSk := $hS k
         have hSk1 := $hS (k + 1)
         constructor <;> simp only [setStage, setLink, upd] <;> grind [LinkInv, StageInv, keptExc]
       · have hSj := $hS j
         constructor <;> simp only [setStage, setLink, upd] <;> grind [LinkInv, StageInv, keptExc])
    | (exfalso; grind [LinkInv, StageInv])))

end C18
