/-
C14 helper lemmas, part 2: what an assignment does to the store (frame
conditions, atomic failure, the pending-restore invariant of tmp/with).
-/
import ElvProofs.C14.Basic
namespace C14
open Go

/-! ### setAll / doAssign: only the heads are rebound -/

theorem setAll_frame (temp : Bool) (pairs : List (LV × Val)) :
    ∀ (σ : Store) (ds : List (String × Val)),
      (∀ y, y ∉ pairs.map (·.1.head) → (setAll temp σ ds pairs).1.get y = σ.get y) ∧
      (∀ d ∈ (setAll temp σ ds pairs).2.1, d ∈ ds ∨ d.1 ∈ pairs.map (·.1.head)) := by
  induction pairs with
  | nil => intro σ ds; simp [setAll]
  | cons p rest ih =>
    intro σ ds
    obtain ⟨lv, v⟩ := p
    simp only [setAll]
    cases hg : σ.get lv.head with
    | none => exact ⟨fun _ _ => rfl, fun d hd => Or.inl hd⟩
    | some cur =>
      simp only []
      cases hs : (if lv.idx.isEmpty then Res.ok v else setElem cur lv.idx v) with
      | exc e => exact ⟨fun _ _ => rfl, fun d hd => Or.inl hd⟩
      | panic w => exact ⟨fun _ _ => rfl, fun d hd => Or.inl hd⟩
      | ok nv =>
        simp only []
        obtain ⟨ih1, ih2⟩ := ih (σ.set lv.head nv) (if temp then ds ++ [(lv.head, cur)] else ds)
        constructor
        · intro y hy
          simp only [List.map_cons, List.mem_cons, not_or] at hy
          rw [ih1 y hy.2, get_set_ne _ _ _ _ hy.1]
        · intro d hd
          rcases ih2 d hd with h | h
          · cases temp with
            | false => exact Or.inl (by simpa using h)
            | true =>
              simp only [if_true, List.mem_append, List.mem_singleton] at h
              rcases h with h | h
              · exact Or.inl h
              · right; simp [h]
          · right; simp only [List.map_cons, List.mem_cons]; exact Or.inr h

theorem map_head_zip (lhs : List LV) (vs : List Val) (y : String)
    (hy : y ∉ lhs.map (·.head)) : y ∉ (lhs.zip vs).map (·.1.head) := by
  intro h
  apply hy
  simp only [List.mem_map] at h ⊢
  obtain ⟨p, hp, rfl⟩ := h
  exact ⟨p.1, (List.of_mem_zip hp).1, rfl⟩

theorem doAssign_frame (temp : Bool) (σ : Store) (lhs : List LV) (rhs : List Rhs) :
    (∀ y, y ∉ lhs.map (·.head) → (doAssign temp σ lhs rhs).1.get y = σ.get y) ∧
    (∀ d ∈ (doAssign temp σ lhs rhs).2.1, d.1 ∈ lhs.map (·.head)) := by
  unfold doAssign
  cases derefAll σ lhs with
  | error f => simp
  | ok u =>
    cases evalAll σ rhs with
    | error f => simp
    | ok vs =>
      simp only []
      by_cases hl : lhs.length ≠ vs.length
      · simp [hl]
      · simp only [hl, if_false]
        obtain ⟨h1, h2⟩ := setAll_frame temp (lhs.zip vs) σ []
        constructor
        · intro y hy
          exact h1 y (map_head_zip lhs vs y hy)
        · intro d hd
          rcases h2 d hd with h | h
          · simp at h
          · simp only [List.mem_map] at h ⊢
            obtain ⟨p, hp, hpe⟩ := h
            exact ⟨p.1, (List.of_mem_zip hp).1, hpe⟩

/-! ### a single lvalue: what exactly happens -/

/-- The new value `set lv = v` gives the head variable, from its current value. -/
def newValue (cur : Val) (lv : LV) (v : Val) : Res Val :=
  if lv.idx.isEmpty then .ok v else setElem cur lv.idx v

theorem evalAll_single (σ : Store) (r : Rhs) :
    evalAll σ [r] = match evalRhs σ r with
      | .ok v => .ok [v]
      | .exc e => .error (.exc e "rhs")
      | .panic w => .error (.panic w) := by
  simp only [evalAll]
  cases evalRhs σ r <;> rfl

theorem doAssign_single (temp : Bool) (σ : Store) (lv : LV) (r : Rhs) :
    (∃ f, doAssign temp σ [lv] [r] = (σ, [], some f)) ∨
    (∃ cur v nv, σ.get lv.head = some cur ∧ evalRhs σ r = .ok v ∧ newValue cur lv v = .ok nv ∧
      doAssign temp σ [lv] [r] = (σ.set lv.head nv, if temp then [(lv.head, cur)] else [], none)) := by
  unfold doAssign
  cases hd : derefAll σ [lv] with
  | error f => exact Or.inl ⟨f, rfl⟩
  | ok u =>
    rw [evalAll_single]
    cases hr : evalRhs σ r with
    | exc e => left; exact ⟨_, rfl⟩
    | panic w => left; exact ⟨_, rfl⟩
    | ok v =>
      simp only [List.length_cons, List.length_nil,
        ne_eq, not_true_eq_false, if_false, List.zip_cons_cons, List.zip_nil_right, setAll]
      cases hg : σ.get lv.head with
      | none => left; exact ⟨_, rfl⟩
      | some cur =>
        simp only []
        cases hs : (if lv.idx.isEmpty then Res.ok v else setElem cur lv.idx v) with
        | exc e => left; exact ⟨_, rfl⟩
        | panic w => left; exact ⟨_, rfl⟩
        | ok nv =>
          right
          refine ⟨cur, v, nv, rfl, rfl, hs, ?_⟩
          cases temp <;> simp

/-! ### the pending-restore invariant

`Inv σ0 σ ds`: `ds` are the restore actions registered since the store was
`σ0`, `σ` is the store now.  A variable with an action: the FIRST action
holds its value in `σ0`.  A variable without: it still has its `σ0` value. -/

def Inv (σ0 σ : Store) (ds : List (String × Val)) : Prop :=
  ∀ h, (∀ d, ds.find? (fun d => d.1 == h) = some d → σ0.get h = some d.2) ∧
       (ds.find? (fun d => d.1 == h) = none → σ.get h = σ0.get h)

theorem inv_init (σ : Store) : Inv σ σ [] := by
  intro h; simp

theorem inv_push {σ0 σ : Store} {ds : List (String × Val)} (hinv : Inv σ0 σ ds)
    (x : String) (cur nv : Val) (hg : σ.get x = some cur) :
    Inv σ0 (σ.set x nv) (ds ++ [(x, cur)]) := by
  intro h
  obtain ⟨i1, i2⟩ := hinv h
  rw [List.find?_append]
  cases hf : ds.find? (fun d => d.1 == h) with
  | some d0 =>
    simp only [Option.some_or]
    refine ⟨?_, by simp⟩
    intro d hd
    cases hd
    exact i1 d0 hf
  | none =>
    simp only [Option.none_or]
    by_cases hx : x = h
    · subst hx
      simp only [List.find?, BEq.rfl]
      refine ⟨?_, by simp⟩
      intro d hd
      cases hd
      rw [← i2 hf, hg]
    · have hb : (x == h) = false := by simpa using hx
      simp only [List.find?, hb]
      refine ⟨by simp, ?_⟩
      intro _
      rw [get_set_ne _ _ _ _ (fun e => hx e.symm)]
      exact i2 hf

theorem setAll_inv (σ0 : Store) (pairs : List (LV × Val)) :
    ∀ (σ : Store) (ds : List (String × Val)), Inv σ0 σ ds →
      Inv σ0 (setAll true σ ds pairs).1 (setAll true σ ds pairs).2.1 ∧
      ((setAll true σ ds pairs).2.2 = none →
        ∀ p ∈ pairs, ((setAll true σ ds pairs).2.1.find? (fun d => d.1 == p.1.head)).isSome) ∧
      (∀ h, (ds.find? (fun d => d.1 == h)).isSome →
        ((setAll true σ ds pairs).2.1.find? (fun d => d.1 == h)).isSome) := by
  induction pairs with
  | nil => intro σ ds hinv; simp [setAll, hinv]
  | cons p rest ih =>
    intro σ ds hinv
    obtain ⟨lv, v⟩ := p
    simp only [setAll]
    cases hg : σ.get lv.head with
    | none => simp [hinv]
    | some cur =>
      simp only []
      cases hs : (if lv.idx.isEmpty then Res.ok v else setElem cur lv.idx v) with
      | exc e => simp [hinv]
      | panic w => simp [hinv]
      | ok nv =>
        simp only [if_true]
        have hinv' := inv_push hinv lv.head cur nv hg
        obtain ⟨h1, h2, h3⟩ := ih (σ.set lv.head nv) (ds ++ [(lv.head, cur)]) hinv'
        refine ⟨h1, ?_, ?_⟩
        · intro hok p hp
          simp only [List.mem_cons] at hp
          rcases hp with rfl | hp
          · apply h3
            rw [List.find?_append]
            cases ds.find? (fun d => d.1 == lv.head) <;> simp
          · exact h2 hok p hp
        · intro h hh
          apply h3
          rw [List.find?_append]
          cases hf : ds.find? (fun d => d.1 == h) with
          | some d => simp
          | none => simp [hf] at hh

theorem setAll_prefix (temp : Bool) (pre : List (String × Val)) (pairs : List (LV × Val)) :
    ∀ (σ : Store) (ds : List (String × Val)),
      setAll temp σ (pre ++ ds) pairs =
        ((setAll temp σ ds pairs).1, pre ++ (setAll temp σ ds pairs).2.1, (setAll temp σ ds pairs).2.2) := by
  induction pairs with
  | nil => intro σ ds; simp [setAll]
  | cons p rest ih =>
    intro σ ds
    obtain ⟨lv, v⟩ := p
    simp only [setAll]
    cases σ.get lv.head with
    | none => rfl
    | some cur =>
      simp only []
      cases (if lv.idx.isEmpty then Res.ok v else setElem cur lv.idx v) with
      | exc e => rfl
      | panic w => rfl
      | ok nv =>
        simp only []
        cases temp with
        | false => simpa using ih (σ.set lv.head nv) ds
        | true =>
          simp only [if_true]
          rw [List.append_assoc]
          exact ih (σ.set lv.head nv) (ds ++ [(lv.head, cur)])

theorem mem_zip_of_mem {α β} (l : List α) (m : List β) (a : α) (ha : a ∈ l)
    (hlen : l.length = m.length) : ∃ b, (a, b) ∈ l.zip m := by
  induction l generalizing m with
  | nil => cases ha
  | cons x xs ih =>
    cases m with
    | nil => simp at hlen
    | cons y ys =>
      simp only [List.mem_cons] at ha
      rcases ha with rfl | ha
      · exact ⟨y, by simp⟩
      · obtain ⟨b, hb⟩ := ih ys ha (by simpa using hlen)
        exact ⟨b, by simp [hb]⟩

/-- `doAssign true` started with pending restores `pre` (it registers its own
after them). -/
theorem doAssign_inv (σ0 σ : Store) (pre : List (String × Val)) (lhs : List LV) (rhs : List Rhs)
    (hinv : Inv σ0 σ pre) :
    Inv σ0 (doAssign true σ lhs rhs).1 (pre ++ (doAssign true σ lhs rhs).2.1) ∧
      ((doAssign true σ lhs rhs).2.2 = none →
        ∀ lv ∈ lhs, ((pre ++ (doAssign true σ lhs rhs).2.1).find? (fun d => d.1 == lv.head)).isSome) ∧
      (∀ h, (pre.find? (fun d => d.1 == h)).isSome →
        ((pre ++ (doAssign true σ lhs rhs).2.1).find? (fun d => d.1 == h)).isSome) := by
  have hpre : ∀ h, (pre.find? (fun d => d.1 == h)).isSome →
      ((pre ++ (doAssign true σ lhs rhs).2.1).find? (fun d => d.1 == h)).isSome := by
    intro h hh
    rw [List.find?_append]
    cases hf : pre.find? (fun d => d.1 == h) with
    | some d => simp
    | none => simp [hf] at hh
  refine ⟨?_, ?_, hpre⟩
  · unfold doAssign
    cases derefAll σ lhs with
    | error f => simpa using hinv
    | ok u =>
      cases evalAll σ rhs with
      | error f => simpa using hinv
      | ok vs =>
        simp only []
        by_cases hl : lhs.length ≠ vs.length
        · simpa [hl] using hinv
        · simp only [hl, if_false]
          have h := (setAll_inv σ0 (lhs.zip vs) σ (pre ++ []) (by simpa using hinv)).1
          rw [setAll_prefix] at h
          exact h
  · unfold doAssign
    cases derefAll σ lhs with
    | error f => simp
    | ok u =>
      cases evalAll σ rhs with
      | error f => simp
      | ok vs =>
        simp only []
        by_cases hl : lhs.length ≠ vs.length
        · simp [hl]
        · simp only [hl, if_false]
          intro hok lv hlv
          have h := (setAll_inv σ0 (lhs.zip vs) σ (pre ++ []) (by simpa using hinv)).2.1
          rw [setAll_prefix] at h
          obtain ⟨v, hv⟩ := mem_zip_of_mem lhs vs lv hlv (by simpa using hl)
          exact h hok (lv, v) hv

theorem newValue_eq_assocIn (cur : Val) (lv : LV) (v : Val) :
    newValue cur lv v = assocIn cur lv.idx v := by
  unfold newValue
  cases h : lv.idx with
  | nil => rfl
  | cons k rest => simpa using setElem_eq_assocIn cur (k :: rest) v (by simp)


theorem evalAll_pair (σ : Store) (r1 r2 : Rhs) :
    evalAll σ [r1, r2] = match evalRhs σ r1, evalRhs σ r2 with
      | .ok v1, .ok v2 => .ok [v1, v2]
      | .ok _, .exc e => .error (.exc e "rhs")
      | .ok _, .panic w => .error (.panic w)
      | .exc e, _ => .error (.exc e "rhs")
      | .panic w, _ => .error (.panic w) := by
  simp only [evalAll]
  cases evalRhs σ r1 <;> cases evalRhs σ r2 <;> rfl


end C14
