/-
C14 helper lemmas, part 3: statements — `with`, the general frame condition
by mutual induction over statements and statement lists.
-/
import ElvProofs.C14.Frame
namespace C14
open Go

theorem find_isSome_append_left {ds more : List (String × Val)} {h : String}
    (hh : (ds.find? (fun d => d.1 == h)).isSome) :
    ((ds ++ more).find? (fun d => d.1 == h)).isSome := by
  rw [List.find?_append]
  cases hf : ds.find? (fun d => d.1 == h) with
  | some d => simp
  | none => simp [hf] at hh

theorem withAssigns_inv (σ0 : Store) (assigns : List (List LV × List Rhs)) :
    ∀ (σ : Store) (ds : List (String × Val)), Inv σ0 σ ds →
      Inv σ0 (withAssigns σ ds assigns).1 (withAssigns σ ds assigns).2.1 ∧
      ((withAssigns σ ds assigns).2.2 = none →
        ∀ a ∈ assigns, ∀ lv ∈ a.1,
          ((withAssigns σ ds assigns).2.1.find? (fun d => d.1 == lv.head)).isSome) ∧
      (∀ h, (ds.find? (fun d => d.1 == h)).isSome →
        ((withAssigns σ ds assigns).2.1.find? (fun d => d.1 == h)).isSome) := by
  induction assigns with
  | nil => intro σ ds hinv; simp [withAssigns, hinv]
  | cons a rest ih =>
    intro σ ds hinv
    obtain ⟨lhs, rhs⟩ := a
    obtain ⟨d1, d2, d3⟩ := doAssign_inv σ0 σ ds lhs rhs hinv
    simp only [withAssigns]
    rcases hda : doAssign true σ lhs rhs with ⟨σ1, more, e⟩
    rw [hda] at d1 d2 d3
    cases e with
    | some f =>
      simp only []
      exact ⟨d1, by simp, d3⟩
    | none =>
      simp only []
      obtain ⟨i1, i2, i3⟩ := ih σ1 (ds ++ more) d1
      refine ⟨i1, ?_, fun h hh => i3 h (d3 h hh)⟩
      intro hok a ha lv hlv
      simp only [List.mem_cons] at ha
      rcases ha with rfl | ha
      · exact i3 _ (d2 rfl lv hlv)
      · exact i2 hok a ha lv hlv

theorem withAssigns_frame (assigns : List (List LV × List Rhs)) :
    ∀ (σ : Store) (ds : List (String × Val)),
      (∀ y, y ∉ assigns.flatMap (fun a => a.1.map (·.head)) →
        (withAssigns σ ds assigns).1.get y = σ.get y) ∧
      (∀ d ∈ (withAssigns σ ds assigns).2.1,
        d ∈ ds ∨ d.1 ∈ assigns.flatMap (fun a => a.1.map (·.head))) := by
  induction assigns with
  | nil => intro σ ds; simp [withAssigns]
  | cons a rest ih =>
    intro σ ds
    obtain ⟨lhs, rhs⟩ := a
    obtain ⟨f1, f2⟩ := doAssign_frame true σ lhs rhs
    simp only [withAssigns]
    rcases hda : doAssign true σ lhs rhs with ⟨σ1, more, e⟩
    rw [hda] at f1 f2
    simp only [List.flatMap_cons, List.mem_append, not_or]
    cases e with
    | some f =>
      simp only []
      refine ⟨fun y hy => f1 y hy.1, ?_⟩
      intro d hd
      simp only [List.mem_append] at hd
      rcases hd with hd | hd
      · exact Or.inl hd
      · exact Or.inr (Or.inl (f2 d hd))
    | none =>
      simp only []
      obtain ⟨i1, i2⟩ := ih σ1 (ds ++ more)
      refine ⟨fun y hy => by rw [i1 y hy.2, f1 y hy.1], ?_⟩
      intro d hd
      rcases i2 d hd with h | h
      · simp only [List.mem_append] at h
        rcases h with h | h
        · exact Or.inl h
        · exact Or.inr (Or.inl (f2 d h))
      · exact Or.inr (Or.inr h)

theorem execDel_frame (σ : Store) (lv : LV) (y : String) (hy : y ≠ lv.head) :
    (execDel σ lv).store.get y = σ.get y ∧ (execDel σ lv).defers = [] := by
  unfold execDel
  cases σ.get lv.head with
  | none => exact ⟨rfl, rfl⟩
  | some cur =>
    simp only []
    cases hdel : delElem cur lv.idx with
    | ok nv => exact ⟨get_set_ne _ _ _ _ hy, rfl⟩
    | panic w => exact ⟨rfl, rfl⟩
    | exc e =>
      simp only []
      cases delErrSite e lv.idx.length with
      | none => exact ⟨rfl, rfl⟩
      | some n => cases n <;> exact ⟨rfl, rfl⟩

/-! ### the general frame condition -/

mutual
/-- The restore actions a statement leaves with its function are for its own heads. -/
theorem exec_defers (σ : Store) (s : Stmt) : ∀ d ∈ (exec σ s).defers, d.1 ∈ headsS s := by
  cases s with
  | assign temp lhs rhs =>
    intro d hd
    simp only [exec] at hd
    simp only [headsS]
    exact (doAssign_frame temp σ lhs rhs).2 d hd
  | del lv =>
    intro d hd
    simp only [exec] at hd
    by_cases hy : d.1 = lv.head
    · simp [headsS, hy]
    · rw [(execDel_frame σ lv d.1 hy).2] at hd; cases hd
  | put rs =>
    intro d hd
    simp only [exec] at hd
    cases h : evalAll σ rs <;> simp [h] at hd
  | call body => intro d hd; simp [exec] at hd
  | withS as body =>
    intro d hd
    simp only [exec] at hd
    rcases hw : withAssigns σ [] as with ⟨σ1, ds, e⟩
    rw [hw] at hd
    cases e <;> simp at hd
theorem execList_defers (σ : Store) (l : List Stmt) : ∀ d ∈ (execList σ l).defers, d.1 ∈ headsL l := by
  cases l with
  | nil => intro d hd; simp [execList] at hd
  | cons s rest =>
    intro d hd
    simp only [execList] at hd
    simp only [headsL, List.mem_append]
    cases he : (exec σ s).err with
    | some f =>
      rw [he] at hd
      exact Or.inl (exec_defers σ s d hd)
    | none =>
      rw [he] at hd
      simp only [List.mem_append] at hd
      rcases hd with hd | hd
      · exact Or.inl (exec_defers σ s d hd)
      · exact Or.inr (execList_defers _ rest d hd)
end

mutual
/-- A statement leaves every variable that is not the head of one of its
lvalues exactly as it was. -/
theorem exec_frame (σ : Store) (s : Stmt) (y : String) (hy : y ∉ headsS s) :
    (exec σ s).store.get y = σ.get y := by
  cases s with
  | assign temp lhs rhs =>
    simp only [exec]
    exact (doAssign_frame temp σ lhs rhs).1 y (by simpa [headsS] using hy)
  | del lv =>
    simp only [exec]
    exact (execDel_frame σ lv y (by simpa [headsS] using hy)).1
  | put rs =>
    simp only [exec]
    cases evalAll σ rs <;> rfl
  | call body =>
    simp only [exec]
    have hy' : y ∉ headsL body := by simpa [headsS] using hy
    rw [restore_get_notin _ _ _ (fun d hd (e : d.1 = y) => hy' (by rw [← e]; exact execList_defers σ body d hd))]
    exact execList_frame σ body y hy'
  | withS as body =>
    simp only [headsS, List.mem_append, not_or] at hy
    simp only [exec]
    obtain ⟨w1, w2⟩ := withAssigns_frame as σ []
    rcases hw : withAssigns σ [] as with ⟨σ1, ds, e⟩
    rw [hw] at w1 w2
    have hds : ∀ d ∈ ds, d.1 ≠ y := by
      intro d hd e
      rcases w2 d hd with h | h
      · cases h
      · exact hy.1 (by rw [← e]; exact h)
    cases e with
    | some f =>
      simp only []
      rw [restore_get_notin _ _ _ hds]
      exact w1 y hy.1
    | none =>
      simp only []
      rw [restore_get_notin _ _ _ hds,
        restore_get_notin _ _ _ (fun d hd (e : d.1 = y) => hy.2 (by rw [← e]; exact execList_defers σ1 body d hd)),
        execList_frame σ1 body y hy.2]
      exact w1 y hy.1
theorem execList_frame (σ : Store) (l : List Stmt) (y : String) (hy : y ∉ headsL l) :
    (execList σ l).store.get y = σ.get y := by
  cases l with
  | nil => simp [execList]
  | cons s rest =>
    simp only [headsL, List.mem_append, not_or] at hy
    simp only [execList]
    cases he : (exec σ s).err with
    | some f => exact exec_frame σ s y hy.1
    | none =>
      simp only []
      rw [execList_frame _ rest y hy.2]
      exact exec_frame σ s y hy.1
end

end C14
