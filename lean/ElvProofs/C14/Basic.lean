/-
C14 helper lemmas, part 1: `Res` rewriting, the store, `restore`, and the
equality of the two-pass shape of element.go with the recursive spec.
-/
import ElvModel.C14.Spec
namespace C14
open Go

/-! ### Res -/

@[simp] theorem bind_ok {α β} (a : α) (f : α → Res β) : (Res.ok a >>= f) = f a := rfl
@[simp] theorem bind_exc {α β} (e : String) (f : α → Res β) : (Res.exc e >>= f) = Res.exc e := rfl
@[simp] theorem bind_panic {α β} (w : String) (f : α → Res β) : (Res.panic w >>= f) = Res.panic w := rfl
@[simp] theorem pure_ok {α} (a : α) : (pure a : Res α) = Res.ok a := rfl

/-! ### store -/

theorem get_set_eq (σ : Store) (x : String) (v : Val) : (σ.set x v).get x = some v := by
  induction σ with
  | nil => simp [Store.set, Store.get]
  | cons e rest ih =>
    obtain ⟨y, w⟩ := e
    by_cases h : y = x
    · subst h; simp [Store.set, Store.get]
    · have hb : (y == x) = false := by simpa using h
      simp only [Store.set, hb, Bool.false_eq_true, if_false]
      simp only [Store.get, List.find?, hb] at ih ⊢
      exact ih

theorem get_set_ne (σ : Store) (x y : String) (v : Val) (h : y ≠ x) :
    (σ.set x v).get y = σ.get y := by
  induction σ with
  | nil =>
    have hb : (x == y) = false := by simpa using fun e => h e.symm
    simp [Store.set, Store.get, hb]
  | cons e rest ih =>
    obtain ⟨z, w⟩ := e
    by_cases hz : z = x
    · subst hz
      have hb : (z == y) = false := by simpa using fun e => h e.symm
      simp [Store.set, Store.get, hb]
    · have hb : (z == x) = false := by simpa using hz
      simp only [Store.set, hb, Bool.false_eq_true, if_false]
      by_cases hy : z = y
      · subst hy; simp [Store.get]
      · have hb2 : (z == y) = false := by simpa using hy
        simp only [Store.get, List.find?, hb2] at ih ⊢
        exact ih

/-- What a run of restore actions leaves in a variable: the value recorded by
the FIRST registered action for it (it runs last), else what was there. -/
theorem restore_get (ds : List (String × Val)) (σ : Store) (h : String) :
    (restore ds σ).get h =
      match ds.find? (fun d => d.1 == h) with
      | some d => some d.2
      | none => σ.get h := by
  induction ds with
  | nil => simp [restore]
  | cons d rest ih =>
    have hr : restore (d :: rest) σ = (restore rest σ).set d.1 d.2 := rfl
    rw [hr]
    by_cases hd : d.1 = h
    · subst hd; simp [get_set_eq]
    · have hb : (d.1 == h) = false := by simpa using hd
      rw [get_set_ne _ _ _ _ (fun e => hd e.symm), ih]
      simp [List.find?, hb]

theorem restore_get_notin (ds : List (String × Val)) (σ : Store) (y : String)
    (h : ∀ d ∈ ds, d.1 ≠ y) : (restore ds σ).get y = σ.get y := by
  rw [restore_get]
  have : ds.find? (fun d => d.1 == y) = none := by
    rw [List.find?_eq_none]
    intro d hd
    simpa using h d hd
  rw [this]

/-! ### element.go: two passes = nested assoc -/

theorem setElem_two (c : Val) (k k2 : Key) (rest : List Key) (v : Val) :
    setElem c (k :: k2 :: rest) v =
      (do let sub ← index c k
          let inner ← setElem sub (k2 :: rest) v
          assoc c k inner) := by
  simp only [setElem, assocers]
  cases index c k with
  | ok sub =>
    simp only [bind_ok]
    cases assocers sub (k2 :: rest) with
    | ok cs => simp [assocUp]
    | exc e => simp
    | panic w => simp
  | exc e => simp
  | panic w => simp

theorem setElem_eq_assocIn (c : Val) (idx : List Key) (v : Val) (hne : idx ≠ []) :
    setElem c idx v = assocIn c idx v := by
  induction idx generalizing c with
  | nil => exact absurd rfl hne
  | cons k rest ih =>
    cases rest with
    | nil =>
      simp only [setElem, assocers, assocIn, pure_ok, bind_ok, assocUp]
    | cons k2 rest =>
      rw [setElem_two, assocIn]
      cases index c k with
      | ok sub => simp only [bind_ok]; rw [ih sub (by simp)]
      | exc e => rfl
      | panic w => rfl

theorem delElem_two (c : Val) (k k2 : Key) (rest : List Key) :
    delElem c (k :: k2 :: rest) =
      (do let sub ← index c k
          let inner ← delElem sub (k2 :: rest)
          assoc c k inner) := by
  simp only [delElem, delWalk]
  cases index c k with
  | ok sub =>
    simp only [bind_ok]
    cases delWalk sub (k2 :: rest) with
    | ok r =>
      obtain ⟨cs, d, last⟩ := r
      simp only [bind_ok]
      cases hdis : dissoc d last with
      | none => simp [hdis]
      | some x => simp [hdis, assocUp]
    | exc e => simp
    | panic w => simp
  | exc e => simp
  | panic w => simp

theorem delElem_eq_dissocIn (c : Val) (idx : List Key) : delElem c idx = dissocIn c idx := by
  induction idx generalizing c with
  | nil => rfl
  | cons k rest ih =>
    cases rest with
    | nil =>
      simp only [delElem, delWalk, dissocIn, pure_ok, bind_ok]
      cases dissoc c k <;> simp [assocUp]
    | cons k2 rest =>
      rw [delElem_two, dissocIn]
      cases index c k with
      | ok sub => simp only [bind_ok]; rw [ih sub]
      | exc e => rfl
      | panic w => rfl

end C14
