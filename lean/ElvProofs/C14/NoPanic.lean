/-
C14 helper lemmas, part 4: the partial Go operations inside element
assignment never panic (the `.panic` branches of `index`/`assoc` are dead by
the C13 theorems; the slice-length panics of element.go need an empty index
list, which the compiler never produces).
-/
import ElvProofs.C14.Basic
import ElvProofs.C13
namespace C14
open Go

theorem indexList_not_nil {α} (l : List α) (raw : C13.Raw) :
    C13.indexList l raw ≠ .ok .nil ∧ ∀ w, C13.indexList l raw ≠ .panic w := by
  unfold C13.indexList
  cases h : C13.convertListIndex raw (l.length : Int) with
  | panic w => exact absurd h (C13_convert_no_panic raw _ w)
  | exc e => constructor <;> simp
  | ok ix =>
    obtain ⟨b1, b2, b3⟩ := C13_bounds_in_range raw l.length ix (by omega) h
    simp only [bind_ok]
    cases hs : ix.slice with
    | true =>
      obtain ⟨c1, c2⟩ := b2 hs
      have : C13.vecSubVector l ix.lower ix.upper =
          some ((l.drop ix.lower.toNat).take (ix.upper.toNat - ix.lower.toNat)) := by
        unfold C13.vecSubVector
        rw [if_neg (by omega)]
      simp [this]
    | false =>
      have c := b3 hs
      have hlt : ix.lower.toNat < l.length := by omega
      have : C13.vecIndex l ix.lower = some l[ix.lower.toNat] := by
        unfold C13.vecIndex
        rw [if_neg (by omega)]
        exact List.getElem?_eq_getElem hlt
      simp [this]

theorem index_no_panic (c : Val) (k : Key) (w : String) : index c k ≠ .panic w := by
  cases c with
  | str s =>
    simp only [index]
    cases h : C13.indexString s k.raw with
    | panic w' => exact absurd h (C13_string_no_panic s k.raw none w').1
    | ok r => simp
    | exc e => simp
  | list xs =>
    simp only [index]
    obtain ⟨h1, h2⟩ := indexList_not_nil xs k.raw
    cases h : C13.indexList xs k.raw with
    | panic w' => exact absurd h (h2 w')
    | exc e => simp
    | ok r =>
      cases r with
      | elem v => simp
      | list l => simp
      | nil => exact absurd h h1
  | map kvs => simp only [index]; cases lookup kvs k <;> simp
  | num i => simp [index]
  | nil => simp [index]

theorem assoc_no_panic (c : Val) (k : Key) (v : Val) (w : String) : assoc c k v ≠ .panic w := by
  cases c with
  | str s =>
    simp only [assoc]
    cases h : C13.assocString s k.raw (match v with | .str r => some r | _ => none) with
    | panic w' => exact absurd h (C13_string_no_panic s k.raw _ w').2
    | ok r => simp
    | exc e => simp
  | list xs =>
    simp only [assoc, C13.assocList]
    cases h : C13.convertListIndex k.raw (xs.length : Int) with
    | panic w' => exact absurd h (C13_convert_no_panic _ _ w')
    | exc e => simp
    | ok ix =>
      obtain ⟨b1, b2, b3⟩ := C13_bounds_in_range k.raw xs.length ix (by omega) h
      simp only [bind_ok]
      cases hs : ix.slice with
      | true => simp [C13.throw]
      | false =>
        have c := b3 hs
        have : C13.vecAssoc xs ix.lower v = some (xs.set ix.lower.toNat v) := by
          unfold C13.vecAssoc
          rw [if_neg (by omega), if_neg (by omega)]
        simp [this]
  | map kvs => simp [assoc]
  | num i => simp [assoc]
  | nil => simp [assoc]

theorem assocIn_no_panic (idx : List Key) :
    ∀ (c v : Val) (w : String), assocIn c idx v ≠ .panic w := by
  induction idx with
  | nil => intro c v w; simp [assocIn]
  | cons k rest ih =>
    intro c v w
    cases rest with
    | nil => simpa [assocIn] using assoc_no_panic c k v w
    | cons k2 rest =>
      rw [assocIn]
      cases hi : index c k with
      | panic w' => exact absurd hi (index_no_panic c k w')
      | exc e => simp
      | ok sub =>
        simp only [bind_ok]
        cases hs : assocIn sub (k2 :: rest) v with
        | panic w' => exact absurd hs (ih sub v w')
        | exc e => simp
        | ok inner => simpa using assoc_no_panic c k inner w

theorem dissocIn_no_panic (idx : List Key) (hne : idx ≠ []) :
    ∀ (c : Val) (w : String), dissocIn c idx ≠ .panic w := by
  induction idx with
  | nil => exact absurd rfl hne
  | cons k rest ih =>
    intro c w
    cases rest with
    | nil => simp only [dissocIn]; cases dissoc c k <;> simp
    | cons k2 rest =>
      rw [dissocIn]
      cases hi : index c k with
      | panic w' => exact absurd hi (index_no_panic c k w')
      | exc e => simp
      | ok sub =>
        simp only [bind_ok]
        cases hs : dissocIn sub (k2 :: rest) with
        | panic w' => exact absurd hs (ih (by simp) sub w')
        | exc e => simp
        | ok inner => simpa using assoc_no_panic c k inner w

theorem assocers_no_panic (idx : List Key) (hne : idx ≠ []) :
    ∀ (c : Val) (w : String), assocers c idx ≠ .panic w := by
  induction idx with
  | nil => exact absurd rfl hne
  | cons k rest ih =>
    intro c w
    cases rest with
    | nil => simp [assocers]
    | cons k2 rest =>
      rw [assocers]
      cases hi : index c k with
      | panic w' => exact absurd hi (index_no_panic c k w')
      | exc e => simp
      | ok sub =>
        simp only [bind_ok]
        cases hs : assocers sub (k2 :: rest) with
        | panic w' => exact absurd hs (ih (by simp) sub w')
        | exc e => simp
        | ok r => simp

theorem indexPath_no_panic (p : List Key) : ∀ (c : Val) (w : String), indexPath c p ≠ .panic w := by
  induction p with
  | nil => intro c w; simp [indexPath]
  | cons k rest ih =>
    intro c w
    rw [indexPath]
    cases hi : index c k with
    | panic w' => exact absurd hi (index_no_panic c k w')
    | exc e => simp
    | ok sub => simpa using ih sub w

theorem derefAll_single_no_panic (σ : Store) (lv : LV) (cur : Val) (hcur : σ.get lv.head = some cur)
    (w : String) : derefAll σ [lv] ≠ .error (.panic w) := by
  simp only [derefAll, hcur]
  by_cases he : lv.idx.isEmpty = true
  · simp only [he, if_true, derefAll]
    intro h; cases h
  · simp only [he]
    have hne : lv.idx ≠ [] := by simpa using he
    cases ha : assocers cur lv.idx with
    | panic w' => exact absurd ha (assocers_no_panic _ hne cur w')
    | exc e => simp [liftRes]
    | ok cs =>
      simp only [liftRes, derefAll, Bool.false_eq_true, if_false]
      intro h; cases h


end C14
