/-
C31 — Terminal input decoding is total and lossless for plain text.

Model: `ElvModel/C31/Model.lean` (`readRune`, `readEvent`, `ReadRawEvent`, the
reader loop `events`) over a byte source of bytes and pauses; vocabulary of the
statements: `ElvModel/C31/Spec.lean`; helper lemmas: `ElvProofs/C31/*.lean`.
Every theorem holds for every content of the key tables (`T : Tables`).
-/
import ElvProofs.C31.Call
open Go C31

/-- The property at full strength, over the model.  For every key table and
every finite stream of bytes and pauses:
* the reader loop never stalls, every call ends in an event or an error (no
  panic, no exhausted loop), consumes at least one item, performs exactly one
  untimed read — its first — and only reads with a finite timeout after it,
  and the calls together consume exactly the stream;
* a stream of plain characters (scalar values ≥ 0x20 other than DEL), each
  preceded by any number of pauses, decodes to exactly one unmodified key
  event per character, in order. -/
def C31_full : Prop :=
  ∀ T : Tables,
    (∀ items : List Item,
      (∀ e ∈ events (readEvent T) items, ∃ c, e = some c ∧ c.ok) ∧
        consumedSum (events (readEvent T) items) = items.length) ∧
    (∀ cs : List (Nat × Nat), (∀ gc ∈ cs, plain gc.2) →
      outcomes (events (readEvent T) (gapTextItems cs)) = cs.map fun gc => keyOf gc.2)

/-- No slice access of `readEvent`/`parseCSI` (`nums[cur]`, `nums[0..2]`) can
panic, whatever the input and however the CSI numbers wrap around. -/
theorem C31_no_panic (T : Tables) (s : Src) (w : String) : ((readEvent T).run s).1 ≠ .panic w := by
  intro h
  have := (readEvent_callSpec T s).1
  rw [h] at this
  exact this

/-- The fuel given to the `CSISeq` loop (items left + 2) is always enough:
every iteration but the last consumes an item. -/
theorem C31_fuel_sufficient (T : Tables) (s : Src) : ((readEvent T).run s).1 ≠ .fuel := by
  intro h
  have := (readEvent_callSpec T s).1
  rw [h] at this
  exact this

/-- One `ReadEvent` call on a non-empty stream: it returns an event or an
error, consumes at least one and at most all items (the rest is the stream
minus what was consumed), and its reads are one untimed read followed by
reads with a finite timeout only. -/
theorem C31_call_total (T : Tables) (items : List Item) (hne : items ≠ []) :
    (call (readEvent T) items).1.ok ∧
      (call (readEvent T) items).1.consumed ≤ items.length ∧
      (call (readEvent T) items).2 = items.drop (call (readEvent T) items).1.consumed :=
  call_spec (readEvent_callSpec T) items hne

example : ([Item.byte 0x1b, Item.byte 0x5b, Item.gap] : List Item) ≠ [] := by simp

/-- On an exhausted stream the call reports the source's error. -/
theorem C31_call_empty (T : Tables) : (call (readEvent T) []).1.out = .err (.read .eof) := rfl

/-- The reader loop never stalls and consumes exactly the stream. -/
theorem C31_loop_total (T : Tables) (items : List Item) :
    (∀ e ∈ events (readEvent T) items, ∃ c, e = some c ∧ c.ok) ∧
      consumedSum (events (readEvent T) items) = items.length :=
  eventsFuel_total (readEvent_callSpec T) items.length items (Nat.le_refl _)

/-- The same for the raw reader (`ReadRawEvent`). -/
theorem C31_raw_loop_total (items : List Item) :
    (∀ e ∈ events readRawEvent items, ∃ c, e = some c ∧ c.ok) ∧
      consumedSum (events readRawEvent items) = items.length :=
  eventsFuel_total readRawEvent_callSpec items.length items (Nat.le_refl _)

/-- Plain text with pauses between characters: one unmodified key event per
character, in order, nothing else. -/
theorem C31_lossless_with_pauses (T : Tables) (cs : List (Nat × Nat)) (hp : ∀ gc ∈ cs, plain gc.2) :
    outcomes (events (readEvent T) (gapTextItems cs)) = cs.map fun gc => keyOf gc.2 :=
  eventsFuel_gapText _ (readEvent_decodesPlain T) cs hp _ (length_le_gapTextItems cs)

example : ∀ gc ∈ [(0, 0x61), (2, 0xe9), (0, 0x4f60), (1, 0x1f600), (0, 0x20), (0, 0x7e), (3, 0x10ffff)], plain gc.2 := by
  decide

/-- Plain text arriving without pauses. -/
theorem C31_lossless (T : Tables) (cs : List Nat) (hp : ∀ c ∈ cs, plain c) :
    outcomes (events (readEvent T) (textItems cs)) = cs.map keyOf := by
  rw [textItems_eq_gapTextItems]
  have := C31_lossless_with_pauses T (cs.map fun c => (0, c)) (by
    intro gc h
    obtain ⟨c, hc, rfl⟩ := List.mem_map.mp h
    exact hp c hc)
  rw [this, List.map_map]
  rfl

example : ∀ c ∈ [0x61, 0xe9, 0x4f60, 0x1f600, 0x5b, 0x4f], plain c := by decide

/-- The raw reader is lossless on plain text as well. -/
theorem C31_raw_lossless (cs : List (Nat × Nat)) (hp : ∀ gc ∈ cs, plain gc.2) :
    outcomes (events readRawEvent (gapTextItems cs)) = cs.map fun gc => keyOf gc.2 :=
  eventsFuel_gapText _ readRawEvent_decodesPlain cs hp _ (length_le_gapTextItems cs)

/-- The property at full strength. -/
theorem C31_full_holds : C31_full :=
  fun T => ⟨C31_loop_total T, C31_lossless_with_pauses T⟩

/-- Sharpness of the hypothesis "pauses only between characters": a pause
longer than the per-byte timeout inside a character does lose it (the
timeouts are the documented behaviour, so this is outside the property). -/
theorem C31_pause_inside_character (T : Tables) :
    outcomes (events (readEvent T) [.byte 0xc3, .gap, .byte 0xa9]) =
      [some (.err (.read .timeout)), some (.event (.key (K 96 ctrl)))] := by
  rfl
