/-
Single quotes: `singleQuotedInner` undoes `quoteSingle` on every string that
decodes without U+FFFD (valid UTF-8 not containing U+FFFD — the only strings
`quoteAs` / `QuoteVariableName` hand to `quoteSingle`).
-/
import ElvProofs.C03.Word
namespace C03
open Go
open C01
open Gen.C01Chars

/-- the text between the quotes -/
def sqBody (t : Bytes) : Bytes := (runes t).flatMap (fun x => sqPiece x.2.1)

theorem quoteSingle_eq (t : Bytes) : quoteSingle t = 39 :: (sqBody t ++ [39]) := by
  simp [quoteSingle, sqBody]

@[simp] theorem sqBody_nil : sqBody [] = [] := rfl

theorem sqBody_cons {t : Bytes} (hne : t ≠ []) :
    sqBody t = sqPiece (decodeRune t).1 ++ sqBody (t.drop (decodeRune t).2) := by
  unfold sqBody
  rw [runes_of_ne_nil hne, List.flatMap_cons]
  congr 1
  simp [shiftRunes, List.flatMap_map]

theorem writeRune_nat (r : Nat) : writeRune ((r : Nat) : Int) = encodeRune r := by
  unfold writeRune
  have : ¬ ((r : Int) < 0) := by omega
  simp [this]

theorem nat_ne_eof (r : Nat) : (((r : Nat) : Int) == eof) = false := by
  simp only [beq_eq_false_iff_ne, eof]; omega

/-- the loop of `singleQuotedInner` on `body' ` returns the quoted string and
stops at the end of the source. -/
theorem singleQuotedLoop_rt {e : Env} :
    ∀ (n : Nat) (t : Bytes) (p : Nat) (buf : Bytes), (runes t).length < n →
      Cur e p (sqBody t ++ [39]) → AllRunes (fun r => r ≠ RuneError) t →
      singleQuotedLoop n buf e (st p) = .ok (buf ++ t) (st e.src.length)
  | 0, _, _, _, hn, _, _ => absurd hn (Nat.not_lt_zero _)
  | n + 1, t, p, buf, hn, hc, hall => by
    unfold singleQuotedLoop
    by_cases hne : t = []
    · subst hne
      simp only [sqBody_nil, List.nil_append] at hc
      rw [bind_of_eq (next_byte hc (by decide))]
      have e39 : (((39 : UInt8).toNat : Nat) : Int) = 39 := by decide
      rw [e39]
      have hcE : Cur e (p + 1) [] := hc.adv1
      simp only [show ((39 : Int) == eof) = false by decide, Bool.false_eq_true, if_false,
        show ((39 : Int) == 39) = true by decide, if_true]
      rw [bind_of_eq (peek_nil hcE)]
      simp only [show (eof == (39 : Int)) = false by decide, Bool.false_eq_true, if_false]
      rw [← hcE.end_eq, List.append_nil]
      rfl
    · have herr : ¬ ((decodeRune t).1 = RuneError ∧ (decodeRune t).2 = 1) := fun h => hall.head hne h.1
      obtain ⟨hv, ht, hw⟩ := decodeRune_eq_encodeRune_append (r := (decodeRune t).1)
        (n := (decodeRune t).2) rfl hne herr
      have htail := hall.tail hne
      have hbody := sqBody_cons hne
      have hrl : (runes t).length = (runes (t.drop (decodeRune t).2)).length + 1 := by
        rw [runes_of_ne_nil hne]; simp
      rw [hrl] at hn
      generalize (decodeRune t).1 = r at hv ht hw hbody
      generalize t.drop (decodeRune t).2 = t' at ht htail hbody hn
      subst ht
      have hlen : (runes t').length < n := by omega
      rw [hbody] at hc
      unfold sqPiece at hc
      by_cases h39 : r = 39
      · subst h39
        have e1 : encodeRune 39 = [39] := by decide
        rw [e1] at hc ⊢
        simp only [show ((39 : Nat) == 39) = true by decide, if_true, List.cons_append,
          List.nil_append] at hc
        rw [bind_of_eq (next_byte hc (by decide))]
        have e39 : (((39 : UInt8).toNat : Nat) : Int) = 39 := by decide
        rw [e39]
        simp only [show ((39 : Int) == eof) = false by decide, Bool.false_eq_true, if_false,
          show ((39 : Int) == 39) = true by decide, if_true]
        rw [bind_of_eq (peek_byte hc.adv1 (by decide)), e39]
        simp only [show ((39 : Int) == 39) = true by decide, if_true]
        rw [bind_of_eq (next_byte hc.adv1 (by decide))]
        rw [singleQuotedLoop_rt n t' _ _ hlen hc.adv1.adv1 htail]
        simp
      · have hb : (r == 39) = false := by simp [h39]
        simp only [hb, Bool.false_eq_true, if_false, List.append_nil, List.append_assoc] at hc
        rw [bind_of_eq (next_enc hc hv)]
        have hi39 : (((r : Nat) : Int) == 39) = false := by
          simp only [beq_eq_false_iff_ne]; intro h; exact h39 (by exact_mod_cast h)
        simp only [nat_ne_eof, hi39, Bool.false_eq_true, if_false]
        rw [singleQuotedLoop_rt n t' _ _ hlen hc.adv htail, writeRune_nat]
        simp

theorem not_bareword_squote (isPrint : Int → Bool) (ctx : Int) :
    allowedInBareword isPrint 39 ctx = false := by
  simp [allowedInBareword, allowedInVariableName]

/-- `(*Primary).parse` on `'…'` produced by `quoteSingle`. -/
theorem primaryBody_single {e : Env} {ctx : Int} (rec : NT → M Node) {t : Bytes}
    (hsrc : e.src = quoteSingle t) (hall : AllRunes (fun r => r ≠ RuneError) t) :
    primaryBody rec { frm := 0, f := { ctx := ctx }, children := [] } e (st 0) =
      .ok { frm := 0, f := { ctx := ctx, ptype := SingleQuoted, value := t }, children := [] }
        (st e.src.length) := by
  rw [quoteSingle_eq] at hsrc
  have hc0 : Cur e 0 (39 :: (sqBody t ++ [39])) := hsrc ▸ Cur.zero e
  have e39 : (((39 : UInt8).toNat : Nat) : Int) = 39 := by decide
  unfold primaryBody
  rw [bind_of_eq (getEnv_eq _ _), bind_of_eq (peek_byte hc0 (by decide)), e39]
  simp only [startsPrimary, not_bareword_squote, show ((39 : Int) == 39) = true by decide,
    Bool.true_or, Bool.not_true, Bool.false_eq_true, if_false, if_true]
  unfold singleQuoted
  rw [bind_of_eq (next_byte hc0 (by decide))]
  simp only [singleQuotedInner, bind_assoc']
  rw [bind_of_eq (loopFuel_eq _ _)]
  have hl := hc0.len
  have hlt : (runes t).length < e.src.length + 2 := by
    have : (runes t).length ≤ (sqBody t).length := by
      unfold sqBody
      rw [List.length_flatMap]
      induction runes t with
      | nil => simp
      | cons x l ih =>
        simp only [List.map_cons, List.sum_cons, List.length_cons]
        have hx : 0 < (sqPiece x.2.1).length := by
          unfold sqPiece
          have := encodeRune_length_pos x.2.1
          rw [List.length_append]; omega
        omega
    simp only [List.length_cons, List.length_append, List.length_nil] at hl
    omega
  rw [bind_of_eq (singleQuotedLoop_rt (e.src.length + 2) t _ [] hlt hc0.adv1 hall)]
  rfl

end C03
