/-
Case analysis of `quoteAs` / `QuoteVariableName`, and `ParseAs` of each form
they can produce.
-/
import ElvProofs.C03.DoubleLoop
import ElvProofs.C03.Bare
namespace C03
open Go
open C01
open Gen.C01Chars

/-! ### the trees -/

/-- the tree of a one-word compound: one indexing without indices whose head
is a primary of type `ty` with value `s`, everything spanning the whole text -/
def wordTree (ctx : Int) (q : Bytes) (ty : Int) (s : Bytes) : Node :=
  .mk .compound 0 q.length q { ctx := ctx }
    [.mk .indexing 0 q.length q { ctx := ctx }
      [.mk .primary 0 q.length q { ctx := ctx, ptype := ty, value := s } []]]

/-- the tree of a variable use -/
def varTree (ctx : Int) (src : Bytes) (s : Bytes) : Node :=
  .mk .primary 0 src.length src { ctx := ctx, ptype := Variable, value := s } []

/-! ### contexts -/

/-- a rune allowed in barewords of the strict context is allowed in every context -/
theorem strict_any {isPrint : Int → Bool} {r : Int} (ctx : Int)
    (h : allowedInBareword isPrint r strictExpr = true) : allowedInBareword isPrint r ctx = true := by
  unfold allowedInBareword at h ⊢
  simp only [show (strictExpr != strictExpr) = false by decide, Bool.and_false, Bool.false_and,
    Bool.or_false, show (strictExpr == CmdExpr) = false by decide] at h
  rw [Bool.or_eq_true, Bool.or_eq_true, Bool.or_eq_true]
  exact Or.inl (Or.inl (Or.inl (by simpa using h)))

/-- `ctxQ` (the context the quoting was decided in) is at least as strict as
`ctxP` (the context the text is parsed in). -/
def CtxLe (isPrint : Int → Bool) (ctxQ ctxP : Int) : Prop :=
  ∀ r : Int, allowedInBareword isPrint r ctxQ = true → allowedInBareword isPrint r ctxP = true

theorem CtxLe.refl (isPrint : Int → Bool) (ctx : Int) : CtxLe isPrint ctx ctx := fun _ h => h
theorem CtxLe.strict (isPrint : Int → Bool) (ctx : Int) : CtxLe isPrint strictExpr ctx :=
  fun _ h => strict_any ctx h

/-! ### `ParseAs` of quoted words -/

theorem startsIndexing_squote (isPrint : Int → Bool) (ctx : Int) :
    startsIndexing isPrint 39 ctx = true := by simp [startsIndexing, startsPrimary]
theorem startsIndexing_dquote (isPrint : Int → Bool) (ctx : Int) :
    startsIndexing isPrint 34 ctx = true := by simp [startsIndexing, startsPrimary]

theorem parseAs_single {isPrint : Int → Bool} (ctx : Int) {t : Bytes}
    (hall : AllRunes (fun r => r ≠ RuneError) t) :
    parseAs isPrint (.compound ctx) (quoteSingle t) =
      .ok (wordTree ctx (quoteSingle t) SingleQuoted t) [] := by
  apply parseAs_of_run
  intro f
  let e : Env := { isPrint := isPrint, src := quoteSingle t }
  have hP : parseNT (f + 1) (.primary ctx) e (st 0) = _ :=
    wrap_primary (e := e) (primaryBody_single (e := e) (fun nt' => parseNT f nt') rfl hall)
  have hd : decodeRune e.src = (39, 1) := by
    show decodeRune (quoteSingle t) = _
    rw [quoteSingle_eq]; exact decodeRune_one 39 _ (by decide)
  refine compound_of_primary (e := e) hP ?_ ?_ ?_
  · show quoteSingle t ≠ []
    rw [quoteSingle_eq]; simp
  · rw [hd]; exact startsIndexing_squote _ _
  · rw [hd]; decide

theorem parseAs_double {isPrint isPrint' : Int → Bool} (ctx : Int) {s body : Bytes}
    (hd : DQ isPrint' s body) :
    parseAs isPrint (.compound ctx) (34 :: (body ++ [34])) =
      .ok (wordTree ctx (34 :: (body ++ [34])) DoubleQuoted s) [] := by
  apply parseAs_of_run
  intro f
  let e : Env := { isPrint := isPrint, src := 34 :: (body ++ [34]) }
  have hP : parseNT (f + 1) (.primary ctx) e (st 0) = _ :=
    wrap_primary (e := e) (primaryBody_double (e := e) (fun nt' => parseNT f nt') rfl hd)
  have hdec : decodeRune e.src = (34, 1) := decodeRune_one 34 _ (by decide)
  refine compound_of_primary (e := e) hP ?_ ?_ ?_
  · show (34 :: (body ++ [34]) : Bytes) ≠ []
    simp
  · rw [hdec]; exact startsIndexing_dquote _ _
  · rw [hdec]; decide

/-! ### the `range` loop of `quoteAs` / `QuoteVariableName` -/

theorem scanLoop_some {isPrint allowed : Int → Bool} :
    ∀ (l : List (Nat × Rune × Nat)) (b b' : Bool), scanLoop isPrint allowed l b = some b' →
      (∀ x ∈ l, x.2.1 ≠ RuneError) ∧
      (b' = true → b = true ∧ ∀ x ∈ l, allowed ((x.2.1 : Nat) : Int) = true)
  | [], b, b', h => by
    simp only [scanLoop, Option.some.injEq] at h
    subst h
    simp
  | x :: l, b, b', h => by
    unfold scanLoop at h
    split at h
    · cases h
    · rename_i hx
      simp only [Bool.or_eq_true, beq_iff_eq, Bool.not_eq_true', not_or] at hx
      obtain ⟨ih1, ih2⟩ := scanLoop_some l _ b' h
      refine ⟨?_, ?_⟩
      · intro y hy
        rcases List.mem_cons.1 hy with rfl | hy
        · exact hx.1
        · exact ih1 y hy
      · intro hb'
        obtain ⟨hb, hl⟩ := ih2 hb'
        by_cases ha : allowed ((x.2.1 : Nat) : Int) = true
        · simp only [ha, Bool.not_true, Bool.false_eq_true, if_false] at hb
          refine ⟨hb, ?_⟩
          intro y hy
          rcases List.mem_cons.1 hy with rfl | hy
          · exact ha
          · exact hl y hy
        · simp [ha] at hb

/-- the first rune of a string that does not start with `~` is not `~` -/
theorem first_rune_ne_tilde {b0 : UInt8} {t : Bytes} (h : (b0 != 126) = true) :
    (decodeRune (b0 :: t)).1 ≠ 126 := by
  intro h126
  have herr : ¬ ((decodeRune (b0 :: t)).1 = RuneError ∧ (decodeRune (b0 :: t)).2 = 1) := by
    rw [h126]; intro hh; exact absurd hh.1 (by decide)
  obtain ⟨_, ht, _⟩ := decodeRune_eq_encodeRune_append (s := b0 :: t) (r := (decodeRune (b0 :: t)).1)
    (n := (decodeRune (b0 :: t)).2) rfl (by simp) herr
  rw [h126] at ht
  have e1 : encodeRune 126 = [126] := by decide
  rw [e1] at ht
  simp only [List.cons_append, List.nil_append, List.cons.injEq] at ht
  rw [ht.1] at h
  exact absurd h (by decide)

/-! ### `quoteAs` -/

/-- what `quoteAs` returns and how it parses, in any context that allows at
least the bareword runes of the context the quoting was decided in. -/
theorem quoteAs_parse (isPrint : Int → Bool) (s : Bytes) (q ctxQ ctxP : Int)
    (hle : CtxLe isPrint ctxQ ctxP) :
    ∃ text ty, quoteAs isPrint s q ctxQ = .ok (text, ty) ∧
      (ty = Bareword ∨ ty = SingleQuoted ∨ ty = DoubleQuoted) ∧
      parseAs isPrint (.compound ctxP) text = .ok (wordTree ctxP text ty s) [] := by
  have hdouble : ∃ text, (quoteDouble isPrint s).map (·, DoubleQuoted) = .ok (text, DoubleQuoted) ∧
      parseAs isPrint (.compound ctxP) text = .ok (wordTree ctxP text DoubleQuoted s) [] := by
    obtain ⟨body, hq, hd⟩ := quoteDouble_spec isPrint s
    exact ⟨_, by rw [hq]; rfl, parseAs_double ctxP hd⟩
  unfold quoteAs
  by_cases hq : (q == DoubleQuoted) = true
  · obtain ⟨text, h1, h2⟩ := hdouble
    exact ⟨text, DoubleQuoted, by simp only [hq, if_true]; exact h1, Or.inr (Or.inr rfl), h2⟩
  · simp only [hq, Bool.false_eq_true, if_false]
    match s with
    | [] =>
      refine ⟨[39, 39], SingleQuoted, rfl, Or.inr (Or.inl rfl), ?_⟩
      have := parseAs_single (isPrint := isPrint) ctxP (t := []) (by intro x hx; simp at hx)
      exact this
    | b0 :: t =>
      simp only []
      cases hscan : scanLoop isPrint (fun r => allowedInBareword isPrint r ctxQ) (runes (b0 :: t))
          (b0 != 126) with
      | none =>
        obtain ⟨text, h1, h2⟩ := hdouble
        exact ⟨text, DoubleQuoted, h1, Or.inr (Or.inr rfl), h2⟩
      | some bare =>
        obtain ⟨hne, hbare⟩ := scanLoop_some _ _ _ hscan
        simp only []
        by_cases hb : (q == Bareword && bare) = true
        · simp only [hb, if_true]
          have hb' : bare = true := by
            simp only [Bool.and_eq_true] at hb; exact hb.2
          obtain ⟨h0, hall⟩ := hbare hb'
          refine ⟨b0 :: t, Bareword, rfl, Or.inl rfl, ?_⟩
          exact parseAs_bare (by simp) (fun x hx => hle _ (hall x hx)) (first_rune_ne_tilde h0)
        · simp only [hb, Bool.false_eq_true, if_false]
          exact ⟨_, SingleQuoted, rfl, Or.inr (Or.inl rfl), parseAs_single ctxP hne⟩

/-! ### `QuoteVariableName` -/

theorem parseAs_var_of_body {isPrint : Int → Bool} {ctx : Int} {src s : Bytes}
    (h : ∀ rec : NT → M Node,
      primaryBody rec { frm := 0, f := { ctx := ctx }, children := [] }
        { isPrint := isPrint, src := src } (st 0) =
      .ok { frm := 0, f := { ctx := ctx, ptype := Variable, value := s }, children := [] }
        (st src.length)) :
    parseAs isPrint (.primary ctx) src = .ok (varTree ctx src s) [] := by
  apply parseAs_of_run
  intro f
  exact wrap_primary (e := { isPrint := isPrint, src := src }) (h _)

/-- `$'…'`: the variable name is read by `singleQuotedInner` -/
theorem primaryBody_var_single {e : Env} {ctx : Int} (rec : NT → M Node) {t : Bytes}
    (hsrc : e.src = 36 :: quoteSingle t) (hall : AllRunes (fun r => r ≠ RuneError) t) :
    primaryBody rec { frm := 0, f := { ctx := ctx }, children := [] } e (st 0) =
      .ok { frm := 0, f := { ctx := ctx, ptype := Variable, value := t }, children := [] }
        (st e.src.length) := by
  rw [primaryBody_dollar rec hsrc _ rfl]
  rw [quoteSingle_eq] at hsrc
  have hc0 : Cur e 0 (36 :: 39 :: (sqBody t ++ [39])) := hsrc ▸ Cur.zero e
  have hc1 := hc0.adv1
  unfold variableP
  rw [bind_of_eq (getEnv_eq _ _), bind_of_eq (next_byte hc0 (by decide)),
    bind_of_eq (next_byte hc1 (by decide))]
  have e39 : (((39 : UInt8).toNat : Nat) : Int) = 39 := by decide
  rw [e39]
  simp only [show ((39 : Int) == eof) = false by decide, show ((39 : Int) == 39) = true by decide,
    Bool.false_eq_true, if_false, if_true, singleQuotedInner, bind_assoc']
  rw [bind_of_eq (loopFuel_eq _ _)]
  have hl := hc0.len
  have hlt : (runes t).length < e.src.length + 2 := by
    have : (runes t).length ≤ (sqBody t).length := by
      unfold sqBody
      rw [List.length_flatMap]
      induction runes t with
      | nil => simp
      | cons x l ih =>
        simp only [List.map_cons, List.sum_cons, List.length_cons]
        have hx : 0 < (sqPiece x.2.1).length := by
          unfold sqPiece
          have := encodeRune_length_pos x.2.1
          rw [List.length_append]; omega
        omega
    simp only [List.length_cons, List.length_append, List.length_nil] at hl
    omega
  rw [bind_of_eq (singleQuotedLoop_rt (e.src.length + 2) t _ [] hlt hc1.adv1 hall)]
  rfl

/-- `$"…"`: the variable name is read by `doubleQuotedInner` -/
theorem primaryBody_var_double {e : Env} {ctx : Int} (rec : NT → M Node) {isPrint : Int → Bool}
    {s body : Bytes} (hsrc : e.src = 36 :: 34 :: (body ++ [34])) (hd : DQ isPrint s body) :
    primaryBody rec { frm := 0, f := { ctx := ctx }, children := [] } e (st 0) =
      .ok { frm := 0, f := { ctx := ctx, ptype := Variable, value := s }, children := [] }
        (st e.src.length) := by
  rw [primaryBody_dollar rec hsrc _ rfl]
  have hc0 : Cur e 0 (36 :: 34 :: (body ++ [34])) := hsrc ▸ Cur.zero e
  have hc1 := hc0.adv1
  unfold variableP
  rw [bind_of_eq (getEnv_eq _ _), bind_of_eq (next_byte hc0 (by decide)),
    bind_of_eq (next_byte hc1 (by decide))]
  have e34 : (((34 : UInt8).toNat : Nat) : Int) = 34 := by decide
  rw [e34]
  simp only [show ((34 : Int) == eof) = false by decide, show ((34 : Int) == 39) = false by decide,
    show ((34 : Int) == 34) = true by decide,
    Bool.false_eq_true, if_false, if_true, doubleQuotedInner, bind_assoc']
  rw [bind_of_eq (loopFuel_eq _ _)]
  have hl := hc0.len
  simp only [List.length_cons, List.length_append, List.length_nil] at hl
  rw [bind_of_eq (doubleQuotedLoop_rt hd (e.src.length + 2) _ [] (by omega) hc1.adv1)]
  rfl

/-- what `QuoteVariableName` returns, and how `$` followed by it parses -/
theorem quoteVariableName_parse (isPrint : Int → Bool) (s : Bytes) (ctx : Int) :
    ∃ text, QuoteVariableName isPrint s = .ok text ∧
      parseAs isPrint (.primary ctx) (36 :: text) = .ok (varTree ctx (36 :: text) s) [] := by
  have hdouble : ∃ text, quoteDouble isPrint s = .ok text ∧
      parseAs isPrint (.primary ctx) (36 :: text) = .ok (varTree ctx (36 :: text) s) [] := by
    obtain ⟨body, hq, hd⟩ := quoteDouble_spec isPrint s
    refine ⟨_, hq, parseAs_var_of_body (fun rec => ?_)⟩
    exact primaryBody_var_double (e := { isPrint := isPrint, src := 36 :: 34 :: (body ++ [34]) })
      rec rfl hd
  have hsingle : ∀ t : Bytes, AllRunes (fun r => r ≠ RuneError) t →
      parseAs isPrint (.primary ctx) (36 :: quoteSingle t) =
        .ok (varTree ctx (36 :: quoteSingle t) t) [] := by
    intro t hall
    refine parseAs_var_of_body (fun rec => ?_)
    exact primaryBody_var_single (e := { isPrint := isPrint, src := 36 :: quoteSingle t }) rec rfl hall
  unfold QuoteVariableName
  match s with
  | [] => exact ⟨[39, 39], rfl, hsingle [] (by intro x hx; simp at hx)⟩
  | b0 :: t =>
    simp only []
    cases hscan : scanLoop isPrint (allowedInVariableName isPrint) (runes (b0 :: t)) true with
    | none => exact hdouble
    | some bare =>
      obtain ⟨hne, hbare⟩ := scanLoop_some _ _ _ hscan
      simp only []
      by_cases hb : bare = true
      · simp only [hb, if_true]
        obtain ⟨_, hall⟩ := hbare hb
        refine ⟨_, rfl, parseAs_var_of_body (fun rec => ?_)⟩
        exact primaryBody_var_bare (e := { isPrint := isPrint, src := 36 :: b0 :: t }) rec rfl
          (by simp) hall
      · simp only [hb, Bool.false_eq_true, if_false]
        exact ⟨_, rfl, hsingle _ hne⟩

end C03
