/-
`rtohex` and the hex-digit loop of the parser's `\x`, `\u`, `\U` escapes are
inverse: `hexLoop w 0` on `rtohex r w` returns `r` (for `r < 16^w`, `r < 2^31`).
-/
import ElvProofs.C03.Cursor
namespace C03
open Go
open C01
open Gen.C01Chars

/-- the digits `rtohex` writes, most significant first -/
def hexDigits (r : Nat) : Nat → List Nat
  | 0 => []
  | w + 1 => hexDigits (r / 16) w ++ [r % 16]

theorem rtohex_eq (r : Nat) : ∀ w, rtohex r w = (hexDigits r w).map hexDigitByte := by
  intro w
  induction w generalizing r with
  | zero => rfl
  | succ w ih => simp [rtohex, hexDigits, ih]

theorem hexDigits_lt (r : Nat) : ∀ w, ∀ d ∈ hexDigits r w, d < 16 := by
  intro w
  induction w generalizing r with
  | zero => simp [hexDigits]
  | succ w ih =>
    intro d hd
    simp only [hexDigits, List.mem_append, List.mem_singleton] at hd
    rcases hd with hd | rfl
    · exact ih _ d hd
    · omega

theorem hexDigits_length (r : Nat) : ∀ w, (hexDigits r w).length = w := by
  intro w
  induction w generalizing r with
  | zero => rfl
  | succ w ih => simp [hexDigits, ih]

/-- what the parser's loop computes from the digits -/
def hexFold (acc : Nat) (ds : List Nat) : Nat := ds.foldl (fun a d => a * 16 + d) acc

theorem hexFold_ge (ds : List Nat) : ∀ acc, acc ≤ hexFold acc ds := by
  induction ds with
  | nil => intro acc; exact Nat.le_refl _
  | cons d ds ih =>
    intro acc
    have := ih (acc * 16 + d)
    simp only [hexFold, List.foldl_cons] at this ⊢
    omega

theorem hexFold_digits2 {r : Nat} (h : r < 256) : hexFold 0 (hexDigits r 2) = r := by
  simp [hexFold, hexDigits]; omega

theorem hexFold_digits4 {r : Nat} (h : r < 65536) : hexFold 0 (hexDigits r 4) = r := by
  simp [hexFold, hexDigits]; omega

theorem hexFold_digits8 {r : Nat} (h : r < 4294967296) : hexFold 0 (hexDigits r 8) = r := by
  simp [hexFold, hexDigits]; omega

theorem hexDigitByte_lt {d : Nat} (h : d < 16) : (hexDigitByte d).toNat < 0x80 := by
  have : d = 0 ∨ d = 1 ∨ d = 2 ∨ d = 3 ∨ d = 4 ∨ d = 5 ∨ d = 6 ∨ d = 7 ∨ d = 8 ∨ d = 9 ∨ d = 10 ∨
      d = 11 ∨ d = 12 ∨ d = 13 ∨ d = 14 ∨ d = 15 := by omega
  rcases this with h | h | h | h | h | h | h | h | h | h | h | h | h | h | h | h <;> subst h <;> decide

/-- `hexToDigit` inverts `rtohex`'s digit. -/
theorem hexToDigit_hexDigitByte {d : Nat} (h : d < 16) :
    hexToDigit (((hexDigitByte d).toNat : Nat) : Int) = ((d : Int), true) := by
  have : d = 0 ∨ d = 1 ∨ d = 2 ∨ d = 3 ∨ d = 4 ∨ d = 5 ∨ d = 6 ∨ d = 7 ∨ d = 8 ∨ d = 9 ∨ d = 10 ∨
      d = 11 ∨ d = 12 ∨ d = 13 ∨ d = 14 ∨ d = 15 := by omega
  rcases this with h | h | h | h | h | h | h | h | h | h | h | h | h | h | h | h <;> subst h <;> decide

theorem wrap32_small {x : Int} (h0 : 0 ≤ x) (h1 : x < 2147483648) : wrap32 x = x := by
  unfold wrap32; omega

/-- the hex-digit loop reads the digits and stops behind them -/
theorem hexLoop_digits {e : Env} :
    ∀ (ds : List Nat) (acc p : Nat) (rest : Bytes), (∀ d ∈ ds, d < 16) →
      Cur e p (ds.map hexDigitByte ++ rest) → hexFold acc ds < 2147483648 →
      hexLoop ds.length ((acc : Nat) : Int) e (st p) =
        .ok ((hexFold acc ds : Nat) : Int) (st (p + ds.length))
  | [], acc, p, rest, _, _, _ => by simp [hexLoop, hexFold]
  | d :: ds, acc, p, rest, hd, hc, hb => by
    have hd0 : d < 16 := hd d (by simp)
    simp only [List.map_cons, List.cons_append] at hc
    simp only [List.length_cons]
    unfold hexLoop
    rw [bind_of_eq (next_byte hc (hexDigitByte_lt hd0))]
    simp only [hexToDigit_hexDigitByte hd0, Bool.not_true, Bool.false_eq_true, if_false]
    have hge := hexFold_ge ds (acc * 16 + d)
    have hfold : hexFold acc (d :: ds) = hexFold (acc * 16 + d) ds := rfl
    rw [hfold] at hb ⊢
    have hw : wrap32 (((acc : Nat) : Int) * 16 + (d : Int)) = ((acc * 16 + d : Nat) : Int) := by
      rw [wrap32_small (by omega) (by omega)]; omega
    have hd' : ∀ x ∈ ds, x < 16 := fun x hx => hd x (List.mem_cons_of_mem _ hx)
    have ih := hexLoop_digits ds (acc * 16 + d) (p + 1) rest hd' hc.adv1 hb
    rw [hw, ih]
    have : p + 1 + ds.length = p + (ds.length + 1) := by omega
    rw [this]

theorem byteOf_nat {r : Nat} (h : r < 256) : byteOf ((r : Nat) : Int) = UInt8.ofNat r := by
  unfold byteOf
  congr 1
  omega

end C03
