/-
Barewords: `for allowed(ps.peek()) { ps.next() }` runs to the end of a text
all of whose runes are allowed; the `Primary` it gives; the unquoted variable
name.
-/
import ElvProofs.C03.Word
namespace C03
open Go
open C01
open Gen.C01Chars

/-- `skipWhile` over a text whose runes all satisfy the predicate stops at EOF. -/
theorem skipWhile_all {e : Env} (pr : Int → Bool) (hp : pr eof = false) :
    ∀ (n p : Nat) (rest : Bytes), Cur e p rest → rest.length < n →
      AllRunes (fun r => pr ((r : Nat) : Int) = true) rest →
      skipWhile pr n e (st p) = .ok () (st e.src.length)
  | 0, _, _, _, hn, _ => absurd hn (Nat.not_lt_zero _)
  | n + 1, p, rest, hc, hn, hall => by
    unfold skipWhile
    by_cases hne : rest = []
    · subst hne
      rw [bind_of_eq (peek_nil hc)]
      simp only [hp]
      rw [← hc.end_eq]
      rfl
    · rw [bind_of_eq (peek_cons hc hne)]
      have hh : pr (((decodeRune rest).1 : Nat) : Int) = true := hall.head hne
      simp only [hh, if_true]
      rw [bind_of_eq (next_cons hc hne)]
      have hw := decodeRune_size_pos hne
      have hle := decodeRune_size_le rest
      exact skipWhile_all pr hp n _ _ (hc.drop _ hle) (by rw [List.length_drop]; omega) (hall.tail hne)

/-- `(*Primary).parse` on a text whose runes are all bareword runes of the context. -/
theorem primaryBody_bare {e : Env} {ctx : Int} (rec : NT → M Node) (hne : e.src ≠ [])
    (hall : AllRunes (fun r => allowedInBareword e.isPrint ((r : Nat) : Int) ctx = true) e.src) :
    primaryBody rec { frm := 0, f := { ctx := ctx }, children := [] } e (st 0) =
      .ok { frm := 0, f := { ctx := ctx, ptype := Bareword, value := e.src }, children := [] }
        (st e.src.length) := by
  have hc0 := Cur.zero e
  have h0 : allowedInBareword e.isPrint (((decodeRune e.src).1 : Nat) : Int) ctx = true := hall.head hne
  unfold primaryBody
  rw [bind_of_eq (getEnv_eq _ _), bind_of_eq (peek_cons hc0 hne)]
  have hsp : startsPrimary e.isPrint (((decodeRune e.src).1 : Nat) : Int) ctx = true := by
    simp [startsPrimary, h0]
  simp only [hsp, h0, Bool.not_true, if_true, Bool.false_eq_true, if_false]
  unfold bareword
  rw [bind_of_eq (getEnv_eq _ _), bind_of_eq (loopFuel_eq _ _)]
  have hsk := skipWhile_all (e := e) (fun r => allowedInBareword e.isPrint r ctx)
    (by simp [allowedInBareword, allowedInVariableName, eof]) (e.src.length + 2) 0 e.src hc0 (by omega) hall
  simp only [NB.setType]
  rw [bind_of_eq hsk, bind_of_eq (getPos_eq _ _)]
  simp only [st]
  rw [bind_of_eq (sliceSrc_to_end hc0)]
  rfl

theorem allowedInBareword_startsIndexing {isPrint : Int → Bool} {r ctx : Int}
    (h : allowedInBareword isPrint r ctx = true) : startsIndexing isPrint r ctx = true := by
  simp [startsIndexing, startsPrimary, h]

/-- A bareword that is the whole source parses, as a `Compound` of its
context, to one indexing whose head is that bareword. -/
theorem parseAs_bare {isPrint : Int → Bool} {ctx : Int} {s : Bytes} (hne : s ≠ [])
    (hall : AllRunes (fun r => allowedInBareword isPrint ((r : Nat) : Int) ctx = true) s)
    (hnt : (decodeRune s).1 ≠ 126) :
    parseAs isPrint (.compound ctx) s =
      .ok (.mk .compound 0 s.length s { ctx := ctx }
            [.mk .indexing 0 s.length s { ctx := ctx }
              [.mk .primary 0 s.length s { ctx := ctx, ptype := Bareword, value := s } []]]) [] := by
  apply parseAs_of_run
  intro f
  let e : Env := { isPrint := isPrint, src := s }
  have hP : parseNT (f + 1) (.primary ctx) e (st 0) = _ :=
    wrap_primary (e := e) (primaryBody_bare (e := e) (fun nt' => parseNT f nt') hne hall)
  exact compound_of_primary (e := e) hP hne (allowedInBareword_startsIndexing (hall.head hne)) hnt

/-! ### unquoted variable names -/

theorem allowedInVariableName_eof (isPrint : Int → Bool) :
    allowedInVariableName isPrint eof = false := by
  simp [allowedInVariableName, eof]

theorem not_bareword_dollar (isPrint : Int → Bool) (ctx : Int) :
    allowedInBareword isPrint 36 ctx = false := by
  simp [allowedInBareword, allowedInVariableName]

/-- the first steps of `(*Primary).parse` on `$…`: dispatch to `variable` -/
theorem primaryBody_dollar {e : Env} {ctx : Int} (rec : NT → M Node) {t : Bytes}
    (hsrc : e.src = 36 :: t) (nb : NB) (hnb : nb.f.ctx = ctx) :
    primaryBody rec nb e (st 0) = variableP nb e (st 0) := by
  have hc0 : Cur e 0 (36 :: t) := hsrc ▸ Cur.zero e
  unfold primaryBody
  rw [bind_of_eq (getEnv_eq _ _), bind_of_eq (peek_byte hc0 (by decide))]
  have e36 : (((36 : UInt8).toNat : Nat) : Int) = 36 := by decide
  rw [e36, hnb]
  simp [startsPrimary, not_bareword_dollar]

/-- `$name` where every rune of `name` may appear in a variable name. -/
theorem primaryBody_var_bare {e : Env} {ctx : Int} (rec : NT → M Node) {t : Bytes}
    (hsrc : e.src = 36 :: t) (hne : t ≠ [])
    (hall : AllRunes (fun r => allowedInVariableName e.isPrint ((r : Nat) : Int) = true) t) :
    primaryBody rec { frm := 0, f := { ctx := ctx }, children := [] } e (st 0) =
      .ok { frm := 0, f := { ctx := ctx, ptype := Variable, value := t }, children := [] }
        (st e.src.length) := by
  rw [primaryBody_dollar rec hsrc _ rfl]
  have hc0 : Cur e 0 (36 :: t) := hsrc ▸ Cur.zero e
  have hc1 : Cur e (0 + 1) t := hc0.adv1
  have h0 : allowedInVariableName e.isPrint (((decodeRune t).1 : Nat) : Int) = true := hall.head hne
  have hw := decodeRune_size_pos hne
  have hle := decodeRune_size_le t
  have hl1 := hc1.len
  unfold variableP
  rw [bind_of_eq (getEnv_eq _ _), bind_of_eq (next_byte hc0 (by decide)), bind_of_eq (next_cons hc1 hne)]
  have hneof : ¬ ((((decodeRune t).1 : Nat) : Int) == eof) = true := by
    simp only [beq_iff_eq, eof]; omega
  have hn39 : ¬ ((((decodeRune t).1 : Nat) : Int) == 39) = true := by
    intro h
    rw [beq_iff_eq] at h
    rw [h] at h0
    simp [allowedInVariableName] at h0
  have hn34 : ¬ ((((decodeRune t).1 : Nat) : Int) == 34) = true := by
    intro h
    rw [beq_iff_eq] at h
    rw [h] at h0
    simp [allowedInVariableName] at h0
  simp only [hneof, hn39, hn34, if_false, h0, Bool.not_true, Bool.false_and, Bool.false_eq_true]
  rw [bind_of_eq (pure_apply _ _ _), bind_of_eq (loopFuel_eq _ _)]
  have hsk := skipWhile_all (e := e) (allowedInVariableName e.isPrint) (allowedInVariableName_eof _)
    (e.src.length + 2) _ _ (hc1.drop _ hle) (by rw [List.length_drop]; omega) (hall.tail hne)
  rw [bind_of_eq hsk, bind_of_eq (getPos_eq _ _)]
  simp only [st, NB.setType]
  rw [bind_of_eq (sliceSrc_to_end hc1)]
  rfl

end C03
