/-
`quoteDouble` terminates without panic on every byte string, and
`doubleQuotedInner` reads its output back to exactly that string.
-/
import ElvProofs.C03.Double
namespace C03
open Go
open C01
open Gen.C01Chars

/-- `DQ s body`: `body` is the concatenation of the pieces `quoteDouble` writes
for the runes of `s`. -/
inductive DQ (isPrint : Int → Bool) : Bytes → Bytes → Prop
  | nil : DQ isPrint [] []
  | cons (b0 : UInt8) (t body : Bytes) :
      DQ isPrint ((b0 :: t).drop (decodeRune (b0 :: t)).2) body →
      DQ isPrint (b0 :: t)
        (dqPiece isPrint b0 (decodeRune (b0 :: t)).1 (decodeRune (b0 :: t)).2 ++ body)

/-- the loop of `quoteDouble` returns (no panic; enough fuel) and what it
appends is described by `DQ`. -/
theorem quoteDoubleLoop_spec (isPrint : Int → Bool) :
    ∀ (fuel : Nat) (s buf : Bytes), s.length ≤ fuel →
      ∃ body, quoteDoubleLoop isPrint fuel s buf = .ok (buf ++ body) ∧ DQ isPrint s body
  | _, [], buf, _ => ⟨[], by cases ‹Nat› <;> simp [quoteDoubleLoop], .nil⟩
  | 0, _ :: _, _, h => by simp at h
  | fuel + 1, b0 :: t, buf, h => by
    have hle := decodeRune_size_le (b0 :: t)
    have hpos := decodeRune_size_pos (s := b0 :: t) (by simp)
    have hlen : ((b0 :: t).drop (decodeRune (b0 :: t)).2).length ≤ fuel := by
      rw [List.length_drop]; simp only [List.length_cons] at h ⊢; omega
    obtain ⟨body, hq, hd⟩ := quoteDoubleLoop_spec isPrint fuel _
      (buf ++ dqPiece isPrint b0 (decodeRune (b0 :: t)).1 (decodeRune (b0 :: t)).2) hlen
    refine ⟨_, ?_, .cons b0 t body hd⟩
    unfold quoteDoubleLoop
    simp only [hle, if_true]
    rw [hq, List.append_assoc]

/-- `quoteDouble` always returns: `"` ++ pieces ++ `"`. -/
theorem quoteDouble_spec (isPrint : Int → Bool) (s : Bytes) :
    ∃ body, quoteDouble isPrint s = .ok (34 :: (body ++ [34])) ∧ DQ isPrint s body := by
  obtain ⟨body, hq, hd⟩ := quoteDoubleLoop_spec isPrint (s.length + 1) s [34] (by omega)
  exact ⟨body, by simp [quoteDouble, hq, QRes.map], hd⟩

theorem dqPiece_length_pos (isPrint : Int → Bool) (b0 : UInt8) (r w : Nat) :
    0 < (dqPiece isPrint b0 r w).length := by
  unfold dqPiece
  split
  · simp
  · split
    · simp
    · split
      · exact encodeRune_length_pos r
      · split
        · simp
        · split <;> simp

/-- the loop of `doubleQuotedInner` on the pieces followed by the closing quote -/
theorem doubleQuotedLoop_rt {e : Env} {isPrint : Int → Bool} {s body : Bytes} (h : DQ isPrint s body) :
    ∀ (n p : Nat) (buf : Bytes), body.length < n → Cur e p (body ++ [34]) →
      doubleQuotedLoop n buf e (st p) = .ok (buf ++ s) (st e.src.length) := by
  induction h with
  | nil =>
    intro n p buf hn hc
    match n, hn with
    | n + 1, _ =>
      simp only [List.nil_append] at hc
      unfold doubleQuotedLoop
      rw [bind_of_eq (next_byte hc (by decide))]
      have e1 : (((34 : UInt8).toNat : Nat) : Int) = 34 := by decide
      rw [e1]
      simp only [show ((34 : Int) == eof) = false by decide, show ((34 : Int) == 34) = true by decide,
        Bool.false_eq_true, if_false, if_true]
      rw [← hc.adv1.end_eq, List.append_nil]
      rfl
  | cons b0 t body _ ih =>
    intro n p buf hn hc
    match n, hn with
    | n + 1, hn =>
      rw [List.append_assoc] at hc
      rw [dq_piece_step isPrint b0 t n p buf _ hc]
      have hpos := dqPiece_length_pos isPrint b0 (decodeRune (b0 :: t)).1 (decodeRune (b0 :: t)).2
      rw [ih n _ _ (by rw [List.length_append] at hn; omega) hc.adv, List.append_assoc,
        List.take_append_drop]

theorem not_bareword_dquote (isPrint : Int → Bool) (ctx : Int) :
    allowedInBareword isPrint 34 ctx = false := by
  simp [allowedInBareword, allowedInVariableName]

/-- `(*Primary).parse` on the output of `quoteDouble`. -/
theorem primaryBody_double {e : Env} {ctx : Int} (rec : NT → M Node) {isPrint : Int → Bool}
    {s body : Bytes} (hsrc : e.src = 34 :: (body ++ [34])) (hd : DQ isPrint s body) :
    primaryBody rec { frm := 0, f := { ctx := ctx }, children := [] } e (st 0) =
      .ok { frm := 0, f := { ctx := ctx, ptype := DoubleQuoted, value := s }, children := [] }
        (st e.src.length) := by
  have hc0 : Cur e 0 (34 :: (body ++ [34])) := hsrc ▸ Cur.zero e
  have e34 : (((34 : UInt8).toNat : Nat) : Int) = 34 := by decide
  unfold primaryBody
  rw [bind_of_eq (getEnv_eq _ _), bind_of_eq (peek_byte hc0 (by decide)), e34]
  simp only [startsPrimary, not_bareword_dquote, show ((34 : Int) == 39) = false by decide,
    show ((34 : Int) == 34) = true by decide,
    Bool.true_or, Bool.or_true, Bool.not_true, Bool.false_eq_true, if_false, if_true]
  unfold doubleQuoted
  rw [bind_of_eq (next_byte hc0 (by decide))]
  simp only [doubleQuotedInner, bind_assoc']
  rw [bind_of_eq (loopFuel_eq _ _)]
  have hl := hc0.len
  simp only [List.length_cons, List.length_append, List.length_nil] at hl
  rw [bind_of_eq (doubleQuotedLoop_rt hd (e.src.length + 2) _ [] (by omega) hc0.adv1)]
  rfl

end C03
