/-
From a primary that consumes the whole source to the result of `ParseAs` for a
`Compound` (one indexing, no indices, no tilde node) and for a `Primary`.
-/
import ElvProofs.C03.Cursor
namespace C03
open Go
open C01
open Gen.C01Chars

theorem startsIndexing_eof (isPrint : Int → Bool) (ctx : Int) :
    startsIndexing isPrint eof ctx = false := by
  simp [startsIndexing, startsPrimary, allowedInBareword, allowedInVariableName, eof]

/-- the node `parse[N]` builds around a primary body that consumed everything -/
theorem wrap_primary {e : Env} {ctx : Int} {rec : NT → M Node} {fl : Fields}
    (h : primaryBody rec { frm := 0, f := { ctx := ctx }, children := [] } e (st 0) =
      .ok { frm := 0, f := fl, children := [] } (st e.src.length)) :
    wrap rec (.primary ctx) e (st 0) =
      .ok (.mk .primary 0 e.src.length e.src fl []) (st e.src.length) := by
  unfold wrap
  rw [bind_of_eq (getPos_eq _ _)]
  simp only [body, NT.init, st] at h ⊢
  rw [bind_of_eq h, bind_of_eq (getPos_eq _ _)]
  simp only []
  rw [bind_of_eq (sliceSrc_to_end (Cur.zero e))]
  rfl

/-- `Indexing` and `Compound` around a primary that consumed the whole source. -/
theorem compound_of_primary {e : Env} {ctx : Int} {P : Node} {f : Nat}
    (hP : parseNT (f + 1) (.primary ctx) e (st 0) = .ok P (st e.src.length))
    (hne : e.src ≠ [])
    (hstart : startsIndexing e.isPrint (((decodeRune e.src).1 : Nat) : Int) ctx = true)
    (hnt : (decodeRune e.src).1 ≠ 126) :
    parseNT (f + 3) (.compound ctx) e (st 0) =
      .ok (.mk .compound 0 e.src.length e.src { ctx := ctx }
            [.mk .indexing 0 e.src.length e.src { ctx := ctx } [P]]) (st e.src.length) := by
  have hc0 : Cur e 0 e.src := Cur.zero e
  have hcE : Cur e e.src.length [] := ⟨Nat.le_refl _, by simp⟩
  have hpk0 := peek_cons hc0 hne
  have hpkE := peek_nil hcE
  have hnt' : ¬ ((((decodeRune e.src).1 : Nat) : Int) == 126) = true := by
    simp only [beq_iff_eq]; intro h; apply hnt; exact_mod_cast h
  -- the indexing
  have hI : parseNT (f + 2) (.indexing ctx) e (st 0) =
      .ok (.mk .indexing 0 e.src.length e.src { ctx := ctx } [P]) (st e.src.length) := by
    show wrap (fun nt' => parseNT (f + 1) nt') (.indexing ctx) e (st 0) = _
    unfold wrap
    rw [bind_of_eq (getPos_eq _ _)]
    simp only [body, NT.init, indexingBody, bind_assoc']
    rw [bind_of_eq hP, bind_of_eq (loopFuel_eq _ _)]
    have hloop : indexingLoop (fun nt' => parseNT (f + 1) nt') (e.src.length + 2)
        (NB.add { frm := (st 0).pos, f := { ctx := ctx }, children := [] } P) e (st e.src.length) =
        .ok (NB.add { frm := (st 0).pos, f := { ctx := ctx }, children := [] } P) (st e.src.length) := by
      show indexingLoop _ ((e.src.length + 1) + 1) _ e _ = _
      unfold indexingLoop
      rw [bind_of_eq (getEnv_eq _ _), bind_of_eq (parseSep_no _ hpkE (by decide))]
      rfl
    rw [bind_of_eq hloop, bind_of_eq (getPos_eq _ _)]
    simp only [st, NB.add]
    rw [bind_of_eq (sliceSrc_to_end (Cur.zero e))]
    rfl
  show wrap (fun nt' => parseNT (f + 2) nt') (.compound ctx) e (st 0) = _
  unfold wrap
  rw [bind_of_eq (getPos_eq _ _)]
  simp only [body, NT.init, compoundBody, bind_assoc']
  have htilde : tilde { frm := (st 0).pos, f := { ctx := ctx }, children := [] } e (st 0) =
      .ok { frm := (st 0).pos, f := { ctx := ctx }, children := [] } (st 0) := by
    unfold tilde
    rw [bind_of_eq hpk0]
    simp [hnt']
  rw [bind_of_eq htilde, bind_of_eq (loopFuel_eq _ _)]
  have hloop : compoundLoop (fun nt' => parseNT (f + 2) nt') ctx (e.src.length + 2)
      { frm := (st 0).pos, f := { ctx := ctx }, children := [] } e (st 0) =
      .ok (NB.add { frm := (st 0).pos, f := { ctx := ctx }, children := [] }
        (.mk .indexing 0 e.src.length e.src { ctx := ctx } [P])) (st e.src.length) := by
    show compoundLoop _ ctx ((e.src.length + 1) + 1) _ e _ = _
    unfold compoundLoop
    rw [bind_of_eq (getEnv_eq _ _), bind_of_eq hpk0]
    simp only [hstart, if_true]
    rw [bind_of_eq hI]
    show compoundLoop _ ctx (e.src.length + 1) _ e _ = _
    unfold compoundLoop
    rw [bind_of_eq (getEnv_eq _ _), bind_of_eq hpkE]
    simp [startsIndexing_eof]
  rw [bind_of_eq hloop, bind_of_eq (getPos_eq _ _)]
  simp only [st, NB.add]
  rw [bind_of_eq (sliceSrc_to_end (Cur.zero e))]
  rfl

/-- `ParseAs` from a run of the grammar function that ends at the end of the
source without errors: `parser.done` adds nothing. -/
theorem parseAs_of_run {isPrint : Int → Bool} {src : Bytes} {nt : NT} {n : Node}
    (h : ∀ f, parseNT (f + 3) nt { isPrint := isPrint, src := src } (st 0) = .ok n (st src.length)) :
    parseAs isPrint nt src = .ok n [] := by
  unfold parseAs parseAsFuel defaultFuel
  have h' := h (7 * src.length + 5)
  have e1 : 7 * src.length + 8 = 7 * src.length + 5 + 3 := by omega
  rw [e1]
  simp only [st] at h'
  simp only []
  rw [bind_of_eq h']
  have hd : done { isPrint := isPrint, src := src } { pos := src.length, overEOF := 0, errors := [] } =
      .ok () { pos := src.length, overEOF := 0, errors := [] } := by
    simp [done]
  rw [bind_of_eq hd]
  rfl

end C03
