/-
Double quotes: `doubleQuotedInner` undoes `quoteDouble` on EVERY byte string,
by cases of the branch `quoteDouble` takes for each decoded rune.
-/
import ElvProofs.C03.Hex
import ElvProofs.C03.Single
namespace C03
open Go
open C01
open Gen.C01Chars

/-! ### the derived table -/

theorem doubleUnescape_val : doubleUnescape =
    [(7, 97), (8, 98), (12, 102), (10, 110), (13, 114), (9, 116), (11, 118), (92, 92), (34, 34),
      (27, 101)] := by decide

/-- the pairs of `doubleUnescape` -/
theorem unescape_cases {r : Nat} {c : Int} (h : doubleUnescape.lookup ((r : Nat) : Int) = some c) :
    (r = 7 ∧ c = 97) ∨ (r = 8 ∧ c = 98) ∨ (r = 12 ∧ c = 102) ∨ (r = 10 ∧ c = 110) ∨
    (r = 13 ∧ c = 114) ∨ (r = 9 ∧ c = 116) ∨ (r = 11 ∧ c = 118) ∨ (r = 92 ∧ c = 92) ∨
    (r = 34 ∧ c = 34) ∨ (r = 27 ∧ c = 101) := by
  rw [doubleUnescape_val] at h
  simp only [List.lookup_cons, List.lookup_nil] at h
  repeat' split at h
  all_goals first
    | (rename_i hh; simp only [beq_iff_eq] at hh; simp only [Option.some.injEq] at h; omega)
    | simp at h

/-- what the parser needs to know about a pair of `doubleUnescape` -/
theorem table_facts {r : Nat} {c : Int} (h : doubleUnescape.lookup ((r : Nat) : Int) = some c) :
    ∃ cb : UInt8, c = ((cb.toNat : Nat) : Int) ∧ cb.toNat < 0x80 ∧ r < 0x80 ∧
      ((((cb.toNat : Nat) : Int) == 99) || (((cb.toNat : Nat) : Int) == 94)) = false ∧
      ((((cb.toNat : Nat) : Int) == 120) || (((cb.toNat : Nat) : Int) == 117) ||
        (((cb.toNat : Nat) : Int) == 85)) = false ∧
      (decide ((48 : Int) ≤ ((cb.toNat : Nat) : Int)) && decide (((cb.toNat : Nat) : Int) ≤ 55)) = false ∧
      doubleEscape.lookup ((cb.toNat : Nat) : Int) = some ((r : Nat) : Int) ∧
      writeRune c = [cb] := by
  rcases unescape_cases h with ⟨hr, hc⟩ | ⟨hr, hc⟩ | ⟨hr, hc⟩ | ⟨hr, hc⟩ | ⟨hr, hc⟩ | ⟨hr, hc⟩ | ⟨hr, hc⟩ |
    ⟨hr, hc⟩ | ⟨hr, hc⟩ | ⟨hr, hc⟩ <;> subst hr <;> subst hc
  · exact ⟨97, by decide⟩
  · exact ⟨98, by decide⟩
  · exact ⟨102, by decide⟩
  · exact ⟨110, by decide⟩
  · exact ⟨114, by decide⟩
  · exact ⟨116, by decide⟩
  · exact ⟨118, by decide⟩
  · exact ⟨92, by decide⟩
  · exact ⟨34, by decide⟩
  · exact ⟨101, by decide⟩

theorem unescape_none {r : Nat} (h : doubleUnescape.lookup ((r : Nat) : Int) = none) :
    r ≠ 34 ∧ r ≠ 92 := by
  rw [doubleUnescape_val] at h
  constructor <;> (intro hr; subst hr; simp [List.lookup] at h)

/-! ### one escape sequence -/

/-- a `\x`, `\u` or `\U` escape written by `rtohex` -/
theorem escape_hex {e : Env} {p : Nat} {rest : Bytes} (c : UInt8) (k v : Nat)
    (hck : c = 120 ∧ k = 2 ∨ c = 117 ∧ k = 4 ∨ c = 85 ∧ k = 8)
    (hv : hexFold 0 (hexDigits v k) = v) (hv31 : v < 2147483648)
    (hcur : Cur e p (c :: (rtohex v k ++ rest))) :
    doubleQuotedEscape e (st p) =
      .ok (if c = 120 then [byteOf ((v : Nat) : Int)] else writeRune ((v : Nat) : Int)) (st (p + 1 + k)) := by
  have hdig := hexLoop_digits (e := e) (hexDigits v k) 0 (p + 1) rest (hexDigits_lt v k)
    (by rw [← rtohex_eq]; exact hcur.adv1) (by rw [hv]; exact hv31)
  rw [hexDigits_length, hv] at hdig
  have z : (((0 : Nat) : Nat) : Int) = 0 := rfl
  rw [z] at hdig
  unfold doubleQuotedEscape
  rcases hck with ⟨hc, hk⟩ | ⟨hc, hk⟩ | ⟨hc, hk⟩ <;> subst hc <;> subst hk
  · rw [bind_of_eq (next_byte hcur (by decide))]
    have e1 : (((120 : UInt8).toNat : Nat) : Int) = 120 := by decide
    rw [e1]
    simp only [show ((120 : Int) == 99) = false by decide, show ((120 : Int) == 94) = false by decide,
      show ((120 : Int) == 120) = true by decide, Bool.or_self, Bool.false_eq_true, if_false,
      Bool.true_or, if_true]
    rw [bind_of_eq hdig]
    rfl
  · rw [bind_of_eq (next_byte hcur (by decide))]
    have e1 : (((117 : UInt8).toNat : Nat) : Int) = 117 := by decide
    rw [e1]
    simp only [show ((117 : Int) == 99) = false by decide, show ((117 : Int) == 94) = false by decide,
      show ((117 : Int) == 120) = false by decide, show ((117 : Int) == 117) = true by decide,
      Bool.or_self, Bool.false_eq_true, if_false, Bool.true_or, Bool.or_true, if_true]
    rw [bind_of_eq hdig]
    rfl
  · rw [bind_of_eq (next_byte hcur (by decide))]
    have e1 : (((85 : UInt8).toNat : Nat) : Int) = 85 := by decide
    rw [e1]
    simp only [show ((85 : Int) == 99) = false by decide, show ((85 : Int) == 94) = false by decide,
      show ((85 : Int) == 120) = false by decide, show ((85 : Int) == 117) = false by decide,
      show ((85 : Int) == 85) = true by decide,
      Bool.or_self, Bool.false_eq_true, if_false, Bool.or_true, if_true]
    rw [bind_of_eq hdig]
    rfl

/-- a table escape `\c` with `doubleEscape[c] = v` -/
theorem escape_table {e : Env} {p : Nat} {rest : Bytes} (c : UInt8) (v : Int) (hc : c.toNat < 0x80)
    (h1 : ((((c.toNat : Nat) : Int) == 99) || (((c.toNat : Nat) : Int) == 94)) = false)
    (h2 : ((((c.toNat : Nat) : Int) == 120) || (((c.toNat : Nat) : Int) == 117) ||
      (((c.toNat : Nat) : Int) == 85)) = false)
    (h3 : (decide ((48 : Int) ≤ ((c.toNat : Nat) : Int)) && decide (((c.toNat : Nat) : Int) ≤ 55)) = false)
    (hl : doubleEscape.lookup ((c.toNat : Nat) : Int) = some v)
    (hcur : Cur e p (c :: rest)) :
    doubleQuotedEscape e (st p) = .ok (writeRune v) (st (p + 1)) := by
  unfold doubleQuotedEscape
  rw [bind_of_eq (next_byte hcur hc)]
  simp only [h1, h2, h3, Bool.false_eq_true, if_false, hl]
  rfl

/-- the loop of `doubleQuotedInner` at a backslash -/
theorem dq_loop_escape {e : Env} {n p q : Nat} {buf b rest : Bytes}
    (hcur : Cur e p (92 :: rest))
    (hesc : doubleQuotedEscape e (st (p + 1)) = .ok b (st q)) :
    doubleQuotedLoop (n + 1) buf e (st p) = doubleQuotedLoop n (buf ++ b) e (st q) := by
  conv => lhs; unfold doubleQuotedLoop
  rw [bind_of_eq (next_byte hcur (by decide))]
  have e1 : (((92 : UInt8).toNat : Nat) : Int) = 92 := by decide
  rw [e1]
  simp only [show ((92 : Int) == eof) = false by decide, show ((92 : Int) == 34) = false by decide,
    show ((92 : Int) == 92) = true by decide, Bool.false_eq_true, if_false, if_true]
  rw [bind_of_eq hesc]

/-- the loop of `doubleQuotedInner` at a literal rune -/
theorem dq_loop_literal {e : Env} {n p : Nat} {buf rest : Bytes} {r : Nat}
    (hv : validRune r = true) (h34 : r ≠ 34) (h92 : r ≠ 92)
    (hcur : Cur e p (encodeRune r ++ rest)) :
    doubleQuotedLoop (n + 1) buf e (st p) =
      doubleQuotedLoop n (buf ++ encodeRune r) e (st (p + (encodeRune r).length)) := by
  conv => lhs; unfold doubleQuotedLoop
  rw [bind_of_eq (next_enc hcur hv)]
  have i34 : (((r : Nat) : Int) == 34) = false := by
    simp only [beq_eq_false_iff_ne]; intro h; exact h34 (by exact_mod_cast h)
  have i92 : (((r : Nat) : Int) == 92) = false := by
    simp only [beq_eq_false_iff_ne]; intro h; exact h92 (by exact_mod_cast h)
  simp only [nat_ne_eof, i34, i92, Bool.false_eq_true, if_false, writeRune_nat]

/-! ### one iteration of `quoteDouble` against one iteration of the parser -/

/-- the bytes `quoteDouble` consumed in one iteration -/
theorem take_eq_encode {s : Bytes} (hne : s ≠ [])
    (herr : ¬ ((decodeRune s).1 = RuneError ∧ (decodeRune s).2 = 1)) :
    validRune (decodeRune s).1 = true ∧ s.take (decodeRune s).2 = encodeRune (decodeRune s).1 :=
  decodeRune_valid_take (r := (decodeRune s).1) (n := (decodeRune s).2) rfl hne herr

theorem encodeRune_small {r : Nat} (h : r < 0x80) : encodeRune r = [UInt8.ofNat r] :=
  encodeRune_one h

/-- The parser reads the piece written for one rune back to the bytes of that rune. -/
theorem dq_piece_step {e : Env} (isPrint : Int → Bool) (b0 : UInt8) (t : Bytes) (n p : Nat)
    (buf rest : Bytes)
    (hcur : Cur e p (dqPiece isPrint b0 (decodeRune (b0 :: t)).1 (decodeRune (b0 :: t)).2 ++ rest)) :
    doubleQuotedLoop (n + 1) buf e (st p) =
      doubleQuotedLoop n (buf ++ (b0 :: t).take (decodeRune (b0 :: t)).2) e
        (st (p + (dqPiece isPrint b0 (decodeRune (b0 :: t)).1 (decodeRune (b0 :: t)).2).length)) := by
  have hne : b0 :: t ≠ [] := by simp
  have hrle := decodeRune_rune_le (b0 :: t)
  unfold MaxRune at hrle
  by_cases herr : (decodeRune (b0 :: t)).1 = RuneError ∧ (decodeRune (b0 :: t)).2 = 1
  · -- invalid byte: \xHH
    have hp : dqPiece isPrint b0 (decodeRune (b0 :: t)).1 (decodeRune (b0 :: t)).2 =
        [92, 120] ++ rtohex b0.toNat 2 := by
      unfold dqPiece
      simp [herr.1, herr.2]
    rw [hp] at hcur ⊢
    rw [herr.2]
    have hb := byte_toNat_lt b0
    have hesc := escape_hex (e := e) (p := p + 1) (rest := rest) 120 2 b0.toNat (Or.inl ⟨rfl, rfl⟩)
      (hexFold_digits2 hb) (by omega) (by simpa using hcur.adv1)
    rw [dq_loop_escape (by simpa using hcur) hesc]
    simp only [if_true, byteOf_nat hb, UInt8.ofNat_toNat, List.take_succ_cons, List.take_zero,
      List.length_append, List.length_cons, List.length_nil, rtohex_eq, List.length_map,
      hexDigits_length]
  · obtain ⟨hv, htake⟩ := take_eq_encode hne herr
    rw [htake]
    obtain ⟨r, hr⟩ : ∃ r : Nat, (decodeRune (b0 :: t)).1 = r := ⟨_, rfl⟩
    rw [hr] at hv hcur hrle herr ⊢
    generalize (decodeRune (b0 :: t)).2 = w at hcur herr ⊢
    clear hr htake
    have hrle' : (r : Nat) ≤ 1114111 := hrle
    have herr' : (r == RuneError && w == 1) = false := by
      cases h1 : (r == RuneError) <;> cases h2 : (w == 1) <;> simp_all
    unfold dqPiece at hcur ⊢
    simp only [herr', Bool.false_eq_true, if_false] at hcur ⊢
    cases hlk : doubleUnescape.lookup ((r : Nat) : Int) with
    | some c =>
      -- table escape
      simp only [hlk] at hcur ⊢
      obtain ⟨cb, hc, hcb, hr7, h1, h2, h3, hl, hw⟩ := table_facts hlk
      rw [hw] at hcur ⊢
      have hesc := escape_table (e := e) (p := p + 1) (rest := rest) cb _ hcb h1 h2 h3 hl
        (by simpa using hcur.adv1)
      rw [dq_loop_escape (by simpa using hcur) hesc, writeRune_nat]
      rfl
    | none =>
      simp only [hlk] at hcur ⊢
      obtain ⟨h34, h92⟩ := unescape_none hlk
      by_cases hlit : (isPrint ((r : Nat) : Int) && r != RuneError) = true
      · -- literal
        simp only [hlit, if_true] at hcur ⊢
        exact dq_loop_literal hv h34 h92 hcur
      · simp only [hlit, Bool.false_eq_true, if_false] at hcur ⊢
        by_cases h7 : r ≤ 0x7f
        · -- \xHH for an unprintable ASCII rune
          simp only [h7, if_true] at hcur ⊢
          have hesc := escape_hex (e := e) (p := p + 1) (rest := rest) 120 2 r (Or.inl ⟨rfl, rfl⟩)
            (hexFold_digits2 (by omega)) (by omega) (by simpa using hcur.adv1)
          rw [dq_loop_escape (by simpa using hcur) hesc]
          simp only [if_true, byteOf_nat (show r < 256 by omega), encodeRune_small (show r < 0x80 by omega),
            List.length_append, List.length_cons, List.length_nil, rtohex_eq, List.length_map,
            hexDigits_length]
        · simp only [h7, if_false] at hcur ⊢
          by_cases hu : r ≤ 0xffff
          · -- \uHHHH
            simp only [hu, if_true] at hcur ⊢
            have hesc := escape_hex (e := e) (p := p + 1) (rest := rest) 117 4 r (Or.inr (Or.inl ⟨rfl, rfl⟩))
              (hexFold_digits4 (by omega)) (by omega) (by simpa using hcur.adv1)
            rw [dq_loop_escape (by simpa using hcur) hesc]
            simp only [show ¬ ((117 : UInt8) = 120) by decide, if_false, writeRune_nat,
              List.length_append, List.length_cons, List.length_nil, rtohex_eq, List.length_map,
              hexDigits_length]
          · -- \UHHHHHHHH
            simp only [hu, if_false] at hcur ⊢
            have hesc := escape_hex (e := e) (p := p + 1) (rest := rest) 85 8 r (Or.inr (Or.inr ⟨rfl, rfl⟩))
              (hexFold_digits8 (by omega)) (by omega) (by simpa using hcur.adv1)
            rw [dq_loop_escape (by simpa using hcur) hesc]
            simp only [show ¬ ((85 : UInt8) = 120) by decide, if_false, writeRune_nat,
              List.length_append, List.length_cons, List.length_nil, rtohex_eq, List.length_map,
              hexDigits_length]
  
end C03
