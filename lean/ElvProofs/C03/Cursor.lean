/-
Running the C01 parser monad on a known source: states `st p`, the cursor
predicate `Cur e p rest` ("the unread text at position `p` is `rest`"), and the
equations of `peek` / `next` on it.
-/
import ElvModel.C03.Model
import ElvProofs.Lemmas.Utf8
namespace C03
open Go
open C01
open Gen.C01Chars

/-- a parser state with no pending EOF overrun and no errors -/
def st (p : Nat) : St := { pos := p, overEOF := 0, errors := [] }

/-- the unread part of the source at position `p` is `rest` -/
def Cur (e : Env) (p : Nat) (rest : Bytes) : Prop :=
  p ≤ e.src.length ∧ e.src.drop p = rest

theorem Cur.len {e : Env} {p : Nat} {rest : Bytes} (h : Cur e p rest) :
    p + rest.length = e.src.length := by
  have h2 := congrArg List.length h.2
  rw [List.length_drop] at h2
  have := h.1
  omega

theorem Cur.zero (e : Env) : Cur e 0 e.src := ⟨Nat.zero_le _, rfl⟩

theorem Cur.drop {e : Env} {p : Nat} {rest : Bytes} (h : Cur e p rest) (w : Nat)
    (hw : w ≤ rest.length) : Cur e (p + w) (rest.drop w) := by
  have hl := h.len
  refine ⟨by omega, ?_⟩
  rw [← h.2, List.drop_drop]

theorem Cur.adv {e : Env} {p : Nat} {a rest : Bytes} (h : Cur e p (a ++ rest)) :
    Cur e (p + a.length) rest := by
  have := h.drop a.length (by simp)
  rwa [List.drop_left] at this

theorem Cur.adv1 {e : Env} {p : Nat} {b : UInt8} {rest : Bytes} (h : Cur e p (b :: rest)) :
    Cur e (p + 1) rest := Cur.adv (a := [b]) h

theorem Cur.end_eq {e : Env} {p : Nat} (h : Cur e p []) : p = e.src.length := by
  simpa using h.len

/-! ### monad plumbing -/

theorem bind_apply {α β} (m : M α) (f : α → M β) (e : Env) (s : St) :
    (m >>= f) e s = (match m e s with
      | .ok a s' => f a e s'
      | .panic w => .panic w
      | .fuel => .fuel) := rfl

theorem bind_of_eq {α β} {m : M α} {f : α → M β} {e : Env} {s s' : St} {a : α}
    (h : m e s = .ok a s') : (m >>= f) e s = f a e s' := by
  rw [bind_apply, h]

theorem bind_assoc' {α β γ} (m : M α) (f : α → M β) (g : β → M γ) :
    (m >>= f) >>= g = m >>= fun a => f a >>= g := by
  funext e s
  rw [bind_apply, bind_apply, bind_apply]
  cases m e s <;> rfl

@[simp] theorem pure_apply {α} (a : α) (e : Env) (s : St) : (pure a : M α) e s = .ok a s := rfl

theorem getPos_eq (e : Env) (s : St) : getPos e s = .ok s.pos s := rfl
theorem getEnv_eq (e : Env) (s : St) : getEnv e s = .ok e s := rfl
theorem loopFuel_eq (e : Env) (s : St) : loopFuel e s = .ok (e.src.length + 2) s := rfl

/-! ### `peek` and `next` -/

theorem peek_nil {e : Env} {p : Nat} (h : Cur e p []) : peek e (st p) = .ok eof (st p) := by
  have := h.end_eq
  simp [peek, st, this]

theorem peek_cons {e : Env} {p : Nat} {rest : Bytes} (h : Cur e p rest) (hne : rest ≠ []) :
    peek e (st p) = .ok (((decodeRune rest).1 : Nat) : Int) (st p) := by
  have hl := h.len
  have h0 : 0 < rest.length := List.length_pos_iff.2 hne
  have h1 : p ≠ e.src.length := by omega
  have h2 : p ≤ e.src.length := h.1
  simp [peek, st, h1, h2, h.2]

theorem next_cons {e : Env} {p : Nat} {rest : Bytes} (h : Cur e p rest) (hne : rest ≠ []) :
    next e (st p) = .ok (((decodeRune rest).1 : Nat) : Int) (st (p + (decodeRune rest).2)) := by
  have hl := h.len
  have h0 : 0 < rest.length := List.length_pos_iff.2 hne
  have h1 : p ≠ e.src.length := by omega
  have h2 : p ≤ e.src.length := h.1
  simp [next, st, h1, h2, h.2]

theorem peek_byte {e : Env} {p : Nat} {b : UInt8} {rest : Bytes} (h : Cur e p (b :: rest))
    (hb : b.toNat < 0x80) : peek e (st p) = .ok ((b.toNat : Nat) : Int) (st p) := by
  rw [peek_cons h (by simp), decodeRune_one b rest hb]

theorem next_byte {e : Env} {p : Nat} {b : UInt8} {rest : Bytes} (h : Cur e p (b :: rest))
    (hb : b.toNat < 0x80) : next e (st p) = .ok ((b.toNat : Nat) : Int) (st (p + 1)) := by
  rw [next_cons h (by simp), decodeRune_one b rest hb]

theorem next_enc {e : Env} {p : Nat} {r : Nat} {rest : Bytes} (h : Cur e p (encodeRune r ++ rest))
    (hv : validRune r = true) :
    next e (st p) = .ok ((r : Nat) : Int) (st (p + (encodeRune r).length)) := by
  rw [next_cons h (by simp [encodeRune_ne_nil r]), decodeRune_encodeRune_append r hv rest]

theorem peek_enc {e : Env} {p : Nat} {r : Nat} {rest : Bytes} (h : Cur e p (encodeRune r ++ rest))
    (hv : validRune r = true) : peek e (st p) = .ok ((r : Nat) : Int) (st p) := by
  rw [peek_cons h (by simp [encodeRune_ne_nil r]), decodeRune_encodeRune_append r hv rest]

theorem sliceSrc_eq {e : Env} {s : St} {a b : Nat} (h1 : a ≤ b) (h2 : b ≤ e.src.length) :
    sliceSrc a b e s = .ok ((e.src.drop a).take (b - a)) s := by
  unfold sliceSrc slice
  have : (0 : Int) ≤ (a : Int) ∧ (a : Int) ≤ (b : Int) ∧ (b : Int) ≤ (e.src.length : Int) := by omega
  simp only [this, and_self, if_true, Int.toNat_natCast]

/-- the whole unread text from `a` to the end of the source -/
theorem sliceSrc_to_end {e : Env} {s : St} {a : Nat} {rest : Bytes} (h : Cur e a rest) :
    sliceSrc a e.src.length e s = .ok rest s := by
  rw [sliceSrc_eq h.1 (Nat.le_refl _), h.2]
  have := h.len
  rw [List.take_of_length_le (by omega)]

/-- `parseSep` when the next rune is not the separator -/
theorem parseSep_no {e : Env} {s : St} {r sep : Int} (nb : NB) (hp : peek e s = .ok r s)
    (hr : (r == sep) = false) : parseSep nb sep e s = .ok (false, nb) s := by
  unfold parseSep
  rw [bind_of_eq hp]
  simp [hr]

/-! ### predicates over the runes of a string -/

/-- every rune `for _, r := range s` yields satisfies `P` -/
def AllRunes (P : Nat → Prop) (s : Bytes) : Prop := ∀ x ∈ runes s, P x.2.1

theorem AllRunes.head {P : Nat → Prop} {s : Bytes} (h : AllRunes P s) (hne : s ≠ []) :
    P (decodeRune s).1 := by
  have := h (0, (decodeRune s).1, (decodeRune s).2) (by rw [runes_of_ne_nil hne]; simp)
  exact this

theorem AllRunes.tail {P : Nat → Prop} {s : Bytes} (h : AllRunes P s) (hne : s ≠ []) :
    AllRunes P (s.drop (decodeRune s).2) := by
  intro x hx
  have := h ((decodeRune s).2 + x.1, x.2) (by
    rw [runes_of_ne_nil hne]
    exact List.mem_cons_of_mem _ (mem_shiftRunes.2 ⟨x, hx, rfl⟩))
  exact this

theorem AllRunes.mono {P Q : Nat → Prop} {s : Bytes} (h : AllRunes P s) (hpq : ∀ r, P r → Q r) :
    AllRunes Q s := fun x hx => hpq _ (h x hx)

theorem AllRunes.and {P Q : Nat → Prop} {s : Bytes} (h1 : AllRunes P s) (h2 : AllRunes Q s) :
    AllRunes (fun r => P r ∧ Q r) s := fun x hx => ⟨h1 x hx, h2 x hx⟩

end C03
