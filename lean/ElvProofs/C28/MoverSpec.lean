/-
C28 helper lemmas: every pure mover re-splits the zipper; `makeKill` is exact.
-/
import ElvProofs.C28.Movers
namespace C28
open Go

/-- rune-level result of a mover: the runes left of the new dot -/
def Mover.leftR (E : Env) : Mover → List Nat → List Nat → List Nat
  | .left, L, _ => L.dropLast
  | .right, L, R => L ++ R.take 1
  | .leftWord, L, _ => wordLeftR (categorizeWord E) L
  | .rightWord, L, R => L ++ wordRightR (categorizeWord E) R
  | .leftSmallWord, L, _ => wordLeftR (categorizeSmallWord E) L
  | .rightSmallWord, L, R => L ++ wordRightR (categorizeSmallWord E) R
  | .leftAlnumWord, L, _ => wordLeftR (categorizeAlnum E) L
  | .rightAlnumWord, L, R => L ++ wordRightR (categorizeAlnum E) R
  | .sol, L, _ => beforeLastLine L
  | .eol, L, R => L ++ firstLine R
  | .up, L, _ => upR E L
  | .down, L, R => downR E L R

theorem Mover.fn_zip (E : Env) (m : Mover) (L R : List Nat) (hL : VR L) (hR : VR R) :
    m.fn E (enc (L ++ R)) (blen L) = .ok (blen (m.leftR E L R)) := by
  cases m with
  | left => exact moveDotLeft_zip L R hL
  | right => exact moveDotRight_zip L R hR
  | leftWord => exact moveDotLeftGeneralWord_zip _ L R hL
  | rightWord => exact moveDotRightGeneralWord_zip _ L R hR
  | leftSmallWord => exact moveDotLeftGeneralWord_zip _ L R hL
  | rightSmallWord => exact moveDotRightGeneralWord_zip _ L R hR
  | leftAlnumWord => exact moveDotLeftGeneralWord_zip _ L R hL
  | rightAlnumWord => exact moveDotRightGeneralWord_zip _ L R hR
  | sol => exact moveDotSOL_zip L R hL
  | eol => exact moveDotEOL_zip L R hR
  | up => exact moveDotUp_zip E L R hL
  | down => exact moveDotDown_zip E L R hL hR

theorem upR_prefix (E : Env) (L : List Nat) : ∃ S, L = upR E L ++ S := by
  unfold upR
  have hs := beforeLastLine_append_lastLine L
  cases hA : beforeLastLine L with
  | nil => exact ⟨[], by simp⟩
  | cons x t =>
    simp only
    have hs0 := beforeLastLine_append_lastLine (x :: t).dropLast
    obtain ⟨rest, hrest⟩ := trimRunes_prefix E (widthSum E (lastLine L)) 0 (lastLine (x :: t).dropLast)
    have hd : (x :: t) = (x :: t).dropLast ++ [(x :: t).getLast (by simp)] :=
      (List.dropLast_concat_getLast (by simp)).symm
    refine ⟨rest ++ [(x :: t).getLast (by simp)] ++ lastLine L, ?_⟩
    conv => lhs; rw [← hs, hA, hd, ← hs0, hrest]
    simp

theorem downR_split (E : Env) (L R : List Nat) : ∃ S T, R = S ++ T ∧ downR E L R = L ++ S := by
  unfold downR
  have hs := firstLine_append_afterFirstLine R
  cases hN : afterFirstLine R with
  | nil => exact ⟨[], R, by simp, by simp⟩
  | cons x N =>
    simp only
    rcases afterFirstLine_head R with h | ⟨t, h⟩
    · rw [h] at hN; cases hN
    · rw [h] at hN; injection hN with hx ht; subst hx; subst ht
      have hsN := firstLine_append_afterFirstLine t
      obtain ⟨rest, hrest⟩ := trimRunes_prefix E (widthSum E (lastLine L)) 0 (firstLine t)
      refine ⟨firstLine R ++ [10] ++ trimRunes E (widthSum E (lastLine L)) 0 (firstLine t),
        rest ++ afterFirstLine t, ?_, by simp⟩
      conv => lhs; rw [← hs, h, ← hsN, hrest]
      simp

/-- Every mover lands on a split `L' ++ R'` of the same rune list. -/
theorem Mover.resplit (E : Env) (m : Mover) (L R : List Nat) :
    ∃ R', m.leftR E L R ++ R' = L ++ R := by
  have pre : ∀ L' : List Nat, (∃ S, L = L' ++ S) → ∃ R', L' ++ R' = L ++ R := by
    intro L' ⟨S, h⟩; exact ⟨S ++ R, by rw [h]; simp⟩
  have ext : ∀ S : List Nat, (∃ T, R = S ++ T) → ∃ R', (L ++ S) ++ R' = L ++ R := by
    intro S ⟨T, h⟩; exact ⟨T, by rw [h]; simp⟩
  cases m with
  | left =>
    apply pre
    rcases List.eq_nil_or_concat L with rfl | ⟨L0, r, rfl⟩
    · exact ⟨[], rfl⟩
    · exact ⟨[r], by simp [Mover.leftR]⟩
  | right => exact ext _ ⟨R.drop 1, (List.take_append_drop 1 R).symm⟩
  | leftWord => exact pre _ (wordLeftR_prefix _ L)
  | rightWord => exact ext _ (wordRightR_prefix _ R)
  | leftSmallWord => exact pre _ (wordLeftR_prefix _ L)
  | rightSmallWord => exact ext _ (wordRightR_prefix _ R)
  | leftAlnumWord => exact pre _ (wordLeftR_prefix _ L)
  | rightAlnumWord => exact ext _ (wordRightR_prefix _ R)
  | sol => exact pre _ ⟨lastLine L, (beforeLastLine_append_lastLine L).symm⟩
  | eol => exact ext _ ⟨afterFirstLine R, (firstLine_append_afterFirstLine R).symm⟩
  | up => exact pre _ (upR_prefix E L)
  | down =>
    obtain ⟨S, T, h1, h2⟩ := downR_split E L R
    simp only [Mover.leftR, h2]
    exact ext S ⟨T, h1⟩

/-- A pure mover applied to a valid buffer with the dot on a boundary returns
a boundary of the same buffer. -/
theorem Mover.boundary (E : Env) (m : Mover) (buf : Bytes) (dot : Int) (h : Boundary buf dot) :
    ∃ d', m.fn E buf dot = .ok d' ∧ Boundary buf d' := by
  obtain ⟨L, R, hL, hR, rfl, rfl⟩ := h.zipper
  obtain ⟨R', hsplit⟩ := m.resplit E L R
  have hv : VR (m.leftR E L R ++ R') := by rw [hsplit]; exact hL.append hR
  refine ⟨blen (m.leftR E L R), ?_, ?_⟩
  · rw [← enc_append]; exact m.fn_zip E L R hL hR
  · have := boundary_zipper _ _ hv.left hv.right
    rw [← enc_append, hsplit, enc_append] at this
    exact this

/-! ### makeKill -/

theorem makeKill_spec (m : PureMover) (buf : Bytes) (dot d' : Int) (hm : m buf dot = .ok d')
    (h0 : 0 ≤ dot) (h1 : dot ≤ buf.length) (h2 : 0 ≤ d') (h3 : d' ≤ buf.length) :
    makeKill m buf dot =
      .ok (buf.take (min dot d').toNat ++ buf.drop (max dot d').toNat, min dot d') := by
  unfold makeKill
  rw [hm]
  simp only [ok_bind]
  have hs1 : ∀ j : Int, 0 ≤ j → j ≤ buf.length → slice buf 0 j = .ok (buf.take j.toNat) := by
    intro j hj0 hj1
    have := slice_ok buf 0 j.toNat (by omega) (by omega)
    rw [Int.toNat_of_nonneg hj0] at this
    simpa using this
  have hs2 : ∀ j : Int, 0 ≤ j → j ≤ buf.length → slice buf j buf.length = .ok (buf.drop j.toNat) := by
    intro j hj0 hj1
    have := slice_ok buf j.toNat buf.length (by omega) (by omega)
    rw [Int.toNat_of_nonneg hj0] at this
    rw [this]; congr 1
    exact List.take_of_length_le (by simp)
  by_cases hlt : d' < dot
  · simp only [hlt, if_true, hs1 d' h2 h3, hs2 dot h0 h1, ok_bind, pure_eq_ok]
    rw [Int.min_eq_right (by omega), Int.max_eq_left (by omega)]
  · by_cases hgt : d' > dot
    · simp only [hlt, if_false, hgt, if_true, hs1 dot h0 h1, hs2 d' h2 h3, ok_bind, pure_eq_ok]
      rw [Int.min_eq_left (by omega), Int.max_eq_right (by omega)]
    · have : d' = dot := by omega
      subst this
      simp only [Int.lt_irrefl, gt_iff_lt, if_false, pure_eq_ok, Int.min_self, Int.max_self,
        List.take_append_drop]

theorem boundary_cut (buf : Bytes) (lo hi : Int) (hlo : Boundary buf lo) (hhi : Boundary buf hi)
    (hle : lo ≤ hi) : Boundary (buf.take lo.toNat ++ buf.drop hi.toNat) lo := by
  obtain ⟨a0, a1, a2, a3⟩ := hlo
  obtain ⟨b0, b1, b2, b3⟩ := hhi
  have hlen : (buf.take lo.toNat).length = lo.toNat := by rw [List.length_take]; omega
  refine ⟨a0, ?_, ?_, ?_⟩
  · simp only [List.length_append, List.length_take, List.length_drop]; omega
  · rw [List.take_left' hlen]; exact a2
  · rw [List.drop_left' hlen]; exact b3

end C28
