/-
C28 helper lemmas: the UTF-8 theory the editor proofs need, over the shared
prelude `ElvModel/Go/Utf8.lean` (tied to Go's unicode/utf8 by `./check C00`).

`IsEnc c r` — the byte list `c` is the (unique, well-formed) UTF-8 encoding of
the scalar value `r` — links `decodeRune`, `decodeLastRune` and `encodeRune`.
(Hypothesis-free local lemmas; `decodeRune_encodeRune_append` and
`decodeLastRune_append_encodeRune` are candidates for `ElvProofs/Lemmas/Utf8.lean`.)
-/
import ElvModel.Go.Utf8
namespace C28
open Go

/-! ### Decoding explicit byte sequences -/

theorem dec1 (b0 : UInt8) (t : Bytes) (h : b0.toNat < 0x80) : decodeRune (b0 :: t) = (b0.toNat, 1) := by
  simp [decodeRune, h]

theorem dec2 (b0 b1 : UInt8) (t : Bytes) (h0 : 0xC2 ≤ b0.toNat) (h1 : b0.toNat < 0xE0)
    (h2 : 0x80 ≤ b1.toNat) (h3 : b1.toNat ≤ 0xBF) :
    decodeRune (b0 :: b1 :: t) = ((b0.toNat - 0xC0) * 64 + (b1.toNat - 0x80), 2) := by
  have a1 : ¬ b0.toNat < 0x80 := by omega
  have a2 : ¬ b0.toNat < 0xC2 := by omega
  simp [decodeRune, isCont, a1, a2, h1, h2, h3]

theorem dec3 (b0 b1 b2 : UInt8) (t : Bytes) (h0 : 0xE0 ≤ b0.toNat) (h1 : b0.toNat < 0xF0)
    (h2 : (if b0.toNat = 0xE0 then 0xA0 else 0x80) ≤ b1.toNat)
    (h3 : b1.toNat ≤ (if b0.toNat = 0xED then 0x9F else 0xBF))
    (h4 : 0x80 ≤ b2.toNat) (h5 : b2.toNat ≤ 0xBF) :
    decodeRune (b0 :: b1 :: b2 :: t) =
      ((b0.toNat - 0xE0) * 4096 + (b1.toNat - 0x80) * 64 + (b2.toNat - 0x80), 3) := by
  have a1 : ¬ b0.toNat < 0x80 := by omega
  have a2 : ¬ b0.toNat < 0xC2 := by omega
  have a3 : ¬ b0.toNat < 0xE0 := by omega
  simp [decodeRune, isCont, a1, a2, a3, h1, h2, h3, h4, h5]

theorem dec4 (b0 b1 b2 b3 : UInt8) (t : Bytes) (h0 : 0xF0 ≤ b0.toNat) (h1 : b0.toNat < 0xF5)
    (h2 : (if b0.toNat = 0xF0 then 0x90 else 0x80) ≤ b1.toNat)
    (h3 : b1.toNat ≤ (if b0.toNat = 0xF4 then 0x8F else 0xBF))
    (h4 : 0x80 ≤ b2.toNat) (h5 : b2.toNat ≤ 0xBF) (h6 : 0x80 ≤ b3.toNat) (h7 : b3.toNat ≤ 0xBF) :
    decodeRune (b0 :: b1 :: b2 :: b3 :: t) =
      ((b0.toNat - 0xF0) * 262144 + (b1.toNat - 0x80) * 4096 + (b2.toNat - 0x80) * 64 + (b3.toNat - 0x80), 4) := by
  have a1 : ¬ b0.toNat < 0x80 := by omega
  have a2 : ¬ b0.toNat < 0xC2 := by omega
  have a3 : ¬ b0.toNat < 0xE0 := by omega
  have a4 : ¬ b0.toNat < 0xF0 := by omega
  simp [decodeRune, isCont, a1, a2, a3, a4, h1, h2, h3, h4, h5, h6, h7]

/-- `c` is the well-formed UTF-8 encoding of `r`. -/
inductive IsEnc : Bytes → Nat → Prop
  | one (b0 : UInt8) (r : Nat) (h0 : b0.toNat < 0x80) (hr : r = b0.toNat) : IsEnc [b0] r
  | two (b0 b1 : UInt8) (r : Nat) (h0 : 0xC2 ≤ b0.toNat) (h1 : b0.toNat < 0xE0)
      (h2 : 0x80 ≤ b1.toNat) (h3 : b1.toNat ≤ 0xBF)
      (hr : r = (b0.toNat - 0xC0) * 64 + (b1.toNat - 0x80)) : IsEnc [b0, b1] r
  | three (b0 b1 b2 : UInt8) (r : Nat) (h0 : 0xE0 ≤ b0.toNat) (h1 : b0.toNat < 0xF0)
      (h2 : (if b0.toNat = 0xE0 then 0xA0 else 0x80) ≤ b1.toNat)
      (h3 : b1.toNat ≤ (if b0.toNat = 0xED then 0x9F else 0xBF))
      (h4 : 0x80 ≤ b2.toNat) (h5 : b2.toNat ≤ 0xBF)
      (hr : r = (b0.toNat - 0xE0) * 4096 + (b1.toNat - 0x80) * 64 + (b2.toNat - 0x80)) :
      IsEnc [b0, b1, b2] r
  | four (b0 b1 b2 b3 : UInt8) (r : Nat) (h0 : 0xF0 ≤ b0.toNat) (h1 : b0.toNat < 0xF5)
      (h2 : (if b0.toNat = 0xF0 then 0x90 else 0x80) ≤ b1.toNat)
      (h3 : b1.toNat ≤ (if b0.toNat = 0xF4 then 0x8F else 0xBF))
      (h4 : 0x80 ≤ b2.toNat) (h5 : b2.toNat ≤ 0xBF) (h6 : 0x80 ≤ b3.toNat) (h7 : b3.toNat ≤ 0xBF)
      (hr : r = (b0.toNat - 0xF0) * 262144 + (b1.toNat - 0x80) * 4096 + (b2.toNat - 0x80) * 64 +
        (b3.toNat - 0x80)) : IsEnc [b0, b1, b2, b3] r

theorem IsEnc.length {c : Bytes} {r : Nat} (h : IsEnc c r) : 1 ≤ c.length ∧ c.length ≤ 4 := by
  cases h <;> simp

theorem IsEnc.ne_nil {c : Bytes} {r : Nat} (h : IsEnc c r) : c ≠ [] := by
  cases h <;> simp

/-- decoding a well-formed encoding followed by anything -/
theorem IsEnc.decode {c : Bytes} {r : Nat} (h : IsEnc c r) (t : Bytes) :
    decodeRune (c ++ t) = (r, c.length) := by
  cases h with
  | one b0 r h0 hr => rw [hr]; exact dec1 b0 t h0
  | two b0 b1 r h0 h1 h2 h3 hr => rw [hr]; exact dec2 b0 b1 t h0 h1 h2 h3
  | three b0 b1 b2 r h0 h1 h2 h3 h4 h5 hr => rw [hr]; exact dec3 b0 b1 b2 t h0 h1 h2 h3 h4 h5
  | four b0 b1 b2 b3 r h0 h1 h2 h3 h4 h5 h6 h7 hr => rw [hr]; exact dec4 b0 b1 b2 b3 t h0 h1 h2 h3 h4 h5 h6 h7

/-- a well-formed encoding is never the error outcome `(RuneError, 1)` -/
theorem IsEnc.not_error {c : Bytes} {r : Nat} (h : IsEnc c r) : ¬ (r = RuneError ∧ c.length = 1) := by
  cases h with
  | one b0 r h0 hr => simp [RuneError]; omega
  | _ => simp

theorem encodeRune_isEnc (r : Nat) (h : validRune r = true) : IsEnc (encodeRune r) r := by
  simp only [validRune, Bool.or_eq_true, Bool.and_eq_true, decide_eq_true_eq] at h
  unfold encodeRune
  unfold Rune at *
  split
  · apply IsEnc.one <;> simp only [UInt8.toNat_ofNat'] <;> omega
  split
  · apply IsEnc.two <;> simp only [UInt8.toNat_ofNat'] <;> omega
  split
  · rename_i h3; simp [validRune] at h3; omega
  split
  · apply IsEnc.three <;> simp only [UInt8.toNat_ofNat'] <;> (try split) <;> omega
  · apply IsEnc.four <;> simp only [UInt8.toNat_ofNat'] <;> (try split) <;> omega

theorem u8_eq (b : UInt8) (n : Nat) (h : n = b.toNat) : UInt8.ofNat n = b := by
  subst h; exact UInt8.ofNat_toNat

theorem IsEnc.valid {c : Bytes} {r : Nat} (h : IsEnc c r) : validRune r = true := by
  simp only [validRune, Bool.or_eq_true, Bool.and_eq_true, decide_eq_true_eq]
  unfold Rune at *
  cases h with
  | one b0 r h0 hr => omega
  | two b0 b1 r h0 h1 h2 h3 hr => omega
  | three b0 b1 b2 r h0 h1 h2 h3 h4 h5 hr => split at h2 <;> split at h3 <;> omega
  | four b0 b1 b2 b3 r h0 h1 h2 h3 h4 h5 h6 h7 hr => split at h2 <;> split at h3 <;> omega

theorem IsEnc.encode {c : Bytes} {r : Nat} (h : IsEnc c r) : encodeRune r = c := by
  have hv := h.valid
  unfold encodeRune
  rw [hv]
  simp only [Bool.not_true, Bool.false_eq_true, if_false]
  unfold Rune at *
  cases h with
  | one b0 r h0 hr =>
    rw [if_pos (by omega)]; rw [u8_eq b0 r hr]
  | two b0 b1 r h0 h1 h2 h3 hr =>
    rw [if_neg (by omega), if_pos (by omega)]
    rw [u8_eq b0 _ (by omega), u8_eq b1 _ (by omega)]
  | three b0 b1 b2 r h0 h1 h2 h3 h4 h5 hr =>
    have : 0x800 ≤ r ∧ r < 0x10000 ∧ 0x80 ≤ b1.toNat ∧ b1.toNat ≤ 0xBF := by
      split at h2 <;> split at h3 <;> omega
    rw [if_neg (by omega), if_neg (by omega), if_pos (by omega)]
    rw [u8_eq b0 _ (by omega), u8_eq b1 _ (by omega), u8_eq b2 _ (by omega)]
  | four b0 b1 b2 b3 r h0 h1 h2 h3 h4 h5 h6 h7 hr =>
    have : 0x10000 ≤ r ∧ 0x80 ≤ b1.toNat ∧ b1.toNat ≤ 0xBF := by
      split at h2 <;> split at h3 <;> omega
    rw [if_neg (by omega), if_neg (by omega), if_neg (by omega)]
    rw [u8_eq b0 _ (by omega), u8_eq b1 _ (by omega), u8_eq b2 _ (by omega), u8_eq b3 _ (by omega)]

theorem decodeRune_isEnc (s : Bytes) (r n : Nat) (h : decodeRune s = (r, n)) (hne : s ≠ [])
    (herr : ¬ (r = RuneError ∧ n = 1)) : ∃ c, IsEnc c r ∧ c.length = n ∧ s = c ++ s.drop n := by
  unfold RuneError Rune at *
  cases s with
  | nil => exact absurd rfl hne
  | cons b0 rest =>
    unfold decodeRune at h
    simp only at h
    repeat' (split at h)
    all_goals (simp only [Prod.mk.injEq, RuneError] at h; obtain ⟨h1, h2⟩ := h)
    all_goals (unfold Rune at *)
    all_goals (try omega)
    all_goals (try simp only [isCont, Bool.and_eq_true, decide_eq_true_eq] at *)
    all_goals (subst h1; subst h2)
    · exact ⟨[b0], IsEnc.one b0 _ (by assumption) rfl, rfl, rfl⟩
    · rename_i b1 tl hc
      exact ⟨[b0, b1], IsEnc.two b0 b1 _ (by omega) (by omega) (by omega) (by omega) rfl, rfl, rfl⟩
    iterate 3
      rename_i b1 b2 tl ha hb hc
      exact ⟨[b0, b1, b2], IsEnc.three b0 b1 b2 _ (by omega) (by omega) (by split <;> omega)
        (by split <;> omega) (by omega) (by omega) rfl, rfl, rfl⟩
    iterate 3
      rename_i b1 b2 b3 tl ha hb hc
      exact ⟨[b0, b1, b2, b3], IsEnc.four b0 b1 b2 b3 _ (by omega) (by omega) (by split <;> omega)
        (by split <;> omega) (by omega) (by omega) (by omega) (by omega) rfl, rfl, rfl⟩

theorem back_hit (s : Bytes) (lim fuel : Nat) (start : Int) (i : Nat) (b : UInt8)
    (hi : start = (i : Int)) (h1 : lim ≤ i) (h2 : s[i]? = some b) (h3 : runeStart b = true) :
    decodeLastRune.back s lim (fuel + 1) start = (i : Int) := by
  subst hi
  have : ¬ ((i : Int) < (lim : Int)) := by omega
  simp [decodeLastRune.back, this, h2, h3]

theorem back_miss (s : Bytes) (lim fuel : Nat) (start : Int) (i : Nat) (b : UInt8)
    (hi : start = ((i + 1 : Nat) : Int)) (h1 : lim ≤ i + 1) (h2 : s[i + 1]? = some b) (h3 : runeStart b = false) :
    decodeLastRune.back s lim (fuel + 1) start = decodeLastRune.back s lim fuel (i : Int) := by
  subst hi
  have : ¬ (((i + 1 : Nat) : Int) < (lim : Int)) := by omega
  have e : ((i + 1 : Nat) : Int) - 1 = (i : Int) := by omega
  simp only [decodeLastRune.back, this, if_false, Int.toNat_natCast, h2, h3, e]
  simp

/-- the final part of `decodeLastRune`, once the start has been found -/
theorem decodeLast_of_back (s : Bytes) (k : Nat) (last : UInt8) (r n : Nat)
    (hne : s.length ≠ 0) (hlast : s[s.length - 1]? = some last) (hl : ¬ last.toNat < 0x80)
    (hb : decodeLastRune.back s (s.length - UTFMax) 4 ((s.length : Int) - 2) = (k : Int))
    (hd : decodeRune (s.drop k) = (r, n)) (hk : k + n = s.length) :
    decodeLastRune s = (r, n) := by
  unfold decodeLastRune
  simp only [hne, if_false, hlast, hl, hb]
  have : ¬ ((k : Int) < 0) := by omega
  simp [this, hd, hk]

theorem runeStart_of_lt {b : UInt8} (h : b.toNat < 0x80 ∨ 0xC0 ≤ b.toNat) : runeStart b = true := by
  simp [runeStart, isCont]; omega

theorem not_runeStart {b : UInt8} (h1 : 0x80 ≤ b.toNat) (h2 : b.toNat ≤ 0xBF) : runeStart b = false := by
  simp [runeStart, isCont]; omega

theorem IsEnc.decodeLast {c : Bytes} {r : Nat} (h : IsEnc c r) (p : Bytes) :
    decodeLastRune (p ++ c) = (r, c.length) := by
  have hd := h.decode []
  simp only [List.append_nil] at hd
  cases h with
  | one b0 r h0 hr =>
    subst hr
    simp [decodeLastRune, h0]
  | two b0 b1 r h0 h1 h2 h3 hr =>
    apply decodeLast_of_back (p ++ [b0, b1]) p.length b1 r 2
    · simp
    · simp
    · omega
    · simp only [List.length_append, List.length_cons, List.length_nil, UTFMax]
      exact back_hit _ _ _ _ p.length b0 (by omega) (by omega) (by simp) (runeStart_of_lt (by omega))
    · simpa using hd
    · simp
  | three b0 b1 b2 r h0 h1 h2 h3 h4 h5 hr =>
    have hb1 : 0x80 ≤ b1.toNat ∧ b1.toNat ≤ 0xBF := by split at h2 <;> split at h3 <;> omega
    apply decodeLast_of_back (p ++ [b0, b1, b2]) p.length b2 r 3
    · simp
    · simp
    · omega
    · simp only [List.length_append, List.length_cons, List.length_nil, UTFMax]
      rw [back_miss _ _ _ _ p.length b1 (by omega) (by omega) (by simp) (not_runeStart hb1.1 hb1.2)]
      exact back_hit _ _ _ _ p.length b0 rfl (by omega) (by simp) (runeStart_of_lt (by omega))
    · simpa using hd
    · simp
  | four b0 b1 b2 b3 r h0 h1 h2 h3 h4 h5 h6 h7 hr =>
    have hb1 : 0x80 ≤ b1.toNat ∧ b1.toNat ≤ 0xBF := by split at h2 <;> split at h3 <;> omega
    apply decodeLast_of_back (p ++ [b0, b1, b2, b3]) p.length b3 r 4
    · simp
    · simp
    · omega
    · simp only [List.length_append, List.length_cons, List.length_nil, UTFMax]
      rw [back_miss _ _ _ _ (p.length + 1) b2 (by omega) (by omega)
        (by rw [List.getElem?_append_right (by omega)]; simp [show p.length + 1 + 1 - p.length = 2 by omega])
        (not_runeStart h4 h5)]
      rw [back_miss _ _ _ _ p.length b1 rfl (by omega) (by simp) (not_runeStart hb1.1 hb1.2)]
      exact back_hit _ _ _ _ p.length b0 rfl (by omega) (by simp) (runeStart_of_lt (by omega))
    · simpa using hd
    · simp

end C28
