/-
C28 helper lemmas: what every pure mover computes on a zipper
`buffer = enc (L ++ R)`, `dot = |enc L|`.
-/
import ElvProofs.C28.Strings
namespace C28
open Go

/-- byte length of an encoded rune list, as a Go `int` -/
abbrev blen (rs : List Nat) : Int := ((enc rs).length : Int)

theorem slice_zip_left (L R : List Nat) : slice (enc (L ++ R)) 0 (blen L) = .ok (enc L) := by
  rw [enc_append]; exact slice_prefix _ _

theorem slice_zip_right (L R : List Nat) :
    slice (enc (L ++ R)) (blen L) ((enc (L ++ R)).length : Int) = .ok (enc R) := by
  rw [enc_append]; exact slice_suffix _ _

theorem slice_zip_mid (A B C : List Nat) :
    slice (enc (A ++ B ++ C)) (blen A) (blen (A ++ B)) = .ok (enc B) := by
  have := slice_mid (enc A) (enc B) (enc C)
  simp only [enc_append, blen, List.length_append] at this ⊢
  exact this

theorem enc_length_eq_zero {rs : List Nat} (h : (enc rs).length = 0) : rs = [] := by
  cases rs with
  | nil => rfl
  | cons r rs =>
    have := (encodeRune_len r).1
    simp only [enc_cons, List.length_append] at h; omega

/-! ### left / right -/

theorem moveDotLeft_zip (L R : List Nat) (hL : VR L) :
    moveDotLeft (enc (L ++ R)) (blen L) = .ok (blen L.dropLast) := by
  unfold moveDotLeft
  rw [slice_zip_left]
  simp only [ok_bind, pure_eq_ok]
  rcases List.eq_nil_or_concat L with rfl | ⟨L0, r, rfl⟩
  · simp [decodeLastRune_nil]
  · have hr : validRune r = true := hL r (by simp)
    simp only [List.concat_eq_append, enc_append, enc_singleton, List.dropLast_concat, blen,
      decodeLastRune_append_encodeRune _ r hr, List.length_append]
    congr 1; omega

theorem moveDotRight_zip (L R : List Nat) (hR : VR R) :
    moveDotRight (enc (L ++ R)) (blen L) = .ok (blen (L ++ R.take 1)) := by
  unfold moveDotRight
  rw [slice_zip_right]
  simp only [ok_bind, pure_eq_ok]
  cases R with
  | nil => simp [decodeRune_nil]
  | cons r R =>
    have hr : validRune r = true := hR r (by simp)
    simp only [enc_cons, decodeRune_encodeRune_append r hr, blen, List.take_succ_cons, List.take_zero,
      enc_append, enc_singleton, List.length_append]
    congr 1 <;> omega

/-! ### start / end of line -/

theorem moveDotSOL_zip (L R : List Nat) (hL : VR L) :
    moveDotSOL (enc (L ++ R)) (blen L) = .ok (blen (beforeLastLine L)) := by
  unfold moveDotSOL
  rw [slice_zip_left]
  simp only [ok_bind, pure_eq_ok, findLastSOL_enc L hL]

theorem moveDotEOL_zip (L R : List Nat) (hR : VR R) :
    moveDotEOL (enc (L ++ R)) (blen L) = .ok (blen (L ++ firstLine R)) := by
  unfold moveDotEOL
  rw [slice_zip_right]
  simp only [ok_bind, pure_eq_ok, findFirstEOL_enc R hR, blen, enc_append, List.length_append]
  congr 1; omega

/-! ### word helpers -/

theorem skipCatLeft_zip (cat : Categorizer) (c : Nat) (L R : List Nat) (hL : VR L) :
    skipCatLeft cat c (enc (L ++ R)) (blen L) = .ok (blen (dropEndWhile (fun r => cat r == c) L)) := by
  unfold skipCatLeft
  rw [slice_zip_left]
  simp only [ok_bind, pure_eq_ok, trimRightFunc_enc _ L hL]

theorem skipCatRight_zip (cat : Categorizer) (c : Nat) (L R : List Nat) (hR : VR R) :
    skipCatRight cat c (enc (L ++ R)) (blen L) = .ok (blen (L ++ R.takeWhile (fun r => cat r == c))) := by
  unfold skipCatRight
  rw [slice_zip_right]
  simp only [ok_bind, pure_eq_ok, trimLeftFunc_enc _ R hR]
  have : R = R.takeWhile (fun r => cat r == c) ++ R.dropWhile (fun r => cat r == c) :=
    List.takeWhile_append_dropWhile.symm
  conv => lhs; rw [this]
  simp only [blen, enc_append, List.length_append]
  congr 1
  have e : R.dropWhile (fun r => cat r == c)
      = (R.takeWhile (fun r => cat r == c) ++ R.dropWhile (fun r => cat r == c)).dropWhile (fun r => cat r == c) := by
    rw [← this]
  rw [← e]
  omega

/-- runes skipped by `skipSameCatLeft`: the trailing run of the category of the last rune -/
def skipSameLeftR (cat : Categorizer) (L : List Nat) : List Nat :=
  match L.getLast? with
  | none => L
  | some r => dropEndWhile (fun x => cat x == cat r) L

/-- leading run of the category of the first rune -/
def sameRightR (cat : Categorizer) (R : List Nat) : List Nat :=
  match R.head? with
  | none => []
  | some r => R.takeWhile (fun x => cat x == cat r)

theorem skipSameCatLeft_zip (cat : Categorizer) (L R : List Nat) (hL : VR L) :
    skipSameCatLeft cat (enc (L ++ R)) (blen L) = .ok (blen (skipSameLeftR cat L)) := by
  unfold skipSameCatLeft
  rcases List.eq_nil_or_concat L with rfl | ⟨L0, r, rfl⟩
  · simp [skipSameLeftR]
  · have hr : validRune r = true := hL r (by simp)
    have hpos : ¬ (blen (L0.concat r) = 0) := by
      have := (encodeRune_len r).1
      simp only [blen, List.concat_eq_append, enc_append, enc_singleton, List.length_append]; omega
    simp only [hpos, if_false]
    rw [slice_zip_left]
    simp only [ok_bind]
    rw [skipCatLeft_zip cat _ _ R hL]
    simp only [List.concat_eq_append, enc_append, enc_singleton,
      decodeLastRune_append_encodeRune _ r hr, skipSameLeftR, List.getLast?_append, List.getLast?_singleton,
      Option.some_or]

theorem skipSameCatRight_zip (cat : Categorizer) (L R : List Nat) (hR : VR R) :
    skipSameCatRight cat (enc (L ++ R)) (blen L) = .ok (blen (L ++ sameRightR cat R)) := by
  unfold skipSameCatRight
  cases R with
  | nil => simp [sameRightR]
  | cons r R =>
    have hr : validRune r = true := hR r (by simp)
    have hpos : ¬ (blen L = ((enc (L ++ r :: R)).length : Int)) := by
      have := (encodeRune_len r).1
      simp only [blen, enc_append, enc_cons, List.length_append]; omega
    simp only [hpos, if_false]
    rw [slice_zip_right]
    simp only [ok_bind]
    rw [skipCatRight_zip cat _ L _ hR]
    simp only [enc_cons, decodeRune_encodeRune_append r hr, sameRightR, List.head?_cons]

/-! ### word movers -/

def isWs (cat : Categorizer) : Nat → Bool := fun r => cat r == 0

/-- the runes left of the dot after `moveDotLeftGeneralWord` -/
def wordLeftR (cat : Categorizer) (L : List Nat) : List Nat :=
  skipSameLeftR cat (dropEndWhile (isWs cat) L)

/-- remainder after the leading run of the first rune's category -/
def afterSameRightR (cat : Categorizer) (R : List Nat) : List Nat :=
  match R.head? with
  | none => []
  | some r => R.dropWhile (fun x => cat x == cat r)

theorem sameRightR_append (cat : Categorizer) (R : List Nat) :
    sameRightR cat R ++ afterSameRightR cat R = R := by
  cases R with
  | nil => rfl
  | cons r R => simp only [sameRightR, afterSameRightR, List.head?_cons]; exact List.takeWhile_append_dropWhile

/-- the runes the dot moves over in `moveDotRightGeneralWord` -/
def wordRightR (cat : Categorizer) (R : List Nat) : List Nat :=
  if R.takeWhile (isWs cat) ≠ [] then R.takeWhile (isWs cat)
  else sameRightR cat R ++ (afterSameRightR cat R).takeWhile (isWs cat)

theorem dropEndWhile_prefix (f : Nat → Bool) (L : List Nat) : ∃ S, L = dropEndWhile f L ++ S :=
  ⟨takeEndWhile f L, (dropEndWhile_append_takeEndWhile f L).symm⟩

theorem skipSameLeftR_prefix (cat : Categorizer) (L : List Nat) : ∃ S, L = skipSameLeftR cat L ++ S := by
  unfold skipSameLeftR
  cases L.getLast? with
  | none => exact ⟨[], by simp⟩
  | some r => exact dropEndWhile_prefix _ L

theorem wordLeftR_prefix (cat : Categorizer) (L : List Nat) : ∃ S, L = wordLeftR cat L ++ S := by
  obtain ⟨S1, h1⟩ := dropEndWhile_prefix (isWs cat) L
  obtain ⟨S2, h2⟩ := skipSameLeftR_prefix cat (dropEndWhile (isWs cat) L)
  refine ⟨S2 ++ S1, ?_⟩
  unfold wordLeftR
  rw [← List.append_assoc, ← h2, ← h1]

theorem moveDotLeftGeneralWord_zip (cat : Categorizer) (L R : List Nat) (hL : VR L) :
    moveDotLeftGeneralWord cat (enc (L ++ R)) (blen L) = .ok (blen (wordLeftR cat L)) := by
  unfold moveDotLeftGeneralWord skipWsLeft
  rw [skipCatLeft_zip cat 0 L R hL]
  simp only [ok_bind]
  obtain ⟨S, hS⟩ := dropEndWhile_prefix (isWs cat) L
  have hL1 : VR (dropEndWhile (isWs cat) L) := by rw [hS] at hL; exact hL.left
  have e : L ++ R = dropEndWhile (isWs cat) L ++ (S ++ R) := by
    rw [← List.append_assoc, ← hS]
  rw [e]
  exact skipSameCatLeft_zip cat _ _ hL1

theorem wordRightR_prefix (cat : Categorizer) (R : List Nat) : ∃ S, R = wordRightR cat R ++ S := by
  unfold wordRightR
  split
  · exact ⟨R.dropWhile (isWs cat), List.takeWhile_append_dropWhile.symm⟩
  · refine ⟨(afterSameRightR cat R).dropWhile (isWs cat), ?_⟩
    rw [List.append_assoc, List.takeWhile_append_dropWhile, sameRightR_append]

theorem moveDotRightGeneralWord_zip (cat : Categorizer) (L R : List Nat) (hR : VR R) :
    moveDotRightGeneralWord cat (enc (L ++ R)) (blen L) = .ok (blen (L ++ wordRightR cat R)) := by
  unfold moveDotRightGeneralWord skipWsRight
  rw [skipCatRight_zip cat 0 L R hR]
  simp only [ok_bind]
  unfold wordRightR
  by_cases hW : R.takeWhile (isWs cat) = []
  · have hW' : List.takeWhile (fun r => cat r == 0) R = [] := hW
    simp only [hW', List.append_nil, Int.lt_irrefl, gt_iff_lt, if_false]
    rw [skipSameCatRight_zip cat L R hR]
    simp only [ok_bind, hW, ne_eq, not_true_eq_false, if_false]
    have hsplit := sameRightR_append cat R
    have hR2 : VR (afterSameRightR cat R) := by rw [← hsplit] at hR; exact hR.right
    have e : L ++ R = (L ++ sameRightR cat R) ++ afterSameRightR cat R := by
      rw [List.append_assoc, hsplit]
    rw [e, skipCatRight_zip cat 0 _ _ hR2, List.append_assoc]
    rfl
  · have hW' : List.takeWhile (fun r => cat r == 0) R ≠ [] := hW
    have hlen : blen (L ++ List.takeWhile (fun r => cat r == 0) R) > blen L := by
      cases hc : List.takeWhile (fun r => cat r == 0) R with
      | nil => exact absurd hc hW'
      | cons x t =>
        have := (encodeRune_len x).1
        simp only [blen, enc_append, enc_cons, List.length_append]; omega
    simp only [hlen, if_true, pure_eq_ok, ne_eq, hW, not_false_eq_true]
    rfl

/-! ### up / down -/

/-- runes left of the dot after `moveDotUp` -/
def upR (E : Env) (L : List Nat) : List Nat :=
  match beforeLastLine L with
  | [] => L
  | A => beforeLastLine A.dropLast ++ trimRunes E (widthSum E (lastLine L)) 0 (lastLine A.dropLast)

/-- runes left of the dot after `moveDotDown` -/
def downR (E : Env) (L R : List Nat) : List Nat :=
  match afterFirstLine R with
  | [] => L
  | _ :: N => L ++ firstLine R ++ [10] ++ trimRunes E (widthSum E (lastLine L)) 0 (firstLine N)

theorem moveDotUp_zip (E : Env) (L R : List Nat) (hL : VR L) :
    moveDotUp E (enc (L ++ R)) (blen L) = .ok (blen (upR E L)) := by
  unfold moveDotUp
  rw [slice_zip_left]
  simp only [ok_bind, findLastSOL_enc L hL]
  have hsplit := beforeLastLine_append_lastLine L
  have hL' : VR (beforeLastLine L ++ lastLine L) := by rw [hsplit]; exact hL
  unfold upR
  rcases beforeLastLine_last L with hA | ⟨A0, hA⟩
  · simp [hA]
  · have hpos : ¬ (((enc (beforeLastLine L)).length : Int) = 0) := by
      rw [hA]; simp only [enc_append, enc_singleton, List.length_append, encodeRune_nl, NL]
      simp; omega
    simp only [hpos, if_false]
    have hA0 : VR A0 := by have := hL'.left; rw [hA] at this; exact this.left
    have hB : VR (lastLine L) := hL'.right
    have hs0 := beforeLastLine_append_lastLine A0
    have hA0' : VR (beforeLastLine A0 ++ lastLine A0) := by rw [hs0]; exact hA0
    -- prevEOL
    have hprev : ((enc (beforeLastLine L)).length : Int) - 1 = blen A0 := by
      rw [hA]; simp only [blen, enc_append, enc_singleton, List.length_append, encodeRune_nl]
      simp
    rw [hprev]
    have e1 : L ++ R = A0 ++ ([10] ++ lastLine L ++ R) := by
      conv => lhs; rw [← hsplit, hA]
      simp
    rw [e1, slice_zip_left]
    simp only [ok_bind, findLastSOL_enc A0 hA0]
    -- slice buffer sol dot = enc (lastLine L)
    have e2 : A0 ++ ([10] ++ lastLine L ++ R) = (A0 ++ [10]) ++ lastLine L ++ R := by simp
    have hdot : blen L = blen ((A0 ++ [10]) ++ lastLine L) := by
      conv => lhs; rw [← hsplit, hA]
    have hsol : ((enc (beforeLastLine L)).length : Int) = blen (A0 ++ [10]) := by rw [hA]
    rw [hsol, hdot, e2, slice_zip_mid]
    simp only [ok_bind, wcOf_enc E _ hB]
    -- slice buffer prevSOL prevEOL = enc (lastLine A0)
    have e3 : (A0 ++ [10]) ++ lastLine L ++ R = beforeLastLine A0 ++ lastLine A0 ++ ([10] ++ lastLine L ++ R) := by
      rw [hs0]; simp
    have hpe : blen A0 = blen (beforeLastLine A0 ++ lastLine A0) := by rw [hs0]
    rw [e3, hpe]
    change (slice _ (blen (beforeLastLine A0)) _ >>= _) = _
    rw [slice_zip_mid]
    simp only [ok_bind, wcTrim_enc E _ hA0'.right, pure_eq_ok]
    rw [hA]
    simp only [List.dropLast_concat, blen, enc_append, List.length_append]
    cases hc : A0 ++ [10] with
    | nil => simp at hc
    | cons x t =>
      simp only
      rw [← hc]
      simp only [List.dropLast_concat, enc_append, List.length_append, Int.natCast_add]

theorem moveDotDown_zip (E : Env) (L R : List Nat) (hL : VR L) (hR : VR R) :
    moveDotDown E (enc (L ++ R)) (blen L) = .ok (blen (downR E L R)) := by
  unfold moveDotDown
  rw [slice_zip_right]
  simp only [ok_bind, findFirstEOL_enc R hR]
  have hsplit := firstLine_append_afterFirstLine R
  have hR' : VR (firstLine R ++ afterFirstLine R) := by rw [hsplit]; exact hR
  have hsL := beforeLastLine_append_lastLine L
  have hL' : VR (beforeLastLine L ++ lastLine L) := by rw [hsL]; exact hL
  unfold downR
  rcases afterFirstLine_head R with hN | ⟨N, hN⟩
  · have hF : firstLine R = R := by have := hsplit; rw [hN, List.append_nil] at this; exact this
    have : ((enc (firstLine R)).length : Int) + blen L = ((enc (L ++ R)).length : Int) := by
      rw [hF]; simp only [blen, enc_append, List.length_append]; omega
    simp [this, hN]
  · have hNv : VR N := by have := hR'.right; rw [hN] at this; exact this.cons.2
    have hsN := firstLine_append_afterFirstLine N
    have hNv' : VR (firstLine N ++ afterFirstLine N) := by rw [hsN]; exact hNv
    have hne : ¬ (((enc (firstLine R)).length : Int) + blen L = ((enc (L ++ R)).length : Int)) := by
      conv => rhs; rhs; rw [← hsplit, hN]
      simp only [blen, enc_append, enc_cons, List.length_append, encodeRune_nl]
      simp; omega
    simp only [hne, if_false, hN]
    -- nextSOL
    have hnext : ((enc (firstLine R)).length : Int) + blen L + 1 = blen (L ++ firstLine R ++ [10]) := by
      simp only [blen, enc_append, enc_singleton, List.length_append, encodeRune_nl]
      simp; omega
    rw [hnext]
    have e1 : L ++ R = (L ++ firstLine R ++ [10]) ++ N := by
      conv => lhs; rw [← hsplit, hN]
      simp
    rw [e1, slice_zip_right]
    simp only [ok_bind, findFirstEOL_enc N hNv]
    -- sol and width
    have e2 : (L ++ firstLine R ++ [10]) ++ N = L ++ (firstLine R ++ [10] ++ N) := by simp
    rw [e2, slice_zip_left]
    simp only [ok_bind, findLastSOL_enc L hL]
    have e3 : L ++ (firstLine R ++ [10] ++ N) = beforeLastLine L ++ lastLine L ++ (firstLine R ++ [10] ++ N) := by
      rw [hsL]
    have hdot : blen L = blen (beforeLastLine L ++ lastLine L) := by rw [hsL]
    rw [e3, hdot]
    change (slice _ (blen (beforeLastLine L)) _ >>= _) = _
    rw [slice_zip_mid]
    simp only [ok_bind, wcOf_enc E _ hL'.right]
    -- slice buffer nextSOL nextEOL
    have e4 : beforeLastLine L ++ lastLine L ++ (firstLine R ++ [10] ++ N) =
        (L ++ firstLine R ++ [10]) ++ firstLine N ++ afterFirstLine N := by
      rw [hsL, List.append_assoc _ (firstLine N), hsN]; simp
    have hne2 : ((enc (firstLine N)).length : Int) + blen (L ++ firstLine R ++ [10]) =
        blen ((L ++ firstLine R ++ [10]) ++ firstLine N) := by
      simp only [blen, enc_append, List.length_append]; omega
    rw [e4, hne2, slice_zip_mid]
    simp only [ok_bind, wcTrim_enc E _ hNv'.left, pure_eq_ok]
    simp only [blen, enc_append, List.length_append, Int.natCast_add]

end C28
