/-
C28 helper lemmas: cutting a valid suffix off a valid string leaves a valid
string; `string(rune)` is always valid.
-/
import ElvProofs.C28.Transpose
namespace C28
open Go

/-- first byte of an encoding starts a rune, the others do not -/
theorem IsEnc.starts {c : Bytes} {r : Nat} (h : IsEnc c r) :
    ∃ b0 tl, c = b0 :: tl ∧ runeStart b0 = true ∧ ∀ b ∈ tl, runeStart b = false := by
  cases h with
  | one b0 r h0 e => exact ⟨b0, [], rfl, runeStart_of_lt (by omega), by simp⟩
  | two b0 b1 r h0 h1 h2 h3 e =>
    refine ⟨b0, [b1], rfl, runeStart_of_lt (by omega), ?_⟩
    intro b hb; simp at hb; subst hb; exact not_runeStart h2 h3
  | three b0 b1 b2 r h0 h1 h2 h3 h4 h5 e =>
    have hb1 : 0x80 ≤ b1.toNat ∧ b1.toNat ≤ 0xBF := by split at h2 <;> split at h3 <;> omega
    refine ⟨b0, [b1, b2], rfl, runeStart_of_lt (by omega), ?_⟩
    intro b hb; simp at hb; rcases hb with rfl | rfl
    · exact not_runeStart hb1.1 hb1.2
    · exact not_runeStart h4 h5
  | four b0 b1 b2 b3 r h0 h1 h2 h3 h4 h5 h6 h7 e =>
    have hb1 : 0x80 ≤ b1.toNat ∧ b1.toNat ≤ 0xBF := by split at h2 <;> split at h3 <;> omega
    refine ⟨b0, [b1, b2, b3], rfl, runeStart_of_lt (by omega), ?_⟩
    intro b hb; simp at hb; rcases hb with rfl | rfl | rfl
    · exact not_runeStart hb1.1 hb1.2
    · exact not_runeStart h4 h5
    · exact not_runeStart h6 h7

theorem enc_head_runeStart (A : List Nat) (hA : VR A) (b : UInt8) (t : Bytes) (h : enc A = b :: t) :
    runeStart b = true := by
  cases A with
  | nil => simp at h
  | cons r A' =>
    obtain ⟨b0, tl, hc, hs, _⟩ := (encodeRune_isEnc r hA.cons.1).starts
    rw [enc_cons, hc] at h
    simp only [List.cons_append] at h
    injection h with e1 _; rw [← e1]; exact hs

/-- if `x ++ a` and `a` are valid UTF-8 then so is `x` -/
theorem valid_of_valid_append (x a : Bytes) (hxa : validUtf8 (x ++ a) = true) (ha : validUtf8 a = true) :
    validUtf8 x = true := by
  obtain ⟨T, hT, eT⟩ := valid_exists_runes _ hxa
  obtain ⟨A, hA, rfl⟩ := valid_exists_runes _ ha
  induction T generalizing x with
  | nil =>
    have : x = [] := by
      have := congrArg List.length eT
      simp at this
      exact this.1
    rw [this]; rfl
  | cons r T ih =>
    have hr := hT.cons.1
    rw [enc_cons] at eT
    by_cases hle : (encodeRune r).length ≤ x.length
    · -- x = encodeRune r ++ x'
      have e1 : x = x.take (encodeRune r).length ++ x.drop (encodeRune r).length := (List.take_append_drop _ _).symm
      have e2 : x.take (encodeRune r).length = encodeRune r := by
        have := congrArg (List.take (encodeRune r).length) eT
        rw [List.take_append_of_le_length hle, List.take_left' rfl] at this
        exact this
      have e3 : x.drop (encodeRune r).length ++ enc A = enc T := by
        have := congrArg (List.drop (encodeRune r).length) eT
        rw [List.drop_append_of_le_length hle, List.drop_left' rfl] at this
        exact this
      have hx' := ih (x.drop (encodeRune r).length) hT.cons.2
        (by rw [e3]; exact validUtf8_enc T hT.cons.2) e3
      rw [e1, e2]
      exact validUtf8_append (by rw [← enc_singleton]; exact validUtf8_enc [r] (VR.mk_cons hr VR.nil)) hx'
    · -- x is a proper prefix of encodeRune r: it must be empty
      cases x with
      | nil => rfl
      | cons xb xt =>
        exfalso
        obtain ⟨b0, tl, hc, hs, hcont⟩ := (encodeRune_isEnc r hr).starts
        -- enc A starts at a continuation byte of encodeRune r
        have hlen : (xb :: xt).length < (encodeRune r).length := by omega
        have hAne : enc A ≠ [] := by
          intro hnil
          have := congrArg List.length eT
          rw [hnil] at this
          simp only [List.append_nil, List.length_append] at this
          omega
        cases hEA : enc A with
        | nil => exact hAne hEA
        | cons ab at' =>
          have hstart := enc_head_runeStart A hA ab at' hEA
          -- byte number |x| of both sides
          have hget : (xb :: xt ++ enc A)[(xb :: xt).length]? = (encodeRune r ++ enc T)[(xb :: xt).length]? := by rw [eT]
          rw [List.getElem?_append_right (Nat.le_refl _), Nat.sub_self, hEA,
            List.getElem?_append_left hlen, hc] at hget
          simp only [List.getElem?_cons_zero, List.length_cons] at hget
          have hmem : ab ∈ tl := by
            have : (b0 :: tl)[xt.length + 1]? = tl[xt.length]? := by simp
            rw [this] at hget
            exact List.mem_of_getElem? hget.symm
          have := hcont ab hmem
          rw [hstart] at this; cases this

theorem validUtf8_encodeRune (r : Nat) : validUtf8 (encodeRune r) = true := by
  by_cases h : validRune r = true
  · rw [← enc_singleton]; exact validUtf8_enc [r] (VR.mk_cons h VR.nil)
  · have : encodeRune r = encodeRune 0xFFFD := by
      have h' : validRune r = false := by simpa using h
      unfold encodeRune
      simp only [validRune, Bool.or_eq_false_iff, Bool.and_eq_false_iff, decide_eq_false_iff_not] at h'
      unfold Rune at *
      rw [if_neg (by omega), if_neg (by omega)]
      have : validRune r = false := by simpa using h
      rw [this]
      rfl
    rw [this]; decide

end C28
