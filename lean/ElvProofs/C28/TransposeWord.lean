/-
C28 helper lemmas: `transposeGeneralWord` on a zipper is a swap of two
adjacent blocks of whole runes (or leaves everything unchanged).
-/
import ElvProofs.C28.Transpose
namespace C28
open Go

/-! ### prefix forms of the skip lemmas: the buffer stays `enc T` -/

theorem skipCatLeft_pre (cat : Categorizer) (c : Nat) (T P S : List Nat) (hT : T = P ++ S) (hP : VR P) :
    skipCatLeft cat c (enc T) (blen P) = .ok (blen (dropEndWhile (fun r => cat r == c) P)) := by
  subst hT; exact skipCatLeft_zip cat c P S hP

theorem skipCatRight_pre (cat : Categorizer) (c : Nat) (T P S : List Nat) (hT : T = P ++ S) (hS : VR S) :
    skipCatRight cat c (enc T) (blen P) = .ok (blen (P ++ S.takeWhile (fun r => cat r == c))) := by
  subst hT; exact skipCatRight_zip cat c P S hS

theorem skipSameCatLeft_pre (cat : Categorizer) (T P S : List Nat) (hT : T = P ++ S) (hP : VR P) :
    skipSameCatLeft cat (enc T) (blen P) = .ok (blen (skipSameLeftR cat P)) := by
  subst hT; exact skipSameCatLeft_zip cat P S hP

theorem skipSameCatRight_pre (cat : Categorizer) (T P S : List Nat) (hT : T = P ++ S) (hS : VR S) :
    skipSameCatRight cat (enc T) (blen P) = .ok (blen (P ++ sameRightR cat S)) := by
  subst hT; exact skipSameCatRight_zip cat P S hS

/-- the five slices of the final expression -/
theorem swap_slices (a l m r z : List Nat) (T : List Nat) (hT : T = a ++ l ++ m ++ r ++ z) :
    slice (enc T) 0 (blen a) = .ok (enc a) ∧
    slice (enc T) (blen (a ++ l ++ m)) (blen (a ++ l ++ m ++ r)) = .ok (enc r) ∧
    slice (enc T) (blen (a ++ l)) (blen (a ++ l ++ m)) = .ok (enc m) ∧
    slice (enc T) (blen a) (blen (a ++ l)) = .ok (enc l) ∧
    slice (enc T) (blen (a ++ l ++ m ++ r)) ((enc T).length : Int) = .ok (enc z) := by
  subst hT
  refine ⟨?_, ?_, ?_, ?_, ?_⟩
  · rw [show a ++ l ++ m ++ r ++ z = a ++ (l ++ m ++ r ++ z) by simp]; exact slice_zip_left _ _
  · exact slice_zip_mid _ _ _
  · rw [show a ++ l ++ m ++ r ++ z = (a ++ l) ++ m ++ (r ++ z) by simp]; exact slice_zip_mid _ _ _
  · rw [show a ++ l ++ m ++ r ++ z = a ++ l ++ (m ++ r ++ z) by simp]; exact slice_zip_mid _ _ _
  · exact slice_zip_right _ _

theorem skipSameLeftR_nonempty (cat : Categorizer) (P : List Nat) (x : Nat) (P0 : List Nat) (h : P = P0 ++ [x]) :
    ∃ S, S ≠ [] ∧ P = skipSameLeftR cat P ++ S := by
  subst h
  unfold skipSameLeftR
  simp only [List.getLast?_append, List.getLast?_singleton, Option.some_or]
  refine ⟨takeEndWhile (fun y => cat y == cat x) (P0 ++ [x]),
    ?_, (dropEndWhile_append_takeEndWhile _ _).symm⟩
  unfold takeEndWhile
  simp [List.takeWhile_cons]

theorem blen_lt_of_append (P S : List Nat) (h : S ≠ []) : blen P < blen (P ++ S) := by
  cases S with
  | nil => exact absurd rfl h
  | cons x t => have := blen_pos x t; rw [blen_append]; omega

theorem blen_inj_nil {P : List Nat} : blen P = 0 ↔ P = [] :=
  ⟨blen_eq_zero, fun h => by rw [h]; rfl⟩

/-- the part of `transposeGeneralWord` after `rightEnd` has been found -/
def tgwTail (cat : Categorizer) (buffer : Bytes) (dot : Int) (rightEnd : Int) : Res (Bytes × Int) := do
  let rightStart ← skipSameCatLeft cat buffer rightEnd
  let leftEnd ← skipWsLeft cat buffer rightStart
  if leftEnd = 0 then
    let leftStart := rightStart
    let leftEnd := rightEnd
    let rightStart ← skipWsRight cat buffer leftEnd
    if rightStart = buffer.length then pure (buffer, dot)
    else
      let rightEnd ← skipSameCatRight cat buffer rightStart
      let a ← slice buffer 0 leftStart
      let r ← slice buffer rightStart rightEnd
      let m ← slice buffer leftEnd rightStart
      let l ← slice buffer leftStart leftEnd
      let z ← slice buffer rightEnd buffer.length
      pure (a ++ r ++ m ++ l ++ z, rightEnd)
  else
    let leftStart ← skipSameCatLeft cat buffer leftEnd
    let a ← slice buffer 0 leftStart
    let r ← slice buffer rightStart rightEnd
    let m ← slice buffer leftEnd rightStart
    let l ← slice buffer leftStart leftEnd
    let z ← slice buffer rightEnd buffer.length
    pure (a ++ r ++ m ++ l ++ z, rightEnd)

theorem transposeGeneralWord_eq (cat : Categorizer) (buffer : Bytes) (dot : Int) :
    transposeGeneralWord cat buffer dot = (do
      let trimmed ← trimFunc (fun r => cat r == 0) buffer
      if trimmed = [] then pure (buffer, dot)
      else
        let pos ← skipWsRight cat buffer dot
        let rightEnd ←
          if pos = buffer.length then skipWsLeft cat buffer pos
          else skipSameCatRight cat buffer pos
        tgwTail cat buffer dot rightEnd) := by
  rfl

theorem tgwTail_zip (cat : Categorizer) (T P2 S2 : List Nat) (hT : T = P2 ++ S2) (hP : VR P2) (hS : VR S2)
    (dot : Int) :
    tgwTail cat (enc T) dot (blen P2) = .ok (enc T, dot) ∨
    ∃ a l m r z : List Nat, T = a ++ l ++ m ++ r ++ z ∧
      tgwTail cat (enc T) dot (blen P2) = .ok (enc (a ++ r ++ m ++ l ++ z), blen (a ++ r ++ m ++ l)) := by
  unfold tgwTail skipWsLeft skipWsRight
  -- rightStart
  obtain ⟨rr, hrr⟩ := skipSameLeftR_prefix cat P2
  have hP3 : VR (skipSameLeftR cat P2) := by rw [hrr] at hP; exact hP.left
  rw [skipSameCatLeft_pre cat T P2 S2 hT hP]
  simp only [ok_bind]
  -- leftEnd
  have hT3 : T = skipSameLeftR cat P2 ++ (rr ++ S2) := by rw [← List.append_assoc, ← hrr]; exact hT
  rw [skipCatLeft_pre cat 0 T _ _ hT3 hP3]
  simp only [ok_bind]
  obtain ⟨mm, hmm⟩ := dropEndWhile_prefix (fun r => cat r == 0) (skipSameLeftR cat P2)
  generalize hP3e : skipSameLeftR cat P2 = P3 at *
  generalize hP4e : dropEndWhile (fun r => cat r == 0) P3 = P4 at *
  have hP4 : VR P4 := by rw [hmm] at hP3; exact hP3.left
  by_cases hz : blen P4 = 0
  · -- the right word is the first word
    simp only [hz, if_true]
    rw [skipCatRight_pre cat 0 T P2 S2 hT hS]
    simp only [ok_bind]
    have hS2s := (List.takeWhile_append_dropWhile (p := fun r => cat r == 0) (l := S2)).symm
    generalize hWe : List.takeWhile (fun r => cat r == 0) S2 = W at *
    generalize hS3e : List.dropWhile (fun r => cat r == 0) S2 = S3 at *
    have hS3 : VR S3 := by rw [hS2s] at hS; exact hS.right
    have hT5 : T = (P2 ++ W) ++ S3 := by rw [List.append_assoc, ← hS2s]; exact hT
    by_cases hend : blen (P2 ++ W) = ((enc T).length : Int)
    · left; simp [hend]
    · right
      simp only [hend, if_false]
      rw [skipSameCatRight_pre cat T _ _ hT5 hS3]
      simp only [ok_bind]
      have hCs := sameRightR_append cat S3
      generalize hCe : sameRightR cat S3 = C at *
      generalize hZe : afterSameRightR cat S3 = Z at *
      have hfin : T = P3 ++ rr ++ W ++ C ++ Z := by
        rw [hT5, ← hCs, hrr]; simp
      obtain ⟨s1, s2, s3, s4, s5⟩ := swap_slices P3 rr W C Z T hfin
      have e1 : blen (P2 ++ W ++ C) = blen (P3 ++ rr ++ W ++ C) := by rw [hrr]
      have e2 : blen (P2 ++ W) = blen (P3 ++ rr ++ W) := by rw [hrr]
      have e3 : blen P2 = blen (P3 ++ rr) := by rw [hrr]
      rw [e1, e2, e3]
      simp only [s1, s2, s3, s4, s5, ok_bind, pure_eq_ok]
      refine ⟨P3, rr, W, C, Z, hfin, ?_⟩
      simp only [enc_append, blen, List.length_append, Int.natCast_add, List.append_assoc]
      congr 2
      omega
  · right
    simp only [hz, if_false]
    have hT4 : T = P4 ++ (mm ++ (rr ++ S2)) := by rw [← List.append_assoc, ← hmm]; exact hT3
    rw [skipSameCatLeft_pre cat T P4 _ hT4 hP4]
    simp only [ok_bind]
    obtain ⟨ll, hll⟩ := skipSameLeftR_prefix cat P4
    generalize hP5e : skipSameLeftR cat P4 = P5 at *
    have hfin : T = P5 ++ ll ++ mm ++ rr ++ S2 := by
      rw [hT, hrr, hmm, hll]
    obtain ⟨s1, s2, s3, s4, s5⟩ := swap_slices P5 ll mm rr S2 T hfin
    have e1 : blen P2 = blen (P5 ++ ll ++ mm ++ rr) := by rw [hrr, hmm, hll]
    have e2 : blen P3 = blen (P5 ++ ll ++ mm) := by rw [hmm, hll]
    have e3 : blen P4 = blen (P5 ++ ll) := by rw [hll]
    rw [e1, e2, e3]
    simp only [s1, s2, s3, s4, s5, ok_bind, pure_eq_ok]
    refine ⟨P5, ll, mm, rr, S2, hfin, ?_⟩
    simp only [enc_append, blen, List.length_append, Int.natCast_add, List.append_assoc]
    congr 2
    omega

theorem transposeGeneralWord_zip (cat : Categorizer) (L R : List Nat) (hL : VR L) (hR : VR R) :
    ∃ a l m r z : List Nat, L ++ R = a ++ l ++ m ++ r ++ z ∧
      transposeGeneralWord cat (enc (L ++ R)) (blen L) =
        .ok (enc (a ++ r ++ m ++ l ++ z), blen (a ++ r ++ m ++ l)) := by
  have unchanged : transposeGeneralWord cat (enc (L ++ R)) (blen L) = .ok (enc (L ++ R), blen L) →
      ∃ a l m r z : List Nat, L ++ R = a ++ l ++ m ++ r ++ z ∧
        transposeGeneralWord cat (enc (L ++ R)) (blen L) =
          .ok (enc (a ++ r ++ m ++ l ++ z), blen (a ++ r ++ m ++ l)) := by
    intro h; exact ⟨L, [], [], [], R, by simp, by simpa using h⟩
  have hTv : VR (L ++ R) := hL.append hR
  have fromTail : ∀ P2 S2 : List Nat, L ++ R = P2 ++ S2 →
      transposeGeneralWord cat (enc (L ++ R)) (blen L) = tgwTail cat (enc (L ++ R)) (blen L) (blen P2) →
      ∃ a l m r z : List Nat, L ++ R = a ++ l ++ m ++ r ++ z ∧
        transposeGeneralWord cat (enc (L ++ R)) (blen L) =
          .ok (enc (a ++ r ++ m ++ l ++ z), blen (a ++ r ++ m ++ l)) := by
    intro P2 S2 hsplit heq
    have hv : VR (P2 ++ S2) := by rw [← hsplit]; exact hTv
    rcases tgwTail_zip cat (L ++ R) P2 S2 hsplit hv.left hv.right (blen L) with h | ⟨a, l, m, r, z, h1, h2⟩
    · exact unchanged (by rw [heq, h])
    · exact ⟨a, l, m, r, z, h1, by rw [heq, h2]⟩
  by_cases htrim : enc (dropEndWhile (fun r => cat r == 0) (List.dropWhile (fun r => cat r == 0) (L ++ R))) = []
  · apply unchanged; rw [transposeGeneralWord_eq, trimFunc_enc _ (L ++ R) hTv]; simp [htrim]
  -- pos
  have hRs := (List.takeWhile_append_dropWhile (p := fun r => cat r == 0) (l := R)).symm
  have hev : transposeGeneralWord cat (enc (L ++ R)) (blen L) =
      (do let pos ← skipWsRight cat (enc (L ++ R)) (blen L)
          let rightEnd ←
            if pos = (enc (L ++ R)).length then skipWsLeft cat (enc (L ++ R)) pos
            else skipSameCatRight cat (enc (L ++ R)) pos
          tgwTail cat (enc (L ++ R)) (blen L) rightEnd) := by
    rw [transposeGeneralWord_eq, trimFunc_enc _ (L ++ R) hTv]; simp [htrim]
  unfold skipWsRight skipWsLeft at hev
  rw [skipCatRight_zip cat 0 L R hR] at hev
  simp only [ok_bind] at hev
  generalize hWe : List.takeWhile (fun r => cat r == 0) R = W at *
  generalize hR1e : List.dropWhile (fun r => cat r == 0) R = R1 at *
  have hR1 : VR R1 := by rw [hRs] at hR; exact hR.right
  have hW : VR W := by rw [hRs] at hR; exact hR.left
  have hT1 : L ++ R = (L ++ W) ++ R1 := by rw [List.append_assoc, ← hRs]
  by_cases hend : blen (L ++ W) = ((enc (L ++ R)).length : Int)
  · simp only [hend, if_true] at hev
    have hPv : VR (L ++ W) := hL.append hW
    rw [← hend, skipCatLeft_pre cat 0 (L ++ R) (L ++ W) R1 hT1 hPv] at hev
    simp only [ok_bind] at hev
    obtain ⟨S, hS⟩ := dropEndWhile_prefix (fun r => cat r == 0) (L ++ W)
    exact fromTail _ (S ++ R1) (by rw [← List.append_assoc, ← hS]; exact hT1) hev
  · simp only [hend, if_false] at hev
    rw [skipSameCatRight_pre cat (L ++ R) (L ++ W) R1 hT1 hR1] at hev
    simp only [ok_bind] at hev
    exact fromTail _ (afterSameRightR cat R1)
      (by rw [List.append_assoc (L ++ W), sameRightR_append]; exact hT1) hev

end C28
