/-
C28 helper lemmas: `Go.slice` on concatenations, the zipper view of a buffer
with its dot on a boundary.
-/
import ElvModel.C28.Spec
import ElvProofs.C28.Runes
namespace C28
open Go

@[simp] theorem pure_eq_ok {α} (a : α) : (pure a : Res α) = .ok a := rfl
@[simp] theorem ok_bind {α β} (a : α) (f : α → Res β) : (Res.ok a >>= f) = f a := rfl
@[simp] theorem panic_bind {α β} (w : String) (f : α → Res β) : (Res.panic w >>= f) = .panic w := rfl
@[simp] theorem exc_bind {α β} (e : String) (f : α → Res β) : (Res.exc e >>= f) = .exc e := rfl

theorem slice_ok {α} (s : List α) (i j : Nat) (h1 : i ≤ j) (h2 : j ≤ s.length) :
    slice s (i : Int) (j : Int) = .ok ((s.drop i).take (j - i)) := by
  unfold slice
  rw [if_pos (by omega)]
  simp

theorem slice_prefix {α} (a b : List α) : slice (a ++ b) 0 (a.length : Int) = .ok a := by
  have := slice_ok (a ++ b) 0 a.length (by omega) (by simp)
  simpa using this

theorem slice_suffix {α} (a b : List α) :
    slice (a ++ b) (a.length : Int) ((a ++ b).length : Int) = .ok b := by
  have := slice_ok (a ++ b) a.length (a ++ b).length (by simp) (by simp)
  simpa using this

theorem slice_mid {α} (a b c : List α) :
    slice (a ++ b ++ c) (a.length : Int) ((a.length + b.length : Nat) : Int) = .ok b := by
  have := slice_ok (a ++ b ++ c) a.length (a.length + b.length) (by omega) (by simp)
  simpa [List.append_assoc] using this

theorem slice_all {α} (a : List α) : slice a 0 (a.length : Int) = .ok a := by
  have := slice_prefix a []
  simpa using this

/-- Zipper view: a buffer with its dot on a boundary is `enc L ++ enc R`. -/
theorem Boundary.zipper {buf : Bytes} {dot : Int} (h : Boundary buf dot) :
    ∃ L R, VR L ∧ VR R ∧ buf = enc L ++ enc R ∧ dot = ((enc L).length : Int) := by
  obtain ⟨h0, h1, hl, hr⟩ := h
  obtain ⟨L, hL, eL⟩ := valid_exists_runes _ hl
  obtain ⟨R, hR, eR⟩ := valid_exists_runes _ hr
  refine ⟨L, R, hL, hR, ?_, ?_⟩
  · rw [← eL, ← eR, List.take_append_drop]
  · rw [← eL, List.length_take]; omega

theorem boundary_zipper (L R : List Nat) (hL : VR L) (hR : VR R) :
    Boundary (enc L ++ enc R) ((enc L).length : Int) := by
  refine ⟨by omega, by simp only [List.length_append]; omega, ?_, ?_⟩
  · simp [validUtf8_enc L hL]
  · simp [validUtf8_enc R hR]

theorem Boundary.valid {buf : Bytes} {dot : Int} (h : Boundary buf dot) : validUtf8 buf = true := by
  obtain ⟨L, R, hL, hR, rfl, _⟩ := h.zipper
  rw [← enc_append]; exact validUtf8_enc _ (hL.append hR)

end C28
