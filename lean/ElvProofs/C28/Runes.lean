/-
C28 helper lemmas: valid UTF-8 strings as encoded rune lists.
`enc rs` is `Go.encodeRunes rs`; `VR rs` says every rune is a scalar value.
Bridges `Go.runes` / `Go.validUtf8` / `Go.toRunes` (fuelled loops of the
prelude) to this view.
-/
import ElvProofs.C28.Utf8
namespace C28
open Go

abbrev enc (rs : List Nat) : Bytes := encodeRunes rs

/-- every rune is a Unicode scalar value -/
def VR (rs : List Nat) : Prop := ∀ r ∈ rs, validRune r = true

theorem VR.nil : VR [] := by intro r h; cases h
theorem VR.cons {r : Nat} {rs : List Nat} (h : VR (r :: rs)) : validRune r = true ∧ VR rs :=
  ⟨h r (by simp), fun x hx => h x (by simp [hx])⟩
theorem VR.mk_cons {r : Nat} {rs : List Nat} (h1 : validRune r = true) (h2 : VR rs) : VR (r :: rs) := by
  intro x hx; simp at hx; rcases hx with rfl | hx
  · exact h1
  · exact h2 x hx
theorem VR.append {a b : List Nat} (h1 : VR a) (h2 : VR b) : VR (a ++ b) := by
  intro x hx; simp at hx; rcases hx with hx | hx
  · exact h1 x hx
  · exact h2 x hx
theorem VR.left {a b : List Nat} (h : VR (a ++ b)) : VR a := fun x hx => h x (by simp [hx])
theorem VR.right {a b : List Nat} (h : VR (a ++ b)) : VR b := fun x hx => h x (by simp [hx])
theorem VR.sublist {a b : List Nat} (h : VR b) (hs : ∀ x ∈ a, x ∈ b) : VR a := fun x hx => h x (hs x hx)

@[simp] theorem enc_nil : enc [] = [] := rfl
@[simp] theorem enc_cons (r : Nat) (rs : List Nat) : enc (r :: rs) = encodeRune r ++ enc rs := by
  simp [enc, encodeRunes]
@[simp] theorem enc_append (a b : List Nat) : enc (a ++ b) = enc a ++ enc b := by
  simp [enc, encodeRunes]
theorem enc_singleton (r : Nat) : enc [r] = encodeRune r := by simp

theorem encodeRune_len (r : Nat) : 1 ≤ (encodeRune r).length ∧ (encodeRune r).length ≤ 4 := by
  unfold encodeRune
  split
  · simp
  split
  · simp
  split
  · simp
  split <;> simp

theorem encodeRune_ne_nil (r : Nat) : encodeRune r ≠ [] := by
  intro h; have := (encodeRune_len r).1; rw [h] at this; simp at this

theorem decodeRune_encodeRune_append (r : Nat) (h : validRune r = true) (t : Bytes) :
    decodeRune (encodeRune r ++ t) = (r, (encodeRune r).length) :=
  (encodeRune_isEnc r h).decode t

theorem decodeLastRune_append_encodeRune (p : Bytes) (r : Nat) (h : validRune r = true) :
    decodeLastRune (p ++ encodeRune r) = (r, (encodeRune r).length) :=
  (encodeRune_isEnc r h).decodeLast p

theorem decodeRune_nil : decodeRune [] = (RuneError, 0) := rfl
theorem decodeLastRune_nil : decodeLastRune [] = (RuneError, 0) := by simp [decodeLastRune]

/-- size returned by `decodeRune` on a non-empty string -/
theorem decodeRune_size (s : Bytes) (h : s ≠ []) : 1 ≤ (decodeRune s).2 ∧ (decodeRune s).2 ≤ 4 := by
  cases s with
  | nil => exact absurd rfl h
  | cons b0 rest =>
    unfold decodeRune
    simp only
    repeat' split
    all_goals simp

/-! ### `Go.runes` on encoded rune lists -/

/-- the `(offset, rune, size)` triples of `for i, r := range (enc rs)` -/
def runeTriples (off : Nat) : List Nat → List (Nat × Rune × Nat)
  | [] => []
  | r :: rs => (off, r, (encodeRune r).length) :: runeTriples (off + (encodeRune r).length) rs

theorem runesFrom_nil (fuel off : Nat) : runesFrom fuel off [] = [] := by
  cases fuel <;> rfl

theorem runesFrom_cons (fuel off : Nat) (b : UInt8) (t : Bytes) :
    runesFrom (fuel + 1) off (b :: t) =
      (off, (decodeRune (b :: t)).1, (decodeRune (b :: t)).2) ::
        runesFrom fuel (off + (decodeRune (b :: t)).2) ((b :: t).drop (decodeRune (b :: t)).2) := by
  rw [runesFrom]

theorem runesFrom_enc (rs : List Nat) (h : VR rs) (fuel off : Nat) (hf : (enc rs).length ≤ fuel) :
    runesFrom fuel off (enc rs) = runeTriples off rs := by
  induction rs generalizing fuel off with
  | nil => simp [runesFrom_nil, runeTriples]
  | cons r rs ih =>
    obtain ⟨hr, hrs⟩ := h.cons
    have hl := encodeRune_len r
    have hd := decodeRune_encodeRune_append r hr (enc rs)
    simp only [enc_cons, List.length_append] at hf ⊢
    cases fuel with
    | zero => omega
    | succ fuel =>
      cases hc : encodeRune r ++ enc rs with
      | nil => simp [encodeRune_ne_nil] at hc
      | cons b t =>
        rw [runesFrom_cons, ← hc, hd]
        simp only [runeTriples]
        rw [List.drop_left' rfl]
        rw [ih hrs fuel _ (by omega)]

theorem runes_enc (rs : List Nat) (h : VR rs) : runes (enc rs) = runeTriples 0 rs :=
  runesFrom_enc rs h _ 0 (Nat.le_refl _)

theorem runeTriples_map_rune (off : Nat) (rs : List Nat) : (runeTriples off rs).map (·.2.1) = rs := by
  induction rs generalizing off with
  | nil => rfl
  | cons r rs ih => simp [runeTriples, ih]

theorem toRunes_enc (rs : List Nat) (h : VR rs) : toRunes (enc rs) = rs := by
  simp [toRunes, runes_enc rs h, runeTriples_map_rune]

theorem enc_injective {a b : List Nat} (ha : VR a) (hb : VR b) (h : enc a = enc b) : a = b := by
  rw [← toRunes_enc a ha, ← toRunes_enc b hb, h]

theorem validUtf8_enc (rs : List Nat) (h : VR rs) : validUtf8 (enc rs) = true := by
  rw [validUtf8, runes_enc rs h]
  generalize 0 = off
  induction rs generalizing off with
  | nil => simp [runeTriples]
  | cons r rs ih =>
    obtain ⟨hr, hrs⟩ := h.cons
    simp only [runeTriples, List.all_cons, ih hrs, Bool.and_true]
    have := (encodeRune_isEnc r hr).not_error
    simp only [Bool.not_eq_true', Bool.and_eq_false_iff, beq_eq_false_iff_ne, ne_eq]
    by_cases e : r = RuneError
    · right; intro e2; exact this ⟨e, e2⟩
    · left; exact e

/-! ### Every valid string is an encoded rune list -/

theorem runesFrom_snd (fuel off off' : Nat) (s : Bytes) :
    (runesFrom fuel off s).map (·.2) = (runesFrom fuel off' s).map (·.2) := by
  induction fuel generalizing off off' s with
  | zero => simp [runesFrom]
  | succ fuel ih =>
    cases s with
    | nil => simp [runesFrom_nil]
    | cons b t =>
      rw [runesFrom_cons, runesFrom_cons]
      simp only [List.map_cons, List.cons.injEq, true_and]
      exact ih _ _ _

theorem runesFrom_fuel (f1 f2 off : Nat) (s : Bytes) (h1 : s.length ≤ f1) (h2 : s.length ≤ f2) :
    runesFrom f1 off s = runesFrom f2 off s := by
  induction f1 generalizing f2 off s with
  | zero =>
    have : s = [] := List.eq_nil_of_length_eq_zero (by omega)
    subst this; simp [runesFrom_nil]
  | succ f1 ih =>
    cases s with
    | nil => simp [runesFrom_nil]
    | cons b t =>
      cases f2 with
      | zero => simp at h2
      | succ f2 =>
        rw [runesFrom_cons, runesFrom_cons]
        have hs := (decodeRune_size (b :: t) (by simp)).1
        congr 1
        apply ih
        · simp only [List.length_drop, List.length_cons] at h1 ⊢; omega
        · simp only [List.length_drop, List.length_cons] at h2 ⊢; omega

theorem validUtf8_cons (b : UInt8) (t : Bytes) :
    validUtf8 (b :: t) =
      (!((decodeRune (b :: t)).1 == RuneError && (decodeRune (b :: t)).2 == 1) &&
        validUtf8 ((b :: t).drop (decodeRune (b :: t)).2)) := by
  have hs := (decodeRune_size (b :: t) (by simp)).1
  have key : ∀ l : List (Nat × Rune × Nat),
      l.all (fun x => !(x.2.1 == RuneError && x.2.2 == 1)) =
        (l.map (·.2)).all (fun y => !(y.1 == RuneError && y.2 == 1)) := by
    intro l; induction l <;> simp_all
  have v : ∀ s : Bytes, validUtf8 s = (runes s).all (fun x => !(x.2.1 == RuneError && x.2.2 == 1)) := by
    intro s; rfl
  rw [v, v, runes, runes, List.length_cons, runesFrom_cons, List.all_cons]
  congr 1
  rw [key, key]
  rw [runesFrom_snd _ _ 0]
  rw [runesFrom_fuel _ ((List.drop (decodeRune (b :: t)).2 (b :: t)).length) _ _ _ (Nat.le_refl _)]
  simp only [List.length_drop, List.length_cons]; omega

theorem valid_exists_runes (s : Bytes) (h : validUtf8 s = true) : ∃ rs, VR rs ∧ s = enc rs := by
  generalize hn : s.length = n
  induction n using Nat.strongRecOn generalizing s with
  | _ n ih =>
    cases s with
    | nil => exact ⟨[], VR.nil, rfl⟩
    | cons b t =>
      rw [validUtf8_cons] at h
      simp only [Bool.and_eq_true, Bool.not_eq_true', Bool.and_eq_false_iff, beq_eq_false_iff_ne, ne_eq] at h
      obtain ⟨hne, hrest⟩ := h
      obtain ⟨c, hc, hlen, hsplit⟩ := decodeRune_isEnc (b :: t) (decodeRune (b :: t)).1 (decodeRune (b :: t)).2 rfl
        (by simp) (by intro ⟨e1, e2⟩; rcases hne with h' | h' <;> contradiction)
      have hs := (decodeRune_size (b :: t) (by simp)).1
      obtain ⟨rs, hrs, hrest'⟩ := ih ((b :: t).drop (decodeRune (b :: t)).2).length
        (by simp only [List.length_drop, List.length_cons] at hn ⊢; omega) _ hrest rfl
      refine ⟨(decodeRune (b :: t)).1 :: rs, VR.mk_cons hc.valid hrs, ?_⟩
      rw [enc_cons, hc.encode, ← hrest']
      exact hsplit

theorem validUtf8_iff (s : Bytes) : validUtf8 s = true ↔ ∃ rs, VR rs ∧ s = enc rs :=
  ⟨valid_exists_runes s, fun ⟨rs, h, e⟩ => e ▸ validUtf8_enc rs h⟩

theorem validUtf8_append {a b : Bytes} (ha : validUtf8 a = true) (hb : validUtf8 b = true) :
    validUtf8 (a ++ b) = true := by
  obtain ⟨ra, hra, rfl⟩ := valid_exists_runes a ha
  obtain ⟨rb, hrb, rfl⟩ := valid_exists_runes b hb
  rw [← enc_append]; exact validUtf8_enc _ (hra.append hrb)

theorem toRunes_append {a b : Bytes} (ha : validUtf8 a = true) (hb : validUtf8 b = true) :
    toRunes (a ++ b) = toRunes a ++ toRunes b := by
  obtain ⟨ra, hra, rfl⟩ := valid_exists_runes a ha
  obtain ⟨rb, hrb, rfl⟩ := valid_exists_runes b hb
  rw [← enc_append, toRunes_enc _ (hra.append hrb), toRunes_enc _ hra, toRunes_enc _ hrb]

end C28
