/-
C28 helper lemmas: `strutil.FindFirstEOL/FindLastSOL`, `strings.TrimLeftFunc/
TrimRightFunc/TrimFunc`, `wcwidth.Of/Trim` on encoded rune lists.
-/
import ElvProofs.C28.Basic
namespace C28
open Go

/-! ### ASCII bytes inside encodings -/

theorem IsEnc.bytes_high {c : Bytes} {r : Nat} (h : IsEnc c r) (hr : 0x80 ≤ r) :
    ∀ b ∈ c, 0x80 ≤ b.toNat := by
  cases h with
  | one b0 r h0 e => omega
  | two b0 b1 r h0 h1 h2 h3 e => intro b hb; simp at hb; rcases hb with rfl | rfl <;> omega
  | three b0 b1 b2 r h0 h1 h2 h3 h4 h5 e =>
    have : 0x80 ≤ b1.toNat := by split at h2 <;> omega
    intro b hb; simp at hb; rcases hb with rfl | rfl | rfl <;> omega
  | four b0 b1 b2 b3 r h0 h1 h2 h3 h4 h5 h6 h7 e =>
    have : 0x80 ≤ b1.toNat := by split at h2 <;> omega
    intro b hb; simp at hb; rcases hb with rfl | rfl | rfl | rfl <;> omega

theorem IsEnc.ascii {c : Bytes} {r : Nat} (h : IsEnc c r) (hr : r < 0x80) : c = [UInt8.ofNat r] := by
  cases h with
  | one b0 r h0 e => rw [u8_eq b0 r e]
  | two b0 b1 r h0 h1 h2 h3 e => omega
  | three b0 b1 b2 r h0 h1 h2 h3 h4 h5 e => split at h2 <;> omega
  | four b0 b1 b2 b3 r h0 h1 h2 h3 h4 h5 h6 h7 e => split at h2 <;> omega

/-- first byte: below 0x80 exactly for one-byte encodings -/
theorem IsEnc.head {c : Bytes} {r : Nat} (h : IsEnc c r) :
    ∃ b0 tl, c = b0 :: tl ∧ ((b0.toNat < 0x80 ∧ tl = []) ∨ (0x80 ≤ b0.toNat)) := by
  cases h with
  | one b0 r h0 e => exact ⟨b0, [], rfl, Or.inl ⟨h0, rfl⟩⟩
  | two b0 b1 r h0 h1 h2 h3 e => exact ⟨b0, _, rfl, Or.inr (by omega)⟩
  | three b0 b1 b2 r h0 h1 h2 h3 h4 h5 e => exact ⟨b0, _, rfl, Or.inr (by omega)⟩
  | four b0 b1 b2 b3 r h0 h1 h2 h3 h4 h5 h6 h7 e => exact ⟨b0, _, rfl, Or.inr (by omega)⟩

theorem encodeRune_nl : encodeRune 10 = [NL] := by decide

theorem encodeRune_no_nl (r : Nat) (hv : validRune r = true) (hr : r ≠ 10) : ∀ b ∈ encodeRune r, b ≠ NL := by
  have h := encodeRune_isEnc r hv
  by_cases hlt : r < 0x80
  · rw [h.ascii hlt]
    intro b hb; simp at hb; subst hb
    intro e
    have : (UInt8.ofNat r).toNat = NL.toNat := by rw [e]
    rw [UInt8.toNat_ofNat'] at this
    have : NL.toNat = 10 := by decide
    omega
  · intro b hb e
    have := h.bytes_high (by omega) b hb
    rw [e] at this
    have : NL.toNat = 10 := by decide
    omega

theorem enc_no_nl (rs : List Nat) (hv : VR rs) (hr : ∀ r ∈ rs, r ≠ 10) : ∀ b ∈ enc rs, b ≠ NL := by
  induction rs with
  | nil => simp
  | cons r rs ih =>
    intro b hb
    simp only [enc_cons, List.mem_append] at hb
    rcases hb with hb | hb
    · exact encodeRune_no_nl r hv.cons.1 (hr r (by simp)) b hb
    · exact ih hv.cons.2 (fun x hx => hr x (by simp [hx])) b hb

/-! ### FindFirstEOL / FindLastSOL -/

theorem findFirstEOL_eq (X Y : Bytes) (hX : ∀ b ∈ X, b ≠ NL) (hY : Y = [] ∨ Y.head? = some NL) :
    findFirstEOL (X ++ Y) = X.length := by
  unfold findFirstEOL
  have h1 : (X ++ Y).takeWhile (· != NL) = X := by
    induction X with
    | nil =>
      rcases hY with rfl | hY
      · simp
      · cases Y with
        | nil => simp
        | cons y Y' => simp at hY; subst hY; simp
    | cons x X ih =>
      have : (x != NL) = true := by simp; exact hX x (by simp)
      simp [List.takeWhile_cons, this, ih (fun b hb => hX b (by simp [hb]))]
  rw [h1]

theorem findLastSOL_eq (X Y : Bytes) (hY : ∀ b ∈ Y, b ≠ NL) (hX : X = [] ∨ X.getLast? = some NL) :
    findLastSOL (X ++ Y) = X.length := by
  unfold findLastSOL
  have h := findFirstEOL_eq Y.reverse X.reverse (by simpa using hY)
    (by rcases hX with rfl | hX
        · left; rfl
        · right; simpa [List.head?_reverse] using hX)
  unfold findFirstEOL at h
  rw [List.reverse_append, h]
  simp

/-! ### Lines of a rune list -/

theorem mem_takeWhile_prop {α} (p : α → Bool) (l : List α) (x : α) (h : x ∈ l.takeWhile p) : p x = true := by
  induction l with
  | nil => simp at h
  | cons a l ih =>
    by_cases ha : p a = true
    · simp [List.takeWhile_cons, ha] at h
      rcases h with rfl | h
      · exact ha
      · exact ih h
    · simp [List.takeWhile_cons, ha] at h

def lastLine (L : List Nat) : List Nat := (L.reverse.takeWhile (· != 10)).reverse
def beforeLastLine (L : List Nat) : List Nat := (L.reverse.dropWhile (· != 10)).reverse
def firstLine (R : List Nat) : List Nat := R.takeWhile (· != 10)
def afterFirstLine (R : List Nat) : List Nat := R.dropWhile (· != 10)

theorem beforeLastLine_append_lastLine (L : List Nat) : beforeLastLine L ++ lastLine L = L := by
  unfold beforeLastLine lastLine
  rw [← List.reverse_append, List.takeWhile_append_dropWhile, List.reverse_reverse]

theorem firstLine_append_afterFirstLine (R : List Nat) : firstLine R ++ afterFirstLine R = R :=
  List.takeWhile_append_dropWhile

theorem lastLine_no_nl (L : List Nat) : ∀ r ∈ lastLine L, r ≠ 10 := by
  intro r hr
  unfold lastLine at hr
  rw [List.mem_reverse] at hr
  have := mem_takeWhile_prop _ _ _ hr
  simpa using this

theorem firstLine_no_nl (R : List Nat) : ∀ r ∈ firstLine R, r ≠ 10 := by
  intro r hr
  have := mem_takeWhile_prop _ _ _ hr
  simpa using this

theorem afterFirstLine_head (R : List Nat) : afterFirstLine R = [] ∨ ∃ t, afterFirstLine R = 10 :: t := by
  unfold afterFirstLine
  cases h : R.dropWhile (· != 10) with
  | nil => left; rfl
  | cons x t =>
    right
    have := List.head_dropWhile_not (· != 10) (l := R) (by rw [h]; simp)
    simp [h] at this
    exact ⟨t, by rw [this]⟩

theorem beforeLastLine_last (L : List Nat) : beforeLastLine L = [] ∨ ∃ a, beforeLastLine L = a ++ [10] := by
  unfold beforeLastLine
  rcases afterFirstLine_head L.reverse with h | ⟨t, h⟩
  · left; unfold afterFirstLine at h; rw [h]; rfl
  · right; unfold afterFirstLine at h; rw [h]; exact ⟨t.reverse, by simp⟩

theorem findLastSOL_enc (L : List Nat) (hv : VR L) :
    findLastSOL (enc L) = (enc (beforeLastLine L)).length := by
  have hsplit := beforeLastLine_append_lastLine L
  have hv' : VR (beforeLastLine L ++ lastLine L) := by rw [hsplit]; exact hv
  have hvB : VR (lastLine L) := hv'.right
  conv => lhs; rw [← hsplit, enc_append]
  apply findLastSOL_eq
  · exact enc_no_nl _ hvB (lastLine_no_nl L)
  · rcases beforeLastLine_last L with h | ⟨a, h⟩
    · left; rw [h]; rfl
    · right; rw [h, enc_append]; simp [encodeRune_nl]

theorem findFirstEOL_enc (R : List Nat) (hv : VR R) :
    findFirstEOL (enc R) = (enc (firstLine R)).length := by
  have hsplit := firstLine_append_afterFirstLine R
  have hv' : VR (firstLine R ++ afterFirstLine R) := by rw [hsplit]; exact hv
  have hvA : VR (firstLine R) := hv'.left
  conv => lhs; rw [← hsplit, enc_append]
  apply findFirstEOL_eq
  · exact enc_no_nl _ hvA (firstLine_no_nl R)
  · rcases afterFirstLine_head R with h | ⟨t, h⟩
    · left; rw [h]; rfl
    · right; rw [h, enc_cons, encodeRune_nl]; rfl

/-! ### TrimLeftFunc -/

theorem find_runeTriples (f : Nat → Bool) (off : Nat) (rs : List Nat) :
    (runeTriples off rs).find? (fun x => f x.2.1 == false) =
      match rs.dropWhile f with
      | [] => none
      | r :: _ => some (off + (enc (rs.takeWhile f)).length, r, (encodeRune r).length) := by
  induction rs generalizing off with
  | nil => simp [runeTriples]
  | cons r rs ih =>
    by_cases hf : f r = true
    · simp only [runeTriples, List.find?_cons, hf, List.dropWhile_cons, List.takeWhile_cons, if_true]
      rw [show ((true == false) = false) from rfl, ih]
      cases rs.dropWhile f with
      | nil => rfl
      | cons x t => simp only [enc_cons, List.length_append]; rw [Nat.add_assoc]
    · have hf' : f r = false := by simpa using hf
      simp [runeTriples, List.find?_cons, hf', List.dropWhile_cons, List.takeWhile_cons]

theorem trimLeftFunc_enc (f : Nat → Bool) (rs : List Nat) (hv : VR rs) :
    trimLeftFunc f (enc rs) = .ok (enc (rs.dropWhile f)) := by
  unfold trimLeftFunc indexFunc
  rw [runes_enc rs hv, find_runeTriples]
  have hsplit : enc (rs.takeWhile f) ++ enc (rs.dropWhile f) = enc rs := by
    rw [← enc_append, List.takeWhile_append_dropWhile]
  cases hd : rs.dropWhile f with
  | nil => simp
  | cons x t =>
    simp only
    rw [if_neg (by omega)]
    rw [hd] at hsplit
    rw [← hsplit, Nat.zero_add]
    exact slice_suffix _ _

/-! ### TrimRightFunc -/

/-- drop the longest suffix whose runes satisfy `f` -/
def dropEndWhile (f : Nat → Bool) (L : List Nat) : List Nat := (L.reverse.dropWhile f).reverse
/-- the longest suffix whose runes satisfy `f` -/
def takeEndWhile (f : Nat → Bool) (L : List Nat) : List Nat := (L.reverse.takeWhile f).reverse

theorem dropEndWhile_append_takeEndWhile (f : Nat → Bool) (L : List Nat) :
    dropEndWhile f L ++ takeEndWhile f L = L := by
  unfold dropEndWhile takeEndWhile
  rw [← List.reverse_append, List.takeWhile_append_dropWhile, List.reverse_reverse]

theorem lastIndexFunc_enc (f : Nat → Bool) (M : List Nat) (hv : VR M) (T : Bytes) (fuel : Nat)
    (hf : (enc M.reverse).length ≤ fuel) :
    lastIndexFunc f false (enc M.reverse ++ T) fuel (enc M.reverse).length =
      .ok (match M.dropWhile f with
           | [] => -1
           | _ :: K => ((enc K.reverse).length : Int)) := by
  induction M generalizing T fuel with
  | nil => cases fuel <;> simp [lastIndexFunc]
  | cons r M ih =>
    obtain ⟨hr, hM⟩ := hv.cons
    have hl := encodeRune_len r
    simp only [List.reverse_cons, enc_append, enc_singleton, List.length_append] at hf ⊢
    cases fuel with
    | zero => omega
    | succ fuel =>
      rw [lastIndexFunc, if_neg (by omega)]
      have htake : List.take ((enc M.reverse).length + (encodeRune r).length)
          (enc M.reverse ++ encodeRune r ++ T) = enc M.reverse ++ encodeRune r := by
        rw [← List.length_append]; exact List.take_left' rfl
      simp only [htake, decodeLastRune_append_encodeRune _ r hr, Nat.add_sub_cancel]
      by_cases hfr : f r = true
      · simp only [hfr, List.dropWhile_cons, if_true]
        rw [show ((true == false) = false) from rfl]
        simp only [Bool.false_eq_true, if_false]
        rw [List.append_assoc]
        exact ih hM _ fuel (by omega)
      · have hfr' : f r = false := by simpa using hfr
        simp [hfr', List.dropWhile_cons]

theorem trimRightFunc_enc (f : Nat → Bool) (L : List Nat) (hv : VR L) :
    trimRightFunc f (enc L) = .ok (enc (dropEndWhile f L)) := by
  have hvr : VR L.reverse := hv.sublist (by simp)
  have h := lastIndexFunc_enc f L.reverse hvr [] (enc L).length (by simp)
  simp only [List.reverse_reverse, List.append_nil] at h
  unfold trimRightFunc
  rw [h]
  have hsplit := dropEndWhile_append_takeEndWhile f L
  generalize takeEndWhile f L = Tk at hsplit
  unfold dropEndWhile at hsplit ⊢
  cases hd : L.reverse.dropWhile f with
  | nil => simp [slice]
  | cons r K =>
    rw [hd] at hsplit
    simp only [List.reverse_cons] at hsplit ⊢
    have hvr' : VR (r :: K) := by
      rw [← hd]; exact hvr.sublist (fun x hx => (List.dropWhile_sublist f).subset hx)
    obtain ⟨hr, hK⟩ := hvr'.cons
    have henc : enc L = enc K.reverse ++ (encodeRune r ++ enc Tk) := by
      rw [← hsplit]; simp
    obtain ⟨b0, tl, hc, hcase⟩ := (encodeRune_isEnc r hr).head
    have hidx : index (enc L) ((enc K.reverse).length : Int) = .ok b0 := by
      unfold index
      rw [if_pos (by omega), henc, hc]
      simp
    have hdrop : (enc L).drop (enc K.reverse).length = encodeRune r ++ enc Tk := by
      rw [henc]; exact List.drop_left' rfl
    have hfin : slice (enc L) 0 (((enc K.reverse).length + (encodeRune r).length : Nat) : Int) =
        .ok (enc (K.reverse ++ [r])) := by
      rw [henc, ← List.append_assoc, ← List.length_append, enc_append, enc_singleton]
      exact slice_prefix _ _
    simp only [ok_bind]
    rw [if_pos (by omega)]
    simp only [hidx, ok_bind]
    rcases hcase with ⟨hlt, htl⟩ | hge
    · rw [if_neg (by omega)]
      simp only [pure_eq_ok, ok_bind]
      have : (encodeRune r).length = 1 := by rw [hc, htl]; rfl
      rw [this] at hfin
      exact hfin
    · rw [if_pos hge, Int.toNat_natCast, hdrop, decodeRune_encodeRune_append r hr]
      simp only [pure_eq_ok, ok_bind]
      rw [← Int.natCast_add]
      exact hfin

theorem trimFunc_enc (f : Nat → Bool) (rs : List Nat) (hv : VR rs) :
    trimFunc f (enc rs) = .ok (enc (dropEndWhile f (rs.dropWhile f))) := by
  unfold trimFunc
  rw [trimLeftFunc_enc f rs hv]
  simp only [ok_bind]
  exact trimRightFunc_enc f _ (hv.sublist (fun x hx => (List.dropWhile_sublist f).subset hx))

/-! ### wcwidth.Of / Trim -/

def widthSum (E : Env) (rs : List Nat) : Nat := (rs.map E.width).sum

theorem foldl_runeTriples (E : Env) (a off : Nat) (rs : List Nat) :
    (runeTriples off rs).foldl (fun w x => w + E.width x.2.1) a = a + widthSum E rs := by
  induction rs generalizing a off with
  | nil => simp [runeTriples, widthSum]
  | cons r rs ih => simp only [runeTriples, List.foldl_cons, ih, widthSum, List.map_cons, List.sum_cons]; omega

theorem wcOf_enc (E : Env) (rs : List Nat) (hv : VR rs) : wcOf E (enc rs) = widthSum E rs := by
  unfold wcOf
  rw [runes_enc rs hv, foldl_runeTriples]; omega

/-- the longest prefix whose accumulated width (starting from `w`) stays `≤ wmax` -/
def trimRunes (E : Env) (wmax : Nat) : Nat → List Nat → List Nat
  | _, [] => []
  | w, r :: rs => if w + E.width r > wmax then [] else r :: trimRunes E wmax (w + E.width r) rs

theorem trimRunes_prefix (E : Env) (wmax w : Nat) (rs : List Nat) :
    ∃ rest, rs = trimRunes E wmax w rs ++ rest := by
  induction rs generalizing w with
  | nil => exact ⟨[], rfl⟩
  | cons r rs ih =>
    unfold trimRunes
    split
    · exact ⟨r :: rs, rfl⟩
    · obtain ⟨rest, h⟩ := ih (w + E.width r)
      exact ⟨rest, by rw [List.cons_append, ← h]⟩

theorem trimRunes_width (E : Env) (wmax w : Nat) (rs : List Nat) (hw : w ≤ wmax) :
    w + widthSum E (trimRunes E wmax w rs) ≤ wmax := by
  induction rs generalizing w with
  | nil => simpa [trimRunes, widthSum] using hw
  | cons r rs ih =>
    unfold trimRunes
    split
    · simpa [widthSum] using hw
    · have := ih (w + E.width r) (by omega)
      simp only [widthSum, List.map_cons, List.sum_cons] at this ⊢; omega

theorem trimLoop_runeTriples (E : Env) (wmax w off : Nat) (rs : List Nat) :
    trimLoop E wmax w (runeTriples off rs) =
      if trimRunes E wmax w rs = rs then none
      else some (off + (enc (trimRunes E wmax w rs)).length) := by
  induction rs generalizing w off with
  | nil => simp [runeTriples, trimLoop, trimRunes]
  | cons r rs ih =>
    simp only [runeTriples, trimLoop, trimRunes]
    by_cases h : w + E.width r > wmax
    · simp [h]
    · simp only [h, if_false, ih, List.cons.injEq, true_and, enc_cons, List.length_append]
      split
      · rfl
      · rw [Nat.add_assoc]

theorem wcTrim_enc (E : Env) (rs : List Nat) (hv : VR rs) (wmax : Nat) :
    wcTrim E (enc rs) wmax = .ok (enc (trimRunes E wmax 0 rs)) := by
  unfold wcTrim
  rw [runes_enc rs hv, trimLoop_runeTriples]
  by_cases h : trimRunes E wmax 0 rs = rs
  · simp only [h, if_true]
  · simp only [h, if_false, Nat.zero_add]
    obtain ⟨rest, h'⟩ := trimRunes_prefix E wmax 0 rs
    have e : enc rs = enc (trimRunes E wmax 0 rs) ++ enc rest := by rw [← enc_append, ← h']
    rw [e]
    exact slice_prefix _ _

end C28
