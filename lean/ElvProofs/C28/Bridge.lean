/-
C28 helper lemmas: `Boundary` coincides with Go's usual test
`dot == len(s) || utf8.RuneStart(s[dot])` on valid UTF-8.
-/
import ElvProofs.C28.Suffix
namespace C28
open Go

theorem split_of_runeStart (T : List Nat) (hT : VR T) (d : Nat) (hd : d ≤ (enc T).length)
    (h : d = (enc T).length ∨ ∃ b, (enc T)[d]? = some b ∧ runeStart b = true) :
    ∃ P S, T = P ++ S ∧ d = (enc P).length := by
  induction T generalizing d with
  | nil => simp at hd; subst hd; exact ⟨[], [], rfl, rfl⟩
  | cons r T ih =>
    obtain ⟨hr, hT'⟩ := hT.cons
    obtain ⟨b0, tl, hc, hs, hcont⟩ := (encodeRune_isEnc r hr).starts
    by_cases h0 : d = 0
    · subst h0; exact ⟨[], r :: T, rfl, rfl⟩
    by_cases hlt : d < (encodeRune r).length
    · exfalso
      rcases h with h | ⟨b, hb, hbs⟩
      · rw [enc_cons, List.length_append] at h; omega
      · rw [enc_cons, List.getElem?_append_left hlt, hc] at hb
        have : (b0 :: tl)[d]? = tl[d - 1]? := by
          cases d with
          | zero => exact absurd rfl h0
          | succ n => simp
        rw [this] at hb
        have := hcont b (List.mem_of_getElem? hb)
        rw [hbs] at this; cases this
    · have hge : (encodeRune r).length ≤ d := by omega
      rw [enc_cons, List.length_append] at hd
      obtain ⟨P, S, hPS, hdP⟩ := ih hT' (d - (encodeRune r).length) (by omega) (by
        rcases h with h | ⟨b, hb, hbs⟩
        · left; rw [enc_cons, List.length_append] at h; omega
        · right; rw [enc_cons, List.getElem?_append_right hge] at hb; exact ⟨b, hb, hbs⟩)
      refine ⟨r :: P, S, by rw [hPS]; rfl, ?_⟩
      rw [enc_cons, List.length_append]; omega

/-- `Boundary` is Go's `0 ≤ dot ≤ len(s) && (dot == len(s) || utf8.RuneStart(s[dot]))` on valid UTF-8. -/
theorem boundary_iff_runeStart (buf : Bytes) (dot : Int) :
    Boundary buf dot ↔
      validUtf8 buf = true ∧ 0 ≤ dot ∧ dot ≤ buf.length ∧
        (dot = buf.length ∨ ∃ b, buf[dot.toNat]? = some b ∧ runeStart b = true) := by
  constructor
  · intro h
    refine ⟨h.valid, h.1, h.2.1, ?_⟩
    obtain ⟨L, R, hL, hR, rfl, rfl⟩ := h.zipper
    cases hR' : enc R with
    | nil => left; simp
    | cons b t =>
      right
      refine ⟨b, ?_, enc_head_runeStart R hR b t hR'⟩
      rw [Int.toNat_natCast, List.getElem?_append_right (Nat.le_refl _), Nat.sub_self]; rfl
  · rintro ⟨hv, h0, h1, h2⟩
    obtain ⟨T, hT, rfl⟩ := valid_exists_runes buf hv
    obtain ⟨P, S, hPS, hd⟩ := split_of_runeStart T hT dot.toNat (by omega) (by
      rcases h2 with h2 | h2
      · left; omega
      · right; exact h2)
    have hv' : VR (P ++ S) := by rw [← hPS]; exact hT
    have := boundary_zipper P S hv'.left hv'.right
    rw [← enc_append, ← hPS] at this
    have hdot : dot = ((enc P).length : Int) := by omega
    rw [hdot]; exact this

end C28
