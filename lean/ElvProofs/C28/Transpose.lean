/-
C28 helper lemmas: the transformers on a zipper — each output is the input
with two adjacent blocks of whole runes swapped.
-/
import ElvProofs.C28.MoverSpec
namespace C28
open Go

theorem blen_nil : blen [] = 0 := rfl

theorem blen_eq_zero {L : List Nat} (h : blen L = 0) : L = [] :=
  enc_length_eq_zero (by unfold blen at h; omega)

theorem blen_append (a b : List Nat) : blen (a ++ b) = blen a + blen b := by
  simp only [blen, enc_append, List.length_append, Int.natCast_add]

theorem blen_pos (r : Nat) (rs : List Nat) : 0 < blen (r :: rs) := by
  have := (encodeRune_len r).1
  simp only [blen, enc_cons, List.length_append]; omega

/-- `slice` of the middle of a three-part concatenation, indices up to arithmetic -/
theorem slice_app {α} (a b c : List α) (i j : Int) (hi : i = a.length) (hj : j = a.length + b.length) :
    slice (a ++ (b ++ c)) i j = .ok b := by
  subst hi; subst hj
  have := slice_mid a b c
  simp only [List.append_assoc, Int.natCast_add] at this
  exact this

theorem slice_app_pre {α} (a b : List α) (j : Int) (hj : j = a.length) :
    slice (a ++ b) 0 j = .ok a := by
  subst hj; exact slice_prefix a b

theorem slice_app_suf {α} (a b : List α) (i j : Int) (hi : i = a.length) (hj : j = a.length + b.length) :
    slice (a ++ b) i j = .ok b := by
  have := slice_app a b [] i j hi hj
  simpa using this

/-! ### transposeRunes, byte level -/

theorem tr_start (c1 c2 eZ : Bytes) (r1 r2 : Nat)
    (hd1 : decodeRune (c1 ++ (c2 ++ eZ)) = (r1, c1.length)) (hd2 : decodeRune (c2 ++ eZ) = (r2, c2.length))
    (he1 : encodeRune r1 = c1) (he2 : encodeRune r2 = c2) (h1 : c1 ≠ []) (h2 : c2 ≠ []) :
    transposeRunes (c1 ++ (c2 ++ eZ)) 0 = .ok (c2 ++ (c1 ++ eZ), ((c2.length + c1.length : Nat) : Int)) := by
  have l1 : 0 < c1.length := List.length_pos_iff.mpr h1
  have l2 : 0 < c2.length := List.length_pos_iff.mpr h2
  unfold transposeRunes
  rw [if_neg (by simp only [List.length_append]; omega)]
  simp only [if_true, hd1]
  rw [if_neg (by simp only [List.length_append]; omega)]
  rw [slice_app_suf c1 (c2 ++ eZ) _ _ rfl (by simp only [List.length_append, Int.natCast_add])]
  simp only [ok_bind, hd2]
  rw [← List.append_assoc c1 c2 eZ]
  rw [slice_app_suf (c1 ++ c2) eZ _ _ (by simp only [List.length_append, Int.natCast_add])
    (by simp only [List.length_append, Int.natCast_add])]
  simp only [ok_bind, pure_eq_ok, he1, he2, List.append_assoc]
  congr 2
  simp only [Int.natCast_add]; omega

theorem tr_end (eA c1 c2 : Bytes) (r1 r2 : Nat)
    (hd2 : decodeLastRune (eA ++ (c1 ++ c2)) = (r2, c2.length)) (hd1 : decodeLastRune (eA ++ c1) = (r1, c1.length))
    (he1 : encodeRune r1 = c1) (he2 : encodeRune r2 = c2) (h1 : c1 ≠ []) (h2 : c2 ≠ []) :
    transposeRunes (eA ++ (c1 ++ c2)) ((eA ++ (c1 ++ c2)).length : Int) =
      .ok (eA ++ (c2 ++ c1), ((eA ++ (c2 ++ c1)).length : Int)) := by
  have l1 : 0 < c1.length := List.length_pos_iff.mpr h1
  have l2 : 0 < c2.length := List.length_pos_iff.mpr h2
  unfold transposeRunes
  rw [if_neg (by simp only [List.length_append]; omega)]
  rw [if_neg (by simp only [List.length_append]; omega)]
  simp only [if_true, hd2]
  rw [if_neg (by simp only [List.length_append]; omega)]
  rw [← List.append_assoc eA c1 c2]
  rw [slice_app_pre (eA ++ c1) c2 _ (by simp only [List.length_append, Int.natCast_add]; omega)]
  simp only [ok_bind, hd1]
  rw [List.append_assoc eA c1 c2]
  rw [slice_app_pre eA (c1 ++ c2) _ (by simp only [List.length_append, Int.natCast_add]; omega)]
  simp only [ok_bind, pure_eq_ok, he1, he2, List.append_assoc]

theorem tr_mid (eA c1 c2 eZ : Bytes) (r1 r2 : Nat)
    (hd1 : decodeLastRune (eA ++ c1) = (r1, c1.length)) (hd2 : decodeRune (c2 ++ eZ) = (r2, c2.length))
    (he1 : encodeRune r1 = c1) (he2 : encodeRune r2 = c2) (h1 : c1 ≠ []) (h2 : c2 ≠ []) :
    transposeRunes (eA ++ (c1 ++ (c2 ++ eZ))) ((eA ++ c1).length : Int) =
      .ok (eA ++ (c2 ++ (c1 ++ eZ)), ((eA ++ (c2 ++ c1)).length : Int)) := by
  have l1 : 0 < c1.length := List.length_pos_iff.mpr h1
  have l2 : 0 < c2.length := List.length_pos_iff.mpr h2
  unfold transposeRunes
  rw [if_neg (by simp only [List.length_append]; omega)]
  rw [if_neg (by simp only [List.length_append, Int.natCast_add]; omega)]
  rw [if_neg (by simp only [List.length_append, Int.natCast_add]; omega)]
  rw [← List.append_assoc eA c1 (c2 ++ eZ)]
  rw [slice_app_pre (eA ++ c1) (c2 ++ eZ) _ rfl]
  rw [slice_app_suf (eA ++ c1) (c2 ++ eZ) _ _ rfl (by simp only [List.length_append, Int.natCast_add])]
  simp only [ok_bind, hd1, hd2]
  rw [List.append_assoc eA c1 (c2 ++ eZ)]
  rw [slice_app_pre eA (c1 ++ (c2 ++ eZ)) _ (by simp only [List.length_append, Int.natCast_add]; omega)]
  simp only [ok_bind]
  rw [← List.append_assoc c1 c2 eZ, ← List.append_assoc eA (c1 ++ c2) eZ]
  rw [slice_app_suf (eA ++ (c1 ++ c2)) eZ _ _ (by simp only [List.length_append, Int.natCast_add]; omega)
    (by simp only [List.length_append, Int.natCast_add])]
  simp only [ok_bind, pure_eq_ok, he1, he2, List.append_assoc]
  congr 2
  simp only [List.length_append, Int.natCast_add]; omega

theorem tr_single_start (c1 : Bytes) (r1 : Nat) (hd1 : decodeRune c1 = (r1, c1.length)) (h1 : c1 ≠ []) :
    transposeRunes c1 0 = .ok (c1, 0) := by
  have l1 : 0 < c1.length := List.length_pos_iff.mpr h1
  unfold transposeRunes
  rw [if_neg (by omega)]
  simp [hd1]

theorem tr_single_end (c1 : Bytes) (r1 : Nat) (hd1 : decodeLastRune c1 = (r1, c1.length)) (h1 : c1 ≠ []) :
    transposeRunes c1 (c1.length : Int) = .ok (c1, (c1.length : Int)) := by
  have l1 : 0 < c1.length := List.length_pos_iff.mpr h1
  unfold transposeRunes
  rw [if_neg (by omega), if_neg (by omega)]
  simp [hd1]

theorem tr_empty (d : Int) : transposeRunes [] d = .ok ([], d) := by
  simp [transposeRunes]

/-! ### transposeRunes on a zipper -/

theorem transposeRunes_zip (L R : List Nat) (hL : VR L) (hR : VR R) :
    ∃ a l r z : List Nat, L ++ R = a ++ l ++ r ++ z ∧ l.length ≤ 1 ∧ r.length ≤ 1 ∧
      transposeRunes (enc (L ++ R)) (blen L) = .ok (enc (a ++ r ++ l ++ z), blen (a ++ r ++ l)) := by
  rcases List.eq_nil_or_concat L with rfl | ⟨A1, r1, rfl⟩
  · -- dot = 0
    cases R with
    | nil => exact ⟨[], [], [], [], rfl, by simp, by simp, by simpa [blen] using tr_empty 0⟩
    | cons r1 R1 =>
      have hr1 := hR.cons.1
      cases R1 with
      | nil =>
        refine ⟨[], [], [], [r1], rfl, by simp, by simp, ?_⟩
        have := tr_single_start (encodeRune r1) r1
          (by simpa using decodeRune_encodeRune_append r1 hr1 []) (encodeRune_ne_nil r1)
        simpa [blen] using this
      | cons r2 Z =>
        have hr2 := hR.cons.2.cons.1
        refine ⟨[], [r1], [r2], Z, rfl, by simp, by simp, ?_⟩
        have := tr_start (encodeRune r1) (encodeRune r2) (enc Z) r1 r2
          (decodeRune_encodeRune_append r1 hr1 _) (decodeRune_encodeRune_append r2 hr2 _) rfl rfl
          (encodeRune_ne_nil r1) (encodeRune_ne_nil r2)
        simpa [blen] using this
  · have hv1 : validRune r1 = true := hL r1 (by simp)
    cases R with
    | nil =>
      rcases List.eq_nil_or_concat A1 with rfl | ⟨A0, r0, rfl⟩
      · refine ⟨[r1], [], [], [], by simp, by simp, by simp, ?_⟩
        have := tr_single_end (encodeRune r1) r1
          (by simpa using decodeLastRune_append_encodeRune [] r1 hv1) (encodeRune_ne_nil r1)
        simpa [blen] using this
      · have hv0 : validRune r0 = true := hL r0 (by simp)
        refine ⟨A0, [r0], [r1], [], by simp, by simp, by simp, ?_⟩
        have := tr_end (enc A0) (encodeRune r0) (encodeRune r1) r0 r1
          (by rw [← List.append_assoc]; exact decodeLastRune_append_encodeRune _ r1 hv1)
          (decodeLastRune_append_encodeRune _ r0 hv0) rfl rfl (encodeRune_ne_nil r0) (encodeRune_ne_nil r1)
        simpa [blen] using this
    | cons r2 Z =>
      have hv2 := hR.cons.1
      refine ⟨A1, [r1], [r2], Z, by simp, by simp, by simp, ?_⟩
      have := tr_mid (enc A1) (encodeRune r1) (encodeRune r2) (enc Z) r1 r2
        (decodeLastRune_append_encodeRune _ r1 hv1) (decodeRune_encodeRune_append r2 hv2 _) rfl rfl
        (encodeRune_ne_nil r1) (encodeRune_ne_nil r2)
      simpa [blen] using this

end C28
