/-
C28 helper lemmas: key / paste / command events on the code area preserve the
invariant and edit exactly.
-/
import ElvProofs.C28.Suffix
import ElvProofs.C28.TransformSpec
namespace C28
open Go

theorem boundary_concat (a b : Bytes) (ha : validUtf8 a = true) (hb : validUtf8 b = true) :
    Boundary (a ++ b) (a.length : Int) := by
  refine ⟨by omega, by simp only [List.length_append]; omega, ?_, ?_⟩
  · rw [Int.toNat_natCast, List.take_left' rfl]; exact ha
  · rw [Int.toNat_natCast, List.drop_left' rfl]; exact hb

theorem Boundary.slices {buf : Bytes} {dot : Int} (h : Boundary buf dot) :
    slice buf 0 dot = .ok (buf.take dot.toNat) ∧ slice buf dot buf.length = .ok (buf.drop dot.toNat) := by
  obtain ⟨h0, h1, _, _⟩ := h
  have e : dot = (dot.toNat : Int) := (Int.toNat_of_nonneg h0).symm
  constructor
  · have := slice_ok buf 0 dot.toNat (by omega) (by omega)
    rw [← e] at this; simpa using this
  · have := slice_ok buf dot.toNat buf.length (by omega) (by omega)
    rw [← e] at this; rw [this]; congr 1
    exact List.take_of_length_le (by simp)

/-- `InsertAtDot` inserts exactly `text` at the dot -/
theorem insertAtDot_spec (c : CodeBuffer) (text : Bytes) (h : Boundary c.content c.dot)
    (ht : validUtf8 text = true) :
    insertAtDot c text = .ok ⟨c.content.take c.dot.toNat ++ text ++ c.content.drop c.dot.toNat,
      c.dot + (text.length : Int)⟩ ∧
    Boundary (c.content.take c.dot.toNat ++ text ++ c.content.drop c.dot.toNat) (c.dot + (text.length : Int)) := by
  obtain ⟨s1, s2⟩ := h.slices
  constructor
  · unfold insertAtDot; rw [s1, s2]; rfl
  · obtain ⟨h0, h1, v1, v2⟩ := h
    have := boundary_concat (c.content.take c.dot.toNat ++ text) (c.content.drop c.dot.toNat)
      (validUtf8_append v1 ht) v2
    rw [List.length_append, List.length_take, Nat.min_eq_left (by omega), Int.natCast_add,
      Int.toNat_of_nonneg h0] at this
    exact this

theorem inv_reset {s : State} (h : Inv s) : Inv (resetInserts s) :=
  ⟨h.bnd, ⟨[], by simp [resetInserts]⟩, h.paste⟩

/-! ### paste -/

theorem handlePasteSetting_spec (S : Spec) (hS : SpecOK S) (s : State) (h : Inv s) (start : Bool) :
    ∃ s', handlePasteSetting S s start = .ok s' ∧ Inv s' ∧
      (start = true → s'.buffer = s.buffer ∧ s'.pasting = true ∧ s'.pasteBuffer = s.pasteBuffer) ∧
      (start = false →
        let text := if S.quotePaste then S.quote s.pasteBuffer else s.pasteBuffer
        s'.buffer = ⟨s.buffer.content.take s.buffer.dot.toNat ++ text ++ s.buffer.content.drop s.buffer.dot.toNat,
          s.buffer.dot + (text.length : Int)⟩ ∧ s'.pasting = false ∧ s'.pasteBuffer = []) := by
  unfold handlePasteSetting
  cases start with
  | true =>
    refine ⟨{ resetInserts s with pasting := true }, by simp, ?_, by simp [resetInserts], by simp⟩
    exact ⟨h.bnd, ⟨[], by simp [resetInserts]⟩, h.paste⟩
  | false =>
    have htext : validUtf8 (if S.quotePaste then S.quote s.pasteBuffer else s.pasteBuffer) = true := by
      split
      · exact hS.quote _ h.paste
      · exact h.paste
    obtain ⟨e1, e2⟩ := insertAtDot_spec s.buffer _ h.bnd htext
    simp only [Bool.false_eq_true, if_false, ok_bind, resetInserts]
    rw [e1]
    refine ⟨_, rfl, ⟨e2, ⟨[], by simp⟩, rfl⟩, by simp, ?_⟩
    intro _; exact ⟨rfl, rfl, rfl⟩

/-! ### builtin commands through MutateState -/

theorem Cmd.boundary (E : Env) (c : Cmd) (buf : Bytes) (dot : Int) (h : Boundary buf dot) :
    ∃ buf' dot', c.fn E buf dot = .ok (buf', dot') ∧ Boundary buf' dot' := by
  cases c with
  | move m =>
    obtain ⟨d', h1, h2⟩ := m.boundary E buf dot h
    exact ⟨buf, d', by simp [Cmd.fn, makeMove, h1], h2⟩
  | kill m =>
    obtain ⟨d', h1, h2⟩ := m.boundary E buf dot h
    refine ⟨_, _, makeKill_spec _ buf dot d' h1 h.1 h.2.1 h2.1 h2.2.1, ?_⟩
    by_cases hle : dot ≤ d'
    · rw [Int.min_eq_left hle, Int.max_eq_right hle]; exact boundary_cut buf dot d' h h2 hle
    · have hle' : d' ≤ dot := by omega
      rw [Int.min_eq_right hle', Int.max_eq_left hle']; exact boundary_cut buf d' dot h2 h hle'
  | transform t =>
    obtain ⟨a, l, m, r, z, h1, va, vl, vm, vr, vz, h2⟩ := t.swap E buf dot h
    refine ⟨_, _, h2, ?_⟩
    have := boundary_concat (a ++ r ++ m ++ l) z
      (validUtf8_append (validUtf8_append (validUtf8_append va vr) vm) vl) vz
    exact this

/-! ### abbreviation expansion -/

theorem hasSuffix_split (s a : Bytes) (h : hasSuffix s a = true) : ∃ q, s = q ++ a := by
  unfold hasSuffix at h
  simp only [Bool.and_eq_true, decide_eq_true_eq, beq_iff_eq] at h
  exact ⟨s.take (s.length - a.length), by
    have := List.take_append_drop (s.length - a.length) s
    rw [h.2] at this; exact this.symm⟩

/-- state between the insertion of `str` and the end of `handleKeyEvent` -/
structure Mid (s : State) (str : Bytes) : Prop where
  bnd : Boundary s.buffer.content s.buffer.dot
  ins : ∃ p, s.buffer.content.take s.buffer.dot.toNat = p ++ s.inserts
  ends : s.inserts = [] ∨ ∃ q, s.inserts = q ++ str
  last : s.last = s.buffer ∨ (s.inserts = [] ∧ s.last = ⟨[], 0⟩)
  paste : validUtf8 s.pasteBuffer = true

theorem Mid.inv {s : State} {str : Bytes} (h : Mid s str) : Inv s := by
  refine ⟨h.bnd, ?_, h.paste⟩
  rcases h.last with hl | ⟨hi, hl⟩
  · rw [hl]; exact h.ins
  · rw [hi, hl]; exact ⟨[], by simp⟩

theorem mid_reset {s : State} {str : Bytes} (buf : CodeBuffer) (hb : Boundary buf.content buf.dot)
    (hp : validUtf8 s.pasteBuffer = true) :
    Mid (resetInserts { s with buffer := buf }) str :=
  ⟨hb, ⟨buf.content.take buf.dot.toNat, by simp [resetInserts]⟩, Or.inl rfl, Or.inr ⟨rfl, rfl⟩, hp⟩

theorem longestSimple_spec (inserts : Bytes) (l : List (Bytes × Bytes)) (acc : Bytes × Bytes) :
    longestSimple inserts l acc = acc ∨
      (longestSimple inserts l acc ∈ l ∧ hasSuffix inserts (longestSimple inserts l acc).1 = true) := by
  induction l generalizing acc with
  | nil => left; rfl
  | cons p l ih =>
    obtain ⟨a, f⟩ := p
    unfold longestSimple
    split
    · rename_i hc
      simp only [Bool.and_eq_true, decide_eq_true_eq] at hc
      rcases ih (a, f) with h | ⟨h1, h2⟩
      · right; rw [h]; exact ⟨by simp, hc.1⟩
      · right; exact ⟨by simp [h1], h2⟩
    · rcases ih acc with h | ⟨h1, h2⟩
      · left; exact h
      · right; exact ⟨by simp [h1], h2⟩

/-- the buffer `x ++ a ++ rest` with the dot after `a`, `a` replaced by `f` -/
theorem boundary_replace (x a f rest : Bytes) (hxa : validUtf8 (x ++ a) = true) (ha : validUtf8 a = true)
    (hf : validUtf8 f = true) (hrest : validUtf8 rest = true) :
    Boundary (x ++ f ++ rest) ((x ++ f).length : Int) :=
  boundary_concat _ _ (validUtf8_append (valid_of_valid_append x a hxa ha) hf) hrest

theorem expandSimpleAbbr_spec (S : Spec) (hS : SpecOK S) (s : State) (str : Bytes) (h : Mid s str) :
    ∃ s', expandSimpleAbbr S s = .ok s' ∧ Mid s' str ∧
      (s' = s ∨ ∃ a f x, (a, f) ∈ S.simple ∧ a ≠ [] ∧ s.buffer.content.take s.buffer.dot.toNat = x ++ a ∧
        s'.buffer = ⟨x ++ f ++ s.buffer.content.drop s.buffer.dot.toNat, ((x ++ f).length : Int)⟩ ∧
        s'.inserts = []) := by
  unfold expandSimpleAbbr
  rcases longestSimple_spec s.inserts S.simple ([], []) with hr | ⟨hmem, hsuf⟩
  · rw [hr]; exact ⟨s, by simp, h, Or.inl rfl⟩
  · generalize longestSimple s.inserts S.simple ([], []) = res at hmem hsuf
    obtain ⟨a, f⟩ := res
    simp only
    by_cases hlen : a.length > 0
    · simp only [hlen, if_true]
      obtain ⟨q, hq⟩ := hasSuffix_split _ _ hsuf
      obtain ⟨p, hp⟩ := h.ins
      obtain ⟨h0, h1, v1, v2⟩ := h.bnd
      have hsplit : s.buffer.content.take s.buffer.dot.toNat = (p ++ q) ++ a := by
        rw [hp, hq]; simp
      have hdotlen : s.buffer.dot.toNat = (p ++ q).length + a.length := by
        have := congrArg List.length hsplit
        rw [List.length_take, List.length_append] at this; omega
      have hcontent : s.buffer.content = (p ++ q) ++ (a ++ s.buffer.content.drop s.buffer.dot.toNat) := by
        rw [← List.append_assoc, ← hsplit, List.take_append_drop]
      have s1 : slice s.buffer.content 0 (s.buffer.dot - (a.length : Int)) = .ok (p ++ q) := by
        conv => lhs; rw [hcontent]
        exact slice_app_pre _ _ _ (by omega)
      have s2 := h.bnd.slices.2
      rw [s1, s2]
      simp only [ok_bind, pure_eq_ok]
      obtain ⟨va, vf⟩ := hS.simple (a, f) hmem
      have hb := boundary_replace (p ++ q) a f _ (by rw [← hsplit]; exact v1) va vf v2
      have hd : s.buffer.dot - (a.length : Int) + (f.length : Int) = ((p ++ q ++ f).length : Int) := by
        rw [List.length_append]; omega
      rw [hd]
      refine ⟨_, rfl, mid_reset ⟨_, _⟩ hb h.paste, Or.inr ⟨a, f, p ++ q, hmem, ?_, hsplit, rfl, rfl⟩⟩
      intro e; rw [e] at hlen; simp at hlen
    · simp only [hlen, if_false]; exact ⟨s, by simp, h, Or.inl rfl⟩

theorem longestSmallWord_spec (cat : Categorizer) (content inserts : Bytes) (trigger tl : Nat)
    (l : List (Bytes × Bytes)) (acc : Bytes × Bytes) :
    ∃ res, longestSmallWord cat content inserts trigger tl l acc = .ok res ∧
      (res = acc ∨ (res ∈ l ∧ hasSuffix inserts res.1 = true)) := by
  induction l generalizing acc with
  | nil => exact ⟨acc, rfl, Or.inl rfl⟩
  | cons p l ih =>
    obtain ⟨a, f⟩ := p
    have keep : ∃ res, longestSmallWord cat content inserts trigger tl l acc = .ok res ∧
        (res = acc ∨ (res ∈ (a, f) :: l ∧ hasSuffix inserts res.1 = true)) := by
      obtain ⟨res, h1, h2⟩ := ih acc
      refine ⟨res, h1, ?_⟩
      rcases h2 with h2 | ⟨h2, h3⟩
      · left; exact h2
      · right; exact ⟨by simp [h2], h3⟩
    have take (hsuf : hasSuffix inserts a = true) :
        ∃ res, longestSmallWord cat content inserts trigger tl l (a, f) = .ok res ∧
        (res = acc ∨ (res ∈ (a, f) :: l ∧ hasSuffix inserts res.1 = true)) := by
      obtain ⟨res, h1, h2⟩ := ih (a, f)
      refine ⟨res, h1, Or.inr ?_⟩
      rcases h2 with h2 | ⟨h2, h3⟩
      · rw [h2]; exact ⟨by simp, hsuf⟩
      · exact ⟨by simp [h2], h3⟩
    unfold longestSmallWord
    split
    · exact keep
    · split
      · exact keep
      · rename_i _ hsuf
        have hsuf' : hasSuffix inserts a = true := by simpa using hsuf
        split
        · exact keep
        · split
          · rename_i hgt
            have : slice content 0 ((content.length : Int) - (a.length : Int) - (tl : Int)) =
                .ok (content.take (content.length - a.length - tl)) := by
              have := slice_ok content 0 (content.length - a.length - tl) (by omega) (by omega)
              rw [show ((content.length - a.length - tl : Nat) : Int) =
                (content.length : Int) - (a.length : Int) - (tl : Int) by omega] at this
              simpa using this
            rw [this]
            simp only [ok_bind]
            split
            · exact keep
            · exact take hsuf'
          · exact take hsuf'

theorem expandSmallWordAbbr_spec (S : Spec) (hS : SpecOK S) (s : State) (trigger : Nat) (cat : Categorizer)
    (h : Mid s (encodeRune trigger)) :
    ∃ s', expandSmallWordAbbr S s trigger cat = .ok s' ∧ Mid s' (encodeRune trigger) ∧
      (s' = s ∨ ∃ a f x, (a, f) ∈ S.smallWord ∧ a ≠ [] ∧
        s.buffer.dot = s.buffer.content.length ∧
        s.buffer.content = x ++ a ++ encodeRune trigger ∧
        s'.buffer = ⟨x ++ f ++ encodeRune trigger, ((x ++ f ++ encodeRune trigger).length : Int)⟩ ∧
        s'.inserts = []) := by
  unfold expandSmallWordAbbr
  simp only [pure_eq_ok]
  by_cases hdot : s.buffer.dot < s.buffer.content.length
  · simp only [hdot, if_true]; exact ⟨s, rfl, h, Or.inl rfl⟩
  simp only [hdot, if_false]
  by_cases htl : (encodeRune trigger).length ≥ s.inserts.length
  · simp only [htl, if_true]; exact ⟨s, rfl, h, Or.inl rfl⟩
  simp only [htl, if_false]
  obtain ⟨h0, h1, v1, v2⟩ := h.bnd
  have hdoteq : s.buffer.dot = s.buffer.content.length := by omega
  -- inserts ends with the trigger
  obtain ⟨q, hq⟩ : ∃ q, s.inserts = q ++ encodeRune trigger := by
    rcases h.ends with he | he
    · rw [he] at htl; simp at htl
    · exact he
  have sins : slice s.inserts 0 ((s.inserts.length : Int) - ((encodeRune trigger).length : Int)) = .ok q := by
    conv => lhs; rw [hq]
    exact slice_app_pre _ _ _ (by rw [List.length_append]; omega)
  rw [sins]
  simp only [ok_bind]
  obtain ⟨res, hres, hcase⟩ := longestSmallWord_spec cat s.buffer.content q trigger (encodeRune trigger).length
    S.smallWord ([], [])
  rw [hres]
  simp only [ok_bind]
  obtain ⟨a, f⟩ := res
  simp only
  by_cases hlen : a.length > 0
  · simp only [hlen, if_true]
    rcases hcase with hc | ⟨hmem, hsuf⟩
    · injection hc with e1 _; rw [e1] at hlen; simp at hlen
    · obtain ⟨q', hq'⟩ := hasSuffix_split _ _ hsuf
      obtain ⟨p, hp⟩ := h.ins
      have htake : s.buffer.content.take s.buffer.dot.toNat = s.buffer.content := by
        apply List.take_of_length_le; omega
      have hcontent : s.buffer.content = (p ++ q') ++ a ++ encodeRune trigger := by
        rw [← htake, hp, hq, hq']; simp
      have s1 : slice s.buffer.content 0 (s.buffer.dot - (a.length : Int) - ((encodeRune trigger).length : Int)) =
          .ok (p ++ q') := by
        have hl := congrArg List.length hcontent
        simp only [List.length_append] at hl
        conv => lhs; rw [hcontent, List.append_assoc]
        exact slice_app_pre _ _ _ (by rw [List.length_append]; omega)
      rw [s1]
      simp only [ok_bind]
      obtain ⟨va, vf⟩ := hS.smallWord (a, f) hmem
      have vt := validUtf8_encodeRune trigger
      have vall : validUtf8 ((p ++ q') ++ a ++ encodeRune trigger) = true := by
        rw [← hcontent, ← htake]; exact v1
      have vxa : validUtf8 ((p ++ q') ++ a) = true := valid_of_valid_append _ _ vall vt
      have vx : validUtf8 (p ++ q') = true := valid_of_valid_append _ _ vxa va
      have hb : Boundary (p ++ q' ++ f ++ encodeRune trigger) ((p ++ q' ++ f ++ encodeRune trigger).length : Int) := by
        have := boundary_concat (p ++ q' ++ f ++ encodeRune trigger) []
          (validUtf8_append (validUtf8_append vx vf) vt) rfl
        simpa using this
      have hd : s.buffer.dot - (a.length : Int) + (f.length : Int) =
          ((p ++ q' ++ f ++ encodeRune trigger).length : Int) := by
        have hl := congrArg List.length hcontent
        simp only [List.length_append] at hl ⊢
        omega
      rw [hd]
      refine ⟨_, rfl, mid_reset ⟨_, _⟩ hb h.paste, Or.inr ⟨a, f, p ++ q', hmem, ?_, hdoteq, hcontent, rfl, rfl⟩⟩
      intro e; rw [e] at hlen; simp at hlen
  · simp only [hlen, if_false]; exact ⟨s, rfl, h, Or.inl rfl⟩

/-! ### command abbreviations: what `commandRegex` captures -/

theorem runeTriples_append (off : Nat) (A B : List Nat) :
    runeTriples off (A ++ B) = runeTriples off A ++ runeTriples (off + (enc A).length) B := by
  induction A generalizing off with
  | nil => simp [runeTriples]
  | cons r A ih =>
    simp only [List.cons_append, runeTriples, ih, enc_cons, List.length_append, Nat.add_assoc]

theorem sum_sizes_takeWhile_rev (p : Nat → Bool) (M : List Nat) (off : Nat) :
    (((runeTriples off M.reverse).reverse.takeWhile (fun x => p x.2.1)).map (·.2.2)).sum =
      (enc ((M.takeWhile p).reverse)).length := by
  induction M generalizing off with
  | nil => simp [runeTriples]
  | cons r M ih =>
    simp only [List.reverse_cons, runeTriples_append, runeTriples, List.reverse_append, List.reverse_nil,
      List.nil_append, List.singleton_append, List.reverse_cons]
    by_cases hp : p r = true
    · simp only [List.takeWhile_cons, hp, if_true, List.map_cons, List.sum_cons, List.reverse_cons, enc_append,
        enc_singleton, List.length_append, List.append_nil]
      have := ih off
      omega
    · simp [List.takeWhile_cons, hp]

theorem commandMatch_spec (E : Env) (T : List Nat) (hT : VR T) (c w : Bytes)
    (h : commandMatch E (enc T) = some (c, w)) :
    ∃ Pre Cmd wr, T = Pre ++ Cmd ++ [wr] ∧ c = enc Cmd ∧ w = enc [wr] ∧ (enc [wr]).length = 1 := by
  unfold commandMatch at h
  rw [runes_enc T hT] at h
  rcases List.eq_nil_or_concat T with rfl | ⟨T0, wr, rfl⟩
  · simp [runeTriples] at h
  · rw [List.concat_eq_append] at h hT ⊢
    rw [runeTriples_append] at h
    simp only [runeTriples, List.reverse_append, List.reverse_cons, List.reverse_nil, List.nil_append,
      List.singleton_append] at h
    by_cases hsp : reSpace wr = true
    · simp only [hsp, Bool.not_true, Bool.false_eq_true, if_false] at h
      split at h
      · cases h
      · split at h
        · injection h with h; injection h with h1 h2
          -- the whitespace rune is ASCII
          have hwr : wr < 0x80 := by
            unfold reSpace at hsp
            simp only [Bool.or_eq_true, beq_iff_eq] at hsp
            unfold Rune at hsp
            omega
          have hwlen : (encodeRune wr).length = 1 := by
            have := (encodeRune_isEnc wr (hT wr (by simp))).ascii hwr
            rw [this]; rfl
          have hsum := sum_sizes_takeWhile_rev (cmdChar E) T0.reverse 0
          rw [List.reverse_reverse] at hsum
          have hsplit := dropEndWhile_append_takeEndWhile (cmdChar E) T0
          have htk : (T0.reverse.takeWhile (cmdChar E)).reverse = takeEndWhile (cmdChar E) T0 := rfl
          rw [htk] at hsum
          refine ⟨dropEndWhile (cmdChar E) T0, takeEndWhile (cmdChar E) T0, wr, by rw [hsplit], ?_, ?_, ?_⟩
          · rw [← h1, hsum, hwlen]
            have : enc (T0 ++ [wr]) = enc (dropEndWhile (cmdChar E) T0) ++
                (enc (takeEndWhile (cmdChar E) T0) ++ enc [wr]) := by
              conv => lhs; rw [← hsplit]
              simp
            rw [this]
            have hl : (enc (dropEndWhile (cmdChar E) T0) ++ (enc (takeEndWhile (cmdChar E) T0) ++ enc [wr])).length - 1 -
                (enc (takeEndWhile (cmdChar E) T0)).length = (enc (dropEndWhile (cmdChar E) T0)).length := by
              simp only [List.length_append, enc_singleton, hwlen]; omega
            rw [hl, List.drop_left' rfl, List.take_left' rfl]
          · rw [← h2, hwlen]
            have : (enc (T0 ++ [wr])).length - 1 = (enc T0).length := by
              simp only [enc_append, enc_singleton, List.length_append, hwlen]; omega
            rw [this, enc_append, List.drop_left' rfl]
          · rw [enc_singleton]; exact hwlen
        · cases h
    · simp [hsp] at h

theorem findCommand_spec (command : Bytes) (l : List (Bytes × Bytes)) (acc : Bytes) :
    findCommand command l acc = acc ∨ (command, findCommand command l acc) ∈ l := by
  induction l generalizing acc with
  | nil => left; rfl
  | cons p l ih =>
    obtain ⟨a, e⟩ := p
    unfold findCommand
    split
    · rename_i heq
      have : a = command := by simpa using heq
      rcases ih e with h | h
      · right; rw [h, this]; simp
      · right; simp [h]
    · rcases ih acc with h | h
      · left; exact h
      · right; simp [h]

theorem expandCommandAbbr_spec (E : Env) (S : Spec) (hS : SpecOK S) (s : State) (str : Bytes) (h : Mid s str) :
    ∃ s', expandCommandAbbr E S s = .ok s' ∧ Mid s' str ∧
      (s' = s ∨ ∃ a e x w, (a, e) ∈ S.command ∧ e ≠ [] ∧
        s.buffer.dot = s.buffer.content.length ∧ w.length = 1 ∧
        s.buffer.content = x ++ a ++ w ∧
        s'.buffer = ⟨x ++ e ++ w, ((x ++ e ++ w).length : Int)⟩ ∧
        s'.inserts = []) := by
  unfold expandCommandAbbr
  simp only [pure_eq_ok]
  by_cases hdot : s.buffer.dot < s.buffer.content.length
  · simp only [hdot, if_true]; exact ⟨s, rfl, h, Or.inl rfl⟩
  simp only [hdot, if_false]
  obtain ⟨h0, h1, v1, v2⟩ := h.bnd
  have hdoteq : s.buffer.dot = s.buffer.content.length := by omega
  cases hm : commandMatch E s.buffer.content with
  | none => exact ⟨s, rfl, h, Or.inl rfl⟩
  | some cw =>
    obtain ⟨c, w⟩ := cw
    simp only
    by_cases hexp : findCommand c S.command [] = []
    · simp only [hexp, if_true]; exact ⟨s, rfl, h, Or.inl rfl⟩
    · simp only [hexp, if_false]
      have hvalid : validUtf8 s.buffer.content = true := h.bnd.valid
      obtain ⟨T, hT, eT⟩ := valid_exists_runes _ hvalid
      rw [eT] at hm
      obtain ⟨Pre, Cmd, wr, hsplit, hc, hw, hwl⟩ := commandMatch_spec E T hT c w hm
      have hcontent : s.buffer.content = enc Pre ++ c ++ w := by
        rw [eT, hsplit, hc, hw]; simp
      have hTv : VR (Pre ++ Cmd ++ [wr]) := by rw [← hsplit]; exact hT
      have s1 : slice s.buffer.content 0 (s.buffer.dot - (c.length : Int) - 1) = .ok (enc Pre) := by
        have hl := congrArg List.length hcontent
        simp only [List.length_append] at hl
        rw [hw, hwl] at hl
        conv => lhs; rw [hcontent, List.append_assoc]
        exact slice_app_pre _ _ _ (by omega)
      rw [s1]
      simp only [ok_bind]
      have hmem : (c, findCommand c S.command []) ∈ S.command := by
        rcases findCommand_spec c S.command [] with hh | hh
        · exact absurd hh hexp
        · exact hh
      obtain ⟨_, ve⟩ := hS.command _ hmem
      have vw : validUtf8 w = true := by rw [hw]; exact validUtf8_enc _ hTv.right
      have vpre : validUtf8 (enc Pre) = true := validUtf8_enc _ hTv.left.left
      have hb : Boundary (enc Pre ++ findCommand c S.command [] ++ w)
          ((enc Pre ++ findCommand c S.command [] ++ w).length : Int) := by
        have := boundary_concat (enc Pre ++ findCommand c S.command [] ++ w) []
          (validUtf8_append (validUtf8_append vpre ve) vw) rfl
        simpa using this
      refine ⟨_, rfl, mid_reset ⟨_, _⟩ hb h.paste,
        Or.inr ⟨c, findCommand c S.command [], enc Pre, w, hmem, hexp, hdoteq, ?_, hcontent, rfl, rfl⟩⟩
      rw [hw]; exact hwl

/-! ### handleKeyEvent -/

theorem longestSimple_nil (l : List (Bytes × Bytes)) : longestSimple [] l ([], []) = ([], []) := by
  induction l with
  | nil => rfl
  | cons p l ih =>
    obtain ⟨a, f⟩ := p
    unfold longestSimple
    have : (hasSuffix [] a && decide (a.length > ([] : Bytes).length)) = false := by
      unfold hasSuffix
      cases a <;> simp
    simp only [this, Bool.false_eq_true, if_false]
    exact ih

theorem expandSimpleAbbr_noop (S : Spec) (s : State) (h : s.inserts = []) : expandSimpleAbbr S s = .ok s := by
  unfold expandSimpleAbbr
  rw [h, longestSimple_nil]
  simp

theorem expandSmallWordAbbr_noop (S : Spec) (s : State) (trigger : Nat) (cat : Categorizer)
    (h : s.inserts = []) : expandSmallWordAbbr S s trigger cat = .ok s := by
  unfold expandSmallWordAbbr
  simp only [pure_eq_ok]
  split
  · rfl
  · rw [h]; simp

theorem hke_pasting_func (E : Env) (S : Spec) (s : State) (key : Key) (hp : s.pasting = true)
    (hf : key.isFunc = true) : handleKeyEvent E S s key = .ok (s, true) := by
  unfold Key.isFunc at hf
  unfold handleKeyEvent; simp [hp, hf]

theorem hke_pasting (E : Env) (S : Spec) (s : State) (key : Key) (hp : s.pasting = true)
    (hf : key.isFunc = false) :
    handleKeyEvent E S s key = .ok ({ s with pasteBuffer := s.pasteBuffer ++ encodeRune key.rune.toNat }, true) := by
  unfold Key.isFunc at hf
  unfold handleKeyEvent; simp [hp, hf]

theorem hke_enter (E : Env) (S : Spec) (s : State) (hp : s.pasting = false) :
    handleKeyEvent E S s ⟨10, 0⟩ = .ok (resetInserts s, true) := by
  unfold handleKeyEvent; simp [hp]

theorem hke_backspace (E : Env) (S : Spec) (s : State) (key : Key) (hp : s.pasting = false)
    (hbs : key.isBackspace) :
    handleKeyEvent E S s key = (do
        let c := (resetInserts s).buffer
        let p ← slice c.content 0 c.dot
        let chop : Int := (decodeLastRune p).2
        let a ← slice c.content 0 (c.dot - chop)
        let b ← slice c.content c.dot c.content.length
        pure (({ resetInserts s with buffer := { content := a ++ b, dot := c.dot - chop } }, true) : State × Bool)) := by
  have hne : key ≠ ⟨10, 0⟩ := by
    rcases hbs with h | h <;> rw [h] <;> decide
  have hbs' : (decide (key = ⟨backspace, 0⟩) || decide (key = ⟨72, modCtrl⟩)) = true := by
    simpa [Key.isBackspace] using hbs
  unfold handleKeyEvent
  simp only [hp, Bool.false_eq_true, if_false, hne, hbs', if_true]

theorem hke_other (E : Env) (S : Spec) (s : State) (key : Key) (hp : s.pasting = false)
    (hne : key ≠ ⟨10, 0⟩) (hbs : ¬ key.isBackspace)
    (hng : (key.isFunc || !(E.isGraphic key.rune.toNat)) = true) :
    handleKeyEvent E S s key = .ok (resetInserts s, false) := by
  have hbs' : (decide (key = ⟨backspace, 0⟩) || decide (key = ⟨72, modCtrl⟩)) = false := by
    simpa [Key.isBackspace] using hbs
  unfold Key.isFunc at hng
  unfold handleKeyEvent
  simp only [hp, Bool.false_eq_true, if_false, hne, hbs', hng, if_true, pure_eq_ok]

theorem hke_insert (E : Env) (S : Spec) (s : State) (key : Key) (hp : s.pasting = false)
    (hne : key ≠ ⟨10, 0⟩) (hbs : ¬ key.isBackspace)
    (hng : (key.isFunc || !(E.isGraphic key.rune.toNat)) = false) :
    handleKeyEvent E S s key = (do
      let s := if s.last ≠ s.buffer then resetInserts s else s
      let str := encodeRune key.rune.toNat
      let b ← insertAtDot s.buffer str
      let s := { s with buffer := b, inserts := s.inserts ++ str, last := b }
      let s ← if isWhitespace key.rune then expandCommandAbbr E S s else pure s
      let s ← expandSimpleAbbr S s
      let s ← expandSmallWordAbbr S s key.rune.toNat (categorizeSmallWord E)
      pure (s, true)) := by
  have hbs' : (decide (key = ⟨backspace, 0⟩) || decide (key = ⟨72, modCtrl⟩)) = false := by
    simpa [Key.isBackspace] using hbs
  unfold Key.isFunc at hng
  unfold handleKeyEvent
  simp only [hp, Bool.false_eq_true, if_false, hne, hbs', hng]

theorem backspace_spec (s : State) (h : Inv s) :
    let c := (resetInserts s).buffer
    let chop : Int := (decodeLastRune (c.content.take c.dot.toNat)).2
    ∃ b', (do
        let p ← slice c.content 0 c.dot
        let chop : Int := (decodeLastRune p).2
        let a ← slice c.content 0 (c.dot - chop)
        let b ← slice c.content c.dot c.content.length
        pure (({ resetInserts s with buffer := { content := a ++ b, dot := c.dot - chop } }, true) : State × Bool)) =
          .ok ({ resetInserts s with buffer := b' }, true) ∧
      b' = ⟨c.content.take (c.dot - chop).toNat ++ c.content.drop c.dot.toNat, c.dot - chop⟩ ∧
      Boundary b'.content b'.dot := by
  intro c chop
  have hb : Boundary c.content c.dot := h.bnd
  obtain ⟨L, R, hL, hR, hc, hd⟩ := hb.zipper
  obtain ⟨s1, s2⟩ := hb.slices
  have htake : c.content.take c.dot.toNat = enc L := by
    rw [hc, hd, Int.toNat_natCast]; exact List.take_left' rfl
  have hdrop : c.content.drop c.dot.toNat = enc R := by
    rw [hc, hd, Int.toNat_natCast]; exact List.drop_left' rfl
  obtain ⟨K, S0, hKS, hchop⟩ : ∃ K S0, L = K ++ S0 ∧ c.dot - chop = blen K := by
    show ∃ K S0, L = K ++ S0 ∧ c.dot - ((decodeLastRune (c.content.take c.dot.toNat)).2 : Int) = blen K
    rw [htake, hd]
    rcases List.eq_nil_or_concat L with rfl | ⟨L0, r, rfl⟩
    · exact ⟨[], [], rfl, by simp [decodeLastRune_nil, blen]⟩
    · have hr : validRune r = true := hL r (by simp)
      refine ⟨L0, [r], by simp, ?_⟩
      simp only [List.concat_eq_append, enc_append, enc_singleton, blen,
        decodeLastRune_append_encodeRune _ r hr, List.length_append]
      omega
  subst hKS
  have s3 : slice c.content 0 (c.dot - chop) = .ok (enc K) := by
    rw [hchop, hc, enc_append, List.append_assoc]
    exact slice_app_pre _ _ _ rfl
  refine ⟨⟨enc K ++ enc R, blen K⟩, ?_, ?_, ?_⟩
  · rw [s1]; simp only [ok_bind]
    show (slice c.content 0 (c.dot - chop) >>= _) = _
    rw [s3, s2, hdrop, hchop]; rfl
  · rw [hdrop, hchop]
    congr 2
    rw [show (blen K).toNat = (enc K).length from Int.toNat_natCast _, hc, enc_append, List.append_assoc]
    exact (List.take_left' rfl).symm
  · exact boundary_concat _ _ (validUtf8_enc _ hL.left) (validUtf8_enc _ hR)

theorem key_insert_spec (E : Env) (S : Spec) (hS : SpecOK S) (s : State) (key : Key) (h : Inv s)
    (hp : s.pasting = false) (hne : key ≠ ⟨10, 0⟩) (hbs : ¬ key.isBackspace)
    (hng : (key.isFunc || !(E.isGraphic key.rune.toNat)) = false) :
    ∃ s', handleKeyEvent E S s key = .ok (s', true) ∧ Inv s' ∧
      KeyInsertEffect S s.buffer s'.buffer (encodeRune key.rune.toNat) := by
  rw [hke_insert E S s key hp hne hbs hng]
  generalize hstr : encodeRune key.rune.toNat = str
  have vstr : validUtf8 str = true := by rw [← hstr]; exact validUtf8_encodeRune _
  -- state after the optional reset
  generalize hs0 : (if s.last ≠ s.buffer then resetInserts s else s) = s0
  have hs0b : s0.buffer = s.buffer := by rw [← hs0]; split <;> rfl
  have hs0p : s0.pasteBuffer = s.pasteBuffer := by rw [← hs0]; split <;> rfl
  have hs0ins : ∃ p, s0.buffer.content.take s0.buffer.dot.toNat = p ++ s0.inserts := by
    rw [← hs0]
    split
    · exact ⟨s.buffer.content.take s.buffer.dot.toNat, by simp [resetInserts]⟩
    · rename_i hne'
      have hl : s.last = s.buffer := by simpa using hne'
      have := h.ins; rw [hl] at this; exact this
  have hb0 : Boundary s0.buffer.content s0.buffer.dot := by rw [hs0b]; exact h.bnd
  obtain ⟨e1, e2⟩ := insertAtDot_spec s0.buffer str hb0 vstr
  have e1' : insertAtDot s0.buffer str = .ok (Inserted s0.buffer str) := e1
  simp only [e1', ok_bind]
  -- the Mid invariant after insertion
  have hmid : Mid (str := str)
      { s0 with buffer := Inserted s0.buffer str, inserts := s0.inserts ++ str, last := Inserted s0.buffer str } := by
    refine ⟨e2, ?_, Or.inr ⟨s0.inserts, rfl⟩, Or.inl rfl, by rw [hs0p]; exact h.paste⟩
    obtain ⟨p, hp⟩ := hs0ins
    refine ⟨p, ?_⟩
    obtain ⟨b0, b1, _, _⟩ := hb0
    show List.take (s0.buffer.dot + (str.length : Int)).toNat
      (s0.buffer.content.take s0.buffer.dot.toNat ++ str ++ s0.buffer.content.drop s0.buffer.dot.toNat) = _
    have hl : (s0.buffer.dot + (str.length : Int)).toNat =
        (s0.buffer.content.take s0.buffer.dot.toNat ++ str).length := by
      rw [List.length_append, List.length_take]; omega
    rw [hl, List.take_left' rfl, hp, List.append_assoc]
  have hIns : Inserted s0.buffer str = Inserted s.buffer str := by rw [hs0b]
  generalize hs1 : ({ s0 with buffer := Inserted s0.buffer str, inserts := s0.inserts ++ str, last := Inserted s0.buffer str } : State) = s1 at hmid ⊢
  have hs1b : s1.buffer = Inserted s.buffer str := by rw [← hs1]; exact hIns
  -- what happens after the command-abbreviation step
  have finish : ∀ s2, Mid s2 str →
      (s2 = s1 ∨ ∃ a e x w, (a, e) ∈ S.command ∧ e ≠ [] ∧
        s1.buffer.dot = s1.buffer.content.length ∧ w.length = 1 ∧
        s1.buffer.content = x ++ a ++ w ∧
        s2.buffer = ⟨x ++ e ++ w, ((x ++ e ++ w).length : Int)⟩ ∧ s2.inserts = []) →
      ∃ s', (expandSimpleAbbr S s2 >>= fun s => expandSmallWordAbbr S s key.rune.toNat (categorizeSmallWord E) >>=
          fun s => pure (s, true)) = .ok (s', true) ∧ Inv s' ∧ KeyInsertEffect S s.buffer s'.buffer str := by
    intro s2 hmid2 hcase2
    rcases hcase2 with rfl | ⟨a, e, x, w, hmem, hene, hdot, hwl, hcont, hbuf, hins⟩
    · -- no command expansion
      obtain ⟨s3, hc3, hmid3, hcase3⟩ := expandSimpleAbbr_spec S hS s2 str hmid2
      rw [hc3]; simp only [ok_bind]
      rcases hcase3 with rfl | ⟨a, f, x, hmem, hane, htake, hbuf, hins⟩
      · -- no simple expansion
        rw [← hstr] at hmid3
        obtain ⟨s4, hc4, hmid4, hcase4⟩ :=
          expandSmallWordAbbr_spec S hS s3 key.rune.toNat (categorizeSmallWord E) hmid3
        rw [hc4]; simp only [ok_bind, pure_eq_ok]
        refine ⟨s4, rfl, hmid4.inv, ?_⟩
        rcases hcase4 with rfl | ⟨a, f, x, hmem, hane, hdot, hcont, hbuf, _⟩
        · left; exact hs1b
        · right; right; right
          rw [hstr] at hcont hbuf
          exact ⟨a, f, hmem, hane, by rw [← hs1b]; exact ⟨hdot, x, hcont, hbuf⟩⟩
      · rw [expandSmallWordAbbr_noop S s3 _ _ hins]; simp only [ok_bind, pure_eq_ok]
        refine ⟨s3, rfl, hmid3.inv, Or.inr (Or.inl ⟨a, f, hmem, hane, ?_⟩)⟩
        rw [← hs1b]; exact ⟨x, htake, hbuf⟩
    · rw [expandSimpleAbbr_noop S s2 hins]; simp only [ok_bind]
      rw [expandSmallWordAbbr_noop S s2 _ _ hins]; simp only [ok_bind, pure_eq_ok]
      refine ⟨s2, rfl, hmid2.inv, Or.inr (Or.inr (Or.inl ⟨a, e, w, hmem, hene, hwl, ?_⟩))⟩
      rw [← hs1b]; exact ⟨hdot, x, hcont, hbuf⟩
  by_cases hw : isWhitespace key.rune = true
  · simp only [hw, if_true]
    obtain ⟨s2, hc2, hmid2, hcase2⟩ := expandCommandAbbr_spec E S hS s1 str hmid
    rw [hc2]; simp only [ok_bind]
    exact finish s2 hmid2 hcase2
  · simp only [hw, if_false, pure_eq_ok, ok_bind]
    exact finish s1 hmid (Or.inl rfl)

/-! ### one event, and sequences -/

theorem step_inv (E : Env) (S : Spec) (hS : SpecOK S) (s : State) (ev : Event) (h : Inv s) :
    ∃ s' ret, step E S s ev = .ok (s', ret) ∧ Inv s' := by
  cases ev with
  | key key =>
    show ∃ s' ret, handleKeyEvent E S s key = .ok (s', ret) ∧ Inv s'
    by_cases hp : s.pasting = true
    · by_cases hf : key.isFunc = true
      · exact ⟨s, true, hke_pasting_func E S s key hp hf, h⟩
      · have hf' : key.isFunc = false := by simpa using hf
        exact ⟨{ s with pasteBuffer := s.pasteBuffer ++ encodeRune key.rune.toNat }, true,
          hke_pasting E S s key hp hf',
          ⟨h.bnd, h.ins, validUtf8_append h.paste (validUtf8_encodeRune _)⟩⟩
    have hp' : s.pasting = false := by simpa using hp
    by_cases hent : key = ⟨10, 0⟩
    · rw [hent]; exact ⟨resetInserts s, true, hke_enter E S s hp', inv_reset h⟩
    by_cases hbs : key.isBackspace
    · obtain ⟨b', he, _, hbnd⟩ := backspace_spec s h
      refine ⟨{ resetInserts s with buffer := b' }, true, ?_, ⟨hbnd, ⟨[], by simp [resetInserts]⟩, h.paste⟩⟩
      rw [hke_backspace E S s key hp' hbs]; exact he
    by_cases hng : (key.isFunc || !(E.isGraphic key.rune.toNat)) = true
    · exact ⟨resetInserts s, false, hke_other E S s key hp' hent hbs hng, inv_reset h⟩
    · have hng' : (key.isFunc || !(E.isGraphic key.rune.toNat)) = false := by simpa using hng
      obtain ⟨s', h1, h2, _⟩ := key_insert_spec E S hS s key h hp' hent hbs hng'
      exact ⟨s', true, h1, h2⟩
  | paste start =>
    obtain ⟨s', h1, h2, _⟩ := handlePasteSetting_spec S hS s h start
    exact ⟨s', true, by simp [step, h1], h2⟩
  | cmd c =>
    obtain ⟨buf', dot', h1, h2⟩ := c.boundary E s.buffer.content s.buffer.dot h.bnd
    exact ⟨{ s with buffer := ⟨buf', dot'⟩ }, true, by simp [step, h1], ⟨h2, h.ins, h.paste⟩⟩

theorem runEvents_inv (E : Env) (S : Spec) (hS : SpecOK S) (s : State) (evs : List Event) (h : Inv s) :
    ∃ s', runEvents E S s evs = .ok s' ∧ Inv s' := by
  induction evs generalizing s with
  | nil => exact ⟨s, rfl, h⟩
  | cons ev rest ih =>
    obtain ⟨s1, ret, h1, h2⟩ := step_inv E S hS s ev h
    obtain ⟨s', h3, h4⟩ := ih s1 h2
    exact ⟨s', by simp [runEvents, h1, h3], h4⟩

end C28
