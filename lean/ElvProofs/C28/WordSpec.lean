/-
C28 helper lemmas: the word motions land on the nearest word start.
-/
import ElvProofs.C28.MoverSpec
import ElvProofs.C28.Transpose
namespace C28
open Go

/-- rune-level word start at the split `P | S` -/
def WordStartR (cat : Categorizer) (P S : List Nat) : Prop :=
  ∃ x S', S = x :: S' ∧ cat x ≠ 0 ∧ (P = [] ∨ ∃ P' y, P = P' ++ [y] ∧ cat y ≠ cat x)

theorem runeAt_zip (P S' : List Nat) (x : Nat) (hx : validRune x = true) :
    runeAt (enc (P ++ x :: S')) (enc P).length = x := by
  unfold runeAt
  rw [enc_append, List.drop_left' rfl, enc_cons, decodeRune_encodeRune_append x hx]

theorem runeBefore_zip (P' S : List Nat) (y : Nat) (hy : validRune y = true) :
    runeBefore (enc ((P' ++ [y]) ++ S)) (enc (P' ++ [y])).length = y := by
  unfold runeBefore
  rw [enc_append (P' ++ [y]) S, List.take_left' rfl, enc_append, enc_singleton,
    decodeLastRune_append_encodeRune _ y hy]

theorem wordStart_iff (cat : Categorizer) (P S : List Nat) (hP : VR P) (hS : VR S) :
    WordStart cat (enc (P ++ S)) (enc P).length ↔ WordStartR cat P S := by
  unfold WordStart WordStartR
  cases S with
  | nil => simp
  | cons x S' =>
    have hx : validRune x = true := hS x (by simp)
    have hlen : (enc P).length < (enc (P ++ x :: S')).length := by
      have := (encodeRune_len x).1
      simp only [enc_append, enc_cons, List.length_append]; omega
    rw [runeAt_zip P S' x hx]
    rcases List.eq_nil_or_concat P with rfl | ⟨P', y, rfl⟩
    · constructor
      · rintro ⟨_, h1, _⟩; exact ⟨x, S', rfl, h1, Or.inl rfl⟩
      · rintro ⟨x', S'', he, h1, _⟩
        injection he with e1 e2; subst e1
        exact ⟨hlen, h1, Or.inl rfl⟩
    · have hy : validRune y = true := hP y (by simp)
      have hpos : ¬ ((enc (P'.concat y)).length = 0) := by
        have := (encodeRune_len y).1
        simp only [List.concat_eq_append, enc_append, enc_singleton, List.length_append]; omega
      rw [List.concat_eq_append] at hlen hpos ⊢
      rw [runeBefore_zip P' (x :: S') y hy]
      constructor
      · rintro ⟨_, h1, h2⟩
        refine ⟨x, S', rfl, h1, Or.inr ⟨P', y, rfl, ?_⟩⟩
        rcases h2 with h2 | h2
        · exact absurd h2 hpos
        · exact h2
      · rintro ⟨x', S'', he, h1, h2⟩
        injection he with e1 e2; subst e1
        refine ⟨hlen, h1, Or.inr ?_⟩
        rcases h2 with h2 | ⟨P'', y', he, h2⟩
        · simp at h2
        · obtain ⟨_, e2⟩ := List.append_inj' he rfl
          injection e2 with e2; subst e2
          exact h2

/-! ### properties of dropEndWhile / takeEndWhile -/

theorem takeEndWhile_all (f : Nat → Bool) (L : List Nat) : ∀ x ∈ takeEndWhile f L, f x = true := by
  intro x hx
  unfold takeEndWhile at hx
  rw [List.mem_reverse] at hx
  exact mem_takeWhile_prop _ _ _ hx

theorem dropEndWhile_last (f : Nat → Bool) (L : List Nat) :
    dropEndWhile f L = [] ∨ ∃ K y, dropEndWhile f L = K ++ [y] ∧ f y = false := by
  unfold dropEndWhile
  cases h : L.reverse.dropWhile f with
  | nil => left; rfl
  | cons y t =>
    right
    have := List.head_dropWhile_not f (l := L.reverse) (by rw [h]; simp)
    simp only [h, List.head_cons] at this
    exact ⟨t.reverse, y, by simp, this⟩

theorem dropWhile_head (f : Nat → Bool) (R : List Nat) :
    R.dropWhile f = [] ∨ ∃ y t, R.dropWhile f = y :: t ∧ f y = false := by
  cases h : R.dropWhile f with
  | nil => left; rfl
  | cons y t =>
    right
    have := List.head_dropWhile_not f (l := R) (by rw [h]; simp)
    simp only [h, List.head_cons] at this
    exact ⟨y, t, rfl, this⟩

/-! ### no word start strictly inside a skipped `same-category run ++ whitespace run` -/

theorem adjacent_in_append (W S X' Y' : List Nat) (y x' : Nat) (h : W ++ S = X' ++ y :: x' :: Y') :
    (y ∈ W ∧ x' ∈ W) ∨ x' ∈ S := by
  induction W generalizing X' with
  | nil => right; simp only [List.nil_append] at h; rw [h]; simp
  | cons w W' ih =>
    cases X' with
    | nil =>
      simp only [List.cons_append, List.nil_append] at h
      injection h with e1 e2; subst e1
      cases W' with
      | nil => right; simp only [List.nil_append] at e2; rw [e2]; simp
      | cons w' W'' =>
        simp only [List.cons_append] at e2
        injection e2 with e3 _; subst e3
        left; simp
    | cons a X'' =>
      simp only [List.cons_append] at h
      injection h with _ e2
      rcases ih X'' e2 with ⟨h1, h2⟩ | h3
      · left; exact ⟨by simp [h1], by simp [h2]⟩
      · right; exact h3

theorem no_start_inside (cat : Categorizer) (c : Nat) (W S X Y P R : List Nat)
    (hW : ∀ x ∈ W, cat x = c) (hS : ∀ x ∈ S, cat x = 0) (hM : W ++ S = X ++ Y)
    (hX : X ≠ []) (hY : Y ≠ []) : ¬ WordStartR cat (P ++ X) (Y ++ R) := by
  rintro ⟨x, S', he, h1, h2⟩
  obtain ⟨X', y, rfl⟩ : ∃ X' y, X = X' ++ [y] := by
    rcases List.eq_nil_or_concat X with h | ⟨X', y, h⟩
    · exact absurd h hX
    · exact ⟨X', y, by rw [h]; simp⟩
  cases Y with
  | nil => exact absurd rfl hY
  | cons x' Y' =>
    simp only [List.cons_append] at he
    injection he with e1 e2; subst e1
    rcases h2 with h2 | ⟨P', y', he2, h2⟩
    · simp at h2
    · have : P ++ (X' ++ [y]) = (P ++ X') ++ [y] := by simp
      rw [this] at he2
      obtain ⟨_, e3⟩ := List.append_inj' he2 rfl
      injection e3 with e3; subst e3
      have hM' : W ++ S = X' ++ y :: x' :: Y' := by rw [hM]; simp
      rcases adjacent_in_append W S X' Y' y x' hM' with ⟨hy, hx⟩ | hx
      · exact h2 (by rw [hW y hy, hW x' hx])
      · exact h1 (hS x' hx)

/-! ### structure of what the word motions skip -/

theorem skipSameLeftR_struct (cat : Categorizer) (P : List Nat) :
    ∃ W c, P = skipSameLeftR cat P ++ W ∧ (∀ x ∈ W, cat x = c) ∧ (P ≠ [] → W ≠ []) ∧
      (skipSameLeftR cat P = [] ∨ ∃ K y, skipSameLeftR cat P = K ++ [y] ∧ cat y ≠ c) ∧
      (∀ P0 x, P = P0 ++ [x] → c = cat x) := by
  rcases List.eq_nil_or_concat P with rfl | ⟨P0, x, rfl⟩
  · exact ⟨[], 0, by simp [skipSameLeftR], by simp, by simp, Or.inl (by simp [skipSameLeftR]), by simp⟩
  · rw [List.concat_eq_append]
    have e : skipSameLeftR cat (P0 ++ [x]) = dropEndWhile (fun y => cat y == cat x) (P0 ++ [x]) := by
      simp [skipSameLeftR]
    rw [e]
    refine ⟨takeEndWhile (fun y => cat y == cat x) (P0 ++ [x]), cat x,
      (dropEndWhile_append_takeEndWhile _ _).symm, ?_, ?_, ?_, ?_⟩
    · intro y hy; simpa using takeEndWhile_all _ _ y hy
    · intro _; unfold takeEndWhile; simp [List.takeWhile_cons]
    · rcases dropEndWhile_last (fun y => cat y == cat x) (P0 ++ [x]) with h | ⟨K, y, h1, h2⟩
      · left; exact h
      · right; exact ⟨K, y, h1, by simpa using h2⟩
    · intro P1 x1 he
      obtain ⟨_, e2⟩ := List.append_inj' he rfl
      injection e2 with e2; rw [e2]

theorem wordLeftR_struct (cat : Categorizer) (L R : List Nat) :
    ∃ W S c, L = wordLeftR cat L ++ W ++ S ∧ (∀ x ∈ W, cat x = c) ∧ (∀ x ∈ S, cat x = 0) ∧
      (L ≠ [] → W ++ S ≠ []) ∧
      (wordLeftR cat L = [] ∨ WordStartR cat (wordLeftR cat L) (W ++ S ++ R)) := by
  have hs := dropEndWhile_append_takeEndWhile (isWs cat) L
  obtain ⟨W, c, hW1, hW2, hW3, hW4, hW5⟩ := skipSameLeftR_struct cat (dropEndWhile (isWs cat) L)
  refine ⟨W, takeEndWhile (isWs cat) L, c, ?_, hW2, ?_, ?_, ?_⟩
  · unfold wordLeftR; rw [← hW1, hs]
  · intro x hx; simpa [isWs] using takeEndWhile_all _ _ x hx
  · intro hL hnil
    simp only [List.append_eq_nil_iff] at hnil
    have : dropEndWhile (isWs cat) L = [] := by
      by_cases h : dropEndWhile (isWs cat) L = []
      · exact h
      · exact absurd hnil.1 (hW3 h)
    rw [this, hnil.2] at hs
    exact hL (by simpa using hs.symm)
  · unfold wordLeftR
    rcases dropEndWhile_last (isWs cat) L with h | ⟨K0, x, h1, h2⟩
    · left; rw [h]; simp [skipSameLeftR]
    · -- the last rune before the whitespace run is not whitespace
      have hc : c = cat x := hW5 K0 x h1
      have hx0 : cat x ≠ 0 := by simpa [isWs] using h2
      have hWne : W ≠ [] := hW3 (by rw [h1]; simp)
      rcases hW4 with h | ⟨K, y, h3, h4⟩
      · left; exact h
      · right
        cases W with
        | nil => exact absurd rfl hWne
        | cons w W' =>
          refine ⟨w, W' ++ takeEndWhile (isWs cat) L ++ R, by simp, ?_, Or.inr ⟨K, y, h3, ?_⟩⟩
          · rw [hW2 w (by simp), hc]; exact hx0
          · rw [hW2 w (by simp)]; exact h4

theorem sameRightR_all (cat : Categorizer) (R : List Nat) :
    ∃ c, (∀ x ∈ sameRightR cat R, cat x = c) ∧ (∀ r t, R = r :: t → c = cat r ∧ sameRightR cat R ≠ []) := by
  cases R with
  | nil => exact ⟨0, by simp [sameRightR], by simp⟩
  | cons r t =>
    refine ⟨cat r, ?_, ?_⟩
    · intro x hx
      simp only [sameRightR, List.head?_cons] at hx
      simpa using mem_takeWhile_prop _ _ _ hx
    · intro r' t' he
      injection he with e1 e2; subst e1
      exact ⟨rfl, by simp [sameRightR, List.takeWhile_cons]⟩

theorem wordRightR_struct (cat : Categorizer) (L R : List Nat) :
    ∃ C W R' c, R = C ++ W ++ R' ∧ wordRightR cat R = C ++ W ∧ (∀ x ∈ C, cat x = c) ∧ (∀ x ∈ W, cat x = 0) ∧
      (R ≠ [] → C ++ W ≠ []) ∧
      (R' = [] ∨ WordStartR cat (L ++ C ++ W) R') := by
  unfold wordRightR
  by_cases hW0 : R.takeWhile (isWs cat) = []
  · -- the dot is at a word (or at the end)
    simp only [hW0, ne_eq, not_true_eq_false, if_false]
    have hsplit := sameRightR_append cat R
    obtain ⟨c, hc1, hc2⟩ := sameRightR_all cat R
    refine ⟨sameRightR cat R, (afterSameRightR cat R).takeWhile (isWs cat),
      (afterSameRightR cat R).dropWhile (isWs cat), c, ?_, rfl, hc1, ?_, ?_, ?_⟩
    · rw [List.append_assoc, List.takeWhile_append_dropWhile, hsplit]
    · intro x hx; simpa [isWs] using mem_takeWhile_prop _ _ _ hx
    · intro hR hnil
      cases R with
      | nil => exact hR rfl
      | cons r t =>
        simp only [List.append_eq_nil_iff] at hnil
        exact (hc2 r t rfl).2 hnil.1
    · rcases dropWhile_head (isWs cat) (afterSameRightR cat R) with h | ⟨y, t, h1, h2⟩
      · left; exact h
      · right
        have hy0 : cat y ≠ 0 := by simpa [isWs] using h2
        refine ⟨y, t, h1, hy0, Or.inr ?_⟩
        rcases List.eq_nil_or_concat ((afterSameRightR cat R).takeWhile (isWs cat)) with hW1 | ⟨W1, w, hW1⟩
        · -- no whitespace after the word: the next rune has another category
          rw [hW1, List.append_nil]
          cases R with
          | nil => simp [afterSameRightR] at h1
          | cons r t' =>
            obtain ⟨hcr, hne⟩ := hc2 r t' rfl
            rcases List.eq_nil_or_concat (sameRightR cat (r :: t')) with hC | ⟨C0, cl, hC⟩
            · exact absurd hC hne
            · refine ⟨L ++ C0, cl, by rw [hC]; simp, ?_⟩
              have hcl : cat cl = c := hc1 cl (by rw [hC]; simp)
              -- y is the head of afterSameRightR, which fails `cat · == cat r`
              have hd : (afterSameRightR cat (r :: t')).dropWhile (isWs cat) = afterSameRightR cat (r :: t') := by
                have := List.takeWhile_append_dropWhile (p := isWs cat) (l := afterSameRightR cat (r :: t'))
                rw [hW1] at this; simpa using this
              rw [hd] at h1
              simp only [afterSameRightR, List.head?_cons] at h1
              rcases dropWhile_head (fun x => cat x == cat r) (r :: t') with h | ⟨y', t'', h3, h4⟩
              · rw [h] at h1; cases h1
              · rw [h3] at h1; injection h1 with e1 _; subst e1
                rw [hcl, hcr]; intro e; simp [e] at h4
        · refine ⟨L ++ sameRightR cat R ++ W1, w, by rw [hW1]; simp, ?_⟩
          have : cat w = 0 := by
            have := mem_takeWhile_prop (isWs cat) (afterSameRightR cat R) w (by rw [hW1]; simp)
            simpa [isWs] using this
          rw [this]; exact fun e => hy0 e.symm
  · -- the dot is in whitespace
    simp only [hW0, ne_eq, not_false_eq_true, if_true]
    refine ⟨[], R.takeWhile (isWs cat), R.dropWhile (isWs cat), 0, ?_, by simp, by simp, ?_, ?_, ?_⟩
    · simp [List.takeWhile_append_dropWhile]
    · intro x hx; simpa [isWs] using mem_takeWhile_prop _ _ _ hx
    · intro _; simpa using hW0
    · rcases dropWhile_head (isWs cat) R with h | ⟨y, t, h1, h2⟩
      · left; exact h
      · right
        have hy0 : cat y ≠ 0 := by simpa [isWs] using h2
        refine ⟨y, t, h1, hy0, Or.inr ?_⟩
        rcases List.eq_nil_or_concat (R.takeWhile (isWs cat)) with hW1 | ⟨W1, w, hW1⟩
        · exact absurd hW1 hW0
        · refine ⟨L ++ W1, w, by rw [hW1]; simp, ?_⟩
          have : cat w = 0 := by
            have := mem_takeWhile_prop (isWs cat) R w (by rw [hW1]; simp)
            simpa [isWs] using this
          rw [this]; exact fun e => hy0 e.symm

/-! ### from byte offsets back to splits -/

theorem prefix_of_blen_le (P S Q U : List Nat) (h : P ++ S = Q ++ U) (hle : blen P ≤ blen Q) :
    ∃ X, Q = P ++ X := by
  induction P generalizing Q with
  | nil => exact ⟨Q, rfl⟩
  | cons a P' ih =>
    cases Q with
    | nil => have := blen_pos a P'; simp only [blen_nil] at hle; omega
    | cons b Q' =>
      simp only [List.cons_append] at h
      injection h with e1 e2; subst e1
      have hle' : blen P' ≤ blen Q' := by
        have e1 : blen (a :: P') = blen [a] + blen P' := by rw [← blen_append]; rfl
        have e2 : blen (a :: Q') = blen [a] + blen Q' := by rw [← blen_append]; rfl
        omega
      obtain ⟨X, hX⟩ := ih Q' e2 hle'
      exact ⟨X, by rw [hX]; rfl⟩

/-- a boundary strictly between `|enc K|` and `|enc (K ++ M)|` splits `M` into two non-empty parts -/
theorem split_between (K M R P' S' : List Nat) (h : K ++ M ++ R = P' ++ S')
    (h1 : blen K < blen P') (h2 : blen P' < blen (K ++ M)) :
    ∃ X Y, P' = K ++ X ∧ M = X ++ Y ∧ S' = Y ++ R ∧ X ≠ [] ∧ Y ≠ [] := by
  obtain ⟨X, hX⟩ := prefix_of_blen_le K (M ++ R) P' S' (by rw [← List.append_assoc]; exact h) (by omega)
  obtain ⟨Y, hY⟩ := prefix_of_blen_le P' S' (K ++ M) R h.symm (by omega)
  rw [hX, List.append_assoc] at hY
  have hM : M = X ++ Y := List.append_cancel_left hY
  refine ⟨X, Y, hX, hM, ?_, ?_, ?_⟩
  · rw [hX, hM] at h
    have : K ++ (X ++ Y) ++ R = (K ++ X) ++ (Y ++ R) := by simp
    rw [this] at h
    exact (List.append_cancel_left h).symm
  · rintro rfl; rw [hX] at h1; simp at h1
  · rintro rfl; rw [hM, hX] at h2; simp at h2

/-- `Boundary` positions of `enc T` are splits of `T` -/
theorem boundary_split (T : List Nat) (hT : VR T) (p : Int) (h : Boundary (enc T) p) :
    ∃ P' S', T = P' ++ S' ∧ p = blen P' := by
  obtain ⟨P', S', hP, hS, he, hp⟩ := h.zipper
  refine ⟨P', S', ?_, hp⟩
  rw [← enc_append] at he
  exact enc_injective hT (hP.append hS) he

/-! ### the word-motion theorems, byte level -/

theorem wordLeft_spec (cat : Categorizer) (buf : Bytes) (dot : Int) (h : Boundary buf dot) :
    ∃ d', moveDotLeftGeneralWord cat buf dot = .ok d' ∧ 0 ≤ d' ∧ d' ≤ dot ∧ (0 < dot → d' < dot) ∧
      (d' = 0 ∨ WordStart cat buf d'.toNat) ∧
      (∀ p : Int, Boundary buf p → d' < p → p < dot → ¬ WordStart cat buf p.toNat) := by
  obtain ⟨L, R, hL, hR, rfl, rfl⟩ := h.zipper
  obtain ⟨W, S, c, hsplit, hW, hS, hne, hstart⟩ := wordLeftR_struct cat L R
  have hv : VR (wordLeftR cat L ++ W ++ S) := by rw [← hsplit]; exact hL
  have hK : VR (wordLeftR cat L) := hv.left.left
  have hlen : blen L = blen (wordLeftR cat L) + blen (W ++ S) := by
    conv => lhs; rw [hsplit, List.append_assoc, blen_append]
  rw [← enc_append]
  refine ⟨blen (wordLeftR cat L), moveDotLeftGeneralWord_zip cat L R hL, by unfold blen; omega, ?_, ?_, ?_, ?_⟩
  · simp only [blen] at hlen ⊢; omega
  · intro hpos
    have hLne : L ≠ [] := by rintro rfl; simp at hpos
    have := hne hLne
    cases hc : W ++ S with
    | nil => exact absurd hc this
    | cons x t => have := blen_pos x t; rw [hc] at hlen; simp only [blen] at *; omega
  · rcases hstart with h0 | hws
    · left; rw [h0]; rfl
    · right
      have e : L ++ R = wordLeftR cat L ++ (W ++ S ++ R) := by
        conv => lhs; rw [hsplit]
        simp
      rw [e, show (blen (wordLeftR cat L)).toNat = (enc (wordLeftR cat L)).length from Int.toNat_natCast _]
      have hvv : VR (wordLeftR cat L ++ (W ++ S ++ R)) := by rw [← e]; exact hL.append hR
      exact (wordStart_iff cat _ _ hK hvv.right).mpr hws
  · intro p hp h1 h2
    obtain ⟨P', S', hPS, rfl⟩ := boundary_split (L ++ R) (hL.append hR) p hp
    have e : wordLeftR cat L ++ (W ++ S) ++ R = P' ++ S' := by
      rw [← hPS]; conv => rhs; rw [hsplit]
      simp
    obtain ⟨X, Y, hX, hM, hS', hXne, hYne⟩ := split_between _ (W ++ S) R P' S' e h1
      (by rw [← List.append_assoc, ← hsplit]; exact h2)
    have hv' : VR (P' ++ S') := by rw [← hPS]; exact hL.append hR
    rw [hPS, show (blen P').toNat = (enc P').length from Int.toNat_natCast _,
      wordStart_iff cat P' S' hv'.left hv'.right, hX, hS']
    exact no_start_inside cat c W S X Y _ R hW hS hM hXne hYne

theorem wordRight_spec (cat : Categorizer) (buf : Bytes) (dot : Int) (h : Boundary buf dot) :
    ∃ d', moveDotRightGeneralWord cat buf dot = .ok d' ∧ dot ≤ d' ∧ d' ≤ buf.length ∧
      (dot < buf.length → dot < d') ∧
      (d' = buf.length ∨ WordStart cat buf d'.toNat) ∧
      (∀ p : Int, Boundary buf p → dot < p → p < d' → ¬ WordStart cat buf p.toNat) := by
  obtain ⟨L, R, hL, hR, rfl, rfl⟩ := h.zipper
  obtain ⟨C, W, R', c, hsplit, hmoved, hC, hW, hne, hstart⟩ := wordRightR_struct cat L R
  have hv : VR (C ++ W ++ R') := by rw [← hsplit]; exact hR
  have hd : blen (L ++ wordRightR cat R) = blen L + blen (C ++ W) := by rw [hmoved, blen_append]
  have htot : ((enc L ++ enc R).length : Int) = blen L + blen (C ++ W) + blen R' := by
    rw [← enc_append]; conv => lhs; rw [hsplit]
    rw [← blen_append, ← blen_append]; simp [blen]
  rw [← enc_append]
  refine ⟨blen (L ++ wordRightR cat R), moveDotRightGeneralWord_zip cat L R hR, ?_, ?_, ?_, ?_, ?_⟩
  · simp only [blen] at hd ⊢; omega
  · rw [enc_append, htot, hd]; simp only [blen]; omega
  · intro hlt
    have hRne : R ≠ [] := by
      rintro rfl
      simp at hlt
    cases hc : C ++ W with
    | nil => exact absurd hc (hne hRne)
    | cons x t => have := blen_pos x t; rw [hc] at hd; simp only [blen] at *; omega
  · rcases hstart with h0 | hws
    · left; rw [enc_append, htot, hd, h0]; simp [blen]
    · right
      have e : L ++ R = (L ++ C ++ W) ++ R' := by rw [hsplit]; simp
      have e2 : L ++ wordRightR cat R = L ++ C ++ W := by rw [hmoved]; simp
      rw [e2, e, show (blen (L ++ C ++ W)).toNat = (enc (L ++ C ++ W)).length from Int.toNat_natCast _]
      exact (wordStart_iff cat _ _ ((hL.append hv.left.left).append hv.left.right) hv.right).mpr hws
  · intro p hp h1 h2
    obtain ⟨P', S', hPS, rfl⟩ := boundary_split (L ++ R) (hL.append hR) p hp
    have e : L ++ (C ++ W) ++ R' = P' ++ S' := by
      rw [← hPS, hsplit]; simp
    obtain ⟨X, Y, hX, hM, hS', hXne, hYne⟩ := split_between L (C ++ W) R' P' S' e h1
      (by rw [← hmoved]; exact h2)
    have hv' : VR (P' ++ S') := by rw [← hPS]; exact hL.append hR
    rw [hPS, show (blen P').toNat = (enc P').length from Int.toNat_natCast _,
      wordStart_iff cat P' S' hv'.left hv'.right, hX, hS']
    exact no_start_inside cat c C W X Y _ R' hC hW hM hXne hYne

end C28
