/-
C28 helper lemmas: `move-dot-up` / `move-dot-down` land on the adjacent line
at a display column not exceeding the original one.
-/
import ElvProofs.C28.MoverSpec
import ElvProofs.C28.Transpose
namespace C28
open Go

theorem take_zip (P S : List Nat) : (enc (P ++ S)).take (enc P).length = enc P := by
  rw [enc_append]; exact List.take_left' rfl

theorem drop_zip (P S : List Nat) : (enc (P ++ S)).drop (enc P).length = enc S := by
  rw [enc_append]; exact List.drop_left' rfl

/-- line start and column of a split whose left part is `X ++ Y`, `Y` free of newlines and
`X` empty or ending in a newline -/
theorem lineStart_zip (X Y S : List Nat) (hv : VR (X ++ Y)) (hY : ∀ r ∈ Y, r ≠ 10)
    (hX : X = [] ∨ ∃ a, X = a ++ [10]) :
    lineStart (enc (X ++ Y ++ S)) (enc (X ++ Y)).length = (enc X).length := by
  unfold lineStart
  rw [take_zip, enc_append]
  apply findLastSOL_eq
  · exact enc_no_nl _ hv.right hY
  · rcases hX with h | ⟨a, h⟩
    · left; rw [h]; rfl
    · right; rw [h, enc_append]; simp [encodeRune_nl]

theorem column_zip (E : Env) (X Y S : List Nat) (hv : VR (X ++ Y)) (hY : ∀ r ∈ Y, r ≠ 10)
    (hX : X = [] ∨ ∃ a, X = a ++ [10]) :
    column E (enc (X ++ Y ++ S)) (enc (X ++ Y)).length = widthSum E Y := by
  unfold column
  rw [lineStart_zip X Y S hv hY hX, take_zip, drop_zip, wcOf_enc E Y hv.right]

theorem trimRunes_subset (E : Env) (wmax w : Nat) (rs : List Nat) : ∀ x ∈ trimRunes E wmax w rs, x ∈ rs := by
  obtain ⟨rest, h⟩ := trimRunes_prefix E wmax w rs
  intro x hx; rw [h]; simp [hx]

theorem up_spec (E : Env) (buf : Bytes) (dot : Int) (h : Boundary buf dot) :
    ∃ d', moveDotUp E buf dot = .ok d' ∧ Boundary buf d' ∧
      (lineStart buf dot.toNat = 0 → d' = dot) ∧
      (lineStart buf dot.toNat ≠ 0 →
        d' ≤ (lineStart buf dot.toNat : Int) - 1 ∧
        lineStart buf d'.toNat = lineStart buf (lineStart buf dot.toNat - 1) ∧
        column E buf d'.toNat ≤ column E buf dot.toNat) := by
  obtain ⟨d', hd, hb⟩ := (Mover.up).boundary E buf dot h
  refine ⟨d', hd, hb, ?_⟩
  obtain ⟨L, R, hL, hR, rfl, rfl⟩ := h.zipper
  rw [← enc_append] at hd ⊢
  have hz := moveDotUp_zip E L R hL
  have : Mover.fn E .up = moveDotUp E := rfl
  rw [this, hz] at hd
  injection hd with hd; subst hd
  simp only [Int.toNat_natCast]
  have hsL := beforeLastLine_append_lastLine L
  have hL' : VR (beforeLastLine L ++ lastLine L) := by rw [hsL]; exact hL
  have hls : lineStart (enc (L ++ R)) (enc L).length = (enc (beforeLastLine L)).length := by
    have := lineStart_zip (beforeLastLine L) (lastLine L) R hL' (lastLine_no_nl L) (beforeLastLine_last L)
    rw [hsL] at this; exact this
  have hcol : column E (enc (L ++ R)) (enc L).length = widthSum E (lastLine L) := by
    have := column_zip E (beforeLastLine L) (lastLine L) R hL' (lastLine_no_nl L) (beforeLastLine_last L)
    rw [hsL] at this; exact this
  rw [hls, hcol]
  unfold upR
  rcases beforeLastLine_last L with hA | ⟨A0, hA⟩
  · rw [hA]; simp
  · rw [hA]
    have hne : A0 ++ [10] ≠ [] := by simp
    constructor
    · intro h0; exfalso
      simp only [enc_append, enc_singleton, List.length_append, encodeRune_nl] at h0
      simp at h0
    · intro _
      cases hc : A0 ++ [10] with
      | nil => exact absurd hc hne
      | cons x t =>
        simp only
        rw [← hc, List.dropLast_concat]
        have hA0 : VR A0 := by have := hL'.left; rw [hA] at this; exact this.left
        have hs0 := beforeLastLine_append_lastLine A0
        have hA0' : VR (beforeLastLine A0 ++ lastLine A0) := by rw [hs0]; exact hA0
        generalize hTe : trimRunes E (widthSum E (lastLine L)) 0 (lastLine A0) = T
        have hTsub : ∀ x ∈ T, x ∈ lastLine A0 := by rw [← hTe]; exact trimRunes_subset E _ _ _
        obtain ⟨rest, hrest⟩ := trimRunes_prefix E (widthSum E (lastLine L)) 0 (lastLine A0)
        rw [hTe] at hrest
        have hTv : VR (beforeLastLine A0 ++ T) :=
          hA0'.left.append (hA0'.right.sublist hTsub)
        have hTnl : ∀ r ∈ T, r ≠ 10 := fun r hr => lastLine_no_nl A0 r (hTsub r hr)
        -- the whole buffer as (A1 ++ T) ++ suffix
        have eT : L ++ R = beforeLastLine A0 ++ T ++ (rest ++ [10] ++ lastLine L ++ R) := by
          conv => lhs; rw [← hsL, hA, ← hs0, hrest]
          simp
        have eA0 : L ++ R = beforeLastLine A0 ++ lastLine A0 ++ ([10] ++ lastLine L ++ R) := by
          conv => lhs; rw [← hsL, hA, ← hs0]
          simp
        refine ⟨?_, ?_, ?_⟩
        · -- d' ≤ sol - 1
          have : (enc (A0 ++ [10])).length = (enc A0).length + 1 := by
            simp [encodeRune_nl]
          rw [this]
          have : (enc A0).length = (enc (beforeLastLine A0 ++ T)).length + (enc rest).length := by
            conv => lhs; rw [← hs0, hrest]
            simp only [enc_append, List.length_append]; omega
          simp only [blen]; omega
        · have e1 : (enc (A0 ++ [10])).length - 1 = (enc (beforeLastLine A0 ++ lastLine A0)).length := by
            rw [hs0]; simp [encodeRune_nl]
          rw [e1]
          conv => lhs; rw [eT]
          conv => rhs; rw [eA0]
          rw [lineStart_zip _ _ _ hTv hTnl (beforeLastLine_last A0),
            lineStart_zip _ _ _ hA0' (lastLine_no_nl A0) (beforeLastLine_last A0)]
        · conv => lhs; rw [eT]
          rw [column_zip E _ _ _ hTv hTnl (beforeLastLine_last A0), ← hTe]
          have := trimRunes_width E (widthSum E (lastLine L)) 0 (lastLine A0) (by omega)
          omega

theorem down_spec (E : Env) (buf : Bytes) (dot : Int) (h : Boundary buf dot) :
    ∃ d', moveDotDown E buf dot = .ok d' ∧ Boundary buf d' ∧
      (dot.toNat + findFirstEOL (buf.drop dot.toNat) = buf.length → d' = dot) ∧
      (dot.toNat + findFirstEOL (buf.drop dot.toNat) ≠ buf.length →
        ((dot.toNat + findFirstEOL (buf.drop dot.toNat) + 1 : Nat) : Int) ≤ d' ∧
        lineStart buf d'.toNat = dot.toNat + findFirstEOL (buf.drop dot.toNat) + 1 ∧
        column E buf d'.toNat ≤ column E buf dot.toNat) := by
  obtain ⟨d', hd, hb⟩ := (Mover.down).boundary E buf dot h
  refine ⟨d', hd, hb, ?_⟩
  obtain ⟨L, R, hL, hR, rfl, rfl⟩ := h.zipper
  rw [← enc_append] at hd ⊢
  have hz := moveDotDown_zip E L R hL hR
  have : Mover.fn E .down = moveDotDown E := rfl
  rw [this, hz] at hd
  injection hd with hd; subst hd
  simp only [Int.toNat_natCast]
  rw [drop_zip, findFirstEOL_enc R hR]
  have hsL := beforeLastLine_append_lastLine L
  have hL' : VR (beforeLastLine L ++ lastLine L) := by rw [hsL]; exact hL
  have hcol : column E (enc (L ++ R)) (enc L).length = widthSum E (lastLine L) := by
    have := column_zip E (beforeLastLine L) (lastLine L) R hL' (lastLine_no_nl L) (beforeLastLine_last L)
    rw [hsL] at this; exact this
  rw [hcol]
  have hsR := firstLine_append_afterFirstLine R
  have hR' : VR (firstLine R ++ afterFirstLine R) := by rw [hsR]; exact hR
  have htot : (enc (L ++ R)).length = (enc L).length + (enc (firstLine R)).length + (enc (afterFirstLine R)).length := by
    conv => lhs; rw [← hsR]
    simp only [enc_append, List.length_append]; omega
  unfold downR
  rcases afterFirstLine_head R with hN | ⟨N, hN⟩
  · rw [hN]
    rw [hN] at htot
    constructor
    · intro _; rfl
    · intro hne; exfalso; apply hne; rw [htot]; simp
  · rw [hN]
    simp only
    have hNv : VR N := by have := hR'.right; rw [hN] at this; exact this.cons.2
    have hFv : VR (firstLine R) := hR'.left
    have hsN := firstLine_append_afterFirstLine N
    have hN' : VR (firstLine N ++ afterFirstLine N) := by rw [hsN]; exact hNv
    generalize hTe : trimRunes E (widthSum E (lastLine L)) 0 (firstLine N) = T
    have hTsub : ∀ x ∈ T, x ∈ firstLine N := by rw [← hTe]; exact trimRunes_subset E _ _ _
    obtain ⟨rest, hrest⟩ := trimRunes_prefix E (widthSum E (lastLine L)) 0 (firstLine N)
    rw [hTe] at hrest
    have hXv : VR (L ++ firstLine R ++ [10]) := by
      refine (hL.append hFv).append ?_
      intro x hx; simp at hx; subst hx; decide
    have hTv : VR ((L ++ firstLine R ++ [10]) ++ T) := hXv.append (hN'.left.sublist hTsub)
    have hTnl : ∀ r ∈ T, r ≠ 10 := fun r hr => firstLine_no_nl N r (hTsub r hr)
    have eT : L ++ R = (L ++ firstLine R ++ [10]) ++ T ++ (rest ++ afterFirstLine N) := by
      conv => lhs; rw [← hsR, hN, ← hsN, hrest]
      simp
    have hX : (enc (L ++ firstLine R ++ [10])).length = (enc L).length + (enc (firstLine R)).length + 1 := by
      simp [encodeRune_nl]; omega
    constructor
    · intro heq; exfalso
      rw [htot, hN] at heq
      have := blen_pos 10 N
      simp only [blen] at this; omega
    · intro _
      refine ⟨?_, ?_, ?_⟩
      · simp only [blen, enc_append, List.length_append, Int.natCast_add] at hX ⊢
        omega
      · conv => lhs; rw [eT]
        rw [lineStart_zip _ _ _ hTv hTnl (Or.inr ⟨L ++ firstLine R, rfl⟩), hX]
      · conv => lhs; rw [eT]
        rw [column_zip E _ _ _ hTv hTnl (Or.inr ⟨L ++ firstLine R, rfl⟩), ← hTe]
        have := trimRunes_width E (widthSum E (lastLine L)) 0 (firstLine N) (by omega)
        omega

end C28
