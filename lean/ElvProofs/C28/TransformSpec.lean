/-
C28 helper lemmas: every transformer swaps two adjacent blocks of whole runes.
-/
import ElvProofs.C28.TransposeWord
namespace C28
open Go

theorem Transformer.fn_zip (E : Env) (t : Transformer) (L R : List Nat) (hL : VR L) (hR : VR R) :
    ∃ a l m r z : List Nat, L ++ R = a ++ l ++ m ++ r ++ z ∧
      t.fn E (enc (L ++ R)) (blen L) = .ok (enc (a ++ r ++ m ++ l ++ z), blen (a ++ r ++ m ++ l)) := by
  cases t with
  | rune =>
    obtain ⟨a, l, r, z, h1, _, _, h2⟩ := transposeRunes_zip L R hL hR
    exact ⟨a, l, [], r, z, by simpa using h1, by simpa [Transformer.fn] using h2⟩
  | word => exact transposeGeneralWord_zip _ L R hL hR
  | smallWord => exact transposeGeneralWord_zip _ L R hL hR
  | alnumWord => exact transposeGeneralWord_zip _ L R hL hR

/-- Byte-level statement: the buffer is cut into five pieces of whole
characters and the second and fourth are exchanged. -/
theorem Transformer.swap (E : Env) (t : Transformer) (buf : Bytes) (dot : Int) (h : Boundary buf dot) :
    ∃ a l m r z : Bytes,
      buf = a ++ l ++ m ++ r ++ z ∧
      validUtf8 a = true ∧ validUtf8 l = true ∧ validUtf8 m = true ∧ validUtf8 r = true ∧ validUtf8 z = true ∧
      t.fn E buf dot = .ok (a ++ r ++ m ++ l ++ z, ((a ++ r ++ m ++ l).length : Int)) := by
  obtain ⟨L, R, hL, hR, rfl, rfl⟩ := h.zipper
  obtain ⟨a, l, m, r, z, h1, h2⟩ := t.fn_zip E L R hL hR
  have hv : VR (a ++ l ++ m ++ r ++ z) := by rw [← h1]; exact hL.append hR
  refine ⟨enc a, enc l, enc m, enc r, enc z, ?_, ?_, ?_, ?_, ?_, ?_, ?_⟩
  · rw [← enc_append, h1]; simp
  · exact validUtf8_enc _ hv.left.left.left.left
  · exact validUtf8_enc _ hv.left.left.left.right
  · exact validUtf8_enc _ hv.left.left.right
  · exact validUtf8_enc _ hv.left.right
  · exact validUtf8_enc _ hv.right
  · rw [← enc_append] 
    rw [h2]
    simp only [enc_append, blen, List.append_assoc]

end C28
