/-
C32 — non-vacuity of the liveness theorems: a concrete infinite fair
execution in which a full redraw request is pending.
-/
import ElvProofs.C32.Liveness
namespace C32

/-- Redraw(true) is requested and Return(1) accepted before the loop starts;
the loop redraws (full), takes the result, does the final redraw and returns;
then the environment keeps calling `Return`, which has no effect. -/
def demoPrefix : List Label :=
  [.r1 true, .r2 true, .ret 1 true, .extract true, .drawStart, .drawEnd, .selRet 1, .fStart, .fEnd, .retn 1,
   .ret 2 true]

def demoLab (i : Nat) : Label :=
  match demoPrefix[i]? with
  | some l => l
  | none => .ret 3 false

def demoState : Nat → State
  | 0 => init
  | i + 1 => match step (demoState i) (demoLab i) with
    | some s => s
    | none => demoState i

theorem demo_tail (d : Nat) :
    (demoState (11 + d)).pc = .done 1 ∧ (demoState (11 + d)).returnCh = some 2 := by
  induction d with
  | zero => decide
  | succ d ih =>
    have hl : demoLab (11 + d) = .ret 3 false := by
      simp [demoLab, demoPrefix]
    have e : 11 + (d + 1) = (11 + d) + 1 := by omega
    rw [e]
    simp only [demoState, hl]
    obtain ⟨h1, h2⟩ := ih
    generalize demoState (11 + d) = s at *
    obtain ⟨pc, ch, tok, rc, fl, mu, log⟩ := s
    simp at h1 h2; subst h1 h2
    simp [step]

theorem demo_steps (i : Nat) : step (demoState i) (demoLab i) = some (demoState (i + 1)) := by
  by_cases h : i < 11
  · have : i = 0 ∨ i = 1 ∨ i = 2 ∨ i = 3 ∨ i = 4 ∨ i = 5 ∨ i = 6 ∨ i = 7 ∨ i = 8 ∨ i = 9 ∨ i = 10 := by omega
    rcases this with h | h | h | h | h | h | h | h | h | h | h <;> subst h <;> decide
  · obtain ⟨d, hd⟩ : ∃ d, i = 11 + d := ⟨i - 11, by omega⟩
    subst hd
    have hl : demoLab (11 + d) = .ret 3 false := by
      simp [demoLab, demoPrefix]
    obtain ⟨h1, h2⟩ := demo_tail d
    simp only [demoState, hl]
    generalize demoState (11 + d) = s at *
    obtain ⟨pc, ch, tok, rc, fl, mu, log⟩ := s
    simp at h1 h2; subst h1 h2
    simp [step]

theorem demo_fair : FairExec demoState demoLab where
  start := Reachable.init
  steps := demo_steps
  loopFair := by
    intro i
    refine ⟨11 + i, by omega, .inr (.inr ⟨1, (demo_tail i).1⟩)⟩
  inputsStop := by
    refine ⟨0, fun j _ => ?_⟩
    unfold demoLab
    split
    · next l hl =>
      have : l ∈ demoPrefix := List.mem_of_getElem? hl
      simp [demoPrefix] at this
      rcases this with h | h | h | h | h | h | h | h | h | h | h <;> subst h <;> rfl
    · rfl

theorem demo_pending : pendingFull (demoState 2).log = true := by decide

end C32
