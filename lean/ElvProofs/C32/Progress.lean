/-
C32 — progress: the loop is not blocked while a redraw request is pending,
and a ranking function bounds the number of loop steps before the next redraw
starts.
-/
import ElvProofs.C32.Inv
namespace C32

/-- Upper bound on the number of loop steps before the next redraw callback
(ordinary or final) starts, in a state with `n` queued events. -/
def rank (s : State) : Nat :=
  match s.pc with
  | .top => 2
  | .draw _ => 1
  | .drawing => 4 * s.inputCh.length + 4
  | .sel => 4 * s.inputCh.length + 3
  | .handle _ => 4 * s.inputCh.length + 6
  | .handling => 4 * s.inputCh.length + 5
  | .pollRet => 4 * s.inputCh.length + 4
  | .pollIn => 4 * s.inputCh.length + 3
  | .final _ => 1
  | .finalDrawing _ => 2
  | .finalDone _ => 1
  | .done _ => 0

/-- The label is the start of a redraw callback (ordinary or final). -/
def Label.isRedrawStart : Label → Bool
  | .drawStart | .fStart => true
  | _ => false

def Label.isInput : Label → Bool
  | .inp _ => true
  | _ => false

/-- Every loop step other than a redraw start lowers the rank; an `Input`
raises it by at most 4; the other environment steps leave it unchanged. -/
theorem rank_step {s s' : State} {l : Label} (h : Step s l s') (hn : l.isRedrawStart = false) :
    rank s' + (if l.isLoop then 1 else 0) ≤ rank s + (if l.isInput then 4 else 0) := by
  cases h <;> simp_all [rank, Label.isLoop, Label.isInput, Label.isRedrawStart] <;> (try split) <;> omega

/-- Executions: a list of labels run from a state. -/
def run (s : State) : List Label → Option State
  | [] => some s
  | l :: ls => match step s l with
    | some s' => run s' ls
    | none => none

theorem reachable_run {s s' : State} {ls : List Label} (hr : Reachable s) (h : run s ls = some s') :
    Reachable s' := by
  induction ls generalizing s with
  | nil => simp [run] at h; subst h; exact hr
  | cons l ls ih =>
    simp only [run] at h
    split at h
    · next s1 h1 => exact ih (Reachable.step hr h1) h
    · cases h

/-- In an execution without a redraw start, the number of loop steps is
bounded by the rank of the first state plus 4 per `Input` step. -/
theorem run_bound {s s' : State} {ls : List Label} (h : run s ls = some s')
    (hn : ∀ l ∈ ls, l.isRedrawStart = false) :
    ls.countP Label.isLoop + rank s' ≤ rank s + 4 * ls.countP Label.isInput := by
  induction ls generalizing s with
  | nil => simp [run] at h; subst h; simp
  | cons l ls ih =>
    simp only [run] at h
    split at h
    · next s1 h1 =>
      have h2 := ih h (fun l hl => hn l (List.mem_cons_of_mem _ hl))
      have h3 := rank_step (Step_of_step h1) (hn l List.mem_cons_self)
      simp only [List.countP_cons]
      cases hL : l.isLoop <;> cases hI : l.isInput <;> simp [hL, hI] at h3 ⊢ <;> omega
    · cases h

/-- The loop goroutine has an enabled step unless it waits for the mutex held
by a `Redraw` call, sits at the outer `select` with nothing to receive, or has
returned. -/
theorem loop_enabled (s : State)
    (h1 : s.pc = .top → s.mu = none)
    (h2 : s.pc = .sel → s.inputCh ≠ [] ∨ s.returnCh ≠ none ∨ s.token = true)
    (h3 : ∀ r, s.pc ≠ .done r) :
    ∃ l, l.isLoop = true ∧ (step s l).isSome = true := by
  obtain ⟨pc, ch, tok, rc, fl, mu, log⟩ := s
  cases pc with
  | top => simp at h1; subst h1; exact ⟨.extract fl, rfl, by simp [step]⟩
  | draw b => exact ⟨.drawStart, rfl, by simp [step]⟩
  | drawing => exact ⟨.drawEnd, rfl, by simp [step]⟩
  | sel =>
    simp at h2
    rcases h2 with h | h | h
    · cases ch with
      | nil => simp at h
      | cons e rest => exact ⟨.selIn e, rfl, by simp [step]⟩
    · cases rc with
      | none => simp at h
      | some r => exact ⟨.selRet r, rfl, by simp [step]⟩
    · subst h; exact ⟨.selTok, rfl, by simp [step]⟩
  | handle e => exact ⟨.hStart, rfl, by simp [step]⟩
  | handling => exact ⟨.hEnd, rfl, by simp [step]⟩
  | pollRet =>
    cases rc with
    | none => exact ⟨.pollRet none, rfl, by simp [step]⟩
    | some r => exact ⟨.pollRet (some r), rfl, by simp [step]⟩
  | pollIn =>
    cases ch with
    | nil => exact ⟨.pollIn none, rfl, by simp [step]⟩
    | cons e rest => exact ⟨.pollIn (some e), rfl, by simp [step]⟩
  | final r => exact ⟨.fStart, rfl, by simp [step]⟩
  | finalDrawing r => exact ⟨.fEnd, rfl, by simp [step]⟩
  | finalDone r => exact ⟨.retn r, rfl, by simp [step]⟩
  | done r => exact absurd rfl (h3 r)

/-- A `Redraw` call that holds the mutex can always finish (its token step is
enabled), which frees the mutex. -/
theorem mutex_released (s : State) (full : Bool) (h : s.mu = some full) :
    ∃ s', step s (.r2 (!s.token)) = some s' ∧ s'.mu = none := by
  obtain ⟨pc, ch, tok, rc, fl, mu, log⟩ := s
  simp at h; subst h
  exact ⟨⟨pc, ch, true, rc, fl, none, .req full :: log⟩, by simp [step], rfl⟩

end C32
