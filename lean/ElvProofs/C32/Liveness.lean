/-
C32 — liveness over infinite executions: under explicit fairness assumptions
every pending redraw request is followed by the start of a redraw callback,
unless the loop has returned.
-/
import ElvProofs.C32.Progress
namespace C32

/-- The loop goroutine has nothing to do: it waits at the outer `select` with
nothing to receive, or `Run` has returned. -/
def Idle (s : State) : Prop :=
  (s.pc = .sel ∧ s.inputCh = [] ∧ s.returnCh = none ∧ s.token = false) ∨ ∃ r, s.pc = .done r

/-- An infinite execution of the model with the fairness the statement needs.

* `loopFair`: from every point on, the loop goroutine eventually takes a step
  unless it is idle.  This is scheduler fairness plus starvation-freedom of
  `redrawMutex` (Go's `sync.Mutex` hands the lock over to a waiter that has
  waited for more than 1 ms).
* `inputsStop`: the environment eventually stops sending input events.  `Run`
  consumes every queued event before it redraws ("to minimize redraws"), so a
  never-ending stream of events that always finds the buffer non-empty
  postpones the redraw for ever; this is the loop's design, not modelled away. -/
structure FairExec (σ : Nat → State) (lab : Nat → Label) : Prop where
  start : Reachable (σ 0)
  steps : ∀ i, step (σ i) (lab i) = some (σ (i + 1))
  loopFair : ∀ i, ∃ j, i ≤ j ∧ ((lab j).isLoop = true ∨ Idle (σ j))
  inputsStop : ∃ N, ∀ j, N ≤ j → (lab j).isInput = false

theorem FairExec.reachable {σ : Nat → State} {lab : Nat → Label} (hf : FairExec σ lab) :
    ∀ i, Reachable (σ i)
  | 0 => hf.start
  | i + 1 => Reachable.step (hf.reachable i) (hf.steps i)

/-- A pending request stays pending until the flag is extracted, and then the
loop sits at `draw b` until the redraw starts. -/
theorem pend_or_draw_step {s s' : State} {l : Label} (h : Step s l s') (hn : l.isRedrawStart = false)
    (hp : pending s.log = true ∨ ∃ b, s.pc = .draw b) :
    pending s'.log = true ∨ ∃ b, s'.pc = .draw b := by
  cases h <;> simp_all [pending, Label.isRedrawStart]

theorem redraw_eventually' (σ : Nat → State) (lab : Nat → Label) (hf : FairExec σ lab)
    (i : Nat) (hp : pending (σ i).log = true ∨ ∃ b, (σ i).pc = .draw b) :
    ∃ j, i ≤ j ∧ ((lab j).isRedrawStart = true ∨ ∃ r, (σ j).pc = .done r) := by
  apply Classical.byContradiction
  intro hcon
  have hno : ∀ j, i ≤ j → (lab j).isRedrawStart = false ∧ ∀ r, (σ j).pc ≠ .done r := by
    intro j hj
    constructor
    · cases hb : (lab j).isRedrawStart with
      | false => rfl
      | true => exact absurd ⟨j, hj, .inl hb⟩ hcon
    · intro r hr; exact hcon ⟨j, hj, .inr ⟨r, hr⟩⟩
  -- the request stays pending (or the loop sits at `draw b`)
  have hpd : ∀ d, pending (σ (i + d)).log = true ∨ ∃ b, (σ (i + d)).pc = .draw b := by
    intro d
    induction d with
    | zero => exact hp
    | succ d ih =>
      exact pend_or_draw_step (Step_of_step (hf.steps (i + d))) (hno (i + d) (by omega)).1 ih
  obtain ⟨N, hN⟩ := hf.inputsStop
  -- after max i N every step weakly lowers the rank, loop steps strictly
  have hrank : ∀ j, i ≤ j → N ≤ j →
      rank (σ (j + 1)) + (if (lab j).isLoop then 1 else 0) ≤ rank (σ j) := by
    intro j hj hjN
    have := rank_step (Step_of_step (hf.steps j)) (hno j hj).1
    simpa [hN j hjN] using this
  have hmono : ∀ k d, i ≤ k → N ≤ k → rank (σ (k + d)) ≤ rank (σ k) := by
    intro k d hk hkN
    induction d with
    | zero => exact Nat.le_refl _
    | succ d ih =>
      have := hrank (k + d) (by omega) (by omega)
      have h2 : rank (σ (k + d + 1)) ≤ rank (σ (k + d)) := by
        split at this <;> omega
      exact Nat.le_trans h2 ih
  -- hence only finitely many loop steps remain
  have hfin : ∀ n k, i ≤ k → N ≤ k → rank (σ k) ≤ n →
      ∃ M, k ≤ M ∧ ∀ j, M ≤ j → (lab j).isLoop = false := by
    intro n
    induction n with
    | zero =>
      intro k hk hkN hr
      refine ⟨k, Nat.le_refl _, ?_⟩
      intro j hj
      cases hb : (lab j).isLoop with
      | false => rfl
      | true =>
        have h1 := hrank j (by omega) (by omega)
        have h2 := hmono k (j - k) hk hkN
        have : k + (j - k) = j := by omega
        rw [this] at h2
        simp [hb] at h1
        omega
    | succ n ih =>
      intro k hk hkN hr
      by_cases hex : ∃ j, k ≤ j ∧ (lab j).isLoop = true
      · obtain ⟨j, hj, hb⟩ := hex
        have h1 := hrank j (by omega) (by omega)
        have h2 := hmono k (j - k) hk hkN
        have : k + (j - k) = j := by omega
        rw [this] at h2
        simp [hb] at h1
        obtain ⟨M, hM, hMl⟩ := ih (j + 1) (by omega) (by omega) (by omega)
        exact ⟨M, by omega, hMl⟩
      · refine ⟨k, Nat.le_refl _, ?_⟩
        intro j hj
        cases hb : (lab j).isLoop with
        | false => rfl
        | true => exact absurd ⟨j, hj, hb⟩ hex
  obtain ⟨M, hM, hMl⟩ := hfin (rank (σ (max i N))) (max i N) (Nat.le_max_left _ _) (Nat.le_max_right _ _)
    (Nat.le_refl _)
  obtain ⟨j, hj, hstep | hidle⟩ := hf.loopFair M
  · rw [hMl j hj] at hstep; cases hstep
  · have hij : i ≤ j := Nat.le_trans (Nat.le_trans (Nat.le_max_left i N) hM) hj
    rcases hidle with ⟨hsel, _, _, htok⟩ | ⟨r, hr⟩
    · have hpj := hpd (j - i)
      have : i + (j - i) = j := by omega
      rw [this] at hpj
      rcases hpj with hpj | ⟨b, hb⟩
      · rcases (Inv_of_reachable (hf.reachable j)).pend hpj with h | h | h
        · rw [htok] at h; cases h
        · simp [hsel, nonBlockingPc] at h
        · simp [hsel, returningPc] at h
      · rw [hsel] at hb; cases hb
    · exact (hno j hij).2 r hr

theorem redraw_eventually (σ : Nat → State) (lab : Nat → Label) (hf : FairExec σ lab)
    (i : Nat) (hp : pending (σ i).log = true) :
    ∃ j, i ≤ j ∧ ((lab j).isRedrawStart = true ∨ ∃ r, (σ j).pc = .done r) :=
  redraw_eventually' σ lab hf i (.inl hp)

/-! ### A full request is eventually served by a full redraw -/

theorem pending_of_pendingFull : ∀ {log : List Obs}, pendingFull log = true → pending log = true
  | [], h => by simp [pendingFull] at h
  | o :: rest, h => by
    cases o <;> simp_all [pendingFull, pending] <;> exact pending_of_pendingFull h

/-- The event we wait for: a full ordinary redraw starts, or the final redraw
starts, or `Run` has returned. -/
def FullServed (s : State) (l : Label) : Prop :=
  (l = .drawStart ∧ s.pc = .draw true) ∨ l = .fStart ∨ ∃ r, s.pc = .done r

/-- Before the extraction: the full request is pending, or already extracted as `true`. -/
theorem fullQ_step {s s' : State} {l : Label} (h : Step s l s') (hfull : InvFull s) (hn : ¬ FullServed s l)
    (hq : pendingFull s.log = true ∨ s.pc = .draw true) :
    pendingFull s'.log = true ∨ s'.pc = .draw true := by
  unfold InvFull at hfull
  cases h <;> simp_all [pendingFull, FullServed]
  rcases hq with h | h <;> simp_all

/-- After a non-full redraw has started with the request still pending: the
loop is not at a `draw`, or it is at `draw true`. -/
theorem fullR_step {s s' : State} {l : Label} (h : Step s l s') (hfull : InvFull s) (hn : ¬ FullServed s l)
    (hr : (pendingFull s.log = true ∧ ∀ b, s.pc ≠ .draw b) ∨ s.pc = .draw true) :
    (pendingFull s'.log = true ∧ ∀ b, s'.pc ≠ .draw b) ∨ s'.pc = .draw true := by
  unfold InvFull at hfull
  cases h <;> simp_all [pendingFull, FullServed]
  rcases hr with h | h <;> simp_all

theorem redrawStart_cases {s s' : State} {l : Label} (h : Step s l s') (hl : l.isRedrawStart = true) :
    (l = .drawStart ∧ ∃ b, s.pc = .draw b ∧ s'.pc = .drawing ∧ s'.log = .drawStart b :: s.log) ∨ l = .fStart := by
  cases h <;> simp_all [Label.isRedrawStart]

theorem full_redraw_eventually (σ : Nat → State) (lab : Nat → Label) (hf : FairExec σ lab)
    (i : Nat) (hp : pendingFull (σ i).log = true) :
    ∃ j, i ≤ j ∧ FullServed (σ j) (lab j) := by
  apply Classical.byContradiction
  intro hcon
  have hno : ∀ j, i ≤ j → ¬ FullServed (σ j) (lab j) := fun j hj hs => hcon ⟨j, hj, hs⟩
  have hinv : ∀ j, InvFull (σ j) := fun j => (Inv_of_reachable (hf.reachable j)).full
  have hq : ∀ d, pendingFull (σ (i + d)).log = true ∨ (σ (i + d)).pc = .draw true := by
    intro d
    induction d with
    | zero => exact .inl hp
    | succ d ih => exact fullQ_step (Step_of_step (hf.steps (i + d))) (hinv _) (hno _ (by omega)) ih
  -- first redraw start after i
  obtain ⟨j1, hj1, h1⟩ := redraw_eventually σ lab hf i (pending_of_pendingFull hp)
  rcases h1 with h1 | ⟨r, hr⟩
  rotate_left
  · exact hno j1 hj1 (.inr (.inr ⟨r, hr⟩))
  rcases redrawStart_cases (Step_of_step (hf.steps j1)) h1 with ⟨hl, b, hb, hb', hlog⟩ | hl
  rotate_left
  · exact hno j1 hj1 (.inr (.inl hl))
  cases b with
  | true => exact hno j1 hj1 (.inl ⟨hl, hb⟩)
  | false =>
    -- the non-full redraw was extracted before the request; the request is still pending
    have hq1 := hq (j1 - i)
    have e1 : i + (j1 - i) = j1 := by omega
    rw [e1] at hq1
    have hpf : pendingFull (σ j1).log = true := by
      rcases hq1 with h | h
      · exact h
      · rw [hb] at h; cases h
    have hr0 : (pendingFull (σ (j1 + 1)).log = true ∧ ∀ b, (σ (j1 + 1)).pc ≠ .draw b) ∨
        (σ (j1 + 1)).pc = .draw true := by
      left
      refine ⟨by rw [hlog]; simpa [pendingFull] using hpf, ?_⟩
      intro b; rw [hb']; intro h; cases h
    have hr : ∀ d, (pendingFull (σ (j1 + 1 + d)).log = true ∧ ∀ b, (σ (j1 + 1 + d)).pc ≠ .draw b) ∨
        (σ (j1 + 1 + d)).pc = .draw true := by
      intro d
      induction d with
      | zero => exact hr0
      | succ d ih => exact fullR_step (Step_of_step (hf.steps (j1 + 1 + d))) (hinv _) (hno _ (by omega)) ih
    have hp2 : pending (σ (j1 + 1)).log = true ∨ ∃ b, (σ (j1 + 1)).pc = .draw b := by
      rcases hr0 with ⟨h, _⟩ | h
      · exact .inl (pending_of_pendingFull h)
      · exact .inr ⟨true, h⟩
    obtain ⟨j2, hj2, h2⟩ := redraw_eventually' σ lab hf (j1 + 1) hp2
    rcases h2 with h2 | ⟨r, hr2⟩
    rotate_left
    · exact hno j2 (by omega) (.inr (.inr ⟨r, hr2⟩))
    rcases redrawStart_cases (Step_of_step (hf.steps j2)) h2 with ⟨hl2, b2, hb2, _, _⟩ | hl2
    rotate_left
    · exact hno j2 (by omega) (.inr (.inl hl2))
    have hr2 := hr (j2 - (j1 + 1))
    have e2 : j1 + 1 + (j2 - (j1 + 1)) = j2 := by omega
    rw [e2] at hr2
    rcases hr2 with ⟨_, h⟩ | h
    · exact h b2 hb2
    · exact hno j2 (by omega) (.inl ⟨hl2, h⟩)
end C32
