/-
C32 — inductive invariants of the loop protocol model, over all reachable
states (= all interleavings and all resolutions of `select`).
-/
import ElvProofs.C32.Step
namespace C32

/-! ### Program-counter classes -/

/-- From these pcs the loop reaches `top` (or the final redraw) without blocking. -/
def nonBlockingPc : Pc → Bool
  | .top | .handle _ | .handling | .pollRet | .pollIn => true
  | _ => false

/-- The loop has taken a result out of `returnCh`. -/
def returningPc : Pc → Bool
  | .final _ | .finalDrawing _ | .finalDone _ | .done _ => true
  | _ => false

/-- A callback is running. -/
def inCallback : Pc → Bool
  | .drawing | .handling | .finalDrawing _ => true
  | _ => false

/-- The event taken out of `inputCh` whose handler has not started yet. -/
def cur : Pc → List Ev
  | .handle e => [e]
  | _ => []

/-- The result taken out of `returnCh`. -/
def retOf : Pc → List Ret
  | .final r | .finalDrawing r | .finalDone r | .done r => [r]
  | _ => []

/-! ### The mutex protects the flag -/

/-- While a `Redraw(true)` call holds the mutex the flag is set. -/
def InvMu (s : State) : Prop := s.mu = some true → s.flag = true

theorem InvMu_step {s s' : State} {l : Label} (hi : InvMu s) (h : Step s l s') : InvMu s' := by
  unfold InvMu at *
  cases h <;> simp_all

/-- A full request issued since the last extraction is still recorded in the flag. -/
def InvFull (s : State) : Prop := pendingFull s.log = true → s.flag = true

theorem InvFull_step {s s' : State} {l : Label} (hm : InvMu s) (hi : InvFull s)
    (h : Step s l s') : InvFull s' := by
  unfold InvFull InvMu at *
  cases h <;> simp_all [pendingFull]
  rintro (h | h) <;> simp_all

/-! ### No lost redraw -/

/-- If a request has been issued since the last extraction then the token is
in `redrawCh`, or the loop is on its way to `top`, or it has taken a return. -/
def InvPend (s : State) : Prop :=
  pending s.log = true → s.token = true ∨ nonBlockingPc s.pc = true ∨ returningPc s.pc = true

theorem InvPend_step {s s' : State} {l : Label} (hi : InvPend s) (h : Step s l s') : InvPend s' := by
  unfold InvPend at *
  cases h <;> simp_all [pending, nonBlockingPc, returningPc]

/-! ### No downgrade -/

/-- The loop is at `draw b` exactly with the flag it extracted. -/
def InvExtract (s : State) : Prop := ∀ b, s.pc = .draw b → lastExtract s.log = some b

theorem InvExtract_step {s s' : State} {l : Label} (hi : InvExtract s) (h : Step s l s') :
    InvExtract s' := by
  unfold InvExtract at *
  cases h <;> simp_all [lastExtract]

/-- Log-level statement: every extraction that follows a full request yields
`true`, and every ordinary redraw carries exactly the flag extracted for it. -/
def NoDowngrade : List Obs → Prop
  | [] => True
  | .extract b :: rest => (pendingFull rest = true → b = true) ∧ NoDowngrade rest
  | .drawStart b :: rest => lastExtract rest = some b ∧ NoDowngrade rest
  | _ :: rest => NoDowngrade rest

theorem NoDowngrade_step {s s' : State} {l : Label} (hf : InvFull s) (he : InvExtract s)
    (hi : NoDowngrade s.log) (h : Step s l s') : NoDowngrade s'.log := by
  unfold InvFull InvExtract at *
  cases h <;> simp_all [NoDowngrade]

/-! ### Arrival order -/

def InvArrival (s : State) : Prop :=
  arrived s.log = handled s.log ++ cur s.pc ++ s.inputCh ∧ s.inputCh.length ≤ inputCap

theorem InvArrival_step {s s' : State} {l : Label} (hi : InvArrival s) (h : Step s l s') :
    InvArrival s' := by
  unfold InvArrival at *
  cases h <;> simp_all [arrived, handled, cur] <;> omega

/-! ### Callbacks are serial -/

/-- The newest callback observation is a begin. -/
def cbOpen : List Obs → Bool
  | [] => false
  | .drawStart _ :: _ => true
  | .handleStart _ :: _ => true
  | .finalStart :: _ => true
  | .drawEnd :: _ => false
  | .handleEnd :: _ => false
  | .finalEnd :: _ => false
  | _ :: rest => cbOpen rest

/-- Callback begins and ends alternate: no callback begins while another runs. -/
def Serial : List Obs → Prop
  | [] => True
  | .drawStart _ :: rest => cbOpen rest = false ∧ Serial rest
  | .handleStart _ :: rest => cbOpen rest = false ∧ Serial rest
  | .finalStart :: rest => cbOpen rest = false ∧ Serial rest
  | .drawEnd :: rest => cbOpen rest = true ∧ Serial rest
  | .handleEnd :: rest => cbOpen rest = true ∧ Serial rest
  | .finalEnd :: rest => cbOpen rest = true ∧ Serial rest
  | _ :: rest => Serial rest

def InvSerial (s : State) : Prop := cbOpen s.log = inCallback s.pc ∧ Serial s.log

theorem InvSerial_step {s s' : State} {l : Label} (hi : InvSerial s) (h : Step s l s') :
    InvSerial s' := by
  unfold InvSerial at *
  cases h <;> simp_all [cbOpen, Serial, inCallback]

/-! ### Return -/

/-- The accepted results are: the one the loop took (if any), then the one in the channel. -/
def InvRet (s : State) : Prop := commits s.log = retOf s.pc ++ s.returnCh.toList

theorem InvRet_step {s s' : State} {l : Label} (hi : InvRet s) (h : Step s l s') : InvRet s' := by
  unfold InvRet at *
  cases h <;> simp_all [commits, retOf]

/-- Final redraws: none before the loop takes a result, then exactly one, and
it is the newest callback. -/
def InvFinal (s : State) : Prop :=
  match s.pc with
  | .finalDrawing _ => finals s.log = 1 ∧ ∃ rest, callbacks s.log = .finalStart :: rest
  | .finalDone _ => finals s.log = 1 ∧ ∃ rest, callbacks s.log = .finalEnd :: .finalStart :: rest
  | .done _ => finals s.log = 1 ∧ ∃ rest, callbacks s.log = .finalEnd :: .finalStart :: rest
  | _ => finals s.log = 0

theorem InvFinal_step {s s' : State} {l : Label} (hi : InvFinal s) (h : Step s l s') :
    InvFinal s' := by
  unfold InvFinal at *
  cases h <;> simp_all [finals, callbacks]

/-! ### All together -/

structure Inv (s : State) : Prop where
  mu : InvMu s
  full : InvFull s
  pend : InvPend s
  extract : InvExtract s
  noDowngrade : NoDowngrade s.log
  arrival : InvArrival s
  serial : InvSerial s
  ret : InvRet s
  final : InvFinal s

theorem Inv_init : Inv init := by
  refine ⟨?_, ?_, ?_, ?_, ?_, ?_, ?_, ?_, ?_⟩ <;>
    simp [init, InvMu, InvFull, InvPend, InvExtract, NoDowngrade, InvArrival, InvSerial, InvRet, InvFinal,
      pendingFull, pending, arrived, handled, cur, cbOpen, Serial, inCallback, commits, retOf, finals]

theorem Inv_step {s s' : State} {l : Label} (hi : Inv s) (h : Step s l s') : Inv s' :=
  ⟨InvMu_step hi.mu h, InvFull_step hi.mu hi.full h, InvPend_step hi.pend h, InvExtract_step hi.extract h,
   NoDowngrade_step hi.full hi.extract hi.noDowngrade h, InvArrival_step hi.arrival h,
   InvSerial_step hi.serial h, InvRet_step hi.ret h, InvFinal_step hi.final h⟩

theorem Inv_of_reachable {s : State} (h : Reachable s) : Inv s := by
  induction h with
  | init => exact Inv_init
  | step _ hs ih => exact Inv_step ih (Step_of_step hs)

end C32
