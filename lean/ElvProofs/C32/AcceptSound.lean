/-
C32 — the trace acceptor only ever holds reachable model states: every
candidate is produced from `Cand.init` by `step`.  Hence a recorded trace that
the driver accepts is (up to the documented log windows) an execution of the
model, and every invariant proved for `Reachable` states applies to it.
-/
import ElvModel.C32.Accept
import ElvProofs.C32.Inv
namespace C32

def CandsOK (cs : List Cand) : Prop := ∀ c ∈ cs, Reachable c.s

theorem foldl_preserves {α β : Type} (P : β → Prop) (Q : α → Prop) (f : β → α → β)
    (hf : ∀ b a, P b → Q a → P (f b a)) :
    ∀ (l : List α) (b : β), P b → (∀ a ∈ l, Q a) → P (l.foldl f b) := by
  intro l
  induction l with
  | nil => intro b hb _; exact hb
  | cons a l ih =>
    intro b hb hq
    exact ih (f b a) (hf b a hb (hq a List.mem_cons_self)) (fun x hx => hq x (List.mem_cons_of_mem _ hx))

theorem insertNew_ok {acc : List Cand} {c : Cand} (ha : CandsOK acc) (hc : Reachable c.s) :
    CandsOK (insertNew acc c).1 := by
  unfold insertNew
  split
  · exact ha
  · intro x hx
    rcases List.mem_cons.mp hx with h | h
    · subst h; exact hc
    · exact ha x h

theorem commitAt_ok (c : Cand) (hc : Reachable c.s) :
    ∀ (post pre : List (EnvOp × Option Bool)), CandsOK (commitAt c pre post) := by
  intro post
  induction post with
  | nil => intro pre x hx; simp [commitAt] at hx
  | cons p post ih =>
    intro pre
    obtain ⟨op, st⟩ := p
    cases st with
    | some o => simpa [commitAt] using ih _
    | none =>
      intro x hx
      simp only [commitAt, List.mem_append] at hx
      rcases hx with hx | hx
      · split at hx
        · next s' hs =>
          simp at hx; subst hx; exact Reachable.step hc hs
        · simp at hx
      · exact ih _ x hx

theorem succs_ok (c : Cand) (hc : Reachable c.s) : CandsOK c.succs := by
  intro x hx
  simp only [Cand.succs, List.mem_append] at hx
  rcases hx with hx | hx
  · exact commitAt_ok c hc _ _ x hx
  · split at hx
    · simp at hx
    · simp only [List.mem_filterMap] at hx
      obtain ⟨l, _, hl⟩ := hx
      split at hl
      · next s' hs => simp at hl; subst hl; exact Reachable.step hc hs
      · simp at hl

theorem closure_ok : ∀ (fuel : Nat) (frontier acc : List Cand),
    CandsOK frontier → CandsOK acc → CandsOK (closure fuel frontier acc) := by
  intro fuel
  induction fuel with
  | zero => intro _ acc _ ha; simpa [closure] using ha
  | succ n ih =>
    intro frontier acc hf ha
    simp only [closure]
    have key : (fun (st : List Cand × List Cand) => CandsOK st.1 ∧ CandsOK st.2)
        (frontier.foldl (fun (st : List Cand × List Cand) c =>
          c.succs.foldl (fun (st : List Cand × List Cand) c' =>
            let (a, fresh) := insertNew st.1 c'
            if fresh then (a, c' :: st.2) else (a, st.2)) st) (acc, [])) := by
      apply foldl_preserves (fun st : List Cand × List Cand => CandsOK st.1 ∧ CandsOK st.2)
        (fun c : Cand => Reachable c.s)
      · intro st c hst hc
        apply foldl_preserves (fun st : List Cand × List Cand => CandsOK st.1 ∧ CandsOK st.2)
          (fun c : Cand => Reachable c.s)
        · intro st c' hst hc'
          have h1 := insertNew_ok hst.1 hc'
          cases hfr : (insertNew st.1 c').2
          · simp only []
            rw [show insertNew st.1 c' = ((insertNew st.1 c').1, (insertNew st.1 c').2) from rfl, hfr]
            exact ⟨h1, hst.2⟩
          · simp only []
            rw [show insertNew st.1 c' = ((insertNew st.1 c').1, (insertNew st.1 c').2) from rfl, hfr]
            refine ⟨h1, ?_⟩
            intro x hx
            rcases List.mem_cons.mp hx with h | h
            · subst h; exact hc'
            · exact hst.2 x h
        · exact hst
        · exact succs_ok c hc
      · exact ⟨ha, by intro x hx; cases hx⟩
      · exact hf
    revert key
    generalize (frontier.foldl _ (acc, [])) = res
    obtain ⟨acc', next⟩ := res
    intro key
    cases next with
    | nil => exact key.1
    | cons y ys => exact ih _ _ key.2 key.1

theorem closeAll_ok {cs : List Cand} (h : CandsOK cs) : CandsOK (closeAll cs) :=
  closure_ok _ _ _ h h

theorem exact_ok {c c' : Cand} {l : Label} (hc : Reachable c.s) (h : exact c l = some c') :
    Reachable c'.s := by
  unfold exact at h
  split at h
  · cases h
  · cases hs : step c.s l with
    | none => simp [hs] at h
    | some s' => simp [hs] at h; subst h; exact Reachable.step hc hs

theorem endOp_ok {c c' : Cand} {op : EnvOp} {o : Bool} (hc : Reachable c.s) (h : endOp c op o = some c') :
    Reachable c'.s := by
  unfold endOp at h
  split at h
  · simp at h; subst h; exact hc
  · cases h

theorem confirm_ok {c c' : Cand} {l : Label} (hc : Reachable c.s) (h : confirm c l = some c') :
    Reachable c'.s := by
  unfold confirm at h
  split at h
  · simp at h; subst h; exact hc
  · cases h

theorem applyEntry_ok {c c' : Cand} {e : Entry} (hc : Reachable c.s) (h : applyEntry c e = some c') :
    Reachable c'.s := by
  cases e <;> simp only [applyEntry] at h
  case R1 full =>
    cases hs : step c.s (.r1 full) with
    | none => simp [hs] at h
    | some s' => simp [hs] at h; subst h; exact Reachable.step hc hs
  case R2 => exact endOp_ok hc h
  case I1 => split at h <;> simp at h; subst h; exact hc
  case I2 => exact endOp_ok hc h
  case T1 => split at h <;> simp at h; subst h; exact hc
  case T2 => exact endOp_ok hc h
  case X => exact exact_ok hc h
  case D1 flag =>
    split at h
    · next b _ =>
      by_cases hf : flag = (if b then flagFull else 0)
      · rw [if_pos hf] at h; exact exact_ok hc h
      · rw [if_neg hf] at h; cases h
    · cases h
  case D2 => exact exact_ok hc h
  case SI => exact confirm_ok hc h
  case SR => exact confirm_ok hc h
  case ST => exact confirm_ok hc h
  case H1 =>
    split at h
    · split at h
      · exact exact_ok hc h
      · cases h
    · cases h
  case H2 => exact exact_ok hc h
  case PR => exact confirm_ok hc h
  case PR0 => exact confirm_ok hc h
  case PI => exact confirm_ok hc h
  case PI0 => exact confirm_ok hc h
  case F1 =>
    split at h
    · exact exact_ok hc h
    · cases h
  case F2 => exact exact_ok hc h
  case RET => exact exact_ok hc h

theorem accept_ok {cs : List Cand} (e : Entry) (h : CandsOK cs) : CandsOK (accept cs e) := by
  unfold accept
  apply foldl_preserves CandsOK (fun c : Cand => Reachable c.s)
  · intro acc c hacc hc
    split
    · next c' hc' => exact insertNew_ok hacc (applyEntry_ok hc hc')
    · exact hacc
  · intro x hx; cases hx
  · exact closeAll_ok h

theorem init_ok : CandsOK [Cand.init] := by
  intro c hc
  simp at hc; subst hc
  exact Reachable.init

/-- Feeding any list of entries to the acceptor from the initial candidate
leaves only reachable states. -/
theorem acceptAll_ok (es : List Entry) : CandsOK (es.foldl accept [Cand.init]) :=
  foldl_preserves CandsOK (fun _ => True) accept (fun _ e h _ => accept_ok e h) es _ init_ok (fun _ _ => trivial)

end C32
