/-
C32 — the step function as a relation on explicit records: one constructor
per enabled case of `step`, proved equivalent to `step`. Invariant proofs do
case analysis on this relation.
-/
import ElvModel.C32.Model
namespace C32

/-- The step relation, one constructor per enabled case of `step`, on explicit records. -/
inductive Step : State → Label → State → Prop
  | r1 {pc ch tok rc fl log} (full : Bool) :
      Step ⟨pc, ch, tok, rc, fl, none, log⟩ (.r1 full) ⟨pc, ch, tok, rc, fl || full, some full, log⟩
  | r2 {pc ch tok rc fl log} (full : Bool) :
      Step ⟨pc, ch, tok, rc, fl, some full, log⟩ (.r2 (!tok)) ⟨pc, ch, true, rc, fl, none, .req full :: log⟩
  | inp {pc ch tok rc fl mu log} (e : Ev) (hc : ch.length < inputCap) :
      Step ⟨pc, ch, tok, rc, fl, mu, log⟩ (.inp e) ⟨pc, ch ++ [e], tok, rc, fl, mu, .sent e :: log⟩
  | retOk {pc ch tok fl mu log} (r : Ret) :
      Step ⟨pc, ch, tok, none, fl, mu, log⟩ (.ret r true) ⟨pc, ch, tok, some r, fl, mu, .retCommit r :: log⟩
  | retDrop {pc ch tok fl mu log} (r r0 : Ret) :
      Step ⟨pc, ch, tok, some r0, fl, mu, log⟩ (.ret r false) ⟨pc, ch, tok, some r0, fl, mu, .retDrop r :: log⟩
  | extract {ch tok rc fl log} :
      Step ⟨.top, ch, tok, rc, fl, none, log⟩ (.extract fl) ⟨.draw fl, ch, tok, rc, false, none, .extract fl :: log⟩
  | drawStart {ch tok rc fl mu log} (b : Bool) :
      Step ⟨.draw b, ch, tok, rc, fl, mu, log⟩ .drawStart ⟨.drawing, ch, tok, rc, fl, mu, .drawStart b :: log⟩
  | drawEnd {ch tok rc fl mu log} :
      Step ⟨.drawing, ch, tok, rc, fl, mu, log⟩ .drawEnd ⟨.sel, ch, tok, rc, fl, mu, .drawEnd :: log⟩
  | selIn {ch tok rc fl mu log} (e : Ev) :
      Step ⟨.sel, e :: ch, tok, rc, fl, mu, log⟩ (.selIn e) ⟨.handle e, ch, tok, rc, fl, mu, log⟩
  | selRet {ch tok fl mu log} (r : Ret) :
      Step ⟨.sel, ch, tok, some r, fl, mu, log⟩ (.selRet r) ⟨.final r, ch, tok, none, fl, mu, log⟩
  | selTok {ch rc fl mu log} :
      Step ⟨.sel, ch, true, rc, fl, mu, log⟩ .selTok ⟨.top, ch, false, rc, fl, mu, log⟩
  | hStart {ch tok rc fl mu log} (e : Ev) :
      Step ⟨.handle e, ch, tok, rc, fl, mu, log⟩ .hStart ⟨.handling, ch, tok, rc, fl, mu, .handleStart e :: log⟩
  | hEnd {ch tok rc fl mu log} :
      Step ⟨.handling, ch, tok, rc, fl, mu, log⟩ .hEnd ⟨.pollRet, ch, tok, rc, fl, mu, .handleEnd :: log⟩
  | pollRetSome {ch tok fl mu log} (r : Ret) :
      Step ⟨.pollRet, ch, tok, some r, fl, mu, log⟩ (.pollRet (some r)) ⟨.final r, ch, tok, none, fl, mu, log⟩
  | pollRetNone {ch tok fl mu log} :
      Step ⟨.pollRet, ch, tok, none, fl, mu, log⟩ (.pollRet none) ⟨.pollIn, ch, tok, none, fl, mu, log⟩
  | pollInSome {ch tok rc fl mu log} (e : Ev) :
      Step ⟨.pollIn, e :: ch, tok, rc, fl, mu, log⟩ (.pollIn (some e)) ⟨.handle e, ch, tok, rc, fl, mu, log⟩
  | pollInNone {tok rc fl mu log} :
      Step ⟨.pollIn, [], tok, rc, fl, mu, log⟩ (.pollIn none) ⟨.top, [], tok, rc, fl, mu, log⟩
  | fStart {ch tok rc fl mu log} (r : Ret) :
      Step ⟨.final r, ch, tok, rc, fl, mu, log⟩ .fStart ⟨.finalDrawing r, ch, tok, rc, fl, mu, .finalStart :: log⟩
  | fEnd {ch tok rc fl mu log} (r : Ret) :
      Step ⟨.finalDrawing r, ch, tok, rc, fl, mu, log⟩ .fEnd ⟨.finalDone r, ch, tok, rc, fl, mu, .finalEnd :: log⟩
  | retn {ch tok rc fl mu log} (r : Ret) :
      Step ⟨.finalDone r, ch, tok, rc, fl, mu, log⟩ (.retn r) ⟨.done r, ch, tok, rc, fl, mu, .returned r :: log⟩

theorem Step_of_step {s s' : State} {l : Label} (h : step s l = some s') : Step s l s' := by
  obtain ⟨pc, ch, tok, rc, fl, mu, log⟩ := s
  cases l with
  | r1 full => cases mu <;> simp [step] at h; subst h; exact .r1 full
  | r2 sent =>
    cases mu <;> simp [step] at h
    obtain ⟨h1, h2⟩ := h; subst h1 h2; exact .r2 _
  | inp e =>
    simp [step] at h
    obtain ⟨h1, h2⟩ := h; subst h2; exact .inp e h1
  | ret r ok =>
    cases rc <;> simp [step] at h <;> obtain ⟨h1, h2⟩ := h <;> subst h1 h2
    · exact .retOk r
    · exact .retDrop r _
  | extract b =>
    cases pc <;> cases mu <;> simp [step] at h
    obtain ⟨h1, h2⟩ := h; subst h1 h2; exact .extract
  | drawStart => cases pc <;> simp [step] at h; subst h; exact .drawStart _
  | drawEnd => cases pc <;> simp [step] at h; subst h; exact .drawEnd
  | selIn e =>
    cases pc <;> cases ch <;> simp [step] at h
    obtain ⟨h1, h2⟩ := h; subst h1 h2; exact .selIn _
  | selRet r =>
    cases pc <;> cases rc <;> simp [step] at h
    obtain ⟨h1, h2⟩ := h; subst h1 h2; exact .selRet _
  | selTok =>
    cases pc <;> cases tok <;> simp [step] at h
    subst h; exact .selTok
  | hStart => cases pc <;> simp [step] at h; subst h; exact .hStart _
  | hEnd => cases pc <;> simp [step] at h; subst h; exact .hEnd
  | pollRet r? =>
    cases pc <;> cases rc <;> cases r? <;> simp [step] at h
    · subst h; exact .pollRetNone
    · obtain ⟨h1, h2⟩ := h; subst h1 h2; exact .pollRetSome _
  | pollIn e? =>
    cases pc <;> cases ch <;> cases e? <;> simp [step] at h
    · subst h; exact .pollInNone
    · obtain ⟨h1, h2⟩ := h; subst h1 h2; exact .pollInSome _
  | fStart => cases pc <;> simp [step] at h; subst h; exact .fStart _
  | fEnd => cases pc <;> simp [step] at h; subst h; exact .fEnd _
  | retn r =>
    cases pc <;> simp [step] at h
    obtain ⟨h1, h2⟩ := h; subst h1 h2; exact .retn _

theorem step_of_Step {s s' : State} {l : Label} (h : Step s l s') : step s l = some s' := by
  cases h <;> simp [step, *]

end C32
