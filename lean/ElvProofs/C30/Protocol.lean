/-
C30 — the inductive invariant of the `Highlighter.Get` / late-callback
transition system, over ALL reachable states (every interleaving).
-/
import ElvModel.C30.Model
import ElvProofs.C30.Pure
namespace C30
open Go

/-- `t` is a highlighting COMPUTED FOR `c`: the text a `highlight(c, …)` call
assembles for some sort outcome, or that text with its command segments
restyled by some answers of `HasCommand`. -/
def Computed (c : Bytes) (t : Text) : Prop :=
  ∃ (hc : Bool) (sorted : List Region) (imm : Text) (cmds : List CmdRegion),
    highlight c hc sorted = .ok (imm, cmds) ∧
    (t = imm ∨ ∃ answers, restyle imm cmds answers = .ok t)

/-- A late result in flight belongs to a `highlight(p.code, …)` call. -/
def PendOK (p : Pending) : Prop :=
  ∃ (hc : Bool) (sorted : List Region), highlight p.code hc sorted = .ok (p.imm, p.cmds)

/-- What every ghost observation must satisfy. -/
def ObsOK : Obs → Prop
  | .shown asked text origin => origin = asked ∧ Tiles asked 0 text ∧ Computed asked text
  | .lateStored origin cached text => origin = cached ∧ Tiles cached 0 text ∧ Computed cached text
  | .lateDropped origin cached => origin ≠ cached

structure Inv (s : State) : Prop where
  cache_tiles : Tiles s.code 0 s.styled
  cache_origin : s.origin = s.code
  cache_computed : Computed s.code s.styled
  pending_ok : ∀ p ∈ s.pending, PendOK p
  holder_ok : ∀ p, s.mu = some (.late p) → PendOK p
  log_ok : ∀ o ∈ s.log, ObsOK o

theorem highlight_ok {code : Bytes} {hc : Bool} {sorted : List Region} {imm : Text} {cmds : List CmdRegion}
    (h : highlight code hc sorted = .ok (imm, cmds)) :
    Tiles code 0 imm ∧ ∀ c ∈ cmds, imm[c.seg]? = some { style := {}, text := c.cmd } := by
  unfold highlight assemble fixRegionsSorted at h
  obtain ⟨hT, hC⟩ := assembleFrom_ok code hc _ 0 0 imm cmds (filterOverlap_ordered sorted 0)
    (Int.le_refl 0) (Int.natCast_nonneg _) h
  exact ⟨by simpa using hT, fun c hc' => by simpa using (hC c hc').2⟩

theorem cmds_in_range {imm : Text} {cmds : List CmdRegion}
    (h : ∀ c ∈ cmds, imm[c.seg]? = some ({ style := {}, text := c.cmd } : Seg)) :
    ∀ c ∈ cmds, c.seg < imm.length := by
  intro c hc
  have := h c hc
  rcases Nat.lt_or_ge c.seg imm.length with hlt | hge
  · exact hlt
  · rw [List.getElem?_eq_none hge] at this; cases this

theorem init_inv : Inv init := by
  refine ⟨by simp [init, Tiles], rfl, ?_, by simp [init], by simp [init], by simp [init]⟩
  exact ⟨false, [], [], [], by decide, Or.inl rfl⟩

/-- What a successful `highlight` call returns. -/
theorem runHighlight_ok {code : Bytes} {env : Env} {text : Text} {pend : Option Pending}
    (h : runHighlight code env = .ok (text, pend)) :
    Tiles code 0 text ∧ Computed code text ∧ ∀ p, pend = some p → p.code = code ∧ PendOK p := by
  unfold runHighlight at h
  cases hh : highlight code env.hasCmd env.sorted with
  | exc e => rw [hh] at h; cases h
  | panic w => rw [hh] at h; cases h
  | ok r =>
    obtain ⟨imm, cmds⟩ := r
    rw [hh] at h
    simp only at h
    obtain ⟨hT, hC⟩ := highlight_ok hh
    split at h
    · -- a late computation exists
      cases hf : env.fast with
      | none =>
        rw [hf] at h
        simp only [Res.ok.injEq, Prod.mk.injEq] at h
        obtain ⟨rfl, rfl⟩ := h
        refine ⟨hT, ⟨_, _, _, _, hh, Or.inl rfl⟩, ?_⟩
        intro p hp
        cases hp
        exact ⟨rfl, _, _, hh⟩
      | some answers =>
        rw [hf] at h
        simp only at h
        split at h
        · cases hr : restyle imm cmds answers with
          | ok late =>
            rw [hr] at h
            simp only [Res.ok.injEq, Prod.mk.injEq] at h
            obtain ⟨rfl, rfl⟩ := h
            refine ⟨tiles_congr (restyle_text _ _ _ _ hr) hT, ⟨_, _, _, _, hh, Or.inr ⟨_, hr⟩⟩, ?_⟩
            intro p hp; cases hp
          | exc e => rw [hr] at h; cases h
          | panic w => rw [hr] at h; cases h
        · cases h
    · cases hf : env.fast with
      | none =>
        rw [hf] at h
        simp only [Res.ok.injEq, Prod.mk.injEq] at h
        obtain ⟨rfl, rfl⟩ := h
        refine ⟨hT, ⟨_, _, _, _, hh, Or.inl rfl⟩, ?_⟩
        intro p hp; cases hp
      | some answers => rw [hf] at h; cases h

theorem removeAt_mem : ∀ {ps : List Pending} {i : Nat} {p : Pending} {rest : List Pending},
    removeAt ps i = some (p, rest) → p ∈ ps ∧ ∀ q ∈ rest, q ∈ ps := by
  intro ps
  induction ps with
  | nil => intro i p rest h; simp [removeAt] at h
  | cons a ps ih =>
    intro i p rest h
    cases i with
    | zero =>
      simp only [removeAt, Option.some.injEq, Prod.mk.injEq] at h
      obtain ⟨rfl, rfl⟩ := h
      exact ⟨List.mem_cons_self, fun q hq => List.mem_cons_of_mem _ hq⟩
    | succ i =>
      simp only [removeAt] at h
      cases hr : removeAt ps i with
      | none => rw [hr] at h; cases h
      | some x =>
        obtain ⟨q, qs⟩ := x
        rw [hr] at h
        simp only [Option.map_some, Option.some.injEq, Prod.mk.injEq] at h
        obtain ⟨rfl, rfl⟩ := h
        obtain ⟨h1, h2⟩ := ih hr
        refine ⟨List.mem_cons_of_mem _ h1, ?_⟩
        intro x hx
        rcases List.mem_cons.mp hx with rfl | hx
        · exact List.mem_cons_self
        · exact List.mem_cons_of_mem _ (h2 x hx)

/-- The invariant is preserved by every step. -/
theorem inv_step {s s' : State} (l : Label) (hi : Inv s) (hs : step s l = some s') : Inv s' := by
  cases l with
  | getLock code =>
    simp only [step] at hs
    split at hs
    · cases hs
      exact ⟨hi.cache_tiles, hi.cache_origin, hi.cache_computed, hi.pending_ok,
        (by intro p hp; cases hp), hi.log_ok⟩
    · cases hs
  | getHit =>
    simp only [step] at hs
    split at hs
    · next code hmu =>
      split at hs
      · next hc =>
        cases hs
        refine ⟨hi.cache_tiles, hi.cache_origin, hi.cache_computed, hi.pending_ok,
          (by intro p hp; cases hp), ?_⟩
        intro o ho
        rcases List.mem_cons.mp ho with rfl | ho
        · subst hc
          exact ⟨hi.cache_origin, hi.cache_tiles, hi.cache_computed⟩
        · exact hi.log_ok o ho
      · cases hs
    · cases hs
  | getMiss env =>
    simp only [step] at hs
    split at hs
    · next code hmu =>
      split at hs
      · cases hs
      · cases hr : runHighlight code env with
        | ok r =>
          obtain ⟨text, pend⟩ := r
          rw [hr] at hs
          simp only [Option.some.injEq] at hs
          subst hs
          obtain ⟨hT, hC, hP⟩ := runHighlight_ok hr
          refine ⟨hT, rfl, hC, ?_, (by intro p hp; cases hp), ?_⟩
          · intro p hp
            simp only [List.mem_append] at hp
            rcases hp with hp | hp
            · exact hi.pending_ok p hp
            · cases pend with
              | none => simp at hp
              | some q =>
                simp only [Option.toList_some, List.mem_singleton] at hp
                subst hp
                exact (hP _ rfl).2
          · intro o ho
            rcases List.mem_cons.mp ho with rfl | ho
            · exact ⟨rfl, hT, hC⟩
            · exact hi.log_ok o ho
        | exc e => rw [hr] at hs; cases hs
        | panic w => rw [hr] at hs; cases hs
    · cases hs
  | getPanic env =>
    simp only [step] at hs
    split at hs
    · next code hmu =>
      split at hs
      · cases hs
      · split at hs
        · cases hs
          exact ⟨hi.cache_tiles, hi.cache_origin, hi.cache_computed, hi.pending_ok,
            (by intro p hp; cases hp), hi.log_ok⟩
        · cases hs
    · cases hs
  | lateLock i =>
    simp only [step] at hs
    split at hs
    · split at hs
      · next p rest hrm =>
        cases hs
        obtain ⟨h1, h2⟩ := removeAt_mem hrm
        refine ⟨hi.cache_tiles, hi.cache_origin, hi.cache_computed,
          fun q hq => hi.pending_ok q (h2 q hq), ?_, hi.log_ok⟩
        intro q hq
        simp only [Option.some.injEq, Holder.late.injEq] at hq
        subst hq
        exact hi.pending_ok _ h1
      · cases hs
    · cases hs
  | lateStore answers =>
    simp only [step] at hs
    split at hs
    · next p hmu =>
      split at hs
      · next hc =>
        cases hr : restyle p.imm p.cmds answers with
        | ok late =>
          rw [hr] at hs
          simp only [Option.some.injEq] at hs
          subst hs
          obtain ⟨hc', sorted, hh⟩ := hi.holder_ok p hmu
          obtain ⟨hT, _⟩ := highlight_ok hh
          have hT' : Tiles s.code 0 late := by
            rw [hc.1]; exact tiles_congr (restyle_text _ _ _ _ hr) hT
          have hC' : Computed s.code late := by
            rw [hc.1]; exact ⟨_, _, _, _, hh, Or.inr ⟨_, hr⟩⟩
          refine ⟨hT', hc.1.symm, hC', hi.pending_ok, (by intro q hq; cases hq), ?_⟩
          intro o ho
          rcases List.mem_cons.mp ho with rfl | ho
          · exact ⟨hc.1.symm, hT', hC'⟩
          · exact hi.log_ok o ho
        | exc e => rw [hr] at hs; cases hs
        | panic w => rw [hr] at hs; cases hs
      · cases hs
    · cases hs
  | lateDrop =>
    simp only [step] at hs
    split at hs
    · next p hmu =>
      split at hs
      · cases hs
      · next hne =>
        cases hs
        refine ⟨hi.cache_tiles, hi.cache_origin, hi.cache_computed, hi.pending_ok,
          (by intro q hq; cases hq), ?_⟩
        intro o ho
        rcases List.mem_cons.mp ho with rfl | ho
        · exact fun h => hne h.symm
        · exact hi.log_ok o ho
    · cases hs
  | inval =>
    simp only [step] at hs
    split at hs
    · next hmu =>
      cases hs
      refine ⟨by simp [Tiles], rfl, init_inv.cache_computed, hi.pending_ok, ?_, hi.log_ok⟩
      intro p hp
      simp [hmu] at hp
    · cases hs

theorem reachable_inv {s : State} (h : Reachable s) : Inv s := by
  induction h with
  | init => exact init_inv
  | step l _ hs ih => exact inv_step l ih hs

end C30
