/-
C30 — lemmas about the pure part of the model: overlap filter, segment
assembly, late restyling.
-/
import ElvModel.C30.Model
namespace C30
open Go

/-! ### Vocabulary of the statements -/

/-- `0 ≤ Begin ≤ End ≤ n`. -/
def InBounds (n : Nat) (r : Region) : Prop := 0 ≤ r.b ∧ r.b ≤ r.e ∧ r.e ≤ (n : Int)

/-- A region list is ordered and non-overlapping from `lastEnd` on: every
region begins at or after the end of the one before it. -/
def Ordered : Int → List Region → Prop
  | _, [] => True
  | lastEnd, r :: rs => lastEnd ≤ r.b ∧ Ordered r.e rs

/-- `t` tiles `code` from byte offset `k` on: its segments are consecutive,
non-overlapping slices `code[k:m₁], code[m₁:m₂], …` in order, ending exactly at
`|code|`. -/
def Tiles (code : Bytes) : Nat → Text → Prop
  | k, [] => k = code.length
  | k, s :: rest => ∃ m, k ≤ m ∧ m ≤ code.length ∧ s.text = (code.drop k).take (m - k) ∧ Tiles code m rest

/-! ### Go.slice -/

theorem slice_ok {α} {s : List α} {i j : Int} {x : List α} (h : slice s i j = .ok x) :
    0 ≤ i ∧ i ≤ j ∧ j ≤ (s.length : Int) ∧ x = (s.drop i.toNat).take (j.toNat - i.toNat) := by
  unfold slice at h
  split at h
  · next hc => cases h; exact ⟨hc.1, hc.2.1, hc.2.2, rfl⟩
  · cases h

theorem slice_in {α} (s : List α) {i j : Int} (h0 : 0 ≤ i) (h1 : i ≤ j) (h2 : j ≤ (s.length : Int)) :
    slice s i j = .ok ((s.drop i.toNat).take (j.toNat - i.toNat)) := by
  unfold slice
  simp [h0, h1, h2]

/-! ### The overlap filter -/

theorem filterOverlap_ordered : ∀ (rs : List Region) (lastEnd : Int), Ordered lastEnd (filterOverlap rs lastEnd) := by
  intro rs
  induction rs with
  | nil => intro _; trivial
  | cons r rs ih =>
    intro lastEnd
    unfold filterOverlap
    split
    · exact ih lastEnd
    · next h => exact ⟨by omega, ih r.e⟩

theorem filterOverlap_sublist : ∀ (rs : List Region) (lastEnd : Int), (filterOverlap rs lastEnd).Sublist rs := by
  intro rs
  induction rs with
  | nil => intro _; exact List.Sublist.slnil
  | cons r rs ih =>
    intro lastEnd
    unfold filterOverlap
    split
    · exact (ih lastEnd).cons _
    · exact (ih r.e).cons_cons _

theorem filterOverlap_mem {rs : List Region} {lastEnd : Int} {r : Region}
    (h : r ∈ filterOverlap rs lastEnd) : r ∈ rs :=
  (filterOverlap_sublist rs lastEnd).subset h

/-- A region is dropped only because it begins before the end of a region kept
earlier (or before `lastEnd`): a region list that is already ordered passes
unchanged. -/
theorem filterOverlap_id : ∀ (rs : List Region) (lastEnd : Int), Ordered lastEnd rs → filterOverlap rs lastEnd = rs := by
  intro rs
  induction rs with
  | nil => intro _ _; rfl
  | cons r rs ih =>
    intro lastEnd h
    unfold filterOverlap
    have : ¬ r.b < lastEnd := by have := h.1; omega
    simp [this, ih r.e h.2]

/-! ### Tiles -/

theorem tiles_le {code : Bytes} : ∀ {t : Text} {k : Nat}, Tiles code k t → k ≤ code.length := by
  intro t
  induction t with
  | nil => intro k h; simp [Tiles] at h; omega
  | cons s rest _ => intro k h; obtain ⟨m, h1, h2, _, _⟩ := h; omega

/-- Tiling implies that the plain text is the code from `k` on. -/
theorem tiles_plain {code : Bytes} : ∀ {t : Text} {k : Nat}, Tiles code k t → plain t = code.drop k := by
  intro t
  induction t with
  | nil =>
    intro k h
    simp only [Tiles] at h
    simp [plain, h]
  | cons s rest ih =>
    intro k h
    obtain ⟨m, h1, h2, hs, hrest⟩ := h
    have := ih hrest
    simp only [plain, List.map_cons, List.flatten_cons] at this ⊢
    rw [this, hs]
    have e : code.drop m = (code.drop k).drop (m - k) := by
      rw [List.drop_drop]; congr 1; omega
    rw [e, List.take_append_drop]

/-- The texts of the segments, and nothing else, decide tiling. -/
theorem tiles_congr {code : Bytes} : ∀ {t t' : Text} {k : Nat}, t'.map (·.text) = t.map (·.text) →
    Tiles code k t → Tiles code k t' := by
  intro t
  induction t with
  | nil =>
    intro t' k h ht
    cases t' with
    | nil => exact ht
    | cons _ _ => simp at h
  | cons s rest ih =>
    intro t' k h ht
    cases t' with
    | nil => simp at h
    | cons s' rest' =>
      simp only [List.map_cons, List.cons.injEq] at h
      obtain ⟨m, h1, h2, hs, hrest⟩ := ht
      exact ⟨m, h1, h2, by rw [h.1, hs], ih h.2 hrest⟩

/-! ### Segment assembly -/

theorem regionSeg_text (hc : Bool) (r : Region) (rc : Bytes) : (regionSeg hc r rc).1.text = rc := by
  unfold regionSeg styleSegment
  split <;> (try split) <;> rfl

/-- A segment recorded as a command region is left unstyled. -/
theorem regionSeg_cmd {hc : Bool} {r : Region} {rc : Bytes} (h : (regionSeg hc r rc).2 = true) :
    (regionSeg hc r rc).1 = { style := {}, text := rc } := by
  unfold regionSeg at h ⊢
  split at h
  · split at h
    · next h1 h2 => simp [h1, h2]
    · simp at h
  · simp at h

/-- What a successful run of the assembly loop guarantees, whatever the region
list: the segments tile the code from `lastEnd` on, and every recorded command
region points at an unstyled segment holding the command's text. -/
theorem assembleFrom_ok (code : Bytes) (hc : Bool) :
    ∀ (rs : List Region) (lastEnd : Int) (n : Nat) (t : Text) (cmds : List CmdRegion),
      Ordered lastEnd rs → 0 ≤ lastEnd → lastEnd ≤ (code.length : Int) →
      assembleFrom code hc rs lastEnd n = .ok (t, cmds) →
      Tiles code lastEnd.toNat t ∧
      ∀ c ∈ cmds, n ≤ c.seg ∧ t[c.seg - n]? = some { style := {}, text := c.cmd } := by
  intro rs
  induction rs with
  | nil =>
    intro lastEnd n t cmds _ h0 h1 h
    unfold assembleFrom at h
    split at h
    · next hlt =>
      simp only [bind, Res.bind, pure] at h
      cases hs : slice code lastEnd code.length with
      | ok tail =>
        rw [hs] at h
        simp only [Res.ok.injEq, Prod.mk.injEq] at h
        obtain ⟨rfl, rfl⟩ := h
        obtain ⟨_, _, _, rfl⟩ := slice_ok hs
        refine ⟨⟨code.length, by omega, Nat.le_refl _, ?_, rfl⟩, by simp⟩
        simp
      | exc e => rw [hs] at h; cases h
      | panic w => rw [hs] at h; cases h
    · next hge =>
      simp only [pure] at h
      simp only [Res.ok.injEq, Prod.mk.injEq] at h
      obtain ⟨rfl, rfl⟩ := h
      refine ⟨?_, by simp⟩
      simp only [Tiles]; omega
  | cons r rs ih =>
    intro lastEnd n t cmds hord h0 h1 h
    obtain ⟨hb, hrest⟩ := hord
    unfold assembleFrom at h
    simp only [bind, Res.bind, pure] at h
    -- the gap
    by_cases hgap : r.b > lastEnd
    · simp only [hgap, if_true] at h
      cases hg : slice code lastEnd r.b with
      | exc e => rw [hg] at h; cases h
      | panic w => rw [hg] at h; cases h
      | ok g =>
        rw [hg] at h
        simp only at h
        cases hr : slice code r.b r.e with
        | exc e => rw [hr] at h; cases h
        | panic w => rw [hr] at h; cases h
        | ok rc =>
          rw [hr] at h
          simp only at h
          obtain ⟨_, _, hbl, rfl⟩ := slice_ok hg
          obtain ⟨hb0, hbe, hel, rfl⟩ := slice_ok hr
          cases hrec : assembleFrom code hc rs r.e (n + [({ style := {}, text := List.take (r.b.toNat - lastEnd.toNat) (List.drop lastEnd.toNat code) } : Seg)].length + 1) with
          | exc e => rw [hrec] at h; cases h
          | panic w => rw [hrec] at h; cases h
          | ok res =>
            obtain ⟨rest, restCmds⟩ := res
            rw [hrec] at h
            simp only [Res.ok.injEq, Prod.mk.injEq] at h
            obtain ⟨rfl, rfl⟩ := h
            obtain ⟨ihT, ihC⟩ := ih r.e _ rest restCmds hrest (by omega) hel hrec
            refine ⟨?_, ?_⟩
            · refine ⟨r.b.toNat, by omega, by omega, rfl, r.e.toNat, by omega, by omega, ?_, ihT⟩
              exact regionSeg_text _ _ _
            · intro c hcm
              simp only [List.mem_append] at hcm
              rcases hcm with hcm | hcm
              · split at hcm
                · next hcmd =>
                  simp only [List.mem_singleton] at hcm
                  subst hcm
                  simp only [List.length_singleton]
                  refine ⟨by omega, ?_⟩
                  have : n + 1 - n = 1 := by omega
                  simp [this, regionSeg_cmd hcmd]
                · simp at hcm
              · obtain ⟨h1', h2'⟩ := ihC c hcm
                simp only [List.length_singleton] at h1' h2'
                refine ⟨by omega, ?_⟩
                have e : c.seg - n = (c.seg - (n + 1 + 1)) + 2 := by omega
                rw [e]
                simpa using h2'
    · simp only [hgap, if_false] at h
      have hbeq : r.b = lastEnd := by omega
      cases hr : slice code r.b r.e with
      | exc e => rw [hr] at h; cases h
      | panic w => rw [hr] at h; cases h
      | ok rc =>
        rw [hr] at h
        simp only at h
        obtain ⟨hb0, hbe, hel, rfl⟩ := slice_ok hr
        cases hrec : assembleFrom code hc rs r.e (n + ([] : Text).length + 1) with
        | exc e => rw [hrec] at h; cases h
        | panic w => rw [hrec] at h; cases h
        | ok res =>
          obtain ⟨rest, restCmds⟩ := res
          rw [hrec] at h
          simp only [Res.ok.injEq, Prod.mk.injEq] at h
          obtain ⟨rfl, rfl⟩ := h
          obtain ⟨ihT, ihC⟩ := ih r.e _ rest restCmds hrest (by omega) hel hrec
          refine ⟨?_, ?_⟩
          · refine ⟨r.e.toNat, by omega, by omega, ?_, ihT⟩
            show (regionSeg hc r _).1.text = _
            rw [regionSeg_text, hbeq]
          · intro c hcm
            simp only [List.mem_append] at hcm
            rcases hcm with hcm | hcm
            · split at hcm
              · next hcmd =>
                simp only [List.mem_singleton] at hcm
                subst hcm
                simp only [List.length_nil]
                refine ⟨by omega, ?_⟩
                simp [regionSeg_cmd hcmd]
              · simp at hcm
            · obtain ⟨h1', h2'⟩ := ihC c hcm
              simp only [List.length_nil] at h1' h2'
              refine ⟨by omega, ?_⟩
              have e : c.seg - n = (c.seg - (n + 0 + 1)) + 1 := by omega
              rw [e]
              simpa using h2'

/-- In-bounds, ordered regions: no slice expression of the loop panics. -/
theorem assembleFrom_no_panic (code : Bytes) (hc : Bool) :
    ∀ (rs : List Region) (lastEnd : Int) (n : Nat),
      Ordered lastEnd rs → (∀ r ∈ rs, InBounds code.length r) → 0 ≤ lastEnd → lastEnd ≤ (code.length : Int) →
      ∃ t cmds, assembleFrom code hc rs lastEnd n = .ok (t, cmds) := by
  intro rs
  induction rs with
  | nil =>
    intro lastEnd n _ _ h0 h1
    unfold assembleFrom
    split
    · rw [slice_in code h0 h1 (Int.le_refl _)]
      exact ⟨_, _, rfl⟩
    · exact ⟨_, _, rfl⟩
  | cons r rs ih =>
    intro lastEnd n hord hin h0 h1
    obtain ⟨hb, hrest⟩ := hord
    obtain ⟨hb0, hbe, hel⟩ := hin r List.mem_cons_self
    have hin' : ∀ r' ∈ rs, InBounds code.length r' := fun r' h => hin r' (List.mem_cons_of_mem _ h)
    unfold assembleFrom
    simp only [bind, Res.bind, pure]
    rw [slice_in code hb0 hbe hel]
    by_cases hgap : r.b > lastEnd
    · simp only [hgap, if_true]
      rw [slice_in code h0 hb (by omega)]
      simp only
      obtain ⟨t, cmds, e⟩ := ih r.e (n + [({ style := {}, text := List.take (r.b.toNat - lastEnd.toNat) (List.drop lastEnd.toNat code) } : Seg)].length + 1) hrest hin' (by omega) hel
      rw [e]
      exact ⟨_, _, rfl⟩
    · simp only [hgap, if_false]
      obtain ⟨t, cmds, e⟩ := ih r.e (n + ([] : Text).length + 1) hrest hin' (by omega) hel
      rw [e]
      exact ⟨_, _, rfl⟩

/-! ### Late restyling -/

theorem restyleAt_text : ∀ (t : Text) (i : Nat) (st : Styling) (t' : Text),
    restyleAt t i st = .ok t' → t'.map (·.text) = t.map (·.text) := by
  intro t
  induction t with
  | nil => intro i st t' h; simp [restyleAt] at h
  | cons s rest ih =>
    intro i st t' h
    cases i with
    | zero =>
      simp only [restyleAt, Res.ok.injEq] at h
      subst h
      simp [styleSegment]
    | succ i =>
      simp only [restyleAt, bind, Res.bind, pure] at h
      cases hr : restyleAt rest i st with
      | ok rest' =>
        rw [hr] at h
        simp only [Res.ok.injEq] at h
        subst h
        simp [ih i st rest' hr]
      | exc e => rw [hr] at h; cases h
      | panic w => rw [hr] at h; cases h

theorem restyleAt_in : ∀ (t : Text) (i : Nat) (st : Styling), i < t.length → ∃ t', restyleAt t i st = .ok t' := by
  intro t
  induction t with
  | nil => intro i _ h; simp at h
  | cons s rest ih =>
    intro i st h
    cases i with
    | zero => exact ⟨_, rfl⟩
    | succ i =>
      obtain ⟨r', e⟩ := ih i st (by simpa using h)
      simp only [restyleAt, bind, Res.bind, pure, e]
      exact ⟨_, rfl⟩

/-- Late restyling leaves the text of every segment untouched. -/
theorem restyle_text : ∀ (cmds : List CmdRegion) (answers : List Bool) (t t' : Text),
    restyle t cmds answers = .ok t' → t'.map (·.text) = t.map (·.text) := by
  intro cmds
  induction cmds with
  | nil => intro answers t t' h; simp [restyle] at h; subst h; rfl
  | cons c cs ih =>
    intro answers t t' h
    cases answers with
    | nil => simp [restyle] at h; subst h; rfl
    | cons a as =>
      simp only [restyle, bind, Res.bind] at h
      cases hr : restyleAt t c.seg (if a then stylingForGoodCommand else stylingForBadCommand) with
      | ok t1 =>
        rw [hr] at h
        rw [ih as t1 t' h, restyleAt_text _ _ _ _ hr]
      | exc e => rw [hr] at h; cases h
      | panic w => rw [hr] at h; cases h

theorem map_text_length {t t' : Text} (h : t'.map (·.text) = t.map (·.text)) : t'.length = t.length := by
  have := congrArg List.length h
  simpa using this

/-- If every recorded segment index is inside the text, restyling does not panic. -/
theorem restyle_no_panic : ∀ (cmds : List CmdRegion) (answers : List Bool) (t : Text),
    (∀ c ∈ cmds, c.seg < t.length) → ∃ t', restyle t cmds answers = .ok t' := by
  intro cmds
  induction cmds with
  | nil => intro answers t _; exact ⟨t, by simp [restyle]⟩
  | cons c cs ih =>
    intro answers t h
    cases answers with
    | nil => exact ⟨t, by simp [restyle]⟩
    | cons a as =>
      obtain ⟨t1, e1⟩ := restyleAt_in t c.seg (if a then stylingForGoodCommand else stylingForBadCommand)
        (h c List.mem_cons_self)
      have hl := map_text_length (restyleAt_text _ _ _ _ e1)
      obtain ⟨t2, e2⟩ := ih as t1 (fun c' hc' => by rw [hl]; exact h c' (List.mem_cons_of_mem _ hc'))
      exact ⟨t2, by simp only [restyle, bind, Res.bind, e1, e2]⟩

theorem plain_congr {t t' : Text} (h : t'.map (·.text) = t.map (·.text)) : plain t' = plain t := by
  simp [plain, h]

end C30
