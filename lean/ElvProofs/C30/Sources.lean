/-
C30 — where the regions come from: parse nodes and parse errors.  By C01
(`C01_total_lossless`) every node of the tree `parse.Parse` returns and every
parse error has `from ≤ to ≤ |src|`, so the regions `getRegions` and
`addDiagError` build from them satisfy the hypothesis of
`C30_highlight_total_lossless`.  (`emitRegions` itself — WHICH nodes become
regions — is not modelled; any choice of nodes is covered.)
-/
import ElvProofs.C01
import ElvProofs.C30.Pure

theorem C30.parser_ranges_in_bounds (isPrint : Int → Bool) (src : Go.Bytes) :
    ∃ t errs, C01.parse isPrint src = .ok t errs ∧
      (∀ m, C01_Desc t m → ∀ k ty, C30.InBounds src.length ⟨m.frm, m.to, k, ty⟩) ∧
      (∀ x ∈ errs, ∀ k ty, C30.InBounds src.length ⟨x.frm, x.to, k, ty⟩) := by
  obtain ⟨t, errs, hp, hn, _, _, _, he⟩ := C01_total_lossless isPrint src
  refine ⟨t, errs, hp, ?_, ?_⟩
  · intro m hm k ty
    obtain ⟨h1, h2, _⟩ := hn m hm
    exact ⟨Int.natCast_nonneg _, by simpa using h1, by simpa using h2⟩
  · intro x hx k ty
    obtain ⟨h1, h2⟩ := he x hx
    exact ⟨Int.natCast_nonneg _, by simpa using h1, by simpa using h2⟩
