/-
C30 — the trace acceptor only ever holds reachable model states: every
candidate is produced from `Cand.init` by `step`.  Hence a recorded trace that
the driver accepts is an execution of the model, and everything proved for
`Reachable` states applies to it.
-/
import ElvModel.C30.Accept
namespace C30

def CandsOK (cs : List Cand) : Prop := ∀ c ∈ cs, Reachable c.s

theorem step_clear_ok {s : State} {l : Label} {x : Cand} (hr : Reachable s)
    (hx : x ∈ ((step s l).map clearScratch).toList) : Reachable x.s := by
  cases hs : step s l with
  | none => simp [hs] at hx
  | some s' =>
    simp only [hs, Option.map_some, Option.toList_some, List.mem_singleton] at hx
    subst hx
    exact Reachable.step l hr hs

theorem resolvePanic_ok {hasCmd : Bool} {c c' : Cand} (hr : Reachable c.s)
    (h : resolvePanic hasCmd c = some c') : Reachable c'.s := by
  unfold resolvePanic at h
  split at h
  · split at h
    · next sorted _ =>
      cases hs : step c.s (.getPanic { hasCmd := hasCmd, sorted := sorted, fast := none }) with
      | none => simp [hs] at h
      | some s' =>
        simp only [hs, Option.map_some, Option.some.injEq] at h
        subst h
        exact Reachable.step _ hr hs
    · cases h
  · cases h; exact hr

theorem applyEntry_ok (hasCmd : Bool) (c0 : Cand) (e : Entry) (hr : Reachable c0.s) :
    CandsOK (applyEntry hasCmd c0 e) := by
  intro x hx
  cases e with
  | GL code =>
    simp only [applyEntry] at hx
    split at hx
    · next c hc => exact step_clear_ok (resolvePanic_ok hr hc) hx
    · simp at hx
  | RP code regions =>
    simp only [applyEntry] at hx
    split at hx
    · split at hx
      · simp only [List.mem_singleton] at hx; subst hx; exact hr
      · simp at hx
    · simp at hx
  | RS sorted =>
    simp only [applyEntry] at hx
    split at hx
    · split at hx
      · simp only [List.mem_singleton] at hx; subst hx; exact hr
      · simp at hx
    · simp at hx
  | RF fixed =>
    simp only [applyEntry] at hx
    split at hx
    · split at hx
      · simp only [List.mem_singleton] at hx; subst hx; exact hr
      · simp at hx
    · simp at hx
  | HN =>
    simp only [applyEntry] at hx
    split at hx
    · simp only [List.mem_singleton] at hx; subst hx; exact hr
    · simp at hx
  | HF =>
    simp only [applyEntry] at hx
    split at hx
    · simp only [List.mem_singleton] at hx; subst hx; exact hr
    · simp at hx
  | HI =>
    simp only [applyEntry] at hx
    split at hx
    · simp only [List.mem_singleton] at hx; subst hx; exact hr
    · simp at hx
  | GM code text =>
    simp only [applyEntry] at hx
    split at hx
    · split at hx
      · simp at hx
      · split at hx
        · next s' hs =>
          split at hx
          · simp only [List.mem_singleton] at hx; subst hx
            exact Reachable.step _ hr hs
          · simp at hx
        · simp at hx
    · simp at hx
  | GH code text =>
    simp only [applyEntry] at hx
    split at hx
    · split at hx
      · simp at hx
      · split at hx
        · next s' hs =>
          split at hx
          · simp only [List.mem_singleton] at hx; subst hx
            exact Reachable.step _ hr hs
          · simp at hx
        · simp at hx
    · simp at hx
  | LL code =>
    simp only [applyEntry] at hx
    split at hx
    · next c hc =>
      have hrc := resolvePanic_ok hr hc
      simp only [List.mem_filterMap] at hx
      obtain ⟨i, _, hi⟩ := hx
      split at hi
      · next s' hs =>
        split at hi
        · split at hi
          · simp only [Option.some.injEq] at hi; subst hi
            exact Reachable.step _ hrc hs
          · cases hi
        · cases hi
      · cases hi
    · simp at hx
  | LS code text =>
    simp only [applyEntry] at hx
    split at hx
    · split at hx
      · simp at hx
      · split at hx
        · next s' hs =>
          split at hx
          · simp only [List.mem_singleton] at hx; subst hx
            exact Reachable.step _ hr hs
          · simp at hx
        · simp at hx
    · simp at hx
  | LD code cached =>
    simp only [applyEntry] at hx
    split at hx
    · split at hx
      · simp at hx
      · exact step_clear_ok hr hx
    · simp at hx
  | IV =>
    simp only [applyEntry] at hx
    split at hx
    · next c hc => exact step_clear_ok (resolvePanic_ok hr hc) hx
    · simp at hx

theorem insertNew_ok {acc : List Cand} {c : Cand} (ha : CandsOK acc) (hc : Reachable c.s) :
    CandsOK (insertNew acc c) := by
  unfold insertNew
  split
  · exact ha
  · intro x hx
    rcases List.mem_append.mp hx with h | h
    · exact ha x h
    · simp only [List.mem_singleton] at h; subst h; exact hc

theorem foldl_insertNew_ok : ∀ (l acc : List Cand), CandsOK acc → CandsOK l → CandsOK (l.foldl insertNew acc) := by
  intro l
  induction l with
  | nil => intro acc ha _; exact ha
  | cons c l ih =>
    intro acc ha hl
    exact ih _ (insertNew_ok ha (hl c List.mem_cons_self)) (fun x hx => hl x (List.mem_cons_of_mem _ hx))

theorem accept_ok (hasCmd : Bool) (e : Entry) : ∀ (cs acc : List Cand), CandsOK cs → CandsOK acc →
    CandsOK (cs.foldl (fun acc c => (applyEntry hasCmd c e).foldl insertNew acc) acc) := by
  intro cs
  induction cs with
  | nil => intro acc _ ha; exact ha
  | cons c cs ih =>
    intro acc hcs ha
    exact ih _ (fun x hx => hcs x (List.mem_cons_of_mem _ hx))
      (foldl_insertNew_ok _ _ ha (applyEntry_ok hasCmd c e (hcs c List.mem_cons_self)))

theorem finish_ok (hasCmd : Bool) {cs : List Cand} (h : CandsOK cs) : CandsOK (finish hasCmd cs) := by
  intro x hx
  simp only [finish, List.mem_filterMap] at hx
  obtain ⟨c, hc, hx⟩ := hx
  split at hx
  · next c' hc' =>
    split at hx
    · simp only [Option.some.injEq] at hx; subst hx
      exact resolvePanic_ok (h c hc) hc'
    · cases hx
  · cases hx

theorem init_cands_ok : CandsOK [Cand.init] := by
  intro c hc
  simp only [List.mem_singleton] at hc
  subst hc
  exact Reachable.init

end C30
