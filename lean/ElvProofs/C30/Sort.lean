/-
C30 — the contract of `sort.Slice(regions, less)`: the executable check used
by the driver is sound for the declarative contract, and the contract is
satisfiable for every input (insertion sort).
-/
import ElvModel.C30.Model
namespace C30

/-- What `sort.Slice` guarantees: a permutation of the input in which no later
element is `less` than an earlier one. (Not stable: ties in any order.) -/
def SortedPerm (input sorted : List Region) : Prop :=
  sorted.Perm input ∧ sorted.Pairwise (fun a b => less b a = false)

theorem less_iff (x y : Region) :
    less x y = true ↔ x.b < y.b ∨ (x.b = y.b ∧ x.kind = .semantic ∧ y.kind = .lexical) := by
  unfold less
  by_cases h1 : x.b < y.b
  · simp [h1]
  · by_cases h2 : x.b = y.b
    · simp [h2]
    · simp [h1, h2]

theorem less_asymm {x y : Region} (h : less x y = true) : less y x = false := by
  rw [less_iff] at h
  cases hyx : less y x with
  | false => rfl
  | true =>
    rw [less_iff] at hyx
    rcases h with h | ⟨h1, h2, h3⟩ <;> rcases hyx with h' | ⟨h1', h2', h3'⟩
    · omega
    · omega
    · omega
    · rw [h2'] at h3; cases h3

theorem less_trans {x y z : Region} (h1 : less x y = true) (h2 : less y z = true) : less x z = true := by
  rw [less_iff] at h1 h2 ⊢
  rcases h1 with h | ⟨a1, a2, a3⟩ <;> rcases h2 with h' | ⟨b1, b2, b3⟩
  · left; omega
  · left; omega
  · left; omega
  · rw [a3] at b2; cases b2

/-- Incomparability is transitive too (`less` is a strict weak order), in the
form used below. -/
theorem not_less_trans {x y z : Region} (h1 : less y x = false) (h2 : less z y = false) : less z x = false := by
  cases h : less z x with
  | false => rfl
  | true =>
    rw [less_iff] at h
    have n1 : ¬ (y.b < x.b ∨ (y.b = x.b ∧ y.kind = .semantic ∧ x.kind = .lexical)) := by
      rw [← less_iff]; simp [h1]
    have n2 : ¬ (z.b < y.b ∨ (z.b = y.b ∧ z.kind = .semantic ∧ y.kind = .lexical)) := by
      rw [← less_iff]; simp [h2]
    exfalso
    rcases h with h | ⟨e, k1, k2⟩
    · apply n1; left
      have : ¬ z.b < y.b := fun h' => n2 (Or.inl h')
      omega
    · have hzy : ¬ z.b < y.b := fun h' => n2 (Or.inl h')
      have hyx : ¬ y.b < x.b := fun h' => n1 (Or.inl h')
      have e1 : z.b = y.b := by omega
      have e2 : y.b = x.b := by omega
      cases hk : y.kind with
      | lexical => exact n2 (Or.inr ⟨e1, k1, hk⟩)
      | semantic => exact n1 (Or.inr ⟨e2, hk, k2⟩)

theorem isSorted_iff (l : List Region) : isSorted l = true ↔ l.Pairwise (fun a b => less b a = false) := by
  induction l with
  | nil => simp [isSorted]
  | cons x rest ih =>
    simp only [isSorted, Bool.and_eq_true, List.all_eq_true, Bool.not_eq_true', List.pairwise_cons, ih]

theorem eraseFirst_perm {x : Region} : ∀ {l l' : List Region}, eraseFirst x l = some l' → l.Perm (x :: l') := by
  intro l
  induction l with
  | nil => intro l' h; simp [eraseFirst] at h
  | cons y ys ih =>
    intro l' h
    unfold eraseFirst at h
    split at h
    · next e => cases h; subst e; exact List.Perm.refl _
    · cases he : eraseFirst x ys with
      | none => rw [he] at h; cases h
      | some r =>
        rw [he] at h
        simp only [Option.map_some, Option.some.injEq] at h
        subst h
        exact ((ih he).cons y).trans (List.Perm.swap x y r)

theorem isPerm_sound : ∀ {a b : List Region}, isPerm a b = true → a.Perm b := by
  intro a
  induction a with
  | nil =>
    intro b h
    cases b with
    | nil => exact List.Perm.refl _
    | cons _ _ => simp [isPerm] at h
  | cons x a ih =>
    intro b h
    unfold isPerm at h
    cases he : eraseFirst x b with
    | none => rw [he] at h; cases h
    | some b' =>
      rw [he] at h
      exact ((ih h).cons x).trans (eraseFirst_perm he).symm

/-- The driver's executable check implies the declarative contract. -/
theorem sortContract_sound {input sorted : List Region} (h : sortContract input sorted = true) :
    SortedPerm input sorted := by
  unfold sortContract at h
  simp only [Bool.and_eq_true] at h
  exact ⟨isPerm_sound h.1, (isSorted_iff _).mp h.2⟩

theorem insertSorted_perm (x : Region) : ∀ l : List Region, (insertSorted x l).Perm (x :: l) := by
  intro l
  induction l with
  | nil => exact List.Perm.refl _
  | cons y ys ih =>
    unfold insertSorted
    split
    · exact List.Perm.refl _
    · exact (ih.cons y).trans (List.Perm.swap x y ys)

theorem insertSorted_sorted (x : Region) : ∀ l : List Region,
    l.Pairwise (fun a b => less b a = false) → (insertSorted x l).Pairwise (fun a b => less b a = false) := by
  intro l
  induction l with
  | nil => intro _; simp [insertSorted]
  | cons y ys ih =>
    intro h
    obtain ⟨hy, hys⟩ := List.pairwise_cons.mp h
    unfold insertSorted
    split
    · next hlt =>
      refine List.pairwise_cons.mpr ⟨?_, h⟩
      intro z hz
      rcases List.mem_cons.mp hz with rfl | hz
      · exact less_asymm hlt
      · -- z after y: less z y = false, and less x y: then less z x = false
        cases hzx : less z x with
        | false => rfl
        | true => have := less_trans hzx hlt; rw [hy z hz] at this; cases this
    · next hnl =>
      have hnl' : less x y = false := by simpa using hnl
      refine List.pairwise_cons.mpr ⟨?_, ih hys⟩
      intro z hz
      have := (insertSorted_perm x ys).subset hz
      rcases List.mem_cons.mp this with rfl | hz'
      · exact hnl'
      · exact hy z hz'

/-- The contract is satisfiable for every input: insertion sort meets it. -/
theorem sortRegions_contract : ∀ l : List Region, SortedPerm l (sortRegions l) := by
  intro l
  induction l with
  | nil => exact ⟨List.Perm.refl _, List.Pairwise.nil⟩
  | cons x xs ih =>
    unfold sortRegions
    exact ⟨(insertSorted_perm x _).trans (ih.1.cons x), insertSorted_sorted x _ ih.2⟩

end C30
