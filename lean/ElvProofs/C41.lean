import ElvModel.C41.Spec
import ElvProofs.C41.Split
import ElvProofs.C41.Codepoints
import ElvProofs.C41.RepeatQuote
import ElvProofs.C41.Re
import ElvProofs.C41.ReSplit
import ElvProofs.C41.Replace
open Go C41

/-!
# C41 — string and regex builtins satisfy their algebraic laws

All theorems are about the executable model `ElvModel/C41/{Strings,Str,Re}.lean`
(tied to pkg/mods/str and pkg/mods/re by `./check C41` through a real Evaler),
for EVERY byte string — valid UTF-8 or not — and are stated against the spec
vocabulary of `ElvModel/C41/Spec.lean`.

What is NOT provable here, because it is a property of Go's `regexp`,
`strings` and `unicode` packages and not of elvish code — "a quoted pattern
matches exactly the literal text" (semantics of the regexp engine), the Unicode
case mappings, `trim-space`, `fields`, `equal-fold` — is checked by the
implementation-side oracle on sampled inputs only.  The lexical half of the
quoting law is proved (`C41_quote_*`).  The regexp engine is abstract: the
`re:` theorems hold for every match list satisfying the contract `EngineOk`
(the oracle validates the contract on every match list Go's engine returns
during the run).
-/

/-! ## split / join -/

/-- Joining a split with the same separator gives back the original: every
string (also invalid UTF-8), every separator (also the empty one: split into
UTF-8 sequences), every `&max` except 0. -/
theorem C41_split_join (s sep : Bytes) (max : Int) (h : max ≠ 0) :
    join sep ((split max sep s).map Val.str) = .ok s := by
  rw [join_strs]; unfold split; rw [intercal_splitN s sep max h]

example : split (-1) [44] [97, 44, 0xC3, 0xA9, 44] = [[97], [0xC3, 0xA9], []] := by decide
example : split (-1) [] [97, 0xFF, 0xC3, 0xA9] = [[97], [0xFF], [0xC3, 0xA9]] := by decide
example : split 2 [44] [97, 44, 98, 44, 99] = [[97], [98, 44, 99]] := by decide

/-- `&max=0` outputs nothing (so the round trip needs `max ≠ 0`). -/
theorem C41_split_max_zero (s sep : Bytes) : split 0 sep s = [] := by
  simp [split, splitN]

/-- `str:join` of strings is the strings with the separator in between. -/
theorem C41_join_strings (sep : Bytes) (l : List Bytes) :
    join sep (l.map Val.str) = .ok (intercal sep l) := join_strs sep l

example : join [44] [.str [97], .str [], .str [98]] = .ok [97, 44, 44, 98] := by decide

/-- A non-string input makes `str:join` fail with a type error naming the kind
of the first such input; nothing is output. -/
theorem C41_join_type_error (sep : Bytes) (pre : List Bytes) (k : String) (rest : List Val) :
    join sep (pre.map Val.str ++ Val.other k :: rest) =
      .exc (badValue "input to str:join" "string" k) := join_type_error sep pre k rest

example : join [44] [.str [97], .other "list", .other "map"] = .exc "BV|input to str:join|string|list" := by
  decide

/-! ## code points -/

/-- `to-codepoints` prints numerals that read back as the runes of `s`, and
`from-codepoints` of those is the re-encoding of the runes … -/
theorem C41_codepoints_roundtrip (s : Bytes) :
    (toCodepoints s).mapM parseHexChars = some (toRunes s) ∧
    fromCodepoints ((toRunes s).map Int.ofNat) = .ok (encodeRunes (toRunes s)) := by
  refine ⟨?_, fromCodepoints_runes _ (toRunes_validRune s)⟩
  unfold toCodepoints
  apply mapM_parse_fmtHex
  intro n hn
  have := validRune_le (toRunes_validRune s n hn)
  omega

/-- … which is `s` itself exactly when `s` is valid UTF-8 (an invalid byte comes
back as U+FFFD). -/
theorem C41_codepoints_roundtrip_iff (s : Bytes) :
    fromCodepoints ((toRunes s).map Int.ofNat) = .ok s ↔ validUtf8 s = true := by
  rw [(C41_codepoints_roundtrip s).2]
  constructor
  · intro h
    injection h with h
    rw [← h]; exact validUtf8_encodeRunes _
  · intro h; rw [encodeRunes_toRunes h]

example : toCodepoints [0x61, 0xE4, 0xB8, 0x96] = [['0', 'x', '6', '1'], ['0', 'x', '4', 'e', '1', '6']] := by
  simp [toCodepoints, toRunes, runes, runesFrom, decodeRune, isCont, fmtHex, hexChars, hexRev, hexDigit]
example : fromCodepoints [0x61, 0x4E16] = .ok [0x61, 0xE4, 0xB8, 0x96] := by decide
/-- an invalid byte reads as U+FFFD and comes back as its three-byte encoding -/
example : fromCodepoints [0xFFFD] = .ok [0xEF, 0xBF, 0xBD] := by decide

/-- `from-codepoints` succeeds exactly on lists of Unicode scalar values … -/
theorem C41_from_codepoints_ok_iff (nums : List Int) :
    (∃ b, fromCodepoints nums = .ok b) ↔ ∀ n ∈ nums, 0 ≤ n ∧ n ≤ 0x10FFFF ∧ ¬ isSurrogate n := by
  constructor
  · intro ⟨b, hb⟩
    have key : ∀ (nums : List Int) (buf : Bytes), (∃ b, fromCodepointsLoop nums buf = .ok b) →
        ∀ n ∈ nums, GoodCp n := by
      intro nums
      induction nums with
      | nil => intro _ _ n hn; simp at hn
      | cons a l ih =>
        intro buf ⟨b, hb⟩ n hn
        unfold fromCodepointsLoop at hb
        split at hb
        · simp at hb
        · rename_i hr
          split at hb
          · simp at hb
          · rename_i hv
            have hv : validRune a.toNat = true := by simpa using hv
            have ha : GoodCp a := by
              refine ⟨by omega, by omega, ?_⟩
              have := validRune_iff.mp hv
              simp only [isSurrogate]; omega
            simp only [List.mem_cons] at hn
            rcases hn with rfl | hn
            · exact ha
            · exact ih _ ⟨b, hb⟩ n hn
    exact key nums [] ⟨b, hb⟩
  · intro h
    have := fromCodepointsLoop_good nums [] h []
    simp only [List.append_nil, List.nil_append] at this
    exact ⟨_, by unfold fromCodepoints; rw [this]; rfl⟩

/-- … and the error is decided by the first offending argument: out of
`[0, 0x10FFFF]` ⇒ out-of-range error, a surrogate ⇒ bad-value error. -/
theorem C41_from_codepoints_errors (pre rest : List Int) (n : Int)
    (hpre : ∀ m ∈ pre, 0 ≤ m ∧ m ≤ 0x10FFFF ∧ ¬ isSurrogate m) :
    ((n < 0 ∨ n > 0x10FFFF) → fromCodepoints (pre ++ n :: rest) =
      .exc (outOfRange "codepoint" "0" "1114111" (String.ofList (hexOfInt n)))) ∧
    (isSurrogate n → fromCodepoints (pre ++ n :: rest) =
      .exc (badValue "argument to str:from-codepoints" "valid Unicode codepoint" (String.ofList (hexOfInt n)))) := by
  unfold fromCodepoints
  rw [fromCodepointsLoop_good pre _ hpre]
  constructor
  · intro h
    unfold fromCodepointsLoop
    rw [if_pos h]
  · intro ⟨h1, h2⟩
    unfold fromCodepointsLoop
    rw [if_neg (by omega)]
    have hv : validRune n.toNat = false := by
      cases hv : validRune n.toNat with
      | false => rfl
      | true => have := validRune_iff.mp hv; omega
    simp [hv]

example : fromCodepoints [0x61, 0xD800] =
    .exc "BV|argument to str:from-codepoints|valid Unicode codepoint|0xd800" := by decide
example : fromCodepoints [0x110000] = .exc "OOR|codepoint|0|1114111|0x110000" := by decide
example : fromCodepoints [-1] = .exc "OOR|codepoint|0|1114111|-0x1" := by decide

/-! ## UTF-8 bytes -/

/-- `to-utf8-bytes` prints numerals that read back as the bytes of `s`;
`from-utf8-bytes` of them is `s` for valid UTF-8 and a bad-value error otherwise. -/
theorem C41_utf8_bytes_roundtrip (s : Bytes) :
    (toUtf8Bytes s).mapM parseHexChars = some (s.map UInt8.toNat) ∧
    fromUtf8Bytes ((s.map UInt8.toNat).map Int.ofNat) =
      if validUtf8 s then .ok s
      else .exc (badValue "arguments to str:from-utf8-bytes" "valid UTF-8 sequence" (fmtByteList s)) := by
  refine ⟨mapM_parse_toUtf8Bytes s, ?_⟩
  have := fromUtf8BytesLoop_bytes s []
  simp only [List.nil_append] at this
  unfold fromUtf8Bytes
  simp only [List.map_map, Function.comp_def, Int.ofNat_eq_natCast]
  rw [this]
  cases hv : validUtf8 s <;> simp [fromUtf8BytesLoop, hv]

example : fromUtf8Bytes [0xE4, 0xB8, 0x96] = .ok [0xE4, 0xB8, 0x96] := by decide
example : fromUtf8Bytes [0xE4, 0xB8] =
    .exc "BV|arguments to str:from-utf8-bytes|valid UTF-8 sequence|[228 184]" := by decide
example : fromUtf8Bytes [97, 256] = .exc "OOR|byte|0|255|256" := by decide

/-! ## repeat -/

/-- `str:repeat` (with fixes/C41-repeat-overflow.patch) never panics: for every
string and every count, also counts whose product with the length wraps around
64 bits. -/
theorem C41_repeat_no_panic (s : Bytes) (n : Int) : (strRepeat s n).isPanic = false := by
  unfold strRepeat
  split
  · rfl
  · rename_i h0
    split
    · rfl
    · rename_i hg
      have h0 : 0 ≤ n := by omega
      have : ¬ (s.length : Int) * n > maxInt := fun h => hg ((guard_iff s n h0).mpr h)
      rw [stringsRepeat_ok s n h0 (by omega)]
      rfl

/-- It fails exactly when the count is negative or the result length overflows `int`. -/
theorem C41_repeat_error_iff (s : Bytes) (n : Int) :
    (∃ e, strRepeat s n = .exc e) ↔ (n < 0 ∨ (s.length : Int) * n > maxInt) := by
  unfold strRepeat
  by_cases h0 : n < 0
  · simp [h0]
  · have h0' : 0 ≤ n := by omega
    rw [if_neg h0]
    by_cases hg : s.length > 0 ∧ n > maxInt / (s.length : Int)
    · rw [if_pos hg]
      have := (guard_iff s n h0').mp hg
      simp [this]
    · rw [if_neg hg]
      have hng : ¬ (s.length : Int) * n > maxInt := fun h => hg ((guard_iff s n h0').mpr h)
      rw [stringsRepeat_ok s n h0' (by omega)]
      simp [h0, hng]

/-- Otherwise the result is `n` copies of `s`, of length `|s|·n`. -/
theorem C41_repeat_result (s : Bytes) (n : Int) (h0 : 0 ≤ n) (h : (s.length : Int) * n ≤ maxInt) :
    strRepeat s n = .ok (List.replicate n.toNat s).flatten ∧
    ((List.replicate n.toNat s).flatten.length : Int) = s.length * n := by
  constructor
  · unfold strRepeat
    rw [if_neg (by omega), if_neg (fun hg => by have := (guard_iff s n h0).mp hg; omega)]
    exact stringsRepeat_ok s n h0 h
  · rw [length_flatten_replicate]
    obtain ⟨k, rfl⟩ := Int.eq_ofNat_of_zero_le h0
    simp [Int.mul_comm]

example : strRepeat [97, 98] 3 = .ok [97, 98, 97, 98, 97, 98] := by decide
example : strRepeat [97, 98, 99] 6148914691236517206 =
    .exc "BV|n|small enough not to overflow result|6148914691236517206" := by decide

/-- The guard of the UNCHANGED tree, `len(s)*n < 0` on the wrapped product, misses
a product that wraps to a positive number: `strings.Repeat` itself panics and the
interpreter dies (`str:repeat abc 6148914691236517206`, 3·n = 2^64 + 2).  Replayed
on the real code by harness/corpus/C41.txt. -/
theorem C41_repeat_orig_counterexample :
    ¬ ∀ (s : Bytes) (n : Int), (repeatOrig s n).isPanic = false := by
  intro h
  have := h [97, 98, 99] 6148914691236517206
  revert this
  decide

/-! ## re:find -/

/-- Given the engine contract, `re:find` never panics and emits, for each of the
first `&max` matches, `source[start:end]` with its positions, and for every
capture group either its text and positions or — if the group did not take
part — `""`, `-1`, `-1`. -/
theorem C41_find (src : Bytes) (full : List Match) (max : Int) (h : EngineOk src.length full) :
    reFind true max src full = .ok ((takeMax full max).map (matchSpec src)) := by
  unfold reFind
  simp only [Bool.not_true, Bool.false_eq_true, if_false]
  exact mapRes_ok _ _ _ fun m hm => findOne_ok src m (h.shape m (mem_takeMax hm))

/-- what `matchSpec` says about an unmatched and a matched group -/
theorem C41_find_group_value (src : Bytes) (s e : Int) :
    groupSpec src (-1) (-1) = { text := [], start := -1, stop := -1 } ∧
    (0 ≤ s → groupSpec src s e = { text := sub src s e, start := s, stop := e }) := by
  refine ⟨rfl, fun h => ?_⟩
  unfold groupSpec
  rw [if_neg (by omega)]

/-- a pattern the engine rejects is an exception, never a crash -/
theorem C41_find_bad_pattern (src : Bytes) (full : List Match) (max : Int) :
    reFind false max src full = .exc "bad-pattern" := rfl

example : EngineOk 3 [[0, 1, 0, 1, -1, -1], [2, 3, -1, -1, 2, 3]] :=
  ⟨by intro m hm; simp at hm; rcases hm with rfl | rfl <;> simp [MatchOk, GroupsOk], by simp [Asc],
   by simp [EndsIncrease]⟩
example : reFind true (-1) [97, 120, 98] [[0, 1, 0, 1, -1, -1], [2, 3, -1, -1, 2, 3]] =
    .ok [⟨[97], 0, 1, [⟨[97], 0, 1⟩, ⟨[97], 0, 1⟩, ⟨[], -1, -1⟩]⟩,
         ⟨[98], 2, 3, [⟨[98], 2, 3⟩, ⟨[], -1, -1⟩, ⟨[98], 2, 3⟩]⟩] := by decide
/-- outside the contract the slice does panic (the hypothesis matters) -/
example : (reFind true (-1) [97] [[0, 2]]).isPanic = true := by decide

/-! ## re:replace and re:split are functions of the same match positions -/

/-- Literal replacement: the gaps between the matches `re:find` reports, with the
replacement in between. -/
theorem C41_re_replace_literal (isName : Rune → Bool) (names : List Bytes) (r src : Bytes)
    (full : List Match) (h : EngineOk src.length full) :
    reReplace true true isName names (.str r) src full = .ok (intercal r (gaps src 0 full)) := by
  unfold reReplace
  simp only [Bool.not_true, Bool.false_eq_true, if_false, if_true]
  rw [replaceAllLoop_ok src _ (fun _ => r) () full 0 [] h.shape (fun _ _ => rfl) h.asc
    (Int.le_refl _) (by omega)]
  simp [bind, Res.bind, pure, spliceSpec_gaps src r full 0 h.shape]

/-- Function replacement (a function that outputs one string `f text`): every
match is replaced by `f` of exactly the text `re:find` reports for it. -/
theorem C41_re_replace_fn (isName : Rune → Bool) (names : List Bytes) (f : Bytes → Bytes) (src : Bytes)
    (full : List Match) (h : EngineOk src.length full) :
    reReplace true false isName names (.fn fun t => .vals [.str (f t)]) src full =
      .ok (spliceSpec src (fun m => f (matchSpec src m).text) 0 full) := by
  unfold reReplace
  simp only [Bool.not_true, Bool.false_eq_true, if_false]
  rw [replaceAllLoop_ok src _ (fun m => f (matchSpec src m).text) none full 0 [] h.shape ?_ h.asc
    (Int.le_refl _) (by omega)]
  · simp [bind, Res.bind, pure]
  · intro m hm
    have hmo := h.shape m hm
    rcases m with _ | ⟨s, _ | ⟨e, gs⟩⟩
    · simp [MatchOk] at hmo
    · simp [MatchOk] at hmo
    · obtain ⟨⟨h0, h1, h2⟩, _⟩ := hmo
      simp [index, bind, Res.bind, pure, slice_ok src s e h0 h1 h2, replFunc, matchSpec]

/-- In particular, replacing every match by itself gives the source back: find and
replace agree on the positions. -/
theorem C41_re_replace_identity (isName : Rune → Bool) (names : List Bytes) (src : Bytes)
    (full : List Match) (h : EngineOk src.length full) :
    reReplace true false isName names (.fn fun t => .vals [.str t]) src full = .ok src := by
  have h1 := C41_re_replace_fn isName names id src full h
  have h2 := spliceSpec_self src full 0 h.shape h.asc (Int.le_refl _) (by omega)
  exact h1.trans (by simpa using h2)

/-- `re:split` (all matches): the same gaps, by Go's documented rule — no empty
first piece before an empty match at 0, no last piece when the last match starts
at the end of the text.  No panic. -/
theorem C41_re_split (exprEmpty : Bool) (src : Bytes) (max : Int) (full : List Match)
    (hn : max < 0) (h : EngineOk src.length full) (hne : exprEmpty = true ∨ src ≠ []) :
    reSplit true exprEmpty max src full = .ok (piecesSpec src full) := by
  unfold reSplit
  simp only [Bool.not_true, Bool.false_eq_true, if_false]
  exact regexpSplit_pieces exprEmpty src max full hn h hne

example : regexpSplit false [97, 44, 98, 44] (-1) [[1, 2], [3, 4]] = .ok [[97], [98], []] := by decide
example : piecesSpec [97, 44, 98, 44] [[1, 2], [3, 4]] = [[97], [98], []] := by decide
example : reReplace true true (fun _ => false) [[]] (.str [45]) [97, 44, 98, 44] [[1, 2], [3, 4]] =
    .ok [97, 45, 98, 45] := by decide

/-- A replacement template without `$` is a literal replacement. -/
theorem C41_re_replace_template_partial (isName : Rune → Bool) (names : List Bytes) (t src : Bytes)
    (full : List Match) (h : EngineOk src.length full) (ht : cutDollar t = none) :
    reReplace true false isName names (.str t) src full = .ok (intercal t (gaps src 0 full)) := by
  unfold reReplace
  simp only [Bool.not_true, Bool.false_eq_true, if_false]
  rw [replaceAllLoop_ok src _ (fun _ => t) () full 0 [] h.shape ?_ h.asc (Int.le_refl _) (by omega)]
  · simp [bind, Res.bind, pure, spliceSpec_gaps src t full 0 h.shape]
  · intro m _
    simp [expand, expandLoop, ht, bind, Res.bind, pure]

/-- NOT PROVED (time-boxed): for every template, expansion (`$1`, `${name}`, `$$`,
malformed references) neither panics nor runs out of fuel under the engine
contract.  Only the `$`-free case above is proved; the general case is covered
by the correspondence run (templates from `templPieces` in the harness). -/
def C41_re_replace_template_full : Prop :=
  ∀ (isName : Rune → Bool) (names : List Bytes) (t src : Bytes) (full : List Match),
    EngineOk src.length full → ∃ b, reReplace true false isName names (.str t) src full = .ok b

/-! ## re:quote -/

/-- The quoted pattern contains no unescaped metacharacter (and no dangling
backslash): lexically it is a sequence of plain bytes and `\x` escapes … -/
theorem C41_quote_no_unescaped_meta (s : Bytes) : hasUnescapedMeta (quoteMeta s) = false :=
  hasUnescapedMeta_quoteMeta s

/-- … whose literal reading is exactly the text. -/
theorem C41_quote_denotes_literal (s : Bytes) : unquote (quoteMeta s) = s := unquote_quoteMeta s

example : quoteMeta [97, 46, 42, 92] = [97, 92, 46, 92, 42, 92, 92] := by decide
example : hasUnescapedMeta [97, 46] = true := by decide

/-! ## strings.Replace (library, modelled from its source) -/

/-- `str:replace` never reaches the slice expression that would panic (the loop
count is bounded by `strings.Count`). -/
theorem C41_replace_no_panic (max : Int) (old repl s : Bytes) : ∃ r, strReplace max old repl s = .ok r :=
  replace_no_panic s old repl max

example : strReplace (-1) [97] [98, 98] [97, 120, 97] = .ok [98, 98, 120, 98, 98] := by decide
example : strReplace 1 [] [45] [0xC3, 0xA9, 97] = .ok [45, 0xC3, 0xA9, 97] := by decide
