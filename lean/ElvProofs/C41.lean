import ElvModel.C41.Spec
import ElvProofs.C41.Split
import ElvProofs.C41.Codepoints
import ElvProofs.C41.RepeatQuote
import ElvProofs.C41.Re
import ElvProofs.C41.ReSplit
import ElvProofs.C41.Replace
import ElvProofs.C41.TemplateGrammar
import ElvProofs.C41.RefNum
import ElvProofs.C41.TemplateNormal
import ElvProofs.C41.Awk
import ElvProofs.C41.History
import ElvModel.C41.Driver
open Go C41

/-!
# C41 — string and regex builtins satisfy their algebraic laws

All theorems are about the executable model `ElvModel/C41/{Strings,Str,Re}.lean`
(tied to pkg/mods/str and pkg/mods/re by `./check C41` through a real Evaler),
for EVERY byte string — valid UTF-8 or not — and are stated against the spec
vocabulary of `ElvModel/C41/Spec.lean`.

What is NOT provable here, because it is a property of Go's `regexp`,
`strings` and `unicode` packages and not of elvish code — "a quoted pattern
matches exactly the literal text" (semantics of the regexp engine), the Unicode
case mappings, `trim-space`, `fields`, `equal-fold` — is checked by the
implementation-side oracle on sampled inputs only.  The lexical half of the
quoting law is proved (`C41_quote_*`).  The regexp engine is abstract: the
`re:` theorems hold for every match list satisfying the contract `EngineOk`
(the oracle validates the contract on every match list Go's engine returns
during the run).
-/

/-! ## split / join -/

/-- Joining a split with the same separator gives back the original: every
string (also invalid UTF-8), every separator (also the empty one: split into
UTF-8 sequences), every `&max` except 0. -/
theorem C41_split_join (s sep : Bytes) (max : Int) (h : max ≠ 0) :
    join sep ((split max sep s).map Val.str) = .ok s := by
  rw [join_strs]; unfold split; rw [intercal_splitN s sep max h]

example : split (-1) [44] [97, 44, 0xC3, 0xA9, 44] = [[97], [0xC3, 0xA9], []] := by decide
example : split (-1) [] [97, 0xFF, 0xC3, 0xA9] = [[97], [0xFF], [0xC3, 0xA9]] := by decide
example : split 2 [44] [97, 44, 98, 44, 99] = [[97], [98, 44, 99]] := by decide

/-- `&max=0` outputs nothing (so the round trip needs `max ≠ 0`). -/
theorem C41_split_max_zero (s sep : Bytes) : split 0 sep s = [] := by
  simp [split, splitN]

/-- `str:join` of strings is the strings with the separator in between. -/
theorem C41_join_strings (sep : Bytes) (l : List Bytes) :
    join sep (l.map Val.str) = .ok (intercal sep l) := join_strs sep l

example : join [44] [.str [97], .str [], .str [98]] = .ok [97, 44, 44, 98] := by decide

/-- A non-string input makes `str:join` fail with a type error naming the kind
of the first such input; nothing is output. -/
theorem C41_join_type_error (sep : Bytes) (pre : List Bytes) (k : String) (rest : List Val) :
    join sep (pre.map Val.str ++ Val.other k :: rest) =
      .exc (badValue "input to str:join" "string" k) := join_type_error sep pre k rest

example : join [44] [.str [97], .other "list", .other "map"] = .exc "BV|input to str:join|string|list" := by
  decide

/-! ## code points -/

/-- `to-codepoints` prints numerals that read back as the runes of `s`, and
`from-codepoints` of those is the re-encoding of the runes … -/
theorem C41_codepoints_roundtrip (s : Bytes) :
    (toCodepoints s).mapM parseHexChars = some (toRunes s) ∧
    fromCodepoints ((toRunes s).map Int.ofNat) = .ok (encodeRunes (toRunes s)) := by
  refine ⟨?_, fromCodepoints_runes _ (toRunes_validRune s)⟩
  unfold toCodepoints
  apply mapM_parse_fmtHex
  intro n hn
  have := validRune_le (toRunes_validRune s n hn)
  omega

/-- … which is `s` itself exactly when `s` is valid UTF-8 (an invalid byte comes
back as U+FFFD). -/
theorem C41_codepoints_roundtrip_iff (s : Bytes) :
    fromCodepoints ((toRunes s).map Int.ofNat) = .ok s ↔ validUtf8 s = true := by
  rw [(C41_codepoints_roundtrip s).2]
  constructor
  · intro h
    injection h with h
    rw [← h]; exact validUtf8_encodeRunes _
  · intro h; rw [encodeRunes_toRunes h]

example : toCodepoints [0x61, 0xE4, 0xB8, 0x96] = [['0', 'x', '6', '1'], ['0', 'x', '4', 'e', '1', '6']] := by
  simp [toCodepoints, toRunes, runes, runesFrom, decodeRune, isCont, fmtHex, hexChars, hexRev, hexDigit]
example : fromCodepoints [0x61, 0x4E16] = .ok [0x61, 0xE4, 0xB8, 0x96] := by decide
/-- an invalid byte reads as U+FFFD and comes back as its three-byte encoding -/
example : fromCodepoints [0xFFFD] = .ok [0xEF, 0xBF, 0xBD] := by decide

/-- `from-codepoints` succeeds exactly on lists of Unicode scalar values … -/
theorem C41_from_codepoints_ok_iff (nums : List Int) :
    (∃ b, fromCodepoints nums = .ok b) ↔ ∀ n ∈ nums, 0 ≤ n ∧ n ≤ 0x10FFFF ∧ ¬ isSurrogate n := by
  constructor
  · intro ⟨b, hb⟩
    have key : ∀ (nums : List Int) (buf : Bytes), (∃ b, fromCodepointsLoop nums buf = .ok b) →
        ∀ n ∈ nums, GoodCp n := by
      intro nums
      induction nums with
      | nil => intro _ _ n hn; simp at hn
      | cons a l ih =>
        intro buf ⟨b, hb⟩ n hn
        unfold fromCodepointsLoop at hb
        split at hb
        · simp at hb
        · rename_i hr
          split at hb
          · simp at hb
          · rename_i hv
            have hv : validRune a.toNat = true := by simpa using hv
            have ha : GoodCp a := by
              refine ⟨by omega, by omega, ?_⟩
              have := validRune_iff.mp hv
              simp only [isSurrogate]; omega
            simp only [List.mem_cons] at hn
            rcases hn with rfl | hn
            · exact ha
            · exact ih _ ⟨b, hb⟩ n hn
    exact key nums [] ⟨b, hb⟩
  · intro h
    have := fromCodepointsLoop_good nums [] h []
    simp only [List.append_nil, List.nil_append] at this
    exact ⟨_, by unfold fromCodepoints; rw [this]; rfl⟩

/-- … and the error is decided by the first offending argument: out of
`[0, 0x10FFFF]` ⇒ out-of-range error, a surrogate ⇒ bad-value error. -/
theorem C41_from_codepoints_errors (pre rest : List Int) (n : Int)
    (hpre : ∀ m ∈ pre, 0 ≤ m ∧ m ≤ 0x10FFFF ∧ ¬ isSurrogate m) :
    ((n < 0 ∨ n > 0x10FFFF) → fromCodepoints (pre ++ n :: rest) =
      .exc (outOfRange "codepoint" "0" "1114111" (String.ofList (hexOfInt n)))) ∧
    (isSurrogate n → fromCodepoints (pre ++ n :: rest) =
      .exc (badValue "argument to str:from-codepoints" "valid Unicode codepoint" (String.ofList (hexOfInt n)))) := by
  unfold fromCodepoints
  rw [fromCodepointsLoop_good pre _ hpre]
  constructor
  · intro h
    unfold fromCodepointsLoop
    rw [if_pos h]
  · intro ⟨h1, h2⟩
    unfold fromCodepointsLoop
    rw [if_neg (by omega)]
    have hv : validRune n.toNat = false := by
      cases hv : validRune n.toNat with
      | false => rfl
      | true => have := validRune_iff.mp hv; omega
    simp [hv]

example : fromCodepoints [0x61, 0xD800] =
    .exc "BV|argument to str:from-codepoints|valid Unicode codepoint|0xd800" := by decide
example : fromCodepoints [0x110000] = .exc "OOR|codepoint|0|1114111|0x110000" := by decide
example : fromCodepoints [-1] = .exc "OOR|codepoint|0|1114111|-0x1" := by decide

/-! ## UTF-8 bytes -/

/-- `to-utf8-bytes` prints numerals that read back as the bytes of `s`;
`from-utf8-bytes` of them is `s` for valid UTF-8 and a bad-value error otherwise. -/
theorem C41_utf8_bytes_roundtrip (s : Bytes) :
    (toUtf8Bytes s).mapM parseHexChars = some (s.map UInt8.toNat) ∧
    fromUtf8Bytes ((s.map UInt8.toNat).map Int.ofNat) =
      if validUtf8 s then .ok s
      else .exc (badValue "arguments to str:from-utf8-bytes" "valid UTF-8 sequence" (fmtByteList s)) := by
  refine ⟨mapM_parse_toUtf8Bytes s, ?_⟩
  have := fromUtf8BytesLoop_bytes s []
  simp only [List.nil_append] at this
  unfold fromUtf8Bytes
  simp only [List.map_map, Function.comp_def, Int.ofNat_eq_natCast]
  rw [this]
  cases hv : validUtf8 s <;> simp [fromUtf8BytesLoop, hv]

example : fromUtf8Bytes [0xE4, 0xB8, 0x96] = .ok [0xE4, 0xB8, 0x96] := by decide
example : fromUtf8Bytes [0xE4, 0xB8] =
    .exc "BV|arguments to str:from-utf8-bytes|valid UTF-8 sequence|[228 184]" := by decide
example : fromUtf8Bytes [97, 256] = .exc "OOR|byte|0|255|256" := by decide

/-! ## repeat -/

/-- `str:repeat` (with fixes/C41-repeat-overflow.patch and fixes/C41-repeat-size-cap.patch)
never panics: for every string and every count — also counts whose product with the
length wraps around 64 bits, and counts whose result no machine can allocate — on
every platform whose allocation limit is at least the documented cap (2^31−1 bytes;
the limit is ≥ 2^32 on every Go platform). -/
theorem C41_repeat_no_panic (maxAlloc : Int) (hA : maxRepeatLen ≤ maxAlloc) (s : Bytes) (n : Int) :
    (strRepeatA maxAlloc s n).isPanic = false := by
  unfold strRepeatA
  split
  · rfl
  · rename_i h0
    split
    · rfl
    · rename_i hg
      have h0 : 0 ≤ n := by omega
      have hp : ¬ (s.length : Int) * n > maxInt := fun h => hg ((guard_iff s n h0).mpr h)
      have hnn : 0 ≤ (s.length : Int) * n := Int.mul_nonneg (by omega) h0
      rw [wrap64_id _ hnn (by omega)]
      split
      · rfl
      · rw [stringsRepeatA_ok maxAlloc s n h0 (by omega) (by omega)]
        rfl

/-- It fails exactly when the count is negative or the result would be longer than
the documented maximum of 2147483647 bytes (true product, no wrap). -/
theorem C41_repeat_error_iff (maxAlloc : Int) (hA : maxRepeatLen ≤ maxAlloc) (s : Bytes) (n : Int) :
    (∃ e, strRepeatA maxAlloc s n = .exc e) ↔ (n < 0 ∨ (s.length : Int) * n > maxRepeatLen) := by
  unfold strRepeatA
  by_cases h0 : n < 0
  · simp [h0]
  · have h0' : 0 ≤ n := by omega
    rw [if_neg h0]
    by_cases hg : s.length > 0 ∧ n > maxInt / (s.length : Int)
    · rw [if_pos hg]
      have := (guard_iff s n h0').mp hg
      have : (s.length : Int) * n > maxRepeatLen := by unfold maxRepeatLen; unfold maxInt at this; omega
      simp [this]
    · rw [if_neg hg]
      have hng : ¬ (s.length : Int) * n > maxInt := fun h => hg ((guard_iff s n h0').mpr h)
      have hnn : 0 ≤ (s.length : Int) * n := Int.mul_nonneg (by omega) h0'
      rw [wrap64_id _ hnn (by omega)]
      by_cases hc : (s.length : Int) * n > maxRepeatLen
      · rw [if_pos hc]; simp [hc]
      · rw [if_neg hc, stringsRepeatA_ok maxAlloc s n h0' (by omega) (by omega)]
        simp [h0, hc]

/-- Otherwise the result is `n` copies of `s`, of length `|s|·n`. -/
theorem C41_repeat_result (maxAlloc : Int) (hA : maxRepeatLen ≤ maxAlloc) (s : Bytes) (n : Int) (h0 : 0 ≤ n)
    (h : (s.length : Int) * n ≤ maxRepeatLen) :
    strRepeatA maxAlloc s n = .ok (List.replicate n.toNat s).flatten ∧
    ((List.replicate n.toNat s).flatten.length : Int) = s.length * n := by
  have hm : (s.length : Int) * n ≤ maxInt := by unfold maxInt; unfold maxRepeatLen at h; omega
  constructor
  · unfold strRepeatA
    have hnn : 0 ≤ (s.length : Int) * n := Int.mul_nonneg (by omega) h0
    rw [if_neg (by omega), if_neg (fun hg => by have := (guard_iff s n h0).mp hg; omega),
      wrap64_id _ hnn hm, if_neg (by omega)]
    exact stringsRepeatA_ok maxAlloc s n h0 hm (by omega)
  · rw [length_flatten_replicate]
    obtain ⟨k, rfl⟩ := Int.eq_ofNat_of_zero_le h0
    simp [Int.mul_comm]

example : maxRepeatLen ≤ maxAlloc64 := by decide
example : strRepeat [97, 98] 3 = .ok [97, 98, 97, 98, 97, 98] := by decide
example : strRepeat [97, 98, 99] 6148914691236517206 =
    .exc "BV|n|small enough not to overflow result|6148914691236517206" := by decide
example : strRepeat [126] 9223372036854775807 =
    .exc "BV|n|small enough for the result not to exceed 2147483647 bytes|9223372036854775807" := by decide
example : strRepeat [97, 98] 1073741824 =
    .exc "BV|n|small enough for the result not to exceed 2147483647 bytes|1073741824" := by decide

/-- With the overflow guard alone (round 1's fix) a result that fits in an `int` but
not in the address space still reaches `strings.Repeat`, whose allocation panics
(`makeslice: len out of range`) and kills the interpreter: `str:repeat '~'
9223372036854775807` (finding `alloc-str:repeat` of C17).  Replayed on the real code by
harness/corpus/C41.txt. -/
theorem C41_repeat_uncapped_counterexample :
    ¬ ∀ (s : Bytes) (n : Int), (repeatUncapped maxAlloc64 s n).isPanic = false := by
  intro h
  have := h [126] 9223372036854775807
  revert this
  decide

/-- The guard of the UNCHANGED tree, `len(s)*n < 0` on the wrapped product, misses
a product that wraps to a positive number: `strings.Repeat` itself panics and the
interpreter dies (`str:repeat abc 6148914691236517206`, 3·n = 2^64 + 2).  Replayed
on the real code by harness/corpus/C41.txt. -/
theorem C41_repeat_orig_counterexample :
    ¬ ∀ (s : Bytes) (n : Int), (repeatOrig s n).isPanic = false := by
  intro h
  have := h [97, 98, 99] 6148914691236517206
  revert this
  decide

/-! ## re:find -/

/-- Given the engine contract, `re:find` never panics and emits, for each of the
first `&max` matches, `source[start:end]` with its positions, and for every
capture group either its text and positions or — if the group did not take
part — `""`, `-1`, `-1`. -/
theorem C41_find (src : Bytes) (full : List Match) (max : Int) (h : EngineOk src.length full) :
    reFind true max src full = .ok ((takeMax full max).map (matchSpec src)) := by
  unfold reFind
  simp only [Bool.not_true, Bool.false_eq_true, if_false]
  exact mapRes_ok _ _ _ fun m hm => findOne_ok src m (h.shape m (mem_takeMax hm))

/-- what `matchSpec` says about an unmatched and a matched group -/
theorem C41_find_group_value (src : Bytes) (s e : Int) :
    groupSpec src (-1) (-1) = { text := [], start := -1, stop := -1 } ∧
    (0 ≤ s → groupSpec src s e = { text := sub src s e, start := s, stop := e }) := by
  refine ⟨rfl, fun h => ?_⟩
  unfold groupSpec
  rw [if_neg (by omega)]

/-- a pattern the engine rejects is an exception, never a crash -/
theorem C41_find_bad_pattern (src : Bytes) (full : List Match) (max : Int) :
    reFind false max src full = .exc "bad-pattern" := rfl

example : EngineOk 3 [[0, 1, 0, 1, -1, -1], [2, 3, -1, -1, 2, 3]] :=
  ⟨by intro m hm; simp at hm; rcases hm with rfl | rfl <;> simp [MatchOk, GroupsOk], by simp [Asc],
   by simp [EndsIncrease]⟩
example : reFind true (-1) [97, 120, 98] [[0, 1, 0, 1, -1, -1], [2, 3, -1, -1, 2, 3]] =
    .ok [⟨[97], 0, 1, [⟨[97], 0, 1⟩, ⟨[97], 0, 1⟩, ⟨[], -1, -1⟩]⟩,
         ⟨[98], 2, 3, [⟨[98], 2, 3⟩, ⟨[], -1, -1⟩, ⟨[98], 2, 3⟩]⟩] := by decide
/-- outside the contract the slice does panic (the hypothesis matters) -/
example : (reFind true (-1) [97] [[0, 2]]).isPanic = true := by decide

/-! ## re:replace and re:split are functions of the same match positions -/

/-- Literal replacement: the gaps between the matches `re:find` reports, with the
replacement in between. -/
theorem C41_re_replace_literal (isName : Rune → Bool) (names : List Bytes) (r src : Bytes)
    (full : List Match) (h : EngineOk src.length full) :
    reReplace true true isName names (.str r) src full = .ok (intercal r (gaps src 0 full)) := by
  unfold reReplace
  simp only [Bool.not_true, Bool.false_eq_true, if_false, if_true]
  rw [replaceAllLoop_ok src _ (fun _ => r) () full 0 [] h.shape (fun _ _ => rfl) h.asc
    (Int.le_refl _) (by omega)]
  simp [bind, Res.bind, pure, spliceSpec_gaps src r full 0 h.shape]

/-- Function replacement (a function that outputs one string `f text`): every
match is replaced by `f` of exactly the text `re:find` reports for it. -/
theorem C41_re_replace_fn (isName : Rune → Bool) (names : List Bytes) (f : Bytes → Bytes) (src : Bytes)
    (full : List Match) (h : EngineOk src.length full) :
    reReplace true false isName names (.fn fun t => .vals [.str (f t)]) src full =
      .ok (spliceSpec src (fun m => f (matchSpec src m).text) 0 full) := by
  unfold reReplace
  simp only [Bool.not_true, Bool.false_eq_true, if_false]
  rw [replaceAllLoop_ok src _ (fun m => f (matchSpec src m).text) none full 0 [] h.shape ?_ h.asc
    (Int.le_refl _) (by omega)]
  · simp [bind, Res.bind, pure]
  · intro m hm
    have hmo := h.shape m hm
    rcases m with _ | ⟨s, _ | ⟨e, gs⟩⟩
    · simp [MatchOk] at hmo
    · simp [MatchOk] at hmo
    · obtain ⟨⟨h0, h1, h2⟩, _⟩ := hmo
      simp [index, bind, Res.bind, pure, slice_ok src s e h0 h1 h2, replFunc, matchSpec]

/-- In particular, replacing every match by itself gives the source back: find and
replace agree on the positions. -/
theorem C41_re_replace_identity (isName : Rune → Bool) (names : List Bytes) (src : Bytes)
    (full : List Match) (h : EngineOk src.length full) :
    reReplace true false isName names (.fn fun t => .vals [.str t]) src full = .ok src := by
  have h1 := C41_re_replace_fn isName names id src full h
  have h2 := spliceSpec_self src full 0 h.shape h.asc (Int.le_refl _) (by omega)
  exact h1.trans (by simpa using h2)

/-- `re:split` (all matches): the same gaps, by Go's documented rule — no empty
first piece before an empty match at 0, no last piece when the last match starts
at the end of the text.  No panic. -/
theorem C41_re_split (exprEmpty : Bool) (src : Bytes) (max : Int) (full : List Match)
    (hn : max < 0) (h : EngineOk src.length full) (hne : exprEmpty = true ∨ src ≠ []) :
    reSplit true exprEmpty max src full = .ok (piecesSpec src full) := by
  unfold reSplit
  simp only [Bool.not_true, Bool.false_eq_true, if_false]
  exact regexpSplit_pieces exprEmpty src max full hn h hne

example : regexpSplit false [97, 44, 98, 44] (-1) [[1, 2], [3, 4]] = .ok [[97], [98], []] := by decide
example : piecesSpec [97, 44, 98, 44] [[1, 2], [3, 4]] = [[97], [98], []] := by decide
example : reReplace true true (fun _ => false) [[]] (.str [45]) [97, 44, 98, 44] [[1, 2], [3, 4]] =
    .ok [97, 45, 98, 45] := by decide

/-- A replacement template without `$` is a literal replacement. -/
theorem C41_re_replace_template_partial (isName : Rune → Bool) (names : List Bytes) (t src : Bytes)
    (full : List Match) (h : EngineOk src.length full) (ht : cutDollar t = none) :
    reReplace true false isName names (.str t) src full = .ok (intercal t (gaps src 0 full)) := by
  unfold reReplace
  simp only [Bool.not_true, Bool.false_eq_true, if_false]
  rw [replaceAllLoop_ok src _ (fun _ => t) () full 0 [] h.shape ?_ h.asc (Int.le_refl _) (by omega)]
  · simp [bind, Res.bind, pure, spliceSpec_gaps src t full 0 h.shape]
  · intro m _
    simp [expand, expandLoop, ht, bind, Res.bind, pure]

/-! ## replacement templates (`$1`, `${name}`, `$$`): Go's `Regexp.Expand` -/

/-- For EVERY template and every match satisfying the contract, Go's `expand` loop
finishes within its fuel, does not panic (an out-of-range or unmatched group just
contributes nothing) and yields the concatenation of the values of the template's
tokens. -/
theorem C41_template_expand (isName : Rune → Bool) (names : List Bytes) (t src : Bytes) (m : Match)
    (h : MatchOk src.length m) :
    expand isName names t src m = .ok (expandSpec isName names t src m) := expand_eq isName names t src m h

/-- `re:replace` with a template: the unmatched pieces of the source and, for each
match in order, the expansion of the template for that match. -/
theorem C41_re_replace_template (isName : Rune → Bool) (names : List Bytes) (t src : Bytes)
    (full : List Match) (h : EngineOk src.length full) :
    reReplace true false isName names (.str t) src full =
      .ok (spliceSpec src (expandSpec isName names t src) 0 full) := by
  unfold reReplace
  simp only [Bool.not_true, Bool.false_eq_true, if_false]
  rw [replaceAllLoop_ok src _ (expandSpec isName names t src) () full 0 [] h.shape ?_ h.asc
    (Int.le_refl _) (by omega)]
  · simp [bind, Res.bind, pure]
  · intro m hm
    simp [expand_eq isName names t src m (h.shape m hm), bind, Res.bind, pure]

/-- The round-1 statement: for every template, expansion neither panics nor runs
out of fuel under the engine contract. -/
def C41_re_replace_template_full : Prop :=
  ∀ (isName : Rune → Bool) (names : List Bytes) (t src : Bytes) (full : List Match),
    EngineOk src.length full → ∃ b, reReplace true false isName names (.str t) src full = .ok b

theorem C41_re_replace_template_total : C41_re_replace_template_full :=
  fun isName names t src full h => ⟨_, C41_re_replace_template isName names t src full h⟩

/-- Every template is the rendering (grammar `Tok.render`) of its tokens: the reading
loses nothing. -/
theorem C41_template_tokens_render (isName : Rune → Bool) (t : Bytes) :
    renderToks (tokenize isName t) = t :=
  renderToks_tokenizeLoop isName _ t (by omega)

/-- A NORMAL token list (texts `$`-free, non-empty and maximal; `$name` extends over
every following name rune — longest name; `${name}` is a name up to its `}`; a raw `$`
starts neither `$$` nor a reference) is exactly what its rendering is read as. -/
theorem C41_template_tokens_unique (isName : Rune → Bool) (toks : List Tok) (h : NormalToks isName toks) :
    tokenize isName (renderToks toks) = toks :=
  tokenizeLoop_renderToks isName toks _ h (by omega)

/-- … and the reading of every template is normal: `tokenize` and `renderToks` are
inverse bijections between all templates and the normal token lists. -/
theorem C41_template_tokens_normal (isName : Rune → Bool) (t : Bytes) : NormalToks isName (tokenize isName t) :=
  normal_tokenizeLoop isName _ t (by omega)

/-- Templates generated from the grammar: `re:replace` with the rendering of a normal
token list replaces each match by the concatenation of the token values — `$n`/`${n}`
the text of group `n` (nothing if it does not exist or did not take part), `$name` the
first participating group of that name, `$$` and a raw `$` a dollar sign. -/
theorem C41_re_replace_template_grammar (isName : Rune → Bool) (names : List Bytes) (toks : List Tok)
    (src : Bytes) (full : List Match) (hn : NormalToks isName toks) (h : EngineOk src.length full) :
    reReplace true false isName names (.str (renderToks toks)) src full =
      .ok (spliceSpec src (fun m => (toks.map (tokValue names src m)).flatten) 0 full) := by
  rw [C41_re_replace_template isName names _ src full h]
  unfold expandSpec
  rw [C41_template_tokens_unique isName toks hn]

/-- Which names are group NUMBERS (the "Parse number" rule of Go's `extract`): exactly the
strings of ASCII digits without a leading zero (`0` itself is fine) of at most nine
digits, denoting their decimal value; every other name — `01`, `1x`, ten digits — is
looked up among the NAMED groups. -/
theorem C41_template_ref_number (name : Bytes) :
    refNum name =
      if isDigits name = true ∧ name.length ≤ 9 ∧ ¬ (name.head? = some 48 ∧ name.length > 1)
      then ((decVal name 0 : Nat) : Int) else -1 := refNum_spec name

/-- name runes for the examples: ASCII letters, digits, `_` -/
private def asciiName (r : Rune) : Bool :=
  (48 ≤ r && r ≤ 57) || (65 ≤ r && r ≤ 90) || (97 ≤ r && r ≤ 122) || r = 95

-- `$1x` is the group NAMED `1x` (longest name), `${1}x` is group 1 followed by `x`
example : tokenize asciiName [36, 49, 120] = [.ref false [49, 120]] := by decide
example : tokenize asciiName [36, 123, 49, 125, 120] = [.ref true [49], .lit [120]] := by decide
-- `a$$-$n_$` : text, dollar, text, reference `n_`, raw dollar;  `${1` and `${}` are raw
example : tokenize asciiName [97, 36, 36, 45, 36, 110, 95, 36] =
    [.lit [97], .dollar, .lit [45], .ref false [110, 95], .raw] := by decide
example : tokenize asciiName [36, 123, 49] = [.raw, .lit [123, 49]] := by decide
example : NormalToks asciiName [.lit [97], .dollar, .ref true [49], .lit [120], .ref false [110], .raw, .lit [45]] := by
  simp only [NormalToks, NameBefore, renderToks, Tok.render]
  decide
-- numbers: `$0`, `$10` are numbers; `$01` and 10-digit numerals are names
example : refNum [48] = 0 ∧ refNum [49, 48] = 10 ∧ refNum [48, 49] = -1 ∧ refNum [49, 120] = -1 ∧
    refNum [49, 48, 48, 48, 48, 48, 48, 48, 48, 48] = -1 ∧ refNum [57, 57, 57, 57, 57, 57, 57, 57, 57] = 999999999 := by
  decide
-- one match "ab" at 1 of "xaby" with group 1 = "a", group 2 unmatched, group 3 = "b" named n
example : reReplace true false asciiName [[], [], [], [110]]
    (.str [60, 36, 49, 36, 50, 36, 123, 110, 125, 36, 57, 36, 36, 62]) [120, 97, 98, 121] [[1, 3, 1, 2, -1, -1, 2, 3]] =
    .ok [120, 60, 97, 98, 36, 62, 121] := by decide
example : EngineOk 4 [[1, 3, 1, 2, -1, -1, 2, 3]] :=
  ⟨by intro m hm; simp at hm; subst hm; simp [MatchOk, GroupsOk], by simp [Asc], by simp [EndsIncrease]⟩
/-- outside the contract the expansion does panic (the hypothesis matters) -/
example : (reReplace true false asciiName [[]] (.str [36, 49]) [97] [[0, 1, 0, 5]]).isPanic = true := by decide

/-! ## re:awk -/

/-- `re:awk` under the engine contract (for each string input, the separator's match
list on the TRIMMED line): no panic; the callback is called for the inputs in order
with `line` and the fields — Go's documented `Split` of `strings.Trim(line, " \t")`
— until the first non-string input (error `input of re:awk must be string`), the
first call ending in `break` (no error) or in an exception (that exception);
`continue` goes on.  The `broken` latch of the code is exactly this early stop. -/
theorem C41_awk (exprEmpty : Bool) (call : List Bytes → Flow) (inputs : List AwkIn)
    (h : AwkInputsOk inputs) :
    reAwk true exprEmpty call inputs = .ok (awkSpec exprEmpty call inputs) := by
  unfold reAwk
  obtain ⟨st', h1, h2, h3⟩ := awkLoop_spec exprEmpty call inputs
    { broken := false, err := none, calls := [] } h rfl rfl
  simp only [Bool.not_true, Bool.false_eq_true, if_false, bind, Res.bind, h1, pure]
  simp at h2
  rw [h2, h3]

/-- a separator the engine rejects is an exception, and the callback is never called -/
theorem C41_awk_bad_pattern (exprEmpty : Bool) (call : List Bytes → Flow) (inputs : List AwkIn) :
    reAwk false exprEmpty call inputs = .exc "bad-pattern" := rfl

-- " a  b" / "x y" / "c" with separator ` +`: the callback `mix` continues on field a, breaks on x
example : reAwk true false (awkCallById "mix")
    [.line [32, 97, 32, 32, 98] [[1, 3]], .line [120, 32, 121] [[1, 2]], .line [99] []] =
    .ok ([[[32, 97, 32, 32, 98], [97], [98]], [[120, 32, 121], [120], [121]]], none) := by decide
example : AwkInputsOk [.line [32, 97, 32, 32, 98] [[1, 3]], .line [99] []] := by
  refine ⟨⟨?_, by simp [Asc], by simp [EndsIncrease]⟩, ⟨?_, by simp [Asc], by simp [EndsIncrease]⟩, trivial⟩
  · intro m hm
    simp at hm
    subst hm
    have : (trim [32, 97, 32, 32, 98] awkCutset).length = 4 := by decide
    rw [this]
    simp [MatchOk, GroupsOk]
  · intro m hm
    simp at hm
example : reAwk true false (awkCallById "put") [.line [97] [], .other "number", .line [98] []] =
    .ok ([[[97], [97]]], some errAwkInput) := by decide

/-! ## history independence: a `re:` builtin is a function of (pattern, flags, subject) -/

/-- `makePattern` compiles a NEW `*Regexp` on every call and calls the mutating
`Longest()` on that object only; so whatever objects earlier calls have left behind
(`h`), a builtin's result is the function `withPattern` of the pattern, the flags and
the subject. -/
theorem C41_history_independent {β : Type} (E : Engine) (h : Heap) (p : Bytes) (posix longest : Bool)
    (src : Bytes) (bad nilDeref : β) (k : List Match → β) :
    (withPatternH E h p posix longest src bad nilDeref k).2 = withPattern E p posix longest src bad k :=
  withPatternH_eq E h p posix longest src bad nilDeref k

/-- The driver (which threads the heap of regexp objects through the ops of a run, as
the process does) prints for every op line what the history-free `stepPure` prints:
the model side of the stateful streams depends on the op line only. -/
theorem C41_driver_history_independent (h : Heap) (l : List String) : (stepH h l).2 = stepPure l := by
  unfold stepH stepPure
  split
  · exact withPatternH_eq _ h _ _ _ _ _ _ _
  · split <;> rfl

/-- An engine where leftmost-longest differs from leftmost-first. -/
private def demoEngine : Engine where
  patOk := fun _ _ => true
  run := fun _ _ longest _ => if longest then [[0, 2]] else [[0, 1]]

/-- Counter-model (the seeded change `C41-regexp-cache-shares-longest`): with a pattern
cache that hands out a shared object, `Longest()` leaks — after one `&longest` use the
same pattern without `&longest` no longer returns what it returns on a fresh heap. -/
theorem C41_shared_cache_history_dependent :
    let k := fun full => reFind true (-1) [97, 98] full
    let first := withPatternCachedH demoEngine [] [97] false true [97, 98] (.exc "bad-pattern") (.panic "nil") k
    (withPatternCachedH demoEngine first.1 [97] false false [97, 98] (.exc "bad-pattern") (.panic "nil") k).2 ≠
      (withPatternCachedH demoEngine [] [97] false false [97, 98] (.exc "bad-pattern") (.panic "nil") k).2 := by
  decide

-- the code's `makePattern` on the same history: no leak
example :
    let k := fun full => reFind true (-1) [97, 98] full
    let first := withPatternH demoEngine [] [97] false true [97, 98] (.exc "bad-pattern") (.panic "nil") k
    (withPatternH demoEngine first.1 [97] false false [97, 98] (.exc "bad-pattern") (.panic "nil") k).2 =
      .ok [⟨[97], 0, 1, [⟨[97], 0, 1⟩]⟩] := by decide

/-! ## re:quote -/

/-- The quoted pattern contains no unescaped metacharacter (and no dangling
backslash): lexically it is a sequence of plain bytes and `\x` escapes … -/
theorem C41_quote_no_unescaped_meta (s : Bytes) : hasUnescapedMeta (quoteMeta s) = false :=
  hasUnescapedMeta_quoteMeta s

/-- … whose literal reading is exactly the text. -/
theorem C41_quote_denotes_literal (s : Bytes) : unquote (quoteMeta s) = s := unquote_quoteMeta s

example : quoteMeta [97, 46, 42, 92] = [97, 92, 46, 92, 42, 92, 92] := by decide
example : hasUnescapedMeta [97, 46] = true := by decide

/-! ## strings.Replace (library, modelled from its source) -/

/-- `str:replace` never reaches the slice expression that would panic (the loop
count is bounded by `strings.Count`). -/
theorem C41_replace_no_panic (max : Int) (old repl s : Bytes) : ∃ r, strReplace max old repl s = .ok r :=
  replace_no_panic s old repl max

example : strReplace (-1) [97] [98, 98] [97, 120, 97] = .ok [98, 98, 120, 98, 98] := by decide
example : strReplace 1 [] [45] [0xC3, 0xA9, 97] = .ok [45, 0xC3, 0xA9, 97] := by decide
