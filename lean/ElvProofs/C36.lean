/-
C36 — the Markdown formatter preserves meaning and is idempotent: theorems
over the model of pkg/md/fmt.go (lean/ElvModel/C36/Model.lean).

Level: PARTIAL.  Proved: the local decisions that make code blocks, code spans
and reflowed paragraphs round-trip; soundness of text escaping against the C35
reference parser on a byte class (`C36_escape_inline_sound`,
`C36_escape_sound_partial`) with evaluated boundary witnesses; the agreement of
formatter and parser on zero-padded ordered-list-marker lookalikes
(`C36_ordered_lookalike_escaped`).  Not proved (stated as `…_full`): the
whole-formatter laws, escape soundness in full generality and the reflow
read-back; those are sampled by the correspondence/oracle run.
-/
import ElvModel.C36.Model
import ElvModel.C35.RefHtml
import ElvProofs.C36.Lemmas
import ElvProofs.C36.Block
import ElvProofs.C36.Boundary
import ElvProofs.C36.Ordered
import ElvProofs.C36.Reflow
import ElvProofs.C36.ReflowRead
import ElvProofs.C36.ReflowBlock
import ElvProofs.C36.FirstByte
import ElvProofs.C36.Digit
open C36 C35 Go

/-! ## The property at full strength (not proved) -/

/-- `render (fmt d) = render d` and `fmt (fmt d) = fmt d` for an abstract
formatter/renderer pair: the statement the oracle evaluates on the real code. -/
def C36_full (fmt render : Bytes → Bytes) (supported : Bytes → Prop) : Prop :=
  ∀ d, supported d → render (fmt d) = render d ∧ fmt (fmt d) = fmt d

/-- soundness of text escaping against the C35 reference: a text node `s`
written by the formatter as a paragraph reads back as exactly that text.
PROVED for: every non-empty `s` over printable ASCII other than `_` and `&`
whose first and last bytes are not spaces (`C36_escape_sound_ascii`; stages:
`C36_escape_sound_partial`, `C36_escape_sound_marker_first`,
`C36_escape_sound_partial_nondigit`).
REMAINING cases (executed per `esc` op, no counterexample found):
 (b) `s` starting/ending with SP (or tab): written `&#32;`/`&Tab;`; needs the
     `&`-token case of `scan` for these two entities (`parseEntity` gives
     `.char 32 5` / `.char 9 5`) and `scan_escA` with a tail;
 (c) `&`: `charRefLen (& :: t) = 0 ↔ parseEntity t = .none` up to the
     `nonEntities`/unknown names, then `&` unescaped is a text token and `\\&` too;
 (d) `_`: `isWord prev ∧ isWord next` ⇒ `flanking` gives `(false, false)`, a
     non-closing delimiter item (`resolveEmph_noclosers` already covers it);
     needs `prev`/next-rune tracking in the lock step;
 (e) non-ASCII runes (multi-byte text tokens) and U+00A0 → `&nbsp;`. -/
def C36_escape_sound_full : Prop :=
  ∀ (s out : Bytes), s ≠ [] → validUtf8 s = true → ¬ s.contains NL →
    fmtTextParagraph goStdU s = .ok out → inSubset stdU out = true →
    render stdU true out = some (bs "<p>" ++ escHtml s ++ bs "</p>\n")

/-! ## Soundness of text escaping against the C35 reference (proved on a byte class) -/

/-- INLINE LEVEL.  For every text `s` over the class `isEscSpB` — printable
ASCII (0x20 … 0x7E) other than `_` and `&`, i.e. letters, digits, spaces and
all punctuation including the always-backslashed `[ ] * \` \\ <` — the escaped
text is `s` with a backslash before each of `[ ] * \` \\ <` (`escA`), and the C35
reference tokenizer + emphasis resolution + text merging reads it back as the
single text node `s` (nothing for the empty text).  Any `GoU`, any `UClass`. -/
theorem C36_escape_inline_sound (G : GoU) (U : UClass) (s : Bytes)
    (h : ∀ b ∈ s, isEscSpB b = true) :
    escapeText G s = escA s ∧
    parseInlines U (escapeText G s) = some (if s = [] then [] else [Inl.text s]) := by
  rw [escapeText_class G s h]
  exact ⟨rfl, parseInlines_escA U s h⟩

example : escapeText goStdU [0x61, 0x2A, 0x20, 0x5B, 0x21] = [0x61, 0x5C, 0x2A, 0x20, 0x5C, 0x5B, 0x21] ∧
    parseInlines stdU [0x61, 0x5C, 0x2A, 0x20, 0x5C, 0x5B, 0x21] = some [Inl.text [0x61, 0x2A, 0x20, 0x5B, 0x21]] :=
  C36_escape_inline_sound goStdU stdU [0x61, 0x2A, 0x20, 0x5B, 0x21] (by decide)

/-- emphasis resolution of the reference is the identity on item lists
without closing delimiter runs (in particular on text nodes) -/
theorem C36_resolveEmph_nodes (ts : List Bytes) :
    resolveEmph (ts.map mkT) = some (ts.map Inl.text) := resolveEmph_nodes ts

/-- text merging of the reference concatenates a list of text nodes -/
theorem C36_mergeText_texts (fuel : Nat) (ts : List Bytes) :
    mergeText (fuel + 1) (ts.map Inl.text) = if ts.flatten = [] then [] else [Inl.text ts.flatten] :=
  mergeText_texts fuel ts

example : mergeText 1 ([[0x61], [], [0x62]].map Inl.text) = [Inl.text [0x61, 0x62]] := by
  rw [C36_mergeText_texts]; rfl

/-- BLOCK LEVEL, the proved part of `C36_escape_sound_full`.  Hypothesis class:
`s` is non-empty, every byte is in `isEscSpB` (printable ASCII other than `_`
and `&`), the first byte is in `isGoodFirstB` (not a space and not one of
`- + > # ~` or a digit: the written line then starts with a byte that opens no
block, possibly the backslash of an escaped `[ ] * \` \\ <`), and the last byte
is not a space.  Then the formatter writes exactly `escA s` followed by NL
(start/end-of-line escaping change nothing) and the C35 reference renders that
document as one paragraph containing exactly the text `s`.  The hypotheses
`validUtf8`, `¬ contains NL` of the full statement follow from the class and
`inSubset out` is NOT needed on it.

Gap to `C36_escape_sound_full`: texts containing `_`, `&`, non-ASCII runes
(U+00A0 → `&nbsp;`), a leading or trailing space/tab (`&#32;`, `&Tab;`), and
texts whose first byte is `- + > # ~` or a digit (where `escapeStartOfLine`
has to agree with the reference's list/heading/fence/thematic-break rules);
those are executed per `esc` op (model and real code), not proved. -/
theorem C36_escape_sound_partial (G : GoU) (U : UClass) (s out : Bytes)
    (hcls : ∀ b ∈ s, isEscSpB b = true)
    (hfirst : ∀ b, s.head? = some b → isGoodFirstB b = true)
    (hlast : ∀ e, s.getLast? = some e → isEscB e = true)
    (hne : s ≠ [])
    (hfmt : fmtTextParagraph G s = .ok out) :
    out = escA s ++ [NL] ∧
    render U true out = some (bs "<p>" ++ escHtml s ++ bs "</p>\n") := by
  cases s with
  | nil => exact absurd rfl hne
  | cons b0 t =>
    obtain ⟨h1, h2⟩ := escape_sound_class G U b0 t hcls (hfirst b0 rfl) hlast
    rw [h1] at hfmt
    injection hfmt with hfmt
    subst hfmt
    exact ⟨rfl, h2⟩

/-- WIDENED first byte: the text starts with a block-marker lookalike `-`, `+`,
`>`, `#` or `~`.  `escapeStartOfLine … true true` either puts a backslash in
front (`\\- a`, `\\-`, `\\---`, `\\- - -`, `\\+ a`, `\\>…`, `\\# a`, `\\#`, `\\~~~…`) —
the reference then reads `\\c` as the text `c` — or deliberately leaves the
line alone (`-a`, `--`, `+a`, `#a`, `#######`, `~~`, `~a`), and in exactly those
cases the reference's `listMarker` / `atxHeading` / `fenceOpen` /
`isThematicBreak` / block quote all fail on the line (`SolOutcome`, proved per
byte: `sol_dash`, `sol_plus`, `sol_gt`, `sol_hash`, `sol_tilde`).  Either way
the written paragraph renders as `<p>s</p>`.  Rest of `s` over `isEscSpB`,
last byte not a space; `inSubset` not needed. -/
theorem C36_escape_sound_marker_first (G : GoU) (U : UClass) (b0 : UInt8) (t : Bytes)
    (hb0 : b0 = 0x2D ∨ b0 = 0x2B ∨ b0 = 0x3E ∨ b0 = 0x23 ∨ b0 = 0x7E)
    (hcls : ∀ b ∈ t, isEscSpB b = true)
    (hlast : ∀ e, (b0 :: t).getLast? = some e → isEscB e = true) :
    ∃ out, fmtTextParagraph G (b0 :: t) = .ok out ∧
      render U true out = some (bs "<p>" ++ escHtml (b0 :: t) ++ bs "</p>\n") :=
  escape_sound_five G U b0 t hb0 hcls hlast

/-- `C36_escape_sound_partial` and `C36_escape_sound_marker_first` together:
every non-empty text over `isEscSpB` (printable ASCII other than `_`, `&`)
whose first byte is neither a space nor a DIGIT and whose last byte is not a
space is written as a paragraph that the reference renders as `<p>s</p>`. -/
theorem C36_escape_sound_partial_nondigit (G : GoU) (U : UClass) (s : Bytes)
    (hcls : ∀ b ∈ s, isEscSpB b = true)
    (hfirst : ∀ b, s.head? = some b → isEscB b = true ∧ isDigitB b = false)
    (hlast : ∀ e, s.getLast? = some e → isEscB e = true)
    (hne : s ≠ []) :
    ∃ out, fmtTextParagraph G s = .ok out ∧
      render U true out = some (bs "<p>" ++ escHtml s ++ bs "</p>\n") := by
  cases s with
  | nil => exact absurd rfl hne
  | cons b0 t =>
    obtain ⟨h1, h2⟩ := hfirst b0 rfl
    cases hg : isGoodFirstB b0 with
    | true =>
      obtain ⟨h3, h4⟩ := escape_sound_class G U b0 t hcls hg hlast
      exact ⟨_, h3, h4⟩
    | false =>
      exact escape_sound_five G U b0 t (marker_first_facts b0 h1 h2 hg)
        (fun b hb => hcls b (List.mem_cons_of_mem _ hb)) hlast

-- non-vacuity: `- a` (escaped), `--` (left alone), `#a`, `####### a`, `~~`
example : ∃ out, fmtTextParagraph goStdU [0x2D, 0x2D] = .ok out ∧
    render stdU true out = some (bs "<p>" ++ escHtml [0x2D, 0x2D] ++ bs "</p>\n") :=
  C36_escape_sound_partial_nondigit goStdU stdU [0x2D, 0x2D] (by decide) (by decide) (by decide) (by simp)

/-- ESCAPE SOUNDNESS FOR PRINTABLE ASCII (without `_`, `&`): every non-empty
text over `isEscSpB` whose first and last bytes are not spaces is written as a
paragraph that the C35 reference renders as `<p>s</p>` — no restriction on the
first byte any more.  New case: a DIGIT first.  With `ds` the leading digits,
`escapeStartOfLine … true true` writes `ds\\.…` / `ds\\)…` iff 1–9 digits are
followed by `.`/`)` and then end of line or SP/tab (`esol_digits`); in that
case the reference's `listMarker` fails on the backslash and the line scans as
digits, `\\p` → `p`, rest (`parseInlines_digits_bsl`); in every other case the
line is unchanged and `listMarker` is `none` by the same test
(`listMarker_digits`).  `inSubset` not needed. -/
theorem C36_escape_sound_ascii (G : GoU) (U : UClass) (s : Bytes)
    (hcls : ∀ b ∈ s, isEscSpB b = true)
    (hfirst : ∀ b, s.head? = some b → isEscB b = true)
    (hlast : ∀ e, s.getLast? = some e → isEscB e = true)
    (hne : s ≠ []) :
    ∃ out, fmtTextParagraph G s = .ok out ∧
      render U true out = some (bs "<p>" ++ escHtml s ++ bs "</p>\n") := by
  cases s with
  | nil => exact absurd rfl hne
  | cons b0 t =>
    cases hd : isDigitB b0 with
    | true => exact escape_sound_digit G U (b0 :: t) b0 hcls rfl hd hlast
    | false =>
      exact C36_escape_sound_partial_nondigit G U (b0 :: t) hcls
        (fun b hb => by simp at hb; subst hb; exact ⟨hfirst _ rfl, hd⟩) hlast hne

/-- … as an instance of `C36_escape_sound_full` -/
theorem C36_escape_sound_ascii_instance (s out : Bytes)
    (hcls : ∀ b ∈ s, isEscSpB b = true)
    (hfirst : ∀ b, s.head? = some b → isEscB b = true)
    (hlast : ∀ e, s.getLast? = some e → isEscB e = true) :
    s ≠ [] → validUtf8 s = true → ¬ s.contains NL →
    fmtTextParagraph goStdU s = .ok out → inSubset stdU out = true →
    render stdU true out = some (bs "<p>" ++ escHtml s ++ bs "</p>\n") := by
  intro hne _ _ hfmt _
  obtain ⟨o, h1, h2⟩ := C36_escape_sound_ascii goStdU stdU s hcls hfirst hlast hne
  rw [h1] at hfmt
  injection hfmt with hfmt
  subst hfmt
  exact h2

-- non-vacuity: `1. a` (written `1\. a`), `01)`, `1.a`, `1234567890. a` satisfy the hypotheses
example : ∃ out, fmtTextParagraph goStdU [0x31, 0x2E, 0x20, 0x61] = .ok out ∧
    render stdU true out = some (bs "<p>" ++ escHtml [0x31, 0x2E, 0x20, 0x61] ++ bs "</p>\n") :=
  C36_escape_sound_ascii goStdU stdU [0x31, 0x2E, 0x20, 0x61] (by decide) (by decide) (by decide) (by simp)

/-- the instance of `C36_escape_sound_full` that is proved -/
theorem C36_escape_sound_on_class (s out : Bytes)
    (hcls : ∀ b ∈ s, isEscSpB b = true)
    (hfirst : ∀ b, s.head? = some b → isGoodFirstB b = true)
    (hlast : ∀ e, s.getLast? = some e → isEscB e = true) :
    s ≠ [] → validUtf8 s = true → ¬ s.contains NL →
    fmtTextParagraph goStdU s = .ok out → inSubset stdU out = true →
    render stdU true out = some (bs "<p>" ++ escHtml s ++ bs "</p>\n") :=
  fun hne _ _ hfmt _ => (C36_escape_sound_partial goStdU stdU s out hcls hfirst hlast hne hfmt).2

-- non-vacuity: "a*b [c] <d" satisfies the hypotheses
example : fmtTextParagraph goStdU [0x61, 0x2A, 0x62, 0x20, 0x5B, 0x63, 0x5D, 0x20, 0x3C, 0x64] =
      .ok (escA [0x61, 0x2A, 0x62, 0x20, 0x5B, 0x63, 0x5D, 0x20, 0x3C, 0x64] ++ [NL]) ∧
    render stdU true (escA [0x61, 0x2A, 0x62, 0x20, 0x5B, 0x63, 0x5D, 0x20, 0x3C, 0x64] ++ [NL]) =
      some (bs "<p>" ++ escHtml [0x61, 0x2A, 0x62, 0x20, 0x5B, 0x63, 0x5D, 0x20, 0x3C, 0x64] ++ bs "</p>\n") :=
  escape_sound_class goStdU stdU 0x61 [0x2A, 0x62, 0x20, 0x5B, 0x63, 0x5D, 0x20, 0x3C, 0x64]
    (by decide) (by decide) (by decide)

/-! ### Boundary of the proved class and of the hypotheses (evaluation on witnesses) -/

/-- BOUNDARY, hypothesis `¬ s.contains NL`: without it the statement is false.
For `s = "a\n\nb"` all other hypotheses hold (non-empty, valid UTF-8, the
formatter succeeds, the output is in the reference's subset) but the output
`a\n\nb\n` is two paragraphs. -/
theorem C36_escape_unsound_with_newline :
    ∃ s out : Bytes, s ≠ [] ∧ validUtf8 s = true ∧ fmtTextParagraph goStdU s = .ok out ∧
      inSubset stdU out = true ∧
      render stdU true out = some (bs "<p>a</p>\n<p>b</p>\n") ∧
      render stdU true out ≠ some (bs "<p>" ++ escHtml s ++ bs "</p>\n") :=
  ⟨[0x61, 0x0A, 0x0A, 0x62], [0x61, 0x0A, 0x0A, 0x62, 0x0A], by decide, by decide +kernel, by decide +kernel,
   by decide +kernel, by decide +kernel, by decide +kernel⟩

/-- … and so is `"a\n# b"` (the second line becomes a heading) -/
theorem C36_escape_unsound_with_newline_heading :
    soundOn [0x61, 0x0A, 0x23, 0x20, 0x62] = false := by decide +kernel

/-- BOUNDARY of the proved class `C36_escape_sound_partial`: outside it the
first conclusion (`out = escA s ++ [NL]`) fails — the start/end-of-line
escaping or the context-dependent `_`/`&`/U+00A0 rules change the text — one
witness per dropped hypothesis: first byte (`- a`), last byte (`a `), byte
class (`_a`, `&amp;`, U+00A0). -/
theorem C36_escape_boundary_class_is_tight :
    fmtTextParagraph goStdU [0x2D, 0x20, 0x61] = .ok [0x5C, 0x2D, 0x20, 0x61, 0x0A] ∧
    fmtTextParagraph goStdU [0x61, 0x20] = .ok [0x61, 0x26, 0x23, 0x33, 0x32, 0x3B, 0x0A] ∧
    fmtTextParagraph goStdU [0x5F, 0x61] = .ok [0x5C, 0x5F, 0x61, 0x0A] ∧
    fmtTextParagraph goStdU [0x26, 0x61, 0x6D, 0x70, 0x3B] = .ok [0x5C, 0x26, 0x61, 0x6D, 0x70, 0x3B, 0x0A] ∧
    fmtTextParagraph goStdU [0xC2, 0xA0] = .ok [0x26, 0x6E, 0x62, 0x73, 0x70, 0x3B, 0x0A] := by
  decide +kernel

/-- … while the conclusion of `C36_escape_sound_full` (the reference reads the
written paragraph back as the text) still HOLDS on every witness tried outside
the class, WITHOUT using `inSubset`: list/heading/fence/quote/thematic-break
lookalikes, zero-padded ordered markers, `_` in all positions, entities known
and unknown, leading/trailing spaces, tab, U+00A0, non-ASCII letters, and even
a single interior newline (a soft break renders as the newline itself). -/
theorem C36_escape_boundary_sound_outside_class :
    ∀ s ∈ ([[0x2D, 0x20, 0x61],
     [0x2D],
     [0x2B],
     [0x31, 0x2E, 0x20, 0x61],
     [0x31, 0x2E],
     [0x30, 0x31, 0x2E, 0x20, 0x61],
     [0x32, 0x29, 0x20, 0x61],
     [0x23, 0x20, 0x61],
     [0x23],
     [0x23, 0x23, 0x23, 0x23, 0x23, 0x23, 0x23, 0x20, 0x61],
     [0x7E, 0x7E, 0x7E],
     [0x3E, 0x20, 0x61],
     [0x5F, 0x61],
     [0x61, 0x5F, 0x62],
     [0x5F, 0x61, 0x5F],
     [0x61, 0x5F, 0x5F, 0x62],
     [0x26, 0x61, 0x6D, 0x70, 0x3B],
     [0x26, 0x23, 0x33, 0x32, 0x3B],
     [0x26, 0x66, 0x6F, 0x6F, 0x3B],
     [0x61, 0x26, 0x62],
     [0x61, 0x20],
     [0x20, 0x61],
     [0x20, 0x20, 0x61, 0x20, 0x20],
     [0xC2, 0xA0],
     [0xC3, 0xA9, 0x5F, 0xC3, 0xA9],
     [0x2D, 0x2D, 0x2D],
     [0x2D, 0x20, 0x2D, 0x20, 0x2D],
     [0x2D, 0x2D],
     [0x61, 0x09, 0x62],
     [0x09],
     [0x3D],
     [0x21, 0x5B, 0x61, 0x5D, 0x28, 0x62, 0x29],
     [0x61, 0x0A, 0x62]] : List Bytes),
      soundOn s = true := by
  decide +kernel

/-- every single rune of the boundary alphabet (ASCII metacharacters, tab,
U+0001, DEL, U+0085, U+FFFD, U+2028, U+2003, U+00A0, é, FF, CR) is sound even
though several of them put the output outside `inSubset` -/
theorem C36_escape_boundary_single_runes : ∀ s ∈ boundaryStrings 1, soundOn s = true := by
  decide +kernel

/-! ## Ordered-list-marker lookalikes with leading zeros -/

/-- `strconv.Atoi(ds) == 1` (what the parser tests, `decVal`) iff
`strings.TrimLeft(ds, "0") == "1"` (what the formatter tests), for digit strings -/
theorem C36_trimLeftZeros_eq_one_iff (ds : Bytes) (hd : ∀ b ∈ ds, isDigitB b = true) :
    decVal ds = 1 ↔ ds.dropWhile (· == 0x30) = [0x31] :=
  trimLeftZeros_eq_one_iff ds hd

example : decVal [0x30, 0x30, 0x31] = 1 ∧ decVal [0x31, 0x30] ≠ 1 ∧ decVal [0x30, 0x32] ≠ 1 := by decide

/-- On a continuation line of a paragraph (`startOfParagraph = false`) a line
starting with 1–9 digits, `.` or `)`, and then end of line or a space/tab gets
a backslash before the punctuation IF AND ONLY IF the number is 1 as the
parser reads it (`decVal` = Go `strconv.Atoi`), leading zeros included.
Consequences against the C35 model of `parseStartingMarkers`: the escaped line
is not an item marker, and the unescaped line (number ≠ 1) opens no container
when it continues a paragraph (`m.start != 1 && !newParagraph`) — either way a
continuation line stays a continuation line.  (The seeded change
`number == "1"` breaks the "if" direction for `01.`, `001)`.) -/
theorem C36_ordered_lookalike_escaped (sb ds tail : Bytes) (p : UInt8)
    (hd : ∀ b ∈ ds, isDigitB b = true) (h1 : 1 ≤ ds.length) (h9 : ds.length ≤ 9)
    (hp : p = 0x2E ∨ p = 0x29) (ht : tail = [] ∨ startsWithSpaceOrTab tail = true) :
    (decVal ds = 1 →
      escapeStartOfLine sb (ds ++ p :: tail) false true = .ok (ds ++ 0x5C :: p :: tail) ∧
      itemPrefix (ds ++ 0x5C :: p :: tail) = none ∧ itemMarkerRe (ds ++ 0x5C :: p :: tail) = none ∧
      itemMarkerBlankRe (ds ++ 0x5C :: p :: tail) = none) ∧
    (decVal ds ≠ 1 →
      escapeStartOfLine sb (ds ++ p :: tail) false true = .ok (ds ++ p :: tail) ∧
      ∀ fuel, startingMarkers (fuel + 1) (ds ++ p :: tail) false [] = some (ds ++ p :: tail, [])) := by
  have h := escapeStartOfLine_ordered sb ds tail p hd h1 h9 hp ht
  constructor
  · intro hv
    rw [if_pos hv] at h
    exact ⟨h, escaped_not_item ds tail p hd h1 h9⟩
  · intro hv
    rw [if_neg hv] at h
    exact ⟨h, unescaped_not_interrupting ds tail p hd h1 h9 hp hv⟩

-- `01. bar`, `001) bar`, `1.` get the backslash; `2. bar`, `02. bar`, `10. bar` do not
example :
    escapeStartOfLine [] [0x30, 0x31, 0x2E, 0x20, 0x62, 0x61, 0x72] false true = .ok [0x30, 0x31, 0x5C, 0x2E, 0x20, 0x62, 0x61, 0x72] ∧
    escapeStartOfLine [] [0x30, 0x30, 0x31, 0x29, 0x20, 0x62, 0x61, 0x72] false true = .ok [0x30, 0x30, 0x31, 0x5C, 0x29, 0x20, 0x62, 0x61, 0x72] ∧
    escapeStartOfLine [] [0x31, 0x2E] false true = .ok [0x31, 0x5C, 0x2E] ∧
    escapeStartOfLine [] [0x32, 0x2E, 0x20, 0x62, 0x61, 0x72] false true = .ok [0x32, 0x2E, 0x20, 0x62, 0x61, 0x72] ∧
    escapeStartOfLine [] [0x30, 0x32, 0x2E, 0x20, 0x62, 0x61, 0x72] false true = .ok [0x30, 0x32, 0x2E, 0x20, 0x62, 0x61, 0x72] ∧
    escapeStartOfLine [] [0x31, 0x30, 0x2E, 0x20, 0x62, 0x61, 0x72] false true = .ok [0x31, 0x30, 0x2E, 0x20, 0x62, 0x61, 0x72] ∧
    startingMarkers 8 [0x30, 0x32, 0x2E, 0x20, 0x62, 0x61, 0x72] false [] = some ([0x30, 0x32, 0x2E, 0x20, 0x62, 0x61, 0x72], []) ∧
    (startingMarkers 8 [0x30, 0x31, 0x2E, 0x20, 0x62, 0x61, 0x72] false []).map (·.2) = some [Cont.ordered 0x2E 1 4] := by
  decide +kernel

/-! ## Reflow preserves meaning for paragraphs of plain words (proved) -/

/-- Reflow of a paragraph of plain words (non-empty, ASCII letters/digits) at
any width: the formatter writes the breaker's lines, each joined by single
spaces and terminated by NL, the lines concatenated are the words, and the C35
reference reads the result back as ONE paragraph with soft breaks exactly at
the line breaks — i.e. replacing NL by SP gives the rendering of the
unformatted paragraph (`C36_reflow_preserves_plain_words_general`, last
conjunct). -/
def C36_reflow_preserves_plain_words_full : Prop :=
  ∀ (w : Int) (ws : List Bytes), ws ≠ [] → (∀ x ∈ ws, x ≠ [] ∧ ∀ b ∈ x, isAlnumB b = true) →
    ∃ lines : List (List Bytes),
      fmtTextReflow goStdU w (joinSp ws) = .ok (lines.flatMap (fun l => joinSp l ++ [NL])) ∧
      lines.flatten = ws ∧ (∀ l ∈ lines, l ≠ []) ∧
      render stdU true (lines.flatMap (fun l => joinSp l ++ [NL])) =
        some (bs "<p>" ++ joinNL (lines.map joinSp) ++ bs "</p>\n")

/-- the statement for any `GoU` / `UClass`, together with the rendering of the
UNFORMATTED paragraph: `render (fmt d)` is `<p>` + the lines joined by NL +
`</p>`, `render d` is `<p>` + the words joined by SP + `</p>`, and the lines
concatenated are the words — the two renderings differ only in soft break ↔
space. -/
theorem C36_reflow_preserves_plain_words_general (G : GoU) (U : UClass) (w : Int) (ws : List Bytes)
    (hne : ws ≠ []) (h : ∀ x ∈ ws, PlainWord x) :
    ∃ lines : List (List Bytes),
      fmtTextReflow G w (joinSp ws) = .ok (lines.flatMap (fun l => joinSp l ++ [NL])) ∧
      lines.flatten = ws ∧ (∀ l ∈ lines, l ≠ []) ∧
      render U true (lines.flatMap (fun l => joinSp l ++ [NL])) =
        some (bs "<p>" ++ joinNL (lines.map joinSp) ++ bs "</p>\n") ∧
      render U true (joinSp ws ++ [NL]) = some (bs "<p>" ++ joinSp ws ++ bs "</p>\n") := by
  obtain ⟨lines, h1, h2, h3, h4⟩ := reflow_preserves_plain_words G U w ws hne h
  refine ⟨lines, h1, h2, h3, h4, ?_⟩
  have := render_plain_lines U [joinSp ws] (by simp)
    (by intro L hL; simp at hL; subst hL; exact plainLine_joinSp ws hne h)
    (by simpa using parseInlines_lines U [ws] (by simp) (by intro l hl; simp at hl; subst hl; exact ⟨hne, h⟩))
  simpa [joinNL] using this

theorem C36_reflow_preserves_plain_words : C36_reflow_preserves_plain_words_full := by
  intro w ws hne h
  obtain ⟨lines, h1, h2, h3, h4⟩ := reflow_preserves_plain_words goStdU stdU w ws hne h
  exact ⟨lines, h1, h2, h3, h4⟩

/-- MODEL SIDE of reflow for plain words (`PlainWord` = non-empty, ASCII
letters/digits only), any `GoU`, any width: `escapeText` is the identity on
`joinSp ws`, `splitSpans` recovers `ws`, `escapeStartOfLine` changes no line
(a digit-initial line is never followed by `.`/`)`), so the formatter writes
exactly the breaker's lines, each joined by single spaces and terminated by
NL; the lines concatenated are the words, no line is empty, and every line
consists of plain words. -/
theorem C36_reflow_plain_words_written (G : GoU) (w : Int) (ws : List Bytes) (hne : ws ≠ [])
    (h : ∀ x ∈ ws, PlainWord x) :
    ∃ lines : List (List Bytes),
      fmtTextReflow G w (joinSp ws) = .ok (lines.flatMap (fun l => joinSp l ++ [NL])) ∧
      lines.flatten = ws ∧ (∀ l ∈ lines, l ≠ [] ∧ ∀ x ∈ l, PlainWord x) ∧ lines ≠ [] :=
  fmtTextReflow_plain G w ws hne h

example : ∀ x ∈ [[0x61, 0x61], [0x31, 0x32], [0x63]], PlainWord x := by
  intro x hx
  simp only [List.mem_cons, List.not_mem_nil, or_false] at hx
  rcases hx with h | h | h <;> subst h <;> exact ⟨by simp, by decide⟩

/-- INLINE READ-BACK of reflow for plain words, any `GoU`/`UClass`/width: the
formatter writes the breaker's lines (as in `C36_reflow_plain_words_written`),
and the C35 reference tokenizer + emphasis resolution + text merging reads the
paragraph text `joinNL (lines.map joinSp)` as ONE TEXT PER LINE with a
`.softbreak` exactly at each line end (`lineInls`), while the unformatted
paragraph `joinSp ws` reads as the single text `joinSp ws`: the formatted
paragraph is the unformatted one with some spaces turned into soft breaks
(`lines.flatten = ws`), nothing else. -/
theorem C36_reflow_plain_words_inline (G : GoU) (U : UClass) (w : Int) (ws : List Bytes)
    (hne : ws ≠ []) (h : ∀ x ∈ ws, PlainWord x) :
    ∃ lines : List (List Bytes),
      fmtTextReflow G w (joinSp ws) = .ok (lines.flatMap (fun l => joinSp l ++ [NL])) ∧
      lines.flatten = ws ∧ (∀ l ∈ lines, l ≠ []) ∧
      parseInlines U (joinNL (lines.map joinSp)) = some (lineInls (lines.map joinSp)) ∧
      parseInlines U (joinSp ws) = some [Inl.text (joinSp ws)] := by
  obtain ⟨lines, h1, h2, h3, h4⟩ := fmtTextReflow_plain G w ws hne h
  refine ⟨lines, h1, h2, fun l hl => (h3 l hl).1, parseInlines_lines U lines h4 h3, ?_⟩
  have hb := joinSp_bytes ws h
  have := parseInlines_escA U (joinSp ws) (fun b hb' => (alnum_facts b (hb b hb')).1)
  rw [escA_id _ (fun b hb' => (alnum_facts b (hb b hb')).2.1)] at this
  obtain ⟨c, t, he, _⟩ := joinSp_head ws hne h
  rw [this, he]
  simp

example : lineInls [[0x61, 0x61, 0x20, 0x62, 0x62], [0x63]] =
    [Inl.text [0x61, 0x61, 0x20, 0x62, 0x62], Inl.softbreak, Inl.text [0x63]] := rfl

/-- the statement evaluated on `aa bb c` at width 5: lines `aa bb` / `c` -/
theorem C36_reflow_plain_words_instance :
    fmtTextReflow goStdU 5 [0x61, 0x61, 0x20, 0x62, 0x62, 0x20, 0x63] =
      .ok ([[[0x61, 0x61], [0x62, 0x62]], [[0x63]]].flatMap (fun l => joinSp l ++ [NL])) ∧
    render stdU true ([[[0x61, 0x61], [0x62, 0x62]], [[0x63]]].flatMap (fun l => joinSp l ++ [NL])) =
      some (bs "<p>" ++ joinNL ([[[0x61, 0x61], [0x62, 0x62]], [[0x63]]].map joinSp) ++ bs "</p>\n") := by
  decide +kernel

/-! ## Code fences -/

/-- The fence written by `codeFences` is at least three characters long and
STRICTLY longer than every run of the fence character inside the content, so
no content line can close (or be mistaken for) the fence; a backtick fence is
only chosen when the info string has no backtick (a backtick there would
disqualify the opening line). -/
theorem C36_fence_longer (info : Bytes) (lines : List Bytes) :
    3 ≤ (codeFences info lines).2.1 ∧
    (∀ line ∈ lines, ∀ k ∈ runLens (codeFences info lines).1 line, k < (codeFences info lines).2.1) ∧
    ((codeFences info lines).1 = 0x60 → info.contains 0x60 = false) ∧
    ((codeFences info lines).1 = 0x60 ∨ (codeFences info lines).1 = 0x7E) := by
  unfold codeFences
  refine ⟨?_, ?_, ?_, ?_⟩
  · simp only []; omega
  · intro line hl k hk
    have := run_le_maxRun _ lines line k hl hk
    simp only [] at this ⊢
    omega
  · by_cases h : info.contains 0x60 = true <;> simp [h]
  · simp only []
    split
    · right; rfl
    · left; rfl

/-- the block written for a code block: opening line, the content lines
unchanged, and a closing fence of the same character and length -/
theorem C36_fence_block_shape (info : Bytes) (lines : List Bytes) :
    fmtCodeBlock info lines =
      (codeFences info lines).2.2 ++ [NL] ++ lines.flatMap (· ++ [NL]) ++
        List.replicate (codeFences info lines).2.1 (codeFences info lines).1 ++ [NL] := by
  simp [fmtCodeBlock]

example : (codeFences [0x67, 0x6F] [[0x60, 0x60, 0x60, 0x60], [0x61]]).2.1 = 5 := by decide
example : (codeFences [0x60] [[0x7E, 0x7E, 0x7E]]).1 = 0x7E ∧ (codeFences [0x60] [[0x7E, 0x7E, 0x7E]]).2.1 = 4 := by decide

/-! ## Code spans -/

/-- The backtick string chosen for a code span has a length different from
the length of EVERY backtick run in the content (so the content cannot close
it), and a space of padding is written whenever the content itself starts or
ends with a backtick (so the delimiter run is not extended). -/
theorem C36_span_delim (text out : Bytes) (h : fmtCodeSpan text = .ok out) :
    ∃ (l : Nat) (pad : Bytes),
      1 ≤ l ∧ l ∉ runLens 0x60 text ∧
      out = List.replicate l 0x60 ++ pad ++ text ++ pad ++ List.replicate l 0x60 ∧
      ((text.head? = some 0x60 ∨ text.getLast? = some 0x60) → pad = [SP]) ∧
      (pad = [] ∨ pad = [SP]) := by
  unfold fmtCodeSpan at h
  cases hf : text.head? with
  | none => simp [hf] at h
  | some first =>
    cases hl : text.getLast? with
    | none => simp [hf, hl] at h
    | some last =>
      simp only [hf, hl] at h
      injection h with h
      refine ⟨spanDelimLen ((runLens 0x60 text).length + 1) 1 (runLens 0x60 text), _, ?_, ?_, h.symm, ?_, ?_⟩
      · exact spanDelimLen_ge _ 1 _
      · rcases spanDelimLen_spec ((runLens 0x60 text).length + 1) 1 (runLens 0x60 text) with h1 | h2
        · exact h1
        · have := interval_subset_length _ _ _ h2
          omega
      · intro hb
        rcases hb with hb | hb
        · have : first = 0x60 := by simpa using hb
          simp [this]
        · have : last = 0x60 := by simpa using hb
          simp [this]
      · by_cases hp : (first == 0x60 || last == 0x60 || (first == SP && last == SP && !(text.all (· == SP)))) = true
        · right; simp [hp]
        · left; simp [hp]

example : fmtCodeSpan [0x61, 0x60, 0x62, 0x60, 0x60] = .ok ([0x60,0x60,0x60,0x20] ++ [0x61, 0x60, 0x62, 0x60, 0x60] ++ [0x20,0x60,0x60,0x60]) := by decide

/-! ## Reflow -/

/-- The line breaker never splits, drops, duplicates or reorders an
unbreakable span: the lines, concatenated, are exactly the spans; and no line
is empty. -/
theorem C36_reflow_no_split (width : Bytes → Nat) (exactOK : Bool → Bytes → Bool) (maxW : Int)
    (spans : List Bytes) :
    (breakLines width exactOK maxW true [] 0 spans).flatten = spans ∧
    ∀ l ∈ breakLines width exactOK maxW true [] 0 spans, l ≠ [] := by
  refine ⟨?_, breakLines_nonempty width exactOK maxW spans true [] 0⟩
  simpa using breakLines_flatten width exactOK maxW spans true [] 0

/-- Every line on which a break was possible (two or more spans) is narrower
than the width, or exactly as wide and left unchanged by start-of-line
escaping — so it fits.  (Lines of a single span can be wider: an unbreakable
unit is never split.) -/
theorem C36_reflow_fits (width : Bytes → Nat) (exactOK : Bool → Bytes → Bool) (maxW : Int)
    (spans : List Bytes) :
    ∀ l ∈ breakLines width exactOK maxW true [] 0 spans,
      l.length ≥ 2 →
        ((lineWidth width l : Int) < maxW) ∨
        ((lineWidth width l : Int) = maxW ∧ ∃ sop, exactOK sop (joinSp l) = true) := by
  intro l hl
  exact breakLines_fits width exactOK maxW spans true [] 0 (by simp [lineWidth]) (by intro h; simp at h) l hl

example : breakLines asciiWidth (fun _ _ => true) 5 true [] 0 [[0x61, 0x61], [0x62, 0x62], [0x63]] =
    [[[0x61, 0x61], [0x62, 0x62]], [[0x63]]] := by decide

/-- `lineWidth` is the width of the line as written (spans joined by one space) -/
theorem C36_lineWidth_joinSp (l : List Bytes) : lineWidth asciiWidth l = (joinSp l).length := by
  induction l with
  | nil => simp [lineWidth, joinSp]
  | cons x xs ih =>
    cases xs with
    | nil => simp [lineWidth, joinSp, asciiWidth]
    | cons y ys =>
      simp only [lineWidth, joinSp, asciiWidth, List.length_append, List.length_cons] at ih ⊢
      omega

/-- `escapeStartOfLine` adds at most ONE byte (a backslash) to a line that does
not start with a space or tab — which is why the breaker only has to be careful
when a line is exactly as wide as the width. -/
theorem C36_startOfLine_adds_at_most_one (sb s out : Bytes) (sop eol : Bool)
    (hs : ∀ b, s.head? = some b → b ≠ SP ∧ b ≠ 0x09)
    (h : escapeStartOfLine sb s sop eol = .ok out) : out.length ≤ s.length + 1 :=
  escapeStartOfLine_len sb s out sop eol hs h

/-- Consequence for the written text: a line of two or more spans that the
breaker judged strictly narrower than the width is, after start-of-line
escaping, still within the width. -/
theorem C36_reflow_written_line_fits (l : List Bytes) (maxW : Int) (sb out : Bytes) (sop : Bool)
    (hw : (lineWidth asciiWidth l : Int) < maxW)
    (hs : ∀ b, (joinSp l).head? = some b → b ≠ SP ∧ b ≠ 0x09)
    (h : escapeStartOfLine sb (joinSp l) sop true = .ok out) : (out.length : Int) ≤ maxW := by
  have h1 := escapeStartOfLine_len sb (joinSp l) out sop true hs h
  have h2 := C36_lineWidth_joinSp l
  omega

example : escapeStartOfLine [] [0x2D, 0x20, 0x61] true true = .ok [0x5C, 0x2D, 0x20, 0x61] := by decide
