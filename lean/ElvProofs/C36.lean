/-
C36 — the Markdown formatter preserves meaning and is idempotent: theorems
over the model of pkg/md/fmt.go (lean/ElvModel/C36/Model.lean).

Level: PARTIAL.  Proved: the local decisions that make code blocks, code spans
and reflowed paragraphs round-trip.  Not proved (stated as `…_full`): the
whole-formatter laws and the soundness of text escaping against the C35
reference parser; those are sampled by the correspondence/oracle run.
-/
import ElvModel.C36.Model
import ElvModel.C35.RefHtml
import ElvProofs.C36.Lemmas
open C36 C35 Go

/-! ## The property at full strength (not proved) -/

/-- `render (fmt d) = render d` and `fmt (fmt d) = fmt d` for an abstract
formatter/renderer pair: the statement the oracle evaluates on the real code. -/
def C36_full (fmt render : Bytes → Bytes) (supported : Bytes → Prop) : Prop :=
  ∀ d, supported d → render (fmt d) = render d ∧ fmt (fmt d) = fmt d

/-- soundness of text escaping against the C35 reference: a text node `s`
written by the formatter as a paragraph reads back as exactly that text. -/
def C36_escape_sound_full : Prop :=
  ∀ (s out : Bytes), s ≠ [] → validUtf8 s = true → ¬ s.contains NL →
    fmtTextParagraph goStdU s = .ok out → inSubset stdU out = true →
    render stdU true out = some (bs "<p>" ++ escHtml s ++ bs "</p>\n")

/-! ## Code fences -/

/-- The fence written by `codeFences` is at least three characters long and
STRICTLY longer than every run of the fence character inside the content, so
no content line can close (or be mistaken for) the fence; a backtick fence is
only chosen when the info string has no backtick (a backtick there would
disqualify the opening line). -/
theorem C36_fence_longer (info : Bytes) (lines : List Bytes) :
    3 ≤ (codeFences info lines).2.1 ∧
    (∀ line ∈ lines, ∀ k ∈ runLens (codeFences info lines).1 line, k < (codeFences info lines).2.1) ∧
    ((codeFences info lines).1 = 0x60 → info.contains 0x60 = false) ∧
    ((codeFences info lines).1 = 0x60 ∨ (codeFences info lines).1 = 0x7E) := by
  unfold codeFences
  refine ⟨?_, ?_, ?_, ?_⟩
  · simp only []; omega
  · intro line hl k hk
    have := run_le_maxRun _ lines line k hl hk
    simp only [] at this ⊢
    omega
  · by_cases h : info.contains 0x60 = true <;> simp [h]
  · simp only []
    split
    · right; rfl
    · left; rfl

/-- the block written for a code block: opening line, the content lines
unchanged, and a closing fence of the same character and length -/
theorem C36_fence_block_shape (info : Bytes) (lines : List Bytes) :
    fmtCodeBlock info lines =
      (codeFences info lines).2.2 ++ [NL] ++ lines.flatMap (· ++ [NL]) ++
        List.replicate (codeFences info lines).2.1 (codeFences info lines).1 ++ [NL] := by
  simp [fmtCodeBlock]

example : (codeFences [0x67, 0x6F] [[0x60, 0x60, 0x60, 0x60], [0x61]]).2.1 = 5 := by decide
example : (codeFences [0x60] [[0x7E, 0x7E, 0x7E]]).1 = 0x7E ∧ (codeFences [0x60] [[0x7E, 0x7E, 0x7E]]).2.1 = 4 := by decide

/-! ## Code spans -/

/-- The backtick string chosen for a code span has a length different from
the length of EVERY backtick run in the content (so the content cannot close
it), and a space of padding is written whenever the content itself starts or
ends with a backtick (so the delimiter run is not extended). -/
theorem C36_span_delim (text out : Bytes) (h : fmtCodeSpan text = .ok out) :
    ∃ (l : Nat) (pad : Bytes),
      1 ≤ l ∧ l ∉ runLens 0x60 text ∧
      out = List.replicate l 0x60 ++ pad ++ text ++ pad ++ List.replicate l 0x60 ∧
      ((text.head? = some 0x60 ∨ text.getLast? = some 0x60) → pad = [SP]) ∧
      (pad = [] ∨ pad = [SP]) := by
  unfold fmtCodeSpan at h
  cases hf : text.head? with
  | none => simp [hf] at h
  | some first =>
    cases hl : text.getLast? with
    | none => simp [hf, hl] at h
    | some last =>
      simp only [hf, hl] at h
      injection h with h
      refine ⟨spanDelimLen ((runLens 0x60 text).length + 1) 1 (runLens 0x60 text), _, ?_, ?_, h.symm, ?_, ?_⟩
      · exact spanDelimLen_ge _ 1 _
      · rcases spanDelimLen_spec ((runLens 0x60 text).length + 1) 1 (runLens 0x60 text) with h1 | h2
        · exact h1
        · have := interval_subset_length _ _ _ h2
          omega
      · intro hb
        rcases hb with hb | hb
        · have : first = 0x60 := by simpa using hb
          simp [this]
        · have : last = 0x60 := by simpa using hb
          simp [this]
      · by_cases hp : (first == 0x60 || last == 0x60 || (first == SP && last == SP && !(text.all (· == SP)))) = true
        · right; simp [hp]
        · left; simp [hp]

example : fmtCodeSpan [0x61, 0x60, 0x62, 0x60, 0x60] = .ok ([0x60,0x60,0x60,0x20] ++ [0x61, 0x60, 0x62, 0x60, 0x60] ++ [0x20,0x60,0x60,0x60]) := by decide

/-! ## Reflow -/

/-- The line breaker never splits, drops, duplicates or reorders an
unbreakable span: the lines, concatenated, are exactly the spans; and no line
is empty. -/
theorem C36_reflow_no_split (width : Bytes → Nat) (exactOK : Bool → Bytes → Bool) (maxW : Int)
    (spans : List Bytes) :
    (breakLines width exactOK maxW true [] 0 spans).flatten = spans ∧
    ∀ l ∈ breakLines width exactOK maxW true [] 0 spans, l ≠ [] := by
  refine ⟨?_, breakLines_nonempty width exactOK maxW spans true [] 0⟩
  simpa using breakLines_flatten width exactOK maxW spans true [] 0

/-- Every line on which a break was possible (two or more spans) is narrower
than the width, or exactly as wide and left unchanged by start-of-line
escaping — so it fits.  (Lines of a single span can be wider: an unbreakable
unit is never split.) -/
theorem C36_reflow_fits (width : Bytes → Nat) (exactOK : Bool → Bytes → Bool) (maxW : Int)
    (spans : List Bytes) :
    ∀ l ∈ breakLines width exactOK maxW true [] 0 spans,
      l.length ≥ 2 →
        ((lineWidth width l : Int) < maxW) ∨
        ((lineWidth width l : Int) = maxW ∧ ∃ sop, exactOK sop (joinSp l) = true) := by
  intro l hl
  exact breakLines_fits width exactOK maxW spans true [] 0 (by simp [lineWidth]) (by intro h; simp at h) l hl

example : breakLines asciiWidth (fun _ _ => true) 5 true [] 0 [[0x61, 0x61], [0x62, 0x62], [0x63]] =
    [[[0x61, 0x61], [0x62, 0x62]], [[0x63]]] := by decide

/-- `lineWidth` is the width of the line as written (spans joined by one space) -/
theorem C36_lineWidth_joinSp (l : List Bytes) : lineWidth asciiWidth l = (joinSp l).length := by
  induction l with
  | nil => simp [lineWidth, joinSp]
  | cons x xs ih =>
    cases xs with
    | nil => simp [lineWidth, joinSp, asciiWidth]
    | cons y ys =>
      simp only [lineWidth, joinSp, asciiWidth, List.length_append, List.length_cons] at ih ⊢
      omega

/-- `escapeStartOfLine` adds at most ONE byte (a backslash) to a line that does
not start with a space or tab — which is why the breaker only has to be careful
when a line is exactly as wide as the width. -/
theorem C36_startOfLine_adds_at_most_one (sb s out : Bytes) (sop eol : Bool)
    (hs : ∀ b, s.head? = some b → b ≠ SP ∧ b ≠ 0x09)
    (h : escapeStartOfLine sb s sop eol = .ok out) : out.length ≤ s.length + 1 :=
  escapeStartOfLine_len sb s out sop eol hs h

/-- Consequence for the written text: a line of two or more spans that the
breaker judged strictly narrower than the width is, after start-of-line
escaping, still within the width. -/
theorem C36_reflow_written_line_fits (l : List Bytes) (maxW : Int) (sb out : Bytes) (sop : Bool)
    (hw : (lineWidth asciiWidth l : Int) < maxW)
    (hs : ∀ b, (joinSp l).head? = some b → b ≠ SP ∧ b ≠ 0x09)
    (h : escapeStartOfLine sb (joinSp l) sop true = .ok out) : (out.length : Int) ≤ maxW := by
  have h1 := escapeStartOfLine_len sb (joinSp l) out sop true hs h
  have h2 := C36_lineWidth_joinSp l
  omega

example : escapeStartOfLine [] [0x2D, 0x20, 0x61] true true = .ok [0x5C, 0x2D, 0x20, 0x61] := by decide
