/-
C38 — option parsing matches the GNU/BSD getopt_long conventions.

Model: ElvModel/C38/Model.lean (`fx = true`: the code with the four repairs in
fixes/C38-*.patch — round 2 added `C38-noarg-attached-arg`; `fx = false`: the
unchanged tree).  Spec: ElvModel/C38/Spec.lean
(`read`: the look-ahead reading of the conventions into `Item`s; `context`: how
the last word is completed).  `WF specs`: no long name contains `=`.
-/
import ElvProofs.C38.NoPanic
open Go C38 C38.Spec C38.Proofs
open Gen.C38Config

/-! Byte strings used in the witnesses below (kernel-reducible literals). -/
/-- `"verbose"` -/
abbrev C38_verbose : Bytes := [118, 101, 114, 98, 111, 115, 101]
/-- `"file"` -/
abbrev C38_file : Bytes := [102, 105, 108, 101]
/-- `"in-place"` -/
abbrev C38_inPlace : Bytes := [105, 110, 45, 112, 108, 97, 99, 101]
/-- `"--verbose=x"` -/
abbrev C38_ddVerboseEqX : Bytes := [45, 45, 118, 101, 114, 98, 111, 115, 101, 61, 120]
/-- `"x"` -/
abbrev C38_x : Bytes := [120]
/-- `"--=x"` -/
abbrev C38_ddEqX : Bytes := [45, 45, 61, 120]
/-- `"foo"` -/
abbrev C38_foo : Bytes := [102, 111, 111]
/-- `"-vf"` -/
abbrev C38_dVF : Bytes := [45, 118, 102]
/-- `"--"` -/
abbrev C38_dd : Bytes := [45, 45]
/-- `"-v"` -/
abbrev C38_dV : Bytes := [45, 118]
/-- `"--file=x"` -/
abbrev C38_ddFileEqX : Bytes := [45, 45, 102, 105, 108, 101, 61, 120]
/-- `"-i.bak"` -/
abbrev C38_dIBak : Bytes := [45, 105, 46, 98, 97, 107]
/-- `"--file"` -/
abbrev C38_ddFile : Bytes := [45, 45, 102, 105, 108, 101]
/-- `"na"` -/
abbrev C38_na : Bytes := [110, 97]

/-! ## First sentence: `Parse` against the conventions -/

/-- C38 (parsing) at full strength, for the code variant `fx`: the options
(with arguments) and operands are exactly those the conventions assign, and an
error is reported exactly when GNU/BSD getopt_long would report one. -/
def C38_full_parse_for (fx : Bool) : Prop :=
  ∀ (specs : List OptionSpec) (args : List Bytes) (cfg : Nat), WF specs →
    ∃ err, Parse fx args specs cfg =
        .ok (optsOf false (read cfg specs args false), operandsOf (read cfg specs args false), err) ∧
      (err = none ↔ accepted (read cfg specs args false) = true)

/-- C38 (parsing) at full strength (the fixed code). -/
def C38_full_parse : Prop := C38_full_parse_for true

/-- The loop variables of `parse` are exactly the spec's reading: options in
order (an option written `--name=value` although it takes no argument is NOT
among them: it is set aside in `extraArg`), operands in order, the option still
waiting for its required argument, and whether option parsing has ended.  No
panic. -/
theorem C38_parse_refines_spec (specs : List OptionSpec) (hwf : WF specs) (cfg : Nat)
    (args : List Bytes) :
    parse true args specs cfg =
      .ok ⟨optsOf false (read cfg specs args false), operandsOf (read cfg specs args false),
           missingOf (read cfg specs args false), ended cfg (read cfg specs args false),
           extraOf (read cfg specs args false)⟩ :=
  parse_eq specs hwf cfg args

/-- `Parse` returns exactly the conventions' options and operands (strict
reading: `--name=value` for an option that takes no argument delivers no
option), and reports an error exactly when GNU/BSD getopt_long would: a missing
required argument, an unknown option, or such a `--name=value`.  (Round 2:
with `fixes/C38-noarg-attached-arg.patch` the former exclusion of the `badArg`
case is gone; this is the full statement.) -/
theorem C38_Parse_refines_spec : C38_full_parse := by
  intro specs args cfg hwf
  unfold Parse
  rw [parse_eq specs hwf]
  refine ⟨_, rfl, ?_⟩
  rw [multiError_none, parseErrors_nil_iff]
  simp only [missingOf_none_iff, unknown_filter_nil_iff, extraOf_nil_iff, accepted]
  cases (read cfg specs args false).any isUnknown <;>
    cases (read cfg specs args false).any isMissing <;>
      cases (read cfg specs args false).any isBadArg <;> simp

def C38_witnessSpecs : List OptionSpec :=
  [⟨118, C38_verbose, NoArgument⟩, ⟨102, C38_file, RequiredArgument⟩,
   ⟨105, C38_inPlace, OptionalArgument⟩]

/-- non-vacuity / the former finding: `--verbose=x` for the no-argument option
`verbose` now delivers no option and reports the error. -/
example : (match Parse true [C38_ddVerboseEqX] C38_witnessSpecs GNU with
    | .ok (opts, operands, err) => opts.isEmpty && operands.isEmpty && err.isSome
    | _ => false) = true := by decide

/-- … also with an empty value (`--verbose=`), which Go cannot tell from
`--verbose` by looking at `Option.Argument`. -/
example : (match Parse true [[45, 45, 118, 101, 114, 98, 111, 115, 101, 61]] C38_witnessSpecs GNU with
    | .ok (opts, operands, err) => opts.isEmpty && operands.isEmpty && err.isSome
    | _ => false) = true := by decide

/-- The unchanged tree: `--verbose=x` for the no-argument option `verbose`:
GNU/BSD report "option doesn't allow an argument"; the code returns the option
with `Argument = "x"` and no error.  (Witness in harness/corpus/C38.txt.) -/
theorem C38_counterexample : ¬ C38_full_parse_for false := by
  intro h
  obtain ⟨err, h1, _⟩ := h C38_witnessSpecs [C38_ddVerboseEqX] GNU (by unfold WF C38_witnessSpecs; decide)
  have h2 : Parse false [C38_ddVerboseEqX] C38_witnessSpecs GNU =
      .ok ([known 0 ⟨118, C38_verbose, NoArgument⟩ true C38_x], [], none) := by decide
  rw [h2] at h1
  have h3 : optsOf false (read GNU C38_witnessSpecs [C38_ddVerboseEqX] false) = [] := by decide
  rw [h3] at h1
  cases h1

/-! ## Second sentence: `Complete` reads all but the last word as `parse` does -/

/-- The equation (no hypothesis on the specs): `Complete(front ++ [last])` is
`parse(front)` followed by the classification of `last` in the resulting state. -/
theorem C38_Complete_shares_parse (specs : List OptionSpec) (cfg : Nat) (front : List Bytes)
    (last : Bytes) :
    Complete true (front ++ [last]) specs cfg =
      match parse true front specs cfg with
      | .ok st => completeLast true specs cfg st last
      | .exc x => .exc x
      | .panic p => .panic p := by
  unfold Complete
  have hne : front ++ [last] ≠ [] := by simp
  have hemp : (front ++ [last]).isEmpty = false := by simp
  simp only [hemp, Bool.and_false, Bool.false_eq_true, if_false]
  rw [slice_init _ hne, index_last _ last (by simp)]
  simp only [List.dropLast_concat]
  rcases parse true front specs cfg with st | x | p <;> rfl

/-- C38 (completion) at full strength. -/
def C38_full_complete : Prop :=
  ∀ (specs : List OptionSpec) (cfg : Nat) (front : List Bytes) (last : Bytes), WF specs →
    ∃ st, parse true front specs cfg = .ok st ∧
      Complete true (front ++ [last]) specs cfg =
        .ok (st.opts ++ (context cfg specs (read cfg specs front false) last).1, st.nonOptArgs,
             (context cfg specs (read cfg specs front false) last).2)

/-- `Complete` returns the options and operands `parse` finds in all but the
last word (themselves the spec's reading), plus the options of a last word
that is a short-option chain, and the context the table of `ContextType`
prescribes. -/
theorem C38_Complete_refines_spec : C38_full_complete := by
  intro specs cfg front last hwf
  refine ⟨_, parse_eq specs hwf cfg front, ?_⟩
  exact complete_eq specs hwf cfg front last

/-- The empty argument list (fixed code): the empty context, no panic. -/
theorem C38_Complete_empty (specs : List OptionSpec) (cfg : Nat) :
    Complete true [] specs cfg = .ok ([], [], ⟨OptionOrArgument, none, []⟩) := rfl

/-! ## Panic-freedom -/

/-- For EVERY spec list (no `WF`), every argument list of arbitrary byte
strings and every configuration, neither `Parse` nor `Complete` panics: all
slice and index expressions of the fixed code are in range. -/
def C38_full_no_panic : Prop :=
  ∀ (specs : List OptionSpec) (cfg : Nat) (args : List Bytes),
    (∃ r, Parse true args specs cfg = .ok r) ∧ (∃ r, Complete true args specs cfg = .ok r)

theorem C38_no_panic : C38_full_no_panic := by
  intro specs cfg args
  constructor
  · obtain ⟨st, h⟩ := parse_ok specs cfg args
    unfold Parse
    rw [h]
    exact ⟨_, rfl⟩
  · rcases List.eq_nil_or_concat args with rfl | ⟨front, last, rfl⟩
    · exact ⟨_, rfl⟩
    · rw [List.concat_eq_append, C38_Complete_shares_parse]
      obtain ⟨st, h⟩ := parse_ok specs cfg front
      rw [h]
      obtain ⟨r, hr, _⟩ := completeLast_ok specs cfg st last
      exact ⟨r, hr⟩

/-- `edit:complete-getopt`'s dispatch on the context never dereferences a nil
`ctx.Option`: a context of type `OptionArgument` always carries its option. -/
theorem C38_complete_getopt_dispatch_no_panic (specs : List OptionSpec) (cfg : Nat)
    (args : List Bytes) (r : List Opt × List Bytes × Context)
    (h : Complete true args specs cfg = .ok r) :
    ∃ out, completeGetoptOut specs r = .ok out := by
  have hgood : r.2.2.typ = OptionArgument → r.2.2.option.isSome = true := by
    rcases List.eq_nil_or_concat args with rfl | ⟨front, last, rfl⟩
    · have : r = ([], [], ⟨OptionOrArgument, none, []⟩) := by
        have h' : Complete true [] specs cfg = .ok ([], [], ⟨OptionOrArgument, none, []⟩) := rfl
        rw [h'] at h; cases h; rfl
      subst this
      intro h0; simp [OptionArgument, OptionOrArgument] at h0
    · rw [List.concat_eq_append, C38_Complete_shares_parse] at h
      obtain ⟨st, hs⟩ := parse_ok specs cfg front
      rw [hs] at h
      obtain ⟨r', hr, hg⟩ := completeLast_ok specs cfg st last
      simp only at h
      rw [hr] at h
      cases h
      exact hg
  obtain ⟨o, n, ctx⟩ := r
  unfold completeGetoptOut
  simp only at hgood ⊢
  repeat' split
  all_goals first
    | exact ⟨_, rfl⟩
    | (rename_i hty _ hnone
       have := hgood (by simpa using hty)
       simp [hnone] at this)

/-! ## The unchanged tree (`fx = false`) violates the property -/

/-- `flag:parse-getopt ["-\xff"] []`: `len(string(U+FFFD)) = 3` but the byte is 1 wide. -/
theorem C38_unfixed_width_panics :
    Parse false [[0x2D, 0xFF]] [] GNU = .panic "slice bounds out of range" := by decide

/-- `--=x` is read as the short-only option `-a` in long form with argument `x`. -/
theorem C38_unfixed_empty_long_name_matches :
    Parse false [C38_ddEqX] [⟨97, [], NoArgument⟩] GNU =
      .ok ([⟨some 0, ⟨97, [], NoArgument⟩, false, true, C38_x⟩], [], none) := by decide

/-- `-\x00` is read as the long-only option `foo` in short form. -/
theorem C38_unfixed_nul_matches_long_only :
    Parse false [[0x2D, 0x00]] [⟨0, C38_foo, NoArgument⟩] GNU =
      .ok ([⟨some 0, ⟨0, C38_foo, NoArgument⟩, false, false, []⟩], [], none) := by decide

/-- `edit:complete-getopt [] …`: `args[:len(args)-1]` with `len(args) = 0`. -/
theorem C38_unfixed_complete_empty_panics :
    Complete false [] [] GNU = .panic "slice bounds out of range" := by decide

/-! ## Non-vacuity -/

example : WF C38_witnessSpecs := by unfold WF C38_witnessSpecs; decide

/-- `-vf x -- -v` under GNU: chained shorts, detached argument, terminator, operand. -/
example :
    Parse true [C38_dVF, C38_x, C38_dd, C38_dV] C38_witnessSpecs GNU =
      .ok ([known 0 ⟨118, C38_verbose, NoArgument⟩ false [],
            known 1 ⟨102, C38_file, RequiredArgument⟩ false C38_x],
           [C38_dV], none) := by decide

example : read GNU C38_witnessSpecs [C38_dVF, C38_x, C38_dd, C38_dV] false =
    [.option 0 ⟨118, C38_verbose, NoArgument⟩ false none,
     .option 1 ⟨102, C38_file, RequiredArgument⟩ false (some C38_x),
     .terminator, .operand C38_dV] := by decide

/-- `--file=x -i.bak`: attached arguments where they are allowed. -/
example : (read GNU C38_witnessSpecs [C38_ddFileEqX, C38_dIBak] false).any isBadArg = false := by
  decide

/-- `Complete ["--file", "na"]`: the argument of `--file` is being completed. -/
example :
    Complete true [C38_ddFile, C38_na] C38_witnessSpecs GNU =
      .ok ([], [], ⟨OptionArgument,
        some (known 1 ⟨102, C38_file, RequiredArgument⟩ true C38_na), []⟩) := by decide
