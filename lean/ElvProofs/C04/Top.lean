/-
C04: from the induction to `evalLit (repr v) = some (canon v)`.
-/
import ElvProofs.C04.Main
namespace C04
open Go C01 C08 C09 Gen.C01Chars

/-- the leaf hypotheses, whatever text the value is printed inside -/
def GoodAll (L : Lib) (v : Val) : Prop := ∀ src : Bytes, Good { isPrint := L.isPrint, src := src } L v

theorem endCap_nil : EndCap [] := Or.inl rfl

theorem evalLit_of_comp (isPrint : Int → Bool) (T : Bytes) (val : Val)
    (hc : CompOK { isPrint := isPrint, src := putSrc T } NormalExpr T val)
    (hs : Starts isPrint NormalExpr T) : evalLit isPrint T = some val := by
  let e : Env := { isPrint := isPrint, src := putSrc T }
  let s0 : St := { pos := 0, overEOF := 0, errors := [] }
  have h0 : At e s0 (cmdPut ++ 32 :: (T ++ [])) := ⟨inv_init e, by simp [e, s0, putSrc]⟩
  have hlen : (putSrc T).length = T.length + 4 := by simp [putSrc, cmdPut]
  obtain ⟨n, hn, hk, hv⟩ := chunk_ok (e := e) (s := s0) (cmd := cmdPut) (c0 := 112) (cmd' := [117, 116]) rfl
    (cmdPut_ascii isPrint) (by decide) (by decide) (by decide) hc hs (defaultFuel (putSrc T))
    (by simp only [defaultFuel, hlen, cmdPut, List.length_cons, List.length_nil]; omega) h0 endCap_nil
  have hpos : (adv s0 (cmdPut.length + 1 + T.length)).pos = e.src.length := by
    simp [s0, e, hlen, cmdPut]; omega
  unfold evalLit C01.parse parseAs
  rw [parseAsFuel_eq]
  have hrun : (parseNT (defaultFuel (putSrc T)) .chunk >>= fun n => done >>= fun _ => pure n) e s0 =
      .ok n (adv s0 (cmdPut.length + 1 + T.length)) := by
    rw [bind_of_eq hn]
    have hd : done e (adv s0 (cmdPut.length + 1 + T.length)) = .ok () (adv s0 (cmdPut.length + 1 + T.length)) := by
      unfold done
      rw [if_neg (by simp only [ne_eq, Decidable.not_not]; exact hpos)]
    rw [bind_of_eq hd]
    rfl
  rw [hrun]
  simp only [toResult, adv_errors, s0]
  rw [hv]
  simp [formValue]

/-- The round trip on the model: the text `Repr v indent` (any indent: plain
or pretty), evaluated as `put <text>` by the parser of C01 and the literal
evaluator, gives `canon v`. -/
theorem evalLit_repr (L : Lib) (v : Val) (hg : GoodAll L v) (indent : Int) :
    evalLit L.isPrint (repr L true v indent) = some (canon L v) := by
  have hv := valOK (e := { isPrint := L.isPrint, src := putSrc (repr L true v indent) }) (L := L) rfl v (hg _)
  have := hv.comp indent NormalExpr (Or.inl rfl)
  exact evalLit_of_comp L.isPrint _ _ this.1 this.2

end C04
