/-
C04: the string leaf hypothesis `StrOK` holds for every printable-ASCII
string (barewords and single-quoted strings) and for the empty string.
Strings with other bytes (non-ASCII runes, control characters, invalid UTF-8:
double-quoted escapes) are C03's subject and stay a hypothesis here.
-/
import ElvProofs.C04.Atoms
namespace C04
open Go C01 C08 Gen.C01Chars

/-- printable ASCII -/
def PrintableAscii (s : Bytes) : Prop := ∀ c ∈ s, 32 ≤ c.toNat ∧ c.toNat ≤ 126

/-- `unicode.IsPrint` is true on printable ASCII -/
def IsPrintAscii (isPrint : Int → Bool) : Prop := ∀ r : Int, 32 ≤ r → r ≤ 126 → isPrint r = true

theorem runeItems_ascii : ∀ s : Bytes, (∀ c ∈ s, c.toNat < 128) →
    runeItems 0 s = s.map fun c => (c.toNat, 1, c)
  | [], _ => rfl
  | c :: s, h => by
    rw [runeItems, decodeRune_ascii_cons s (h c List.mem_cons_self)]
    simp only [Nat.sub_self, List.map_cons]
    rw [runeItems_ascii s (fun c' hc' => h c' (List.mem_cons_of_mem _ hc'))]

theorem quoteScan_ascii (isPrint : Int → Bool) (hp : IsPrintAscii isPrint) : ∀ (s : Bytes) (bare : Bool),
    PrintableAscii s →
    quoteScan isPrint (s.map fun c => (c.toNat, 1, c)) bare =
      some (bare && s.all fun c => allowedInBareword isPrint (c.toNat : Int) strictExpr)
  | [], bare, _ => by simp [quoteScan]
  | c :: s, bare, h => by
    obtain ⟨h1, h2⟩ := h c List.mem_cons_self
    have hne : (c.toNat == RuneError) = false := by
      simp [RuneError]; omega
    have hpr : isPrint (c.toNat : Int) = true := hp _ (by omega) (by omega)
    simp only [List.map_cons, quoteScan, hne, hpr, Bool.not_true, Bool.or_self, Bool.false_eq_true, if_false]
    rw [quoteScan_ascii isPrint hp s _ (fun c' hc' => h c' (List.mem_cons_of_mem _ hc'))]
    simp [Bool.and_assoc]

theorem quoteSingleBody_ascii : ∀ s : Bytes, (∀ c ∈ s, c.toNat < 128) →
    quoteSingleBody (s.map fun c => (c.toNat, 1, c)) = dbl s
  | [], _ => rfl
  | c :: s, h => by
    have hc := h c List.mem_cons_self
    have ih := quoteSingleBody_ascii s (fun c' hc' => h c' (List.mem_cons_of_mem _ hc'))
    have henc : encodeRune c.toNat = [c] := by simp [encodeRune, hc]
    simp only [List.map_cons, quoteSingleBody, dbl, ih, henc]
    by_cases h39 : c = 39
    · subst h39; simp
    · have : ¬ (c.toNat == 39) = true := by
        simp only [beq_iff_eq]
        intro hh
        exact h39 (UInt8.toNat_inj.1 (by simpa using hh))
      simp [this, h39]

theorem allowed_strict {isPrint : Int → Bool} {r : Int} (ctx : Int)
    (h : allowedInBareword isPrint r strictExpr = true) : allowedInBareword isPrint r ctx = true := by
  simp only [allowedInBareword, strictExpr, bne_self_eq_false, Bool.and_false, Bool.false_and, Bool.or_false,
    Bool.or_eq_true] at h ⊢
  have hc : ((4 : Int) == CmdExpr) = false := by decide
  simp only [hc, Bool.false_and, Bool.or_false] at h
  rcases h with h | h
  · exact Or.inl (Or.inl (Or.inl h))
  · exact absurd h (by simp)

theorem dbl_ascii : ∀ s : Bytes, (∀ c ∈ s, c.toNat < 128) → ∀ c ∈ dbl s, c.toNat < 128
  | [], _, c, hc => by cases hc
  | a :: s, h, c, hc => by
    have ha := h a List.mem_cons_self
    have ih := dbl_ascii s (fun c hc => h c (List.mem_cons_of_mem _ hc))
    unfold dbl at hc
    split at hc
    · rcases List.mem_cons.1 hc with rfl | hc
      · decide
      · rcases List.mem_cons.1 hc with rfl | hc
        · decide
        · exact ih c hc
    · rcases List.mem_cons.1 hc with rfl | hc
      · exact ha
      · exact ih c hc

section
variable {e : Env}

theorem strOK_ascii (hp : IsPrintAscii e.isPrint) (s : Bytes) (hs : PrintableAscii s) : StrOK e s := by
  have hlt : ∀ c ∈ s, c.toNat < 128 := fun c hc => by have := (hs c hc).2; omega
  -- both contexts at once
  suffices h : ∀ ctx : Int, PrimOK e ctx (quote e.isPrint s) (.str s) ∧ Starts e.isPrint ctx (quote e.isPrint s) from
    ⟨h _, h _⟩
  intro ctx
  -- single-quoted form, used twice
  have single : PrimOK e ctx (39 :: (dbl s ++ [39])) (.str s) ∧ Starts e.isPrint ctx (39 :: (dbl s ++ [39])) := by
    constructor
    · intro fuel st r hf h hstop
      obtain ⟨f, rfl⟩ : ∃ f, fuel = f + 1 := ⟨fuel - 1, by simp at hf; omega⟩
      have hb := singleQuoted_body (rec := fun nt' => parseNT f nt')
        { frm := st.pos, f := (NT.primary ctx).init, children := [] } hlt h hstop
      have hend : At e (adv st ((dbl s).length + 2)) r := by
        have h' : At e st ((39 :: (dbl s ++ [39])) ++ r) := h
        have hAll : ∀ c ∈ (39 :: (dbl s ++ [39]) : Bytes), c.toNat < 128 := by
          intro c hc
          rcases List.mem_cons.1 hc with rfl | hc
          · decide
          · rcases List.mem_append.1 hc with hc | hc
            · exact dbl_ascii s hlt c hc
            · simp at hc; subst hc; decide
        have := h'.steps hAll
        simpa [Nat.add_comm, Nat.add_left_comm, Nat.add_assoc] using this
      obtain ⟨txt, hw⟩ := prim_wrap (ctx := ctx) (fuel := f) hend.inv hb (by simp)
      have hl : (39 :: (dbl s ++ [39]) : Bytes).length = (dbl s).length + 2 := by simp
      rw [hl]
      refine ⟨_, hw, rfl, ?_⟩
      rw [evalNode_primary]
      simp [NB.setType, NB.setValue, SingleQuoted, Bareword]
    · refine ⟨by simp, fun r => ?_, fun r => ?_⟩
      · rw [List.cons_append, headRune_ascii _ (by decide)]; simp [startsPrimary]
      · rw [List.cons_append, headRune_ascii _ (by decide)]; decide
  cases s with
  | nil =>
    have : quote e.isPrint [] = 39 :: (dbl [] ++ [39]) := rfl
    rw [this]; exact single
  | cons c0 s' =>
    have hq : quote e.isPrint (c0 :: s') =
        if ((c0 != 126) && (c0 :: s').all fun c => allowedInBareword e.isPrint (c.toNat : Int) strictExpr) = true
        then c0 :: s' else quoteSingle (c0 :: s') := by
      unfold quote
      simp only []
      rw [runeItems_ascii _ hlt, quoteScan_ascii e.isPrint hp _ _ hs]
      by_cases hb : ((c0 != 126) && (c0 :: s').all fun c => allowedInBareword e.isPrint (c.toNat : Int) strictExpr) = true
      · rw [hb]; simp
      · have : ((c0 != 126) && (c0 :: s').all fun c => allowedInBareword e.isPrint (c.toNat : Int) strictExpr) = false := by
          simpa using hb
        rw [this]; simp
    rw [hq]
    split
    · next hb =>
      simp only [Bool.and_eq_true, bne_iff_ne, ne_eq, List.all_eq_true] at hb
      have hall : AllAscii (fun c => allowedInBareword e.isPrint c ctx) (c0 :: s') :=
        fun c hc => ⟨hlt c hc, allowed_strict ctx (hb.2 c hc)⟩
      exact ⟨prim_bareword rfl hall, starts_bareword rfl hall hb.1⟩
    · have : quoteSingle (c0 :: s') = 39 :: (dbl (c0 :: s') ++ [39]) := by
        unfold quoteSingle
        rw [runeItems_ascii _ hlt, quoteSingleBody_ascii _ hlt]
      rw [this]; exact single

end
end C04
