/-
C04 (round 2): the string leaf `StrOK` for EVERY byte string — what round 1
kept as a hypothesis.  `parse.Quote s` (C04's model, proved equal to C03's in
`QuoteEq.lean`) is a bareword, a single-quoted or a double-quoted word; each
form, standing anywhere in a source and followed by a text that cannot
continue a primary, is read back by `Primary` as one node with value `s`.
The per-rune facts are C03's (`C03.DQ`, `C03.dq_piece_step`, `C03.scanLoop_some`,
`C03.first_rune_ne_tilde`); the loops over them are in `Loops.lean`.
-/
import ElvProofs.C04.QuoteEq
namespace C04
open Go C01 C08 Gen.C01Chars

theorem headRune_of_ne {x : Bytes} (h : x ≠ []) : headRune x = (((decodeRune x).1 : Nat) : Int) := by
  cases x with
  | nil => exact absurd rfl h
  | cons c t => rfl

/-- the first rune of `t ++ r` is the first rune of `t` when that one is not an invalid byte -/
theorem headRune_append_of_valid {t : Bytes} (r : Bytes) (hne : t ≠ []) (h0 : (decodeRune t).1 ≠ RuneError) :
    headRune (t ++ r) = (((decodeRune t).1 : Nat) : Int) := by
  have herr : ¬ ((decodeRune t).1 = RuneError ∧ (decodeRune t).2 = 1) := fun h => h0 h.1
  obtain ⟨hv, ht, _⟩ := decodeRune_eq_encodeRune_append (r := (decodeRune t).1)
    (n := (decodeRune t).2) rfl hne herr
  rw [headRune_of_ne (by simp [hne])]
  conv => lhs; rw [ht, List.append_assoc, decodeRune_encodeRune_append _ hv]

theorem runes_length_le_sqBody (t : Bytes) : (runes t).length ≤ (C03.sqBody t).length := by
  unfold C03.sqBody
  rw [List.length_flatMap]
  induction runes t with
  | nil => simp
  | cons x l ih =>
    simp only [List.map_cons, List.sum_cons, List.length_cons]
    have hx : 0 < (C03.sqPiece x.2.1).length := by
      unfold C03.sqPiece
      have := encodeRune_length_pos x.2.1
      rw [List.length_append]; omega
    omega

section
variable {e : Env} {s : St}

theorem At.overEOF_of_ne {t : Bytes} (h : At e s t) (hne : t ≠ []) : s.overEOF = 0 := by
  cases t with
  | nil => exact absurd rfl hne
  | cons c t => exact h.overEOF

/-! ### the three bodies -/

/-- `"…"` written by `quoteDouble`: the body of the primary -/
theorem doubleQuoted_body {rec : NT → M Node} (nb : NB) {isPrint' : Int → Bool} {str body r : Bytes}
    (hd : C03.DQ isPrint' str body) (h : At e s ((34 :: (body ++ [34])) ++ r)) :
    primaryBody rec nb e s = .ok ((nb.setType DoubleQuoted).setValue str) (adv s (body.length + 2)) ∧
      Inv e (adv s (body.length + 2)) := by
  have h' : At e s (34 :: (body ++ 34 :: r)) := by simpa using h
  have h1 : At e (adv s 1) (body ++ 34 :: r) := h'.step (by decide)
  have hlen := At.length_le (t := 34 :: (body ++ [34])) (r := r) h
  simp only [List.length_cons, List.length_append, List.length_nil] at hlen
  have hclean := doubleQuotedLoop_trail (e := e) hd (e.src.length + 2) (adv s 1).pos [] r (by omega) h1.cur
  have hloop := (framed_doubleQuotedLoop _ _).at (h1.overEOF_of_ne (by simp)) hclean
  have hinv : Inv e (adv s (body.length + 2)) := by
    have hspec := doubleQuotedLoop_spec (e := e) (e.src.length + 2) [] (adv s 1) h1.inv
    rw [hloop] at hspec
    have := hspec.1
    simpa [Nat.add_comm, Nat.add_left_comm, Nat.add_assoc] using this
  refine ⟨?_, hinv⟩
  unfold primaryBody
  rw [bind_of_eq (getEnv_eq _ _), bind_of_eq (h'.peek_cons (by decide))]
  have e1 : startsPrimary e.isPrint (((34 : UInt8).toNat : Nat) : Int) nb.f.ctx = true := by
    simp [startsPrimary]
  have e2 : allowedInBareword e.isPrint (((34 : UInt8).toNat : Nat) : Int) nb.f.ctx = false := by
    simp [allowedInBareword, allowedInVariableName]
  simp only [e1, e2, Bool.not_true, Bool.false_eq_true, if_false]
  rw [if_neg (by decide), if_pos (by decide)]
  unfold doubleQuoted
  rw [bind_of_eq (h'.next_cons (by decide))]
  have hin : doubleQuotedInner e (adv s 1) = .ok ([] ++ str) (adv (adv s 1) (body.length + 1)) := by
    unfold doubleQuotedInner
    rw [bind_of_eq (loopFuel_eq _ _)]
    exact hloop
  rw [bind_of_eq hin]
  simp [adv, Nat.add_assoc, Nat.add_comm, Nat.add_left_comm]

/-- `'…'` written by `quoteSingle` (any string without U+FFFD / invalid bytes): the body -/
theorem singleQuoted_body_runes {rec : NT → M Node} (nb : NB) {t r : Bytes}
    (hall : C03.AllRunes (fun x => x ≠ RuneError) t)
    (h : At e s ((39 :: (C03.sqBody t ++ [39])) ++ r)) (hstop : Stop e.isPrint nb.f.ctx r) :
    primaryBody rec nb e s = .ok ((nb.setType SingleQuoted).setValue t) (adv s ((C03.sqBody t).length + 2)) ∧
      Inv e (adv s ((C03.sqBody t).length + 2)) := by
  have h' : At e s (39 :: (C03.sqBody t ++ 39 :: r)) := by simpa using h
  have h1 : At e (adv s 1) (C03.sqBody t ++ 39 :: r) := h'.step (by decide)
  have hlen := At.length_le (t := 39 :: (C03.sqBody t ++ [39])) (r := r) h
  simp only [List.length_cons, List.length_append, List.length_nil] at hlen
  have hne : headRune r ≠ 39 := by
    intro hh
    have := hstop.notStart
    rw [hh] at this
    simp [startsPrimary] at this
  have hrl := runes_length_le_sqBody t
  have hclean := singleQuotedLoop_trail (e := e) (e.src.length + 2) t (adv s 1).pos [] r (by omega) h1.cur hall hne
  have hloop := (framed_singleQuotedLoop _ _).at (h1.overEOF_of_ne (by simp)) hclean
  have hinv : Inv e (adv s ((C03.sqBody t).length + 2)) := by
    have hspec := singleQuotedLoop_spec (e := e) (e.src.length + 2) [] (adv s 1) h1.inv
    rw [hloop] at hspec
    have := hspec.1
    simpa [Nat.add_comm, Nat.add_left_comm, Nat.add_assoc] using this
  refine ⟨?_, hinv⟩
  unfold primaryBody
  rw [bind_of_eq (getEnv_eq _ _), bind_of_eq (h'.peek_cons (by decide))]
  have e1 : startsPrimary e.isPrint (((39 : UInt8).toNat : Nat) : Int) nb.f.ctx = true := by
    simp [startsPrimary]
  have e2 : allowedInBareword e.isPrint (((39 : UInt8).toNat : Nat) : Int) nb.f.ctx = false := by
    simp [allowedInBareword, allowedInVariableName]
  simp only [e1, e2, Bool.not_true, Bool.false_eq_true, if_false]
  rw [if_pos (by decide)]
  unfold singleQuoted
  rw [bind_of_eq (h'.next_cons (by decide))]
  have hin : singleQuotedInner e (adv s 1) = .ok ([] ++ t) (adv (adv s 1) ((C03.sqBody t).length + 1)) := by
    unfold singleQuotedInner
    rw [bind_of_eq (loopFuel_eq _ _)]
    exact hloop
  rw [bind_of_eq hin]
  simp [adv, Nat.add_assoc, Nat.add_comm, Nat.add_left_comm]

/-- a bareword of arbitrary (valid, allowed) runes: the body -/
theorem bareword_body_runes {rec : NT → M Node} (nb : NB) {t r : Bytes} (hne : t ≠ [])
    (hall : C03.AllRunes (fun x => x ≠ RuneError ∧ allowedInBareword e.isPrint ((x : Nat) : Int) nb.f.ctx = true) t)
    (h : At e s (t ++ r)) (hstop : Stop e.isPrint nb.f.ctx r) (hfrm : nb.frm = s.pos) :
    primaryBody rec nb e s = .ok ((nb.setType Bareword).setValue t) (adv s t.length) ∧ Inv e (adv s t.length) := by
  have h0 := hall.head hne
  have hlen := At.length_le h
  have hclean := skipWhile_runes (e := e) (fun c => allowedInBareword e.isPrint c nb.f.ctx) (e.src.length + 2)
    s.pos t r h.cur (by omega) hall (notBareword_of_stop hstop.notStart)
  have hsk := (framed_skipWhile _ _).at (h.overEOF_of_ne (by simp [hne])) hclean
  have hinv : Inv e (adv s t.length) := by
    have hspec := skipWhile_spec (e := e) (fun c => allowedInBareword e.isPrint c nb.f.ctx) (e.src.length + 2) s h.inv
    rw [hsk] at hspec
    exact hspec.1
  refine ⟨?_, hinv⟩
  unfold primaryBody
  rw [bind_of_eq (getEnv_eq _ _), bind_of_eq h.peek_head, headRune_append_of_valid r hne h0.1]
  simp only [startsPrimary_of_bareword h0.2, h0.2, Bool.not_true, Bool.false_eq_true, if_false, if_true]
  unfold bareword
  rw [bind_of_eq (getEnv_eq _ _), bind_of_eq (loopFuel_eq _ _)]
  simp only [setType_ctx]
  rw [bind_of_eq hsk, bind_of_eq (getPos_eq _ _)]
  have hsl : srcSlice e.src (s.pos + 0) (s.pos + 0 + t.length) = t :=
    srcSlice_mid (a := []) (b := t) (c := r) (by simpa using h.rest)
  simp only [NB.setType_frm, hfrm]
  rw [bind_of_eq (sliceSrc_eq (a := s.pos) (by simp) (by have := hinv.le; simpa using this))]
  simp only [Nat.add_zero] at hsl
  simp only [adv_pos, hsl]
  rfl

/-! ### the three forms as primaries -/

theorem starts_quote (isPrint : Int → Bool) (ctx : Int) (c : UInt8) (hc : c = 39 ∨ c = 34) (t : Bytes) :
    Starts isPrint ctx (c :: t) := by
  refine ⟨by simp, fun r => ?_, fun r => ?_⟩
  · rcases hc with rfl | rfl <;> (rw [List.cons_append, headRune_ascii _ (by decide)]; simp [startsPrimary])
  · rcases hc with rfl | rfl <;> (rw [List.cons_append, headRune_ascii _ (by decide)]; decide)

theorem prim_double {ctx : Int} {isPrint' : Int → Bool} {str body : Bytes} (hd : C03.DQ isPrint' str body) :
    PrimOK e ctx (34 :: (body ++ [34])) (.str str) := by
  intro fuel s r hf h hstop
  obtain ⟨f, rfl⟩ : ∃ f, fuel = f + 1 := ⟨fuel - 1, by simp at hf; omega⟩
  obtain ⟨hb, hinv⟩ := doubleQuoted_body (rec := fun nt' => parseNT f nt')
    { frm := s.pos, f := (NT.primary ctx).init, children := [] } hd h
  obtain ⟨txt, hw⟩ := prim_wrap (ctx := ctx) (fuel := f) hinv hb (by simp)
  have hl : (34 :: (body ++ [34]) : Bytes).length = body.length + 2 := by simp
  rw [hl]
  refine ⟨_, hw, rfl, ?_⟩
  rw [evalNode_primary]
  simp [NB.setType, NB.setValue, DoubleQuoted, SingleQuoted, Bareword]

theorem prim_single {ctx : Int} {t : Bytes} (hall : C03.AllRunes (fun x => x ≠ RuneError) t) :
    PrimOK e ctx (39 :: (C03.sqBody t ++ [39])) (.str t) := by
  intro fuel s r hf h hstop
  obtain ⟨f, rfl⟩ : ∃ f, fuel = f + 1 := ⟨fuel - 1, by simp at hf; omega⟩
  obtain ⟨hb, hinv⟩ := singleQuoted_body_runes (rec := fun nt' => parseNT f nt')
    { frm := s.pos, f := (NT.primary ctx).init, children := [] } hall h hstop
  obtain ⟨txt, hw⟩ := prim_wrap (ctx := ctx) (fuel := f) hinv hb (by simp)
  have hl : (39 :: (C03.sqBody t ++ [39]) : Bytes).length = (C03.sqBody t).length + 2 := by simp
  rw [hl]
  refine ⟨_, hw, rfl, ?_⟩
  rw [evalNode_primary]
  simp [NB.setType, NB.setValue, SingleQuoted, Bareword]

theorem prim_bareword_runes {ctx : Int} {t : Bytes} (hne : t ≠ [])
    (hall : C03.AllRunes (fun x => x ≠ RuneError ∧ allowedInBareword e.isPrint ((x : Nat) : Int) ctx = true) t) :
    PrimOK e ctx t (.str t) := by
  intro fuel s r hf h hstop
  have hpos : 0 < t.length := List.length_pos_iff.2 hne
  obtain ⟨f, rfl⟩ : ∃ f, fuel = f + 1 := ⟨fuel - 1, by omega⟩
  obtain ⟨hb, hinv⟩ := bareword_body_runes (rec := fun nt' => parseNT f nt')
    { frm := s.pos, f := (NT.primary ctx).init, children := [] } hne hall h hstop rfl
  obtain ⟨txt, hw⟩ := prim_wrap (ctx := ctx) (fuel := f) hinv hb (by simp)
  refine ⟨_, hw, rfl, ?_⟩
  rw [evalNode_primary]
  simp [NB.setType, NB.setValue, Bareword]

theorem starts_bareword_runes {isPrint : Int → Bool} {ctx : Int} {b0 : UInt8} {t : Bytes}
    (h0 : (decodeRune (b0 :: t)).1 ≠ RuneError)
    (ha : allowedInBareword isPrint (((decodeRune (b0 :: t)).1 : Nat) : Int) ctx = true)
    (hnt : (b0 != 126) = true) : Starts isPrint ctx (b0 :: t) := by
  refine ⟨by simp, fun r => ?_, fun r => ?_⟩
  · rw [headRune_append_of_valid r (by simp) h0]
    exact startsPrimary_of_bareword ha
  · rw [headRune_append_of_valid r (by simp) h0]
    intro hh
    exact C03.first_rune_ne_tilde hnt (by exact_mod_cast hh)

/-! ### every string -/

/-- **The string leaf, for every byte string and every `IsPrint`**: in every
expression context the text `parse.Quote s` is one primary with value `s`. -/
theorem strOK_ctx (str : Bytes) (ctx : Int) :
    PrimOK e ctx (quote e.isPrint str) (.str str) ∧ Starts e.isPrint ctx (quote e.isPrint str) := by
  have single : ∀ t : Bytes, C03.AllRunes (fun x => x ≠ RuneError) t →
      PrimOK e ctx (quoteSingle t) (.str t) ∧ Starts e.isPrint ctx (quoteSingle t) := by
    intro t hall
    rw [quoteSingle_eq, C03.quoteSingle_eq]
    exact ⟨prim_single hall, starts_quote _ _ 39 (Or.inl rfl) _⟩
  cases str with
  | nil =>
    have : quote e.isPrint [] = quoteSingle [] := rfl
    rw [this]
    exact single [] (by intro x hx; simp at hx)
  | cons b0 t =>
    unfold quote
    simp only []
    rw [quoteScan_eq]
    cases hscan : C03.scanLoop e.isPrint (fun r => allowedInBareword e.isPrint r strictExpr) (runes (b0 :: t))
        (b0 != 126) with
    | none =>
      simp only []
      exact ⟨prim_double (dq_runeItems e.isPrint (b0 :: t)), starts_quote _ _ 34 (Or.inr rfl) _⟩
    | some bare =>
      obtain ⟨hne, hbare⟩ := C03.scanLoop_some _ _ _ hscan
      cases bare with
      | false => simp only []; exact single _ hne
      | true =>
        simp only []
        obtain ⟨hnt, hallow⟩ := hbare rfl
        have hall : C03.AllRunes (fun x => x ≠ RuneError ∧
            allowedInBareword e.isPrint ((x : Nat) : Int) ctx = true) (b0 :: t) :=
          fun x hx => ⟨hne x hx, C03.strict_any ctx (hallow x hx)⟩
        have h0 := hall.head (by simp)
        exact ⟨prim_bareword_runes (by simp) hall, starts_bareword_runes h0.1 h0.2 hnt⟩

theorem strOK_all (str : Bytes) : StrOK e str := ⟨strOK_ctx str _, strOK_ctx str _⟩

end
end C04
