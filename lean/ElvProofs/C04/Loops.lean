/-
C04 (round 2): the three leaf loops of the parser over a quoted / bare word
that is FOLLOWED by more text (C03 proves them for a word that is the whole
source).  The per-rune steps are C03's (`C03.dq_piece_step`, the `Cur`
equations of `peek`/`next`); only the inductions are redone with a trailing
text, then moved to arbitrary parser states by `Framed.at`.
-/
import ElvProofs.C04.Frame
namespace C04
open Go C01 Gen.C01Chars

theorem peek_head_clean {e : Env} {p : Nat} {r : Bytes} (h : C03.Cur e p r) :
    peek e (C03.st p) = .ok (headRune r) (C03.st p) := by
  cases r with
  | nil => exact C03.peek_nil h
  | cons c t => exact C03.peek_cons h (by simp)

/-- `for pred(peek()) { next() }` over a text `t` whose runes all satisfy the
predicate, in front of a rune that does not. -/
theorem skipWhile_runes {e : Env} (pr : Int → Bool) :
    ∀ (n p : Nat) (t r : Bytes), C03.Cur e p (t ++ r) → t.length < n →
      C03.AllRunes (fun x => x ≠ RuneError ∧ pr ((x : Nat) : Int) = true) t → pr (headRune r) = false →
      skipWhile pr n e (C03.st p) = .ok () (C03.st (p + t.length))
  | 0, _, _, _, _, hn, _, _ => absurd hn (Nat.not_lt_zero _)
  | n + 1, p, t, r, hc, hn, hall, hstop => by
    unfold skipWhile
    by_cases hne : t = []
    · subst hne
      simp only [List.nil_append] at hc
      rw [C03.bind_of_eq (peek_head_clean hc)]
      simp only [hstop, Bool.false_eq_true, if_false, List.length_nil, Nat.add_zero]
      rfl
    · have h0 := hall.head hne
      have herr : ¬ ((decodeRune t).1 = RuneError ∧ (decodeRune t).2 = 1) := fun h => h0.1 h.1
      obtain ⟨hv, ht, _⟩ := decodeRune_eq_encodeRune_append (r := (decodeRune t).1)
        (n := (decodeRune t).2) rfl hne herr
      have htail := hall.tail hne
      obtain ⟨r0, hr0⟩ : ∃ r0 : Nat, (decodeRune t).1 = r0 := ⟨_, rfl⟩
      rw [hr0] at hv ht h0
      generalize t.drop (decodeRune t).2 = t' at ht htail
      clear hr0 herr
      subst ht
      rw [List.append_assoc] at hc
      rw [C03.bind_of_eq (C03.peek_enc hc hv)]
      simp only [h0.2, if_true]
      rw [C03.bind_of_eq (C03.next_enc hc hv)]
      have hpos := encodeRune_length_pos r0
      rw [skipWhile_runes pr n _ t' r hc.adv (by simp only [List.length_append] at hn; omega) htail hstop]
      simp [Nat.add_assoc]

/-- the loop of `singleQuotedInner` on the body written by `quoteSingle`, the
closing quote, and a following text that does not start with a quote. -/
theorem singleQuotedLoop_trail {e : Env} :
    ∀ (n : Nat) (t : Bytes) (p : Nat) (buf r : Bytes), (runes t).length < n →
      C03.Cur e p (C03.sqBody t ++ 39 :: r) → C03.AllRunes (fun x => x ≠ RuneError) t → headRune r ≠ 39 →
      singleQuotedLoop n buf e (C03.st p) = .ok (buf ++ t) (C03.st (p + ((C03.sqBody t).length + 1)))
  | 0, _, _, _, _, hn, _, _, _ => absurd hn (Nat.not_lt_zero _)
  | n + 1, t, p, buf, r, hn, hc, hall, hr => by
    unfold singleQuotedLoop
    have e39 : (((39 : UInt8).toNat : Nat) : Int) = 39 := by decide
    by_cases hne : t = []
    · subst hne
      simp only [C03.sqBody_nil, List.nil_append] at hc
      rw [C03.bind_of_eq (C03.next_byte hc (by decide)), e39]
      simp only [show ((39 : Int) == eof) = false by decide, Bool.false_eq_true, if_false,
        show ((39 : Int) == 39) = true by decide, if_true]
      rw [C03.bind_of_eq (peek_head_clean hc.adv1)]
      have : (headRune r == 39) = false := by simpa using hr
      simp only [this, Bool.false_eq_true, if_false, C03.sqBody_nil, List.length_nil, Nat.zero_add,
        List.append_nil]
      rfl
    · have herr : ¬ ((decodeRune t).1 = RuneError ∧ (decodeRune t).2 = 1) := fun h => hall.head hne h.1
      obtain ⟨hv, ht, _⟩ := decodeRune_eq_encodeRune_append (r := (decodeRune t).1)
        (n := (decodeRune t).2) rfl hne herr
      have htail := hall.tail hne
      have hbody := C03.sqBody_cons hne
      have hrl : (runes t).length = (runes (t.drop (decodeRune t).2)).length + 1 := by
        rw [runes_of_ne_nil hne]; simp
      rw [hrl] at hn
      obtain ⟨r0, hr0⟩ : ∃ r0 : Nat, (decodeRune t).1 = r0 := ⟨_, rfl⟩
      rw [hr0] at hv ht hbody
      generalize t.drop (decodeRune t).2 = t' at ht htail hbody hn
      clear hr0 herr hrl
      subst ht
      have hlen : (runes t').length < n := by omega
      rw [hbody] at hc ⊢
      unfold C03.sqPiece at hc ⊢
      by_cases h39 : r0 = 39
      · subst h39
        have e1 : encodeRune 39 = [39] := by decide
        rw [e1] at hc ⊢
        simp only [show ((39 : Nat) == 39) = true by decide, if_true, List.cons_append,
          List.nil_append, List.append_assoc] at hc
        rw [C03.bind_of_eq (C03.next_byte hc (by decide)), e39]
        simp only [show ((39 : Int) == eof) = false by decide, Bool.false_eq_true, if_false,
          show ((39 : Int) == 39) = true by decide, if_true]
        rw [C03.bind_of_eq (C03.peek_byte hc.adv1 (by decide)), e39]
        simp only [show ((39 : Int) == 39) = true by decide, if_true]
        rw [C03.bind_of_eq (C03.next_byte hc.adv1 (by decide))]
        rw [singleQuotedLoop_trail n t' _ _ r hlen hc.adv1.adv1 htail hr]
        simp [Nat.add_assoc, Nat.add_comm, Nat.add_left_comm]
      · have hb : (r0 == 39) = false := by simp [h39]
        simp only [hb, Bool.false_eq_true, if_false, List.append_nil, List.append_assoc] at hc ⊢
        rw [C03.bind_of_eq (C03.next_enc hc hv)]
        have hi39 : (((r0 : Nat) : Int) == 39) = false := by
          simp only [beq_eq_false_iff_ne]; intro h; exact h39 (by exact_mod_cast h)
        simp only [C03.nat_ne_eof, hi39, Bool.false_eq_true, if_false]
        rw [singleQuotedLoop_trail n t' _ _ r hlen hc.adv htail hr, C03.writeRune_nat]
        simp [Nat.add_assoc, Nat.add_comm, Nat.add_left_comm]

/-- the loop of `doubleQuotedInner` on the pieces written by `quoteDouble`, the
closing quote, and any following text. -/
theorem doubleQuotedLoop_trail {e : Env} {isPrint : Int → Bool} {s body : Bytes}
    (h : C03.DQ isPrint s body) :
    ∀ (n p : Nat) (buf r : Bytes), body.length < n → C03.Cur e p (body ++ 34 :: r) →
      doubleQuotedLoop n buf e (C03.st p) = .ok (buf ++ s) (C03.st (p + (body.length + 1))) := by
  induction h with
  | nil =>
    intro n p buf r hn hc
    match n, hn with
    | n + 1, _ =>
      simp only [List.nil_append] at hc
      unfold doubleQuotedLoop
      rw [C03.bind_of_eq (C03.next_byte hc (by decide))]
      have e1 : (((34 : UInt8).toNat : Nat) : Int) = 34 := by decide
      rw [e1]
      simp only [show ((34 : Int) == eof) = false by decide, show ((34 : Int) == 34) = true by decide,
        Bool.false_eq_true, if_false, if_true, List.append_nil, List.length_nil, Nat.zero_add]
      rfl
  | cons b0 t body _ ih =>
    intro n p buf r hn hc
    match n, hn with
    | n + 1, hn =>
      rw [List.append_assoc] at hc
      rw [C03.dq_piece_step isPrint b0 t n p buf _ hc]
      have hpos := C03.dqPiece_length_pos isPrint b0 (decodeRune (b0 :: t)).1 (decodeRune (b0 :: t)).2
      have hlt : body.length < n := by rw [List.length_append] at hn; omega
      rw [ih n _ _ r hlt hc.adv, List.append_assoc, List.take_append_drop]
      simp [Nat.add_assoc]

end C04
