/-
C04: the text the list / map builders produce is "`[` ws item ws item … ws `]`".
-/
import ElvProofs.C04.MapS
import ElvProofs.C04.Order
namespace C04
open Go C01 C08 Gen.C01Chars

/-- whitespace `WriteElem` puts in front of an element -/
def sepBefore (indent : Int) (first : Bool) : Bytes :=
  if indent ≥ 0 then 10 :: spaces (indent + 1) else if first then [] else [32]

/-- whitespace `String()` puts in front of `]` -/
def closeWs (indent : Int) : Bytes := if indent ≥ 0 then 10 :: spaces indent else []

theorem wsAll_spaces (n : Int) : WsAll (spaces n) := by
  intro c hc
  simp only [spaces, List.mem_replicate] at hc
  exact Or.inl hc.2

theorem wsAll_sepBefore (indent : Int) (first : Bool) : WsAll (sepBefore indent first) := by
  unfold sepBefore
  split
  · intro c hc
    rcases List.mem_cons.1 hc with rfl | hc
    · exact Or.inr (Or.inr ⟨rfl, rfl⟩)
    · exact wsAll_spaces _ c hc
  · split
    · intro c hc; cases hc
    · intro c hc; simp at hc; exact Or.inl hc

theorem wsAll_closeWs (indent : Int) : WsAll (closeWs indent) := by
  unfold closeWs
  split
  · intro c hc
    rcases List.mem_cons.1 hc with rfl | hc
    · exact Or.inr (Or.inr ⟨rfl, rfl⟩)
    · exact wsAll_spaces _ c hc
  · intro c hc; cases hc

theorem sepBefore_false_ne (indent : Int) : sepBefore indent false ≠ [] := by
  unfold sepBefore
  split <;> simp

/-- items of a non-empty element list: each element with the whitespace after it -/
def mkItems (indent : Int) : List Bytes → List (Bytes × Bytes)
  | [] => []
  | [t] => [(t, closeWs indent)]
  | t :: t' :: ts => (t, sepBefore indent false) :: mkItems indent (t' :: ts)

theorem itemsOK_mkItems (indent : Int) : ∀ ts : List Bytes, ItemsOK (mkItems indent ts)
  | [] => trivial
  | [t] => ⟨wsAll_closeWs indent, fun _ => rfl, trivial⟩
  | t :: t' :: ts =>
    ⟨wsAll_sepBefore indent false, fun h => absurd h (sepBefore_false_ne indent), itemsOK_mkItems indent (t' :: ts)⟩

theorem mkItems_ne (indent : Int) {ts : List Bytes} (h : ts ≠ []) : mkItems indent ts ≠ [] := by
  match ts, h with
  | [t], _ => simp [mkItems]
  | t :: t' :: ts, _ => simp [mkItems]

/-- `WriteElem` after the first element -/
theorem writeElem_later (indent : Int) (buf v : Bytes) (h : 1 < buf.length) :
    writeElem indent buf v = buf ++ (sepBefore indent false ++ v) := by
  unfold writeElem sepBefore
  have h0 : ¬ buf.length = 0 := by omega
  simp only [h0, if_false]
  split
  · simp
  · simp [h]

theorem foldl_writeElem_later (indent : Int) : ∀ (ts : List Bytes) (buf : Bytes), 1 < buf.length →
    ts.foldl (writeElem indent) buf = buf ++ ts.flatMap (fun t => sepBefore indent false ++ t)
  | [], buf, _ => by simp
  | t :: ts, buf, h => by
    rw [List.foldl_cons, writeElem_later indent buf t h, foldl_writeElem_later indent ts _ (by simp; omega)]
    simp

theorem joinItems_mkItems (indent : Int) : ∀ (t : Bytes) (ts : List Bytes),
    joinItems (mkItems indent (t :: ts)) = t ++ ts.flatMap (fun t => sepBefore indent false ++ t) ++ closeWs indent
  | t, [] => by simp [mkItems, joinItems]
  | t, t' :: ts => by
    rw [mkItems, joinItems, joinItems_mkItems indent t' ts]
    simp

/-- the builder's text for at least one (non-empty) element -/
theorem builder_layout (indent : Int) (t : Bytes) (ts : List Bytes) (ht : t ≠ []) :
    builderString indent ((t :: ts).foldl (writeElem indent) []) =
      91 :: (sepBefore indent true ++ (joinItems (mkItems indent (t :: ts)) ++ [93])) := by
  have h1 : writeElem indent [] t = 91 :: (sepBefore indent true ++ t) := by
    unfold writeElem sepBefore
    simp only [List.length_nil, if_true, List.nil_append]
    split
    · simp
    · simp
  have hl : 1 < (writeElem indent [] t).length := by
    rw [h1]
    cases t with
    | nil => exact absurd rfl ht
    | cons _ _ => simp; omega
  rw [List.foldl_cons, h1, foldl_writeElem_later indent ts _ (by rw [← h1]; exact hl), joinItems_mkItems]
  unfold builderString closeWs
  rw [if_neg (by simp)]
  split <;> simp

theorem listString_nil (indent : Int) : listString indent [] = 91 :: ([] ++ (joinItems [] ++ [93])) := by
  simp [listString, builderString, joinItems]

theorem listString_cons (indent : Int) (t : Bytes) (ts : List Bytes) (ht : t ≠ []) :
    listString indent (t :: ts) =
      91 :: (sepBefore indent true ++ (joinItems (mkItems indent (t :: ts)) ++ [93])) :=
  builder_layout indent t ts ht

theorem mapBuilder_cons (indent : Int) (t : Bytes) (ts : List Bytes) (ht : t ≠ []) :
    mapBuilderString indent ((t :: ts).foldl (writeElem indent) []) =
      91 :: (sepBefore indent true ++ (joinItems (mkItems indent (t :: ts)) ++ [93])) := by
  unfold mapBuilderString
  rw [builder_layout indent t ts ht]
  have hne : t.length ≠ 0 := by
    cases t with
    | nil => exact absurd rfl ht
    | cons _ _ => simp
  have : ¬ (91 :: (sepBefore indent true ++ (joinItems (mkItems indent (t :: ts)) ++ [93])) == [91, 93]) = true := by
    intro h
    have h' := congrArg List.length (beq_iff_eq.1 h)
    rw [joinItems_mkItems] at h'
    simp at h'
    omega
  simp only [this, Bool.false_eq_true, if_false]

/-- `All2` through `mkItems` -/
theorem all2_mkItems {β : Type} {R : Bytes × Bytes → β → Prop} (indent : Int) :
    ∀ (ts : List Bytes) (vs : List β), All2 (fun t v => ∀ w, R (t, w) v) ts vs → All2 R (mkItems indent ts) vs
  | [], _, .nil => .nil
  | [t], _, .cons h .nil => .cons (h _) .nil
  | t :: t' :: ts, _, .cons h hr => .cons (h _) (all2_mkItems indent (t' :: ts) _ hr)

end C04
