/-
C04: the items loop of `[ … ]` on a laid-out text: elements (or `&k=v` pairs)
separated by whitespace.
-/
import ElvProofs.C04.Atoms
namespace C04
open Go C01 C08 Gen.C01Chars

/-- two lists related element by element -/
inductive All2 {α β : Type} (R : α → β → Prop) : List α → List β → Prop where
  | nil : All2 R [] []
  | cons {a : α} {b : β} {as : List α} {bs : List β} : R a b → All2 R as bs → All2 R (a :: as) (b :: bs)

/-- `t1 w1 t2 w2 … tn wn`: item texts each followed by its whitespace -/
def joinItems : List (Bytes × Bytes) → Bytes
  | [] => []
  | (t, w) :: rest => t ++ (w ++ joinItems rest)

def WsAll (w : Bytes) : Prop := ∀ c ∈ w, IsWs true c

/-- every separator is whitespace, and only the last one may be empty -/
def ItemsOK : List (Bytes × Bytes) → Prop
  | [] => True
  | (_, w) :: rest => WsAll w ∧ (w = [] → rest = []) ∧ ItemsOK rest

theorem ws_facts {c : UInt8} (h : IsWs true c) (isPrint : Int → Bool) (ctx : Int) :
    c.toNat < 128 ∧ startsPrimary isPrint (c.toNat : Int) ctx = false := by
  rcases h with rfl | rfl | ⟨_, rfl⟩ <;>
    exact ⟨by decide, by simp [startsPrimary, allowedInBareword, allowedInVariableName]⟩

theorem stop_rbracket (isPrint : Int → Bool) (ctx : Int) (r : Bytes) : Stop isPrint ctx (93 :: r) := by
  constructor
  rw [headRune_ascii _ (by decide)]
  simp [startsPrimary, allowedInBareword, allowedInVariableName]

theorem stopSp_rbracket (nl : Bool) (r : Bytes) : StopSp nl (93 :: r) := by
  constructor <;> rw [headRune_ascii _ (by decide)] <;> simp [IsInlineWhitespace, IsWhitespace]

/-- what follows an item stops a compound -/
theorem stop_after_item (isPrint : Int → Bool) (ctx : Int) {w : Bytes} {rest : List (Bytes × Bytes)} (r : Bytes)
    (hw : WsAll w) (hl : w = [] → rest = []) : Stop isPrint ctx (w ++ (joinItems rest ++ 93 :: r)) := by
  cases w with
  | nil =>
    rw [hl rfl]
    exact stop_rbracket isPrint ctx r
  | cons c w' =>
    constructor
    have := ws_facts (hw c List.mem_cons_self) isPrint ctx
    rw [List.cons_append, headRune_ascii _ this.1]
    exact this.2

section
variable {e : Env}

theorem evalAll_cons {c : Node} {cs : List Node} {v : Val} {vs : List Val} (hk : c.kind ≠ .sep)
    (hv : evalNode c = some v) (hvs : evalAll cs = some vs) : evalAll (c :: cs) = some (v :: vs) := by
  rw [evalAll, beq_sep_false hk]
  simp [hv, hvs]

/-- per-element facts -/
structure ElemOK (e : Env) (it : Bytes × Bytes) (v : Val) : Prop where
  comp : CompOK e NormalExpr it.1 v
  starts : Starts e.isPrint NormalExpr it.1

/-- what follows the whitespace after an item stops the spaces loop -/
theorem stopSp_next_item {rest : List (Bytes × Bytes)} {vals : List Val}
    (h : All2 (ElemOK e) rest vals) (r : Bytes) : StopSp true (joinItems rest ++ 93 :: r) := by
  cases h with
  | nil => exact stopSp_rbracket true r
  | @cons it v rest' vals' h1 _ =>
    obtain ⟨t, w⟩ := it
    simp only [joinItems, List.append_assoc]
    exact stopSp_of_starts h1.starts (by decide) _ true

/-- the items loop of `lbracket` over list elements -/
theorem listLoop_ok {f : Nat} : ∀ (items : List (Bytes × Bytes)) (vals : List Val),
    All2 (ElemOK e) items vals → ∀ (n : Nat) (nb : NB) (s : St) (r : Bytes),
    ItemsOK items → At e s (joinItems items ++ 93 :: r) → items.length < n →
    7 * (joinItems items).length + 2 ≤ f →
    ∃ nb' cns, lbracketLoop (fun nt' => parseNT f nt') n nb e s = .ok nb' (adv s (joinItems items).length) ∧
      nb'.frm = nb.frm ∧ nb'.f = nb.f ∧ real nb' = real nb ++ cns ∧ (∀ c ∈ cns, c.kind = .compound) ∧
      evalAll cns = some vals ∧ At e (adv s (joinItems items).length) (93 :: r) := by
  intro items vals hfa
  induction hfa with
  | nil =>
    intro n nb s r _ h hn _
    obtain ⟨n', rfl⟩ : ∃ n', n = n' + 1 := ⟨n - 1, by simp at hn; omega⟩
    have h' : At e s (93 :: r) := by simpa [joinItems] using h
    refine ⟨nb, [], ?_, rfl, rfl, by simp, by simp, rfl, by simpa [joinItems] using h'⟩
    unfold lbracketLoop
    rw [bind_of_eq (getEnv_eq _ _), bind_of_eq h'.peek_head, headRune_ascii _ (by decide)]
    rw [if_neg (by decide)]
    have : startsCompound e.isPrint (((93 : UInt8).toNat : Nat) : Int) NormalExpr = false := by
      simp [startsCompound, startsIndexing, startsPrimary, allowedInBareword, allowedInVariableName]
    simp only [this, Bool.false_eq_true, if_false]
    simp [joinItems]
  | @cons it v rest vals' h1 hrest ih =>
    intro n nb s r hok h hn hfuel
    obtain ⟨t, w⟩ := it
    have hfl : (joinItems ((t, w) :: rest)).length = t.length + (w.length + (joinItems rest).length) := by
      simp [joinItems]
    rw [hfl] at hfuel
    obtain ⟨hw, hl, hok'⟩ := hok
    obtain ⟨n', rfl⟩ : ∃ n', n = n' + 1 := ⟨n - 1, by simp at hn; omega⟩
    have h0 : At e s (t ++ (w ++ (joinItems rest ++ 93 :: r))) := by
      simpa [joinItems, List.append_assoc] using h
    -- the element
    obtain ⟨cn, hcn, hck, hcv⟩ := h1.comp f s _ (by simp only []; omega) h0 (stop_after_item e.isPrint NormalExpr r hw hl)
    have hA1 : At e (adv s t.length) (w ++ (joinItems rest ++ 93 :: r)) := h0.after (by intro l; simp) hcn
    -- the whitespace
    obtain ⟨nb1, hsp, hsame⟩ := parseSpacesInner_ok (s := adv s t.length) (nb.add cn) true hA1 hw
      (stopSp_next_item hrest r)
    have hA2 : At e (adv (adv s t.length) w.length) (joinItems rest ++ 93 :: r) :=
      hA1.steps (fun c hc => (ws_facts (hw c hc) e.isPrint NormalExpr).1)
    -- the rest
    obtain ⟨nb', cns, hloop, hfrm, hf, hreal, hkinds, hev, hAt⟩ :=
      ih n' nb1 (adv (adv s t.length) w.length) r hok' hA2 (by simp at hn; omega) (by omega)
    have hstate : adv (adv (adv s t.length) w.length) (joinItems rest).length =
        adv s (joinItems ((t, w) :: rest)).length := by simp [joinItems, adv, Nat.add_assoc]
    refine ⟨nb', cn :: cns, ?_, ?_, ?_, ?_, ?_, ?_, by rw [← hstate]; exact hAt⟩
    · unfold lbracketLoop
      rw [bind_of_eq (getEnv_eq _ _), bind_of_eq h0.peek_head]
      have hamp := not_amp_of_starts h1.starts (w ++ (joinItems rest ++ 93 :: r))
      rw [if_neg (by simpa using hamp)]
      have hst : startsCompound e.isPrint (headRune (t ++ (w ++ (joinItems rest ++ 93 :: r)))) NormalExpr = true :=
        h1.starts.start _
      rw [if_pos hst, bind_of_eq (show parseNT f (.compound NormalExpr) e s = _ from hcn)]
      have hsp' : parseSpacesAndNewlines (nb.add cn) e (adv s t.length) = _ := hsp
      rw [bind_of_eq hsp', hloop]
      simp [joinItems, adv, Nat.add_assoc]
    · rw [hfrm, hsame.frm]; rfl
    · rw [hf, hsame.f]; rfl
    · rw [hreal, hsame.real, real_add nb cn (by rw [hck]; simp)]; simp
    · intro c hc
      rcases List.mem_cons.1 hc with rfl | hc
      · exact hck
      · exact hkinds c hc
    · exact evalAll_cons (by rw [hck]; simp) hcv hev

theorem count_real (nb : NB) (k : Kind) (hk : k ≠ .sep) :
    nb.count k = ((real nb).filter (·.kind == k)).length := by
  unfold NB.count real
  rw [List.filter_filter]
  congr 1
  apply List.filter_congr
  intro n _
  by_cases h : n.kind = k
  · simp [h, nonSep, hk]
  · simp [h]

theorem count_zero_of_kinds (cns : List Node) (k k' : Kind) (hne : k ≠ k') (h : ∀ c ∈ cns, c.kind = k) :
    (cns.filter (·.kind == k')).length = 0 := by
  rw [List.length_eq_zero_iff, List.filter_eq_nil_iff]
  intro c hc
  rw [h c hc]
  simp [hne]

theorem items_length_le : ∀ {items : List (Bytes × Bytes)} {vals : List Val}, All2 (ElemOK e) items vals →
    items.length ≤ (joinItems items).length
  | _, _, .nil => by simp
  | _, _, @All2.cons _ _ _ it v rest vals h1 hr => by
    obtain ⟨t, w⟩ := it
    have := items_length_le hr
    have hne : t ≠ [] := h1.starts.ne
    have : 1 ≤ t.length := by
      cases t with
      | nil => exact absurd rfl hne
      | cons _ _ => simp
    simp [joinItems]; omega

/-- `[ e1 e2 … ]` is a primary that evaluates to the list of the element values -/
theorem list_prim {ctx : Int} {w0 : Bytes} {items : List (Bytes × Bytes)} {vals : List Val}
    (hw0 : WsAll w0) (hok : ItemsOK items) (hall : All2 (ElemOK e) items vals) :
    PrimOK e ctx (91 :: (w0 ++ (joinItems items ++ [93]))) (.list vals) := by
  intro fuel s r hf h hstop
  obtain ⟨f, rfl⟩ : ∃ f, fuel = f + 1 := ⟨fuel - 1, by simp at hf; omega⟩
  have h0 : At e s (91 :: (w0 ++ (joinItems items ++ 93 :: r))) := by simpa using h
  have hlen := At.length_le (t := 91 :: (w0 ++ (joinItems items ++ [93]))) (r := r) h
  let nb0 : NB := { frm := s.pos, f := (NT.primary ctx).init, children := [] }
  obtain ⟨nb1, hs1, hsame1⟩ := parseSep_yes nb0 h0 (by decide) 91 (by decide)
  have h1 : At e (adv s 1) (w0 ++ (joinItems items ++ 93 :: r)) := h0.step (by decide)
  obtain ⟨nb2, hs2, hsame2⟩ := parseSpacesInner_ok (s := adv s 1) nb1 true h1 hw0 (stopSp_next_item hall r)
  have h2 : At e (adv (adv s 1) w0.length) (joinItems items ++ 93 :: r) :=
    h1.steps (fun c hc => (ws_facts (hw0 c hc) e.isPrint NormalExpr).1)
  have hil := items_length_le hall
  obtain ⟨nb3, cns, hloop, hfrm3, hf3, hreal3, hkinds, hev, h3⟩ :=
    listLoop_ok (f := f) items vals hall (e.src.length + 2) nb2 (adv (adv s 1) w0.length) r hok h2
      (by simp at hlen; omega) (by simp at hf; omega)
  obtain ⟨nb4, hs4, hsame4⟩ := parseSep_yes nb3 h3 (by decide) 93 (by decide)
  have h4 : At e (adv (adv (adv (adv s 1) w0.length) (joinItems items).length) 1) r := h3.step (by decide)
  have hreal4 : real nb4 = cns := by
    rw [hsame4.real, hreal3, hsame2.real, hsame1.real]; rfl
  have hf4 : nb4.f = nb0.f := by rw [hsame4.f, hf3, hsame2.f, hsame1.f]
  have hfrm4 : nb4.frm = s.pos := by rw [hsame4.frm, hfrm3, hsame2.frm, hsame1.frm]
  have hb : primaryBody (fun nt' => parseNT f nt') nb0 e s =
      .ok (nb4.setType ListPrimary) (adv (adv (adv (adv s 1) w0.length) (joinItems items).length) 1) := by
    unfold primaryBody
    rw [bind_of_eq (getEnv_eq _ _), bind_of_eq (h0.peek_cons (by decide))]
    have e1 : startsPrimary e.isPrint (((91 : UInt8).toNat : Nat) : Int) nb0.f.ctx = true := by
      simp [startsPrimary]
    have e2 : allowedInBareword e.isPrint (((91 : UInt8).toNat : Nat) : Int) nb0.f.ctx = false := by
      simp [allowedInBareword, allowedInVariableName]
    simp only [e1, e2, Bool.not_true, Bool.false_eq_true, if_false]
    rw [if_neg (by decide), if_neg (by decide), if_neg (by decide), if_neg (by decide), if_neg (by decide),
      if_neg (by decide), if_pos (by decide)]
    unfold lbracket
    rw [bind_of_eq hs1]
    dsimp only
    have hs2' : parseSpacesAndNewlines nb1 e (adv s 1) = _ := hs2
    rw [bind_of_eq hs2', bind_of_eq (loopFuel_eq _ _), bind_of_eq hloop, bind_of_eq hs4]
    dsimp only
    have hlone : nb4.f.lone = false := by rw [hf4]; rfl
    have hcm : nb4.count .mapPair = 0 := by
      rw [count_real nb4 .mapPair (by decide), hreal4]
      exact count_zero_of_kinds cns .compound .mapPair (by decide) hkinds
    simp only [hlone, hcm, Bool.not_true, Bool.false_eq_true, if_false, Bool.false_or, gt_iff_lt,
      Nat.lt_irrefl, decide_false]
    rfl
  obtain ⟨txt, hw⟩ := prim_wrap (ctx := ctx) (fuel := f) h4.inv hb (by simp [hfrm4])
  have hst : adv (adv (adv (adv s 1) w0.length) (joinItems items).length) 1 =
      adv s (91 :: (w0 ++ (joinItems items ++ [93]))).length := by
    simp [adv]; omega
  rw [hst] at hw
  refine ⟨_, hw, rfl, ?_⟩
  rw [evalNode_primary_list _ _ _ _ _ (by rfl)]
  show Option.map Val.list (evalAll nb4.children) = _
  rw [evalAll_filter]
  have : nb4.children.filter nonSep = cns := hreal4
  rw [this, hev]
  rfl

end
end C04
