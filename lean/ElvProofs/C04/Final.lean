/-
C04: from the leaf hypotheses to the statements of `ElvProofs/C04.lean`:
the fragment with printable-ASCII strings satisfies the string hypothesis,
and keys that are not eq print differently (so the comparator of `reprMap`
separates them).
-/
import ElvProofs.C04.Top
import ElvProofs.C04.Canon
import ElvProofs.C04.StrAscii
namespace C04
open Go C01 C08 C09 List

mutual
/-- Values of the fragment `nil | bool | string | number | list | map` whose
strings are printable ASCII, whose exact numbers are in elvish's own
representation (C05's `CanonicalExact`) and whose floats satisfy the strconv
hypothesis (`floatHypOK`, evaluated by the driver on every op). -/
def AsciiFrag (L : Lib) : Val → Prop
  | .nil => True
  | .bool _ => True
  | .str s => PrintableAscii s
  | .int i => C05.fitsInt i = true
  | .bigint i => C05.fitsInt i = false
  | .rat q => q.den ≠ 1
  | .float b => floatHypOK L b = true
  | .list xs => AsciiFragList L xs
  | .map false kvs => AsciiFragEntries L kvs
  | .map true _ => False
  | .ref _ _ => False
def AsciiFragList (L : Lib) : List Val → Prop
  | [] => True
  | x :: xs => AsciiFrag L x ∧ AsciiFragList L xs
def AsciiFragEntries (L : Lib) : List (Val × Val) → Prop
  | [] => True
  | (k, v) :: kvs => AsciiFrag L k ∧ AsciiFrag L v ∧ AsciiFragEntries L kvs
end

section
variable {e : Env} {L : Lib}

mutual
theorem good_of_ascii (hp : IsPrintAscii e.isPrint) : (v : Val) → AsciiFrag L v → Good e L v
  | .nil, _ => trivial
  | .bool _, _ => trivial
  | .str s, h => by simp only [AsciiFrag] at h; simp only [Good]; exact strOK_ascii hp s h
  | .int i, h => by simpa [Good, NumGood, AsciiFrag] using h
  | .bigint i, h => by simpa [Good, NumGood, AsciiFrag] using h
  | .rat q, h => by simpa [Good, NumGood, AsciiFrag] using h
  | .float b, h => by
    simp only [AsciiFrag] at h
    simp only [Good, NumGood]
    exact floatOK_of_bool h
  | .list xs, h => by
    simp only [AsciiFrag] at h; simp only [Good]; exact good_of_ascii_l hp xs h
  | .map false kvs, h => by
    simp only [AsciiFrag] at h; simp only [Good]; exact good_of_ascii_e hp kvs h
  | .map true _, h => by simp [AsciiFrag] at h
  | .ref _ _, h => by simp [AsciiFrag] at h
theorem good_of_ascii_l (hp : IsPrintAscii e.isPrint) : (xs : List Val) → AsciiFragList L xs → GoodList e L xs
  | [], _ => trivial
  | x :: xs, h => by
    simp only [AsciiFragList] at h
    exact ⟨good_of_ascii hp x h.1, good_of_ascii_l hp xs h.2⟩
theorem good_of_ascii_e (hp : IsPrintAscii e.isPrint) : (kvs : List (Val × Val)) → AsciiFragEntries L kvs →
    GoodEntries e L kvs
  | [], _ => trivial
  | (k, v) :: kvs, h => by
    simp only [AsciiFragEntries] at h
    exact ⟨good_of_ascii hp k h.1, good_of_ascii hp v h.2.1, good_of_ascii_e hp kvs h.2.2⟩
end

end

theorem goodAll_of_ascii {L : Lib} (hp : IsPrintAscii L.isPrint) (v : Val) (h : AsciiFrag L v) : GoodAll L v :=
  fun src => good_of_ascii (e := { isPrint := L.isPrint, src := src }) hp v h

/-- Two values that print the same plain text are eq (no NaN inside): the text
determines the value read back. -/
theorem equal_of_same_text (L : Lib) (a b : Val) (ga : GoodAll L a) (gb : GoodAll L b)
    (wa : WF a) (wb : WF b) (na : NaNFree a) (nb : NaNFree b)
    (h : repr L true a minInt = repr L true b minInt) : Equal a b = true := by
  have ha := evalLit_repr L a ga minInt
  have hb := evalLit_repr L b gb minInt
  rw [h, hb] at ha
  have hc : canon L b = canon L a := Option.some.inj ha
  have ca := canonOK L a wa na
  have cb := canonOK L b wb nb
  have h1 : Equal a (canon L b) = true := by rw [hc]; exact ca.eq
  exact Equal_trans wa cb.wf wb h1 (Equal_symm wb cb.wf cb.eq)

/-- keys that are pairwise not eq (and hold no NaN) are separated by the
comparator of `reprMap`: by `CmpTotal`, or else by their plain text. -/
theorem keysSeparated_of_good (L : Lib) (kvs : List (Val × Val)) (hg : ∀ p ∈ kvs, GoodAll L p.1)
    (hwf : ∀ p ∈ kvs, WF p.1) (hnf : ∀ p ∈ kvs, NaNFree p.1) (hnd : NoDupKeys kvs) : KeysSeparated L kvs := by
  refine Pairwise.imp_of_mem ?_ hnd
  intro p q hp hq hpq
  refine Or.inr ?_
  intro hsame
  have := equal_of_same_text L p.1 q.1 (hg p hp) (hg q hq) (hwf p hp) (hwf q hq) (hnf p hp) (hnf q hq) hsame
  rw [hpq.1] at this
  cases this

theorem goodEntries_mem {e : Env} {L : Lib} : ∀ {kvs : List (Val × Val)}, GoodEntries e L kvs →
    ∀ p ∈ kvs, Good e L p.1 ∧ Good e L p.2
  | [], _, _, hp => by cases hp
  | (k, v) :: kvs, h, p, hp => by
    simp only [GoodEntries] at h
    rcases mem_cons.1 hp with rfl | hp
    · exact ⟨h.1, h.2.1⟩
    · exact goodEntries_mem h.2.2 p hp

theorem nanFreeEntries_mem : ∀ {kvs : List (Val × Val)}, NaNFreeEntries kvs → ∀ p ∈ kvs, NaNFree p.1 ∧ NaNFree p.2
  | [], _, _, hp => by cases hp
  | (k, v) :: kvs, h, p, hp => by
    simp only [NaNFreeEntries] at h
    rcases mem_cons.1 hp with rfl | hp
    · exact ⟨h.1, h.2.1⟩
    · exact nanFreeEntries_mem h.2.2 p hp

/-- The printed text of a map does not depend on the order of its entries
(keys pairwise not eq, no NaN in the keys). -/
theorem repr_map_perm_good (L : Lib) (hinj : ∀ s t, L.rank s = L.rank t → s = t)
    (kvs kvs' : List (Val × Val)) (indent : Int) (hg : GoodAll L (.map false kvs)) (hwf : WF (.map false kvs))
    (hnf : ∀ p ∈ kvs, NaNFree p.1) (hperm : kvs'.Perm kvs) :
    repr L true (.map false kvs') indent = repr L true (.map false kvs) indent := by
  simp only [C08.WF] at hwf
  have hmem := WFEntries_mem hwf.1
  refine repr_map_perm L hinj kvs kvs' indent (fun p hp => (hmem p hp).1) ?_ hperm
  refine keysSeparated_of_good L kvs ?_ (fun p hp => (hmem p hp).1) hnf hwf.2
  intro p hp src
  have := hg src
  simp only [Good] at this
  exact (goodEntries_mem this p hp).1

end C04
