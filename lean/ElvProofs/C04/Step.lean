/-
C04: stepping the parser of C01 over ASCII text, equationally (every lemma
gives the exact result and final state of a parser action).
-/
import ElvProofs.C01
import ElvModel.C04.Model
namespace C04
open Go C01 Gen.C01Chars

/-- the state `n` bytes further on (errors and the EOF counter untouched) -/
def adv (s : St) (n : Nat) : St := { s with pos := s.pos + n }

@[simp] theorem adv_pos (s : St) (n : Nat) : (adv s n).pos = s.pos + n := rfl
@[simp] theorem adv_errors (s : St) (n : Nat) : (adv s n).errors = s.errors := rfl
@[simp] theorem adv_overEOF (s : St) (n : Nat) : (adv s n).overEOF = s.overEOF := rfl
@[simp] theorem adv_zero (s : St) : adv s 0 = s := rfl
@[simp] theorem adv_adv (s : St) (a b : Nat) : adv (adv s a) b = adv s (a + b) := by
  simp [adv, Nat.add_assoc]

/-- the parser stands in front of the text `t` -/
structure At (e : Env) (s : St) (t : Bytes) : Prop where
  inv : Inv e s
  rest : e.src.drop s.pos = t

/-- what `peek` returns in front of the text `r`: its first rune, `eof` at the end -/
def headRune : Bytes → Int
  | [] => eof
  | c :: t => (((decodeRune (c :: t)).1 : Nat) : Int)

theorem headRune_ascii {c : UInt8} (t : Bytes) (hc : c.toNat < 128) : headRune (c :: t) = (c.toNat : Int) := by
  simp [headRune, decodeRune, hc]

section
variable {e : Env} {s : St}

theorem At.pos_lt {c : UInt8} {t : Bytes} (h : At e s (c :: t)) : s.pos < e.src.length := by
  have hle := h.inv.le
  rcases Nat.lt_or_ge s.pos e.src.length with h1 | h1
  · exact h1
  · have := h.rest
    rw [List.drop_eq_nil_of_le h1] at this
    cases this

theorem At.pos_eq {h : At e s []} : s.pos = e.src.length := by
  have hle := h.inv.le
  have := congrArg List.length h.rest
  simp at this
  omega

theorem decodeRune_ascii_cons {c : UInt8} (t : Bytes) (hc : c.toNat < 128) :
    decodeRune (c :: t) = (c.toNat, 1) := by
  simp [decodeRune, hc]

theorem At.peekRune {c : UInt8} {t : Bytes} (h : At e s (c :: t)) (hc : c.toNat < 128) :
    peekRune e s = (c.toNat : Int) := by
  unfold C01.peekRune
  have := h.pos_lt
  rw [if_neg (by omega), h.rest, decodeRune_ascii_cons t hc]

theorem At.nextSt {c : UInt8} {t : Bytes} (h : At e s (c :: t)) (hc : c.toNat < 128) :
    nextSt e s = adv s 1 := by
  unfold C01.nextSt
  have := h.pos_lt
  rw [if_neg (by omega), h.rest, decodeRune_ascii_cons t hc]
  rfl

theorem At.step {c : UInt8} {t : Bytes} (h : At e s (c :: t)) (hc : c.toNat < 128) : At e (adv s 1) t := by
  refine ⟨?_, ?_⟩
  · rw [← h.nextSt hc]; exact nextSt_inv h.inv
  · have := h.rest
    simp only [adv_pos]
    rw [← List.drop_drop, this]
    rfl

theorem At.steps : ∀ {t r : Bytes} {s : St}, At e s (t ++ r) → (∀ c ∈ t, c.toNat < 128) →
    At e (adv s t.length) r
  | [], _, _, h, _ => by simpa using h
  | c :: t, r, s, h, hc => by
    have h1 := At.step (t := t ++ r) h (hc c List.mem_cons_self)
    have h2 := At.steps h1 (fun c' hc' => hc c' (List.mem_cons_of_mem _ hc'))
    simpa [Nat.add_comm] using h2

theorem At.peek_head {r : Bytes} (h : At e s r) : peek e s = .ok (headRune r) s := by
  rw [peek_eq h.inv]
  cases r with
  | nil =>
    have : s.pos = e.src.length := At.pos_eq (h := h)
    simp [C01.peekRune, this, headRune]
  | cons c t =>
    have := h.pos_lt
    unfold C01.peekRune
    rw [if_neg (by omega), h.rest]
    rfl

theorem At.peek_cons {c : UInt8} {t : Bytes} (h : At e s (c :: t)) (hc : c.toNat < 128) :
    peek e s = .ok (c.toNat : Int) s := by
  rw [peek_eq h.inv, h.peekRune hc]

theorem At.next_cons {c : UInt8} {t : Bytes} (h : At e s (c :: t)) (hc : c.toNat < 128) :
    next e s = .ok (c.toNat : Int) (adv s 1) := by
  rw [next_eq h.inv, h.peekRune hc, h.nextSt hc]

/-! ### loops over ASCII text -/

theorem skipWhile_ascii (p : Int → Bool) : ∀ (t : Bytes) (n : Nat) (s : St) (r : Bytes),
    At e s (t ++ r) → (∀ c ∈ t, c.toNat < 128 ∧ p (c.toNat : Int) = true) →
    p (headRune r) = false → t.length < n → skipWhile p n e s = .ok () (adv s t.length)
  | [], n + 1, s, r, h, _, hp, _ => by
    unfold skipWhile
    rw [bind_of_eq (At.peek_head (r := r) (by simpa using h))]
    simp [hp]
  | c :: t, n + 1, s, r, h, hc, hp, hn => by
    have hc0 := hc c List.mem_cons_self
    have h' : At e s (c :: (t ++ r)) := h
    unfold skipWhile
    rw [bind_of_eq (h'.peek_cons hc0.1)]
    simp only [hc0.2, if_true]
    rw [bind_of_eq (h'.next_cons hc0.1)]
    rw [skipWhile_ascii p t n (adv s 1) r (h'.step hc0.1)
      (fun c' hc' => hc c' (List.mem_cons_of_mem _ hc')) hp (by simp at hn; omega)]
    simp [Nat.add_comm]

/-- whitespace the spaces loop skips -/
def IsWs (nl : Bool) (c : UInt8) : Prop := c = 32 ∨ c = 9 ∨ (nl = true ∧ c = 10)

/-- where the spaces loop stops -/
structure StopSp (nl : Bool) (r : Bytes) : Prop where
  notInline : IsInlineWhitespace (headRune r) = false
  notWs : nl = true → IsWhitespace (headRune r) = false
  notHash : headRune r ≠ 35
  notCaret : headRune r ≠ 94

theorem spacesLoop_ws (nl : Bool) : ∀ (w : Bytes) (n : Nat) (s : St) (r : Bytes),
    At e s (w ++ r) → (∀ c ∈ w, IsWs nl c) → StopSp nl r → w.length < n →
    spacesLoop nl n e s = .ok () (adv s w.length)
  | [], n + 1, s, r, h, _, hs, _ => by
    unfold spacesLoop
    rw [bind_of_eq (At.peek_head (r := r) (by simpa using h))]
    have h1 := hs.notInline
    have h3 := hs.notHash
    have h4 := hs.notCaret
    cases nl with
    | false => simp [h1, h3, h4]
    | true => have h2 := hs.notWs rfl; simp [h1, h2, h3, h4]
  | c :: w, n + 1, s, r, h, hc, hs, hn => by
    have h' : At e s (c :: (w ++ r)) := h
    have hw := hc c List.mem_cons_self
    have hlt : c.toNat < 128 := by
      rcases hw with rfl | rfl | ⟨_, rfl⟩ <;> decide
    have ih := spacesLoop_ws nl w n (adv s 1) r (h'.step hlt)
      (fun c' hc' => hc c' (List.mem_cons_of_mem _ hc')) hs (by simp at hn; omega)
    unfold spacesLoop
    rw [bind_of_eq (h'.peek_cons hlt)]
    rcases hw with rfl | rfl | ⟨hnl, rfl⟩
    · have e1 : IsInlineWhitespace (((32 : UInt8).toNat : Nat) : Int) = true := by decide
      rw [if_pos e1, bind_of_eq (h'.next_cons hlt), ih]; simp [Nat.add_comm]
    · have e1 : IsInlineWhitespace (((9 : UInt8).toNat : Nat) : Int) = true := by decide
      rw [if_pos e1, bind_of_eq (h'.next_cons hlt), ih]; simp [Nat.add_comm]
    · subst hnl
      have e1 : ¬ IsInlineWhitespace (((10 : UInt8).toNat : Nat) : Int) = true := by decide
      have e2 : (true && IsWhitespace (((10 : UInt8).toNat : Nat) : Int)) = true := by decide
      rw [if_neg e1, if_pos e2, bind_of_eq (h'.next_cons hlt), ih]; simp [Nat.add_comm]

end
end C04
