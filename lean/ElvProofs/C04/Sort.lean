/-
C04 helper lemmas: insertion sort (`isort`) returns a sorted permutation, a
sorted permutation is unique when the comparator separates the elements, and
the comparator of `reprMap` (`entryLess`) is a strict weak order.
-/
import ElvModel.C04.Model
import ElvProofs.C09
namespace C04
open Go C08 C09 List

section Generic
variable {α : Type} (lt : α → α → Bool)

theorem insRev_perm (x : α) : ∀ ys : List α, (insRev lt x ys).Perm (x :: ys)
  | [] => by simp [insRev]
  | y :: ys => by
    unfold insRev
    split
    · exact ((insRev_perm x ys).cons y).trans (Perm.swap x y ys)
    · exact Perm.refl _

theorem foldl_insRev_perm : ∀ (xs acc : List α),
    (xs.foldl (fun acc x => insRev lt x acc) acc).Perm (xs.reverse ++ acc)
  | [], acc => by simp
  | x :: xs, acc => by
    simp only [foldl_cons, reverse_cons, append_assoc, singleton_append]
    exact (foldl_insRev_perm xs _).trans ((insRev_perm lt x acc).append_left _)

theorem isort_perm (xs : List α) : (isort lt xs).Perm xs := by
  unfold isort
  refine (reverse_perm _).trans ?_
  have := foldl_insRev_perm lt xs []
  simp only [append_nil] at this
  exact this.trans (reverse_perm _)

/-- the order laws insertion sort needs, on the elements satisfying `S`. -/
structure WeakOrder (S : α → Prop) : Prop where
  asymm : ∀ a b, S a → S b → lt a b = true → lt b a = false
  /-- `le u v := lt v u = false` is transitive -/
  trans : ∀ a b c, S a → S b → S c → lt b a = false → lt c b = false → lt c a = false

variable {lt}

theorem insRev_mem {x : α} : ∀ {ys : List α} {b : α}, b ∈ insRev lt x ys → b = x ∨ b ∈ ys
  | [], b, h => by simp [insRev] at h; exact Or.inl h
  | y :: ys, b, h => by
    unfold insRev at h
    split at h
    · rcases mem_cons.1 h with rfl | h
      · exact Or.inr mem_cons_self
      · rcases insRev_mem h with h | h
        · exact Or.inl h
        · exact Or.inr (mem_cons_of_mem _ h)
    · rcases mem_cons.1 h with rfl | h
      · exact Or.inl rfl
      · exact Or.inr h

theorem insRev_sorted {S : α → Prop} (W : WeakOrder lt S) {x : α} (hx : S x) :
    ∀ {ys : List α}, (∀ y ∈ ys, S y) → ys.Pairwise (fun a b => lt a b = false) →
      (insRev lt x ys).Pairwise (fun a b => lt a b = false)
  | [], _, _ => by simp [insRev]
  | y :: ys, hS, hp => by
    have hy : S y := hS y mem_cons_self
    have hS' : ∀ z ∈ ys, S z := fun z hz => hS z (mem_cons_of_mem _ hz)
    rw [pairwise_cons] at hp
    unfold insRev
    split
    · next hlt =>
      rw [pairwise_cons]
      refine ⟨?_, insRev_sorted W hx hS' hp.2⟩
      intro b hb
      rcases insRev_mem hb with rfl | hb
      · exact W.asymm _ _ hx hy hlt
      · exact hp.1 b hb
    · next hlt =>
      have hlt : lt x y = false := by simpa using hlt
      rw [pairwise_cons]
      refine ⟨?_, pairwise_cons.2 hp⟩
      intro b hb
      rcases mem_cons.1 hb with rfl | hb
      · exact hlt
      · exact W.trans b y x (hS' b hb) hy hx (hp.1 b hb) hlt

theorem foldl_insRev_sorted {S : α → Prop} (W : WeakOrder lt S) :
    ∀ (xs acc : List α), (∀ y ∈ xs, S y) → (∀ y ∈ acc, S y) → acc.Pairwise (fun a b => lt a b = false) →
      (xs.foldl (fun acc x => insRev lt x acc) acc).Pairwise (fun a b => lt a b = false)
  | [], _, _, _, hp => hp
  | x :: xs, acc, hx, ha, hp => by
    simp only [foldl_cons]
    refine foldl_insRev_sorted W xs _ (fun y hy => hx y (mem_cons_of_mem _ hy)) ?_
      (insRev_sorted W (hx x mem_cons_self) ha hp)
    intro y hy
    rcases insRev_mem hy with rfl | hy
    · exact hx _ mem_cons_self
    · exact ha y hy

/-- insertion sort sorts: no element is less than an earlier one. -/
theorem isort_sorted {S : α → Prop} (W : WeakOrder lt S) (xs : List α) (hS : ∀ y ∈ xs, S y) :
    (isort lt xs).Pairwise (fun a b => lt b a = false) := by
  unfold isort
  rw [pairwise_reverse]
  exact foldl_insRev_sorted W xs [] hS (by simp) Pairwise.nil

/-- ANY permutation of `xs` that is sorted by `lt` is what insertion sort
returns, when `lt` orders any two different elements. -/
theorem sorted_perm_eq_isort {S : α → Prop} (W : WeakOrder lt S) (xs p : List α) (hS : ∀ y ∈ xs, S y)
    (hsep : ∀ a b, a ∈ xs → b ∈ xs → lt a b = false → lt b a = false → a = b)
    (hperm : p.Perm xs) (hsorted : p.Pairwise (fun a b => lt b a = false)) :
    p = isort lt xs := by
  refine Perm.eq_of_pairwise (le := fun a b => lt b a = false) ?_ hsorted (isort_sorted W xs hS)
    (hperm.trans (isort_perm lt xs).symm)
  intro a b ha hb h1 h2
  exact hsep a b (hperm.subset ha) ((isort_perm lt xs).subset hb) h2 h1

end Generic

/-! ### the comparator of reprMap -/

theorem COrd_flip_less {o : COrd} : o.flip = .less ↔ o = .more := by cases o <;> simp [COrd.flip]
theorem COrd_flip_equal {o : COrd} : o.flip = .equal ↔ o = .equal := by cases o <;> simp [COrd.flip]

/-- `entryLess` (fixed tree) is a strict weak order on entries with well-formed keys. -/
theorem entryLess_weakOrder (rank : Nat → Nat) (hinj : ∀ s t, rank s = rank t → s = t) :
    WeakOrder (entryLess rank true) (fun e => WF e.key) where
  asymm := by
    intro a b wa wb h
    have hf := C09_total_antisymm rank a.key b.key wa wb hinj
    unfold entryLess at h ⊢
    rw [hf]
    cases hc : CmpTotal rank a.key b.key <;> simp [hc, COrd.flip] at h ⊢
    exact bytesLt_asymm _ _ h
  trans := by
    intro a b c wa wb wc h1 h2
    -- h1 : ¬ b < a  (a ≤ b),  h2 : ¬ c < b  (b ≤ c);  goal ¬ c < a
    have fab := C09_total_antisymm rank a.key b.key wa wb hinj
    have fbc := C09_total_antisymm rank b.key c.key wb wc hinj
    have fac := C09_total_antisymm rank a.key c.key wa wc hinj
    have tab := C09_total_total rank a.key b.key
    have tbc := C09_total_total rank b.key c.key
    unfold entryLess at h1 h2 ⊢
    rw [fab] at h1; rw [fbc] at h2; rw [fac]
    -- a ≤ b and b ≤ c in CmpTotal
    have lab : (CmpTotal rank a.key b.key).isLE = true := by
      cases hc : CmpTotal rank a.key b.key <;> simp [hc, COrd.flip, COrd.isLE] at h1 tab ⊢
    have lbc : (CmpTotal rank b.key c.key).isLE = true := by
      cases hc : CmpTotal rank b.key c.key <;> simp [hc, COrd.flip, COrd.isLE] at h2 tbc ⊢
    have tr := C09_total_trans rank a.key b.key c.key wa wb wc hinj lab lbc
    rw [tr]
    cases hab : CmpTotal rank a.key b.key <;> cases hbc : CmpTotal rank b.key c.key <;>
      simp [hab, hbc, COrd.flip, COrd.seq, COrd.isLE] at h1 h2 lab lbc ⊢
    -- equal / equal: the tie-break strings
    rcases bytesLt_trichotomy a.plain b.plain with h | h | h
    · rcases bytesLt_trichotomy b.plain c.plain with h' | h' | h'
      · exact bytesLt_asymm _ _ (bytesLt_trans _ _ _ h h')
      · rw [← h']; exact bytesLt_asymm _ _ h
      · rw [h'] at h2; cases h2
    · rw [h]; exact h2
    · rw [h] at h1; cases h1

/-- two entries the comparator cannot order have CmpTotal-equal keys and the
same tie-break string. -/
theorem entryLess_tie {rank : Nat → Nat} (hinj : ∀ s t, rank s = rank t → s = t) {a b : Entry}
    (wa : WF a.key) (wb : WF b.key)
    (h1 : entryLess rank true a b = false) (h2 : entryLess rank true b a = false) :
    CmpTotal rank a.key b.key = .equal ∧ a.plain = b.plain := by
  have hf := C09_total_antisymm rank a.key b.key wa wb hinj
  have ht := C09_total_total rank a.key b.key
  unfold entryLess at h1 h2
  rw [hf] at h2
  cases hc : CmpTotal rank a.key b.key <;> simp [hc, COrd.flip] at h1 h2 ht ⊢
  rcases bytesLt_trichotomy a.plain b.plain with h | h | h
  · rw [h] at h1; cases h1
  · exact h
  · rw [h] at h2; cases h2

end C04
