/-
C04 (round 2): the errors already recorded in the parser state are a FRAME for
the leaf loops of the C01 parser — running `singleQuotedLoop`,
`doubleQuotedLoop`, `skipWhile` in a state that already holds errors gives the
result of the run in the clean state with those errors put back in front.

This is the bridge from C03's lemmas (stated for the clean states `C03.st p`,
the text being the whole source) to C04's setting (`At e s t`: any state
satisfying the C01 invariant, the text standing anywhere in the source).
-/
import ElvProofs.C04.Atoms
import ElvProofs.C03
namespace C04
open Go C01 Gen.C01Chars

/-- the state with the errors `E` recorded before everything else -/
def addErrs (E : List PErr) (s : St) : St := { s with errors := E ++ s.errors }

/-- … on an outcome -/
def outAdd {α : Type} (E : List PErr) : Out α → Out α
  | .ok a s => .ok a (addErrs E s)
  | .panic w => .panic w
  | .fuel => .fuel

/-- the action does not look at the errors recorded so far, and only appends -/
structure Framed {α : Type} (m : M α) : Prop where
  eq : ∀ E e s, m e (addErrs E s) = outAdd E (m e s)

theorem Framed.pure {α : Type} (a : α) : Framed (pure a : M α) := ⟨fun _ _ _ => rfl⟩

theorem Framed.bind {α β : Type} {m : M α} {f : α → M β} (hm : Framed m) (hf : ∀ a, Framed (f a)) :
    Framed (m >>= f) := by
  refine ⟨fun E e s => ?_⟩
  rw [C01.bind_apply, C01.bind_apply, hm.eq E e s]
  cases m e s with
  | ok a s' => exact (hf a).eq E e s'
  | panic w => rfl
  | fuel => rfl

theorem framed_peek : Framed peek := by
  refine ⟨fun E e s => ?_⟩
  cases s with
  | mk p o Es =>
    simp only [peek, addErrs]
    by_cases h1 : p = e.src.length
    · simp [h1, outAdd, addErrs]
    · by_cases h2 : p ≤ e.src.length <;> simp [h1, h2, outAdd, addErrs]

theorem framed_next : Framed next := by
  refine ⟨fun E e s => ?_⟩
  cases s with
  | mk p o Es =>
    simp only [next, addErrs]
    by_cases h1 : p = e.src.length
    · simp [h1, outAdd, addErrs]
    · by_cases h2 : p ≤ e.src.length <;> simp [h1, h2, outAdd, addErrs]

theorem framed_backup : Framed backup := by
  refine ⟨fun E e s => ?_⟩
  cases s with
  | mk p o Es =>
    simp only [backup, addErrs]
    by_cases h1 : o > 0
    · simp [h1, outAdd, addErrs]
    · by_cases h2 : p ≤ e.src.length
      · by_cases h3 : (decodeLastRune (e.src.take p)).2 ≤ p <;> simp [h1, h2, h3, outAdd, addErrs]
      · simp [h1, h2, outAdd, addErrs]

theorem framed_errorp (a b : Nat) (m : Msg) : Framed (errorp a b m) := by
  refine ⟨fun E e s => ?_⟩
  cases s with
  | mk p o Es =>
    simp only [errorp, addErrs]
    by_cases h1 : a ≤ b ∧ b ≤ e.src.length <;> simp [h1, outAdd, addErrs, List.append_assoc]

theorem framed_error (m : Msg) : Framed (error m) :=
  ⟨fun E e s => (framed_errorp _ _ m).eq E e s⟩

theorem framed_getPos : Framed getPos := ⟨fun _ _ _ => rfl⟩
theorem framed_panic {α : Type} (w : String) : Framed (panic w : M α) := ⟨fun _ _ _ => rfl⟩
theorem framed_outOfFuel {α : Type} : Framed (outOfFuel : M α) := ⟨fun _ _ _ => rfl⟩

/-- one syntax-directed step of a `Framed` proof -/
macro "framed_step" : tactic => `(tactic| first
  | exact Framed.pure _
  | exact framed_next
  | exact framed_peek
  | exact framed_backup
  | exact framed_error _
  | exact framed_errorp _ _ _
  | exact framed_getPos
  | exact framed_panic _
  | exact framed_outOfFuel
  | assumption
  | refine Framed.bind ?_ ?_
  | intro _
  | dsimp only
  | split)

theorem framed_skipWhile (p : Int → Bool) : ∀ n, Framed (skipWhile p n)
  | 0 => framed_outOfFuel
  | n + 1 => by
    have ih := framed_skipWhile p n
    unfold skipWhile
    repeat' framed_step

theorem framed_singleQuotedLoop : ∀ n buf, Framed (singleQuotedLoop n buf)
  | 0, _ => framed_outOfFuel
  | n + 1, buf => by
    have ih := framed_singleQuotedLoop n
    unfold singleQuotedLoop
    repeat' first | exact ih _ | framed_step

theorem framed_hexLoop : ∀ n rr, Framed (hexLoop n rr)
  | 0, _ => Framed.pure _
  | n + 1, rr => by
    have ih := framed_hexLoop n
    unfold hexLoop
    repeat' first | exact ih _ | framed_step

theorem framed_octLoop : ∀ n rr, Framed (octLoop n rr)
  | 0, _ => Framed.pure _
  | n + 1, rr => by
    have ih := framed_octLoop n
    unfold octLoop
    repeat' first | exact ih _ | framed_step

theorem framed_doubleQuotedEscape : Framed doubleQuotedEscape := by
  unfold doubleQuotedEscape
  repeat' first | exact framed_hexLoop _ _ | exact framed_octLoop _ _ | framed_step

theorem framed_doubleQuotedLoop : ∀ n buf, Framed (doubleQuotedLoop n buf)
  | 0, _ => framed_outOfFuel
  | n + 1, buf => by
    have ih := framed_doubleQuotedLoop n
    unfold doubleQuotedLoop
    repeat' first | exact ih _ | exact framed_doubleQuotedEscape | framed_step

/-- From a run in the clean state `C03.st p` to the run in any state at the
same position that is not past the end of the text. -/
theorem Framed.at {α : Type} {m : M α} (hm : Framed m) {e : Env} {s : St} {a : α} {k : Nat}
    (h0 : s.overEOF = 0) (h : m e (C03.st s.pos) = .ok a (C03.st (s.pos + k))) :
    m e s = .ok a (adv s k) := by
  have hs : s = addErrs s.errors (C03.st s.pos) := by
    cases s with
    | mk p o E => simp only at h0; subst h0; simp [addErrs, C03.st]
  rw [hs, hm.eq, h]
  simp [outAdd, addErrs, C03.st, adv]

section
variable {e : Env} {s : St}

/-- in front of a non-empty text the parser has not run over the end -/
theorem At.overEOF {c : UInt8} {t : Bytes} (h : At e s (c :: t)) : s.overEOF = 0 := by
  have hlt := h.pos_lt
  rcases Nat.eq_zero_or_pos s.overEOF with h0 | h0
  · exact h0
  · have := h.inv.eof h0; omega

theorem At.cur {t : Bytes} (h : At e s t) : C03.Cur e s.pos t := ⟨h.inv.le, h.rest⟩

/-- the state after a successful run of an action that keeps the invariant -/
theorem At.of_ok {α : Type} {T r : Bytes} (h : At e s (T ++ r)) {o : Out α} {a : α}
    (hspec : Ok o (fun _ s' => Fwd e s s')) (ho : o = .ok a (adv s T.length)) : At e (adv s T.length) r := by
  rw [ho] at hspec
  exact ⟨hspec.1, h.drop_adv⟩

end
end C04
