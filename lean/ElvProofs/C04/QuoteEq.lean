/-
C04 (round 2): C04's local model of `parse.Quote` (written before C03
existed) IS C03's model: `C03.Quote isPrint s = .ok (C04.quote isPrint s)` for
every byte string and every `IsPrint`, piece by piece (`runeItems` vs
`Go.runes`, `quoteScan` vs `scanLoop`, `quoteSingle`, `quoteDouble` vs the
fuel loop described by `C03.DQ`, the two `doubleUnescape` tables).
-/
import ElvProofs.C04.Loops
namespace C04
open Go C01 Gen.C01Chars

/-! ### `for _, r := range s` -/

theorem runeItems_skip : ∀ (k : Nat) (t : Bytes), runeItems k t = runeItems 0 (t.drop k)
  | 0, t => by simp
  | k + 1, [] => by simp [runeItems]
  | k + 1, _ :: t => by
    rw [runeItems, List.drop_succ_cons]
    exact runeItems_skip k t

/-- the recursion equation of `runeItems`, in the shape of `Go.runes_of_ne_nil` -/
theorem runeItems_cons (b0 : UInt8) (t : Bytes) :
    runeItems 0 (b0 :: t) =
      ((decodeRune (b0 :: t)).1, (decodeRune (b0 :: t)).2, b0) ::
        runeItems 0 ((b0 :: t).drop (decodeRune (b0 :: t)).2) := by
  have hpos := Go.decodeRune_size_pos (s := b0 :: t) (by simp)
  rw [runeItems, runeItems_skip]
  obtain ⟨w, hw⟩ : ∃ w, (decodeRune (b0 :: t)).2 = w + 1 := ⟨(decodeRune (b0 :: t)).2 - 1, by omega⟩
  simp only [hw, Nat.add_sub_cancel, List.drop_succ_cons]

/-! ### the scan loop of `quoteAs` -/

theorem scanLoop_shift (isPrint allowed : Int → Bool) (k : Nat) :
    ∀ (l : List (Nat × Rune × Nat)) (b : Bool),
      C03.scanLoop isPrint allowed (shiftRunes k l) b = C03.scanLoop isPrint allowed l b
  | [], b => rfl
  | x :: l, b => by
    rw [shiftRunes_cons, C03.scanLoop, C03.scanLoop]
    simp only []
    rw [scanLoop_shift isPrint allowed k l]

theorem quoteScan_eq (isPrint : Int → Bool) : ∀ (s : Bytes) (b : Bool),
    quoteScan isPrint (runeItems 0 s) b =
      C03.scanLoop isPrint (fun r => allowedInBareword isPrint r strictExpr) (runes s) b := by
  intro s
  induction s using runes_induction with
  | nil => intro b; rfl
  | step s hne ih =>
    intro b
    obtain ⟨b0, t, rfl⟩ : ∃ b0 t, s = b0 :: t := by
      cases s with
      | nil => exact absurd rfl hne
      | cons b0 t => exact ⟨b0, t, rfl⟩
    rw [runeItems_cons, runes_of_ne_nil hne, quoteScan, C03.scanLoop, scanLoop_shift]
    simp only []
    split
    · rfl
    · rw [ih]
      congr 1
      cases allowedInBareword isPrint (↑(decodeRune (b0 :: t)).1) strictExpr <;> cases b <;> rfl

/-! ### `quoteSingle` -/

theorem quoteSingleBody_eq : ∀ s : Bytes, quoteSingleBody (runeItems 0 s) = C03.sqBody s := by
  intro s
  induction s using runes_induction with
  | nil => rfl
  | step s hne ih =>
    obtain ⟨b0, t, rfl⟩ : ∃ b0 t, s = b0 :: t := by
      cases s with
      | nil => exact absurd rfl hne
      | cons b0 t => exact ⟨b0, t, rfl⟩
    rw [runeItems_cons, quoteSingleBody, C03.sqBody_cons hne, ih, C03.sqPiece]
    split <;> simp

theorem quoteSingle_eq (s : Bytes) : quoteSingle s = C03.quoteSingle s := by
  rw [C03.quoteSingle_eq, quoteSingle, quoteSingleBody_eq]

/-! ### `quoteDouble` -/

theorem doubleUnescape_eq (r : Int) : doubleUnescape r = C03.doubleUnescape.lookup r := by
  by_cases h : r = 7 ∨ r = 8 ∨ r = 12 ∨ r = 10 ∨ r = 13 ∨ r = 9 ∨ r = 11 ∨ r = 92 ∨ r = 34 ∨ r = 27
  · rcases h with rfl | rfl | rfl | rfl | rfl | rfl | rfl | rfl | rfl | rfl <;> decide
  · simp only [not_or] at h
    obtain ⟨h1, h2, h3, h4, h5, h6, h7, h8, h9, h10⟩ := h
    rw [C03.doubleUnescape_val]
    have e1 : doubleUnescape r = none := by
      simp only [doubleUnescape, doubleEscape, Option.map_eq_none_iff, List.find?_eq_none, List.mem_cons,
        List.not_mem_nil, or_false, beq_iff_eq]
      intro kv hkv
      rcases hkv with rfl | rfl | rfl | rfl | rfl | rfl | rfl | rfl | rfl | rfl <;> omega
    rw [e1]
    symm
    simp only [List.lookup_cons, List.lookup_nil]
    have g : ∀ k : Int, r ≠ k → (r == k) = false := fun k hk => by simpa using hk
    simp only [g _ h1, g _ h2, g _ h3, g _ h4, g _ h5, g _ h6, g _ h7, g _ h8, g _ h9, g _ h10]

theorem rtohex_eq (r : Nat) : ∀ w, rtohex r w = C03.rtohex r w := by
  intro w
  induction w generalizing r with
  | zero => rfl
  | succ w ih => rw [rtohex, C03.rtohex, ih]; rfl

theorem quoteDoubleItem_eq (isPrint : Int → Bool) (b0 : UInt8) (r w : Nat) :
    quoteDoubleItem isPrint (r, w, b0) = C03.dqPiece isPrint b0 r w := by
  unfold quoteDoubleItem C03.dqPiece
  simp only [doubleUnescape_eq, rtohex_eq]
  split
  · rfl
  · cases List.lookup (↑r) C03.doubleUnescape with
    | some e => rfl
    | none => rfl

/-- the body written by C04's `quoteDouble` is the one described by `C03.DQ` -/
theorem dq_runeItems (isPrint : Int → Bool) : ∀ s : Bytes,
    C03.DQ isPrint s ((runeItems 0 s).flatMap (quoteDoubleItem isPrint)) := by
  intro s
  induction s using runes_induction with
  | nil => exact .nil
  | step s hne ih =>
    obtain ⟨b0, t, rfl⟩ : ∃ b0 t, s = b0 :: t := by
      cases s with
      | nil => exact absurd rfl hne
      | cons b0 t => exact ⟨b0, t, rfl⟩
    rw [runeItems_cons, List.flatMap_cons, quoteDoubleItem_eq]
    exact .cons b0 t _ ih

theorem DQ_functional {isPrint : Int → Bool} {s b1 : Bytes} (h1 : C03.DQ isPrint s b1) :
    ∀ {b2 : Bytes}, C03.DQ isPrint s b2 → b1 = b2 := by
  induction h1 with
  | nil => intro b2 h2; cases h2; rfl
  | cons b0 t body _ ih =>
    intro b2 h2
    cases h2 with
    | cons _ _ body2 h2' => rw [ih h2']

theorem quoteDouble_eq (isPrint : Int → Bool) (s : Bytes) :
    C03.quoteDouble isPrint s = .ok (quoteDouble isPrint s) := by
  obtain ⟨body, hq, hd⟩ := C03.quoteDouble_spec isPrint s
  rw [hq, quoteDouble, DQ_functional hd (dq_runeItems isPrint s)]

/-! ### `Quote` -/

/-- **C04's model of `parse.Quote` is C03's.** -/
theorem quote_eq_C03 (isPrint : Int → Bool) (s : Bytes) : C03.Quote isPrint s = .ok (quote isPrint s) := by
  unfold C03.Quote C03.QuoteAs C03.quoteAs quote
  simp only [show (Bareword == DoubleQuoted) = false by decide, Bool.false_eq_true, if_false]
  cases s with
  | nil => rfl
  | cons b0 t =>
    simp only []
    rw [quoteScan_eq]
    cases C03.scanLoop isPrint (fun r => allowedInBareword isPrint r strictExpr) (runes (b0 :: t))
        (b0 != 126) with
    | none => simp only [quoteDouble_eq]; rfl
    | some bare =>
      cases bare
      · simp only [Bool.and_false, Bool.false_eq_true, if_false, quoteSingle_eq]; rfl
      · simp only [show (Bareword == Bareword) = true by decide, Bool.and_self, if_true]; rfl

end C04
