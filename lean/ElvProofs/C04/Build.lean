/-
C04: node builders (`addSep`, `parseSep`, `parseSpacesInner`, `wrap`) step by
step, tracking the children that are not `Sep` nodes, and the evaluation
functions on such child lists.
-/
import ElvProofs.C04.Step
namespace C04
open Go C01 C08 Gen.C01Chars

def nonSep (n : Node) : Bool := n.kind != .sep

/-- the children that are not separators -/
def real (nb : NB) : List Node := nb.children.filter nonSep

/-- same node under construction up to separator children -/
structure Same (nb nb' : NB) : Prop where
  frm : nb'.frm = nb.frm
  f : nb'.f = nb.f
  real : real nb' = real nb

theorem Same.rfl' (nb : NB) : Same nb nb := ⟨rfl, rfl, rfl⟩
theorem Same.trans {a b c : NB} (h1 : Same a b) (h2 : Same b c) : Same a c :=
  ⟨h2.frm.trans h1.frm, h2.f.trans h1.f, h2.real.trans h1.real⟩

theorem real_add_sep (nb : NB) (a b : Nat) (t : Bytes) (f : Fields) (cs : List Node) :
    real (nb.add (.mk .sep a b t f cs)) = real nb := by
  simp [real, NB.add, List.filter_append, nonSep, Node.kind]

theorem real_add (nb : NB) (n : Node) (h : n.kind ≠ .sep) : real (nb.add n) = real nb ++ [n] := by
  simp [real, NB.add, List.filter_append, nonSep, h]

section
variable {e : Env} {s : St}

theorem addSep_ok (nb : NB) (h : Inv e s) : ∃ nb', addSep nb e s = .ok nb' s ∧ Same nb nb' := by
  unfold addSep
  simp only [bind_of_eq (getPos_eq e s)]
  split
  · next hlt =>
    rw [bind_of_eq (sliceSrc_eq (Nat.le_of_lt hlt) h.le)]
    exact ⟨_, rfl, rfl, rfl, real_add_sep _ _ _ _ _ _⟩
  · exact ⟨nb, rfl, Same.rfl' nb⟩

theorem parseSep_yes (nb : NB) {c : UInt8} {t : Bytes} (h : At e s (c :: t)) (hc : c.toNat < 128)
    (sep : Int) (hs : (c.toNat : Int) = sep) :
    ∃ nb', parseSep nb sep e s = .ok (true, nb') (adv s 1) ∧ Same nb nb' := by
  unfold parseSep
  rw [bind_of_eq (h.peek_cons hc)]
  simp only [hs, beq_self_eq_true, if_true]
  rw [bind_of_eq (h.next_cons hc)]
  obtain ⟨nb', h1, h2⟩ := addSep_ok nb (h.step hc).inv
  rw [bind_of_eq h1]
  exact ⟨nb', rfl, h2⟩

theorem parseSep_no (nb : NB) {r : Bytes} (h : At e s r) (sep : Int)
    (hs : headRune r ≠ sep) : parseSep nb sep e s = .ok (false, nb) s := by
  unfold parseSep
  rw [bind_of_eq h.peek_head]
  simp [hs]

theorem At.length_le {t r : Bytes} (h : At e s (t ++ r)) : t.length ≤ e.src.length := by
  have := congrArg List.length h.rest
  simp at this
  omega

theorem parseSpacesInner_ok (nb : NB) (nl : Bool) {w r : Bytes} (h : At e s (w ++ r))
    (hw : ∀ c ∈ w, IsWs nl c) (hs : StopSp nl r) :
    ∃ nb', parseSpacesInner nb nl e s = .ok nb' (adv s w.length) ∧ Same nb nb' := by
  unfold parseSpacesInner
  rw [bind_of_eq (loopFuel_eq e s)]
  have hlen := h.length_le
  rw [bind_of_eq (spacesLoop_ws nl w _ s r h hw hs (by omega))]
  have hasc : ∀ c ∈ w, c.toNat < 128 := by
    intro c hc
    rcases hw c hc with rfl | rfl | ⟨_, rfl⟩ <;> decide
  exact addSep_ok nb (h.steps hasc).inv

theorem wrap_ok {rec : NT → M Node} {nt : NT} {nb : NB} {s' : St} (h' : Inv e s')
    (hb : body rec nt { frm := s.pos, f := nt.init, children := [] } e s = .ok nb s')
    (hfrm : nb.frm ≤ s'.pos) :
    ∃ txt, wrap rec nt e s = .ok (.mk nt.kind nb.frm s'.pos txt nb.f nb.children) s' := by
  unfold wrap
  rw [bind_of_eq (getPos_eq e s), bind_of_eq hb, bind_of_eq (getPos_eq e s'),
    bind_of_eq (sliceSrc_eq hfrm h'.le)]
  exact ⟨_, rfl⟩

end

/-! ### evaluation ignores separators -/

theorem beq_sep_true {k : Kind} (h : k = .sep) : (k == Kind.sep) = true := by simp [h]
theorem beq_sep_false {k : Kind} (h : k ≠ .sep) : (k == Kind.sep) = false := by simp [h]

theorem filter_cons_sep {n : Node} (cs : List Node) (h : n.kind = .sep) :
    List.filter nonSep (n :: cs) = List.filter nonSep cs := by
  simp [List.filter_cons, nonSep, h]
theorem filter_cons_nonsep {n : Node} (cs : List Node) (h : n.kind ≠ .sep) :
    List.filter nonSep (n :: cs) = n :: List.filter nonSep cs := by
  simp [List.filter_cons, nonSep, h]

theorem allSep_filter : ∀ cs : List Node, allSep cs = (cs.filter nonSep).isEmpty
  | [] => rfl
  | n :: cs => by
    by_cases h : n.kind = .sep
    · rw [filter_cons_sep cs h, allSep, beq_sep_true h, allSep_filter cs]; rfl
    · rw [filter_cons_nonsep cs h, allSep, beq_sep_false h]; rfl

theorem evalSingle_filter : ∀ cs : List Node, evalSingle cs = evalSingle (cs.filter nonSep)
  | [] => rfl
  | n :: cs => by
    rw [evalSingle]
    by_cases h : n.kind = .sep
    · rw [filter_cons_sep cs h, if_pos (beq_sep_true h)]
      exact evalSingle_filter cs
    · rw [filter_cons_nonsep cs h, evalSingle, beq_sep_false h]
      simp only [Bool.false_eq_true, if_false, allSep_filter, List.filter_filter, Bool.and_self]

theorem evalAll_filter : ∀ cs : List Node, evalAll cs = evalAll (cs.filter nonSep)
  | [] => rfl
  | n :: cs => by
    rw [evalAll]
    by_cases h : n.kind = .sep
    · rw [filter_cons_sep cs h, if_pos (beq_sep_true h)]
      exact evalAll_filter cs
    · rw [filter_cons_nonsep cs h, evalAll, beq_sep_false h]
      simp only [Bool.false_eq_true, if_false, evalAll_filter cs]

theorem evalPairs_filter : ∀ cs : List Node, evalPairs cs = evalPairs (cs.filter nonSep)
  | [] => rfl
  | .mk kind a b t f pcs :: cs => by
    rw [evalPairs]
    by_cases h : kind = .sep
    · rw [filter_cons_sep cs (by exact h), if_pos (beq_sep_true h)]
      exact evalPairs_filter cs
    · rw [filter_cons_nonsep cs (by exact h), evalPairs, beq_sep_false h]
      simp only [Bool.false_eq_true, if_false, evalPairs_filter cs]

/-- one real child -/
theorem evalSingle_one (n : Node) (h : n.kind ≠ .sep) : evalSingle [n] = evalNode n := by
  rw [evalSingle]
  simp [h, allSep]

theorem evalAll_append_one : ∀ (cs : List Node) (n : Node) (vs : List Val) (v : Val),
    evalAll cs = some vs → n.kind ≠ .sep → evalNode n = some v → evalAll (cs ++ [n]) = some (vs ++ [v])
  | [], n, vs, v, h, hk, hv => by
    simp only [evalAll, Option.some.injEq] at h
    subst h
    rw [List.nil_append, evalAll]
    simp [hk, hv, evalAll]
  | c :: cs, n, vs, v, h, hk, hv => by
    rw [evalAll] at h
    rw [List.cons_append, evalAll]
    split
    · next hs =>
      rw [if_pos hs] at h
      exact evalAll_append_one cs n vs v h hk hv
    · next hs =>
      rw [if_neg hs] at h
      cases hc : evalNode c with
      | none => simp [hc] at h
      | some vc =>
        cases hr : evalAll cs with
        | none => simp [hc, hr] at h
        | some vr =>
          simp only [hc, hr, Option.some.injEq] at h
          subst h
          rw [evalAll_append_one cs n vr v hr hk hv]
          rfl

theorem evalPairs_append_one : ∀ (cs : List Node) (a b : Nat) (t : Bytes) (f : Fields) (pcs : List Node)
    (ps : List (Val × Val)) (k v : Val),
    evalPairs cs = some ps → evalAll pcs = some [k, v] →
    evalPairs (cs ++ [.mk .mapPair a b t f pcs]) = some (ps ++ [(k, v)])
  | [], a, b, t, f, pcs, ps, k, v, h, hp => by
    simp only [evalPairs, Option.some.injEq] at h
    subst h
    rw [List.nil_append, evalPairs]
    simp [hp, evalPairs]
  | .mk kind a' b' t' f' cs' :: cs, a, b, t, f, pcs, ps, k, v, h, hp => by
    rw [evalPairs] at h
    rw [List.cons_append, evalPairs]
    by_cases hs : (kind == .sep) = true
    · rw [if_pos hs] at h ⊢
      exact evalPairs_append_one cs a b t f pcs ps k v h hp
    · rw [if_neg hs] at h ⊢
      by_cases hm : (kind == .mapPair) = true
      · rw [if_pos hm] at h ⊢
        cases hr : evalPairs cs with
        | none => rw [hr] at h; split at h <;> simp_all
        | some pr =>
          rw [hr] at h
          rw [evalPairs_append_one cs a b t f pcs pr k v hr hp]
          split at h
          · next k' v' ps' h1 h2 =>
            simp only [Option.some.injEq] at h h2
            subst h2; subst h
            rw [h1]; rfl
          · cases h
      · rw [if_neg hm] at h; cases h

end C04
