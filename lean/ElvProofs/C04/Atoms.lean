/-
C04: `$nil`, `$true`, `$false`, and what is assumed / proved of quoted strings.
-/
import ElvProofs.C04.Num
namespace C04
open Go C01 C08 Gen.C01Chars

section
variable {e : Env}

theorem starts_dollar (isPrint : Int → Bool) (ctx : Int) (t : Bytes) : Starts isPrint ctx (36 :: t) := by
  refine ⟨by simp, fun r => ?_, fun r => ?_⟩
  · rw [List.cons_append, headRune_ascii _ (by decide)]; simp [startsPrimary]
  · rw [List.cons_append, headRune_ascii _ (by decide)]; decide

theorem var_prim {ctx : Int} {name : Bytes} {c0 : UInt8} {name' : Bytes} (hn : name = c0 :: name')
    (hname : AllAscii (allowedInVariableName e.isPrint) name) (val : Val)
    (hval : ∀ a b t, evalNode (.mk .primary a b t { ctx := ctx, ptype := Variable, value := name } []) = some val) :
    PrimOK e ctx (dollar name) val := by
  intro fuel s r hf h hstop
  obtain ⟨f, rfl⟩ : ∃ f, fuel = f + 1 := ⟨fuel - 1, by simp [dollar] at hf; omega⟩
  have h' : At e s ((36 :: name) ++ r) := h
  have hend : At e (adv s (36 :: name).length) r := by
    refine At.steps h' ?_
    intro c hc
    rcases List.mem_cons.1 hc with rfl | hc
    · decide
    · exact (hname c hc).1
  have hb := variable_body (rec := fun nt' => parseNT f nt')
    { frm := s.pos, f := (NT.primary ctx).init, children := [] } hn hname h' hstop rfl
  obtain ⟨txt, hw⟩ := prim_wrap (ctx := ctx) (fuel := f) (by simpa using hend.inv) hb (by simp)
  refine ⟨_, by simpa [dollar] using hw, rfl, ?_⟩
  exact hval _ _ _

theorem varname_ascii (isPrint : Int → Bool) (name : Bytes) (h : ∀ c ∈ name, 97 ≤ c.toNat ∧ c.toNat ≤ 122) :
    AllAscii (allowedInVariableName isPrint) name := by
  intro c hc
  obtain ⟨h1, h2⟩ := h c hc
  refine ⟨by omega, ?_⟩
  have a1 : (97 : Int) ≤ (c.toNat : Int) := by omega
  have a2 : (c.toNat : Int) ≤ 122 := by omega
  simp [allowedInVariableName, a1, a2]

theorem nil_ok (L : Lib) (fixed : Bool) (ctx : Int) (indent : Int) :
    PrimOK e ctx (repr L fixed .nil indent) (canon L .nil) ∧ Starts e.isPrint ctx (repr L fixed .nil indent) := by
  simp only [repr, canon, dollar]
  refine ⟨?_, starts_dollar _ _ _⟩
  refine var_prim (name := nameNil) (c0 := 110) (name' := [105, 108]) rfl
    (varname_ascii _ _ (by decide)) .nil ?_
  intro a b t; rw [evalNode_primary]; rfl

theorem bool_ok (L : Lib) (fixed : Bool) (b : Bool) (ctx : Int) (indent : Int) :
    PrimOK e ctx (repr L fixed (.bool b) indent) (canon L (.bool b)) ∧
    Starts e.isPrint ctx (repr L fixed (.bool b) indent) := by
  cases b with
  | true =>
    simp only [repr, canon, dollar, if_true]
    refine ⟨?_, starts_dollar _ _ _⟩
    refine var_prim (name := nameTrue) (c0 := 116) (name' := [114, 117, 101]) rfl
      (varname_ascii _ _ (by decide)) (.bool true) ?_
    intro a b t; rw [evalNode_primary]; rfl
  | false =>
    simp only [repr, canon, dollar, Bool.false_eq_true, if_false]
    refine ⟨?_, starts_dollar _ _ _⟩
    refine var_prim (name := nameFalse) (c0 := 102) (name' := [97, 108, 115, 101]) rfl
      (varname_ascii _ _ (by decide)) (.bool false) ?_
    intro a b t; rw [evalNode_primary]; rfl

/-- The string leaf (what C03 is about): `parse.Quote s` is read back, as one
primary with value `s`, as a list element / map value (`NormalExpr`) and as a
map key (`LHSExpr`). -/
structure StrOK (e : Env) (s : Bytes) : Prop where
  normal : PrimOK e NormalExpr (quote e.isPrint s) (.str s) ∧ Starts e.isPrint NormalExpr (quote e.isPrint s)
  lhs : PrimOK e LHSExpr (quote e.isPrint s) (.str s) ∧ Starts e.isPrint LHSExpr (quote e.isPrint s)

end
end C04
