/-
C04: `(num LIT)` — the text of a number is one bareword, the capture
evaluates to what `ParseNum` makes of it, and C05's round-trip theorems say
what that is.
-/
import ElvProofs.C04.Cmd
import ElvProofs.C05
import ElvModel.C04.Spec
namespace C04
open Go C01 C08 Gen.C01Chars

theorem allowedInBareword_ascii (isPrint : Int → Bool) (r ctx : Int) (h : r < 128) :
    allowedInBareword isPrint r ctx = allowedInBareword (fun _ => false) r ctx := by
  have : decide (r ≥ 128) = false := by simp; omega
  simp [allowedInBareword, allowedInVariableName, this]

theorem numByte_facts_aux : ∀ c : UInt8, numByteOK c = true →
    c.toNat < 128 ∧ allowedInBareword (fun _ => false) (c.toNat : Int) NormalExpr = true ∧ c ≠ 126 := by
  apply C05.forall_uint8; decide +kernel

theorem numByte_facts (isPrint : Int → Bool) (c : UInt8) (h : numByteOK c = true) :
    c.toNat < 128 ∧ allowedInBareword isPrint (c.toNat : Int) NormalExpr = true ∧ c ≠ 126 := by
  obtain ⟨h1, h2, h3⟩ := numByte_facts_aux c h
  exact ⟨h1, by rw [allowedInBareword_ascii _ _ _ (by omega)]; exact h2, h3⟩

/-- a number text -/
structure NumText (t : Bytes) : Prop where
  ne : t ≠ []
  ok : ∀ c ∈ t, numByteOK c = true

theorem numText_of_bool {t : Bytes} (h : numTextOK t = true) : NumText t := by
  simp only [numTextOK, Bool.and_eq_true, Bool.not_eq_true', List.isEmpty_eq_false_iff, List.all_eq_true] at h
  exact ⟨h.1, h.2⟩

theorem cmdNum_ascii (isPrint : Int → Bool) :
    AllAscii (fun c => allowedInBareword isPrint c CmdExpr) cmdNum := by
  intro c hc
  simp only [cmdNum, List.mem_cons, List.not_mem_nil, or_false] at hc
  rcases hc with rfl | rfl | rfl <;> simp [allowedInBareword, allowedInVariableName]

theorem cmdPut_ascii (isPrint : Int → Bool) :
    AllAscii (fun c => allowedInBareword isPrint c CmdExpr) cmdPut := by
  intro c hc
  simp only [cmdPut, List.mem_cons, List.not_mem_nil, or_false] at hc
  rcases hc with rfl | rfl | rfl <;> simp [allowedInBareword, allowedInVariableName]

section
variable {e : Env}

theorem numText_comp {t : Bytes} (ht : NumText t) :
    CompOK e NormalExpr t (.str t) ∧ Starts e.isPrint NormalExpr t := by
  obtain ⟨c0, t', rfl⟩ : ∃ c0 t', t = c0 :: t' := by
    cases t with
    | nil => exact absurd rfl ht.ne
    | cons c t' => exact ⟨c, t', rfl⟩
  have hall : AllAscii (fun c => allowedInBareword e.isPrint c NormalExpr) (c0 :: t') := by
    intro c hc
    have := numByte_facts e.isPrint c (ht.ok c hc)
    exact ⟨this.1, this.2.1⟩
  have hne : c0 ≠ 126 := (numByte_facts e.isPrint c0 (ht.ok c0 List.mem_cons_self)).2.2
  have hs := starts_bareword (e := e) rfl hall hne
  exact ⟨comp_of_prim (prim_bareword rfl hall) hs, hs⟩

theorem starts_paren (isPrint : Int → Bool) (ctx : Int) (t : Bytes) : Starts isPrint ctx (40 :: t) := by
  refine ⟨by simp, fun r => ?_, fun r => ?_⟩
  · rw [List.cons_append, headRune_ascii _ (by decide)]; simp [startsPrimary]
  · rw [List.cons_append, headRune_ascii _ (by decide)]; decide

/-- `(num LIT)` is a primary whose value is `ParseNum LIT` -/
theorem num_prim {ctx : Int} {t : Bytes} (ht : NumText t) (x : C05.Num) (hx : C05.parseNum t = some x) :
    PrimOK e ctx (numLit t) (numToVal x) := by
  intro fuel s r hf h hstop
  obtain ⟨hc, hs⟩ := numText_comp (e := e) ht
  have hlen : (numLit t).length = cmdNum.length + t.length + 3 := by simp [numLit, cmdNum]; omega
  have h' : At e s ((40 :: (cmdNum ++ 32 :: (t ++ [41]))) ++ r) := h
  obtain ⟨n, hn, hk, hv⟩ := capture_ok (ctx := ctx) (cmd := cmdNum) (c0 := 110) (cmd' := [117, 109]) rfl
    (cmdNum_ascii e.isPrint) (by decide) (by decide) (by decide) hc hs fuel
    (by rw [hlen] at hf; simp [cmdNum] at hf ⊢; omega) h' hstop
  rw [← hlen] at hn
  refine ⟨n, hn, hk, ?_⟩
  rw [hv]
  simp [formValue, cmdNum, cmdPut, hx]

end

/-! ### the texts of exact numbers -/

theorem numText_natToDec (n : Nat) : NumText (C05.natToDec n) := by
  refine ⟨C05.natToDec_ne_nil n, fun c hc => ?_⟩
  have := C05.natToDec_dec n c hc
  unfold C05.IsDecByte at this
  simp only [numByteOK, Bool.or_eq_true, Bool.and_eq_true, decide_eq_true_eq]
  refine Or.inl (Or.inl (Or.inl (Or.inl (Or.inl (Or.inl (Or.inl ⟨?_, ?_⟩))))))
  · exact UInt8.le_iff_toNat_le.2 (by simpa using this.1)
  · exact UInt8.le_iff_toNat_le.2 (by simpa using this.2)

theorem NumText.cons {c : UInt8} {t : Bytes} (hc : numByteOK c = true) (ht : ∀ c ∈ t, numByteOK c = true) :
    NumText (c :: t) :=
  ⟨by simp, fun c' h' => by rcases List.mem_cons.1 h' with rfl | h'; exact hc; exact ht c' h'⟩

theorem numText_intToDec (z : Int) : NumText (C05.intToDec z) := by
  unfold C05.intToDec
  split
  · exact NumText.cons (by decide) (numText_natToDec _).ok
  · exact numText_natToDec _

theorem numText_ratToString (q : Rat) : NumText (C05.ratToString q) := by
  unfold C05.ratToString
  refine ⟨by have := (numText_intToDec q.num).ne; simp [this], fun c hc => ?_⟩
  rcases List.mem_append.1 hc with h | h
  · exact (numText_intToDec _).ok c h
  · rcases List.mem_cons.1 h with rfl | h
    · decide
    · exact (numText_natToDec _).ok c h

/-- what is assumed of strconv for one float: C05's hypothesis (the two shortest
formats have the documented shapes and parse back to the same bits) and that
elvish's `formatFloat64` of them is made of number bytes. -/
structure FloatOK (L : Lib) (b : UInt64) : Prop where
  strconv : C05.strconvOKAt L.fmt b.toNat = true
  text : NumText (C05.formatFloat64 L.fmt b.toNat)

/-- numbers in the representation elvish itself uses (C05's `CanonicalExact`),
floats with the library hypothesis -/
theorem floatOK_of_bool {L : Lib} {b : UInt64} (h : floatHypOK L b = true) : FloatOK L b := by
  simp only [floatHypOK, Bool.and_eq_true] at h
  exact ⟨h.1, numText_of_bool h.2⟩

theorem numByteOK_of_isNumByte : ∀ c : UInt8, C05.isNumByte c = true → numByteOK c = true := by
  apply C05.forall_uint8; decide +kernel

/-- the alphabet of `formatFloat64`'s output is not a separate hypothesis: under
C05's `strconvOKAt` the text is accepted by `ParseNum` (`C05_float_roundtrip`),
and everything `ParseNum` accepts is written in the number alphabet
(`C05.parseNum_all`). -/
theorem numText_of_strconv {L : Lib} {b : UInt64} (h : C05.strconvOKAt L.fmt b.toNat = true) :
    NumText (C05.formatFloat64 L.fmt b.toNat) := by
  have hrt := C05_float_roundtrip L.fmt b.toNat b.toNat_lt h
  simp only [C05.toString] at hrt
  refine ⟨?_, fun c hc => numByteOK_of_isNumByte c (C05.numByte_isNumByte c (C05.parseNum_all hrt c hc))⟩
  intro hnil
  rw [hnil, C05_reject_empty] at hrt
  cases hrt

theorem floatOK_of_strconv {L : Lib} {b : UInt64} (h : C05.strconvOKAt L.fmt b.toNat = true) : FloatOK L b :=
  ⟨h, numText_of_strconv h⟩

/-- C04's float hypothesis is C05's `strconvOKAt`, nothing more. -/
theorem floatHypOK_eq_strconv (L : Lib) (b : UInt64) : floatHypOK L b = C05.strconvOKAt L.fmt b.toNat := by
  unfold floatHypOK
  cases h : C05.strconvOKAt L.fmt b.toNat with
  | false => rfl
  | true =>
    have ht := numText_of_strconv h
    have : numTextOK (C05.formatFloat64 L.fmt b.toNat) = true := by
      simp only [numTextOK, Bool.and_eq_true, Bool.not_eq_true', List.isEmpty_eq_false_iff, List.all_eq_true]
      exact ⟨ht.ne, ht.ok⟩
    rw [this]; rfl

def NumGood (L : Lib) : Val → Prop
  | .int i => C05.fitsInt i = true
  | .bigint i => C05.fitsInt i = false
  | .rat q => q.den ≠ 1
  | .float b => FloatOK L b
  | _ => False

theorem isNaN_eq (b : UInt64) : C05.isNaN b.toNat = F64.isNaN b := by
  simp only [C05.isNaN, F64.isNaN, F64.mag, C05.signBit, F64.expInf]
  exact decide_eq_decide.2 (by omega)

theorem num_ok {e : Env} (L : Lib) (fixed : Bool) (v : Val) (hv : NumGood L v) (ctx : Int) (indent : Int) :
    PrimOK e ctx (repr L fixed v indent) (canon L v) ∧ Starts e.isPrint ctx (repr L fixed v indent) := by
  cases v with
  | int i =>
    simp only [NumGood] at hv
    refine ⟨?_, by simp only [repr, numLit]; exact starts_paren _ _ _⟩
    have := num_prim (e := e) (ctx := ctx) (numText_intToDec i) (.int i)
      (by rw [C05.parseNum_intToDec, C05.normalizeBigInt, if_pos hv])
    simpa [repr, canon, numToVal, C05.fromGo] using this
  | bigint i =>
    simp only [NumGood] at hv
    refine ⟨?_, by simp only [repr, numLit]; exact starts_paren _ _ _⟩
    have := num_prim (e := e) (ctx := ctx) (numText_intToDec i) (.big i)
      (by rw [C05.parseNum_intToDec, C05.normalizeBigInt, if_neg (by simp [hv])])
    simpa [repr, canon, numToVal, C05.fromGo, C05.normalizeBigInt, hv] using this
  | rat q =>
    simp only [NumGood] at hv
    refine ⟨?_, by simp only [repr, numLit]; exact starts_paren _ _ _⟩
    have := num_prim (e := e) (ctx := ctx) (numText_ratToString q) (.rat q)
      (by rw [C05.parseNum_ratToString, C05.normalizeBigRat, if_neg hv])
    simpa [repr, canon, numToVal, C05.fromGo, C05.normalizeBigRat, hv] using this
  | float b =>
    simp only [NumGood] at hv
    refine ⟨?_, by simp only [repr, numLit]; exact starts_paren _ _ _⟩
    have hrt := C05_float_roundtrip L.fmt b.toNat b.toNat_lt hv.strconv
    simp only [C05.toString] at hrt
    have := num_prim (e := e) (ctx := ctx) hv.text _ hrt
    simp only [repr, canon, canonFloat]
    have hval : numToVal (.float (if C05.isNaN b.toNat = true then C05.nanBits else b.toNat)) =
        .float (if F64.isNaN b = true then UInt64.ofNat C05.nanBits else b) := by
      rw [isNaN_eq]
      by_cases hn : F64.isNaN b = true <;> simp [numToVal, C05.fromGo, hn]
    rw [hval] at this
    exact this
  | nil => exact absurd hv (by simp [NumGood])
  | bool _ => exact absurd hv (by simp [NumGood])
  | str _ => exact absurd hv (by simp [NumGood])
  | list _ => exact absurd hv (by simp [NumGood])
  | map _ _ => exact absurd hv (by simp [NumGood])
  | ref _ _ => exact absurd hv (by simp [NumGood])

end C04
