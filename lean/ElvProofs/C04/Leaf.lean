/-
C04: leaf primaries — `$name` variables and ASCII barewords.
-/
import ElvProofs.C04.Gram
namespace C04
open Go C01 C08 Gen.C01Chars

theorem srcSlice_mid {src : Bytes} {p : Nat} {a b c : Bytes} (h : src.drop p = a ++ b ++ c) :
    srcSlice src (p + a.length) (p + a.length + b.length) = b := by
  unfold srcSlice
  rw [← List.drop_drop, h, List.append_assoc, List.drop_left]
  simp

theorem evalNode_primary (a b : Nat) (t : Bytes) (f : Fields) (cs : List Node) :
    evalNode (.mk .primary a b t f cs) =
    if f.ptype == Bareword || f.ptype == SingleQuoted || f.ptype == DoubleQuoted then some (.str f.value)
    else if f.ptype == Variable then
      if f.value == nameNil then some .nil
      else if f.value == nameTrue then some (.bool true)
      else if f.value == nameFalse then some (.bool false)
      else none
    else if f.ptype == OutputCapture then evalSingle cs
    else if f.ptype == ListPrimary then (evalAll cs).map .list
    else if f.ptype == MapPrimary then (evalPairs cs).map fun ps => .map false (assocAll ps [])
    else none := by rw [evalNode]

theorem evalNode_primary_capture (a b : Nat) (t : Bytes) (f : Fields) (cs : List Node)
    (h : f.ptype = OutputCapture) : evalNode (.mk .primary a b t f cs) = evalSingle cs := by
  rw [evalNode_primary, h]; rfl
theorem evalNode_primary_list (a b : Nat) (t : Bytes) (f : Fields) (cs : List Node)
    (h : f.ptype = ListPrimary) : evalNode (.mk .primary a b t f cs) = (evalAll cs).map .list := by
  rw [evalNode_primary, h]; rfl
theorem evalNode_primary_map (a b : Nat) (t : Bytes) (f : Fields) (cs : List Node)
    (h : f.ptype = MapPrimary) :
    evalNode (.mk .primary a b t f cs) = (evalPairs cs).map fun ps => .map false (assocAll ps []) := by
  rw [evalNode_primary, h]; rfl

/-- ASCII bytes all satisfying a rune predicate -/
def AllAscii (p : Int → Bool) (t : Bytes) : Prop := ∀ c ∈ t, c.toNat < 128 ∧ p (c.toNat : Int) = true

theorem notVarName_of_stop {isPrint : Int → Bool} {ctx : Int} {r : Bytes}
    (h : startsPrimary isPrint (headRune r) ctx = false) :
    allowedInVariableName isPrint (headRune r) = false := by
  simp only [startsPrimary, allowedInBareword, Bool.or_eq_false_iff] at h
  exact h.1.1.1.1.1.2.1.1.1.1.1.1.1.1.1.1

theorem notBareword_of_stop {isPrint : Int → Bool} {ctx : Int} {r : Bytes}
    (h : startsPrimary isPrint (headRune r) ctx = false) :
    allowedInBareword isPrint (headRune r) ctx = false := by
  simp only [startsPrimary, Bool.or_eq_false_iff] at h
  exact h.1.1.1.1.1.2

section
variable {e : Env} {s : St}

/-- the wrapper for a primary whose body is known -/
theorem prim_wrap {ctx : Int} {fuel : Nat} {nb : NB} {s' : St} (hi' : Inv e s')
    (hb : primaryBody (fun nt' => parseNT fuel nt') { frm := s.pos, f := (NT.primary ctx).init, children := [] } e s = .ok nb s')
    (hfrm : nb.frm ≤ s'.pos) :
    ∃ txt, parseNT (fuel + 1) (.primary ctx) e s = .ok (.mk .primary nb.frm s'.pos txt nb.f nb.children) s' :=
  wrap_ok (rec := fun nt' => parseNT fuel nt') (nt := .primary ctx) hi' hb hfrm

/-- `$name` for an ASCII variable name: the body -/
theorem variable_body {rec : NT → M Node} (nb : NB) {name r : Bytes} {c0 : UInt8} {name' : Bytes} (hn : name = c0 :: name')
    (hname : AllAscii (allowedInVariableName e.isPrint) name)
    (h : At e s ((36 :: name) ++ r)) (hstop : Stop e.isPrint nb.f.ctx r) (hfrm : nb.frm = s.pos) :
    primaryBody rec nb e s = .ok ((nb.setType Variable).setValue name) (adv s (name.length + 1)) := by
  subst hn
  have hc0 := hname c0 List.mem_cons_self
  have h1 : At e (adv s 1) ((c0 :: name') ++ r) := At.step (t := (c0 :: name') ++ r) h (by decide)
  have h2 : At e (adv (adv s 1) 1) (name' ++ r) := At.step (t := name' ++ r) h1 hc0.1
  have hall : ∀ c ∈ name', c.toNat < 128 := fun c hc => (hname c (List.mem_cons_of_mem _ hc)).1
  have h3 : At e (adv s (name'.length + 2)) r := by
    have := h2.steps hall
    simpa [Nat.add_comm] using this
  have hlen := At.length_le (t := 36 :: c0 :: name') (r := r) h
  unfold primaryBody
  rw [bind_of_eq (getEnv_eq _ _), bind_of_eq (At.peek_cons (t := (c0 :: name') ++ r) h (by decide))]
  have e1 : startsPrimary e.isPrint (((36 : UInt8).toNat : Nat) : Int) nb.f.ctx = true := by
    simp [startsPrimary]
  have e2 : allowedInBareword e.isPrint (((36 : UInt8).toNat : Nat) : Int) nb.f.ctx = false := by
    simp [allowedInBareword, allowedInVariableName]
  simp only [e1, e2, Bool.not_true, Bool.false_eq_true, if_false]
  rw [if_neg (by decide), if_neg (by decide), if_pos (by decide)]
  unfold variableP
  rw [bind_of_eq (getEnv_eq _ _), bind_of_eq (At.next_cons (t := (c0 :: name') ++ r) h (by decide)),
    bind_of_eq (At.next_cons (t := name' ++ r) h1 hc0.1)]
  have n1 : ¬ ((c0.toNat : Int) == eof) = true := by simp [eof]
  have hv := hc0.2
  rw [if_neg n1]
  by_cases q1 : (c0.toNat : Int) = 39
  · rw [q1] at hv; simp [allowedInVariableName] at hv
  by_cases q2 : (c0.toNat : Int) = 34
  · rw [q2] at hv; simp [allowedInVariableName] at hv
  rw [if_neg (by simpa using q1), if_neg (by simpa using q2)]
  simp only [hv, Bool.not_true, Bool.false_and, Bool.false_eq_true, if_false]
  rw [bind_of_eq (pure_apply _ _ _), bind_of_eq (loopFuel_eq _ _)]
  have hsk := skipWhile_ascii (e := e) (allowedInVariableName e.isPrint) name' (e.src.length + 2) (adv (adv s 1) 1) r
    h2 (fun c hc => hname c (List.mem_cons_of_mem _ hc))
    (notVarName_of_stop hstop.notStart) (by simp at hlen; omega)
  rw [bind_of_eq hsk, bind_of_eq (getPos_eq _ _)]
  have hsl : srcSlice e.src (s.pos + 1) (s.pos + 1 + (c0 :: name').length) = c0 :: name' :=
    srcSlice_mid (a := [36]) (b := c0 :: name') (c := r) (by simpa using h.rest)
  simp only [NB.setType_frm, hfrm]
  rw [bind_of_eq (sliceSrc_eq (a := s.pos + 1) (by simp; omega) (by simp; have := h3.inv.le; simp at this; omega))]
  simp only [adv_pos, adv_adv]
  have : s.pos + (1 + 1 + name'.length) = s.pos + 1 + (c0 :: name').length := by simp; omega
  rw [this, hsl]
  simp [adv, Nat.add_comm, Nat.add_left_comm]

@[simp] theorem setType_ctx (nb : NB) (t : Int) : (nb.setType t).f.ctx = nb.f.ctx := rfl

theorem startsPrimary_of_bareword {isPrint : Int → Bool} {c ctx : Int}
    (h : allowedInBareword isPrint c ctx = true) : startsPrimary isPrint c ctx = true := by
  simp [startsPrimary, h]

/-- an ASCII bareword: the body -/
theorem bareword_body {rec : NT → M Node} (nb : NB) {t r : Bytes} {c0 : UInt8} {t' : Bytes} (ht : t = c0 :: t')
    (hall : AllAscii (fun c => allowedInBareword e.isPrint c nb.f.ctx) t)
    (h : At e s (t ++ r)) (hstop : Stop e.isPrint nb.f.ctx r) (hfrm : nb.frm = s.pos) :
    primaryBody rec nb e s = .ok ((nb.setType Bareword).setValue t) (adv s t.length) := by
  have hc0 := hall c0 (by rw [ht]; exact List.mem_cons_self)
  have hlen := At.length_le h
  have hend : At e (adv s t.length) r := h.steps (fun c hc => (hall c hc).1)
  unfold primaryBody
  have h' : At e s (c0 :: (t' ++ r)) := by rw [ht] at h; exact h
  rw [bind_of_eq (getEnv_eq _ _), bind_of_eq (h'.peek_cons hc0.1)]
  simp only [startsPrimary_of_bareword hc0.2, hc0.2, Bool.not_true, Bool.false_eq_true, if_false, if_true]
  unfold bareword
  rw [bind_of_eq (getEnv_eq _ _), bind_of_eq (loopFuel_eq _ _)]
  have hsk := skipWhile_ascii (e := e) (fun c => allowedInBareword e.isPrint c nb.f.ctx) t (e.src.length + 2) s r
    h hall (notBareword_of_stop hstop.notStart) (by omega)
  simp only [setType_ctx]
  rw [bind_of_eq hsk, bind_of_eq (getPos_eq _ _)]
  have hsl : srcSlice e.src (s.pos + 0) (s.pos + 0 + t.length) = t :=
    srcSlice_mid (a := []) (b := t) (c := r) (by simpa using h.rest)
  simp only [NB.setType_frm, hfrm]
  rw [bind_of_eq (sliceSrc_eq (a := s.pos) (by simp) (by have := hend.inv.le; simpa using this))]
  simp only [Nat.add_zero] at hsl
  simp only [adv_pos, hsl]
  rfl

/-! ### single-quoted ASCII strings -/

/-- `'` doubled -/
def dbl : Bytes → Bytes
  | [] => []
  | c :: t => if c = 39 then 39 :: 39 :: dbl t else c :: dbl t

theorem writeRune_ascii (c : UInt8) (hc : c.toNat < 128) : C01.writeRune (c.toNat : Int) = [c] := by
  unfold C01.writeRune
  rw [if_neg (by omega)]
  simp [encodeRune, hc]

theorem singleQuotedLoop_ascii : ∀ (u : Bytes) (n : Nat) (buf : Bytes) (s : St) (r : Bytes),
    At e s (dbl u ++ 39 :: r) → (∀ c ∈ u, c.toNat < 128) → headRune r ≠ 39 →
    (dbl u).length + 1 < n →
    singleQuotedLoop n buf e s = .ok (buf ++ u) (adv s ((dbl u).length + 1))
  | [], n + 1, buf, s, r, h, _, hne, _ => by
    have h' : At e s (39 :: r) := h
    unfold singleQuotedLoop
    rw [bind_of_eq (h'.next_cons (by decide))]
    rw [if_neg (by decide), if_pos (by decide), bind_of_eq (h'.step (by decide)).peek_head]
    simp [hne, dbl]
  | c :: u, n + 1, buf, s, r, h, hc, hne, hn => by
    have hc0 : c.toNat < 128 := hc c List.mem_cons_self
    have hcu : ∀ c' ∈ u, c'.toNat < 128 := fun c' h' => hc c' (List.mem_cons_of_mem _ h')
    unfold singleQuotedLoop
    by_cases h39 : c = 39
    · subst h39
      have h' : At e s (39 :: 39 :: (dbl u ++ 39 :: r)) := by simpa [dbl] using h
      have h1 := h'.step (by decide)
      have h2 := h1.step (by decide)
      rw [bind_of_eq (h'.next_cons (by decide))]
      rw [if_neg (by decide), if_pos (by decide), bind_of_eq (h1.peek_cons (by decide))]
      rw [if_pos (by decide), bind_of_eq (h1.next_cons (by decide))]
      have ih := singleQuotedLoop_ascii u n (buf ++ [39]) (adv (adv s 1) 1) r h2 hcu hne
        (by simp [dbl] at hn; omega)
      rw [ih]
      simp [dbl, adv, Nat.add_assoc, Nat.add_comm, Nat.add_left_comm]
    · have h' : At e s (c :: (dbl u ++ 39 :: r)) := by simpa [dbl, h39] using h
      have h1 := h'.step hc0
      rw [bind_of_eq (h'.next_cons hc0)]
      have n1 : ¬ ((c.toNat : Int) == eof) = true := by simp [eof]
      have n2 : ¬ ((c.toNat : Int) == 39) = true := by
        simp only [beq_iff_eq]
        intro hh
        apply h39
        have : c.toNat = 39 := by omega
        exact UInt8.toNat_inj.1 (by simpa using this)
      rw [if_neg n1, if_neg n2, writeRune_ascii c hc0]
      have ih := singleQuotedLoop_ascii u n (buf ++ [c]) (adv s 1) r h1 hcu hne
        (by simp [dbl, h39] at hn; omega)
      rw [ih]
      simp [dbl, h39, adv, Nat.add_assoc, Nat.add_comm, Nat.add_left_comm]

/-- `'…'` with ASCII content: the body -/
theorem singleQuoted_body {rec : NT → M Node} (nb : NB) {u r : Bytes}
    (hu : ∀ c ∈ u, c.toNat < 128)
    (h : At e s ((39 :: (dbl u ++ [39])) ++ r)) (hstop : Stop e.isPrint nb.f.ctx r) :
    primaryBody rec nb e s = .ok ((nb.setType SingleQuoted).setValue u) (adv s ((dbl u).length + 2)) := by
  have h' : At e s (39 :: (dbl u ++ 39 :: r)) := by simpa using h
  have hlen := At.length_le (t := 39 :: (dbl u ++ [39])) (r := r) h
  unfold primaryBody
  rw [bind_of_eq (getEnv_eq _ _), bind_of_eq (h'.peek_cons (by decide))]
  have e1 : startsPrimary e.isPrint (((39 : UInt8).toNat : Nat) : Int) nb.f.ctx = true := by
    simp [startsPrimary]
  have e2 : allowedInBareword e.isPrint (((39 : UInt8).toNat : Nat) : Int) nb.f.ctx = false := by
    simp [allowedInBareword, allowedInVariableName]
  simp only [e1, e2, Bool.not_true, Bool.false_eq_true, if_false]
  rw [if_pos (by decide)]
  unfold singleQuoted
  rw [bind_of_eq (h'.next_cons (by decide))]
  have hne : headRune r ≠ 39 := by
    intro hh
    have := hstop.notStart
    rw [hh] at this
    simp [startsPrimary] at this
  have hl := singleQuotedLoop_ascii (e := e) u (e.src.length + 2) [] (adv s 1) r (h'.step (by decide)) hu hne
    (by simp at hlen; omega)
  have hin : singleQuotedInner e (adv s 1) = .ok ([] ++ u) (adv (adv s 1) ((dbl u).length + 1)) := by
    unfold singleQuotedInner
    rw [bind_of_eq (loopFuel_eq _ _)]
    exact hl
  rw [bind_of_eq hin]
  simp [adv, Nat.add_assoc, Nat.add_comm, Nat.add_left_comm]

end
end C04
