/-
C04: `&k=v` pairs and the items loop of `[ … ]` over pairs; the map literal.
-/
import ElvProofs.C04.Struct
namespace C04
open Go C01 C08 Gen.C01Chars

section
variable {e : Env}

theorem stop_eq (isPrint : Int → Bool) (r : Bytes) : Stop isPrint LHSExpr (61 :: r) := by
  constructor
  rw [headRune_ascii _ (by decide)]
  simp [startsPrimary, allowedInBareword, allowedInVariableName, LHSExpr, strictExpr, CmdExpr, BracedElemExpr]

theorem children_ne_nil_of_eval {n : Node} {v : Val} (hk : n.kind = .compound) (hv : evalNode n = some v) :
    n.children.isEmpty = false := by
  obtain ⟨k, a, b, t, f, cs⟩ := n
  have : k = .compound := hk
  subst this
  rw [evalNode_compound] at hv
  cases cs with
  | nil => simp [evalSingle] at hv
  | cons _ _ => rfl

/-- `&k=v` -/
theorem mapPair_ok {k tb vt : Bytes} {kv vv : Val} (hk : CompOK e LHSExpr k kv)
    (hks : Starts e.isPrint LHSExpr k) (hv : CompOK e NormalExpr vt vv) (hvs : Starts e.isPrint NormalExpr vt)
    (htb : ∀ c ∈ tb, IsWs true c) (f : Nat) (hf1 : 7 * k.length + 3 ≤ f) (hf2 : 7 * vt.length + 3 ≤ f)
    {s : St} {r : Bytes} (h : At e s (38 :: (k ++ 61 :: (tb ++ (vt ++ r))))) (hstop : Stop e.isPrint NormalExpr r) :
    ∃ a b t ff pcs, parseNT f .mapPair e s =
        .ok (.mk .mapPair a b t ff pcs) (adv (adv (adv (adv (adv s 1) k.length) 1) tb.length) vt.length) ∧
      evalAll pcs = some [kv, vv] := by
  obtain ⟨f, rfl⟩ : ∃ f', f = f' + 1 := ⟨f - 1, by omega⟩
  let nb0 : NB := { frm := s.pos, f := (NT.mapPair).init, children := [] }
  obtain ⟨nb1, hs1, hsame1⟩ := parseSep_yes nb0 h (by decide) 38 (by decide)
  have h1 : At e (adv s 1) (k ++ 61 :: (tb ++ (vt ++ r))) := h.step (by decide)
  obtain ⟨kn, hkn, hkk, hkv⟩ := hk f (adv s 1) _ (by omega) h1 (stop_eq e.isPrint _)
  have h2 : At e (adv (adv s 1) k.length) (61 :: (tb ++ (vt ++ r))) := h1.after (by intro l; simp) hkn
  obtain ⟨nb3, hs3, hsame3⟩ := parseSep_yes (nb1.add kn) h2 (by decide) 61 (by decide)
  have h3 : At e (adv (adv (adv s 1) k.length) 1) (tb ++ (vt ++ r)) := h2.step (by decide)
  obtain ⟨nb4, hs4, hsame4⟩ := parseSpacesInner_ok (s := adv (adv (adv s 1) k.length) 1) nb3 true h3 htb
    (stopSp_of_starts hvs (by decide) r true)
  have h4 : At e (adv (adv (adv (adv s 1) k.length) 1) tb.length) (vt ++ r) :=
    h3.steps (fun c hc => (ws_facts (htb c hc) e.isPrint NormalExpr).1)
  obtain ⟨vn, hvn, hvk, hvv⟩ := hv f _ r (by omega) h4 hstop
  have h5 : At e (adv (adv (adv (adv (adv s 1) k.length) 1) tb.length) vt.length) r :=
    h4.after (by intro l; simp) hvn
  have hb : body (fun nt' => parseNT f nt') .mapPair nb0 e s =
      .ok (nb4.add vn) (adv (adv (adv (adv (adv s 1) k.length) 1) tb.length) vt.length) := by
    show mapPairBody _ _ e s = _
    unfold mapPairBody
    rw [bind_of_eq hs1]
    dsimp only
    rw [bind_of_eq (show parseNT f (.compound LHSExpr) e (adv s 1) = _ from hkn)]
    rw [children_ne_nil_of_eval hkk hkv]
    simp only [Bool.false_eq_true, if_false]
    rw [bind_of_eq (pure_apply _ _ _), bind_of_eq hs3]
    dsimp only
    simp only [if_true]
    have hs4' : parseSpacesAndNewlines nb3 e _ = _ := hs4
    rw [bind_of_eq hs4', bind_of_eq (show parseNT f (.compound NormalExpr) e _ = _ from hvn)]
    rfl
  have hfrm : (nb4.add vn).frm = s.pos := by
    show nb4.frm = _
    rw [hsame4.frm, hsame3.frm]; show nb1.frm = _; rw [hsame1.frm]
  obtain ⟨txt, hw⟩ := wrap_ok (rec := fun nt' => parseNT f nt') h5.inv hb (by rw [hfrm]; simp)
  refine ⟨_, _, _, _, _, hw, ?_⟩
  have hreal : (nb4.add vn).children.filter nonSep = [kn, vn] := by
    have r4 : real nb4 = real nb3 := hsame4.real
    have r3 : real nb3 = real (nb1.add kn) := hsame3.real
    have r1 : real nb1 = real nb0 := hsame1.real
    show real (nb4.add vn) = _
    rw [real_add nb4 vn (by rw [hvk]; simp), r4, r3, real_add nb1 kn (by rw [hkk]; simp), r1]
    rfl
  rw [evalAll_of_real hreal]
  exact evalAll_two kn vn _ _ (by rw [hkk]; simp) (by rw [hvk]; simp) hkv hvv

/-- per-pair facts: the item text is `&k=<ws>v` -/
def PairOK (e : Env) (it : Bytes × Bytes) (kv : Val × Val) : Prop :=
  ∃ k tb vt, it.1 = 38 :: (k ++ 61 :: (tb ++ vt)) ∧ (∀ c ∈ tb, IsWs true c) ∧
    CompOK e LHSExpr k kv.1 ∧ Starts e.isPrint LHSExpr k ∧
    CompOK e NormalExpr vt kv.2 ∧ Starts e.isPrint NormalExpr vt

theorem stopSp_amp (nl : Bool) (r : Bytes) : StopSp nl (38 :: r) := by
  constructor <;> rw [headRune_ascii _ (by decide)] <;> simp [IsInlineWhitespace, IsWhitespace]

theorem stopSp_next_pair {rest : List (Bytes × Bytes)} {kvs : List (Val × Val)}
    (h : All2 (PairOK e) rest kvs) (r : Bytes) : StopSp true (joinItems rest ++ 93 :: r) := by
  cases h with
  | nil => exact stopSp_rbracket true r
  | @cons it v rest' vals' h1 _ =>
    obtain ⟨t, w⟩ := it
    obtain ⟨k, tb, vt, ht, _⟩ := h1
    simp only at ht
    subst ht
    simp only [joinItems, List.cons_append]
    exact stopSp_amp true _

theorem evalPairs_cons {a b : Nat} {t : Bytes} {f : Fields} {pcs cs : List Node} {k v : Val} {ps : List (Val × Val)}
    (hp : evalAll pcs = some [k, v]) (hps : evalPairs cs = some ps) :
    evalPairs (.mk .mapPair a b t f pcs :: cs) = some ((k, v) :: ps) := by
  rw [evalPairs]
  simp [hp, hps]

/-- the items loop of `lbracket` over pairs -/
theorem mapLoop_ok {f : Nat} : ∀ (items : List (Bytes × Bytes)) (kvs : List (Val × Val)),
    All2 (PairOK e) items kvs → ∀ (n : Nat) (nb : NB) (s : St) (r : Bytes),
    ItemsOK items → At e s (joinItems items ++ 93 :: r) → items.length < n →
    7 * (joinItems items).length + 2 ≤ f →
    ∃ nb' mps, lbracketLoop (fun nt' => parseNT f nt') n nb e s = .ok nb' (adv s (joinItems items).length) ∧
      nb'.frm = nb.frm ∧ nb'.f = nb.f ∧ real nb' = real nb ++ mps ∧ (∀ c ∈ mps, c.kind = .mapPair) ∧
      evalPairs mps = some kvs ∧ mps.length = items.length ∧ At e (adv s (joinItems items).length) (93 :: r) := by
  intro items kvs hfa
  induction hfa with
  | nil =>
    intro n nb s r _ h hn _
    obtain ⟨n', rfl⟩ : ∃ n', n = n' + 1 := ⟨n - 1, by simp at hn; omega⟩
    have h' : At e s (93 :: r) := by simpa [joinItems] using h
    refine ⟨nb, [], ?_, rfl, rfl, by simp, by simp, rfl, rfl, by simpa [joinItems] using h'⟩
    unfold lbracketLoop
    rw [bind_of_eq (getEnv_eq _ _), bind_of_eq h'.peek_head, headRune_ascii _ (by decide)]
    rw [if_neg (by decide)]
    have : startsCompound e.isPrint (((93 : UInt8).toNat : Nat) : Int) NormalExpr = false := by
      simp [startsCompound, startsIndexing, startsPrimary, allowedInBareword, allowedInVariableName]
    simp only [this, Bool.false_eq_true, if_false]
    simp [joinItems]
  | @cons it kv rest kvs' h1 hrest ih =>
    intro n nb s r hok h hn hfuel
    obtain ⟨t, w⟩ := it
    obtain ⟨k, tb, vt, ht, htb, hkc, hks, hvc, hvs⟩ := h1
    simp only at ht
    subst ht
    obtain ⟨hw, hl, hok'⟩ := hok
    obtain ⟨n', rfl⟩ : ∃ n', n = n' + 1 := ⟨n - 1, by simp at hn; omega⟩
    have hfl : (joinItems ((38 :: (k ++ 61 :: (tb ++ vt)), w) :: rest)).length =
        k.length + tb.length + vt.length + 2 + (w.length + (joinItems rest).length) := by
      simp [joinItems]; omega
    rw [hfl] at hfuel
    have h0 : At e s (38 :: (k ++ 61 :: (tb ++ (vt ++ (w ++ (joinItems rest ++ 93 :: r)))))) := by
      simpa [joinItems, List.append_assoc] using h
    -- the pair
    obtain ⟨a, b, tx, ff, pcs, hmp, hpe⟩ := mapPair_ok hkc hks hvc hvs htb f (by omega) (by omega) h0
      (stop_after_item e.isPrint NormalExpr r hw hl)
    have hA1 : At e (adv (adv (adv (adv (adv s 1) k.length) 1) tb.length) vt.length)
        (w ++ (joinItems rest ++ 93 :: r)) := by
      have h0' : At e s ((38 :: (k ++ 61 :: (tb ++ vt))) ++ (w ++ (joinItems rest ++ 93 :: r))) := by
        simpa [List.append_assoc] using h0
      have hst : adv (adv (adv (adv (adv s 1) k.length) 1) tb.length) vt.length =
          adv s (38 :: (k ++ 61 :: (tb ++ vt))).length := by simp [adv]; omega
      rw [hst] at hmp ⊢
      exact h0'.after (by intro l; simp) hmp
    let s1 := adv (adv (adv (adv (adv s 1) k.length) 1) tb.length) vt.length
    -- the whitespace
    obtain ⟨nb1, hsp, hsame⟩ := parseSpacesInner_ok (s := s1) (nb.add (.mk .mapPair a b tx ff pcs)) true hA1 hw
      (stopSp_next_pair hrest r)
    have hA2 : At e (adv s1 w.length) (joinItems rest ++ 93 :: r) :=
      hA1.steps (fun c hc => (ws_facts (hw c hc) e.isPrint NormalExpr).1)
    -- the rest
    obtain ⟨nb', mps, hloop, hfrm, hf, hreal, hkinds, hev, hmlen, hAt⟩ :=
      ih n' nb1 (adv s1 w.length) r hok' hA2 (by simp at hn; omega) (by omega)
    have hstate : adv (adv s1 w.length) (joinItems rest).length =
        adv s (joinItems ((38 :: (k ++ 61 :: (tb ++ vt)), w) :: rest)).length := by
      simp [s1, joinItems, adv]; omega
    refine ⟨nb', .mk .mapPair a b tx ff pcs :: mps, ?_, ?_, ?_, ?_, ?_, ?_, by simp [hmlen],
      by rw [← hstate]; exact hAt⟩
    · unfold lbracketLoop
      rw [bind_of_eq (getEnv_eq _ _), bind_of_eq (h0.peek_cons (by decide))]
      rw [if_pos (by decide), bind_of_eq (h0.next_cons (by decide))]
      have hp2 : At e (adv s 1) (k ++ 61 :: (tb ++ (vt ++ (w ++ (joinItems rest ++ 93 :: r))))) :=
        h0.step (by decide)
      rw [bind_of_eq hp2.peek_head]
      have hst : startsCompound e.isPrint (headRune (k ++ 61 :: (tb ++ (vt ++ (w ++ (joinItems rest ++ 93 :: r))))))
          LHSExpr = true := hks.start _
      simp only [hst, Bool.not_true, Bool.false_eq_true, if_false]
      have hbk : backup e (adv s 1) = .ok () s := by
        have := backup_nextSt h0.inv
        rwa [h0.nextSt (by decide)] at this
      rw [bind_of_eq hbk, bind_of_eq (show parseNT f .mapPair e s = _ from hmp)]
      have hsp' : parseSpacesAndNewlines (nb.add (.mk .mapPair a b tx ff pcs)) e s1 = _ := hsp
      rw [bind_of_eq hsp', hloop, hstate]
    · rw [hfrm, hsame.frm]; rfl
    · rw [hf, hsame.f]; rfl
    · rw [hreal, hsame.real, real_add nb _ (by simp [Node.kind])]; simp
    · intro c hc
      rcases List.mem_cons.1 hc with rfl | hc
      · rfl
      · exact hkinds c hc
    · exact evalPairs_cons hpe hev

theorem pairs_length_le : ∀ {items : List (Bytes × Bytes)} {kvs : List (Val × Val)}, All2 (PairOK e) items kvs →
    items.length ≤ (joinItems items).length
  | _, _, .nil => by simp
  | _, _, @All2.cons _ _ _ it v rest vals h1 hr => by
    obtain ⟨t, w⟩ := it
    have := pairs_length_le hr
    obtain ⟨k, tb, vt, ht, _⟩ := h1
    simp only at ht
    subst ht
    simp [joinItems]; omega

theorem count_pos_of_kinds (cns : List Node) (k : Kind) (h : ∀ c ∈ cns, c.kind = k) :
    (cns.filter (·.kind == k)).length = cns.length := by
  congr 1
  rw [List.filter_eq_self]
  intro c hc
  simp [h c hc]

/-- `[ &k1=v1 … ]` (at least one pair) is a primary that evaluates to the map built pair by pair -/
theorem map_prim {ctx : Int} {w0 : Bytes} {items : List (Bytes × Bytes)} {kvs : List (Val × Val)}
    (hw0 : WsAll w0) (hok : ItemsOK items) (hall : All2 (PairOK e) items kvs) (hne : items ≠ []) :
    PrimOK e ctx (91 :: (w0 ++ (joinItems items ++ [93]))) (.map false (assocAll kvs [])) := by
  intro fuel s r hf h hstop
  obtain ⟨f, rfl⟩ : ∃ f, fuel = f + 1 := ⟨fuel - 1, by simp at hf; omega⟩
  have h0 : At e s (91 :: (w0 ++ (joinItems items ++ 93 :: r))) := by simpa using h
  have hlen := At.length_le (t := 91 :: (w0 ++ (joinItems items ++ [93]))) (r := r) h
  let nb0 : NB := { frm := s.pos, f := (NT.primary ctx).init, children := [] }
  obtain ⟨nb1, hs1, hsame1⟩ := parseSep_yes nb0 h0 (by decide) 91 (by decide)
  have h1 : At e (adv s 1) (w0 ++ (joinItems items ++ 93 :: r)) := h0.step (by decide)
  obtain ⟨nb2, hs2, hsame2⟩ := parseSpacesInner_ok (s := adv s 1) nb1 true h1 hw0 (stopSp_next_pair hall r)
  have h2 : At e (adv (adv s 1) w0.length) (joinItems items ++ 93 :: r) :=
    h1.steps (fun c hc => (ws_facts (hw0 c hc) e.isPrint NormalExpr).1)
  have hil := pairs_length_le hall
  obtain ⟨nb3, mps, hloop, hfrm3, hf3, hreal3, hkinds, hev, hmlen, h3⟩ :=
    mapLoop_ok (f := f) items kvs hall (e.src.length + 2) nb2 (adv (adv s 1) w0.length) r hok h2
      (by simp at hlen; omega) (by simp at hf; omega)
  obtain ⟨nb4, hs4, hsame4⟩ := parseSep_yes nb3 h3 (by decide) 93 (by decide)
  have h4 : At e (adv (adv (adv (adv s 1) w0.length) (joinItems items).length) 1) r := h3.step (by decide)
  have hreal4 : real nb4 = mps := by
    rw [hsame4.real, hreal3, hsame2.real, hsame1.real]; rfl
  have hf4 : nb4.f = nb0.f := by rw [hsame4.f, hf3, hsame2.f, hsame1.f]
  have hfrm4 : nb4.frm = s.pos := by rw [hsame4.frm, hfrm3, hsame2.frm, hsame1.frm]
  have hb : primaryBody (fun nt' => parseNT f nt') nb0 e s =
      .ok (nb4.setType MapPrimary) (adv (adv (adv (adv s 1) w0.length) (joinItems items).length) 1) := by
    unfold primaryBody
    rw [bind_of_eq (getEnv_eq _ _), bind_of_eq (h0.peek_cons (by decide))]
    have e1 : startsPrimary e.isPrint (((91 : UInt8).toNat : Nat) : Int) nb0.f.ctx = true := by
      simp [startsPrimary]
    have e2 : allowedInBareword e.isPrint (((91 : UInt8).toNat : Nat) : Int) nb0.f.ctx = false := by
      simp [allowedInBareword, allowedInVariableName]
    simp only [e1, e2, Bool.not_true, Bool.false_eq_true, if_false]
    rw [if_neg (by decide), if_neg (by decide), if_neg (by decide), if_neg (by decide), if_neg (by decide),
      if_neg (by decide), if_pos (by decide)]
    unfold lbracket
    rw [bind_of_eq hs1]
    dsimp only
    have hs2' : parseSpacesAndNewlines nb1 e (adv s 1) = _ := hs2
    rw [bind_of_eq hs2', bind_of_eq (loopFuel_eq _ _), bind_of_eq hloop, bind_of_eq hs4]
    dsimp only
    have hcm : nb4.count .mapPair = items.length := by
      rw [count_real nb4 .mapPair (by decide), hreal4, count_pos_of_kinds mps .mapPair hkinds, hmlen]
    have hcc : nb4.count .compound = 0 := by
      rw [count_real nb4 .compound (by decide), hreal4]
      exact count_zero_of_kinds mps .mapPair .compound (by decide) hkinds
    have hpos : 0 < items.length := by
      cases items with
      | nil => exact absurd rfl hne
      | cons _ _ => simp
    simp only [hcm, hcc, Bool.not_true, Bool.false_eq_true, if_false, gt_iff_lt, hpos, decide_true,
      Bool.or_true, if_true, Nat.lt_irrefl]
    rfl
  obtain ⟨txt, hw⟩ := prim_wrap (ctx := ctx) (fuel := f) h4.inv hb (by simp [hfrm4])
  have hst : adv (adv (adv (adv s 1) w0.length) (joinItems items).length) 1 =
      adv s (91 :: (w0 ++ (joinItems items ++ [93]))).length := by
    simp [adv]; omega
  rw [hst] at hw
  refine ⟨_, hw, rfl, ?_⟩
  rw [evalNode_primary_map _ _ _ _ _ (by rfl)]
  show Option.map _ (evalPairs nb4.children) = _
  rw [evalPairs_filter]
  have : nb4.children.filter nonSep = mps := hreal4
  rw [this, hev]
  rfl

/-- `[&]` -/
theorem emptymap_prim {ctx : Int} : PrimOK e ctx [91, 38, 93] (.map false []) := by
  intro fuel s r hf h hstop
  obtain ⟨f, rfl⟩ : ∃ f, fuel = f + 1 := ⟨fuel - 1, by simp at hf; omega⟩
  have h0 : At e s (91 :: 38 :: 93 :: r) := by simpa using h
  let nb0 : NB := { frm := s.pos, f := (NT.primary ctx).init, children := [] }
  obtain ⟨nb1, hs1, hsame1⟩ := parseSep_yes nb0 h0 (by decide) 91 (by decide)
  have h1 : At e (adv s 1) (38 :: 93 :: r) := h0.step (by decide)
  obtain ⟨nb2, hs2, hsame2⟩ := parseSpacesInner_ok (s := adv s 1) nb1 true (w := []) (r := 38 :: 93 :: r)
    (by simpa using h1) (by intro c hc; cases hc) (stopSp_amp true _)
  have h2 : At e (adv (adv s 1) 1) (93 :: r) := h1.step (by decide)
  obtain ⟨nb3, hs3, hsame3⟩ := addSep_ok ({ nb2 with f := { nb2.f with lone := true } } : NB) h2.inv
  obtain ⟨nb4, hs4, hsame4⟩ := parseSpacesInner_ok (s := adv (adv s 1) 1) nb3 true (w := []) (r := 93 :: r)
    (by simpa using h2) (by intro c hc; cases hc) (stopSp_rbracket true r)
  obtain ⟨nb5, hs5, hsame5⟩ := parseSep_yes nb4 h2 (by decide) 93 (by decide)
  have h3 : At e (adv (adv (adv s 1) 1) 1) r := h2.step (by decide)
  have hreal5 : real nb5 = [] := by
    rw [hsame5.real, hsame4.real, hsame3.real]
    show real nb2 = _
    rw [hsame2.real, hsame1.real]; rfl
  have hf5 : nb5.f = { nb0.f with lone := true } := by
    rw [hsame5.f, hsame4.f, hsame3.f]
    show ({ nb2.f with lone := true } : Fields) = _
    rw [hsame2.f, hsame1.f]
  have hfrm5 : nb5.frm = s.pos := by
    rw [hsame5.frm, hsame4.frm, hsame3.frm]
    show nb2.frm = _
    rw [hsame2.frm, hsame1.frm]
  have hloop : lbracketLoop (fun nt' => parseNT f nt') (e.src.length + 2) nb2 e (adv s 1) =
      .ok nb4 (adv (adv s 1) 1) := by
    show lbracketLoop _ (e.src.length + 1 + 1) _ e _ = _
    unfold lbracketLoop
    rw [bind_of_eq (getEnv_eq _ _), bind_of_eq (h1.peek_cons (by decide))]
    rw [if_pos (by decide), bind_of_eq (h1.next_cons (by decide)), bind_of_eq (h2.peek_cons (by decide))]
    have : startsCompound e.isPrint (((93 : UInt8).toNat : Nat) : Int) LHSExpr = false := by
      simp [startsCompound, startsIndexing, startsPrimary, allowedInBareword, allowedInVariableName]
    simp only [this, Bool.not_false, if_true]
    rw [bind_of_eq hs3]
    have hs4' : parseSpacesAndNewlines nb3 e (adv (adv s 1) 1) = .ok nb4 (adv (adv (adv s 1) 1) 0) := hs4
    rw [hs4']
    rfl
  have hb : primaryBody (fun nt' => parseNT f nt') nb0 e s =
      .ok (nb5.setType MapPrimary) (adv (adv (adv s 1) 1) 1) := by
    unfold primaryBody
    rw [bind_of_eq (getEnv_eq _ _), bind_of_eq (h0.peek_cons (by decide))]
    have e1 : startsPrimary e.isPrint (((91 : UInt8).toNat : Nat) : Int) nb0.f.ctx = true := by
      simp [startsPrimary]
    have e2 : allowedInBareword e.isPrint (((91 : UInt8).toNat : Nat) : Int) nb0.f.ctx = false := by
      simp [allowedInBareword, allowedInVariableName]
    simp only [e1, e2, Bool.not_true, Bool.false_eq_true, if_false]
    rw [if_neg (by decide), if_neg (by decide), if_neg (by decide), if_neg (by decide), if_neg (by decide),
      if_neg (by decide), if_pos (by decide)]
    unfold lbracket
    rw [bind_of_eq hs1]
    dsimp only
    have hs2' : parseSpacesAndNewlines nb1 e (adv s 1) = .ok nb2 (adv (adv s 1) 0) := hs2
    rw [bind_of_eq hs2']
    simp only [adv_zero]
    rw [bind_of_eq (loopFuel_eq _ _), bind_of_eq hloop, bind_of_eq hs5]
    dsimp only
    have hlone : nb5.f.lone = true := by rw [hf5]
    have hcc : nb5.count .compound = 0 := by
      rw [count_real nb5 .compound (by decide), hreal5]; rfl
    simp only [hlone, hcc, Bool.not_true, Bool.false_eq_true, if_false, Bool.true_or, if_true, gt_iff_lt,
      Nat.lt_irrefl]
    rfl
  obtain ⟨txt, hw⟩ := prim_wrap (ctx := ctx) (fuel := f) h3.inv hb (by simp [hfrm5])
  have hst : adv (adv (adv s 1) 1) 1 = adv s ([91, 38, 93] : Bytes).length := by simp [adv]
  rw [hst] at hw
  refine ⟨_, hw, rfl, ?_⟩
  rw [evalNode_primary_map _ _ _ _ _ (by rfl)]
  show Option.map _ (evalPairs nb5.children) = _
  rw [evalPairs_filter]
  have : nb5.children.filter nonSep = [] := hreal5
  rw [this]
  rfl

end
end C04
