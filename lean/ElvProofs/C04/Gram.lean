/-
C04: the grammar functions of C01 on the text of one value — the generic
wrappers `Indexing`/`Compound` around a `Primary`.
-/
import ElvProofs.C04.Build
namespace C04
open Go C01 C08 Gen.C01Chars

/-- what may follow a value in expression context `ctx`: the end of the text
or an ASCII byte that cannot start (or continue) a primary. -/
structure Stop (isPrint : Int → Bool) (ctx : Int) (r : Bytes) : Prop where
  notStart : startsPrimary isPrint (headRune r) ctx = false

/-- first rune of a non-empty text, whatever follows it -/
structure Starts (isPrint : Int → Bool) (ctx : Int) (T : Bytes) : Prop where
  ne : T ≠ []
  start : ∀ r, startsPrimary isPrint (headRune (T ++ r)) ctx = true
  notTilde : ∀ r, headRune (T ++ r) ≠ 126

/-- `Primary` in context `ctx` reads exactly `T` and evaluates to `val`. -/
def PrimOK (e : Env) (ctx : Int) (T : Bytes) (val : Val) : Prop :=
  ∀ (fuel : Nat) (s : St) (r : Bytes), 7 * T.length ≤ fuel → At e s (T ++ r) → Stop e.isPrint ctx r →
    ∃ n, parseNT fuel (.primary ctx) e s = .ok n (adv s T.length) ∧ n.kind = .primary ∧ evalNode n = some val

/-- `Compound` in context `ctx` reads exactly `T` and evaluates to `val`. -/
def CompOK (e : Env) (ctx : Int) (T : Bytes) (val : Val) : Prop :=
  ∀ (fuel : Nat) (s : St) (r : Bytes), 7 * T.length + 2 ≤ fuel → At e s (T ++ r) → Stop e.isPrint ctx r →
    ∃ n, parseNT fuel (.compound ctx) e s = .ok n (adv s T.length) ∧ n.kind = .compound ∧ evalNode n = some val

section
variable {e : Env} {s : St}

theorem At.drop_adv {T r : Bytes} (h : At e s (T ++ r)) : e.src.drop (adv s T.length).pos = r := by
  have := h.rest
  simp only [adv_pos]
  rw [← List.drop_drop, this, List.drop_left]

/-- after a successful parse of exactly `T` the parser stands in front of the rest -/
theorem At.after {T r : Bytes} (h : At e s (T ++ r)) {fuel : Nat} {nt : NT} {n : Node}
    (hnt : ∀ l, nt ≠ .redir (some l))
    (hp : parseNT fuel nt e s = .ok n (adv s T.length)) : At e (adv s T.length) r := by
  have hpre : NTPre e nt s := by
    cases nt with
    | redir l => cases l with
      | none => trivial
      | some l => exact absurd rfl (hnt l)
    | _ => trivial
  have := parseNT_spec (e := e) fuel nt s h.inv hpre
  rw [hp] at this
  exact ⟨this.1.1, h.drop_adv⟩

theorem At.peekRune_head {r : Bytes} (h : At e s r) : C01.peekRune e s = headRune r := by
  have h1 := h.peek_head
  rw [peek_eq h.inv] at h1
  injection h1

theorem headRune_ne_of_notStart {isPrint : Int → Bool} {ctx : Int} {r : Bytes}
    (h : startsPrimary isPrint (headRune r) ctx = false) : headRune r ≠ 91 := by
  intro h'
  rw [h'] at h
  simp [startsPrimary] at h

/-! equations of `evalNode` by node kind -/
theorem evalNode_compound (a b : Nat) (t : Bytes) (f : Fields) (cs : List Node) :
    evalNode (.mk .compound a b t f cs) = evalSingle cs := by rw [evalNode]
theorem evalNode_indexing (a b : Nat) (t : Bytes) (f : Fields) (cs : List Node) :
    evalNode (.mk .indexing a b t f cs) = evalSingle cs := by rw [evalNode]
theorem evalNode_chunk (a b : Nat) (t : Bytes) (f : Fields) (cs : List Node) :
    evalNode (.mk .chunk a b t f cs) = evalSingle cs := by rw [evalNode]
theorem evalNode_pipeline (a b : Nat) (t : Bytes) (f : Fields) (cs : List Node) :
    evalNode (.mk .pipeline a b t f cs) = if f.flag then none else evalSingle cs := by rw [evalNode]

theorem tilde_no (nb : NB) (hi : Inv e s) (hp : C01.peekRune e s ≠ 126) : tilde nb e s = .ok nb s := by
  unfold tilde
  rw [bind_of_eq (peek_eq hi)]
  simp [hp]

theorem indexingLoop_none {rec : NT → M Node} (nb : NB) {r : Bytes} (k : Nat) (h : At e s r)
    (hn : headRune r ≠ 91) : indexingLoop rec (k + 1) nb e s = .ok nb s := by
  unfold indexingLoop
  rw [bind_of_eq (getEnv_eq _ _), bind_of_eq (parseSep_no _ h 91 hn)]
  rfl

theorem compoundLoop_one {rec : NT → M Node} (nb : NB) (ctx : Int) (k : Nat) {r : Bytes} {s' : St} {inode : Node}
    (hi : Inv e s) (hst : startsIndexing e.isPrint (C01.peekRune e s) ctx = true)
    (hrec : rec (.indexing ctx) e s = .ok inode s')
    (h' : At e s' r) (hns : startsIndexing e.isPrint (headRune r) ctx = false) :
    compoundLoop rec ctx (k + 2) nb e s = .ok (nb.add inode) s' := by
  unfold compoundLoop
  rw [bind_of_eq (getEnv_eq _ _), bind_of_eq (peek_eq hi)]
  simp only [hst, if_true]
  rw [bind_of_eq hrec]
  unfold compoundLoop
  rw [bind_of_eq (getEnv_eq _ _), bind_of_eq h'.peek_head]
  simp only [hns, Bool.false_eq_true, if_false]
  rfl

/-- a `Primary` alone is an `Indexing` and a `Compound` -/
theorem comp_of_prim {ctx : Int} {T : Bytes} {val : Val} (hp : PrimOK e ctx T val)
    (hs : Starts e.isPrint ctx T) : CompOK e ctx T val := by
  intro fuel s r hf h hstop
  obtain ⟨f, rfl⟩ : ∃ f, fuel = f + 2 := ⟨fuel - 2, by omega⟩
  -- the primary
  obtain ⟨pn, hpn, hpk, hpv⟩ := hp f s r (by omega) h hstop
  have hAt := h.after (by intro l; simp) hpn
  have hpeek := h.peekRune_head
  -- the indexing
  have hidx : ∃ inode, parseNT (f + 1) (.indexing ctx) e s = .ok inode (adv s T.length) ∧
      inode.kind = .indexing ∧ evalNode inode = some val := by
    have hb : body (fun nt' => parseNT f nt') (.indexing ctx)
        { frm := s.pos, f := (NT.indexing ctx).init, children := [] } e s =
        .ok (NB.add { frm := s.pos, f := (NT.indexing ctx).init, children := [] } pn) (adv s T.length) := by
      show indexingBody _ _ e s = _
      unfold indexingBody
      refine Eq.trans (bind_of_eq hpn) ?_
      rw [bind_of_eq (loopFuel_eq _ _)]
      exact indexingLoop_none _ _ hAt (headRune_ne_of_notStart hstop.notStart)
    obtain ⟨txt, hw⟩ := wrap_ok (rec := fun nt' => parseNT f nt') hAt.inv hb (by simp [NB.add])
    refine ⟨_, hw, rfl, ?_⟩
    show evalNode (.mk .indexing _ _ _ _ _) = _
    rw [evalNode_indexing]
    show evalSingle [pn] = _
    rw [evalSingle_one pn (by rw [hpk]; simp)]
    exact hpv
  obtain ⟨inode, hin, hik, hiv⟩ := hidx
  -- the compound
  have hb : body (fun nt' => parseNT (f + 1) nt') (.compound ctx)
      { frm := s.pos, f := (NT.compound ctx).init, children := [] } e s =
      .ok (NB.add { frm := s.pos, f := (NT.compound ctx).init, children := [] } inode) (adv s T.length) := by
    show compoundBody _ _ e s = _
    unfold compoundBody
    rw [bind_of_eq (tilde_no _ h.inv (by rw [hpeek]; exact hs.notTilde r)), bind_of_eq (loopFuel_eq _ _)]
    refine compoundLoop_one _ _ _ h.inv ?_ hin hAt hstop.notStart
    rw [hpeek]; exact hs.start r
  obtain ⟨txt, hw⟩ := wrap_ok (rec := fun nt' => parseNT (f + 1) nt') hAt.inv hb (by simp [NB.add])
  refine ⟨_, hw, rfl, ?_⟩
  show evalNode (.mk .compound _ _ _ _ _) = _
  rw [evalNode_compound]
  show evalSingle [inode] = _
  rw [evalSingle_one inode (by rw [hik]; simp)]
  exact hiv

end
end C04
