/-
C04: the text of a map does not depend on the order in which `reprMap`
receives the entries (the iteration order of the hash map), as long as the
comparator tells any two keys apart.
-/
import ElvProofs.C04.Sort
namespace C04
open Go C08 C09 List

/-- one collected pair of `reprMap` -/
def entryOf (L : Lib) (fixed : Bool) (indent : Int) (p : Val × Val) : Entry :=
  { key := p.1, plain := repr L fixed p.1 minInt, k := repr L fixed p.1 (indent + 1),
    v := repr L fixed p.2 (indent + 2) }

theorem reprEntries_eq_map (L : Lib) (fixed : Bool) (indent : Int) :
    ∀ kvs : List (Val × Val), reprEntries L fixed kvs indent = kvs.map (entryOf L fixed indent)
  | [] => by simp [reprEntries]
  | (k, v) :: kvs => by
    simp only [reprEntries, map_cons, entryOf, reprEntries_eq_map L fixed indent kvs]

/-- the printing loop of `reprMap` on sorted entries -/
def mapText (indent : Int) (es : List Entry) : Bytes :=
  mapBuilderString indent ((es.map fun e => pairString e.k (indent + 2) e.v).foldl (writeElem indent) [])

theorem repr_map (L : Lib) (fixed : Bool) (kvs : List (Val × Val)) (indent : Int) :
    repr L fixed (.map false kvs) indent =
      mapText indent (isort (entryLess L.rank fixed) (kvs.map (entryOf L fixed indent))) := by
  simp only [repr, reprEntries_eq_map, mapText]

theorem pairwise_forall {α} {R : α → α → Prop} : ∀ {l : List α}, l.Pairwise R →
    ∀ a, a ∈ l → ∀ b, b ∈ l → a = b ∨ R a b ∨ R b a
  | [], _, a, ha, _, _ => by cases ha
  | x :: l, h, a, ha, b, hb => by
    rw [pairwise_cons] at h
    rcases mem_cons.1 ha with ha' | ha' <;> rcases mem_cons.1 hb with hb' | hb'
    · exact Or.inl (ha'.trans hb'.symm)
    · exact Or.inr (Or.inl (ha' ▸ h.1 b hb'))
    · exact Or.inr (Or.inr (hb' ▸ h.1 a ha'))
    · exact pairwise_forall h.2 a ha' b hb'

/-- what the order claim needs of the keys of one map: any two of them are told
apart by `CmpTotal` or by their plain text. -/
def KeysSeparated (L : Lib) (kvs : List (Val × Val)) : Prop :=
  kvs.Pairwise fun p q =>
    CmpTotal L.rank p.1 q.1 ≠ .equal ∨ repr L true p.1 minInt ≠ repr L true q.1 minInt

/-- ANY permutation of the collected pairs that is sorted by the comparator of
`reprMap` is the one the model's insertion sort produces. -/
theorem sorted_entries_unique (L : Lib) (hinj : ∀ s t, L.rank s = L.rank t → s = t)
    (kvs : List (Val × Val)) (indent : Int) (hwf : ∀ p ∈ kvs, WF p.1) (hsep : KeysSeparated L kvs)
    (p : List Entry) (hperm : p.Perm (kvs.map (entryOf L true indent)))
    (hsorted : p.Pairwise (fun a b => entryLess L.rank true b a = false)) :
    p = isort (entryLess L.rank true) (kvs.map (entryOf L true indent)) := by
  refine sorted_perm_eq_isort (entryLess_weakOrder L.rank hinj) _ p ?_ ?_ hperm hsorted
  · intro e he
    obtain ⟨q, hq, rfl⟩ := mem_map.1 he
    exact hwf q hq
  · intro a b ha hb h1 h2
    obtain ⟨x, hx, rfl⟩ := mem_map.1 ha
    obtain ⟨y, hy, rfl⟩ := mem_map.1 hb
    have tie := entryLess_tie hinj (a := entryOf L true indent x) (b := entryOf L true indent y)
      (hwf x hx) (hwf y hy) h1 h2
    rcases pairwise_forall hsep x hx y hy with rfl | h | h
    · rfl
    · rcases h with h | h
      · exact absurd tie.1 h
      · exact absurd tie.2 h
    · have hf := C09_total_antisymm L.rank x.1 y.1 (hwf x hx) (hwf y hy) hinj
      rcases h with h | h
      · have t1 : CmpTotal L.rank x.1 y.1 = .equal := tie.1
        rw [t1] at hf
        exact absurd hf h
      · exact absurd tie.2.symm h

/-- The printed text of a map is the same for every order in which its
entries are handed to `reprMap`. -/
theorem repr_map_perm (L : Lib) (hinj : ∀ s t, L.rank s = L.rank t → s = t)
    (kvs kvs' : List (Val × Val)) (indent : Int) (hwf : ∀ p ∈ kvs, WF p.1) (hsep : KeysSeparated L kvs)
    (hperm : kvs'.Perm kvs) :
    repr L true (.map false kvs') indent = repr L true (.map false kvs) indent := by
  rw [repr_map, repr_map]
  congr 1
  have hwf' : ∀ e ∈ kvs'.map (entryOf L true indent), WF e.key := by
    intro e he
    obtain ⟨q, hq, rfl⟩ := mem_map.1 he
    exact hwf q (hperm.subset hq)
  exact sorted_entries_unique L hinj kvs indent hwf hsep _
    ((isort_perm _ _).trans (hperm.map _))
    (isort_sorted (entryLess_weakOrder L.rank hinj) _ hwf')

end C04
