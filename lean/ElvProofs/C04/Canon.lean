/-
C04: the value the round trip returns (`canon v`) is eq to `v` (for
well-formed values without NaN), keeps the kind of every number, and has NaN
where `v` has NaN.
-/
import ElvProofs.C04.Main
import ElvProofs.C08.MapLemmas
namespace C04
open Go C08 C09 List

theorem mapAssoc_append {k v : Val} : ∀ (acc : List (Val × Val)),
    (∀ q ∈ acc, Equal k q.1 = false) → mapAssoc k v acc = acc ++ [(k, v)]
  | [], _ => rfl
  | (k', v') :: acc, h => by
    have h1 : Equal k k' = false := h (k', v') mem_cons_self
    simp only [mapAssoc, h1, Bool.false_eq_true, if_false, cons_append]
    rw [mapAssoc_append acc (fun q hq => h q (mem_cons_of_mem _ hq))]

theorem assocAll_nodup : ∀ (ps acc : List (Val × Val)), NoDupKeys (acc ++ ps) → assocAll ps acc = acc ++ ps
  | [], acc, _ => by simp [assocAll]
  | (k, v) :: ps, acc, h => by
    have hk : ∀ q ∈ acc, Equal k q.1 = false := by
      intro q hq
      have := (pairwise_append.1 h).2.2 q hq (k, v) mem_cons_self
      exact this.2
    rw [assocAll, mapAssoc_append acc hk, assocAll_nodup ps (acc ++ [(k, v)]) (by simpa using h)]
    simp

/-- the two facts the induction carries -/
structure CanonOK (L : Lib) (v : Val) : Prop where
  eq : Equal v (canon L v) = true
  wf : WF (canon L v)

theorem CanonOK_iff {L : Lib} {v : Val} : CanonOK L v ↔ (Equal v (canon L v) = true ∧ WF (canon L v)) :=
  ⟨fun h => ⟨h.eq, h.wf⟩, fun h => ⟨h.1, h.2⟩⟩

theorem equal_list_map (L : Lib) : ∀ xs : List Val, (∀ x ∈ xs, Equal x (canon L x) = true) →
    equalList xs (xs.map (canon L)) = true
  | [], _ => by simp [equalList_nil_left]
  | x :: xs, h => by
    rw [map_cons, equalList_cons, h x mem_cons_self,
      equal_list_map L xs (fun y hy => h y (mem_cons_of_mem _ hy))]
    rfl

theorem canonOK_list (L : Lib) (xs : List Val) (ih : ∀ x ∈ xs, CanonOK L x) : CanonOK L (.list xs) := by
  have hc : canon L (.list xs) = .list (xs.map (canon L)) := by rw [canon, canonList_eq_map]
  rw [CanonOK_iff, hc]
  constructor
  · simp only [Equal, length_map, beq_self_eq_true, Bool.true_and]
    exact equal_list_map L xs (fun x hx => (ih x hx).eq)
  · simp only [WF]
    exact WFList_of_mem (fun y hy => by
      obtain ⟨x, hx, rfl⟩ := mem_map.1 hy
      exact (ih x hx).wf)

theorem canonOK_map (L : Lib) (kvs : List (Val × Val)) (hwf : WF (.map false kvs))
    (ih : ∀ p ∈ kvs, CanonOK L p.1 ∧ CanonOK L p.2) : CanonOK L (.map false kvs) := by
  rw [CanonOK_iff, canon_map_sorted]
  have hperm : (isort (pairLess L) kvs).Perm kvs := isort_perm _ _
  generalize isort (pairLess L) kvs = sorted at hperm
  simp only [WF] at hwf
  obtain ⟨hwe, hnd⟩ := hwf
  have hmem := WFEntries_mem hwe
  let f : Val × Val → Val × Val := fun p => (canon L p.1, canon L p.2)
  have hs_mem : ∀ p ∈ sorted, p ∈ kvs := fun p hp => hperm.subset hp
  -- keys of `sorted` are pairwise non-eq
  have hnd_s : NoDupKeys sorted := by
    refine Pairwise.perm hnd hperm.symm ?_
    intro a b h; exact ⟨h.2, h.1⟩
  -- non-eq keys stay non-eq under canon
  have hkeep : ∀ a ∈ kvs, ∀ b ∈ kvs, Equal a.1 b.1 = false → Equal a.1 (canon L b.1) = false ∧
      Equal (canon L a.1) (canon L b.1) = false := by
    intro a ha b hb hab
    have wa := (hmem a ha).1
    have wb := (hmem b hb).1
    have ca := (ih a ha).1
    have cb := (ih b hb).1
    have h1 : Equal a.1 (canon L b.1) = false := by
      cases h : Equal a.1 (canon L b.1) with
      | false => rfl
      | true =>
        have := Equal_trans wa cb.wf wb h (Equal_symm wb cb.wf cb.eq)
        rw [hab] at this; cases this
    refine ⟨h1, ?_⟩
    cases h : Equal (canon L a.1) (canon L b.1) with
    | false => rfl
    | true =>
      have := Equal_trans wa ca.wf cb.wf ca.eq h
      rw [h1] at this; cases this
  have hnd_ps : NoDupKeys (sorted.map f) := by
    unfold NoDupKeys
    rw [pairwise_map]
    refine Pairwise.imp_of_mem ?_ hnd_s
    intro a b ha hb hab
    exact ⟨(hkeep a (hs_mem a ha) b (hs_mem b hb) hab.1).2, (hkeep b (hs_mem b hb) a (hs_mem a ha) hab.2).2⟩
  have hassoc : assocAll (sorted.map f) [] = sorted.map f := by
    rw [assocAll_nodup _ [] (by simpa using hnd_ps)]; simp
  rw [show (sorted.map fun p => (canon L p.1, canon L p.2)) = sorted.map f from rfl, hassoc]
  constructor
  · refine map_equal_of (by simp [hperm.length_eq]) ?_ ?_
    · rw [entriesEq_iff]
      intro p hp
      have hps : p ∈ sorted := hperm.symm.subset hp
      obtain ⟨s1, s2, rfl⟩ := append_of_mem hps
      rw [lookupEq_iff]
      refine ⟨s1.map f, f p, s2.map f, by simp, ?_, (ih p hp).1.eq, (ih p hp).2.eq⟩
      intro r hr
      obtain ⟨q, hq, rfl⟩ := mem_map.1 hr
      have := (pairwise_append.1 hnd_s).2.2 q hq p mem_cons_self
      exact (hkeep p hp q (hs_mem q (by simp [hq])) this.2).1
    · rw [entriesEq_iff]
      intro r hr
      obtain ⟨q, hq, rfl⟩ := mem_map.1 hr
      have hqk := hs_mem q hq
      have cq := ih q hqk
      have wq := hmem q hqk
      obtain ⟨k1, k2, hk⟩ := append_of_mem hqk
      rw [lookupEq_iff]
      refine ⟨k1, q, k2, hk, ?_, Equal_symm wq.1 cq.1.wf cq.1.eq, Equal_symm wq.2 cq.2.wf cq.2.eq⟩
      intro r hr
      have hrk : r ∈ kvs := by rw [hk]; simp [hr]
      have hnd' := hnd
      rw [hk] at hnd'
      have hR := (pairwise_append.1 hnd').2.2 r hr q mem_cons_self
      cases h : Equal (canon L q.1) r.1 with
      | false => rfl
      | true =>
        have := Equal_trans wq.1 cq.1.wf (hmem r hrk).1 cq.1.eq h
        rw [hR.2] at this; cases this
  · simp only [WF]
    refine ⟨WFEntries_of_mem ?_, hnd_ps⟩
    intro r hr
    obtain ⟨q, hq, rfl⟩ := mem_map.1 hr
    exact ⟨(ih q (hs_mem q hq)).1.wf, (ih q (hs_mem q hq)).2.wf⟩

theorem canonOK_self (L : Lib) (v : Val) (hc : canon L v = v) (wf : WF v) (nf : NaNFree v) : CanonOK L v := by
  rw [CanonOK_iff, hc]
  exact ⟨Equal_refl wf nf, wf⟩

mutual
/-- The value read back is eq to the original and well-formed — for every
well-formed value that holds no NaN. -/
theorem canonOK (L : Lib) : (v : Val) → WF v → NaNFree v → CanonOK L v
  | .nil, wf, nf => canonOK_self L _ (by simp [canon]) wf nf
  | .bool _, wf, nf => canonOK_self L _ (by simp [canon]) wf nf
  | .str _, wf, nf => canonOK_self L _ (by simp [canon]) wf nf
  | .int _, wf, nf => canonOK_self L _ (by simp [canon]) wf nf
  | .bigint _, wf, nf => canonOK_self L _ (by simp [canon]) wf nf
  | .rat _, wf, nf => canonOK_self L _ (by simp [canon]) wf nf
  | .ref _ _, wf, nf => canonOK_self L _ (by simp [canon]) wf nf
  | .map true _, wf, nf => canonOK_self L _ (by simp [canon]) wf nf
  | .float b, wf, nf => canonOK_self L _ (by
      simp only [NaNFree] at nf
      simp [canon, canonFloat, nf]) wf nf
  | .list xs, wf, nf => canonOK_list L xs (canonOK_l L xs (by simpa [WF] using wf) (by simpa [NaNFree] using nf))
  | .map false kvs, wf, nf =>
    canonOK_map L kvs wf (canonOK_e L kvs (by simp only [WF] at wf; exact wf.1) (by simpa [NaNFree] using nf))
theorem canonOK_l (L : Lib) : (xs : List Val) → WFList xs → NaNFreeList xs → ∀ x ∈ xs, CanonOK L x
  | [], _, _ => fun _ hx => by cases hx
  | x :: xs, wf, nf => fun y hy => by
    simp only [WFList] at wf
    simp only [NaNFreeList] at nf
    rcases mem_cons.1 hy with h | h
    · rw [h]; exact canonOK L x wf.1 nf.1
    · exact canonOK_l L xs wf.2 nf.2 y h
theorem canonOK_e (L : Lib) : (kvs : List (Val × Val)) → WFEntries kvs → NaNFreeEntries kvs →
    ∀ p ∈ kvs, CanonOK L p.1 ∧ CanonOK L p.2
  | [], _, _ => fun _ hp => by cases hp
  | (k, v) :: kvs, wf, nf => fun q hq => by
    simp only [WFEntries] at wf
    simp only [NaNFreeEntries] at nf
    rcases mem_cons.1 hq with h | h
    · rw [h]; exact ⟨canonOK L k wf.1 nf.1, canonOK L v wf.2.1 nf.2.1⟩
    · exact canonOK_e L kvs wf.2.2 nf.2.2 q h
end

end C04
