/-
C04 (round 2): every value of the fragment satisfies the leaf conditions
(`GoodAll`) — the string leaf is no longer a hypothesis (`strOK_all`).
The fragment is given abstractly (`FragLike`: any predicate that unfolds like
`C04_Frag` of `ElvProofs/C04.lean`), so that the statement there can keep its
readable membership form.
-/
import ElvProofs.C04.Final
import ElvProofs.C04.StrFull
namespace C04
open Go C01 C08 C09

/-- `P` unfolds like the fragment: no condition on strings, exact numbers in
elvish's own representation, floats under C05's strconv hypothesis (`C05.strconvOKAt`,
the same one `C05_float_roundtrip` takes — nothing C04-specific), lists and
maps of such values, nothing else. -/
structure FragLike (L : Lib) (P : Val → Prop) : Prop where
  int : ∀ i, P (.int i) → C05.fitsInt i = true
  bigint : ∀ i, P (.bigint i) → C05.fitsInt i = false
  rat : ∀ q, P (.rat q) → q.den ≠ 1
  float : ∀ b, P (.float b) → C05.strconvOKAt L.fmt b.toNat = true
  list : ∀ xs, P (.list xs) → ∀ x ∈ xs, P x
  map : ∀ kvs, P (.map false kvs) → ∀ p ∈ kvs, P p.1 ∧ P p.2
  fmap : ∀ kvs, ¬ P (.map true kvs)
  ref : ∀ a b, ¬ P (.ref a b)

section
variable {e : Env} {L : Lib} {P : Val → Prop}

mutual
theorem good_of_frag (hP : FragLike L P) : (v : Val) → P v → Good e L v
  | .nil, _ => trivial
  | .bool _, _ => trivial
  | .str s, _ => by simp only [Good]; exact strOK_all s
  | .int i, h => by simpa [Good, NumGood] using hP.int i h
  | .bigint i, h => by simpa [Good, NumGood] using hP.bigint i h
  | .rat q, h => by simpa [Good, NumGood] using hP.rat q h
  | .float b, h => by
    simp only [Good, NumGood]
    exact floatOK_of_strconv (hP.float b h)
  | .list xs, h => by
    simp only [Good]; exact good_of_frag_l hP xs (hP.list xs h)
  | .map false kvs, h => by
    simp only [Good]; exact good_of_frag_e hP kvs (hP.map kvs h)
  | .map true kvs, h => absurd h (hP.fmap kvs)
  | .ref a b, h => absurd h (hP.ref a b)
theorem good_of_frag_l (hP : FragLike L P) : (xs : List Val) → (∀ x ∈ xs, P x) → GoodList e L xs
  | [], _ => trivial
  | x :: xs, h =>
    ⟨good_of_frag hP x (h x List.mem_cons_self),
      good_of_frag_l hP xs (fun y hy => h y (List.mem_cons_of_mem _ hy))⟩
theorem good_of_frag_e (hP : FragLike L P) : (kvs : List (Val × Val)) → (∀ p ∈ kvs, P p.1 ∧ P p.2) →
    GoodEntries e L kvs
  | [], _ => trivial
  | (k, v) :: kvs, h =>
    ⟨good_of_frag hP k (h (k, v) List.mem_cons_self).1, good_of_frag hP v (h (k, v) List.mem_cons_self).2,
      good_of_frag_e hP kvs (fun p hp => h p (List.mem_cons_of_mem _ hp))⟩
end

end

theorem goodAll_of_frag {L : Lib} {P : Val → Prop} (hP : FragLike L P) (v : Val) (h : P v) : GoodAll L v :=
  fun src => good_of_frag (e := { isPrint := L.isPrint, src := src }) hP v h

end C04
