/-
C04: a chunk that is one command with one argument, `CMD ARG` (`num LIT`
inside an output capture, `put VALUE` at top level).
-/
import ElvProofs.C04.Leaf
namespace C04
open Go C01 C08 Gen.C01Chars

/-- what follows the argument: the end of the text or `)` -/
def EndCap (r : Bytes) : Prop := r = [] ∨ ∃ r', r = 41 :: r'

theorem headRune_endCap {r : Bytes} (h : EndCap r) : headRune r = -1 ∨ headRune r = 41 := by
  rcases h with rfl | ⟨r', rfl⟩
  · exact Or.inl rfl
  · exact Or.inr (headRune_ascii r' (by decide))

theorem stop_endCap {isPrint : Int → Bool} {r : Bytes} (h : EndCap r) (ctx : Int) : Stop isPrint ctx r := by
  constructor
  rcases headRune_endCap h with h | h <;> rw [h] <;> simp [startsPrimary, allowedInBareword, allowedInVariableName]

theorem stopSp_endCap {r : Bytes} (h : EndCap r) (nl : Bool) : StopSp nl r := by
  rcases headRune_endCap h with h | h <;> constructor <;> rw [h] <;> simp [IsInlineWhitespace, IsWhitespace]

/-- a text that starts a primary in a context other than `CmdExpr` does not start with
whitespace, `#`, `^` or `&` -/
theorem stopSp_of_starts {isPrint : Int → Bool} {ctx : Int} {T : Bytes} (hs : Starts isPrint ctx T)
    (hctx : ctx ≠ CmdExpr) (r : Bytes) (nl : Bool) : StopSp nl (T ++ r) := by
  have h := hs.start r
  have hc : (ctx == CmdExpr) = false := by simpa using hctx
  constructor
  · cases hw : IsInlineWhitespace (headRune (T ++ r)) with
    | false => rfl
    | true =>
      simp only [IsInlineWhitespace, Bool.or_eq_true, beq_iff_eq] at hw
      rcases hw with hw | hw <;> rw [hw] at h <;>
        simp [startsPrimary, allowedInBareword, allowedInVariableName, hc] at h
  · intro _
    cases hw : IsWhitespace (headRune (T ++ r)) with
    | false => rfl
    | true =>
      simp only [IsWhitespace, IsInlineWhitespace, Bool.or_eq_true, beq_iff_eq] at hw
      rcases hw with (((hw | hw) | hw) | hw) <;> rw [hw] at h <;>
        simp [startsPrimary, allowedInBareword, allowedInVariableName, hc] at h
  · intro hw; rw [hw] at h
    simp [startsPrimary, allowedInBareword, allowedInVariableName, hc] at h
  · intro hw; rw [hw] at h
    simp [startsPrimary, allowedInBareword, allowedInVariableName, hc] at h

theorem not_amp_of_starts {isPrint : Int → Bool} {ctx : Int} {T : Bytes} (hs : Starts isPrint ctx T)
    (r : Bytes) : headRune (T ++ r) ≠ 38 := by
  intro hw
  have h := hs.start r
  rw [hw] at h
  simp [startsPrimary, allowedInBareword, allowedInVariableName] at h

section
variable {e : Env} {s : St}

/-- an ASCII bareword is a primary -/
theorem prim_bareword {ctx : Int} {t : Bytes} {c0 : UInt8} {t' : Bytes} (ht : t = c0 :: t')
    (hall : AllAscii (fun c => allowedInBareword e.isPrint c ctx) t) : PrimOK e ctx t (.str t) := by
  intro fuel s r hf h hstop
  obtain ⟨f, rfl⟩ : ∃ f, fuel = f + 1 := ⟨fuel - 1, by rw [ht] at hf; simp at hf; omega⟩
  have hend : At e (adv s t.length) r := h.steps (fun c hc => (hall c hc).1)
  have hb := bareword_body (rec := fun nt' => parseNT f nt')
    { frm := s.pos, f := (NT.primary ctx).init, children := [] } ht hall h hstop rfl
  obtain ⟨txt, hw⟩ := prim_wrap (ctx := ctx) (fuel := f) hend.inv hb (by simp)
  refine ⟨_, hw, rfl, ?_⟩
  rw [evalNode_primary]
  simp [NB.setType, NB.setValue, Bareword]

theorem starts_bareword {ctx : Int} {t : Bytes} {c0 : UInt8} {t' : Bytes} (ht : t = c0 :: t')
    (hall : AllAscii (fun c => allowedInBareword e.isPrint c ctx) t) (hne : c0 ≠ 126) :
    Starts e.isPrint ctx t := by
  have hc0 := hall c0 (by rw [ht]; exact List.mem_cons_self)
  subst ht
  refine ⟨by simp, fun r => ?_, fun r => ?_⟩
  · rw [List.cons_append, headRune_ascii _ hc0.1]
    exact startsPrimary_of_bareword hc0.2
  · rw [List.cons_append, headRune_ascii _ hc0.1]
    intro hh
    apply hne
    have : c0.toNat = 126 := by omega
    exact UInt8.toNat_inj.1 (by simpa using this)

theorem evalAll_of_real {cs : List Node} {ns : List Node} (h : cs.filter nonSep = ns) :
    evalAll cs = evalAll ns := by rw [evalAll_filter, h]

theorem evalAll_two (a b : Node) (va vb : Val) (ha : a.kind ≠ .sep) (hb : b.kind ≠ .sep)
    (h1 : evalNode a = some va) (h2 : evalNode b = some vb) : evalAll [a, b] = some [va, vb] := by
  have := evalAll_append_one [a] b [va] vb
    (by simpa using evalAll_append_one [] a [] va rfl ha h1) hb h2
  simpa using this

/-- facts about the first byte of a command name -/
theorem cmd_head_facts {isPrint : Int → Bool} {c : UInt8} (hc : c.toNat < 128)
    (h : allowedInBareword isPrint (c.toNat : Int) CmdExpr = true) (hlt : c ≠ 60) (hgt : c ≠ 62) :
    isPipelineSep (c.toNat : Int) = false ∧ IsInlineWhitespace (c.toNat : Int) = false ∧
    (c.toNat : Int) ≠ 35 ∧ startsPipeline isPrint (c.toNat : Int) = true := by
  have hs : startsPipeline isPrint (c.toNat : Int) = true := by
    simp [startsPipeline, startsForm, startsCompound, startsIndexing, startsPrimary, h]
  refine ⟨?_, ?_, ?_, hs⟩
  · cases hw : isPipelineSep (c.toNat : Int) with
    | false => rfl
    | true =>
      simp only [isPipelineSep, Bool.or_eq_true, beq_iff_eq] at hw
      rcases hw with ((hw | hw) | hw) <;> rw [hw] at h <;>
        simp [allowedInBareword, allowedInVariableName] at h
  · cases hw : IsInlineWhitespace (c.toNat : Int) with
    | false => rfl
    | true =>
      simp only [IsInlineWhitespace, Bool.or_eq_true, beq_iff_eq] at hw
      rcases hw with hw | hw <;> rw [hw] at h <;>
        simp [allowedInBareword, allowedInVariableName] at h
  · intro hw; rw [hw] at h
    simp [allowedInBareword, allowedInVariableName] at h

/-- `CMD ARG` as a `Form` -/
theorem form_ok {cmd T r : Bytes} {c0 : UInt8} {cmd' : Bytes} {val : Val} (hcmd : cmd = c0 :: cmd')
    (hcA : AllAscii (fun c => allowedInBareword e.isPrint c CmdExpr) cmd) (hc0 : c0 ≠ 126)
    (hT : CompOK e NormalExpr T val) (hTs : Starts e.isPrint NormalExpr T)
    (fuel : Nat) (hf : 7 * T.length + 7 * cmd.length + 3 ≤ fuel)
    (h : At e s (cmd ++ 32 :: (T ++ r))) (hr : EndCap r) :
    ∃ n, parseNT fuel .form e s = .ok n (adv s (cmd.length + 1 + T.length)) ∧ n.kind = .form ∧
      evalAll n.children = some [.str cmd, val] := by
  obtain ⟨f, rfl⟩ : ∃ f, fuel = f + 1 := ⟨fuel - 1, by omega⟩
  -- head
  have hcomp : CompOK e CmdExpr cmd (.str cmd) :=
    comp_of_prim (prim_bareword hcmd hcA) (starts_bareword hcmd hcA hc0)
  have hstop1 : Stop e.isPrint CmdExpr (32 :: (T ++ r)) := by
    constructor
    rw [headRune_ascii _ (by decide)]
    simp [startsPrimary, allowedInBareword, allowedInVariableName]
  obtain ⟨hn, hhn, hhk, hhv⟩ := hcomp f s (32 :: (T ++ r)) (by omega) h hstop1
  have hA1 : At e (adv s cmd.length) (32 :: (T ++ r)) := h.after (by intro l; simp) hhn
  -- the space
  have hw1 : ∀ c ∈ [(32 : UInt8)], IsWs false c := by
    intro c hc; simp at hc; exact Or.inl hc
  have hnc : NormalExpr ≠ CmdExpr := by decide
  let nb0 : NB := { frm := s.pos, f := (NT.form).init, children := [] }
  obtain ⟨nb1, hsp1, hsame1⟩ := parseSpacesInner_ok (s := adv s cmd.length) (nb0.add hn) false (w := [32]) (r := T ++ r)
    hA1 hw1 (stopSp_of_starts hTs hnc r false)
  have hA2 : At e (adv (adv s cmd.length) 1) (T ++ r) := hA1.step (by decide)
  -- the argument
  obtain ⟨cn, hcn, hck, hcv⟩ := hT f (adv (adv s cmd.length) 1) r (by omega) hA2 (stop_endCap hr _)
  have hA3 : At e (adv (adv (adv s cmd.length) 1) T.length) r := hA2.after (by intro l; simp) hcn
  obtain ⟨nb2, hsp2, hsame2⟩ := parseSpacesInner_ok (s := adv (adv (adv s cmd.length) 1) T.length)
    (nb1.add cn) false (w := []) (r := r)
    (by simpa only [List.nil_append] using hA3) (by intro c hc; cases hc) (stopSp_endCap hr false)
  have hend := headRune_endCap hr
  have hb : body (fun nt' => parseNT f nt') .form nb0 e s = .ok nb2 (adv (adv (adv s cmd.length) 1) T.length) := by
    show formBody _ _ e s = _
    unfold formBody
    rw [bind_of_eq (show parseNT f (.compound CmdExpr) e s = _ from hhn)]
    have hsp1' : parseSpaces (nb0.add hn) e (adv s cmd.length) = .ok nb1 (adv (adv s cmd.length) 1) := hsp1
    rw [bind_of_eq hsp1', bind_of_eq (loopFuel_eq _ _)]
    show formLoop _ (e.src.length + 1 + 1) _ e _ = _
    unfold formLoop
    rw [bind_of_eq (getEnv_eq _ _), bind_of_eq hA2.peek_head]
    have hamp := not_amp_of_starts hTs r
    rw [if_neg (by simpa using hamp)]
    have hst : startsCompound e.isPrint (headRune (T ++ r)) NormalExpr = true := hTs.start r
    rw [if_pos hst, bind_of_eq (show parseNT f (.compound NormalExpr) e _ = _ from hcn),
      bind_of_eq hA3.peek_head]
    have hnr : isRedirSign (headRune r) = false := by
      rcases hend with h | h <;> rw [h] <;> simp [isRedirSign]
    have hsp2' : parseSpaces (nb1.add cn) e (adv (adv (adv s cmd.length) 1) T.length) =
        .ok nb2 (adv (adv (adv (adv s cmd.length) 1) T.length) 0) := hsp2
    simp only [hnr, Bool.false_eq_true, if_false]
    rw [bind_of_eq hsp2']
    unfold formLoop
    simp only [adv_zero]
    rw [bind_of_eq (getEnv_eq _ _), bind_of_eq hA3.peek_head]
    have hna : ¬ (headRune r == 38) = true := by
      rcases hend with h | h <;> rw [h] <;> simp
    have hnc2 : startsCompound e.isPrint (headRune r) NormalExpr = false := (stop_endCap hr NormalExpr).notStart
    rw [if_neg hna]
    simp only [hnc2, hnr, Bool.false_eq_true, if_false]
    rfl
  have hfrm : nb2.frm = s.pos := by rw [hsame2.frm]; show nb1.frm = _; rw [hsame1.frm]; rfl
  obtain ⟨txt, hw⟩ := wrap_ok (rec := fun nt' => parseNT f nt') hA3.inv hb (by rw [hfrm]; simp)
  have hw' : parseNT (f + 1) .form e s = _ := hw
  have hst : adv (adv (adv s cmd.length) 1) T.length = adv s (cmd.length + 1 + T.length) := by
    simp [adv, Nat.add_assoc]
  rw [hst] at hw'
  refine ⟨_, hw', rfl, ?_⟩
  show evalAll nb2.children = _
  have hreal : nb2.children.filter nonSep = [hn, cn] := by
    have r2 : real nb2 = real (nb1.add cn) := hsame2.real
    have r1 : real nb1 = real (nb0.add hn) := hsame1.real
    rw [real_add nb1 cn (by rw [hck]; simp), r1, real_add nb0 hn (by rw [hhk]; simp)] at r2
    exact r2
  rw [evalAll_of_real hreal]
  exact evalAll_two hn cn _ _ (by rw [hhk]; simp) (by rw [hck]; simp) hhv hcv

/-- what a one-command chunk evaluates to -/
def formValue (cmd : Bytes) (val : Val) : Option Val :=
  if cmd == cmdPut then some val
  else if cmd == cmdNum then
    match val with
    | .str t => (C05.parseNum t).map numToVal
    | _ => none
  else none

theorem evalNode_form (a b : Nat) (t : Bytes) (f : Fields) (cs : List Node) (cmd : Bytes) (val : Val)
    (h : evalAll cs = some [.str cmd, val]) : evalNode (.mk .form a b t f cs) = formValue cmd val := by
  rw [evalNode, h]
  rfl

theorem parseSeps_none (nb : NB) {r : Bytes} (h : At e s r) (h1 : isPipelineSep (headRune r) = false)
    (h2 : IsInlineWhitespace (headRune r) = false) (h3 : headRune r ≠ 35) :
    parseSeps nb e s = .ok (0, nb) s := by
  unfold parseSeps
  rw [bind_of_eq (loopFuel_eq _ _)]
  show parseSepsLoop (e.src.length + 1 + 1) 0 nb e s = _
  unfold parseSepsLoop
  rw [bind_of_eq h.peek_head]
  have h3' : (headRune r == 35) = false := by simpa using h3
  simp only [h1, h2, h3', Bool.false_eq_true, if_false, Bool.or_self]
  rfl

theorem endCap_facts {r : Bytes} (hr : EndCap r) :
    isPipelineSep (headRune r) = false ∧ IsInlineWhitespace (headRune r) = false ∧ headRune r ≠ 35 ∧
    headRune r ≠ 124 ∧ headRune r ≠ 38 := by
  rcases headRune_endCap hr with h | h <;> rw [h] <;> simp [isPipelineSep, IsInlineWhitespace]

/-- `CMD ARG` as a `Chunk` -/
theorem chunk_ok {cmd T r : Bytes} {c0 : UInt8} {cmd' : Bytes} {val : Val} (hcmd : cmd = c0 :: cmd')
    (hcA : AllAscii (fun c => allowedInBareword e.isPrint c CmdExpr) cmd) (hc0 : c0 ≠ 126)
    (hc1 : c0 ≠ 60) (hc2 : c0 ≠ 62)
    (hT : CompOK e NormalExpr T val) (hTs : Starts e.isPrint NormalExpr T)
    (fuel : Nat) (hf : 7 * T.length + 7 * cmd.length + 5 ≤ fuel)
    (h : At e s (cmd ++ 32 :: (T ++ r))) (hr : EndCap r) :
    ∃ n, parseNT fuel .chunk e s = .ok n (adv s (cmd.length + 1 + T.length)) ∧ n.kind = .chunk ∧
      evalNode n = formValue cmd val := by
  obtain ⟨f, rfl⟩ : ∃ f, fuel = f + 2 := ⟨fuel - 2, by omega⟩
  obtain ⟨fn, hfn, hfk, hfv⟩ := form_ok hcmd hcA hc0 hT hTs f (by omega) h hr
  have hlen : (cmd ++ 32 :: T).length = cmd.length + 1 + T.length := by simp; omega
  have h' : At e s ((cmd ++ 32 :: T) ++ r) := by simpa using h
  have hA : At e (adv s (cmd.length + 1 + T.length)) r := by
    rw [← hlen]; rw [← hlen] at hfn
    exact h'.after (by intro l; simp) hfn
  obtain ⟨f1, f2, f3, f4, f5⟩ := endCap_facts hr
  -- the pipeline
  let pb0 : NB := { frm := s.pos, f := (NT.pipeline).init, children := [] }
  obtain ⟨pb1, hsp, hsame⟩ := parseSpacesInner_ok (s := adv s (cmd.length + 1 + T.length)) (pb0.add fn) false
    (w := []) (r := r) (by simpa only [List.nil_append] using hA) (by intro c hc; cases hc) (stopSp_endCap hr false)
  have hpb : body (fun nt' => parseNT f nt') .pipeline pb0 e s = .ok pb1 (adv s (cmd.length + 1 + T.length)) := by
    show pipelineBody _ _ e s = _
    unfold pipelineBody
    rw [bind_of_eq (show parseNT f .form e s = _ from hfn), bind_of_eq (loopFuel_eq _ _)]
    have hloop : pipelineLoop (fun nt' => parseNT f nt') (e.src.length + 2) (pb0.add fn) e
        (adv s (cmd.length + 1 + T.length)) = .ok (false, pb0.add fn) (adv s (cmd.length + 1 + T.length)) := by
      show pipelineLoop _ (e.src.length + 1 + 1) _ e _ = _
      unfold pipelineLoop
      rw [bind_of_eq (getEnv_eq _ _), bind_of_eq (parseSep_no _ hA 124 f4)]
      rfl
    rw [bind_of_eq hloop]
    simp only [Bool.false_eq_true, if_false]
    have hsp' : parseSpaces (pb0.add fn) e (adv s (cmd.length + 1 + T.length)) =
        .ok pb1 (adv (adv s (cmd.length + 1 + T.length)) 0) := hsp
    rw [bind_of_eq hsp']
    simp only [adv_zero]
    rw [bind_of_eq hA.peek_head]
    rw [if_neg (by simpa using f5)]
    rfl
  have hpfrm : pb1.frm = s.pos := by rw [hsame.frm]; rfl
  obtain ⟨ptxt, hpw⟩ := wrap_ok (rec := fun nt' => parseNT f nt') hA.inv hpb (by rw [hpfrm]; simp)
  have hpw' : parseNT (f + 1) .pipeline e s = _ := hpw
  have hpv : evalNode (.mk .pipeline pb1.frm (adv s (cmd.length + 1 + T.length)).pos ptxt pb1.f pb1.children) =
      formValue cmd val := by
    rw [evalNode_pipeline]
    have hflag : pb1.f.flag = false := by rw [hsame.f]; rfl
    rw [hflag]
    simp only [Bool.false_eq_true, if_false]
    have hreal : pb1.children.filter nonSep = [fn] := by
      have r1 : real pb1 = real (pb0.add fn) := hsame.real
      rw [real_add pb0 fn (by rw [hfk]; simp)] at r1
      exact r1
    rw [evalSingle_filter, hreal, evalSingle_one fn (by rw [hfk]; simp)]
    obtain ⟨k, a, b, t, ff, cs⟩ := fn
    have hk : k = .form := hfk
    subst hk
    exact evalNode_form a b t ff cs cmd val hfv
  -- the chunk
  have hc0' := hcA c0 (by rw [hcmd]; exact List.mem_cons_self)
  obtain ⟨g1, g2, g3, g4⟩ := cmd_head_facts hc0'.1 hc0'.2 hc1 hc2
  have hh : At e s (c0 :: (cmd' ++ 32 :: (T ++ r))) := by rw [hcmd] at h; exact h
  have hhead : headRune (c0 :: (cmd' ++ 32 :: (T ++ r))) = (c0.toNat : Int) := headRune_ascii _ hc0'.1
  let cb0 : NB := { frm := s.pos, f := (NT.chunk).init, children := [] }
  have hcb : body (fun nt' => parseNT (f + 1) nt') .chunk cb0 e s =
      .ok (cb0.add (.mk .pipeline pb1.frm (adv s (cmd.length + 1 + T.length)).pos ptxt pb1.f pb1.children))
        (adv s (cmd.length + 1 + T.length)) := by
    show chunkBody _ _ e s = _
    unfold chunkBody
    rw [bind_of_eq (parseSeps_none cb0 hh (by rw [hhead]; exact g1) (by rw [hhead]; exact g2) (by rw [hhead]; exact g3))]
    show (loopFuel >>= fun k => chunkLoop (fun nt' => parseNT (f + 1) nt') k cb0) e s = _
    rw [bind_of_eq (loopFuel_eq _ _)]
    show chunkLoop _ (e.src.length + 1 + 1) _ e _ = _
    unfold chunkLoop
    rw [bind_of_eq (getEnv_eq _ _), bind_of_eq hh.peek_head, hhead]
    simp only [g4, if_true]
    rw [bind_of_eq hpw', bind_of_eq (parseSeps_none _ hA f1 f2 f3)]
    rfl
  obtain ⟨ctxt, hcw⟩ := wrap_ok (rec := fun nt' => parseNT (f + 1) nt') hA.inv hcb (by simp [NB.add, cb0])
  refine ⟨_, hcw, rfl, ?_⟩
  show evalNode (.mk .chunk _ _ _ _ _) = _
  rw [evalNode_chunk]
  show evalSingle [_] = _
  rw [evalSingle_one _ (by simp [Node.kind])]
  exact hpv

theorem endCap_cons (r : Bytes) : EndCap (41 :: r) := Or.inr ⟨r, rfl⟩

/-- `(CMD ARG)` as a `Primary` (output capture) -/
theorem capture_ok {ctx : Int} {cmd T : Bytes} {c0 : UInt8} {cmd' : Bytes} {val : Val} (hcmd : cmd = c0 :: cmd')
    (hcA : AllAscii (fun c => allowedInBareword e.isPrint c CmdExpr) cmd) (hc0 : c0 ≠ 126)
    (hc1 : c0 ≠ 60) (hc2 : c0 ≠ 62)
    (hT : CompOK e NormalExpr T val) (hTs : Starts e.isPrint NormalExpr T)
    (fuel : Nat) (hf : 7 * T.length + 7 * cmd.length + 6 ≤ fuel) {r : Bytes}
    (h : At e s ((40 :: (cmd ++ 32 :: (T ++ [41]))) ++ r)) (hstop : Stop e.isPrint ctx r) :
    ∃ n, parseNT fuel (.primary ctx) e s = .ok n (adv s (cmd.length + T.length + 3)) ∧ n.kind = .primary ∧
      evalNode n = formValue cmd val := by
  obtain ⟨f, rfl⟩ : ∃ f, fuel = f + 1 := ⟨fuel - 1, by omega⟩
  have h0 : At e s (40 :: (cmd ++ 32 :: (T ++ 41 :: r))) := by simpa using h
  have h1 : At e (adv s 1) (cmd ++ 32 :: (T ++ 41 :: r)) := h0.step (by decide)
  obtain ⟨cn, hcn, hck, hcv⟩ := chunk_ok (s := adv s 1) hcmd hcA hc0 hc1 hc2 hT hTs f (by omega) h1 (endCap_cons r)
  have hlen : (cmd ++ 32 :: T).length = cmd.length + 1 + T.length := by simp; omega
  have h1' : At e (adv s 1) ((cmd ++ 32 :: T) ++ 41 :: r) := by simpa using h1
  have h2 : At e (adv (adv s 1) (cmd.length + 1 + T.length)) (41 :: r) := by
    rw [← hlen]; rw [← hlen] at hcn
    exact h1'.after (by intro l; simp) hcn
  have h3 : At e (adv (adv (adv s 1) (cmd.length + 1 + T.length)) 1) r := h2.step (by decide)
  let nb0 : NB := { frm := s.pos, f := (NT.primary ctx).init, children := [] }
  obtain ⟨nb1, hs1, hsame1⟩ := parseSep_yes (nb0.setType OutputCapture) h0 (by decide) 40 (by decide)
  obtain ⟨nb2, hs2, hsame2⟩ := parseSep_yes (nb1.add cn) h2 (by decide) 41 (by decide)
  have hb : primaryBody (fun nt' => parseNT f nt') nb0 e s =
      .ok nb2 (adv (adv (adv s 1) (cmd.length + 1 + T.length)) 1) := by
    unfold primaryBody
    rw [bind_of_eq (getEnv_eq _ _), bind_of_eq (h0.peek_cons (by decide))]
    have e1 : startsPrimary e.isPrint (((40 : UInt8).toNat : Nat) : Int) nb0.f.ctx = true := by
      simp [startsPrimary]
    have e2 : allowedInBareword e.isPrint (((40 : UInt8).toNat : Nat) : Int) nb0.f.ctx = false := by
      simp [allowedInBareword, allowedInVariableName]
    simp only [e1, e2, Bool.not_true, Bool.false_eq_true, if_false]
    rw [if_neg (by decide), if_neg (by decide), if_neg (by decide), if_neg (by decide), if_neg (by decide),
      if_pos (by decide)]
    unfold outputCapture
    rw [bind_of_eq hs1]
    show (parseNT f .chunk >>= _) e (adv s 1) = _
    rw [bind_of_eq hcn, bind_of_eq hs2]
    rfl
  have hfrm : nb2.frm = s.pos := by rw [hsame2.frm]; show nb1.frm = _; rw [hsame1.frm]; rfl
  obtain ⟨txt, hw⟩ := prim_wrap (ctx := ctx) (fuel := f) h3.inv hb (by rw [hfrm]; simp)
  have hst : adv (adv (adv s 1) (cmd.length + 1 + T.length)) 1 = adv s (cmd.length + T.length + 3) := by
    simp [adv]; omega
  rw [hst] at hw
  refine ⟨_, hw, rfl, ?_⟩
  have hpt : nb2.f.ptype = OutputCapture := by
    rw [hsame2.f]; show nb1.f.ptype = _; rw [hsame1.f]; rfl
  rw [evalNode_primary_capture _ _ _ _ _ hpt]
  have hreal : nb2.children.filter nonSep = [cn] := by
    have r2 : real nb2 = real (nb1.add cn) := hsame2.real
    have r1 : real nb1 = real (nb0.setType OutputCapture) := hsame1.real
    rw [real_add nb1 cn (by rw [hck]; simp), r1] at r2
    exact r2
  rw [evalSingle_filter, hreal, evalSingle_one cn (by rw [hck]; simp)]
  exact hcv

end
end C04
