/-
C04: the round trip, by induction on the value.
-/
import ElvProofs.C04.Layout
namespace C04
open Go C01 C08 C09 Gen.C01Chars

/-! ### what is assumed of the leaves -/

mutual
/-- A value of the fragment whose leaves satisfy the leaf hypotheses: strings
are read back from their quoted form (`StrOK`, C03's subject), numbers are in
elvish's own representation and floats satisfy C05's strconv hypothesis
(`NumGood`); no field maps, no identity kinds. -/
def Good (e : Env) (L : Lib) : Val → Prop
  | .nil => True
  | .bool _ => True
  | .str s => StrOK e s
  | .int i => NumGood L (.int i)
  | .bigint i => NumGood L (.bigint i)
  | .rat q => NumGood L (.rat q)
  | .float b => NumGood L (.float b)
  | .list xs => GoodList e L xs
  | .map false kvs => GoodEntries e L kvs
  | .map true _ => False
  | .ref _ _ => False
def GoodList (e : Env) (L : Lib) : List Val → Prop
  | [] => True
  | x :: xs => Good e L x ∧ GoodList e L xs
def GoodEntries (e : Env) (L : Lib) : List (Val × Val) → Prop
  | [] => True
  | (k, v) :: kvs => Good e L k ∧ Good e L v ∧ GoodEntries e L kvs
end

/-- what the induction proves about one value: in both contexts a value can
stand in, at every indent, its text is one primary that evaluates to `canon`. -/
def ValOK (e : Env) (L : Lib) (v : Val) : Prop :=
  ∀ (indent : Int) (ctx : Int), ctx = NormalExpr ∨ ctx = LHSExpr →
    PrimOK e ctx (repr L true v indent) (canon L v) ∧ Starts e.isPrint ctx (repr L true v indent)

theorem reprList_eq_map (L : Lib) (fixed : Bool) (i : Int) : ∀ xs : List Val,
    reprList L fixed xs i = xs.map (fun x => repr L fixed x i)
  | [] => by simp [reprList]
  | x :: xs => by simp [reprList, reprList_eq_map L fixed i xs]

theorem canonList_eq_map (L : Lib) : ∀ xs : List Val, canonList L xs = xs.map (canon L)
  | [] => by simp [canonList]
  | x :: xs => by simp [canonList, canonList_eq_map L xs]

/-- the entry the sort looks at, and the canonical pair -/
def canonEntry (L : Lib) (p : Val × Val) : Entry × (Val × Val) :=
  ({ key := p.1, plain := repr L true p.1 minInt, k := [], v := [] }, (canon L p.1, canon L p.2))

theorem canonEntries_eq_map (L : Lib) : ∀ kvs : List (Val × Val), canonEntries L kvs = kvs.map (canonEntry L)
  | [] => by simp [canonEntries]
  | (k, v) :: kvs => by simp [canonEntries, canonEntry, canonEntries_eq_map L kvs]

section SortMap
variable {α β : Type} (g : α → β) (lt : α → α → Bool) (lt' : β → β → Bool)

theorem insRev_map (h : ∀ a b, lt' (g a) (g b) = lt a b) (x : α) : ∀ ys : List α,
    insRev lt' (g x) (ys.map g) = (insRev lt x ys).map g
  | [] => rfl
  | y :: ys => by
    simp only [List.map_cons, insRev, h]
    split <;> simp [insRev_map h x ys]

theorem foldl_insRev_map (h : ∀ a b, lt' (g a) (g b) = lt a b) : ∀ (xs acc : List α),
    (xs.map g).foldl (fun acc x => insRev lt' x acc) (acc.map g) =
      (xs.foldl (fun acc x => insRev lt x acc) acc).map g
  | [], _ => rfl
  | x :: xs, acc => by
    simp only [List.map_cons, List.foldl_cons]
    rw [insRev_map g lt lt' h, foldl_insRev_map h xs]

theorem isort_map (h : ∀ a b, lt' (g a) (g b) = lt a b) (xs : List α) :
    isort lt' (xs.map g) = (isort lt xs).map g := by
  unfold isort
  have := foldl_insRev_map g lt lt' h xs []
  simp only [List.map_nil] at this
  rw [this, List.map_reverse]

end SortMap

/-- the comparator of `reprMap` seen on the entries themselves -/
def pairLess (L : Lib) (p q : Val × Val) : Bool :=
  entryLess L.rank true (entryOf L true 0 p) (entryOf L true 0 q)

theorem entryLess_entryOf (L : Lib) (indent : Int) (p q : Val × Val) :
    entryLess L.rank true (entryOf L true indent p) (entryOf L true indent q) = pairLess L p q := rfl

theorem entryLess_canonEntry (L : Lib) (p q : Val × Val) :
    entryLess L.rank true (canonEntry L p).1 (canonEntry L q).1 = pairLess L p q := rfl

theorem repr_map_sorted (L : Lib) (kvs : List (Val × Val)) (indent : Int) :
    repr L true (.map false kvs) indent = mapText indent ((isort (pairLess L) kvs).map (entryOf L true indent)) := by
  rw [repr_map, isort_map (entryOf L true indent) (pairLess L) (entryLess L.rank true)
    (entryLess_entryOf L indent)]

theorem canon_map_sorted (L : Lib) (kvs : List (Val × Val)) :
    canon L (.map false kvs) =
      .map false (assocAll ((isort (pairLess L) kvs).map fun p => (canon L p.1, canon L p.2)) []) := by
  rw [canon, canonEntries_eq_map,
    isort_map (canonEntry L) (pairLess L) (fun a b => entryLess L.rank true a.1 b.1) (entryLess_canonEntry L)]
  simp [canonEntry, List.map_map, Function.comp_def]

section
variable {e : Env}

theorem starts_bracket (isPrint : Int → Bool) (ctx : Int) (t : Bytes) : Starts isPrint ctx (91 :: t) := by
  refine ⟨by simp, fun r => ?_, fun r => ?_⟩
  · rw [List.cons_append, headRune_ascii _ (by decide)]; simp [startsPrimary]
  · rw [List.cons_append, headRune_ascii _ (by decide)]; decide

theorem ValOK.comp {L : Lib} {v : Val} (h : ValOK e L v) (indent : Int) (ctx : Int)
    (hctx : ctx = NormalExpr ∨ ctx = LHSExpr) :
    CompOK e ctx (repr L true v indent) (canon L v) ∧ Starts e.isPrint ctx (repr L true v indent) :=
  ⟨comp_of_prim (h indent ctx hctx).1 (h indent ctx hctx).2, (h indent ctx hctx).2⟩

theorem list_case (L : Lib) (xs : List Val) (h : ∀ x ∈ xs, ValOK e L x) : ValOK e L (.list xs) := by
  intro indent ctx _
  have hr : repr L true (.list xs) indent = listString indent (xs.map fun x => repr L true x (indent + 1)) := by
    rw [repr, reprList_eq_map]
  have hc : canon L (.list xs) = .list (xs.map (canon L)) := by rw [canon, canonList_eq_map]
  rw [hr, hc]
  have hall : All2 (fun t v => ∀ w, ElemOK e (t, w) v) (xs.map fun x => repr L true x (indent + 1))
      (xs.map (canon L)) := by
    clear hr hc
    induction xs with
    | nil => exact .nil
    | cons x xs ih =>
      refine .cons (fun w => ?_) (ih (fun y hy => h y (List.mem_cons_of_mem _ hy)))
      have := (h x List.mem_cons_self).comp (indent + 1) NormalExpr (Or.inl rfl)
      exact ⟨this.1, this.2⟩
  cases xs with
  | nil =>
    simp only [List.map_nil]
    rw [listString_nil]
    exact ⟨list_prim (w0 := []) (items := []) (vals := []) (by intro c hc; cases hc) trivial .nil,
      starts_bracket _ _ _⟩
  | cons x xs' =>
    simp only [List.map_cons] at hall ⊢
    have hne : repr L true x (indent + 1) ≠ [] :=
      ((h x List.mem_cons_self) (indent + 1) NormalExpr (Or.inl rfl)).2.ne
    rw [listString_cons indent _ _ hne]
    exact ⟨list_prim (wsAll_sepBefore indent true) (itemsOK_mkItems indent _) (all2_mkItems indent _ _ hall),
      starts_bracket _ _ _⟩

/-- the text `WritePair` hands to `WriteElem` -/
theorem pairString_eq (k v : Bytes) (pindent : Int) :
    ∃ tb, pairString k pindent v = 38 :: (k ++ 61 :: (tb ++ v)) ∧ (∀ c ∈ tb, IsWs true c) := by
  unfold pairString
  split
  · exact ⟨[9], by simp, by intro c hc; simp at hc; exact Or.inr (Or.inl hc)⟩
  · exact ⟨[], by simp, by intro c hc; cases hc⟩

theorem map_case (L : Lib) (kvs : List (Val × Val)) (h : ∀ p ∈ kvs, ValOK e L p.1 ∧ ValOK e L p.2) :
    ValOK e L (.map false kvs) := by
  intro indent ctx _
  rw [repr_map_sorted, canon_map_sorted]
  have hperm : (isort (pairLess L) kvs).Perm kvs := isort_perm _ _
  generalize isort (pairLess L) kvs = sorted at hperm
  have hs : ∀ p ∈ sorted, ValOK e L p.1 ∧ ValOK e L p.2 := fun p hp => h p (hperm.subset hp)
  unfold mapText
  rw [List.map_map]
  have hall : All2 (fun t kv => ∀ w, PairOK e (t, w) kv)
      (sorted.map ((fun en : Entry => pairString en.k (indent + 2) en.v) ∘ entryOf L true indent))
      (sorted.map fun p => (canon L p.1, canon L p.2)) := by
    clear hperm
    induction sorted with
    | nil => exact .nil
    | cons p ps ih =>
      refine .cons (fun w => ?_) (ih (fun q hq => hs q (List.mem_cons_of_mem _ hq)))
      obtain ⟨hk, hv⟩ := hs p List.mem_cons_self
      obtain ⟨tb, htb, hws⟩ := pairString_eq (repr L true p.1 (indent + 1)) (repr L true p.2 (indent + 2)) (indent + 2)
      have ck := hk.comp (indent + 1) LHSExpr (Or.inr rfl)
      have cv := hv.comp (indent + 2) NormalExpr (Or.inl rfl)
      exact ⟨_, tb, _, htb, hws, ck.1, ck.2, cv.1, cv.2⟩
  cases sorted with
  | nil =>
    simp only [List.map_nil, List.foldl_nil]
    have : mapBuilderString indent [] = [91, 38, 93] := by
      simp [mapBuilderString, builderString]
    rw [this]
    refine ⟨emptymap_prim, starts_bracket _ _ _⟩
  | cons p ps =>
    simp only [List.map_cons] at hall ⊢
    have hne : ((fun en : Entry => pairString en.k (indent + 2) en.v) ∘ entryOf L true indent) p ≠ [] := by
      simp only [Function.comp]
      unfold pairString
      split <;> simp
    rw [mapBuilder_cons indent _ _ hne]
    refine ⟨map_prim (wsAll_sepBefore indent true) (itemsOK_mkItems indent _) (all2_mkItems indent _ _ hall)
      (mkItems_ne indent (by simp)), starts_bracket _ _ _⟩

end

/-! ### the induction -/

section
variable {e : Env} {L : Lib}

mutual
theorem valOK (hL : L.isPrint = e.isPrint) : (v : Val) → Good e L v → ValOK e L v
  | .nil, _ => fun indent ctx _ => nil_ok L true ctx indent
  | .bool b, _ => fun indent ctx _ => bool_ok L true b ctx indent
  | .str s, hg => fun indent ctx hctx => by
    simp only [Good] at hg
    simp only [repr, canon, hL]
    rcases hctx with rfl | rfl
    · exact hg.normal
    · exact hg.lhs
  | .int i, hg => fun indent ctx _ => num_ok L true (.int i) (by simpa [Good] using hg) ctx indent
  | .bigint i, hg => fun indent ctx _ => num_ok L true (.bigint i) (by simpa [Good] using hg) ctx indent
  | .rat q, hg => fun indent ctx _ => num_ok L true (.rat q) (by simpa [Good] using hg) ctx indent
  | .float b, hg => fun indent ctx _ => num_ok L true (.float b) (by simpa [Good] using hg) ctx indent
  | .list xs, hg => list_case L xs (listOK hL xs (by simpa [Good] using hg))
  | .map false kvs, hg => map_case L kvs (entriesOK hL kvs (by simpa [Good] using hg))
  | .map true _, hg => absurd hg (by simp [Good])
  | .ref _ _, hg => absurd hg (by simp [Good])
theorem listOK (hL : L.isPrint = e.isPrint) : (xs : List Val) → GoodList e L xs → ∀ x ∈ xs, ValOK e L x
  | [], _ => fun _ hx => by cases hx
  | x :: xs, hg => fun y hy => by
    simp only [GoodList] at hg
    rcases List.mem_cons.1 hy with h | h
    · rw [h]; exact valOK hL x hg.1
    · exact listOK hL xs hg.2 y h
theorem entriesOK (hL : L.isPrint = e.isPrint) : (kvs : List (Val × Val)) → GoodEntries e L kvs →
    ∀ p ∈ kvs, ValOK e L p.1 ∧ ValOK e L p.2
  | [], _ => fun _ hp => by cases hp
  | (k, v) :: kvs, hg => fun q hq => by
    simp only [GoodEntries] at hg
    rcases List.mem_cons.1 hq with h | h
    · rw [h]; exact ⟨valOK hL k hg.1, valOK hL v hg.2.1⟩
    · exact entriesOK hL kvs hg.2.2 q h
end

end
end C04
