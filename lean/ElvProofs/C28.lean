/-
C28 — Editor buffer commands keep the cursor valid and edit exactly.

Property theorems over the model `ElvModel/C28/{Model,CodeArea}.lean`
(tied to pkg/edit/buffer_builtins.go and pkg/cli/tk/codearea.go by
`./check C28`).  `Boundary buf dot` (ElvModel/C28/Spec.lean): `0 ≤ dot ≤ |buf|`
and the text on both sides of the dot is valid UTF-8.  All theorems hold for
every `Env` (every `unicode.*` / `wcwidth.OfRune` table).
-/
import ElvProofs.C28.MoverSpec
import ElvProofs.C28.TransformSpec
import ElvProofs.C28.WordSpec
import ElvProofs.C28.UpDownSpec
import ElvProofs.C28.CodeAreaSpec
import ElvProofs.C28.Bridge
open Go C28

/-- `a世b` with the dot after `a`. -/
example : Boundary [0x61, 0xE4, 0xB8, 0x96, 0x62] 1 := by unfold Boundary; decide

/-- `Boundary` is the usual Go test: on valid UTF-8, the dot is on a character
boundary iff `0 ≤ dot ≤ len(s)` and `dot == len(s) || utf8.RuneStart(s[dot])`
(this is how the implementation-side oracle of `./check C28` tests it). -/
theorem C28_boundary_is_runeStart (buf : Bytes) (dot : Int) :
    Boundary buf dot ↔
      validUtf8 buf = true ∧ 0 ≤ dot ∧ dot ≤ buf.length ∧
        (dot = buf.length ∨ ∃ b, buf[dot.toNat]? = some b ∧ runeStart b = true) :=
  boundary_iff_runeStart buf dot

/-- Every dot movement (left/right, the six word motions, start/end of line,
up/down) of a valid buffer with the dot on a character boundary does not
panic and returns a dot inside the buffer and on a character boundary. -/
theorem C28_mover_boundary (E : Env) (m : Mover) (buf : Bytes) (dot : Int) (h : Boundary buf dot) :
    ∃ d', m.fn E buf dot = .ok d' ∧ Boundary buf d' :=
  m.boundary E buf dot h

/-- The `move-dot-*` builtins leave the text alone. -/
theorem C28_move_builtin (E : Env) (m : Mover) (buf : Bytes) (dot : Int) (h : Boundary buf dot) :
    ∃ d', (Cmd.move m).fn E buf dot = .ok (buf, d') ∧ Boundary buf d' := by
  obtain ⟨d', h1, h2⟩ := m.boundary E buf dot h
  exact ⟨d', by simp [Cmd.fn, makeMove, h1], h2⟩

/-- Kill commands delete exactly the text between the old dot and the dot the
corresponding movement would reach, and leave the dot at the smaller of the
two, on a boundary of the new (valid) buffer. -/
theorem C28_kill_exact (E : Env) (m : Mover) (buf : Bytes) (dot : Int) (h : Boundary buf dot) :
    ∃ d', m.fn E buf dot = .ok d' ∧
      (Cmd.kill m).fn E buf dot =
        .ok (buf.take (min dot d').toNat ++ buf.drop (max dot d').toNat, min dot d') ∧
      Boundary (buf.take (min dot d').toNat ++ buf.drop (max dot d').toNat) (min dot d') := by
  obtain ⟨d', h1, h2⟩ := m.boundary E buf dot h
  refine ⟨d', h1, makeKill_spec _ buf dot d' h1 h.1 h.2.1 h2.1 h2.2.1, ?_⟩
  by_cases hle : dot ≤ d'
  · rw [Int.min_eq_left hle, Int.max_eq_right hle]; exact boundary_cut buf dot d' h h2 hle
  · have hle' : d' ≤ dot := by omega
    rw [Int.min_eq_right hle', Int.max_eq_left hle']; exact boundary_cut buf d' dot h2 h hle'

/-- non-vacuity: `kill-word-left` on `ab cd|` really deletes `cd`. -/
example : (Cmd.kill .leftWord).fn ⟨fun r => r == 32, fun _ => true, fun _ => false, fun _ => true, fun _ => false, fun _ => 1⟩
    [0x61, 0x62, 0x20, 0x63, 0x64] 5 = .ok ([0x61, 0x62, 0x20], 3) := by decide

/-- Transpose commands (`transpose-rune`, `-word`, `-small-word`, `-alnum-word`)
cut the buffer into five pieces of whole characters `a l m r z` and exchange
`l` and `r`; the dot ends after the exchanged region, on a boundary.  (The
"nothing to transpose" cases are the instance `l = m = r = []`, `a = buf[:dot]`.) -/
theorem C28_transpose_swap (E : Env) (t : Transformer) (buf : Bytes) (dot : Int) (h : Boundary buf dot) :
    ∃ a l m r z : Bytes,
      buf = a ++ l ++ m ++ r ++ z ∧
      validUtf8 a = true ∧ validUtf8 l = true ∧ validUtf8 m = true ∧ validUtf8 r = true ∧ validUtf8 z = true ∧
      (Cmd.transform t).fn E buf dot = .ok (a ++ r ++ m ++ l ++ z, ((a ++ r ++ m ++ l).length : Int)) ∧
      Boundary (a ++ r ++ m ++ l ++ z) ((a ++ r ++ m ++ l).length : Int) := by
  obtain ⟨a, l, m, r, z, h1, va, vl, vm, vr, vz, h2⟩ := t.swap E buf dot h
  refine ⟨a, l, m, r, z, h1, va, vl, vm, vr, vz, h2, by omega, by simp only [List.length_append]; omega, ?_, ?_⟩
  · rw [Int.toNat_natCast, List.take_left' rfl]
    exact validUtf8_append (validUtf8_append (validUtf8_append va vr) vm) vl
  · rw [Int.toNat_natCast, List.drop_left' rfl]; exact vz

/-- Transpose commands only reorder text: the runes of the result are a
permutation of the runes of the input (nothing added, nothing dropped). -/
theorem C28_transpose_perm (E : Env) (t : Transformer) (buf : Bytes) (dot : Int) (h : Boundary buf dot) :
    ∃ out d', (Cmd.transform t).fn E buf dot = .ok (out, d') ∧ Boundary out d' ∧
      (toRunes out).Perm (toRunes buf) := by
  obtain ⟨a, l, m, r, z, h1, va, vl, vm, vr, vz, h2, h3⟩ := C28_transpose_swap E t buf dot h
  refine ⟨_, _, h2, h3, ?_⟩
  have e1 : toRunes (a ++ r ++ m ++ l ++ z) = toRunes a ++ toRunes r ++ toRunes m ++ toRunes l ++ toRunes z := by
    rw [toRunes_append (validUtf8_append (validUtf8_append (validUtf8_append va vr) vm) vl) vz,
      toRunes_append (validUtf8_append (validUtf8_append va vr) vm) vl,
      toRunes_append (validUtf8_append va vr) vm, toRunes_append va vr]
  have e2 : toRunes buf = toRunes a ++ toRunes l ++ toRunes m ++ toRunes r ++ toRunes z := by
    rw [h1, toRunes_append (validUtf8_append (validUtf8_append (validUtf8_append va vl) vm) vr) vz,
      toRunes_append (validUtf8_append (validUtf8_append va vl) vm) vr,
      toRunes_append (validUtf8_append va vl) vm, toRunes_append va vl]
  rw [e1, e2]
  simp only [List.append_assoc]
  apply List.Perm.append_left
  rw [← List.append_assoc, ← List.append_assoc, ← List.append_assoc (toRunes l), ← List.append_assoc (toRunes l ++ toRunes m)]
  apply List.Perm.append_right
  have p1 : (toRunes r ++ toRunes m ++ toRunes l).Perm (toRunes l ++ (toRunes r ++ toRunes m)) :=
    List.perm_append_comm
  have p2 : (toRunes l ++ (toRunes r ++ toRunes m)).Perm (toRunes l ++ (toRunes m ++ toRunes r)) :=
    List.Perm.append_left _ List.perm_append_comm
  rw [List.append_assoc (toRunes l)]
  exact p1.trans p2

/-- non-vacuity: `transpose-word` on `ab cd` with the dot after `ab` gives `cd ab`. -/
example : (Cmd.transform .word).fn ⟨fun r => r == 32, fun _ => true, fun _ => false, fun _ => true, fun _ => false, fun _ => 1⟩
    [0x61, 0x62, 0x20, 0x63, 0x64] 2 = .ok ([0x63, 0x64, 0x20, 0x61, 0x62], 5) := by decide

/-- Moving left one word (any flavour) lands on the nearest word start strictly
left of the dot — the start of the buffer if there is none: the result is a
word start or 0, and no boundary strictly between it and the old dot is a word
start. -/
theorem C28_word_left_lands_on_word_start (E : Env) (f : Flavour) (buf : Bytes) (dot : Int)
    (h : Boundary buf dot) :
    ∃ d', f.left.fn E buf dot = .ok d' ∧ 0 ≤ d' ∧ d' ≤ dot ∧ (0 < dot → d' < dot) ∧
      (d' = 0 ∨ WordStart (f.cat E) buf d'.toNat) ∧
      (∀ p : Int, Boundary buf p → d' < p → p < dot → ¬ WordStart (f.cat E) buf p.toNat) := by
  cases f <;> exact wordLeft_spec _ buf dot h

/-- Moving right one word lands on the nearest word start strictly right of
the dot — the end of the buffer if there is none. -/
theorem C28_word_right_lands_on_word_start (E : Env) (f : Flavour) (buf : Bytes) (dot : Int)
    (h : Boundary buf dot) :
    ∃ d', f.right.fn E buf dot = .ok d' ∧ dot ≤ d' ∧ d' ≤ buf.length ∧ (dot < buf.length → dot < d') ∧
      (d' = buf.length ∨ WordStart (f.cat E) buf d'.toNat) ∧
      (∀ p : Int, Boundary buf p → dot < p → p < d' → ¬ WordStart (f.cat E) buf p.toNat) := by
  cases f <;> exact wordRight_spec _ buf dot h

/-- non-vacuity: in `ab--cd` the small word `--` starts at offset 2 and offset 1 is no word start. -/
example : WordStart (categorizeSmallWord ⟨fun r => r == 32, fun r => 97 ≤ r && r ≤ 122, fun _ => false, fun _ => true, fun _ => false, fun _ => 1⟩)
    [0x61, 0x62, 0x2d, 0x2d, 0x63, 0x64] 2 := by unfold WordStart; decide

/-- `move-dot-up`: on the first line the dot stays; otherwise it goes to the
previous line, at a display column not larger than the original one. -/
theorem C28_up_keeps_column (E : Env) (buf : Bytes) (dot : Int) (h : Boundary buf dot) :
    ∃ d', Mover.up.fn E buf dot = .ok d' ∧ Boundary buf d' ∧
      (lineStart buf dot.toNat = 0 → d' = dot) ∧
      (lineStart buf dot.toNat ≠ 0 →
        d' ≤ (lineStart buf dot.toNat : Int) - 1 ∧
        lineStart buf d'.toNat = lineStart buf (lineStart buf dot.toNat - 1) ∧
        column E buf d'.toNat ≤ column E buf dot.toNat) :=
  up_spec E buf dot h

/-- `move-dot-down`: on the last line the dot stays; otherwise it goes to the
next line (whose start is one past the end of the current line), at a display
column not larger than the original one. -/
theorem C28_down_keeps_column (E : Env) (buf : Bytes) (dot : Int) (h : Boundary buf dot) :
    ∃ d', Mover.down.fn E buf dot = .ok d' ∧ Boundary buf d' ∧
      (dot.toNat + findFirstEOL (buf.drop dot.toNat) = buf.length → d' = dot) ∧
      (dot.toNat + findFirstEOL (buf.drop dot.toNat) ≠ buf.length →
        ((dot.toNat + findFirstEOL (buf.drop dot.toNat) + 1 : Nat) : Int) ≤ d' ∧
        lineStart buf d'.toNat = dot.toNat + findFirstEOL (buf.drop dot.toNat) + 1 ∧
        column E buf d'.toNat ≤ column E buf dot.toNat) :=
  down_spec E buf dot h

/-! ### The code area: key, paste and builtin events -/

/-- Every builtin of `bufferBuiltinsData`, run on a valid buffer with the dot on
a boundary, returns normally with a valid buffer and the dot on a boundary. -/
theorem C28_builtin_preserves_boundary (E : Env) (c : Cmd) (buf : Bytes) (dot : Int) (h : Boundary buf dot) :
    ∃ buf' dot', c.fn E buf dot = .ok (buf', dot') ∧ Boundary buf' dot' :=
  c.boundary E buf dot h

/-- all 26 names of `bufferBuiltinsData` are covered by `Cmd` -/
example : bufferBuiltinsData.length = 26 ∧ (bufferBuiltinsData.map (·.1)).Nodup := by decide

/-- Bracketed paste: the start marker edits nothing; the end marker inserts the
accumulated text verbatim at the dot — quoted by `parse.Quote` exactly when
`QuotePaste()` says so — and the invariant is kept. -/
theorem C28_paste_exact (S : Spec) (hS : SpecOK S) (s : State) (h : Inv s) (start : Bool) :
    ∃ s', handlePasteSetting S s start = .ok s' ∧ Inv s' ∧
      (start = true → s'.buffer = s.buffer ∧ s'.pasting = true ∧ s'.pasteBuffer = s.pasteBuffer) ∧
      (start = false →
        let text := if S.quotePaste then S.quote s.pasteBuffer else s.pasteBuffer
        s'.buffer = Inserted s.buffer text ∧ s'.pasting = false ∧ s'.pasteBuffer = []) :=
  handlePasteSetting_spec S hS s h start

/-- During a bracketed paste, keys never edit the buffer: non-function keys
append exactly `string(rune)` to the paste buffer, function keys are ignored. -/
theorem C28_key_during_paste (E : Env) (S : Spec) (s : State) (key : Key) (hp : s.pasting = true) :
    handleKeyEvent E S s key = .ok
      ({ s with pasteBuffer := s.pasteBuffer ++ (if key.isFunc then [] else encodeRune key.rune.toNat) }, true) := by
  by_cases hf : key.isFunc = true
  · rw [hke_pasting_func E S s key hp hf]; simp [hf]
  · have hf' : key.isFunc = false := by simpa using hf
    rw [hke_pasting E S s key hp hf']; simp [hf']

/-- Backspace (and Ctrl-H) delete exactly the rune before the dot. -/
theorem C28_backspace_exact (E : Env) (S : Spec) (s : State) (key : Key) (h : Inv s)
    (hp : s.pasting = false) (hk : key.isBackspace) :
    ∃ s', handleKeyEvent E S s key = .ok (s', true) ∧ Inv s' ∧
      (let chop : Int := (decodeLastRune (s.buffer.content.take s.buffer.dot.toNat)).2
       s'.buffer = ⟨s.buffer.content.take (s.buffer.dot - chop).toNat ++ s.buffer.content.drop s.buffer.dot.toNat,
         s.buffer.dot - chop⟩) := by
  obtain ⟨b', he, hb', hbnd⟩ := backspace_spec s h
  refine ⟨{ resetInserts s with buffer := b' }, ?_, ⟨hbnd, ⟨[], by simp [resetInserts]⟩, h.paste⟩, hb'⟩
  rw [hke_backspace E S s key hp hk]; exact he

/-- Enter, function keys and non-graphic runes do not edit the buffer. -/
theorem C28_key_non_inserting (E : Env) (S : Spec) (s : State) (key : Key) (h : Inv s)
    (hp : s.pasting = false) (hbs : ¬ key.isBackspace)
    (hk : key = ⟨10, 0⟩ ∨ (key.isFunc || !(E.isGraphic key.rune.toNat)) = true) :
    ∃ s' ret, handleKeyEvent E S s key = .ok (s', ret) ∧ Inv s' ∧ s'.buffer = s.buffer := by
  by_cases hent : key = ⟨10, 0⟩
  · rw [hent]; exact ⟨resetInserts s, true, hke_enter E S s hp, inv_reset h, rfl⟩
  · rcases hk with hk | hk
    · exact absurd hk hent
    · exact ⟨resetInserts s, false, hke_other E S s key hp hent hbs hk, inv_reset h, rfl⟩

/-- A graphic key inserts exactly `string(rune)` at the dot; afterwards at most
one abbreviation fires, and it replaces exactly the abbreviation (ending at
the dot, or just before the typed trigger rune) by its expansion
(`KeyInsertEffect`, ElvModel/C28/Spec.lean).  No slice expression of
`expandSimpleAbbr` / `expandCommandAbbr` / `expandSmallWordAbbr` panics. -/
theorem C28_key_insert_exact (E : Env) (S : Spec) (hS : SpecOK S) (s : State) (key : Key) (h : Inv s)
    (hp : s.pasting = false) (hne : key ≠ ⟨10, 0⟩) (hbs : ¬ key.isBackspace)
    (hg : (key.isFunc || !(E.isGraphic key.rune.toNat)) = false) :
    ∃ s', handleKeyEvent E S s key = .ok (s', true) ∧ Inv s' ∧
      KeyInsertEffect S s.buffer s'.buffer (encodeRune key.rune.toNat) :=
  key_insert_spec E S hS s key h hp hne hbs hg

/-- "Typed consecutively" (edit:abbr: an abbreviation expands when "typed in
full and consecutively, without being interrupted by the use of other editing
functionalities, such as cursor movements"): a key that finds the buffer —
content OR dot — different from what the previous insertion left behind is
handled exactly as on a code area whose insertion run has been reset.  Hence
the characters typed before a cursor movement never count towards an
abbreviation, and `expandSimpleAbbr`'s `Content[:Dot-len(abbr)]` is only ever
evaluated for text that was inserted immediately left of the dot.
(Seeded change C28-inserts-not-reset-by-cursor-move compared the contents only.) -/
theorem C28_interruption_restarts_run (E : Env) (S : Spec) (s : State) (key : Key)
    (hp : s.pasting = false) (hne : s.last ≠ s.buffer) :
    handleKeyEvent E S s key = handleKeyEvent E S (resetInserts s) key := by
  have hp' : (resetInserts s).pasting = false := hp
  have hb : (resetInserts s).buffer = s.buffer := rfl
  have hrr : resetInserts (resetInserts s) = resetInserts s := rfl
  have h4 : (if (resetInserts s).last ≠ s.buffer then resetInserts s else resetInserts s) = resetInserts s := by
    split <;> rfl
  unfold handleKeyEvent
  simp only [hp, hp', hb, hrr, h4, if_pos hne, Bool.false_eq_true, if_false]

/-- non-vacuity, and the documentation's own example: with `||` ↦ ` or `
configured, `|`, cursor left, `|` leaves `||` with the dot in the middle … -/
example : ((·.buffer) <$> runEvents ⟨fun _ => false, fun _ => false, fun _ => false, fun _ => true, fun _ => false, fun _ => 1⟩
      ⟨[([0x7c, 0x7c], [0x20, 0x6f, 0x72, 0x20])], [], [], false, id⟩ (initState ⟨[], 0⟩)
      [.key ⟨124, 0⟩, .cmd (.move .left), .key ⟨124, 0⟩])
    = Res.ok ⟨[0x7c, 0x7c], 1⟩ := by decide +kernel

/-- … while `|`, `|` typed consecutively expands. -/
example : ((·.buffer) <$> runEvents ⟨fun _ => false, fun _ => false, fun _ => false, fun _ => true, fun _ => false, fun _ => 1⟩
      ⟨[([0x7c, 0x7c], [0x20, 0x6f, 0x72, 0x20])], [], [], false, id⟩ (initState ⟨[], 0⟩)
      [.key ⟨124, 0⟩, .key ⟨124, 0⟩])
    = Res.ok ⟨[0x20, 0x6f, 0x72, 0x20], 4⟩ := by decide +kernel

/-- Every event (key, paste marker, builtin command) keeps the invariant: the
buffer stays valid UTF-8 with the dot inside it on a character boundary. -/
theorem C28_step_preserves_invariant (E : Env) (S : Spec) (hS : SpecOK S) (s : State) (ev : Event) (h : Inv s) :
    ∃ s' ret, step E S s ev = .ok (s', ret) ∧ Inv s' :=
  step_inv E S hS s ev h

/-- Lifted over arbitrary event sequences by induction: starting from a fresh
code area whose buffer is valid with the dot on a boundary, no sequence of
keys, paste markers and builtin commands panics, and the buffer is valid with
the dot on a boundary afterwards. -/
theorem C28_sequence_safe (E : Env) (S : Spec) (hS : SpecOK S) (b : CodeBuffer)
    (hb : Boundary b.content b.dot) (evs : List Event) :
    ∃ s', runEvents E S (initState b) evs = .ok s' ∧ Boundary s'.buffer.content s'.buffer.dot := by
  have hi : Inv (initState b) := ⟨hb, ⟨[], by simp [initState]⟩, rfl⟩
  obtain ⟨s', h1, h2⟩ := runEvents_inv E S hS (initState b) evs hi
  exact ⟨s', h1, h2.bnd⟩

/-- non-vacuity of the hypotheses: a configuration with abbreviations and an empty fresh buffer. -/
example : SpecOK ⟨[([0x78, 0x78], [0xC3, 0xA9])], [], [([0x67], [0x67, 0x69, 0x74])], false, id⟩ ∧
    Inv (initState ⟨[], 0⟩) := by
  refine ⟨⟨?_, ?_, ?_, fun _ h => h⟩, ⟨by unfold Boundary; decide, ⟨[], by simp [initState]⟩, rfl⟩⟩
  · intro p hp; simp at hp; subst hp; decide
  · intro p hp; simp at hp
  · intro p hp; simp at hp; subst hp; decide

/-- non-vacuity: with the simple abbreviation `xx ↦ é` configured, typing `x` `x`
into an empty buffer really goes through the expansion path and yields `é`. -/
example :
    (runEvents ⟨fun r => r == 32, fun _ => true, fun _ => false, fun _ => true, fun _ => false, fun _ => 1⟩
      ⟨[([0x78, 0x78], [0xC3, 0xA9])], [], [], false, id⟩ (initState ⟨[], 0⟩)
      [.key ⟨0x78, 0⟩, .key ⟨0x78, 0⟩]).bind (fun s => .ok (s.buffer.content, s.buffer.dot)) =
      .ok ([0xC3, 0xA9], 2) := by decide
