/-
C28 — Editor buffer commands keep the cursor valid and edit exactly.

Property theorems over the model `ElvModel/C28/{Model,CodeArea}.lean`
(tied to pkg/edit/buffer_builtins.go and pkg/cli/tk/codearea.go by
`./check C28`).  `Boundary buf dot` (ElvModel/C28/Spec.lean): `0 ≤ dot ≤ |buf|`
and the text on both sides of the dot is valid UTF-8.  All theorems hold for
every `Env` (every `unicode.*` / `wcwidth.OfRune` table).
-/
import ElvProofs.C28.MoverSpec
open Go C28

/-- `a世b` with the dot after `a`. -/
example : Boundary [0x61, 0xE4, 0xB8, 0x96, 0x62] 1 := by unfold Boundary; decide

/-- Every dot movement (left/right, the six word motions, start/end of line,
up/down) of a valid buffer with the dot on a character boundary does not
panic and returns a dot inside the buffer and on a character boundary. -/
theorem C28_mover_boundary (E : Env) (m : Mover) (buf : Bytes) (dot : Int) (h : Boundary buf dot) :
    ∃ d', m.fn E buf dot = .ok d' ∧ Boundary buf d' :=
  m.boundary E buf dot h

/-- The `move-dot-*` builtins leave the text alone. -/
theorem C28_move_builtin (E : Env) (m : Mover) (buf : Bytes) (dot : Int) (h : Boundary buf dot) :
    ∃ d', (Cmd.move m).fn E buf dot = .ok (buf, d') ∧ Boundary buf d' := by
  obtain ⟨d', h1, h2⟩ := m.boundary E buf dot h
  exact ⟨d', by simp [Cmd.fn, makeMove, h1], h2⟩

/-- Kill commands delete exactly the text between the old dot and the dot the
corresponding movement would reach, and leave the dot at the smaller of the
two, on a boundary of the new (valid) buffer. -/
theorem C28_kill_exact (E : Env) (m : Mover) (buf : Bytes) (dot : Int) (h : Boundary buf dot) :
    ∃ d', m.fn E buf dot = .ok d' ∧
      (Cmd.kill m).fn E buf dot =
        .ok (buf.take (min dot d').toNat ++ buf.drop (max dot d').toNat, min dot d') ∧
      Boundary (buf.take (min dot d').toNat ++ buf.drop (max dot d').toNat) (min dot d') := by
  obtain ⟨d', h1, h2⟩ := m.boundary E buf dot h
  refine ⟨d', h1, makeKill_spec _ buf dot d' h1 h.1 h.2.1 h2.1 h2.2.1, ?_⟩
  by_cases hle : dot ≤ d'
  · rw [Int.min_eq_left hle, Int.max_eq_right hle]; exact boundary_cut buf dot d' h h2 hle
  · have hle' : d' ≤ dot := by omega
    rw [Int.min_eq_right hle', Int.max_eq_left hle']; exact boundary_cut buf d' dot h2 h hle'

/-- non-vacuity: `kill-word-left` on `ab cd|` really deletes `cd`. -/
example : (Cmd.kill .leftWord).fn ⟨fun r => r == 32, fun _ => true, fun _ => false, fun _ => true, fun _ => false, fun _ => 1⟩
    [0x61, 0x62, 0x20, 0x63, 0x64] 5 = .ok ([0x61, 0x62, 0x20], 3) := by decide
