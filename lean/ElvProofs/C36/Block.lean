/-
C36 helpers — block level: a single line that starts no block is read by the
C35 reference as a paragraph of that line.
-/
import ElvProofs.C36.Merge
namespace C36
open Go C35

/-- first bytes that start no block construct in the reference and that
`escapeStartOfLine` leaves alone: not SP/tab, `>`, `#`, backtick, `~`, `-`,
`_`, `*`, `+`, a digit -/
def isInertStartB (c : UInt8) : Bool :=
  !(c == SP || c == 0x09 || c == 0x3E || c == 0x23 || c == 0x60 || c == 0x7E || c == 0x2D ||
    c == 0x5F || c == 0x2A || c == 0x2B || c == NL || isDigitB c)

theorem inert_facts : ∀ c : UInt8, isInertStartB c = true →
    (c == SP) = false ∧ (c == 0x09) = false ∧ (c == 0x3E) = false ∧ (c == 0x23) = false ∧
    (c == 0x60) = false ∧ (c == 0x7E) = false ∧ (c == 0x2D) = false ∧ (c == 0x5F) = false ∧
    (c == 0x2A) = false ∧ (c == 0x2B) = false ∧ (c == NL) = false ∧ isDigitB c = false := by
  apply forall_uint8
  decide +kernel

theorem splitNL_noNL (l : Bytes) (h : ∀ b ∈ l, b ≠ NL) : splitNL l = [l] := by
  induction l with
  | nil => rfl
  | cons b t ih =>
    have hb : (b == NL) = false := by simpa using h b List.mem_cons_self
    simp [splitNL, ih (fun x hx => h x (List.mem_cons_of_mem _ hx)), hb]

theorem splitNL_line (l : Bytes) (h : ∀ b ∈ l, b ≠ NL) : splitNL (l ++ [NL]) = [l, []] := by
  induction l with
  | nil => simp [splitNL]
  | cons b t ih =>
    have hb : (b == NL) = false := by simpa using h b List.mem_cons_self
    simp [splitNL, ih (fun x hx => h x (List.mem_cons_of_mem _ hx)), hb]

theorem docLines_line (l : Bytes) (h : ∀ b ∈ l, b ≠ NL) : docLines (l ++ [NL]) = [l] := by
  unfold docLines
  simp [splitNL_line l h]

/-- the block structure of a one-line document whose line starts no block -/
theorem parseBlocks_inert_line (c : UInt8) (r : Bytes) (hc : isInertStartB c = true)
    (h : ∀ b ∈ c :: r, b ≠ NL) :
    parseBlocks (c :: r ++ [NL]) = some [Raw.para [c :: r]] := by
  obtain ⟨h1, h2, h3, h4, h5, h6, h7, h8, h9, h10, h11, h12⟩ := inert_facts c hc
  have hdl := docLines_line (c :: r) h
  unfold parseBlocks
  simp only [hdl, List.foldl_cons, List.foldl_nil]
  have hstep : stepLine { frames := [{ kind := .doc, kids := [] }], leaf := .none, fuelOut := false } (c :: r) =
      { frames := [{ kind := .doc, kids := [] }], leaf := .para [c :: r], fuelOut := false } := by
    unfold stepLine
    simp only [nonDocFrames, List.reverse_cons, List.reverse_nil, List.nil_append, List.drop_one,
      List.tail_cons, matchFrames, List.length_cons, List.length_nil]
    unfold openBlocks
    simp [isBlank, h1, h2, leadingSpaces, countWhile, Leaf.isPara, atxHeading, fenceOpen,
      isThematicBreak, listMarker, h3, h4, h5, h6, h7, h8, h9, h10, h12, addText, prepareBlock,
      closeUnmatched, closeDown, closeLeaf, trimLeftSp]
  rw [hstep]
  simp [closeUnmatched, closeDown, closeLeaf, pushKid]

theorem trimRightSpTab_id (l : Bytes)
    (h : ∀ b, l.getLast? = some b → (b == SP || b == 0x09) = false) : trimRightSpTab l = l := by
  unfold trimRightSpTab
  cases hr : l.reverse with
  | nil => simp at hr; subst hr; rfl
  | cons b t =>
    have hl : l = t.reverse ++ [b] := by
      have := congrArg List.reverse hr
      simpa using this
    have hb := h b (by rw [hl]; simp)
    rw [List.dropWhile_cons]
    simp only [hb, Bool.false_eq_true, if_false]
    rw [← hr]; simp

/-- the reference's rendering of a one-line document whose line starts no
block and does not end in a space or tab: a paragraph with the line's inlines -/
theorem render_inert_line (U : UClass) (c : UInt8) (r s : Bytes) (hc : isInertStartB c = true)
    (h : ∀ b ∈ c :: r, b ≠ NL)
    (hlast : ∀ b, (c :: r).getLast? = some b → (b == SP || b == 0x09) = false)
    (hp : parseInlines U (c :: r) = some [Inl.text s]) :
    render U true (c :: r ++ [NL]) = some (bs "<p>" ++ escHtml s ++ bs "</p>\n") := by
  unfold render
  rw [parseBlocks_inert_line c r hc h]
  simp only []
  have hfuel : (c :: r ++ [NL]).length + 2 = ((c :: r).length + 2) + 1 := by simp
  rw [hfuel]
  unfold renderRaws
  simp only [List.foldl_cons, List.foldl_nil, paraText, joinNL, trimRightSpTab_id (c :: r) hlast, hp]
  have : inlHtml true ((c :: r).length + 2 + (c :: r).length) [Inl.text s] = escHtml s := by
    have : (c :: r).length + 2 + (c :: r).length = ((c :: r).length + 1 + (c :: r).length) + 1 := by omega
    rw [this]
    simp [inlHtml]
  rw [this]
  simp [cr]

theorem bs_tildes : bs "~~~" = [0x7E, 0x7E, 0x7E] := by decide +kernel

theorem escapeStartOfLine_inert (sb : Bytes) (c : UInt8) (r : Bytes) (sop eol : Bool)
    (hc : isInertStartB c = true) : escapeStartOfLine sb (c :: r) sop eol = .ok (c :: r) := by
  obtain ⟨h1, h2, h3, h4, h5, h6, h7, h8, h9, h10, h11, h12⟩ := inert_facts c hc
  unfold escapeStartOfLine
  simp [escapeLeadingSpaceTab, h1, h2, h3, h4, h6, h7, h8, h10, h12, startsWith, bs_tildes, countWhile,
    thematicBreakLookalike, List.isPrefixOf]
  intro h; subst h; simp at h6

theorem escapeTrailingSpaceTab_id (s : Bytes) (e : UInt8) (hl : s.getLast? = some e)
    (he : (e == SP) = false ∧ (e == 0x09) = false) : escapeTrailingSpaceTab s = .ok s := by
  unfold escapeTrailingSpaceTab
  simp [hl, he.1, he.2]

/-- first bytes of a text for which the written line starts no block: a class
byte that gets a backslash, or one that is inert by itself -/
def isGoodFirstB (b : UInt8) : Bool := isEscB b && (isBslB b || isInertStartB b)

theorem goodFirst_facts0 : ∀ b : UInt8, isGoodFirstB b = true →
    (esc1 b).head?.map isInertStartB = some true := by
  apply forall_uint8
  decide +kernel

theorem goodFirst_facts (b : UInt8) (h : isGoodFirstB b = true) :
    ∃ c r, esc1 b = c :: r ∧ isInertStartB c = true := by
  have := goodFirst_facts0 b h
  cases he : esc1 b with
  | nil => rw [he] at this; simp at this
  | cons c r => rw [he] at this; exact ⟨c, r, rfl, by simpa using this⟩

theorem esc1_last : ∀ b : UInt8, isEscB b = true →
    (esc1 b).getLast? = some b ∧ (b == SP) = false ∧ (b == 0x09) = false := by
  apply forall_uint8
  decide +kernel

theorem esc1_mem : ∀ b : UInt8, isEscSpB b = true → ∀ x ∈ esc1 b, x ≠ NL := by
  apply forall_uint8
  decide +kernel

theorem escA_noNL (s : Bytes) (h : ∀ b ∈ s, isEscSpB b = true) : ∀ x ∈ escA s, x ≠ NL := by
  intro x hx
  unfold escA at hx
  rcases List.mem_flatMap.mp hx with ⟨b, hb, hxb⟩
  exact esc1_mem b (h b hb) x hxb

theorem escA_append (a b : Bytes) : escA (a ++ b) = escA a ++ escA b := by
  simp [escA]

theorem escA_last (s : Bytes) (e : UInt8) (hl : s.getLast? = some e) (he : isEscB e = true) :
    (escA s).getLast? = some e := by
  have hs : s = s.dropLast ++ [e] := by
    cases hr : s.reverse with
    | nil => simp at hr; subst hr; simp at hl
    | cons b t =>
      have hl' : s = t.reverse ++ [b] := by
        have := congrArg List.reverse hr
        simpa using this
      rw [hl'] at hl ⊢
      simp at hl
      subst hl
      simp
  rw [hs, escA_append]
  have h1 := (esc1_last e he).1
  have : escA [e] = esc1 e := by simp [escA]
  rw [this]
  cases hx : esc1 e with
  | nil => rw [hx] at h1; simp at h1
  | cons x r =>
    rw [hx] at h1
    rw [List.getLast?_append, h1]
    simp

/-- what the formatter writes for a text of the class that starts with a
"good" first byte and does not end in a space: the escaped text, unchanged by
the start/end-of-line escaping -/
theorem fmtTextParagraph_class (G : GoU) (b0 : UInt8) (t : Bytes)
    (hcls : ∀ b ∈ b0 :: t, isEscSpB b = true) (hfirst : isGoodFirstB b0 = true)
    (hlast : ∀ e, (b0 :: t).getLast? = some e → isEscB e = true) :
    fmtTextParagraph G (b0 :: t) = .ok (escA (b0 :: t) ++ [NL]) ∧
    ∃ c r, escA (b0 :: t) = c :: r ∧ isInertStartB c = true ∧
      (∀ b, (c :: r).getLast? = some b → (b == SP || b == 0x09) = false) := by
  obtain ⟨c, r0, hc1, hc2⟩ := goodFirst_facts b0 hfirst
  have hL : escA (b0 :: t) = c :: (r0 ++ escA t) := by rw [escA_cons, hc1]; rfl
  obtain ⟨e, he⟩ : ∃ e, (b0 :: t).getLast? = some e := by
    cases hx : (b0 :: t).getLast? with
    | none => simp at hx
    | some e => exact ⟨e, rfl⟩
  have hee := hlast e he
  have hl2 := escA_last (b0 :: t) e he hee
  have hef := esc1_last e hee
  have hlastL : ∀ b, (c :: (r0 ++ escA t)).getLast? = some b → (b == SP || b == 0x09) = false := by
    intro b hb
    rw [← hL, hl2] at hb
    injection hb with hb
    subst hb
    simp [hef.2.1, hef.2.2]
  refine ⟨?_, c, r0 ++ escA t, hL, hc2, hlastL⟩
  unfold fmtTextParagraph
  rw [escapeText_class G _ hcls, escapeTrailingSpaceTab_id _ e hl2 ⟨hef.2.1, hef.2.2⟩]
  simp only []
  rw [hL, escapeStartOfLine_inert [] c _ true true hc2]

/-- … and the reference reads it back as one paragraph with exactly that text -/
theorem escape_sound_class (G : GoU) (U : UClass) (b0 : UInt8) (t : Bytes)
    (hcls : ∀ b ∈ b0 :: t, isEscSpB b = true) (hfirst : isGoodFirstB b0 = true)
    (hlast : ∀ e, (b0 :: t).getLast? = some e → isEscB e = true) :
    fmtTextParagraph G (b0 :: t) = .ok (escA (b0 :: t) ++ [NL]) ∧
    render U true (escA (b0 :: t) ++ [NL]) = some (bs "<p>" ++ escHtml (b0 :: t) ++ bs "</p>\n") := by
  obtain ⟨h1, c, r, hL, hc, hl⟩ := fmtTextParagraph_class G b0 t hcls hfirst hlast
  refine ⟨h1, ?_⟩
  have hp := parseInlines_escA U (b0 :: t) hcls
  simp only [reduceCtorEq, if_false] at hp
  rw [hL] at hp ⊢
  have hnl : ∀ b ∈ c :: r, b ≠ NL := by rw [← hL]; exact escA_noNL _ hcls
  exact render_inert_line U c r (b0 :: t) hc hnl hl hp

end C36
