/-
C36 helpers — reflow of plain words, read-back side: the C35 reference
tokenizer on lines of plain words separated by newlines.
-/
import ElvProofs.C36.Reflow
namespace C36
open Go C35

theorem alnum_plain : ∀ b : UInt8, isAlnumB b = true →
    isEscB b = true ∧ isBslB b = false ∧ (b == 0x21) = false := by
  apply forall_uint8
  decide +kernel

/-- a letter or digit is one text token, whatever follows -/
theorem scan_alnum (U : UClass) (st : Scan) (b : UInt8) (t : Bytes) (hs : st.skip = 0)
    (hb : isAlnumB b = true) :
    scan U st (b :: t) = scan U { acc := pushText st.acc [b], prev := b.toNat, skip := 0, bad := st.bad } t := by
  obtain ⟨h1, h2, h3⟩ := alnum_plain b hb
  obtain ⟨g1, g2, g3, g4, g5, g6, g7, g8, g9, g80⟩ := plain_byte_facts b h1 h2
  rw [scan_cons0 U st b t hs]
  unfold tokenAt
  simp only [g1, g2, g3, g4, g5, g6, g7, g8, g9, h3, Bool.false_and, decodeRune_ascii b t g80]
  simp

theorem scan_word (U : UClass) : ∀ (w : Bytes), (∀ b ∈ w, isAlnumB b = true) →
    ∀ (st : Scan) (rest : Bytes), st.skip = 0 →
    ∃ (ts : List Bytes) (p : Nat),
      scan U st (w ++ rest) =
        scan U { acc := (ts.map mkT).reverse ++ st.acc, prev := p, skip := 0, bad := st.bad } rest ∧
      ts.flatten = w := by
  intro w
  induction w with
  | nil =>
    intro _ st rest hs
    refine ⟨[], st.prev, ?_, rfl⟩
    cases st; simp only [] at hs; subst hs; rfl
  | cons b t ih =>
    intro h st rest hs
    obtain ⟨ts, p, h1, h2⟩ := ih (fun x hx => h x (List.mem_cons_of_mem _ hx))
      { acc := pushText st.acc [b], prev := b.toNat, skip := 0, bad := st.bad } rest rfl
    refine ⟨[b] :: ts, p, ?_, by simp [h2]⟩
    rw [List.cons_append, scan_alnum U st b _ hs (h b List.mem_cons_self), h1]
    simp [pushText, mkT]

/-- a line of plain words joined by single spaces, followed by anything -/
theorem scan_line (U : UClass) : ∀ (l : List Bytes), l ≠ [] → (∀ w ∈ l, PlainWord w) →
    ∀ (st : Scan) (rest : Bytes), st.skip = 0 →
    ∃ (ts : List Bytes) (p : Nat),
      scan U st (joinSp l ++ rest) =
        scan U { acc := (ts.map mkT).reverse ++ st.acc, prev := p, skip := 0, bad := st.bad } rest ∧
      ts.flatten = joinSp l := by
  intro l
  induction l with
  | nil => intro h; exact absurd rfl h
  | cons x xs ih =>
    intro _ h st rest hs
    have hx := h x List.mem_cons_self
    cases xs with
    | nil =>
      rw [joinSp_single]
      exact scan_word U x hx.2 st rest hs
    | cons y ys =>
      have hrest : ∀ w ∈ y :: ys, PlainWord w := fun w hw => h w (List.mem_cons_of_mem _ hw)
      obtain ⟨c, t, he, hc⟩ := joinSp_head (y :: ys) (by simp) hrest
      have hcf := alnum_first_facts c hc
      rw [joinSp_cons_cons, List.append_assoc]
      obtain ⟨ts1, p1, h1, h2⟩ := scan_word U x hx.2 st (SP :: joinSp (y :: ys) ++ rest) hs
      rw [h1]
      have hsp := scan_spaces U
        { acc := (ts1.map mkT).reverse ++ st.acc, prev := p1, skip := 0, bad := st.bad } 0
        (joinSp (y :: ys) ++ rest) rfl
        (by rw [he]; simp; intro hx; subst hx; simp [SP] at hcf)
        (by rw [he]; simp; intro hx; subst hx; simp [NL] at hcf)
      simp only [Nat.zero_add, List.replicate_one, List.cons_append, List.nil_append] at hsp
      rw [List.cons_append, hsp]
      obtain ⟨ts2, p2, h3, h4⟩ := ih (by simp) hrest
        { acc := pushText ((ts1.map mkT).reverse ++ st.acc) [SP], prev := SP.toNat, skip := 0, bad := st.bad }
        rest rfl
      refine ⟨ts1 ++ [SP] :: ts2, p2, ?_, by simp [h2, h4]⟩
      rw [h3]
      simp [pushText, mkT]

/-- a newline not followed by a space is a soft break -/
theorem scan_nl (U : UClass) (st : Scan) (rest : Bytes) (hs : st.skip = 0)
    (h : rest.head? ≠ some SP) :
    scan U st (NL :: rest) =
      scan U { acc := .node .softbreak :: st.acc, prev := NL.toNat, skip := 0, bad := st.bad } rest := by
  rw [scan_cons0 U st _ _ hs]
  have hc : countWhile (· == SP) rest = 0 := by
    cases rest with
    | nil => rfl
    | cons c r =>
      have : c ≠ SP := by intro hx; subst hx; exact h rfl
      simp [countWhile, this]
  unfold tokenAt
  simp [NL, SP] at hc ⊢
  simp [hc]

/-! ### several lines -/

/-- pieces of text per line, soft breaks between lines -/
def segInls : List (List Bytes) → List Inl
  | [] => []
  | [ts] => ts.map Inl.text
  | ts :: rest => ts.map Inl.text ++ Inl.softbreak :: segInls rest

/-- one text per line, soft breaks between lines -/
def lineInls : List Bytes → List Inl
  | [] => []
  | [x] => [Inl.text x]
  | x :: xs => Inl.text x :: Inl.softbreak :: lineInls xs

theorem segInls_cons_cons (a b : List Bytes) (r : List (List Bytes)) :
    segInls (a :: b :: r) = a.map Inl.text ++ Inl.softbreak :: segInls (b :: r) := rfl
theorem lineInls_cons_cons (a b : Bytes) (r : List Bytes) :
    lineInls (a :: b :: r) = Inl.text a :: Inl.softbreak :: lineInls (b :: r) := rfl
theorem joinNL_cons_cons (a b : Bytes) (r : List Bytes) :
    joinNL (a :: b :: r) = a ++ NL :: joinNL (b :: r) := rfl

theorem joinNL_head (a : Bytes) (r : List Bytes) (c : UInt8) (t : Bytes) (h : a = c :: t) :
    (joinNL (a :: r)).head? = some c := by
  subst h
  cases r <;> simp [joinNL]

theorem scan_lines (U : UClass) : ∀ (ls : List (List Bytes)), ls ≠ [] →
    (∀ l ∈ ls, l ≠ [] ∧ ∀ w ∈ l, PlainWord w) →
    ∀ (st : Scan), st.skip = 0 →
    ∃ (segs : List (List Bytes)) (p : Nat),
      scan U st (joinNL (ls.map joinSp)) =
        { acc := ((segInls segs).map Item.node).reverse ++ st.acc, prev := p, skip := 0, bad := st.bad } ∧
      segs.map List.flatten = ls.map joinSp := by
  intro ls
  induction ls with
  | nil => intro h; exact absurd rfl h
  | cons l rest ih =>
    intro _ h st hs
    have hl := h l List.mem_cons_self
    cases rest with
    | nil =>
      obtain ⟨ts, p, h1, h2⟩ := scan_line U l hl.1 hl.2 st [] hs
      refine ⟨[ts], p, ?_, by simp [h2]⟩
      simp only [List.map_cons, List.map_nil, joinNL]
      rw [List.append_nil] at h1
      rw [h1]
      simp [scan, segInls, mkT, Function.comp_def]
    | cons m ms =>
      have hrest : ∀ x ∈ m :: ms, x ≠ [] ∧ ∀ w ∈ x, PlainWord w :=
        fun x hx => h x (List.mem_cons_of_mem _ hx)
      have hm := hrest m List.mem_cons_self
      obtain ⟨c, t, he, hc⟩ := joinSp_head m hm.1 hm.2
      have hcf := alnum_first_facts c hc
      simp only [List.map_cons] at ih ⊢
      rw [joinNL_cons_cons]
      obtain ⟨ts, p, h1, h2⟩ := scan_line U l hl.1 hl.2 st (NL :: joinNL (joinSp m :: ms.map joinSp)) hs
      rw [h1]
      have hnl := scan_nl U { acc := (ts.map mkT).reverse ++ st.acc, prev := p, skip := 0, bad := st.bad }
        (joinNL (joinSp m :: ms.map joinSp)) rfl
        (by rw [joinNL_head _ _ c t he]; simp; intro hx; subst hx; simp [SP] at hcf)
      rw [hnl]
      obtain ⟨segs, p2, h3, h4⟩ := ih (by simp) hrest
        { acc := .node .softbreak :: ((ts.map mkT).reverse ++ st.acc), prev := NL.toNat, skip := 0, bad := st.bad } rfl
      cases segs with
      | nil => simp at h4
      | cons s0 sr =>
        refine ⟨ts :: s0 :: sr, p2, ?_, by rw [List.map_cons, h2, h4]⟩
        rw [h3, segInls_cons_cons]
        simp [mkT, Function.comp_def]

/-! ### merging text around soft breaks -/

theorem mergeText_softbreak (f : Nat) (R : List Inl) :
    mergeText (f + 1) (Inl.softbreak :: R) = Inl.softbreak :: mergeText (f + 1) R := by
  unfold mergeText
  simp only [List.map_cons, List.foldr_cons]

theorem mergeText_texts_append (f : Nat) (ts : List Bytes) (R : List Inl)
    (hX : mergeText (f + 1) R = [] ∨ ∃ Y, mergeText (f + 1) R = Inl.softbreak :: Y) :
    mergeText (f + 1) (ts.map Inl.text ++ R) =
      if ts.flatten = [] then mergeText (f + 1) R else Inl.text ts.flatten :: mergeText (f + 1) R := by
  induction ts with
  | nil => simp
  | cons a t ih =>
    unfold mergeText at ih hX ⊢
    simp only [List.map_cons, List.cons_append, List.foldr_cons, List.flatten_cons] at ih hX ⊢
    rw [ih]
    rcases hX with hX | ⟨Y, hX⟩
    · rw [hX]
      by_cases ht : t.flatten = []
      · cases a <;> simp [ht]
      · simp [ht]
    · rw [hX]
      by_cases ht : t.flatten = []
      · cases a <;> simp [ht]
      · simp [ht]

theorem mergeText_segs (f : Nat) : ∀ (segs : List (List Bytes)), (∀ seg ∈ segs, seg.flatten ≠ []) →
    mergeText (f + 1) (segInls segs) = lineInls (segs.map List.flatten) := by
  intro segs
  induction segs with
  | nil => intro _; simp [segInls, lineInls, mergeText]
  | cons a r ih =>
    intro h
    have ha := h a List.mem_cons_self
    cases r with
    | nil =>
      simp only [segInls, List.map_cons, List.map_nil, lineInls]
      rw [mergeText_texts, if_neg ha]
    | cons b r' =>
      have ih' := ih (fun x hx => h x (List.mem_cons_of_mem _ hx))
      rw [segInls_cons_cons, mergeText_texts_append f a _ (Or.inr ⟨_, mergeText_softbreak f _⟩),
        if_neg ha, mergeText_softbreak, ih']
      rfl

/-- the reference reads lines of plain words as one text per line with soft
breaks exactly at the line ends -/
theorem parseInlines_lines (U : UClass) (ls : List (List Bytes)) (hne : ls ≠ [])
    (h : ∀ l ∈ ls, l ≠ [] ∧ ∀ w ∈ l, PlainWord w) :
    parseInlines U (joinNL (ls.map joinSp)) = some (lineInls (ls.map joinSp)) := by
  obtain ⟨segs, p, h1, h2⟩ := scan_lines U ls hne h
    { acc := [], prev := NL.toNat, skip := 0, bad := false } rfl
  have hseg : ∀ seg ∈ segs, seg.flatten ≠ [] := by
    intro seg hs hflat
    have : seg.flatten ∈ ls.map joinSp := by rw [← h2]; exact List.mem_map.mpr ⟨seg, hs, rfl⟩
    rcases List.mem_map.mp this with ⟨l, hl, hjl⟩
    obtain ⟨c, t, he, _⟩ := joinSp_head l (h l hl).1 (h l hl).2
    rw [hflat, he] at hjl
    cases hjl
  unfold parseInlines
  simp only [h1, List.append_nil, Bool.false_eq_true, if_false, List.reverse_reverse]
  rw [resolveEmph_noclosers _ (by
    intro it hit
    rcases List.mem_map.mp hit with ⟨x, _, rfl⟩
    rfl)]
  simp only [List.map_map]
  have : (itemToInl ∘ Item.node) = id := by funext x; rfl
  rw [this, List.map_id, mergeText_segs _ segs hseg, h2]

end C36
