/-
C36 helpers — emphasis resolution and text merging of the C35 reference on
item lists without closers / of text nodes only; `parseInlines` of escaped text.
-/
import ElvProofs.C36.Inline
namespace C36
open Go C35

/-- an item that `procEmph` just moves to the left -/
def nonCloser : Item → Bool
  | .delim _ _ _ _ true => false
  | _ => true

theorem procEmph_noclosers : ∀ (right left : List Item) (fuel : Nat), right.length < fuel →
    (∀ it ∈ right, nonCloser it = true) → procEmph fuel left right = some (right.reverse ++ left) := by
  intro right
  induction right with
  | nil =>
    intro left fuel hf _
    cases fuel with
    | zero => omega
    | succ f => simp [procEmph]
  | cons it r ih =>
    intro left fuel hf h
    cases fuel with
    | zero => omega
    | succ f =>
      have hit := h it List.mem_cons_self
      have hr : ∀ x ∈ r, nonCloser x = true := fun x hx => h x (List.mem_cons_of_mem _ hx)
      have hlen : r.length < f := by simp at hf; omega
      unfold procEmph
      split
      · simp [nonCloser] at hit
      · rw [ih (it :: left) f hlen hr]; simp

/-- without closers emphasis resolution is the identity: every item becomes
its literal text -/
theorem resolveEmph_noclosers (items : List Item) (h : ∀ it ∈ items, nonCloser it = true) :
    resolveEmph items = some (items.map itemToInl) := by
  unfold resolveEmph
  rw [procEmph_noclosers items [] (emphFuel items) (by simp [emphFuel]; omega) h]
  simp

theorem resolveEmph_nodes (ts : List Bytes) :
    resolveEmph (ts.map mkT) = some (ts.map Inl.text) := by
  rw [resolveEmph_noclosers]
  · simp [mkT, itemToInl, Function.comp_def]
  · intro it hit
    rcases List.mem_map.mp hit with ⟨x, _, rfl⟩
    rfl

/-- merging a list of text nodes concatenates them (an empty result vanishes) -/
theorem mergeText_texts (fuel : Nat) (ts : List Bytes) :
    mergeText (fuel + 1) (ts.map Inl.text) = if ts.flatten = [] then [] else [Inl.text ts.flatten] := by
  induction ts with
  | nil => simp [mergeText]
  | cons a t ih =>
    unfold mergeText at ih ⊢
    simp only [List.map_cons, List.foldr_cons] at ih ⊢
    rw [ih]
    by_cases ht : t.flatten = []
    · cases a <;> simp [ht]
    · simp [ht]

/-- the C35 reference reads the escaped form of a string over the class
`isEscSpB` (printable ASCII other than `_`, `&`) back as that string -/
theorem parseInlines_escA (U : UClass) (s : Bytes) (h : ∀ b ∈ s, isEscSpB b = true) :
    parseInlines U (escA s) = some (if s = [] then [] else [Inl.text s]) := by
  obtain ⟨ts, p, h1, h2⟩ := scan_escA U s h 0
    { acc := [], prev := NL.toNat, skip := 0, bad := false } rfl
  simp only [List.replicate_zero, List.nil_append, List.append_nil] at h1 h2
  unfold parseInlines
  simp only [h1, Bool.false_eq_true, if_false, List.reverse_reverse, resolveEmph_nodes]
  rw [mergeText_texts, h2]

end C36
