/-
C36 helpers — executable form of the conclusion of `C36_escape_sound_full`,
used to evaluate boundary witnesses inside the kernel.
-/
import ElvModel.C36.Model
import ElvModel.C35.RefHtml
namespace C36
open Go C35

/-- the conclusion of `C36_escape_sound_full` for the text `s`, WITHOUT the
`inSubset` hypothesis: the formatter succeeds and the reference renders the
result as the paragraph `s` -/
def soundOn (s : Bytes) : Bool :=
  match fmtTextParagraph goStdU s with
  | .ok out => render stdU true out == some (bs "<p>" ++ escHtml s ++ bs "</p>\n")
  | _ => false

/-- the bytes tried at the boundary (one rune each) -/
def boundaryAlphabet : List Bytes :=
  [[0x20],[0x5F],[0x2A],[0x26],[0x23],[0x3B],[0x61],[0x31],[0x2E],[0x29],[0x2D],[0x2B],[0x3E],[0x7E],
   [0x3D],[0x5C],[0x5B],[0x5D],[0x3C],[0x21],[0x28],[0x22],[0xC2,0xA0],[0xC3,0xA9],[0x60],[0x09],[0x01],
   [0x7F],[0xC2,0x85],[0xEF,0xBF,0xBD],[0xE2,0x80,0xA8],[0x7B],[0x7D],[0x3A],[0x2F],[0x3F],[0x0C],[0x0D],
   [0xE2,0x80,0x83]]

def boundaryStrings : Nat → List Bytes
  | 0 => [[]]
  | n + 1 => (boundaryStrings n).flatMap fun s => boundaryAlphabet.map fun a => a ++ s

end C36
