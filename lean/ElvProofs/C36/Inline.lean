/-
C36 helpers — the inline-level core of escape soundness: `escapeText` on a
byte class, and the C35 reference tokenizer (`scan`) on the escaped text.
-/
import ElvModel.C36.Model
import ElvModel.C35.RefHtml
import ElvProofs.C35.Ref
namespace C36
open Go C35

/-! ### byte classes -/

/-- bytes that `escapeText` always writes as backslash + byte -/
def isBslB (b : UInt8) : Bool :=
  b == 0x5B || b == 0x5D || b == 0x2A || b == 0x60 || b == 0x5C || b == 0x3C

/-- printable ASCII other than SP, `_` and `&` (whose treatment depends on the
context) -/
def isEscB (b : UInt8) : Bool := 0x20 < b && b < 0x7F && b != 0x5F && b != 0x26

/-- … plus SP -/
def isEscSpB (b : UInt8) : Bool := isEscB b || b == SP

def esc1 (b : UInt8) : Bytes := if isBslB b then [0x5C, b] else [b]

/-- the escaped form of a string over the class -/
def escA (s : Bytes) : Bytes := s.flatMap esc1

theorem escA_cons (b : UInt8) (t : Bytes) : escA (b :: t) = esc1 b ++ escA t := by
  simp [escA]

theorem escA_nil : escA [] = [] := rfl

/-! ### escapeText on the class -/

/-- a statement about every byte is checked on the 256 values -/
theorem forall_uint8 (p : UInt8 → Prop) [DecidablePred p]
    (h : (List.range 256).all (fun n => decide (p (UInt8.ofNat n))) = true) : ∀ b, p b := by
  intro b
  have h1 := List.all_eq_true.mp h b.toNat (List.mem_range.mpr (UInt8.toNat_lt b))
  simpa using h1

theorem esc_byte_facts : ∀ b : UInt8, isEscSpB b = true →
    b.toNat < 0x80 ∧ (b == 0x5F) = false ∧ (b == 0x26) = false ∧ (b == NL) = false ∧
    (isBslB b = false →
      (b == 0x5B || b == 0x5D || b == 0x2A || b == 0x60 || b == 0x5C) = false ∧ (b == 0x3C) = false) ∧
    (isBslB b = true → isAsciiPunctB b = true ∧
      ((b == 0x5B || b == 0x5D || b == 0x2A || b == 0x60 || b == 0x5C) = true ∨
       ((b == 0x5B || b == 0x5D || b == 0x2A || b == 0x60 || b == 0x5C) = false ∧ (b == 0x3C) = true))) := by
  apply forall_uint8
  decide +kernel

theorem decodeRune_ascii (b : UInt8) (t : Bytes) (h : b.toNat < 0x80) :
    decodeRune (b :: t) = (b.toNat, 1) := by
  simp [decodeRune, h]

theorem escStep_class (G : GoU) (st : Esc) (b : UInt8) (t : Bytes) (hb : isEscSpB b = true)
    (hs : st.skip = 0) :
    escStep G st b t = { out := (esc1 b).reverse ++ st.out, prev := (b.toNat, 1), skip := 0 } := by
  obtain ⟨h80, h5f, h26, _, hno, hyes⟩ := esc_byte_facts b hb
  cases hq : isBslB b with
  | true =>
    obtain ⟨_, hc⟩ := hyes hq
    rcases hc with hc | ⟨hc1, hc2⟩
    · unfold escStep; simp [hc, esc1, hq, hs]
    · unfold escStep; simp [hc1, hc2, h5f, h26, esc1, hq, hs]
  | false =>
    obtain ⟨hc1, hc2⟩ := hno hq
    unfold escStep
    simp only [hc1, hc2, h5f, h26, decodeRune_ascii b t h80]
    have : ¬ (b.toNat = 0xA0) := by omega
    simp [esc1, hq, this]

theorem escScan_class (G : GoU) : ∀ (s : Bytes) (st : Esc), st.skip = 0 →
    (∀ b ∈ s, isEscSpB b = true) →
    (escScan G st s).out = (escA s).reverse ++ st.out := by
  intro s
  induction s with
  | nil => intro st _ _; simp [escScan, escA]
  | cons b t ih =>
    intro st hs h
    have hb := h b List.mem_cons_self
    unfold escScan
    rw [hs]
    simp only []
    rw [ih _ (by rw [escStep_class G st b t hb hs]) (fun x hx => h x (List.mem_cons_of_mem _ hx))]
    rw [escStep_class G st b t hb hs, escA_cons]
    simp

/-- `escapeText` on a string over the class: every byte of `[ ] * \` \\ <` gets
a backslash, everything else is copied -/
theorem escapeText_class (G : GoU) (s : Bytes) (h : ∀ b ∈ s, isEscSpB b = true) :
    escapeText G s = escA s := by
  unfold escapeText
  rw [escScan_class G s _ rfl h]
  simp

/-! ### the reference tokenizer on the escaped text -/

theorem plain_byte_facts : ∀ b : UInt8, isEscB b = true → isBslB b = false →
    (b == 0x5C) = false ∧ (b == 0x60) = false ∧ (b == 0x2A || b == 0x5F) = false ∧
    (b == 0x5B) = false ∧ (b == 0x5D) = false ∧ (b == 0x3C) = false ∧ (b == 0x26) = false ∧
    (b == SP) = false ∧ (b == NL) = false ∧ b.toNat < 0x80 := by
  apply forall_uint8
  decide +kernel

theorem punct_not_nl : ∀ c : UInt8, isAsciiPunctB c = true → (c == NL) = false := by
  apply forall_uint8
  decide +kernel

/-- a byte of the class that needs no backslash is one text token -/
theorem tokenAt_plain (U : UClass) (st : Scan) (b : UInt8) (t : Bytes)
    (hb : isEscB b = true) (hq : isBslB b = false) (hn : t.head? ≠ some 0x5B) :
    tokenAt U st b t = { acc := pushText st.acc [b], prev := b.toNat, skip := 0, bad := st.bad } := by
  obtain ⟨h1, h2, h3, h4, h5, h6, h7, h8, h9, h80⟩ := plain_byte_facts b hb hq
  have hbang : (b == 0x21 && t.head? == some 0x5B) = false := by
    cases hh : t.head? with
    | none => simp
    | some x =>
      have : x ≠ 0x5B := by intro hx; subst hx; exact hn hh
      simp [this]
  unfold tokenAt
  simp only [h1, h2, h3, h4, h5, h6, h7, h8, h9, hbang, decodeRune_ascii b t h80]
  simp

/-- backslash + ASCII punctuation is one text token (the punctuation) -/
theorem tokenAt_bsl (U : UClass) (st : Scan) (c : UInt8) (t : Bytes) (hc : isAsciiPunctB c = true) :
    tokenAt U st 0x5C (c :: t) = { acc := pushText st.acc [c], prev := c.toNat, skip := 1, bad := st.bad } := by
  unfold tokenAt
  simp [punct_not_nl c hc, hc]

theorem scan_cons0 (U : UClass) (st : Scan) (b : UInt8) (t : Bytes) (hs : st.skip = 0) :
    scan U st (b :: t) = scan U (tokenAt U st b t) t := by
  conv => lhs; unfold scan
  rw [hs]

theorem scan_skip1 (U : UClass) (st : Scan) (b : UInt8) (t : Bytes) (k : Nat) (hs : st.skip = k + 1) :
    scan U st (b :: t) = scan U { st with skip := k } t := by
  conv => lhs; unfold scan
  rw [hs]

/-- dropping the bytes of a token already recognised -/
theorem scan_skip (U : UClass) : ∀ (x : Bytes) (acc : List Item) (prev : Nat) (bad : Bool) (rest : Bytes),
    scan U { acc := acc, prev := prev, skip := x.length, bad := bad } (x ++ rest) =
    scan U { acc := acc, prev := prev, skip := 0, bad := bad } rest := by
  intro x
  induction x with
  | nil => intros; rfl
  | cons b t ih =>
    intro acc prev bad rest
    rw [List.cons_append, scan_skip1 U _ b (t ++ rest) t.length rfl]
    exact ih acc prev bad rest

theorem scan_plain (U : UClass) (st : Scan) (b : UInt8) (t : Bytes) (hs : st.skip = 0)
    (hb : isEscB b = true) (hq : isBslB b = false) (hn : t.head? ≠ some 0x5B) :
    scan U st (b :: t) = scan U { acc := pushText st.acc [b], prev := b.toNat, skip := 0, bad := st.bad } t := by
  rw [scan_cons0 U st b t hs, tokenAt_plain U st b t hb hq hn]

theorem scan_bsl (U : UClass) (st : Scan) (c : UInt8) (t : Bytes) (hs : st.skip = 0)
    (hc : isAsciiPunctB c = true) :
    scan U st (0x5C :: c :: t) = scan U { acc := pushText st.acc [c], prev := c.toNat, skip := 0, bad := st.bad } t := by
  rw [scan_cons0 U st _ _ hs, tokenAt_bsl U st c t hc]
  exact scan_skip U [c] _ _ _ t

theorem countWhile_replicate (c : UInt8) (k : Nat) (rest : Bytes) (h : rest.head? ≠ some c) :
    countWhile (· == c) (List.replicate k c ++ rest) = k := by
  induction k with
  | zero =>
    cases rest with
    | nil => rfl
    | cons x r =>
      have : x ≠ c := by intro hx; subst hx; exact h rfl
      simp [countWhile, this]
  | succ n ih => simp [List.replicate_succ, countWhile, ih]

/-- a run of spaces not followed by a newline is one text token -/
theorem scan_spaces (U : UClass) (st : Scan) (k : Nat) (rest : Bytes) (hs : st.skip = 0)
    (h1 : rest.head? ≠ some SP) (h2 : rest.head? ≠ some NL) :
    scan U st (List.replicate (k + 1) SP ++ rest) =
    scan U { acc := pushText st.acc (List.replicate (k + 1) SP), prev := SP.toNat, skip := 0, bad := st.bad } rest := by
  have hcw := countWhile_replicate SP (k + 1) rest h1
  rw [List.replicate_succ, List.cons_append] at hcw ⊢
  rw [scan_cons0 U st _ _ hs]
  have hdrop : (SP :: (List.replicate k SP ++ rest)).drop (k + 1) = rest := by
    simp
  have htok : tokenAt U st SP (List.replicate k SP ++ rest) =
      { acc := pushText st.acc (SP :: List.replicate k SP), prev := SP.toNat, skip := k, bad := st.bad } := by
    unfold tokenAt
    have e1 : (SP == (0x5C : UInt8)) = false := by decide
    have e2 : (SP == (0x60 : UInt8)) = false := by decide
    have e3 : (SP == (0x2A : UInt8) || SP == (0x5F : UInt8)) = false := by decide
    have e4 : (SP == (0x5B : UInt8)) = false := by decide
    have e5 : (SP == (0x21 : UInt8)) = false := by decide
    have e6 : (SP == (0x5D : UInt8)) = false := by decide
    have e7 : (SP == (0x3C : UInt8)) = false := by decide
    have e8 : (SP == (0x26 : UInt8)) = false := by decide
    simp only [e1, e2, e3, e4, e5, e6, e7, e8, Bool.false_and, Bool.false_eq_true, if_false, beq_self_eq_true,
      if_true, hcw, hdrop]
    cases rest with
    | nil => simp [List.replicate_succ]
    | cons c r =>
      have : c ≠ NL := by intro hx; subst hx; exact h2 rfl
      simp [this, List.replicate_succ]
  rw [htok]
  have := scan_skip U (List.replicate k SP) (pushText st.acc (SP :: List.replicate k SP)) SP.toNat st.bad rest
  simpa using this

/-! ### lock step: the tokens of the escaped text are the source text -/

def mkT (x : Bytes) : Item := .node (.text x)

theorem esc1_head : ∀ b : UInt8, isEscSpB b = true →
    (esc1 b).head? ≠ some 0x5B ∧ (esc1 b).head? ≠ some NL ∧ (esc1 b) ≠ [] ∧
    (isEscB b = true → (esc1 b).head? ≠ some SP) ∧ (isBslB b = true → isAsciiPunctB b = true) ∧
    (isEscB b = false → b = SP) ∧ isBslB SP = false := by
  apply forall_uint8
  decide +kernel

theorem escA_head (t : Bytes) (h : ∀ b ∈ t, isEscSpB b = true) :
    (escA t).head? ≠ some 0x5B ∧ (escA t).head? ≠ some NL := by
  cases t with
  | nil => simp [escA]
  | cons b t' =>
    have hb := esc1_head b (h b List.mem_cons_self)
    rw [escA_cons]
    cases he : esc1 b with
    | nil => exact absurd he hb.2.2.1
    | cons x r =>
      rw [he] at hb
      have h1 := hb.1
      have h2 := hb.2.1
      simp only [List.head?_cons, ne_eq, Option.some.injEq] at h1 h2
      simp [h1, h2]

theorem scan_escA (U : UClass) : ∀ (s : Bytes), (∀ b ∈ s, isEscSpB b = true) →
    ∀ (k : Nat) (st : Scan), st.skip = 0 →
    ∃ (ts : List Bytes) (p : Nat),
      scan U st (List.replicate k SP ++ escA s) =
        { acc := (ts.map mkT).reverse ++ st.acc, prev := p, skip := 0, bad := st.bad } ∧
      ts.flatten = List.replicate k SP ++ s := by
  intro s
  induction s with
  | nil =>
    intro _ k st hs
    cases k with
    | zero =>
      refine ⟨[], st.prev, ?_, by simp⟩
      cases st
      simp only [] at hs
      subst hs
      simp [escA, scan]
    | succ k =>
      refine ⟨[List.replicate (k + 1) SP], SP.toNat, ?_, by simp⟩
      rw [escA_nil, scan_spaces U st k [] hs (by simp) (by simp)]
      simp [scan, pushText, mkT]
  | cons b t ih =>
    intro h k st hs
    have ht : ∀ x ∈ t, isEscSpB x = true := fun x hx => h x (List.mem_cons_of_mem _ hx)
    have hb := esc1_head b (h b List.mem_cons_self)
    by_cases hsp : isEscB b = true
    · -- a non-space byte: first the pending run of spaces, then the byte
      have A : ∀ st : Scan, st.skip = 0 → ∃ (ts : List Bytes) (p : Nat),
          scan U st (esc1 b ++ escA t) =
            { acc := (ts.map mkT).reverse ++ st.acc, prev := p, skip := 0, bad := st.bad } ∧
          ts.flatten = b :: t := by
        intro st hs
        cases hq : isBslB b with
        | true =>
          have hp := hb.2.2.2.2.1 hq
          obtain ⟨ts, p, h1, h2⟩ := ih ht 0
            { acc := pushText st.acc [b], prev := b.toNat, skip := 0, bad := st.bad } rfl
          refine ⟨[b] :: ts, p, ?_, by simpa using h2⟩
          have : esc1 b = [0x5C, b] := by simp [esc1, hq]
          rw [this]
          simp only [List.cons_append, List.nil_append]
          rw [scan_bsl U st b _ hs hp]
          simp only [List.replicate_zero, List.nil_append] at h1
          rw [h1]
          simp [pushText, mkT]
        | false =>
          obtain ⟨ts, p, h1, h2⟩ := ih ht 0
            { acc := pushText st.acc [b], prev := b.toNat, skip := 0, bad := st.bad } rfl
          refine ⟨[b] :: ts, p, ?_, by simpa using h2⟩
          have : esc1 b = [b] := by simp [esc1, hq]
          rw [this]
          simp only [List.cons_append, List.nil_append]
          rw [scan_plain U st b _ hs hsp hq (escA_head t ht).1]
          simp only [List.replicate_zero, List.nil_append] at h1
          rw [h1]
          simp [pushText, mkT]
      cases k with
      | zero =>
        obtain ⟨ts, p, h1, h2⟩ := A st hs
        exact ⟨ts, p, by simpa [escA_cons] using h1, by simpa using h2⟩
      | succ k =>
        rw [escA_cons]
        have hh1 : (esc1 b ++ escA t).head? ≠ some SP := by
          cases he : esc1 b with
          | nil => exact absurd he hb.2.2.1
          | cons x r =>
            have := hb.2.2.2.1 hsp
            rw [he] at this
            simpa using this
        have hh2 : (esc1 b ++ escA t).head? ≠ some NL := by
          cases he : esc1 b with
          | nil => exact absurd he hb.2.2.1
          | cons x r =>
            have := hb.2.1
            rw [he] at this
            simpa using this
        rw [scan_spaces U st k _ hs hh1 hh2]
        obtain ⟨ts, p, h1, h2⟩ := A
          { acc := pushText st.acc (List.replicate (k + 1) SP), prev := SP.toNat, skip := 0, bad := st.bad } rfl
        refine ⟨List.replicate (k + 1) SP :: ts, p, ?_, by simp [h2]⟩
        rw [h1]
        simp [pushText, mkT]
    · -- a space: it joins the pending run
      have hbsp : b = SP := hb.2.2.2.2.2.1 (by simpa using hsp)
      subst hbsp
      obtain ⟨ts, p, h1, h2⟩ := ih ht (k + 1) st hs
      refine ⟨ts, p, ?_, ?_⟩
      · have : esc1 SP = [SP] := by simp [esc1, hb.2.2.2.2.2.2]
        rw [escA_cons, this]
        rw [← h1]
        simp [List.replicate_succ']
      · rw [h2]; simp [List.replicate_succ']

end C36
