/-
C36 helpers — reflow of plain words, block level: several lines of plain
words are one paragraph for the C35 reference.
-/
import ElvProofs.C36.ReflowRead
namespace C36
open Go C35

theorem splitNL_ne_nil (s : Bytes) : splitNL s ≠ [] := by
  induction s with
  | nil => simp [splitNL]
  | cons b t ih =>
    unfold splitNL
    split
    · simp
    · split <;> simp

theorem splitNL_append (l rest : Bytes) (h : ∀ b ∈ l, b ≠ NL) :
    splitNL (l ++ NL :: rest) = l :: splitNL rest := by
  induction l with
  | nil =>
    cases hr : splitNL rest with
    | nil => exact absurd hr (splitNL_ne_nil rest)
    | cons a r => simp [splitNL, hr]
  | cons b t ih =>
    have hb : (b == NL) = false := by simpa using h b List.mem_cons_self
    simp [splitNL, ih (fun x hx => h x (List.mem_cons_of_mem _ hx)), hb]

theorem splitNL_lines (Ls : List Bytes) (h : ∀ l ∈ Ls, ∀ b ∈ l, b ≠ NL) :
    splitNL (Ls.flatMap (fun l => l ++ [NL])) = Ls ++ [[]] := by
  induction Ls with
  | nil => simp [splitNL]
  | cons l r ih =>
    simp only [List.flatMap_cons, List.append_assoc, List.singleton_append]
    rw [splitNL_append l _ (h l List.mem_cons_self), ih (fun x hx => h x (List.mem_cons_of_mem _ hx))]
    rfl

theorem docLines_lines (Ls : List Bytes) (hne : Ls ≠ []) (h : ∀ l ∈ Ls, ∀ b ∈ l, b ≠ NL) :
    docLines (Ls.flatMap (fun l => l ++ [NL])) = Ls := by
  unfold docLines
  rw [splitNL_lines Ls h]
  have hlast : (Ls.flatMap (fun l => l ++ [NL])).getLast? = some NL := by
    have : Ls = Ls.dropLast ++ [Ls.getLast hne] := (List.dropLast_concat_getLast hne).symm
    rw [this]
    simp [List.flatMap_append]
  have hemp : (Ls.flatMap (fun l => l ++ [NL])).isEmpty = false := by
    cases Ls with
    | nil => exact absurd rfl hne
    | cons a r => simp
  simp [hlast, hemp]

theorem listMarker_plain (c : UInt8) (t : Bytes) (hc : isAlnumB c = true)
    (h : ∀ b ∈ c :: t, isAlnumB b = true ∨ b = SP) : listMarker (c :: t) = none := by
  obtain ⟨f1, f2, f3, f4, f5, f6, f7, f8, _, f10, _⟩ := alnum_first_facts c hc
  have hls : leadingSpaces (c :: t) = 0 := by simp [leadingSpaces, countWhile, f1]
  unfold listMarker
  simp only [hls, List.drop_zero, f3, f4, f10, Bool.or_self, Bool.false_eq_true, if_false]
  split
  · rfl
  · split
    · rfl
    · cases hd : List.drop (countWhile isDigitB (c :: t)) (c :: t) with
      | nil => rfl
      | cons d r =>
        have hmem : d ∈ c :: t := List.mem_of_mem_drop (by rw [hd]; exact List.mem_cons_self)
        have := (alnum_facts d (h d hmem)).2.2.2.2
        simp only [this, Bool.false_and, Bool.false_eq_true, if_false]

abbrev docFrames : List Frame := [{ kind := .doc, kids := [] }]

theorem stepLine_plain (leaf : Leaf) (ps : List Bytes) (hleaf : leaf = .none ∧ ps = [] ∨ leaf = .para ps)
    (c : UInt8) (t : Bytes) (hc : isAlnumB c = true)
    (h : ∀ b ∈ c :: t, isAlnumB b = true ∨ b = SP) :
    stepLine { frames := docFrames, leaf := leaf, fuelOut := false } (c :: t) =
      { frames := docFrames, leaf := .para ((c :: t) :: ps), fuelOut := false } := by
  obtain ⟨f1, f2, f3, f4, f5, f6, f7, f8, _, f10, f11⟩ := alnum_first_facts c hc
  have hlm := listMarker_plain c t hc h
  rcases hleaf with ⟨h1, h2⟩ | h1
  · subst h1; subst h2
    unfold stepLine
    simp only [docFrames, nonDocFrames, List.reverse_cons, List.reverse_nil, List.nil_append, List.drop_one,
      List.tail_cons, matchFrames, List.length_cons, List.length_nil]
    unfold openBlocks
    simp [isBlank, f1, f2, leadingSpaces, countWhile, atxHeading, fenceOpen,
      isThematicBreak, hlm, f3, f5, f6, f7, f8, f10, f11, addText, prepareBlock,
      closeUnmatched, closeDown, closeLeaf, trimLeftSp]
  · subst h1
    unfold stepLine
    simp only [docFrames, nonDocFrames, List.reverse_cons, List.reverse_nil, List.nil_append, List.drop_one,
      List.tail_cons, matchFrames, List.length_cons, List.length_nil]
    unfold openBlocks
    simp [isBlank, f1, f2, leadingSpaces, countWhile, atxHeading, fenceOpen,
      isThematicBreak, hlm, f3, f5, f6, f7, f8, f10, f11, addText, trimLeftSp]

/-- a line of letters, digits and spaces that starts and ends with a letter or digit -/
def PlainLineP (L : Bytes) : Prop :=
  ∃ c t, L = c :: t ∧ isAlnumB c = true ∧ (∀ b ∈ c :: t, isAlnumB b = true ∨ b = SP) ∧
    ∃ e, (c :: t).getLast? = some e ∧ isAlnumB e = true

theorem foldl_plain : ∀ (Ls : List Bytes), (∀ L ∈ Ls, PlainLineP L) → ∀ ps : List Bytes,
    Ls.foldl stepLine { frames := docFrames, leaf := .para ps, fuelOut := false } =
      { frames := docFrames, leaf := .para (Ls.reverse ++ ps), fuelOut := false } := by
  intro Ls
  induction Ls with
  | nil => intro _ ps; rfl
  | cons L r ih =>
    intro h ps
    obtain ⟨c, t, he, hc, hb, _⟩ := h L List.mem_cons_self
    subst he
    rw [List.foldl_cons, stepLine_plain (.para ps) ps (Or.inr rfl) c t hc hb,
      ih (fun x hx => h x (List.mem_cons_of_mem _ hx))]
    simp

theorem plainLine_noNL (L : Bytes) (h : PlainLineP L) : ∀ b ∈ L, b ≠ NL := by
  obtain ⟨c, t, he, _, hb, _⟩ := h
  subst he
  intro b hbm hx
  have := (alnum_facts b (hb b hbm)).2.2.1
  subst hx
  simp at this

theorem parseBlocks_plain_lines (Ls : List Bytes) (hne : Ls ≠ []) (h : ∀ L ∈ Ls, PlainLineP L) :
    parseBlocks (Ls.flatMap (fun l => l ++ [NL])) = some [Raw.para Ls] := by
  unfold parseBlocks
  rw [docLines_lines Ls hne (fun l hl => plainLine_noNL l (h l hl))]
  cases Ls with
  | nil => exact absurd rfl hne
  | cons L r =>
    obtain ⟨c, t, he, hc, hb, _⟩ := h L List.mem_cons_self
    subst he
    have h0 := stepLine_plain .none [] (Or.inl ⟨rfl, rfl⟩) c t hc hb
    simp only [docFrames] at h0
    simp only [List.foldl_cons, h0]
    have := foldl_plain r (fun x hx => h x (List.mem_cons_of_mem _ hx)) [c :: t]
    simp only [docFrames] at this
    rw [this]
    simp [closeUnmatched, closeDown, closeLeaf, pushKid]

theorem escHtml_plain (s : Bytes) (h : ∀ b ∈ s, isAlnumB b = true ∨ b = SP) : escHtml s = s := by
  have hf : ∀ b : UInt8, (isAlnumB b = true ∨ b = SP) →
      (b == 0x26) = false ∧ (b == 0x3C) = false ∧ (b == 0x3E) = false ∧ (b == 0x22) = false := by
    apply forall_uint8
    decide +kernel
  induction s with
  | nil => rfl
  | cons b t ih =>
    obtain ⟨g1, g2, g3, g4⟩ := hf b (h b List.mem_cons_self)
    have := ih (fun x hx => h x (List.mem_cons_of_mem _ hx))
    unfold escHtml at this ⊢
    simp only [List.flatMap_cons, g1, g2, g3, g4, Bool.false_eq_true, if_false, this]
    rfl

theorem inlHtml_lineInls (n : Nat) : ∀ (Ls : List Bytes), (∀ L ∈ Ls, PlainLineP L) →
    inlHtml true (n + 1) (lineInls Ls) = joinNL Ls := by
  intro Ls
  induction Ls with
  | nil => intro _; simp [lineInls, inlHtml, joinNL]
  | cons L r ih =>
    intro h
    obtain ⟨c, t, he, _, hb, _⟩ := h L List.mem_cons_self
    have hesc := escHtml_plain L (by rw [he]; exact hb)
    cases r with
    | nil => simp [lineInls, inlHtml, joinNL, hesc]
    | cons M r' =>
      have := ih (fun x hx => h x (List.mem_cons_of_mem _ hx))
      rw [lineInls_cons_cons, joinNL_cons_cons, ← this]
      unfold inlHtml
      simp [hesc]

theorem joinNL_last : ∀ (Ls : List Bytes), Ls ≠ [] → (∀ L ∈ Ls, PlainLineP L) →
    ∃ e, (joinNL Ls).getLast? = some e ∧ isAlnumB e = true := by
  intro Ls
  induction Ls with
  | nil => intro h; exact absurd rfl h
  | cons L r ih =>
    intro _ h
    cases r with
    | nil =>
      obtain ⟨c, t, he, _, _, e, hl, hee⟩ := h L List.mem_cons_self
      exact ⟨e, by simpa [joinNL, he] using hl, hee⟩
    | cons M r' =>
      obtain ⟨e, hl, hee⟩ := ih (by simp) (fun x hx => h x (List.mem_cons_of_mem _ hx))
      refine ⟨e, ?_, hee⟩
      rw [joinNL_cons_cons, List.getLast?_append]
      cases hj : joinNL (M :: r') with
      | nil => rw [hj] at hl; simp at hl
      | cons a b =>
        rw [hj] at hl
        rw [List.getLast?_cons_cons, hl]
        rfl

/-- the reference's rendering of a document of plain lines, given how it
reads their inline content -/
theorem render_plain_lines (U : UClass) (Ls : List Bytes) (hne : Ls ≠ []) (h : ∀ L ∈ Ls, PlainLineP L)
    (hp : parseInlines U (joinNL Ls) = some (lineInls Ls)) :
    render U true (Ls.flatMap (fun l => l ++ [NL])) = some (bs "<p>" ++ joinNL Ls ++ bs "</p>\n") := by
  unfold render
  rw [parseBlocks_plain_lines Ls hne h]
  simp only []
  obtain ⟨e, hl, hee⟩ := joinNL_last Ls hne h
  have htrim : trimRightSpTab (joinNL Ls) = joinNL Ls := by
    apply trimRightSpTab_id
    intro b hb
    rw [hl] at hb
    injection hb with hb
    subst hb
    have := alnum_first_facts e hee
    simp [this.1, this.2.1]
  have hfuel : ∀ k : Nat, k + 2 = (k + 1) + 1 := fun k => rfl
  rw [hfuel]
  unfold renderRaws
  simp only [List.foldl_cons, List.foldl_nil, paraText, htrim, hp]
  have hadd : ∀ a b : Nat, a + 1 + b = (a + b) + 1 := by intros; omega
  rw [hadd, inlHtml_lineInls _ Ls h]
  simp [cr]

theorem joinSp_last : ∀ (l : List Bytes), l ≠ [] → (∀ w ∈ l, PlainWord w) →
    ∃ e, (joinSp l).getLast? = some e ∧ isAlnumB e = true := by
  intro l
  induction l with
  | nil => intro h; exact absurd rfl h
  | cons x r ih =>
    intro _ h
    have hx := h x List.mem_cons_self
    cases r with
    | nil =>
      cases hg : x.getLast? with
      | none => simp at hg; exact absurd hg hx.1
      | some e => exact ⟨e, by simpa [joinSp] using hg, hx.2 e (List.mem_of_getLast? hg)⟩
    | cons y r' =>
      obtain ⟨e, hl, hee⟩ := ih (by simp) (fun w hw => h w (List.mem_cons_of_mem _ hw))
      refine ⟨e, ?_, hee⟩
      rw [joinSp_cons_cons, List.getLast?_append]
      cases hj : joinSp (y :: r') with
      | nil => rw [hj] at hl; simp at hl
      | cons a b =>
        rw [hj] at hl
        rw [List.getLast?_cons_cons, hl]
        rfl

theorem plainLine_joinSp (l : List Bytes) (hl : l ≠ []) (h : ∀ w ∈ l, PlainWord w) :
    PlainLineP (joinSp l) := by
  obtain ⟨c, t, he, hc⟩ := joinSp_head l hl h
  obtain ⟨e, hlast, hee⟩ := joinSp_last l hl h
  refine ⟨c, t, he, hc, ?_, e, ?_, hee⟩
  · rw [← he]; exact joinSp_bytes l h
  · rw [← he]; exact hlast

/-- reflow of a paragraph of plain words, formatter and read-back -/
theorem reflow_preserves_plain_words (G : GoU) (U : UClass) (w : Int) (ws : List Bytes)
    (hne : ws ≠ []) (h : ∀ x ∈ ws, PlainWord x) :
    ∃ lines : List (List Bytes),
      fmtTextReflow G w (joinSp ws) = .ok (lines.flatMap (fun l => joinSp l ++ [NL])) ∧
      lines.flatten = ws ∧ (∀ l ∈ lines, l ≠ []) ∧
      render U true (lines.flatMap (fun l => joinSp l ++ [NL])) =
        some (bs "<p>" ++ joinNL (lines.map joinSp) ++ bs "</p>\n") := by
  obtain ⟨lines, h1, h2, h3, h4⟩ := fmtTextReflow_plain G w ws hne h
  refine ⟨lines, h1, h2, fun l hl => (h3 l hl).1, ?_⟩
  have hflat : lines.flatMap (fun l => joinSp l ++ [NL]) = (lines.map joinSp).flatMap (fun l => l ++ [NL]) := by
    simp [List.flatMap_map]
  rw [hflat]
  apply render_plain_lines U (lines.map joinSp) (by simpa using h4)
  · intro L hL
    rcases List.mem_map.mp hL with ⟨l, hl, rfl⟩
    exact plainLine_joinSp l (h3 l hl).1 (h3 l hl).2
  · exact parseInlines_lines U lines h4 h3

end C36
