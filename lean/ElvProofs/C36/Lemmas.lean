import ElvModel.C36.Model
namespace C36
open Go C35

/-! ### foldl max -/

theorem foldl_max_ge_init (xs : List Nat) (a : Nat) : a ≤ xs.foldl max a := by
  induction xs generalizing a with
  | nil => simp
  | cons x xs ih =>
    simp only [List.foldl_cons]
    exact Nat.le_trans (Nat.le_max_left a x) (ih (max a x))

theorem le_foldl_max (xs : List Nat) (a k : Nat) (h : k ∈ xs) : k ≤ xs.foldl max a := by
  induction xs generalizing a with
  | nil => cases h
  | cons x xs ih =>
    simp only [List.foldl_cons]
    rcases List.mem_cons.mp h with h | h
    · subst h
      exact Nat.le_trans (Nat.le_max_right a k) (foldl_max_ge_init xs (max a k))
    · exact ih (max a x) h

theorem run_le_maxRun (c : UInt8) (lines : List Bytes) (line : Bytes) (k : Nat)
    (hl : line ∈ lines) (hk : k ∈ runLens c line) : k ≤ maxRun c lines := by
  unfold maxRun
  apply le_foldl_max
  exact List.mem_flatMap.mpr ⟨line, hl, hk⟩

/-! ### pigeonhole for the code-span delimiter -/

theorem interval_subset_length (fuel : Nat) :
    ∀ (runs : List Nat) (a : Nat), (∀ i, a ≤ i → i < a + fuel → i ∈ runs) → fuel ≤ runs.length := by
  induction fuel with
  | zero => intros; omega
  | succ n ih =>
    intro runs a h
    have ha : a ∈ runs := h a (Nat.le_refl a) (by omega)
    have h' : ∀ i, a + 1 ≤ i → i < a + 1 + n → i ∈ runs.erase a := by
      intro i h1 h2
      have : i ∈ runs := h i (by omega) (by omega)
      exact (List.mem_erase_of_ne (by omega)).mpr this
    have := ih (runs.erase a) (a + 1) h'
    rw [List.length_erase_of_mem ha] at this
    have hpos : 0 < runs.length := List.length_pos_of_mem ha
    omega

theorem spanDelimLen_spec (fuel : Nat) :
    ∀ (a : Nat) (runs : List Nat),
      (spanDelimLen fuel a runs ∉ runs) ∨ (∀ i, a ≤ i → i < a + fuel → i ∈ runs) := by
  induction fuel with
  | zero => intro a runs; right; intros; omega
  | succ n ih =>
    intro a runs
    unfold spanDelimLen
    by_cases hc : runs.contains a = true
    · simp only [hc, if_true]
      rcases ih (a + 1) runs with h | h
      · left; exact h
      · right
        intro i h1 h2
        by_cases hia : i = a
        · subst hia; simpa using hc
        · exact h i (by omega) (by omega)
    · simp only [hc]
      left
      simpa using hc

theorem spanDelimLen_ge (fuel : Nat) : ∀ (a : Nat) (runs : List Nat), a ≤ spanDelimLen fuel a runs := by
  induction fuel with
  | zero => intro a runs; simp [spanDelimLen]
  | succ n ih =>
    intro a runs
    unfold spanDelimLen
    split
    · exact Nat.le_trans (Nat.le_succ a) (ih (a + 1) runs)
    · exact Nat.le_refl a

/-! ### the line breaker -/

/-- width a line occupies: the spans plus one space between neighbours -/
def lineWidth (width : Bytes → Nat) : List Bytes → Nat
  | [] => 0
  | [x] => width x
  | x :: xs => width x + 1 + lineWidth width xs

theorem lineWidth_append_one (width : Bytes → Nat) (cur : List Bytes) (s : Bytes) (h : cur ≠ []) :
    lineWidth width (cur ++ [s]) = lineWidth width cur + 1 + width s := by
  induction cur with
  | nil => exact absurd rfl h
  | cons x xs ih =>
    cases xs with
    | nil => simp [lineWidth]
    | cons y ys =>
      have := ih (by simp)
      simp only [List.cons_append, lineWidth] at this ⊢
      omega

theorem breakLines_flatten (width : Bytes → Nat) (exactOK : Bool → Bytes → Bool) (maxW : Int)
    (spans : List Bytes) :
    ∀ (sop : Bool) (cur : List Bytes) (curW : Nat),
      (breakLines width exactOK maxW sop cur curW spans).flatten = cur ++ spans := by
  induction spans with
  | nil =>
    intro sop cur curW
    unfold breakLines
    split <;> simp_all
  | cons s rest ih =>
    intro sop cur curW
    unfold breakLines
    by_cases hc : cur.isEmpty = true
    · have : cur = [] := by simpa using hc
      subst this
      simp [ih]
    · simp only [hc]
      by_cases hf : fitsLine exactOK maxW sop cur curW s (width s) = true
      · simp [hf, ih]
      · simp [hf, ih]

theorem breakLines_nonempty (width : Bytes → Nat) (exactOK : Bool → Bytes → Bool) (maxW : Int)
    (spans : List Bytes) :
    ∀ (sop : Bool) (cur : List Bytes) (curW : Nat),
      ∀ l ∈ breakLines width exactOK maxW sop cur curW spans, l ≠ [] := by
  induction spans with
  | nil =>
    intro sop cur curW l hl
    unfold breakLines at hl
    by_cases hc : cur.isEmpty = true
    · simp [hc] at hl
    · simp [hc] at hl; subst hl
      intro h; subst h; simp at hc
  | cons s rest ih =>
    intro sop cur curW l hl
    unfold breakLines at hl
    by_cases hc : cur.isEmpty = true
    · simp only [hc, if_true] at hl
      exact ih _ _ _ l hl
    · simp only [hc] at hl
      by_cases hf : fitsLine exactOK maxW sop cur curW s (width s) = true
      · simp only [hf, if_true] at hl
        exact ih _ _ _ l hl
      · simp only [hf] at hl
        rcases List.mem_cons.mp hl with h | h
        · subst h; intro h; subst h; simp at hc
        · exact ih _ _ _ l h

/-- what the breaker guarantees for a line of two or more spans -/
def FitsOK (width : Bytes → Nat) (exactOK : Bool → Bytes → Bool) (maxW : Int) (l : List Bytes) : Prop :=
  l.length ≥ 2 →
    ((lineWidth width l : Int) < maxW) ∨
    ((lineWidth width l : Int) = maxW ∧ ∃ sop, exactOK sop (joinSp l) = true)

theorem breakLines_fits (width : Bytes → Nat) (exactOK : Bool → Bytes → Bool) (maxW : Int)
    (spans : List Bytes) :
    ∀ (sop : Bool) (cur : List Bytes) (curW : Nat),
      curW = lineWidth width cur → FitsOK width exactOK maxW cur →
      ∀ l ∈ breakLines width exactOK maxW sop cur curW spans, FitsOK width exactOK maxW l := by
  induction spans with
  | nil =>
    intro sop cur curW _ hfit l hl
    unfold breakLines at hl
    by_cases hc : cur.isEmpty = true
    · simp [hc] at hl
    · simp [hc] at hl; subst hl; exact hfit
  | cons s rest ih =>
    intro sop cur curW hW hfit l hl
    unfold breakLines at hl
    by_cases hc : cur.isEmpty = true
    · simp only [hc, if_true] at hl
      apply ih _ _ _ _ _ l hl
      · simp [lineWidth]
      · intro h; simp at h
    · simp only [hc] at hl
      have hne : cur ≠ [] := by intro h; subst h; simp at hc
      by_cases hf : fitsLine exactOK maxW sop cur curW s (width s) = true
      · simp only [hf, if_true] at hl
        apply ih _ _ _ _ _ l hl
        · rw [lineWidth_append_one width cur s hne, hW]
        · intro _
          rw [lineWidth_append_one width cur s hne, ← hW]
          unfold fitsLine at hf
          rcases Bool.or_eq_true_iff.mp hf with h1 | h2
          · left
            have := of_decide_eq_true h1
            push_cast; omega
          · right
            have h2' := Bool.and_eq_true_iff.mp h2
            have := of_decide_eq_true h2'.1
            refine ⟨?_, sop, h2'.2⟩
            push_cast; omega
      · simp only [hf] at hl
        rcases List.mem_cons.mp hl with h | h
        · subst h; exact hfit
        · apply ih _ _ _ _ _ l h
          · simp [lineWidth]
          · intro h; simp at h

/-! ### start-of-line escaping adds at most one byte -/

theorem take_drop_len (s : Bytes) (k : Nat) : (s.take k ++ [(0x5C : UInt8)] ++ s.drop k).length = s.length + 1 := by
  simp only [List.length_append, List.length_take, List.length_drop, List.length_cons, List.length_nil]
  omega

theorem escapeStartOfLine_len (sb s out : Bytes) (sop eol : Bool)
    (hs : ∀ b, s.head? = some b → b ≠ SP ∧ b ≠ 0x09)
    (h : escapeStartOfLine sb s sop eol = .ok out) : out.length ≤ s.length + 1 := by
  unfold escapeStartOfLine at h
  cases s with
  | nil => simp [escapeLeadingSpaceTab] at h
  | cons c tail =>
    have hc := hs c rfl
    have h1 : (c == SP) = false := by simpa using hc.1
    have h2 : (c == 0x09) = false := by simpa using hc.2
    simp only [escapeLeadingSpaceTab, h1, h2] at h
    simp only [Bool.false_eq_true, if_false] at h
    split at h
    · -- an early return: backslash + s
      rename_i r heq
      injection h with h; subst h
      repeat' (split at heq)
      all_goals first
        | (injection heq with heq; subst heq; simp)
        | cases heq
    · repeat' (split at h)
      all_goals first
        | (injection h with h; subst h; simp; done)
        | (injection h with h; subst h; simp; omega)

end C36
