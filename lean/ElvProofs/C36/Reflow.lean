/-
C36 helpers — reflow of a paragraph of plain words: the formatter side
(`escapeText`, `splitSpans`, `escapeStartOfLine`, the `emit` loop).
-/
import ElvProofs.C36.Block
import ElvProofs.C36.Lemmas
namespace C36
open Go C35

/-- a non-empty word of ASCII letters and digits -/
def PlainWord (w : Bytes) : Prop := w ≠ [] ∧ ∀ b ∈ w, isAlnumB b = true

theorem alnum_facts : ∀ b : UInt8, (isAlnumB b = true ∨ b = SP) →
    isEscSpB b = true ∧ isBslB b = false ∧ (b == NL) = false ∧ (b == 0x09) = false ∧
    (b == 0x2E || b == 0x29) = false := by
  apply forall_uint8
  decide +kernel

theorem alnum_first_facts : ∀ c : UInt8, isAlnumB c = true →
    (c == SP) = false ∧ (c == 0x09) = false ∧ (c == 0x2D) = false ∧ (c == 0x2B) = false ∧
    (c == 0x3E) = false ∧ (c == 0x23) = false ∧ (c == 0x7E) = false ∧ (c == 0x5F) = false ∧
    (c == NL) = false ∧ (c == 0x2A) = false ∧ (c == 0x60) = false := by
  apply forall_uint8
  decide +kernel

theorem joinSp_single (x : Bytes) : joinSp [x] = x := rfl
theorem joinSp_cons_cons (x y : Bytes) (ys : List Bytes) :
    joinSp (x :: y :: ys) = x ++ SP :: joinSp (y :: ys) := rfl

theorem mem_joinSp (ws : List Bytes) : ∀ b ∈ joinSp ws, b = SP ∨ ∃ w ∈ ws, b ∈ w := by
  induction ws with
  | nil => intro b hb; simp [joinSp] at hb
  | cons x xs ih =>
    cases xs with
    | nil => intro b hb; right; exact ⟨x, List.mem_cons_self, by simpa [joinSp] using hb⟩
    | cons y ys =>
      intro b hb
      rw [joinSp_cons_cons] at hb
      rcases List.mem_append.mp hb with h | h
      · right; exact ⟨x, List.mem_cons_self, h⟩
      · rcases List.mem_cons.mp h with h | h
        · left; exact h
        · rcases ih b h with h | ⟨w, hw, hbw⟩
          · left; exact h
          · right; exact ⟨w, List.mem_cons_of_mem _ hw, hbw⟩

theorem joinSp_bytes (ws : List Bytes) (h : ∀ w ∈ ws, PlainWord w) :
    ∀ b ∈ joinSp ws, isAlnumB b = true ∨ b = SP := by
  intro b hb
  rcases mem_joinSp ws b hb with h1 | ⟨w, hw, hbw⟩
  · right; exact h1
  · left; exact (h w hw).2 b hbw

theorem escA_id (s : Bytes) (h : ∀ b ∈ s, isBslB b = false) : escA s = s := by
  induction s with
  | nil => rfl
  | cons b t ih =>
    rw [escA_cons, ih (fun x hx => h x (List.mem_cons_of_mem _ hx))]
    simp [esc1, h b List.mem_cons_self]

/-- `escapeText` is the identity on text made of letters, digits and spaces -/
theorem escapeText_alnum_sp (G : GoU) (s : Bytes) (h : ∀ b ∈ s, isAlnumB b = true ∨ b = SP) :
    escapeText G s = s := by
  rw [escapeText_class G s (fun b hb => (alnum_facts b (h b hb)).1)]
  exact escA_id s (fun b hb => (alnum_facts b (h b hb)).2.1)

/-! ### splitSpans -/

theorem go_nil (cur : Bytes) : splitSpans.go cur [] = if cur.isEmpty then [] else [cur.reverse] := by
  rw [splitSpans.go]

theorem go_cons (cur : Bytes) (b : UInt8) (t : Bytes) : splitSpans.go cur (b :: t) =
    if b == SP || b == 0x09 || b == NL then
      (if cur.isEmpty then splitSpans.go [] t else cur.reverse :: splitSpans.go [] t)
    else splitSpans.go (b :: cur) t := by
  rw [splitSpans.go]

theorem go_word (w : Bytes) (hw : ∀ b ∈ w, isAlnumB b = true) : ∀ (cur rest : Bytes),
    splitSpans.go cur (w ++ rest) = splitSpans.go (w.reverse ++ cur) rest := by
  induction w with
  | nil => intro cur rest; rfl
  | cons b t ih =>
    intro cur rest
    have hf := alnum_first_facts b (hw b List.mem_cons_self)
    rw [List.cons_append, go_cons]
    simp only [hf.1, hf.2.1, hf.2.2.2.2.2.2.2.2.1, Bool.or_self, Bool.false_eq_true, if_false]
    rw [ih (fun x hx => hw x (List.mem_cons_of_mem _ hx))]
    simp

theorem splitSpans_joinSp (ws : List Bytes) (h : ∀ w ∈ ws, PlainWord w) :
    splitSpans (joinSp ws) = ws := by
  unfold splitSpans
  induction ws with
  | nil => simp [joinSp, go_nil]
  | cons x xs ih =>
    have hx := h x List.mem_cons_self
    have hxe : x.reverse.isEmpty = false := by
      cases x with
      | nil => exact absurd rfl hx.1
      | cons a r => simp
    cases xs with
    | nil =>
      have := go_word x hx.2 [] []
      simp only [List.append_nil] at this
      rw [joinSp_single, this, go_nil]
      simp [hxe]
    | cons y ys =>
      rw [joinSp_cons_cons, go_word x hx.2, go_cons]
      simp only [List.append_nil, beq_self_eq_true, Bool.true_or, if_true, hxe, Bool.false_eq_true, if_false,
        List.reverse_reverse]
      rw [ih (fun w hw => h w (List.mem_cons_of_mem _ hw))]

/-! ### escapeStartOfLine on a line of plain words -/

theorem escapeStartOfLine_alnum_sp (sb : Bytes) (c : UInt8) (t : Bytes) (sop eol : Bool)
    (hc : isAlnumB c = true) (h : ∀ b ∈ c :: t, isAlnumB b = true ∨ b = SP) :
    escapeStartOfLine sb (c :: t) sop eol = .ok (c :: t) := by
  obtain ⟨f1, f2, f3, f4, f5, f6, f7, f8, _, _, _⟩ := alnum_first_facts c hc
  have hhead : ∀ d, ((c :: t).drop (countWhile isDigitB (c :: t))).head? = some d →
      (d == 0x2E || d == 0x29) = false := by
    intro d hh
    have hd : d ∈ c :: t := List.mem_of_mem_drop (List.mem_of_mem_head? hh)
    exact (alnum_facts d (h d hd)).2.2.2.2
  have hsw : startsWith (c :: t) (bs "~~~") = false := by
    rw [bs_tildes]
    have : c ≠ 0x7E := by intro hx; subst hx; simp at f7
    simp [startsWith, List.isPrefixOf]
    intro hx; exact absurd hx.symm this
  unfold escapeStartOfLine
  cases hh : ((c :: t).drop (countWhile isDigitB (c :: t))).head? with
  | none =>
    simp only [escapeLeadingSpaceTab, f1, f2, f3, f4, f5, f6, Bool.false_eq_true, if_false, Bool.or_self, hsw,
      hh, Bool.and_false, thematicBreakLookalike, f8, Bool.false_and]
  | some d =>
    simp only [escapeLeadingSpaceTab, f1, f2, f3, f4, f5, f6, Bool.false_eq_true, if_false, Bool.or_self, hsw,
      hh, hhead d hh, Bool.and_false, thematicBreakLookalike, f8, Bool.false_and]

theorem joinSp_head (l : List Bytes) (hl : l ≠ []) (h : ∀ w ∈ l, PlainWord w) :
    ∃ c t, joinSp l = c :: t ∧ isAlnumB c = true := by
  cases l with
  | nil => exact absurd rfl hl
  | cons x xs =>
    have hx := h x List.mem_cons_self
    cases x with
    | nil => exact absurd rfl hx.1
    | cons c r =>
      have hc := hx.2 c List.mem_cons_self
      cases xs with
      | nil => exact ⟨c, r, rfl, hc⟩
      | cons y ys => exact ⟨c, r ++ SP :: joinSp (y :: ys), rfl, hc⟩

theorem escapeStartOfLine_plain (sb : Bytes) (l : List Bytes) (sop eol : Bool) (hl : l ≠ [])
    (h : ∀ w ∈ l, PlainWord w) : escapeStartOfLine sb (joinSp l) sop eol = .ok (joinSp l) := by
  obtain ⟨c, t, he, hc⟩ := joinSp_head l hl h
  have hb := joinSp_bytes l h
  rw [he] at hb ⊢
  exact escapeStartOfLine_alnum_sp sb c t sop eol hc hb

/-! ### the emit loop and `fmtTextReflow` -/

theorem emit_plain : ∀ (ls : List (List Bytes)) (sop : Bool),
    (∀ l ∈ ls, l ≠ [] ∧ ∀ w ∈ l, PlainWord w) →
    fmtTextReflow.emit sop ls = .ok (ls.flatMap (fun l => joinSp l ++ [NL])) := by
  intro ls
  induction ls with
  | nil => intro sop _; rw [fmtTextReflow.emit]; rfl
  | cons l rest ih =>
    intro sop h
    have hl := h l List.mem_cons_self
    rw [fmtTextReflow.emit, escapeStartOfLine_plain [] l sop true hl.1 hl.2,
      ih false (fun x hx => h x (List.mem_cons_of_mem _ hx))]
    simp

theorem fmtTextReflow_plain (G : GoU) (w : Int) (ws : List Bytes) (hne : ws ≠ [])
    (h : ∀ x ∈ ws, PlainWord x) :
    ∃ lines : List (List Bytes),
      fmtTextReflow G w (joinSp ws) = .ok (lines.flatMap (fun l => joinSp l ++ [NL])) ∧
      lines.flatten = ws ∧ (∀ l ∈ lines, l ≠ [] ∧ ∀ x ∈ l, PlainWord x) ∧ lines ≠ [] := by
  unfold fmtTextReflow
  simp only [escapeText_alnum_sp G _ (joinSp_bytes ws h), splitSpans_joinSp ws h]
  have he : ws.isEmpty = false := by cases ws with
    | nil => exact absurd rfl hne
    | cons a r => rfl
  simp only [he, Bool.false_eq_true, if_false]
  generalize hL : breakLines asciiWidth _ w true [] 0 ws = lines
  have hflat : lines.flatten = ws := by
    rw [← hL]; simpa using breakLines_flatten asciiWidth _ w ws true [] 0
  have hnon : ∀ l ∈ lines, l ≠ [] := by
    rw [← hL]; exact breakLines_nonempty asciiWidth _ w ws true [] 0
  have hall : ∀ l ∈ lines, l ≠ [] ∧ ∀ x ∈ l, PlainWord x := by
    intro l hl
    refine ⟨hnon l hl, fun x hx => h x ?_⟩
    rw [← hflat]; exact List.mem_flatten.mpr ⟨l, hl, hx⟩
  refine ⟨lines, emit_plain lines true hall, hflat, hall, ?_⟩
  intro hnil; rw [hnil] at hflat; exact hne hflat.symm

end C36
