/-
C36 helpers — ordered-list-marker lookalikes with leading zeros: the
formatter's `TrimLeft(number, "0") == "1"` agrees with the parser's
`Atoi(number) == 1`.
-/
import ElvProofs.C36.Inline
namespace C36
open Go C35

def decFrom (a : Nat) (ds : Bytes) : Nat := ds.foldl (fun a d => a * 10 + (d.toNat - 0x30)) a

theorem decVal_eq (ds : Bytes) : decVal ds = decFrom 0 ds := by
  unfold decVal decFrom; rfl

theorem decFrom_cons (a : Nat) (d : UInt8) (t : Bytes) :
    decFrom a (d :: t) = decFrom (a * 10 + (d.toNat - 0x30)) t := by
  unfold decFrom; rw [List.foldl_cons]

theorem decFrom_ge (ds : Bytes) : ∀ a : Nat, a ≤ decFrom a ds := by
  induction ds with
  | nil => intro a; exact Nat.le_refl a
  | cons d t ih =>
    intro a
    rw [decFrom_cons]
    have := ih (a * 10 + (d.toNat - 0x30))
    omega

theorem decFrom_eq_one (ds : Bytes) (a : Nat) (ha : 1 ≤ a) : decFrom a ds = 1 ↔ (ds = [] ∧ a = 1) := by
  cases ds with
  | nil => simp [decFrom]
  | cons d t =>
    rw [decFrom_cons]
    have := decFrom_ge t (a * 10 + (d.toNat - 0x30))
    constructor
    · intro h; omega
    · intro h; cases h.1

theorem digit_facts : ∀ d : UInt8, isDigitB d = true →
    ((d == 0x30) = true → d.toNat - 0x30 = 0) ∧
    ((d == 0x30) = false → 1 ≤ d.toNat - 0x30) ∧
    (d.toNat - 0x30 = 1 ↔ d = 0x31) ∧
    (d == SP) = false ∧ (d == 0x09) = false ∧ (d == 0x2D) = false ∧ (d == 0x2B) = false ∧
    (d == 0x3E) = false ∧ (d == 0x23) = false ∧ (d == 0x7E) = false ∧ (d == 0x2A) = false ∧
    (d == 0x5F) = false := by
  apply forall_uint8
  decide +kernel

/-- `strconv.Atoi(ds) == 1` iff `strings.TrimLeft(ds, "0") == "1"`, for digit strings -/
theorem trimLeftZeros_eq_one_iff (ds : Bytes) (hd : ∀ b ∈ ds, isDigitB b = true) :
    decVal ds = 1 ↔ ds.dropWhile (· == 0x30) = [0x31] := by
  rw [decVal_eq]
  induction ds with
  | nil => simp [decFrom]
  | cons d t ih =>
    have hf := digit_facts d (hd d List.mem_cons_self)
    have ht : ∀ b ∈ t, isDigitB b = true := fun b hb => hd b (List.mem_cons_of_mem _ hb)
    rw [decFrom_cons, List.dropWhile_cons]
    cases hz : (d == 0x30) with
    | true =>
      rw [hf.1 hz]
      simpa using ih ht
    | false =>
      have h1 := hf.2.1 hz
      simp only [Nat.zero_mul, Nat.zero_add, Bool.false_eq_true, if_false]
      rw [decFrom_eq_one t _ h1, hf.2.2.1]
      constructor
      · intro h; rw [h.1, h.2]
      · intro h; injection h with h1 h2; exact ⟨h2, h1⟩

theorem countWhile_digits (ds : Bytes) (p : UInt8) (tail : Bytes) (hd : ∀ b ∈ ds, isDigitB b = true)
    (hp : isDigitB p = false) : countWhile isDigitB (ds ++ p :: tail) = ds.length := by
  induction ds with
  | nil => simp [countWhile, hp]
  | cons d t ih =>
    simp [countWhile, hd d List.mem_cons_self, ih (fun b hb => hd b (List.mem_cons_of_mem _ hb))]

/-- On a continuation line (`sop = false`) an ordered-list-marker lookalike
`ds p tail` (1–9 digits, `.` or `)`, then end of line or space/tab) gets its
backslash IF AND ONLY IF the number is 1 as the parser reads it (`decVal`,
Go `strconv.Atoi`) — leading zeros included. -/
theorem escapeStartOfLine_ordered (sb ds tail : Bytes) (p : UInt8)
    (hd : ∀ b ∈ ds, isDigitB b = true) (h1 : 1 ≤ ds.length) (h9 : ds.length ≤ 9)
    (hp : p = 0x2E ∨ p = 0x29) (ht : tail = [] ∨ startsWithSpaceOrTab tail = true) :
    escapeStartOfLine sb (ds ++ p :: tail) false true =
      .ok (if decVal ds = 1 then ds ++ 0x5C :: p :: tail else ds ++ p :: tail) := by
  have hpd : isDigitB p = false := by rcases hp with h | h <;> subst h <;> decide
  have hpp : (p == 0x2E || p == 0x29) = true := by rcases hp with h | h <;> subst h <;> decide
  have hcw := countWhile_digits ds p tail hd hpd
  have hiff := trimLeftZeros_eq_one_iff ds hd
  cases ds with
  | nil => simp at h1
  | cons d t =>
    obtain ⟨_, _, _, f1, f2, f3, f4, f5, f6, f7, _, f9⟩ := digit_facts d (hd d List.mem_cons_self)
    have hdrop : ((d :: t) ++ p :: tail).drop (d :: t).length = p :: tail := by simp
    have hdrop1 : ((d :: t) ++ p :: tail).drop ((d :: t).length + 1) = tail := by
      rw [← List.drop_drop, hdrop]; rfl
    have htake : ((d :: t) ++ p :: tail).take (d :: t).length = d :: t := by simp
    have htl : (startsWithSpaceOrTab tail || (tail.isEmpty && true)) = true := by
      rcases ht with h | h
      · subst h; rfl
      · simp [h]
    unfold escapeStartOfLine
    simp only [List.cons_append, escapeLeadingSpaceTab, f1, f2, Bool.false_eq_true, if_false, f3, f4, f5, f6,
      Bool.or_self]
    have hsw : startsWith (d :: (t ++ p :: tail)) (bs "~~~") = false := by
      rw [show bs "~~~" = [0x7E, 0x7E, 0x7E] by decide +kernel]
      have : d ≠ 0x7E := by intro h; subst h; simp at f7
      simp [startsWith, List.isPrefixOf]
      intro h; exact absurd h.symm this
    simp only [List.cons_append] at hcw hdrop hdrop1 htake
    simp only [hsw, Bool.false_eq_true, if_false, hcw, hdrop, hdrop1, htake, List.head?_cons, hpp, htl,
      Bool.false_or, Bool.true_and]
    have h19 : (decide (1 ≤ (d :: t).length) && decide ((d :: t).length ≤ 9)) = true := by
      simp only [Bool.and_eq_true, decide_eq_true_eq]; exact ⟨h1, h9⟩
    simp only [h19, Bool.true_and, if_true]
    by_cases hv : decVal (d :: t) = 1
    · have := hiff.mp hv
      simp [hv, this]
    · have : ¬ (List.dropWhile (fun x => x == 0x30) (d :: t) = [0x31]) := fun h => hv (hiff.mpr h)
      simp [hv, this]

/-! ### against the C35 model of the parser (`parseStartingMarkers`) -/

theorem itemPrefix_digits (ds rest : Bytes) (q : UInt8) (hd : ∀ b ∈ ds, isDigitB b = true)
    (h1 : 1 ≤ ds.length) (h9 : ds.length ≤ 9) (hq : isDigitB q = false) :
    itemPrefix (ds ++ q :: rest) =
      if q == 0x2E || q == 0x29 then some (ds.length + 1, none, decVal ds, q) else none := by
  have hcw := countWhile_digits ds q rest hd hq
  cases ds with
  | nil => simp at h1
  | cons d t =>
    obtain ⟨_, _, _, f1, f2, f3, f4, f5, f6, f7, f8, f9⟩ := digit_facts d (hd d List.mem_cons_self)
    have hdrop : ((d :: t) ++ q :: rest).drop (d :: t).length = q :: rest := by simp
    have htake : ((d :: t) ++ q :: rest).take (d :: t).length = d :: t := by simp
    simp only [List.cons_append] at hcw hdrop htake ⊢
    have hls : leadingSpaces (d :: (t ++ q :: rest)) = 0 := by simp [leadingSpaces, countWhile, f1]
    have hk : ((d :: t).length < 1 || (d :: t).length > 9) = false := by
      simp only [Bool.or_eq_false_iff, decide_eq_false_iff_not]; omega
    unfold itemPrefix
    simp only [hls, List.drop_zero, f3, f4, f8, hcw, hdrop, htake, hk, Bool.or_self, Bool.false_eq_true,
      if_false, Nat.zero_add]
    simp

/-- the escaped marker is not an item marker for the parser -/
theorem escaped_not_item (ds tail : Bytes) (p : UInt8) (hd : ∀ b ∈ ds, isDigitB b = true)
    (h1 : 1 ≤ ds.length) (h9 : ds.length ≤ 9) :
    itemPrefix (ds ++ 0x5C :: p :: tail) = none ∧ itemMarkerRe (ds ++ 0x5C :: p :: tail) = none ∧
    itemMarkerBlankRe (ds ++ 0x5C :: p :: tail) = none := by
  have h := itemPrefix_digits ds (p :: tail) 0x5C hd h1 h9 (by decide)
  have h' : itemPrefix (ds ++ 0x5C :: p :: tail) = none := by rw [h]; rfl
  refine ⟨h', ?_, ?_⟩
  · unfold itemMarkerRe; rw [h']
  · unfold itemMarkerBlankRe; rw [h']

/-- an unescaped lookalike (number ≠ 1) on a continuation line opens no
container: the parser's `m.start != 1 && !newParagraph` rule -/
theorem unescaped_not_interrupting (ds tail : Bytes) (p : UInt8) (hd : ∀ b ∈ ds, isDigitB b = true)
    (h1 : 1 ≤ ds.length) (h9 : ds.length ≤ 9) (hp : p = 0x2E ∨ p = 0x29)
    (hne : decVal ds ≠ 1) (fuel : Nat) :
    startingMarkers (fuel + 1) (ds ++ p :: tail) false [] = some (ds ++ p :: tail, []) := by
  have hpd : isDigitB p = false := by rcases hp with h | h <;> subst h <;> decide
  have hpp : (p == 0x2E || p == 0x29) = true := by rcases hp with h | h <;> subst h <;> decide
  have hip := itemPrefix_digits ds tail p hd h1 h9 hpd
  rw [hpp] at hip
  simp only [if_true] at hip
  have htb : thematicBreakRe (ds ++ p :: tail) = false := by
    cases ds with
    | nil => simp at h1
    | cons d t =>
      obtain ⟨_, _, _, f1, f2, f3, f4, f5, f6, f7, f8, f9⟩ := digit_facts d (hd d List.mem_cons_self)
      simp [thematicBreakRe, leadingSpaces, countWhile, f1, f3, f8, f9]
  have hbq : blockquoteMarkerLen (ds ++ p :: tail) = none := by
    cases ds with
    | nil => simp at h1
    | cons d t =>
      obtain ⟨_, _, _, f1, f2, f3, f4, f5, f6, f7, f8, f9⟩ := digit_facts d (hd d List.mem_cons_self)
      have : d ≠ 0x3E := by intro h; subst h; simp at f5
      simp [blockquoteMarkerLen, leadingSpaces, countWhile, f1, this]
  have hs1 : (decVal ds != 1) = true := by simpa using hne
  unfold startingMarkers
  simp only [htb, Bool.false_eq_true, if_false, hbq, itemMarkerRe, hip]
  have hdr : List.drop (ds.length + 1) (ds ++ p :: tail) = tail := by
    rw [← List.drop_drop]; simp
  rw [hdr]
  by_cases hsp : 1 ≤ countWhile (fun x => x == SP) tail
  · simp [hsp, hs1]
  · simp [hsp]

end C36
