/-
C36 helpers — escape soundness for texts whose first byte is a digit
(ordered-list-marker lookalikes) against the reference `listMarker`.
-/
import ElvProofs.C36.FirstByte
import ElvProofs.C36.Ordered
namespace C36
open Go C35

theorem countWhile_all_digits (ds : Bytes) (hd : ∀ b ∈ ds, isDigitB b = true) :
    countWhile isDigitB ds = ds.length := by
  induction ds with
  | nil => rfl
  | cons d t ih =>
    simp [countWhile, hd d List.mem_cons_self, ih (fun b hb => hd b (List.mem_cons_of_mem _ hb))]

/-- for a digit-initial line only `listMarker` can start a block -/
theorem refInert_digit (d : UInt8) (rest : Bytes) (hd : isDigitB d = true)
    (hlm : listMarker (d :: rest) = none) : RefInert (d :: rest) := by
  obtain ⟨_, _, _, f1, f2, f3, f4, f5, f6, f7, f8, f9⟩ := digit_facts d hd
  have f5' : d ≠ 0x3E := by intro hx; subst hx; simp at f5
  have f0 : (d == 0x60) = false := by
    cases hh : (d == 0x60) with
    | false => rfl
    | true => have : d = 0x60 := by simpa using hh
              subst this; simp [isDigitB] at hd
  refine ⟨?_, ?_, ?_, ?_, ?_, ?_, hlm⟩ <;>
    simp [isBlank, leadingSpaces, countWhile, atxHeading, fenceOpen, isThematicBreak, f1, f2, f3, f5', f6, f7,
      f8, f9, f0]

theorem listMarker_digits (ds tl : Bytes) (p : UInt8) (hd : ∀ b ∈ ds, isDigitB b = true)
    (h1 : 1 ≤ ds.length) (hp : isDigitB p = false)
    (hcond : ds.length > 9 ∨ (p == 0x2E || p == 0x29) = false ∨
      (tl.isEmpty = false ∧ (tl.head? == some SP) = false)) :
    listMarker (ds ++ p :: tl) = none := by
  have hcw := countWhile_digits ds p tl hd hp
  cases ds with
  | nil => simp at h1
  | cons d t =>
    obtain ⟨_, _, _, f1, f2, f3, f4, f5, f6, f7, f8, f9⟩ := digit_facts d (hd d List.mem_cons_self)
    have hdrop : ((d :: t) ++ p :: tl).drop (d :: t).length = p :: tl := by simp
    simp only [List.cons_append] at hcw hdrop ⊢
    have hls : leadingSpaces (d :: (t ++ p :: tl)) = 0 := by simp [leadingSpaces, countWhile, f1]
    unfold listMarker
    have h03 : ¬ (0 > 3) := by omega
    simp only [hls, List.drop_zero, f3, f4, f8, hcw, hdrop, Bool.or_self, Bool.false_eq_true, if_false, h03]
    rcases hcond with h | h | ⟨h, h'⟩
    · have : ((d :: t).length < 1 || (d :: t).length > 9) = true := by simp; omega
      simp
      intro h'; simp at h; omega
    · split
      · rfl
      · simp [h]
    · split
      · rfl
      · simp [h, h']

theorem listMarker_digits_only (ds : Bytes) (hd : ∀ b ∈ ds, isDigitB b = true) (h1 : 1 ≤ ds.length) :
    listMarker ds = none := by
  have hcw := countWhile_all_digits ds hd
  cases ds with
  | nil => simp at h1
  | cons d t =>
    obtain ⟨_, _, _, f1, f2, f3, f4, f5, f6, f7, f8, f9⟩ := digit_facts d (hd d List.mem_cons_self)
    have hls : leadingSpaces (d :: t) = 0 := by simp [leadingSpaces, countWhile, f1]
    unfold listMarker
    have h03 : ¬ (0 > 3) := by omega
    simp only [hls, List.drop_zero, f3, f4, f8, hcw, Bool.or_self, Bool.false_eq_true, if_false,
      List.drop_length, h03]
    simp

/-- `escapeStartOfLine` at the start of a paragraph on digits followed by a non-digit -/
theorem esol_digits (ds tl : Bytes) (p : UInt8) (hd : ∀ b ∈ ds, isDigitB b = true)
    (h1 : 1 ≤ ds.length) (hp : isDigitB p = false) :
    escapeStartOfLine [] (ds ++ p :: tl) true true =
      .ok (if (decide (ds.length ≤ 9) && (p == 0x2E || p == 0x29) &&
               (startsWithSpaceOrTab tl || tl.isEmpty)) = true
           then ds ++ 0x5C :: p :: tl else ds ++ p :: tl) := by
  have hcw := countWhile_digits ds p tl hd hp
  cases ds with
  | nil => simp at h1
  | cons d t =>
    obtain ⟨_, _, _, f1, f2, f3, f4, f5, f6, f7, _, f9⟩ := digit_facts d (hd d List.mem_cons_self)
    have hdrop : ((d :: t) ++ p :: tl).drop (d :: t).length = p :: tl := by simp
    have hdrop1 : ((d :: t) ++ p :: tl).drop ((d :: t).length + 1) = tl := by
      rw [← List.drop_drop, hdrop]; rfl
    have htake : ((d :: t) ++ p :: tl).take (d :: t).length = d :: t := by simp
    have hsw : startsWith (d :: (t ++ p :: tl)) (bs "~~~") = false := by
      rw [bs_tildes]
      have : d ≠ 0x7E := by intro h; subst h; simp at f7
      simp [startsWith, List.isPrefixOf]
      intro h; exact absurd h.symm this
    have hge : decide (1 ≤ (d :: t).length) = true := by simp
    unfold escapeStartOfLine
    simp only [List.cons_append, escapeLeadingSpaceTab, f1, f2, Bool.false_eq_true, if_false, f3, f4, f5, f6,
      Bool.or_self]
    simp only [List.cons_append] at hcw hdrop hdrop1 htake
    simp only [hsw, Bool.false_eq_true, if_false, hcw, hdrop, hdrop1, htake, List.head?_cons, hge,
      Bool.true_and, Bool.and_true, Bool.or_true, thematicBreakLookalike, f3, f9, Bool.false_and,
      Bool.or_self]
    cases h9 : decide ((d :: t).length ≤ 9) <;> cases hpp : (p == 0x2E || p == 0x29) <;>
      cases htl : (startsWithSpaceOrTab tl || tl.isEmpty) <;> simp_all

theorem esol_digits_only (ds : Bytes) (hd : ∀ b ∈ ds, isDigitB b = true) (h1 : 1 ≤ ds.length) :
    escapeStartOfLine [] ds true true = .ok ds := by
  have hcw := countWhile_all_digits ds hd
  cases ds with
  | nil => simp at h1
  | cons d t =>
    obtain ⟨_, _, _, f1, f2, f3, f4, f5, f6, f7, _, f9⟩ := digit_facts d (hd d List.mem_cons_self)
    have hsw : startsWith (d :: t) (bs "~~~") = false := by
      rw [bs_tildes]
      have : d ≠ 0x7E := by intro h; subst h; simp at f7
      simp [startsWith, List.isPrefixOf]
      intro h; exact absurd h.symm this
    unfold escapeStartOfLine
    simp only [escapeLeadingSpaceTab, f1, f2, Bool.false_eq_true, if_false, f3, f4, f5, f6, Bool.or_self,
      hsw, hcw, List.drop_length, List.head?_nil, Bool.and_false, thematicBreakLookalike, f9, Bool.false_and]

theorem digit_alnum : ∀ b : UInt8, isDigitB b = true →
    isAlnumB b = true ∧ isEscSpB b = true ∧ isBslB b = false ∧ b ≠ NL := by
  apply forall_uint8
  decide +kernel

theorem digit_split : ∀ s : Bytes, ∃ ds u, s = ds ++ u ∧ (∀ b ∈ ds, isDigitB b = true) ∧
    (∀ x, u.head? = some x → isDigitB x = false) := by
  intro s
  induction s with
  | nil => exact ⟨[], [], rfl, by simp, by simp⟩
  | cons b t ih =>
    cases hb : isDigitB b with
    | false => exact ⟨[], b :: t, rfl, by simp, by intro x hx; simp at hx; subst hx; exact hb⟩
    | true =>
      obtain ⟨ds, u, h1, h2, h3⟩ := ih
      refine ⟨b :: ds, u, by rw [h1]; rfl, ?_, h3⟩
      intro x hx
      rcases List.mem_cons.mp hx with h | h
      · subst h; exact hb
      · exact h2 x h

theorem getLast?_append_cons {α} (a : List α) (y : α) (b : List α) :
    (a ++ y :: b).getLast? = (y :: b).getLast? := by
  rw [List.getLast?_append]
  cases h : (y :: b).getLast? with
  | none => simp at h
  | some v => rfl

/-- digits, backslash, punctuation, escaped text of the class reads as the text -/
theorem parseInlines_digits_bsl (U : UClass) (ds : Bytes) (p : UInt8) (u : Bytes)
    (hd : ∀ b ∈ ds, isDigitB b = true) (hp : isAsciiPunctB p = true)
    (h : ∀ b ∈ u, isEscSpB b = true) :
    parseInlines U (ds ++ 0x5C :: p :: escA u) = some [Inl.text (ds ++ p :: u)] := by
  obtain ⟨ts1, p1, h1, h2⟩ := scan_word U ds (fun b hb => (digit_alnum b (hd b hb)).1)
    { acc := [], prev := NL.toNat, skip := 0, bad := false } (0x5C :: p :: escA u) rfl
  obtain ⟨ts2, p2, h3, h4⟩ := scan_escA U u h 0
    { acc := pushText ((ts1.map mkT).reverse ++ []) [p], prev := p.toNat, skip := 0, bad := false } rfl
  simp only [List.replicate_zero, List.nil_append] at h3 h4
  unfold parseInlines
  rw [h1, scan_bsl U _ p _ rfl hp]
  simp only [h3, Bool.false_eq_true, if_false]
  have : ((ts2.map mkT).reverse ++ pushText ((ts1.map mkT).reverse ++ []) [p]).reverse =
      ((ts1 ++ [p] :: ts2).map mkT) := by
    simp [pushText, mkT]
  rw [this, resolveEmph_nodes]
  simp only []
  rw [mergeText_texts]
  simp [h2, h4]

theorem refInert_digits (ds rest : Bytes) (hd : ∀ b ∈ ds, isDigitB b = true) (h1 : 1 ≤ ds.length)
    (hlm : listMarker (ds ++ rest) = none) : RefInert (ds ++ rest) := by
  cases ds with
  | nil => simp at h1
  | cons d t => exact refInert_digit d (t ++ rest) (hd d List.mem_cons_self) hlm

/-- soundness for a text of the class whose first byte is a digit -/
theorem escape_sound_digit (G : GoU) (U : UClass) (s : Bytes) (b0 : UInt8)
    (hcls : ∀ b ∈ s, isEscSpB b = true) (hhead : s.head? = some b0) (hb0 : isDigitB b0 = true)
    (hlast : ∀ e, s.getLast? = some e → isEscB e = true) :
    ∃ out, fmtTextParagraph G s = .ok out ∧
      render U true out = some (bs "<p>" ++ escHtml s ++ bs "</p>\n") := by
  obtain ⟨ds, u, hs, hds, hu⟩ := digit_split s
  have h1 : 1 ≤ ds.length := by
    cases ds with
    | nil =>
      simp only [List.nil_append] at hs
      rw [hs] at hhead
      have := hu b0 hhead
      rw [hb0] at this; cases this
    | cons d t => simp
  have hne : s ≠ [] := by intro h; rw [h] at hhead; simp at hhead
  have hescds : escA ds = ds := escA_id ds (fun b hb => (digit_alnum b (hds b hb)).2.2.1)
  have hclsu : ∀ b ∈ u, isEscSpB b = true := fun b hb => hcls b (by rw [hs]; exact List.mem_append_right _ hb)
  obtain ⟨e, he⟩ : ∃ e, s.getLast? = some e := by
    cases hx : s.getLast? with
    | none => simp at hx; exact absurd hx hne
    | some e => exact ⟨e, rfl⟩
  have hee := hlast e he
  have hl2 := escA_last s e he hee
  have hef := esc1_last e hee
  have hnl0 : ∀ b ∈ escA s, b ≠ NL := escA_noNL s hcls
  have hlast0 : ∀ b, (escA s).getLast? = some b → (b == SP || b == 0x09) = false := by
    intro b hb
    rw [hl2] at hb
    injection hb with hb
    subst hb
    simp [hef.2.1, hef.2.2]
  have hfmt : ∀ v, escapeStartOfLine [] (escA s) true true = .ok v →
      fmtTextParagraph G s = .ok (v ++ [NL]) := by
    intro v hv
    unfold fmtTextParagraph
    rw [escapeText_class G _ hcls, escapeTrailingSpaceTab_id _ e hl2 ⟨hef.2.1, hef.2.2⟩]
    simp only [hv]
  have hpi := parseInlines_escA U s hcls
  simp only [hne, if_false] at hpi
  have hsame : ∀ (hsol : escapeStartOfLine [] (escA s) true true = .ok (escA s)) (hri : RefInert (escA s)),
      ∃ out, fmtTextParagraph G s = .ok out ∧
        render U true out = some (bs "<p>" ++ escHtml s ++ bs "</p>\n") :=
    fun hsol hri => ⟨_, hfmt _ hsol, render_refInert U (escA s) s hri hnl0 hlast0 hpi⟩
  cases u with
  | nil =>
    have hes : escA s = ds := by rw [hs, List.append_nil, hescds]
    apply hsame
    · rw [hes]; exact esol_digits_only ds hds h1
    · rw [hes]
      have := refInert_digits ds [] hds h1 (by rw [List.append_nil]; exact listMarker_digits_only ds hds h1)
      rwa [List.append_nil] at this
  | cons x u' =>
    have hx : isDigitB x = false := hu x rfl
    have hclsu' : ∀ b ∈ u', isEscSpB b = true := fun b hb => hclsu b (List.mem_cons_of_mem _ hb)
    cases hq : isBslB x with
    | true =>
      have hes : escA s = ds ++ 0x5C :: (x :: escA u') := by
        rw [hs, escA_append, hescds, escA_cons]; simp [esc1, hq]
      apply hsame
      · rw [hes, esol_digits ds (x :: escA u') 0x5C hds h1 (by decide)]
        simp
      · rw [hes]
        exact refInert_digits ds _ hds h1
          (listMarker_digits ds _ 0x5C hds h1 (by decide) (Or.inr (Or.inl (by decide))))
    | false =>
      have hes : escA s = ds ++ x :: escA u' := by
        rw [hs, escA_append, hescds, escA_cons]; simp [esc1, hq]
      have hsol := esol_digits ds (escA u') x hds h1 hx
      cases hc : (decide (ds.length ≤ 9) && (x == 0x2E || x == 0x29) &&
          (startsWithSpaceOrTab (escA u') || (escA u').isEmpty)) with
      | false =>
        rw [hc] at hsol
        simp only [Bool.false_eq_true, if_false] at hsol
        apply hsame
        · rw [hes]; exact hsol
        · rw [hes]
          apply refInert_digits ds _ hds h1
          apply listMarker_digits ds _ x hds h1 hx
          simp only [Bool.and_eq_false_iff, decide_eq_false_iff_not] at hc
          rcases hc with (hc | hc) | hc
          · left; omega
          · right; left; exact hc
          · right; right
            have := notSpTab_facts _ hc
            exact ⟨this.1, this.2.1⟩
      | true =>
        rw [hc] at hsol
        simp only [if_true] at hsol
        simp only [Bool.and_eq_true] at hc
        have hxp : isAsciiPunctB x = true := by
          have := hc.1.2
          simp only [Bool.or_eq_true, beq_iff_eq] at this
          rcases this with h | h <;> subst h <;> decide
        rw [← hes] at hsol
        have hmem : ∀ b ∈ ds ++ 0x5C :: x :: escA u', b = 0x5C ∨ b ∈ escA s := by
          intro b hb
          rw [hes]
          simp only [List.mem_append, List.mem_cons] at hb ⊢
          rcases hb with h | h | h | h
          · right; left; exact h
          · left; exact h
          · right; right; left; exact h
          · right; right; right; exact h
        refine ⟨_, hfmt _ (by rw [hes] at hsol ⊢; exact hsol), ?_⟩
        apply render_refInert U _ s
        · exact refInert_digits ds _ hds h1
            (listMarker_digits ds _ 0x5C hds h1 (by decide) (Or.inr (Or.inl (by decide))))
        · intro b hb
          rcases hmem b hb with h | h
          · subst h; decide
          · exact hnl0 b h
        · intro b hb
          apply hlast0 b
          rw [hes, getLast?_append_cons]
          have : ds ++ 0x5C :: x :: escA u' = (ds ++ [0x5C]) ++ x :: escA u' := by simp
          rw [this, getLast?_append_cons] at hb
          exact hb
        · rw [hs]; exact parseInlines_digits_bsl U ds x u' hds hxp hclsu'

end C36
