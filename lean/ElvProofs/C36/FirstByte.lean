/-
C36 helpers — escape soundness for texts whose first byte is a block-marker
lookalike (`- + > # ~`, digits): `escapeStartOfLine` against the reference's
block starts.
-/
import ElvProofs.C36.ReflowRead
namespace C36
open Go C35

/-- the reference finds no block start on the line -/
def RefInert (L : Bytes) : Prop :=
  isBlank L = false ∧ leadingSpaces L = 0 ∧ L.head? ≠ some 0x3E ∧ atxHeading L = none ∧
  fenceOpen L = none ∧ isThematicBreak L = false ∧ listMarker L = none

theorem parseBlocks_refInert (L : Bytes) (hi : RefInert L) (h : ∀ b ∈ L, b ≠ NL) :
    parseBlocks (L ++ [NL]) = some [Raw.para [L]] := by
  obtain ⟨h1, h2, h3, h4, h5, h6, h7⟩ := hi
  have hdl := docLines_line L h
  unfold parseBlocks
  simp only [hdl, List.foldl_cons, List.foldl_nil]
  have hhead : (L.head? == some 0x3E) = false := by
    cases hh : L.head? with
    | none => rfl
    | some x =>
      have : x ≠ 0x3E := by intro hx; subst hx; exact h3 hh
      simp [this]
  have hstep : stepLine { frames := [{ kind := .doc, kids := [] }], leaf := .none, fuelOut := false } L =
      { frames := [{ kind := .doc, kids := [] }], leaf := .para [L], fuelOut := false } := by
    unfold stepLine
    simp only [nonDocFrames, List.reverse_cons, List.reverse_nil, List.nil_append, List.drop_one,
      List.tail_cons, matchFrames, List.length_cons, List.length_nil]
    unfold openBlocks
    have htl : trimLeftSp L = L := by
      unfold trimLeftSp
      cases L with
      | nil => rfl
      | cons c r =>
        have : (c == SP) = false := by
          cases hc : (c == SP) with
          | false => rfl
          | true => simp [leadingSpaces, countWhile, hc] at h2
        simp [List.dropWhile_cons, this]
    simp [h1, h2, hhead, h4, h5, h6, h7, addText, prepareBlock, closeUnmatched, closeDown, closeLeaf, htl]
  rw [hstep]
  simp [closeUnmatched, closeDown, closeLeaf, pushKid]

theorem render_refInert (U : UClass) (L s : Bytes) (hi : RefInert L) (h : ∀ b ∈ L, b ≠ NL)
    (hlast : ∀ b, L.getLast? = some b → (b == SP || b == 0x09) = false)
    (hp : parseInlines U L = some [Inl.text s]) :
    render U true (L ++ [NL]) = some (bs "<p>" ++ escHtml s ++ bs "</p>\n") := by
  unfold render
  rw [parseBlocks_refInert L hi h]
  simp only []
  have hfuel : (L ++ [NL]).length + 2 = (L.length + 2) + 1 := by simp
  rw [hfuel]
  unfold renderRaws
  simp only [List.foldl_cons, List.foldl_nil, paraText, joinNL, trimRightSpTab_id L hlast, hp]
  have : inlHtml true (L.length + 2 + L.length) [Inl.text s] = escHtml s := by
    have : L.length + 2 + L.length = (L.length + 1 + L.length) + 1 := by omega
    rw [this]
    simp [inlHtml]
  rw [this]
  simp [cr]

theorem refInert_of_inert (c : UInt8) (r : Bytes) (hc : isInertStartB c = true) : RefInert (c :: r) := by
  obtain ⟨h1, h2, h3, h4, h5, h6, h7, h8, h9, h10, h11, h12⟩ := inert_facts c hc
  have h3' : c ≠ 0x3E := by intro hx; subst hx; simp at h3
  refine ⟨?_, ?_, ?_, ?_, ?_, ?_, ?_⟩ <;>
    simp [isBlank, leadingSpaces, countWhile, atxHeading, fenceOpen, isThematicBreak, listMarker,
      h1, h2, h3', h4, h5, h6, h7, h8, h9, h10, h12]

/-- backslash + punctuation + escaped text of the class reads as the text -/
theorem parseInlines_bsl_escA (U : UClass) (c : UInt8) (t : Bytes) (hc : isAsciiPunctB c = true)
    (h : ∀ b ∈ t, isEscSpB b = true) :
    parseInlines U (0x5C :: c :: escA t) = some [Inl.text (c :: t)] := by
  obtain ⟨ts, p, h1, h2⟩ := scan_escA U t h 0
    { acc := pushText [] [c], prev := c.toNat, skip := 0, bad := false } rfl
  simp only [List.replicate_zero, List.nil_append] at h1 h2
  unfold parseInlines
  rw [scan_bsl U _ c _ rfl hc]
  simp only [h1, Bool.false_eq_true, if_false]
  have : ((ts.map mkT).reverse ++ pushText [] [c]).reverse = (([c] :: ts).map mkT) := by
    simp [pushText, mkT]
  rw [this, resolveEmph_nodes]
  simp only []
  rw [mergeText_texts]
  simp [h2]

/-! ### `escapeStartOfLine` at the start of a paragraph, per first byte -/

/-- either a backslash is put in front, or the line is left alone and the
reference finds no block start on it -/
def SolOutcome (c : UInt8) (r : Bytes) : Prop :=
  escapeStartOfLine [] (c :: r) true true = .ok (0x5C :: c :: r) ∨
  (escapeStartOfLine [] (c :: r) true true = .ok (c :: r) ∧ RefInert (c :: r))

theorem sol_gt (r : Bytes) : SolOutcome 0x3E r := by
  left
  unfold escapeStartOfLine
  simp [escapeLeadingSpaceTab, SP]

theorem notSpTab_facts (r : Bytes) (h : (startsWithSpaceOrTab r || r.isEmpty) = false) :
    r.isEmpty = false ∧ (r.head? == some SP) = false ∧ startsWithSpaceOrTab r = false := by
  cases r with
  | nil => simp at h
  | cons x t =>
    simp [startsWithSpaceOrTab] at h ⊢
    exact h

theorem sol_plus (r : Bytes) : SolOutcome 0x2B r := by
  cases hc : (startsWithSpaceOrTab r || r.isEmpty) with
  | true =>
    left
    unfold escapeStartOfLine
    simp only [Bool.or_eq_true] at hc
    rcases hc with hc | hc <;> simp [escapeLeadingSpaceTab, SP, hc]
  | false =>
    right
    obtain ⟨h1, h2, h3⟩ := notSpTab_facts r hc
    constructor
    · unfold escapeStartOfLine
      simp [escapeLeadingSpaceTab, SP, h1, h3, startsWith, bs_tildes, List.isPrefixOf, countWhile, isDigitB,
        thematicBreakLookalike]
    · refine ⟨?_, ?_, ?_, ?_, ?_, ?_, ?_⟩ <;>
        simp [isBlank, leadingSpaces, countWhile, atxHeading, fenceOpen, isThematicBreak, listMarker, SP, h1] <;>
        simpa [SP] using h2

theorem sol_dash (r : Bytes) : SolOutcome 0x2D r := by
  cases hc : (startsWithSpaceOrTab r || r.isEmpty) with
  | true =>
    left
    unfold escapeStartOfLine
    simp only [Bool.or_eq_true] at hc
    rcases hc with hc | hc <;> simp [escapeLeadingSpaceTab, SP, hc]
  | false =>
    obtain ⟨h1, h2, h3⟩ := notSpTab_facts r hc
    cases hT : isThematicBreak (0x2D :: r) with
    | true =>
      left
      unfold escapeStartOfLine
      simp [isThematicBreak, leadingSpaces, countWhile, SP] at hT
      simp [escapeLeadingSpaceTab, SP, h1, h3, startsWith, bs_tildes, List.isPrefixOf, countWhile, isDigitB,
        thematicBreakLookalike, thematicBreakRe, trailingDashes, leadingSpaces, hT.2]
      rw [if_pos hT.1, if_pos hT.1]
    | false =>
      right
      constructor
      · unfold escapeStartOfLine
        simp [isThematicBreak, leadingSpaces, countWhile, SP] at hT
        simp [escapeLeadingSpaceTab, SP, h1, h3, startsWith, bs_tildes, List.isPrefixOf, countWhile, isDigitB,
          thematicBreakLookalike, thematicBreakRe, trailingDashes, leadingSpaces]
        intro ha
        exact hT ha
      · refine ⟨?_, ?_, ?_, ?_, ?_, hT, ?_⟩ <;>
          simp [isBlank, leadingSpaces, countWhile, atxHeading, fenceOpen, listMarker, SP, h1] <;>
          simpa [SP] using h2

theorem sol_tilde (r : Bytes) : SolOutcome 0x7E r := by
  have right_of (hsw : startsWith (0x7E :: r) [0x7E, 0x7E, 0x7E] = false)
      (hcw : (countWhile (· == 0x7E) r + 1 < 3) = True) : SolOutcome 0x7E r := by
    right
    constructor
    · unfold escapeStartOfLine
      simp [escapeLeadingSpaceTab, SP, bs_tildes, hsw, countWhile, isDigitB, thematicBreakLookalike]
    · refine ⟨?_, ?_, ?_, ?_, ?_, ?_, ?_⟩ <;>
        simp [isBlank, leadingSpaces, countWhile, atxHeading, fenceOpen, isThematicBreak, listMarker, SP,
          isDigitB, hcw]
  cases r with
  | nil => exact right_of (by simp [startsWith, List.isPrefixOf]) (by simp [countWhile])
  | cons x r1 =>
    by_cases hx : x = 0x7E
    · subst hx
      cases r1 with
      | nil => exact right_of (by simp [startsWith, List.isPrefixOf]) (by simp [countWhile])
      | cons y r2 =>
        by_cases hy : y = 0x7E
        · subst hy
          left
          unfold escapeStartOfLine
          simp [escapeLeadingSpaceTab, SP, bs_tildes, startsWith, List.isPrefixOf]
        · have hy' : ¬ (0x7E : UInt8) = y := fun h => hy h.symm
          exact right_of (by simp [startsWith, List.isPrefixOf, hy']) (by simp [countWhile, hy])
    · have hx' : ¬ (0x7E : UInt8) = x := fun h => hx h.symm
      exact right_of (by simp [startsWith, List.isPrefixOf, hx']) (by simp [countWhile, hx])

theorem countWhile_drop (p : UInt8 → Bool) : ∀ (r : Bytes) (j : Nat), j < countWhile p r →
    ∃ x rest, r.drop j = x :: rest ∧ p x = true := by
  intro r
  induction r with
  | nil => intro j h; simp [countWhile] at h
  | cons a t ih =>
    intro j h
    cases hp : p a with
    | false => simp [countWhile, hp] at h
    | true =>
      cases j with
      | zero => exact ⟨a, t, rfl, hp⟩
      | succ j =>
        simp only [countWhile, hp, if_true] at h
        exact ih j (by omega)

theorem sol_hash (r : Bytes) : SolOutcome 0x23 r := by
  generalize hn0 : countWhile (· == 0x23) r = n
  have hcw : countWhile (· == 0x23) (0x23 :: r) = n + 1 := by simp [countWhile, hn0]
  have hdig : countWhile isDigitB (0x23 :: r) = 0 := by simp [countWhile, isDigitB]
  have hsw : startsWith (0x23 :: r) (bs "~~~") = false := by
    rw [bs_tildes]; simp [startsWith, List.isPrefixOf]
  have hls : leadingSpaces (0x23 :: r) = 0 := by simp [leadingSpaces, countWhile, SP]
  have hrest : RefInert (0x23 :: r) ↔ atxHeading (0x23 :: r) = none := by
    constructor
    · intro h; exact h.2.2.2.1
    · intro h
      refine ⟨?_, hls, ?_, h, ?_, ?_, ?_⟩ <;>
        simp [isBlank, leadingSpaces, countWhile, fenceOpen, isThematicBreak, listMarker, SP, isDigitB]
  by_cases hn : n + 1 ≤ 6
  · have hk : min (n + 1) 6 = n + 1 := by omega
    cases hA : (startsWithSpaceOrTab (r.drop n) || (r.drop n).isEmpty) with
    | true =>
      left
      unfold escapeStartOfLine
      simp only [escapeLeadingSpaceTab]
      simp [SP, hcw, hk, hA]
    | false =>
      right
      have hA' := hA
      simp only [Bool.or_eq_false_iff] at hA'
      constructor
      · unfold escapeStartOfLine
        simp only [escapeLeadingSpaceTab]
        simp [SP, hcw, hk, hA'.1, hA'.2, hsw, hdig, thematicBreakLookalike]
      · rw [hrest]
        unfold atxHeading
        have hk1 : ¬ (n + 1 < 1 ∨ n + 1 > 6) := by omega
        simp only [hls, List.drop_zero, hcw, List.drop_succ_cons]
        cases hd : r.drop n with
        | nil => rw [hd] at hA'; simp at hA'
        | cons c rest =>
          rw [hd] at hA'
          simp [startsWithSpaceOrTab] at hA'
          simp [hA'.1, hA'.2]
  · have hk : min (n + 1) 6 = 6 := by omega
    obtain ⟨x, rest, hd, hx⟩ := countWhile_drop (· == 0x23) r 5 (by omega)
    have hx' : x = 0x23 := by simpa using hx
    subst hx'
    right
    constructor
    · unfold escapeStartOfLine
      simp only [escapeLeadingSpaceTab]
      simp [SP, hcw, hk, hd, startsWithSpaceOrTab, hsw, hdig, thematicBreakLookalike]
    · rw [hrest]
      unfold atxHeading
      simp only [hls, List.drop_zero, hcw]
      simp
      intro h; omega

/-- soundness for a text whose first byte is a marker lookalike for which
`SolOutcome` holds -/
theorem escape_sound_marker (G : GoU) (U : UClass) (b0 : UInt8) (t : Bytes)
    (hb0 : isEscB b0 = true) (hq : isBslB b0 = false) (hpun : isAsciiPunctB b0 = true)
    (hsol : ∀ r, SolOutcome b0 r)
    (hcls : ∀ b ∈ t, isEscSpB b = true)
    (hlast : ∀ e, (b0 :: t).getLast? = some e → isEscB e = true) :
    ∃ out, fmtTextParagraph G (b0 :: t) = .ok out ∧
      render U true out = some (bs "<p>" ++ escHtml (b0 :: t) ++ bs "</p>\n") := by
  have hcls' : ∀ b ∈ b0 :: t, isEscSpB b = true := by
    intro b hb
    rcases List.mem_cons.mp hb with h | h
    · subst h; simp [isEscSpB, hb0]
    · exact hcls b h
  have hL : escA (b0 :: t) = b0 :: escA t := by rw [escA_cons]; simp [esc1, hq]
  obtain ⟨e, he⟩ : ∃ e, (b0 :: t).getLast? = some e := by
    cases hx : (b0 :: t).getLast? with
    | none => simp at hx
    | some e => exact ⟨e, rfl⟩
  have hee := hlast e he
  have hl2 := escA_last (b0 :: t) e he hee
  have hef := esc1_last e hee
  have hnl : ∀ b ∈ b0 :: escA t, b ≠ NL := by rw [← hL]; exact escA_noNL _ hcls'
  have hlastL : ∀ b, (b0 :: escA t).getLast? = some b → (b == SP || b == 0x09) = false := by
    intro b hb
    rw [← hL, hl2] at hb
    injection hb with hb
    subst hb
    simp [hef.2.1, hef.2.2]
  have hfmt : ∀ u, escapeStartOfLine [] (b0 :: escA t) true true = .ok u →
      fmtTextParagraph G (b0 :: t) = .ok (u ++ [NL]) := by
    intro u hu
    unfold fmtTextParagraph
    rw [escapeText_class G _ hcls', escapeTrailingSpaceTab_id _ e hl2 ⟨hef.2.1, hef.2.2⟩, hL]
    simp only [hu]
  rcases hsol (escA t) with h1 | ⟨h1, h2⟩
  · refine ⟨0x5C :: b0 :: escA t ++ [NL], hfmt _ h1, ?_⟩
    apply render_inert_line U 0x5C (b0 :: escA t) (b0 :: t) (by decide)
    · intro b hb
      rcases List.mem_cons.mp hb with h | h
      · subst h; decide
      · exact hnl b h
    · intro b hb
      rw [List.getLast?_cons_cons] at hb
      exact hlastL b hb
    · exact parseInlines_bsl_escA U b0 t hpun hcls
  · refine ⟨b0 :: escA t ++ [NL], hfmt _ h1, ?_⟩
    apply render_refInert U (b0 :: escA t) (b0 :: t) h2 hnl hlastL
    have := parseInlines_escA U (b0 :: t) hcls'
    simp only [reduceCtorEq, if_false] at this
    rw [hL] at this
    exact this

theorem marker_first_facts : ∀ b : UInt8, isEscB b = true → isDigitB b = false → isGoodFirstB b = false →
    b = 0x2D ∨ b = 0x2B ∨ b = 0x3E ∨ b = 0x23 ∨ b = 0x7E := by
  apply forall_uint8
  decide +kernel

theorem escape_sound_five (G : GoU) (U : UClass) (b0 : UInt8) (t : Bytes)
    (hb0 : b0 = 0x2D ∨ b0 = 0x2B ∨ b0 = 0x3E ∨ b0 = 0x23 ∨ b0 = 0x7E)
    (hcls : ∀ b ∈ t, isEscSpB b = true)
    (hlast : ∀ e, (b0 :: t).getLast? = some e → isEscB e = true) :
    ∃ out, fmtTextParagraph G (b0 :: t) = .ok out ∧
      render U true out = some (bs "<p>" ++ escHtml (b0 :: t) ++ bs "</p>\n") := by
  rcases hb0 with h | h | h | h | h <;> subst h
  · exact escape_sound_marker G U _ t (by decide) (by decide) (by decide) sol_dash hcls hlast
  · exact escape_sound_marker G U _ t (by decide) (by decide) (by decide) sol_plus hcls hlast
  · exact escape_sound_marker G U _ t (by decide) (by decide) (by decide) sol_gt hcls hlast
  · exact escape_sound_marker G U _ t (by decide) (by decide) (by decide) sol_hash hcls hlast
  · exact escape_sound_marker G U _ t (by decide) (by decide) (by decide) sol_tilde hcls hlast

end C36
