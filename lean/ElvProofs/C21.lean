/-
C21 — tmp, with and defer restore and clean up on every exit path.

Property theorems over the model of ElvModel/C21/Model.lean.  They hold for
EVERY function body (`body`, any exit: ok / exception / break / continue /
return), every deferred callback (`runCb`, may do anything to the store and
fail arbitrarily) and every failure schedule of Set/Unset (`c.fails`).

`runSeq` (ElvProofs/C21/Seq.lean) is the specification-level clean-up: run a
list of items left to right, each once, keep the first exception.
-/
import ElvModel.C21.Model
import ElvModel.C21.Show
import ElvProofs.C21.Seq
import ElvProofs.C21.Store
import ElvProofs.C21.Assign
import ElvProofs.C21.Accept1
import ElvProofs.C21.Accept2
import ElvProofs.C21.Fuel
import ElvModel.C21.Spec
import ElvModel.C21.Driver
open C21

/-! ### The Go loops: every collected function exactly once, last first -/

/-- `Frame.runDefers` (`for i := len-1; i >= 0; i--`) is: the deferred items in
reverse registration order, each run once, first exception kept — and the
index expression `defers[i]` never panics. -/
theorem C21_runDefers_reverse_order {β : Type} (c : Cfg) (runCb : β → St → R)
    (fs : List (Item β)) (s : St) :
    runDefers c runCb fs s = runSeq c runCb fs.reverse s none := by
  unfold runDefers
  rw [deferLoop_fst c runCb fs fs.length s none (Nat.le_refl _), List.take_length]

/-- Counting form on the ghost trace of calls `fs[i](fm)`: the indices called
are n-1, …, 0 in this order; every registered function is called exactly once
and nothing else is called.  Same loop for `runDefers` (exc = nil) and for the
deferred function of `withOp.exec` (exc = the body's exception). -/
theorem C21_deferred_each_exactly_once {β : Type} (c : Cfg) (runCb : β → St → R)
    (fs : List (Item β)) (s : St) (exc : Outcome) :
    (deferLoop c runCb fs fs.length s exc).2 = (List.range fs.length).reverse ∧
    ∀ i, ((deferLoop c runCb fs fs.length s exc).2).count i = if i < fs.length then 1 else 0 := by
  have h := deferLoop_trace c runCb fs fs.length s exc (Nat.le_refl _)
  refine ⟨h, fun i => ?_⟩
  rw [h, List.count_reverse, count_range]

/-! ### Closure.Call: defer and tmp share the function's defer list -/

/-- All clean-up (tmp restores and deferred callbacks, interleaved as they
were registered, last first) happens after everything the body did, from the
state the body left, whatever the body's exit was. -/
theorem C21_call_cleanup_when_function_finishes {β : Type} (c : Cfg) (runCb : β → St → R)
    (isFn : Bool) (body : St → BodyR β) (s : St) :
    (closureCall c runCb isFn body s).ev =
        (body s).ev ++ (runSeq c runCb (body s).items.reverse (body s).st none).ev ∧
    (closureCall c runCb isFn body s).st =
        (runSeq c runCb (body s).items.reverse (body s).st none).st := by
  rw [closureCall_eq]; exact ⟨rfl, rfl⟩

/-- Which exception a function call reports: the body's if the body failed
(after `fn` has absorbed `return`), otherwise the first failing restore or
callback in execution order, otherwise none. -/
theorem C21_call_outcome {β : Type} (c : Cfg) (runCb : β → St → R)
    (isFn : Bool) (body : St → BodyR β) (s : St) :
    (closureCall c runCb isFn body s).out =
      match fnWrap isFn (body s).out with
      | some e => some e
      | none => firstExc (seqOuts c runCb (body s).items.reverse (body s).st) := by
  rw [closureCall_eq]
  simp only [runSeq_out, keepFirst_none]
  cases fnWrap isFn (body s).out <;> rfl

/-- An exception from a restore or a deferred callback is reported only if the
body itself succeeded: if the call reports `e`, either the body threw `e`, or
the body succeeded and `e` is the first clean-up failure. -/
theorem C21_cleanup_exception_only_if_body_succeeded {β : Type} (c : Cfg) (runCb : β → St → R)
    (isFn : Bool) (body : St → BodyR β) (s : St) (e : Cause)
    (h : (closureCall c runCb isFn body s).out = some e) :
    fnWrap isFn (body s).out = some e ∨
    (fnWrap isFn (body s).out = none ∧
      firstExc (seqOuts c runCb (body s).items.reverse (body s).st) = some e) := by
  rw [C21_call_outcome] at h
  cases hb : fnWrap isFn (body s).out with
  | some e' => rw [hb] at h; exact Or.inl h
  | none => rw [hb] at h; exact Or.inr ⟨rfl, h⟩

/-- …and conversely a failing body always wins, whatever the clean-up does. -/
theorem C21_body_exception_wins {β : Type} (c : Cfg) (runCb : β → St → R)
    (isFn : Bool) (body : St → BodyR β) (s : St) (e : Cause)
    (h : fnWrap isFn (body s).out = some e) :
    (closureCall c runCb isFn body s).out = some e := by
  rw [C21_call_outcome, h]

/-- `tmp`: what the assignment hands to the defer list for x saved x's
content from immediately before the assignment (value, or "unset"). -/
theorem C21_tmp_saves_previous_value {β : Type} (c : Cfg) (g : Group)
    (s : St) (x : VarId) (it : Item β)
    (h : firstFor x (doAssign c true g s : AR β).items = some it) :
    it.head = some x ∧ it.target = s.store x := by
  have := doAssign_first c x g s it h
  subst this
  exact ⟨save_head s x, save_target s x⟩

/-- `tmp`: when the function finishes — however its body exited — the restore
`it` of x runs; if it succeeds and nothing registered before it touches x
(other variables' restores never do; callbacks are arbitrary, hence the
hypothesis), x holds the saved content again. -/
theorem C21_tmp_restores_value {β : Type} (c : Cfg) (runCb : β → St → R)
    (isFn : Bool) (body : St → BodyR β) (s : St) (x : VarId)
    (pre post : List (Item β)) (it : Item β)
    (hitems : (body s).items = pre ++ it :: post) (hx : it.head = some x)
    (hpre : ∀ j ∈ pre, Leaves c runCb x j)
    (hok : (runItem c runCb it (runSeq c runCb post.reverse (body s).st none).st).out = none) :
    (closureCall c runCb isFn body s).st.store x = it.target := by
  rw [(C21_call_cleanup_when_function_finishes c runCb isFn body s).2, hitems]
  exact runSeq_reverse_restores c runCb x pre post it _ _ hx hpre hok

/-! ### withOp.exec -/

/-- The log of `with`: assignments, then the body (skipped if an assignment
failed), then the restores; the Set/Unset calls of the restore phase are, in
order, exactly the reverse of the successful Sets of the assignment phase —
each assignment undone exactly once, last first, on every exit path — and the
restore phase does nothing else. -/
theorem C21_with_restore_order (c : Cfg) (groups : List Group)
    (body : St → R) (s : St) :
    let a : AR Empty := assignGroups c groups s
    let m := withMid c groups body s
    let restores := (runSeq c noCb a.items.reverse m.st m.out).ev
    (withExec c groups body s).ev = a.ev ++ m.ev ++ restores ∧
    restores.filterMap Event.varOf = ((a.ev.filter Event.isOkSet).filterMap Event.varOf).reverse ∧
    restores.length = (restores.filterMap Event.varOf).length := by
  intro a m restores
  refine ⟨by rw [withExec_eq], ?_, ?_⟩
  · show (runSeq c noCb a.items.reverse m.st m.out).ev.filterMap Event.varOf = _
    rw [runSeq_ev_heads, assignGroups_ev_heads, List.filterMap_reverse]
  · exact (runSeq_ev_len c _ _ _).symm

/-- After `with` — body finished normally, threw, or left by break / continue
/ return, or an assignment failed half-way — a variable it assigned (as a
whole or through an element: the item is on the head variable) holds its
pre-`with` content again, provided the restore that runs last for it (the one
registered first) succeeds. -/
theorem C21_with_restores_value_if_restore_ok (c : Cfg) (groups : List Group)
    (body : St → R) (s : St) (x : VarId) (pre post : List (Item Empty)) (it : Item Empty)
    (hitems : (assignGroups c groups s : AR Empty).items = pre ++ it :: post)
    (hx : it.head = some x) (hpre : ∀ j ∈ pre, j.head ≠ some x)
    (hok : (runItem c noCb it (runSeq c noCb post.reverse (withMid c groups body s).st
              (withMid c groups body s).out).st).out = none) :
    (withExec c groups body s).st.store x = s.store x := by
  have hfirst : firstFor x (assignGroups c groups s : AR Empty).items = some it := by
    unfold firstFor
    rw [List.find?_eq_some_iff_append]
    refine ⟨by simp [hx], pre, post, hitems, fun j hj => ?_⟩
    have := hpre j hj
    simp [this]
  have hsave := assignGroups_first c x groups s it hfirst
  have hleaves : ∀ j ∈ pre, Leaves c noCb x j := by
    intro j hj
    have hmem : j ∈ (assignGroups c groups s : AR Empty).items := by rw [hitems]; simp [hj]
    obtain ⟨y, hy⟩ := assignGroups_heads c groups s j hmem
    exact leaves_of_head_ne c noCb x y j hy (fun h => hpre j hj (by rw [hy, h]))
  rw [withExec_eq]
  simp only [hitems]
  rw [runSeq_reverse_restores c noCb x pre post it _ _ hx hleaves hok, hsave, save_target]

/-- Same, for a variable whose Set/Unset never fails (failures of OTHER
variables' restores, of the body, of anything else, are arbitrary). -/
theorem C21_with_restores_value (c : Cfg) (groups : List Group)
    (body : St → R) (s : St) (x : VarId)
    (hx : ∃ it ∈ (assignGroups c groups s : AR Empty).items, it.head = some x)
    (hnf : NeverFails c x) :
    (withExec c groups body s).st.store x = s.store x := by
  obtain ⟨it0, hit0, hh⟩ := hx
  have hsome : (firstFor x (assignGroups c groups s : AR Empty).items).isSome = true := by
    unfold firstFor
    rw [List.find?_isSome]
    exact ⟨it0, hit0, by simp [hh]⟩
  obtain ⟨it, hit⟩ := Option.isSome_iff_exists.mp hsome
  unfold firstFor at hit
  obtain ⟨hp, pre, post, hdecomp, hprefix⟩ := List.find?_eq_some_iff_append.mp hit
  have hhead : it.head = some x := by simpa using hp
  apply C21_with_restores_value_if_restore_ok c groups body s x pre post it hdecomp hhead
  · intro j hj; simpa using hprefix j hj
  · exact runItem_neverFails c noCb it x _ hhead hnf

/-- What `with` reports: the failing assignment's exception; else the body's
if it failed; else the first failing restore in execution order; else none. -/
theorem C21_with_outcome (c : Cfg) (groups : List Group) (body : St → R) (s : St) :
    let a : AR Empty := assignGroups c groups s
    let m := withMid c groups body s
    (withExec c groups body s).out =
        keepFirst m.out (firstExc (seqOuts c noCb a.items.reverse m.st)) ∧
    (∀ e, a.out = some e → m.out = some e) ∧
    (a.out = none → m = body a.st) := by
  intro a m
  refine ⟨by rw [withExec_eq]; exact runSeq_out c noCb _ _ _, ?_, ?_⟩
  · intro e he
    show (withMid c groups body s).out = some e
    unfold withMid; simp only []; rw [show (assignGroups c groups s : AR Empty).out = some e from he]
  · intro he
    show withMid c groups body s = body _
    unfold withMid; simp only []; rw [show (assignGroups c groups s : AR Empty).out = none from he]

/-! ### The interpreter the driver runs is built from these combinators -/

/-- Calling a generated lambda IS `closureCall` (so every theorem above applies
to every frame of every generated program, with the interpreter's own
recursive calls as body and callbacks). -/
theorem C21_interp_call (c : Cfg) (f : Nat) (b : Block) (isFn : Bool) (s : St) :
    callBlock c (f + 1) b isFn s =
      closureCall c (fun cb s => callBlock c f cb false s) isFn (blockBody c (callBlock c f) b) s := rfl

theorem C21_interp_call_outcome (c : Cfg) (f : Nat) (b : Block) (isFn : Bool) (s : St) (e : Cause)
    (h : (callBlock c (f + 1) b isFn s).out = some e) :
    let body := blockBody c (callBlock c f) b s
    fnWrap isFn body.out = some e ∨
    (fnWrap isFn body.out = none ∧
      firstExc (seqOuts c (fun cb s => callBlock c f cb false s) body.items.reverse body.st) = some e) :=
  C21_cleanup_exception_only_if_body_succeeded c _ isFn _ s e h

/-! ### Non-vacuity and the witnesses of harness/corpus/C21.txt on the model

Logs are compared as text (`Event.toS`: values rendered to bytes — 48 is `0`). -/

namespace C21.Ex
/-- variable 0 is logged and its 2nd Set fails; everything else ordinary -/
def cfg : Cfg := { kind := fun x => if x = 0 then .logged else .ord, fails := fun x i => x == 0 && i == 1 }
def st0 : St := { store := fun _ => some (numV 0), cnt := fun _ => 0, next := 0, oof := false }
def failing (n : Nat) : St → R := fun s => ⟨s, [], some (.fail n)⟩
/-- `x = n` -/
def asg1 (x n : Nat) : Group := ⟨[.var x], none, [numV n]⟩
def txt (r : R) : List SEv := r.ev.map Event.toS
end C21.Ex
open C21.Ex

/-- `{ defer { fail 7 }; defer { } }` reports fail 7 (lost before fixes/C21-defer-ok-exception.patch). -/
example : (callBlock cfg 3 ⟨0, [.deferS 1 [.fail 2 7], .deferS 3 []]⟩ true st0).out = some (.fail 7) := by decide

/-- `with x0 = 5 { fail 3 }`, restore of x0 fails: the body's exception is reported, the restore was attempted. -/
example : (withExec cfg [asg1 0 5] (failing 3) st0).out = some (.fail 3) ∧
    txt (withExec cfg [asg1 0 5] (failing 3) st0) = [.set 0 [53] true, .set 0 [48] false] := by decide

/-- `with x0 = 5 { }`, restore fails, body ok: the restore failure is reported. -/
example : (withExec cfg [asg1 0 5] (fun s => ⟨s, [], none⟩) st0).out = some (.restoreFail 0) := by decide

/-- `with [x1 = 5] [x0 = 6] [x0 = 7] { break }`: the second Set on x0 fails:
x1 is restored although a later assignment failed and the body never ran. -/
example : showSlot ((withExec cfg [asg1 1 5, asg1 0 6, asg1 0 7]
      (fun s => ⟨s, [], some .brk⟩) st0).st.store 1) = [48] := by decide

/-- hypotheses of C21_with_restores_value are satisfiable: x1 is assigned and never fails -/
example : (∃ it ∈ (assignGroups cfg [asg1 1 5] st0 : AR Empty).items, it.head = some 1) ∧
    NeverFails cfg 1 := by
  refine ⟨⟨.restore 1 (numV 0), by simp [assignGroups, doAssign, derefAll, deref, restValues, assignLoop, save, refSet, varSet, cfg, st0, asg1, Kind.isLogged, LV.head], rfl⟩, ?_⟩
  intro i; simp [cfg]

/-- tmp + defer share the list: `fn f { tmp x0 = 5; defer { }; return }` — return is absorbed by fn,
the callback runs first, then the failing restore is reported. -/
example : (callBlock cfg 3 ⟨0, [.asg 1 true (asg1 0 5), .deferS 2 [.mark 3], .ret 4]⟩ true st0).out
      = some (.restoreFail 0) ∧
    txt (callBlock cfg 3 ⟨0, [.asg 1 true (asg1 0 5), .deferS 2 [.mark 3], .ret 4]⟩ true st0)
      = [.enter 0 0, .at 0 1, .set 0 [53] true, .at 0 2, .at 0 4, .enter 1 2, .at 1 3,
         .set 0 [48] false] := by decide

/-! ### What the interpreter's statements register (program order = registration order) -/

/-- `defer { b }` registers exactly its callback and does nothing else; `tmp`
registers exactly what `doAssign` collected; a statement sequence registers
the concatenation, in program order, up to the statement that threw. -/
theorem C21_interp_registers (c : Cfg) (call : Block → Bool → St → R) (g k : Nat)
    (body : List Stmt) (grp : Group) (st : Stmt) (rest : List Stmt) (s : St) :
    (execStmt c call g (.deferS k body) s).items = [.cb ⟨k, body⟩] ∧
    (execStmt c call g (.deferS k body) s).st = s ∧
    (execStmt c call g (.asg k true grp) s).items = (doAssign c true grp s : AR Block).items ∧
    (execStmts c call g (st :: rest) s).items =
      match (execStmt c call g st s).out with
      | some _ => (execStmt c call g st s).items
      | none => (execStmt c call g st s).items ++
                (execStmts c call g rest (execStmt c call g st s).st).items := by
  refine ⟨rfl, rfl, rfl, ?_⟩
  simp only [execStmts]
  split <;> simp_all

/-- A body that is a row of `defer`s: the callbacks run last-registered first
(the log shows the frames of blocks kₙ, …, k₁ being entered in this order). -/
example : txt (callBlock cfg 3 ⟨0, [.deferS 1 [], .deferS 2 [], .deferS 3 []]⟩ false st0) =
    [.enter 0 0, .at 0 1, .at 0 2, .at 0 3, .enter 1 3, .enter 2 2, .enter 3 1] := by decide

/-- `fn f { tmp x1[0] x1[1] = 5 6; peek x1 }` on `[1 2 3]` (element assignment on the variable's
CURRENT value, 798ebe2): inside the function x1 is `[5 6 3]`; afterwards both restores (each of the
whole head variable, last first) have put `[1 2 3]` back.  (`[5;6;3]` = 91 53 59 54 59 51 93.) -/
example :
    let st1 : St := { st0 with store := fun _ => some (numsV [1, 2, 3]) }
    let r := callBlock cfg 3 ⟨0, [.asg 1 true ⟨[.elem 1 (numK 0) [], .elem 1 (numK 1) []], none, [numV 5, numV 6]⟩,
                                  .peek 2 1]⟩ true st1
    txt r = [.enter 0 0, .at 0 1, .at 0 2, .val 1 [91, 53, 59, 54, 59, 51, 93]] ∧
    showSlot (r.st.store 1) = [91, 49, 59, 50, 59, 51, 93] ∧ r.out = none := by decide

/-! ### Whole programs: the interpreter's log is accepted by the specification acceptor

`C21.accepts` / `C21.sCall` (ElvModel/C21/Spec.lean) is the Lean port of the
oracle the harness runs on REAL logs (harness/c21/oracle.go; the two are run
against each other on real and damaged logs by the `acc` ops).  It is written
from the property: each restore / deferred callback exactly once, last first,
interleaved as registered, one restore per assigned lvalue, nothing else
logged, body's exception first, final store and reported exception as claimed. -/

/-- Every call the interpreter makes — any frame of any program, any failure
schedule — produces a log the acceptor consumes exactly, predicting the
reported exception and the store the call leaves. -/
theorem C21_call_accepted (c : Cfg) (fuel k : Nat) (body : List Stmt) (isFn : Bool)
    (hfuel : depthL body < fuel) (s : St) (rest : List SEv) :
    sCall c.kind fuel k body isFn
        ⟨(callBlock c fuel ⟨k, body⟩ isFn s).ev.map Event.toS ++ rest, s.store, s.next⟩ =
      some ((callBlock c fuel ⟨k, body⟩ isFn s).out,
            ⟨rest, (callBlock c fuel ⟨k, body⟩ isFn s).st.store, (callBlock c fuel ⟨k, body⟩ isFn s).st.next⟩) :=
  callBlock_sim c fuel k body isFn hfuel s rest

/-- THE whole-program theorem: for every program of the modelled language,
every kind assignment and every Set/Unset failure schedule, the run of the
interpreter (log, reported exception, final store) is accepted. -/
theorem C21_log_accepted (c : Cfg) (prog : List Stmt) (s : St) (fuel nvars : Nat)
    (hnext : s.next = 0) (hfuel : depthL prog < fuel) :
    accepts c.kind fuel prog s.store nvars (callBlock c fuel ⟨0, prog⟩ true s).out
      ((List.range nvars).map fun x => showSlot ((callBlock c fuel ⟨0, prog⟩ true s).st.store x))
      ((callBlock c fuel ⟨0, prog⟩ true s).ev.map Event.toS) = true := by
  have h := C21_call_accepted c fuel 0 prog true hfuel s []
  rw [List.append_nil, hnext] at h
  unfold accepts
  rw [h]
  simp

/-- Fuel sufficiency: with fuel above the static nesting depth of lambdas the
interpreter never runs out of fuel (the sticky flag the driver prints as
`FUEL` stays clear) … -/
theorem C21_fuel_sufficient (c : Cfg) (fuel k : Nat) (body : List Stmt) (isFn : Bool) (s : St)
    (hfuel : depthL body < fuel) (hs : s.oof = false) :
    (callBlock c fuel ⟨k, body⟩ isFn s).st.oof = false := by
  rw [callBlock_oof c fuel k body isFn hfuel s, hs]

/-- … and the driver runs every program with exactly such fuel
(`runModel` = `callBlock … (depthL body + 1)` from a state with `oof = false`):
`FUEL` is unreachable for every op line. -/
theorem C21_driver_fuel_sufficient (ds : List Decl) (body : List Stmt) :
    (runModel ds body).st.oof = false :=
  C21_fuel_sufficient _ _ 0 body true _ (Nat.lt_succ_self _) rfl

/-- …so the driver's run of every program is accepted. -/
theorem C21_driver_log_accepted (ds : List Decl) (body : List Stmt) :
    accepts (mkCfg ds).kind (depthL body + 1) body (mkSt ds).store ds.length (runModel ds body).out
      ((List.range ds.length).map fun x => showSlot ((runModel ds body).st.store x))
      ((runModel ds body).ev.map Event.toS) = true :=
  C21_log_accepted (mkCfg ds) body (mkSt ds) _ ds.length rfl (Nat.lt_succ_self _)

/-! ### One restore per lvalue -/

/-- An assignment that succeeds hands its collector exactly ONE restore per
lvalue, in lvalue order, each on the lvalue's head variable (also for
`a b = 1 2`, `a @b = 1 2 3`, `a[0] a[1] = x y`: two restores of `a`). -/
theorem C21_one_restore_per_lvalue {β : Type} (c : Cfg) (g : Group) (s : St) (hwf : g.WF)
    (h : (doAssign c true g s : AR β).out = none) :
    (doAssign c true g s : AR β).items.map Item.head = g.lvs.map fun l => some l.head :=
  doAssign_items_heads c g s hwf h

/-- `with` whose assignments all succeed: the Set/Unset calls of its restore
phase are, in order, the head variables of ALL lvalues of all its assignments,
reversed (those whose Set is logged) — on every exit path of the body. -/
theorem C21_with_restores_every_lvalue (c : Cfg) (groups : List Group) (hwf : ∀ g ∈ groups, g.WF)
    (body : St → R) (s : St) (h : (assignGroups c groups s : AR Empty).out = none) :
    let a : AR Empty := assignGroups c groups s
    let m := withMid c groups body s
    (withExec c groups body s).ev = a.ev ++ m.ev ++ (runSeq c noCb a.items.reverse m.st m.out).ev ∧
    (runSeq c noCb a.items.reverse m.st m.out).ev.filterMap Event.varOf =
      (((groups.flatMap (·.lvs)).map LV.head).filter fun x => (c.kind x).isLogged).reverse := by
  intro a m
  refine ⟨by rw [withExec_eq], ?_⟩
  rw [runSeq_ev_heads, List.filterMap_reverse]
  congr 1
  apply filterMap_loggedHead
  rw [assignGroups_items_heads c groups hwf s h, List.map_map]
  rfl

namespace C21.Ex
/-- both variables logged, nothing fails -/
def cfg2 : Cfg := { kind := fun _ => .logged, fails := fun _ _ => false }
/-- `with x0 x1 = 1 2 { }` (the witness of seeded/C21-with-keeps-only-last-restore-per-assignment) -/
def prog2 : List Stmt := [.withS 1 [⟨[.var 0, .var 1], none, [numV 1, numV 2]⟩] []]
/-- `tmp x0 @x1 = 1 2 3; defer { peek x1 }` -/
def prog3 : List Stmt := [.asg 1 true ⟨[.var 0, .var 1], some 1, [numV 1, numV 2, numV 3]⟩, .deferS 2 [.peek 3 1]]
end C21.Ex

/-- The model's log of `with x0 x1 = 1 2 { }`: two Sets, the body, two restores (x1 first). -/
example : txt (callBlock cfg2 3 ⟨0, prog2⟩ true st0) =
    [.enter 0 0, .at 0 1, .set 0 [49] true, .set 1 [50] true, .enter 1 1,
     .set 1 [48] true, .set 0 [48] true] := by decide

/-- …it is accepted (non-vacuity of `C21_log_accepted`; the acceptor is executable) … -/
example : accepts cfg2.kind 3 prog2 st0.store 2 none [[48], [48]]
    [.enter 0 0, .at 0 1, .set 0 [49] true, .set 1 [50] true, .enter 1 1,
     .set 1 [48] true, .set 0 [48] true] = true := by decide

/-- …and the log of the seeded change (only the LAST lvalue of the assignment
restored: no `S0=0`, x0 keeps 1) is rejected, as are a doubled and a swapped restore. -/
example : accepts cfg2.kind 3 prog2 st0.store 2 none [[49], [48]]
    [.enter 0 0, .at 0 1, .set 0 [49] true, .set 1 [50] true, .enter 1 1, .set 1 [48] true] = false ∧
  accepts cfg2.kind 3 prog2 st0.store 2 none [[48], [48]]
    [.enter 0 0, .at 0 1, .set 0 [49] true, .set 1 [50] true, .enter 1 1,
     .set 1 [48] true, .set 0 [48] true, .set 0 [48] true] = false ∧
  accepts cfg2.kind 3 prog2 st0.store 2 none [[48], [48]]
    [.enter 0 0, .at 0 1, .set 0 [49] true, .set 1 [50] true, .enter 1 1,
     .set 0 [48] true, .set 1 [48] true] = false := by decide

/-- rest lvalue + tmp + defer: `x1` gets `[2;3]`, the callback (run first) sees it, then x1, x0 are restored. -/
example : txt (callBlock cfg2 3 ⟨0, prog3⟩ true st0) =
    [.enter 0 0, .at 0 1, .set 0 [49] true, .set 1 [91, 50, 59, 51, 93] true, .at 0 2,
     .enter 1 2, .at 1 3, .val 1 [91, 50, 59, 51, 93], .set 1 [48] true, .set 0 [48] true] ∧
    (doAssign cfg2 true ⟨[.var 0, .var 1], some 1, [numV 1, numV 2, numV 3]⟩ st0 : AR Block).out = none := by
  decide

/-- hypotheses of `C21_one_restore_per_lvalue` / `C21_with_restores_every_lvalue` are satisfiable:
`x0 @x1 = 1 2 3` is well-formed and succeeds (two restores, one per lvalue, in lvalue order). -/
example : (⟨[.var 0, .var 1], some 1, [numV 1, numV 2, numV 3]⟩ : Group).WF ∧
    (assignGroups cfg2 [⟨[.var 0, .var 1], some 1, [numV 1, numV 2, numV 3]⟩] st0 : AR Empty).out = none ∧
    ((doAssign cfg2 true ⟨[.var 0, .var 1], some 1, [numV 1, numV 2, numV 3]⟩ st0 : AR Empty).items.map
      Item.head) = [some 0, some 1] := by
  refine ⟨?_, by decide, by decide⟩
  intro r h
  cases h
  decide

/-- hypotheses of `C21_fuel_sufficient` are tight: with fuel = depth the flag is set. -/
example : (callBlock cfg2 1 ⟨0, prog2⟩ true st0).st.oof = true ∧
    (callBlock cfg2 2 ⟨0, prog2⟩ true st0).st.oof = false ∧ depthL prog2 = 1 := by decide
