import ElvModel.C35.Block
import ElvProofs.C35.BlockTotal
namespace C35
open Go

/-! ### the op trace of the block phase is well nested, for every input -/

/-- stack checker over the container ops (innermost open container first);
leaf ops are neutral -/
def balance : List CT → List BOp → Option (List CT)
  | s, [] => some s
  | s, .opn _ t _ :: r => balance (t :: s) r
  | [], .cls _ _ :: _ => none
  | t' :: s, .cls _ t :: r => if t = t' then balance s r else none
  | s, .hr _ :: r => balance s r
  | s, .heading _ _ _ _ :: r => balance s r
  | s, .code _ _ _ :: r => balance s r
  | s, .html _ _ :: r => balance s r
  | s, .para _ _ :: r => balance s r
  | s, .fuel :: r => balance s r
  | s, .panic :: r => balance s r

def BOp.isLeaf : BOp → Bool
  | .opn .. => false
  | .cls .. => false
  | _ => true

/-- the open containers of a state, innermost first -/
def stack (st : BSt) : List CT := (st.ctrs.map (·.typ)).reverse

theorem balance_leaf (o : BOp) (h : o.isLeaf = true) (s : List CT) (r : List BOp) :
    balance s (o :: r) = balance s r := by
  cases o <;> first | rfl | (simp [BOp.isLeaf] at h)

theorem balance_append : ∀ (a b : List BOp) (s : List CT),
    balance s (a ++ b) = (balance s a).bind (fun s' => balance s' b) := by
  intro a
  induction a with
  | nil => intro b s; simp [balance]
  | cons o a ih =>
    intro b s
    cases o with
    | opn ln t n => simp only [List.cons_append, balance]; exact ih b _
    | cls ln t =>
      cases s with
      | nil => simp [balance]
      | cons t' s =>
        simp only [List.cons_append, balance]
        split
        · exact ih b _
        · rfl
    | hr _ => simp only [List.cons_append, balance]; exact ih b _
    | heading _ _ _ _ => simp only [List.cons_append, balance]; exact ih b _
    | code _ _ _ => simp only [List.cons_append, balance]; exact ih b _
    | html _ _ => simp only [List.cons_append, balance]; exact ih b _
    | para _ _ => simp only [List.cons_append, balance]; exact ih b _
    | fuel => simp only [List.cons_append, balance]; exact ih b _
    | panic => simp only [List.cons_append, balance]; exact ih b _

theorem balance_seq {a b : List BOp} {s s1 s2 : List CT}
    (h1 : balance s a = some s1) (h2 : balance s1 b = some s2) : balance s (a ++ b) = some s2 := by
  rw [balance_append, h1]; exact h2

theorem balance_leaves : ∀ (a : List BOp) (s : List CT), (∀ o ∈ a, o.isLeaf = true) →
    balance s a = some s := by
  intro a
  induction a with
  | nil => intro s _; rfl
  | cons o a ih =>
    intro s h
    rw [balance_leaf o (h o (List.mem_cons_self ..))]
    exact ih s (fun o' ho => h o' (List.mem_cons_of_mem _ ho))

theorem leaves_guard (b : Bool) : ∀ o ∈ guard b, o.isLeaf = true := by
  cases b <;> simp [guard, BOp.isLeaf]

theorem leaves_closePara (st : BSt) (ln : Int) : ∀ o ∈ closePara st ln, o.isLeaf = true := by
  unfold closePara
  split <;> simp [BOp.isLeaf]

theorem balance_cls (ln : Int) : ∀ (d : List Ctr) (s : List CT),
    balance (d.map (·.typ) ++ s) (d.map fun c => BOp.cls ln c.typ) = some s := by
  intro d
  induction d with
  | nil => intro s; rfl
  | cons c d ih =>
    intro s
    simp only [List.map_cons, List.cons_append, balance, if_true]
    exact ih s

theorem closeBlocks_bal (st : BSt) (keep : Nat) (ln : Int) :
    balance (stack st) (closeBlocks st keep ln).2 = some (stack (closeBlocks st keep ln).1) := by
  unfold closeBlocks
  simp only []
  refine balance_seq (balance_seq (balance_leaves _ _ (leaves_closePara st ln)) ?_)
    (balance_leaves _ _ (leaves_guard _))
  have e : stack st = ((st.ctrs.drop keep).reverse.map (·.typ)) ++ ((st.ctrs.take keep).map (·.typ)).reverse := by
    unfold stack
    conv => lhs; rw [← List.take_append_drop keep st.ctrs]
    simp [List.map_reverse]
  rw [e]
  exact balance_cls ln _ _

theorem openNew_bal (ln : Int) : ∀ (cs : List Cont) (cl : Bool) (s : List CT),
    balance s (openNew ln cl cs).2 = some (((openNew ln cl cs).1.map (·.typ)).reverse ++ s) := by
  intro cs
  induction cs with
  | nil => intro cl s; rfl
  | cons c cs ih =>
    intro cl s
    cases c with
    | quote =>
      simp only [openNew, balance, List.map_cons, List.reverse_cons, List.append_assoc]
      rw [ih]; simp
    | bullet p ind =>
      simp only [openNew]
      split
      · simp only [balance, List.map_cons, List.reverse_cons, List.append_assoc]
        rw [ih]; simp
      · simp only [balance, List.map_cons, List.reverse_cons, List.append_assoc]
        rw [ih]; simp
    | ordered p st ind =>
      simp only [openNew]
      split
      · simp only [balance, List.map_cons, List.reverse_cons, List.append_assoc]
        rw [ih]; simp
      · simp only [balance, List.map_cons, List.reverse_cons, List.append_assoc]
        rw [ih]; simp

/-- a step keeps the trace balanced: from the stack of the old state the ops
lead to the stack of the new state -/
def Bal (s0 : BSt) (r : BSt × List BOp) : Prop := balance (stack s0) r.2 = some (stack r.1)

theorem processMarkers_bal (st : BSt) (ln : Int) (line0 : Bytes) :
    balance (stack st) (processMarkers st ln line0).ops = some (stack (processMarkers st ln line0).st) := by
  unfold processMarkers
  generalize matchCont st.ctrs line0 0 = mc
  simp only []
  cases startingMarkers (mc.1.length + 1) mc.1 (st.para.isEmpty || mc.2 != st.ctrs.length) [] with
  | none => rfl
  | some sm =>
    simp only []
    split
    · exact balance_leaves _ _ (leaves_guard _)
    · simp only []
      refine balance_seq (balance_seq (balance_leaves _ _ (leaves_guard _)) (closeBlocks_bal st _ ln)) ?_
      rw [openNew_bal]
      simp [stack]

theorem stack_mode (st : BSt) (m : Mode) : stack { st with mode := m } = stack st := rfl
theorem stack_para (st : BSt) (p : List Bytes) : stack { st with para := p } = stack st := rfl

theorem leafStep_bal (s0 : BSt) (pm : PM) (h : balance (stack s0) pm.ops = some (stack pm.st))
    (ln : Int) (m : Mode) (ops : List BOp) (ho : ∀ o ∈ ops, o.isLeaf = true) :
    Bal s0 (leafStep pm ln m ops) := by
  unfold Bal leafStep
  simp only [stack_mode]
  exact balance_seq (balance_seq h (closeBlocks_bal _ _ _)) (balance_leaves _ _ ho)

theorem blankStep_bal (s0 : BSt) (pm : PM) (h : balance (stack s0) pm.ops = some (stack pm.st))
    (ln : Int) (next : Option Bytes) : Bal s0 (blankStep pm ln next) := by
  unfold Bal blankStep
  simp only [stack_para]
  refine balance_seq (balance_seq h ?_) (balance_leaves _ _ (leaves_closePara _ _))
  cases pm.newItem <;> cases next <;> simp only [] <;> first
    | rfl
    | (split
       · exact balance_seq (balance_leaves _ _ (leaves_guard _)) (closeBlocks_bal _ _ _)
       · rfl)

theorem stepNormal_bal (st : BSt) (ln : Int) (line0 : Bytes) (next : Option Bytes) :
    Bal st (stepNormal st ln line0 next) := by
  unfold stepNormal
  have hpm := processMarkers_bal st ln line0
  generalize processMarkers st ln line0 = pm at hpm
  simp only []
  have L := fun m ops ho => leafStep_bal st pm hpm ln m ops ho
  have one : ∀ o : BOp, o.isLeaf = true → ∀ o' ∈ [o], o'.isLeaf = true := by
    intro o h o' ho'; simp at ho'; subst ho'; exact h
  have none' : ∀ o' ∈ ([] : List BOp), o'.isLeaf = true := by intro o' h; cases h
  split
  · split
    · exact balance_seq hpm (closeBlocks_bal _ _ _)
    · exact blankStep_bal st pm hpm ln next
  · split
    · exact L _ _ (one _ rfl)
    · split
      · exact L _ _ (one _ (by unfold headingOp; simp only []; split <;> rfl))
      · split
        · exact L _ _ none'
        · split
          · exact L _ _ none'
          · split
            · split
              · unfold Bal; simp only [stack_para]
                exact balance_seq hpm (closeBlocks_bal _ _ _)
              · unfold Bal; simp only [stack_para]; exact hpm
            · exact L _ _ none'
            · split
              · exact L _ _ (one _ rfl)
              · exact L _ _ none'

theorem endWith_bal (st : BSt) (ln : Int) (uq : Option Nat) (op : BOp) (ho : op.isLeaf = true) :
    Bal st (endWith st ln uq op) := by
  unfold Bal endWith
  split
  · simp only []
    rw [balance_leaf op ho]
    exact closeBlocks_bal { st with mode := .normal } _ ln
  · simp only [stack_mode]
    rw [balance_leaf op ho]; rfl

theorem again_bal (st : BSt) (ln : Int) (line0 : Bytes) (next : Option Bytes) (op : BOp)
    (ho : op.isLeaf = true) : Bal st (again st ln line0 next op) := by
  unfold Bal again
  simp only []
  rw [balance_leaf op ho]
  exact stepNormal_bal { st with mode := .normal } ln line0 next

theorem stepBlk_bal (st : BSt) (ln : Int) (line0 : Bytes) (next : Option Bytes) :
    Bal st (stepBlk st ln line0 next) := by
  have E := fun uq op ho => endWith_bal st ln uq op ho
  have A := fun op ho => again_bal st ln line0 next op ho
  have R : ∀ m, Bal st ({ st with mode := m }, []) := fun m => rfl
  have R1 : ∀ m (o : BOp), o.isLeaf = true → Bal st ({ st with mode := m }, [o]) := by
    intro m o ho; unfold Bal; simp only [stack_mode]; rw [balance_leaf o ho]; rfl
  unfold stepBlk
  simp only []
  split
  · exact stepNormal_bal _ _ _ _
  · split
    · exact E _ _ rfl
    · split
      · exact A _ rfl
      · split
        · split
          · exact R1 _ _ rfl
          · exact R _
        · exact R _
  · split
    · split
      · exact E _ _ rfl
      · exact R _
    · split
      · exact A _ rfl
      · exact R _
  · split
    · split
      · exact E _ _ rfl
      · exact R _
    · split
      · exact A _ rfl
      · split
        · exact R1 _ _ rfl
        · exact R _
  · split
    · exact E _ _ rfl
    · split
      · exact A _ rfl
      · exact R _

theorem finish_bal (st : BSt) (ln : Int) : balance (stack st) (finish st ln) = some [] := by
  unfold finish
  have h : ∀ o ∈ (match st.mode with
      | .normal => ([] : List BOp)
      | .fenced sl _ _ _ info lines => [.code sl info lines.reverse]
      | .indented sl lines _ => [.code sl [] lines.reverse]
      | .htmlC sl _ lines _ => [.html sl lines.reverse]
      | .htmlB sl lines => [.html sl lines.reverse]), o.isLeaf = true := by
    split <;> simp [BOp.isLeaf]
  refine balance_seq (balance_leaves _ _ h) ?_
  rw [closeBlocks_bal]
  simp [stack, closeBlocks]

theorem blockLoop_bal : ∀ (lines : List Bytes) (st : BSt) (ln : Int),
    balance (stack st) (blockLoop st ln lines) = some [] := by
  intro lines
  induction lines with
  | nil => intro st ln; exact finish_bal st ln
  | cons l rest ih =>
    intro st ln
    unfold blockLoop
    exact balance_seq (stepBlk_bal st ln l rest.head?) (ih _ _)

end C35
