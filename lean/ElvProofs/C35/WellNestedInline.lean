/-
C35 — well-nestedness of the reference renderer, INLINE level: escaping
lemmas (`escUrl`, decimal numbers), the literal-tag table and
`inl_frag : Frag (inlHtml loose fuel l)`.
-/
import ElvProofs.C35.WellNestedDefs
namespace C35
open Go

/-! ### attribute values -/

theorem escHtml_valSafe (s : Bytes) : ValSafe (escHtml s) := escHtml_safe s

private theorem urlByte_safe : ∀ n : Fin 256, ∀ loose : Bool,
    ValSafe ((fun b : UInt8 => if urlSafe b then [b]
      else if b == 0x26 then bs "&amp;"
      else if b == 0x27 then (if loose then [b] else bs "&#x27;")
      else [0x25, hexUp (b.toNat / 16), hexUp (b.toNat % 16)]) (UInt8.ofNat n.val)) := by
  decide +kernel

/-- the reference's URL escaping never writes `<`, `>` or `"` -/
theorem escUrl_safe (loose : Bool) (s : Bytes) : ValSafe (escUrl loose s) := by
  intro x hx
  unfold escUrl at hx
  rcases List.mem_flatMap.mp hx with ⟨b, _, hb⟩
  have := urlByte_safe ⟨b.toNat, b.toNat_lt⟩ loose
  simp only [UInt8.ofNat_toNat] at this
  exact this x hb

private theorem ba_toList_loop (ba : ByteArray) (i : Nat) (r : List UInt8) :
    ByteArray.toList.loop ba i r = r.reverse ++ ba.data.toList.drop i := by
  fun_induction ByteArray.toList.loop ba i r with
  | case1 i r h ih =>
    rw [ih]
    have h' : i < ba.data.toList.length := by rw [Array.length_toList]; exact h
    rw [List.drop_eq_getElem_cons h']
    have h2 : i < ba.data.size := h
    simp [ByteArray.get!]
    exact getElem!_pos ba.data i h2
  | case2 i r h =>
    have h' : ba.data.toList.length ≤ i := by rw [Array.length_toList]; exact Nat.le_of_not_lt h
    simp [List.drop_eq_nil_of_le h']

theorem ba_toList (ba : ByteArray) : ba.toList = ba.data.toList := by
  simp [ByteArray.toList, ba_toList_loop]

/-- the decimal rendering of a number (the `start` attribute) is digits only -/
theorem digits_safe (n : Nat) : ValSafe (bs (toString n)) := by
  intro b hb
  have h1 : bs (toString n) = (Nat.toDigits 10 n).flatMap String.utf8EncodeChar := by
    simp [bs, String.toUTF8, Nat.repr_eq_ofList_toDigits, List.utf8Encode, ba_toList]
  rw [h1] at hb
  rcases List.mem_flatMap.mp hb with ⟨c, hc, hbc⟩
  have hd := Nat.isDigit_of_mem_toDigits (by decide) (by decide) hc
  simp only [Char.isDigit, Bool.and_eq_true, decide_eq_true_eq] at hd
  have h48 : 48 ≤ c.val.toNat := UInt32.le_iff_toNat_le.mp hd.1
  have h57 : c.val.toNat ≤ 57 := UInt32.le_iff_toNat_le.mp hd.2
  unfold String.utf8EncodeChar at hbc
  simp only [] at hbc
  rw [if_pos (by omega)] at hbc
  simp only [List.mem_singleton] at hbc
  have hb' : b.toNat = c.val.toNat := by
    rw [hbc, UInt8.toNat_ofNat']; omega
  refine ⟨?_, ?_, ?_⟩ <;>
    (intro h; rw [h] at hb'
     first | (change 60 = _ at hb'; omega) | (change 62 = _ at hb'; omega) | (change 34 = _ at hb'; omega))

/-! ### literal table (`bs "…"` does not reduce under `simp`) -/

theorem lit_q : bs "\"" = [0x22] := by decide +kernel
theorem lit_gt : bs ">" = [0x3E] := by decide +kernel
theorem lit_qgt : bs "\">" = [0x22, 0x3E] := by decide +kernel
theorem lit_title : bs " title=\"" = [SP] ++ bs "title" ++ [0x3D, 0x22] := by decide +kernel
theorem lit_a_href : bs "<a href=\"" = [0x3C] ++ bs "a" ++ ([SP] ++ bs "href" ++ [0x3D, 0x22]) := by
  decide +kernel
theorem lit_a_close : bs "</a>" = Ev.bytes (.close (bs "a")) := by decide +kernel
theorem lit_img : bs "<img src=\"" = [0x3C] ++ bs "img" ++ ([SP] ++ bs "src" ++ [0x3D, 0x22]) := by
  decide +kernel
theorem lit_alt : bs "\" alt=\"" = [0x22] ++ ([SP] ++ bs "alt" ++ [0x3D, 0x22]) := by decide +kernel
theorem lit_void_end : bs " />" = [0x20, 0x2F, 0x3E] := by decide +kernel
theorem lit_br : bs "<br />\n" = Ev.bytes (.void (bs "br") []) ++ [NL] := by decide +kernel
theorem lit_code : bs "<code>" = Ev.bytes (.open (bs "code") []) := by decide +kernel
theorem lit_code_close : bs "</code>" = Ev.bytes (.close (bs "code")) := by decide +kernel
theorem lit_em : bs "<em>" = Ev.bytes (.open (bs "em") []) := by decide +kernel
theorem lit_em_close : bs "</em>" = Ev.bytes (.close (bs "em")) := by decide +kernel
theorem lit_strong : bs "<strong>" = Ev.bytes (.open (bs "strong") []) := by decide +kernel
theorem lit_strong_close : bs "</strong>" = Ev.bytes (.close (bs "strong")) := by decide +kernel
theorem fuel_textSafe : TextSafe (bs "FUEL") := by decide +kernel

/-! ### title attribute -/

def titleAttrs (t : Bytes) : List (Bytes × Bytes) :=
  if t.isEmpty then [] else [(bs "title", escHtml t)]

theorem titleAttr_eq (t : Bytes) : titleAttr t = attrsBytes (titleAttrs t) := by
  unfold titleAttr titleAttrs
  split
  · rfl
  · rw [lit_title, lit_q]; simp [attrsBytes, attrBytes]

theorem titleAttrs_safe (t : Bytes) : AttrsSafe (titleAttrs t) := by
  unfold titleAttrs
  split
  · exact AttrsSafe.nil
  · exact AttrsSafe.single (by simp [attrNames]) (escHtml_valSafe t)

/-! ### inlines -/

/-- the body of the `flatMap` in `inlHtml`, named -/
def inlStep (loose : Bool) (fuel : Nat) : Inl → Bytes
  | .text s => escHtml s
  | .code s => bs "<code>" ++ escHtml s ++ bs "</code>"
  | .emph c => bs "<em>" ++ inlHtml loose fuel c ++ bs "</em>"
  | .strong c => bs "<strong>" ++ inlHtml loose fuel c ++ bs "</strong>"
  | .link d t c => bs "<a href=\"" ++ escUrl loose d ++ bs "\"" ++ titleAttr t ++ bs ">" ++ inlHtml loose fuel c ++ bs "</a>"
  | .image d t c =>
    bs "<img src=\"" ++ escUrl loose d ++ bs "\" alt=\"" ++ escHtml (plainText fuel c) ++ bs "\"" ++ titleAttr t ++ bs " />"
  | .autolink d t => bs "<a href=\"" ++ escUrl loose d ++ bs "\">" ++ escHtml t ++ bs "</a>"
  | .hardbreak => bs "<br />\n"
  | .softbreak => [NL]

theorem inlHtml_zero (loose : Bool) (l : List Inl) : inlHtml loose 0 l = bs "FUEL" := rfl

theorem inlHtml_succ (loose : Bool) (fuel : Nat) (l : List Inl) :
    inlHtml loose (fuel + 1) l = l.flatMap (inlStep loose fuel) := by
  rw [inlHtml]
  congr 1

theorem inlStep_frag (loose : Bool) (fuel : Nat) (ih : ∀ l, Frag (inlHtml loose fuel l)) (x : Inl) :
    Frag (inlStep loose fuel x) := by
  cases x with
  | text s => exact Frag.text (escHtml_valSafe s).textSafe
  | code s =>
    exact Frag.wrapLit (t := bs "code") (a := []) (by simp [tagNames]) AttrsSafe.nil lit_code
      lit_code_close (Frag.text (escHtml_valSafe s).textSafe)
  | emph c =>
    exact Frag.wrapLit (t := bs "em") (a := []) (by simp [tagNames]) AttrsSafe.nil lit_em
      lit_em_close (ih c)
  | strong c =>
    exact Frag.wrapLit (t := bs "strong") (a := []) (by simp [tagNames]) AttrsSafe.nil lit_strong
      lit_strong_close (ih c)
  | link d t c =>
    have e : inlStep loose fuel (.link d t c) =
        Ev.bytes (.open (bs "a") ((bs "href", escUrl loose d) :: titleAttrs t)) ++ inlHtml loose fuel c ++
          Ev.bytes (.close (bs "a")) := by
      simp only [inlStep]
      rw [lit_a_href, lit_q, lit_gt, lit_a_close, titleAttr_eq]
      simp [Ev.bytes, attrsBytes, attrBytes]
    rw [e]
    refine Frag.wrap (by simp [tagNames]) ?_ (ih c)
    exact AttrsSafe.append (x := [_]) (AttrsSafe.single (by simp [attrNames]) (escUrl_safe loose d))
      (titleAttrs_safe t)
  | image d t c =>
    have e : inlStep loose fuel (.image d t c) =
        Ev.bytes (.void (bs "img") ((bs "src", escUrl loose d) :: (bs "alt", escHtml (plainText fuel c)) ::
          titleAttrs t)) := by
      simp only [inlStep]
      rw [lit_img, lit_q, lit_alt, lit_void_end, titleAttr_eq]
      simp [Ev.bytes, attrsBytes, attrBytes]
    rw [e]
    refine Frag.void (by simp [voidNames]) ?_
    exact AttrsSafe.append (x := [_, _])
      (AttrsSafe.append (x := [_]) (AttrsSafe.single (by simp [attrNames]) (escUrl_safe loose d))
        (AttrsSafe.single (by simp [attrNames]) (escHtml_valSafe _)))
      (titleAttrs_safe t)
  | autolink d t =>
    have e : inlStep loose fuel (.autolink d t) =
        Ev.bytes (.open (bs "a") [(bs "href", escUrl loose d)]) ++ escHtml t ++ Ev.bytes (.close (bs "a")) := by
      simp only [inlStep]
      rw [lit_a_href, lit_qgt, lit_a_close]
      simp [Ev.bytes, attrsBytes, attrBytes]
    rw [e]
    exact Frag.wrap (by simp [tagNames]) (AttrsSafe.single (by simp [attrNames]) (escUrl_safe loose d))
      (Frag.text (escHtml_valSafe t).textSafe)
  | hardbreak =>
    simp only [inlStep]
    rw [lit_br]
    exact Frag.append (Frag.void (by simp [voidNames]) AttrsSafe.nil) nl_frag
  | softbreak => exact nl_frag

theorem flatMap_frag {α : Type} (f : α → Bytes) (l : List α) (h : ∀ x ∈ l, Frag (f x)) :
    Frag (l.flatMap f) := by
  induction l with
  | nil => exact Frag.nil
  | cons x xs ih =>
    rw [List.flatMap_cons]
    exact Frag.append (h x (List.mem_cons_self ..)) (ih (fun y hy => h y (List.mem_cons_of_mem _ hy)))

/-- INLINE LEVEL: the HTML of any inline tree, at any fuel, is the
serialisation of a well-nested list of safe tokens -/
theorem inl_frag (loose : Bool) : ∀ (fuel : Nat) (l : List Inl), Frag (inlHtml loose fuel l) := by
  intro fuel
  induction fuel with
  | zero => intro l; rw [inlHtml_zero]; exact Frag.text fuel_textSafe
  | succ n ih =>
    intro l
    rw [inlHtml_succ]
    exact flatMap_frag _ _ (fun x _ => inlStep_frag loose n ih x)

end C35
