import ElvModel.C35.RefHtml
namespace C35
open Go

/-! ### termination of the reference's emphasis resolution -/

def procMeasure (right : List Item) : Nat := (right.map delimLen).sum + right.length

theorem procEmph_fuel (fuel : Nat) : ∀ (left right : List Item),
    procMeasure right < fuel → procEmph fuel left right ≠ none := by
  induction fuel with
  | zero => intro l r h; omega
  | succ n ih =>
    intro left right h
    cases right with
    | nil => simp [procEmph]
    | cons it right =>
      have hm : procMeasure (it :: right) = delimLen it + procMeasure right + 1 := by
        simp [procMeasure]; omega
      unfold procEmph
      split
      · -- a closer
        rename_i cch cn corig co
        have hd : delimLen (Item.delim cch cn corig co true) = cn := rfl
        split
        · apply ih; omega
        · rename_i btw on oorig oo oc rest _
          have hu : 1 ≤ refUse on cn := by unfold refUse; split <;> omega
          split
          · apply ih
            have hlen : procMeasure (Item.delim cch (cn - refUse on cn) corig co true :: right)
                = (cn - refUse on cn) + procMeasure right + 1 := by
              simp [procMeasure, delimLen]; omega
            rw [hlen]; omega
          · apply ih; omega
      · apply ih; omega

theorem resolveEmph_total (items : List Item) : resolveEmph items ≠ none := by
  unfold resolveEmph
  have := procEmph_fuel (emphFuel items) [] items (by simp [procMeasure, emphFuel])
  split
  · rename_i h; exact absurd h this
  · simp

/-! ### the reference escapes text -/

theorem escHtml_safe (s : Bytes) : ∀ b ∈ escHtml s, b ≠ 0x3C ∧ b ≠ 0x3E ∧ b ≠ 0x22 := by
  intro b hb
  unfold escHtml at hb
  rcases List.mem_flatMap.mp hb with ⟨a, _, hba⟩
  split at hba
  · simp at hba; rcases hba with h | h | h | h | h <;> subst h <;> decide
  · split at hba
    · simp at hba; rcases hba with h | h | h | h <;> subst h <;> decide
    · split at hba
      · simp at hba; rcases hba with h | h | h | h <;> subst h <;> decide
      · split at hba
        · simp at hba; rcases hba with h | h | h | h | h | h <;> subst h <;> decide
        · rename_i h1 h2 h3 h4
          have : b = a := by simpa using hba
          subst this
          refine ⟨?_, ?_, ?_⟩ <;> intro h <;> subst h <;> simp_all

end C35
