import ElvModel.C35.Model
namespace C35
open Go

/-! ### termination of the model of `processEmphasis` -/

theorem useOf_pos (o c : D) : 1 ≤ useOf o c := by unfold useOf; split <;> omega

theorem useOf_le (o c : D) (ho : 1 ≤ o.rem) (hc : 1 ≤ c.rem) :
    useOf o c ≤ o.rem ∧ useOf o c ≤ c.rem := by
  unfold useOf
  split
  · rename_i h; simp at h; omega
  · omega

/-- with fuel above the measure the loop never runs out of fuel -/
theorem peLoop_fuel (fuel : Nat) : ∀ s : PE, peMeasure s < fuel → peLoop fuel s ≠ .fuel := by
  induction fuel with
  | zero => intro s h; omega
  | succ n ih =>
    intro s h
    unfold peLoop
    cases hr : s.right with
    | nil => simp
    | cons c right =>
      have hm : peMeasure s = c.rem + 1 + (right.map (fun d => d.rem + 1)).sum := by
        simp [peMeasure, hr]
      simp only []
      split
      · apply ih; simp only [peMeasure]; omega
      · split
        · split
          · apply ih; simp only [peMeasure]; omega
          · apply ih; simp only [peMeasure]; omega
        · rename_i o rest _
          split
          · simp
          · have := useOf_pos o c
            split
            · apply ih; simp only [peMeasure]; omega
            · apply ih
              simp only [peMeasure, List.map_cons, List.sum_cons]
              rename_i hne
              have : ¬ (c.rem - useOf o c = 0) := by simpa using hne
              omega

/-! ### no slice panic: every live delimiter still has text -/

def PEInv (s : PE) : Prop := (∀ d ∈ s.left, 1 ≤ d.rem) ∧ (∀ d ∈ s.right, 1 ≤ d.rem)

theorem findOp_mem (c : D) (bot : Bot) : ∀ (l : List D) (o : D) (rest : List D),
    findOp c bot l = some (o, rest) → o ∈ l ∧ (∀ d ∈ rest, d ∈ l) := by
  intro l
  induction l with
  | nil => intro o rest h; simp [findOp] at h
  | cons p ps ih =>
    intro o rest h
    unfold findOp at h
    split at h
    · cases h
    · split at h
      · injection h with h; injection h with h1 h2
        subst h1; subst h2
        exact ⟨List.mem_cons_self, fun d hd => List.mem_cons_of_mem _ hd⟩
      · have := ih o rest h
        exact ⟨List.mem_cons_of_mem _ this.1, fun d hd => List.mem_cons_of_mem _ (this.2 d hd)⟩

theorem leftAfter_inv (o : D) (use : Nat) (rest : List D) (hrest : ∀ d ∈ rest, 1 ≤ d.rem) :
    ∀ d ∈ leftAfter o use rest, 1 ≤ d.rem := by
  intro d hd
  unfold leftAfter at hd
  split at hd
  · exact hrest d hd
  · rename_i hne
    rcases List.mem_cons.mp hd with h | h
    · subst h
      have : ¬ (o.rem - use = 0) := by simpa using hne
      show 1 ≤ o.rem - use
      omega
    · exact hrest d h

theorem cons_inv (c : D) (l : List D) (hc : 1 ≤ c.rem) (hl : ∀ d ∈ l, 1 ≤ d.rem) :
    ∀ d ∈ c :: l, 1 ≤ d.rem := by
  intro d hd
  rcases List.mem_cons.mp hd with h | h
  · subst h; exact hc
  · exact hl d h

theorem peLoop_no_panic (fuel : Nat) : ∀ s : PE, PEInv s → peLoop fuel s ≠ .panic := by
  induction fuel with
  | zero => intro s _; simp [peLoop]
  | succ n ih =>
    intro s hinv
    unfold peLoop
    cases hr : s.right with
    | nil => simp
    | cons c right =>
      have hR : ∀ d ∈ c :: right, 1 ≤ d.rem := by rw [← hr]; exact hinv.2
      have hc : 1 ≤ c.rem := hR c List.mem_cons_self
      have hright : ∀ d ∈ right, 1 ≤ d.rem := fun d hd => hR d (List.mem_cons_of_mem _ hd)
      simp only []
      split
      · apply ih; exact ⟨cons_inv c s.left hc hinv.1, hright⟩
      · split
        · split
          · apply ih; exact ⟨cons_inv c s.left hc hinv.1, hright⟩
          · apply ih; exact ⟨hinv.1, hright⟩
        · rename_i o rest hfo
          have hmem := findOp_mem c _ s.left o rest hfo
          have ho : 1 ≤ o.rem := hinv.1 o hmem.1
          have hrest : ∀ d ∈ rest, 1 ≤ d.rem := fun d hd => hinv.1 d (hmem.2 d hd)
          split
          · rename_i hp
            have h1 : (o.rem == 0) = false := by simp; omega
            have h2 : (c.rem == 0) = false := by simp; omega
            simp [h1, h2] at hp
          · split
            · apply ih; exact ⟨leftAfter_inv o _ rest hrest, hright⟩
            · rename_i hne
              apply ih
              refine ⟨leftAfter_inv o _ rest hrest, ?_⟩
              apply cons_inv _ _ _ hright
              have : ¬ (c.rem - useOf o c = 0) := by simpa using hne
              show 1 ≤ c.rem - useOf o c
              omega

/-- the initial state built by the tokenizer: every run has length ≥ 1 -/
theorem tokStep_delims_pos (G : GoU) (st : Tok) (b : UInt8) (t : Bytes)
    (h : ∀ d ∈ st.delims, 1 ≤ d.rem) : ∀ d ∈ (tokStep G st b t).delims, 1 ≤ d.rem := by
  unfold tokStep
  split
  · rename_i hb
    intro d hd
    simp only [] at hd
    rcases List.mem_cons.mp hd with hd | hd
    · subst hd
      show 1 ≤ countWhile (fun x => x == b) (b :: t)
      simp [countWhile]
    · exact h d hd
  · split
    · exact h
    · exact h

theorem tokScan_delims_pos (G : GoU) : ∀ (s : Bytes) (st : Tok),
    (∀ d ∈ st.delims, 1 ≤ d.rem) → ∀ d ∈ (tokScan G st s).delims, 1 ≤ d.rem := by
  intro s
  induction s with
  | nil => intro st h; simpa [tokScan] using h
  | cons b t ih =>
    intro st h
    unfold tokScan
    split
    · exact ih _ h
    · exact ih _ (tokStep_delims_pos G st b t h)

end C35
