import ElvModel.C35.Block
import ElvProofs.C35.Markers
namespace C35
open Go

/-! ### no `panic` / `fuel` marker is ever emitted by the block phase -/

def BOp.bad : BOp → Bool
  | .fuel => true
  | .panic => true
  | _ => false

/-- no bound check failed and no loop ran out of fuel -/
def Clean (ops : List BOp) : Prop := ∀ o ∈ ops, o.bad = false

theorem clean_nil : Clean [] := by intro o h; cases h

theorem clean_append {a b : List BOp} : Clean (a ++ b) ↔ Clean a ∧ Clean b := by
  simp only [Clean, List.mem_append]
  constructor
  · intro h; exact ⟨fun o ho => h o (Or.inl ho), fun o ho => h o (Or.inr ho)⟩
  · rintro ⟨h1, h2⟩ o (ho | ho)
    · exact h1 o ho
    · exact h2 o ho

theorem clean_cons {a : BOp} {b : List BOp} : Clean (a :: b) ↔ a.bad = false ∧ Clean b := by
  simp only [Clean, List.mem_cons]
  constructor
  · intro h; exact ⟨h a (Or.inl rfl), fun o ho => h o (Or.inr ho)⟩
  · rintro ⟨h1, h2⟩ o (ho | ho)
    · subst ho; exact h1
    · exact h2 o ho

theorem clean_guard (b : Bool) (h : b = true) : Clean (guard b) := by
  subst h; exact clean_nil

theorem clean_closePara (st : BSt) (ln : Int) : Clean (closePara st ln) := by
  unfold closePara
  split
  · exact clean_nil
  · exact clean_cons.mpr ⟨rfl, clean_nil⟩

theorem clean_cls (l : List Ctr) (ln : Int) : Clean (l.map fun c => BOp.cls ln c.typ) := by
  intro o ho
  rcases List.mem_map.mp ho with ⟨c, _, rfl⟩
  rfl

theorem closeBlocks_clean (st : BSt) (keep : Nat) (ln : Int) (h : keep ≤ st.ctrs.length) :
    Clean (closeBlocks st keep ln).2 := by
  unfold closeBlocks
  simp only []
  exact clean_append.mpr ⟨clean_append.mpr ⟨clean_closePara st ln, clean_cls _ ln⟩,
    clean_guard _ (by simpa using h)⟩

theorem closeBlocks_ctrs (st : BSt) (keep : Nat) (ln : Int) :
    (closeBlocks st keep ln).1.ctrs = st.ctrs.take keep := rfl

theorem matchCont_le : ∀ (cs : List Ctr) (line : Bytes) (i : Nat),
    (matchCont cs line i).2 ≤ i + cs.length := by
  intro cs
  induction cs with
  | nil => intro line i; simp [matchCont]
  | cons c cs ih =>
    intro line i
    unfold matchCont
    split
    · split
      · have := ih (line.drop ‹Nat›) (i + 1); simp only [List.length_cons]; omega
      · simp only [List.length_cons]; omega
    · have := ih line (i + 1); simp only [List.length_cons]; omega
    · have := ih line (i + 1); simp only [List.length_cons]; omega
    · split
      · have := ih (line.drop c.indent) (i + 1); simp only [List.length_cons]; omega
      · simp only [List.length_cons]; omega

theorem unmatchedQuote_lt : ∀ (cs : List Ctr) (i m j : Nat),
    unmatchedQuote cs i m = some j → j < i + cs.length := by
  intro cs
  induction cs with
  | nil => intro i m j h; simp [unmatchedQuote] at h
  | cons c cs ih =>
    intro i m j h
    unfold unmatchedQuote at h
    split at h
    · injection h with h; subst h; simp only [List.length_cons]; omega
    · have := ih (i + 1) m j h; simp only [List.length_cons]; omega

theorem openNew_clean (ln : Int) : ∀ (cs : List Cont) (cl : Bool), Clean (openNew ln cl cs).2 := by
  intro cs
  induction cs with
  | nil => intro cl; exact clean_nil
  | cons c cs ih =>
    intro cl
    cases c with
    | quote =>
      simp only [openNew]
      exact clean_cons.mpr ⟨rfl, ih cl⟩
    | bullet p ind =>
      simp only [openNew]
      split
      · exact clean_cons.mpr ⟨rfl, ih false⟩
      · exact clean_cons.mpr ⟨rfl, clean_cons.mpr ⟨rfl, ih false⟩⟩
    | ordered p s ind =>
      simp only [openNew]
      split
      · exact clean_cons.mpr ⟨rfl, ih false⟩
      · exact clean_cons.mpr ⟨rfl, clean_cons.mpr ⟨rfl, ih false⟩⟩

theorem openNew_ne_nil (ln : Int) (c : Cont) (cs : List Cont) (cl : Bool) :
    (openNew ln cl (c :: cs)).1 ≠ [] := by
  cases c with
  | quote => simp [openNew]
  | bullet p ind => simp only [openNew]; split <;> simp
  | ordered p s ind => simp only [openNew]; split <;> simp

/-- what the main loop needs to know about `processContainerMarkers` -/
structure PMok (pm : PM) : Prop where
  clean : Clean pm.ops
  le : pm.matched ≤ pm.st.ctrs.length
  item : pm.newItem = true → 1 ≤ pm.st.ctrs.length

theorem adjustMatched_le (last : Option Ctr) (newCs : List Cont) (matched : Nat) :
    (adjustMatched last newCs matched).2 ≤ matched := by
  unfold adjustMatched
  split
  · split
    · dsimp only
      cases continueList _ newCs
      · exact Nat.sub_le _ _
      · exact Nat.le_refl _
    · exact Nat.le_refl _
  · exact Nat.le_refl _

theorem processMarkers_ok (st : BSt) (ln : Int) (line0 : Bytes) : PMok (processMarkers st ln line0) := by
  unfold processMarkers
  generalize hmc : matchCont st.ctrs line0 0 = mc
  have hle : mc.2 ≤ st.ctrs.length := by
    have := matchCont_le st.ctrs line0 0
    rw [hmc] at this
    simpa using this
  simp only []
  cases hsm : startingMarkers (mc.1.length + 1) mc.1 (st.para.isEmpty || mc.2 != st.ctrs.length) [] with
  | none => exact absurd hsm (startingMarkers_fuel _ _ _ _ (Nat.lt_succ_self _))
  | some sm =>
    simp only []
    have hg : Clean (guard (mc.2 == 0 || (if mc.2 > 0 then st.ctrs[mc.2 - 1]? else none).isSome)) := by
      apply clean_guard
      by_cases h0 : mc.2 = 0
      · simp [h0]
      · have hlt : mc.2 - 1 < st.ctrs.length := by omega
        have hpos : mc.2 > 0 := by omega
        simp [hpos, hlt]
    have hadj := adjustMatched_le (if mc.2 > 0 then st.ctrs[mc.2 - 1]? else none) sm.2 mc.2
    split
    · exact ⟨hg, by simp only []; omega, by intro h; cases h⟩
    · rename_i hne
      refine ⟨?_, ?_, ?_⟩
      · simp only []
        exact clean_append.mpr ⟨clean_append.mpr ⟨hg, closeBlocks_clean st _ ln (by omega)⟩,
          openNew_clean ln _ _⟩
      · simp only []; exact Nat.le_refl _
      · intro _
        simp only [List.length_append]
        cases hcs : sm.2 with
        | nil => simp [hcs] at hne
        | cons c cs =>
          have := openNew_ne_nil ln c cs (adjustMatched (if mc.2 > 0 then st.ctrs[mc.2 - 1]? else none) (c :: cs) mc.2).1
          have : 0 < (openNew ln (adjustMatched (if mc.2 > 0 then st.ctrs[mc.2 - 1]? else none) (c :: cs) mc.2).1 (c :: cs)).1.length :=
            List.length_pos_iff.mpr this
          omega

theorem leafStep_clean (pm : PM) (h : PMok pm) (ln : Int) (m : Mode) (ops : List BOp) (ho : Clean ops) :
    Clean (leafStep pm ln m ops).2 := by
  unfold leafStep
  exact clean_append.mpr ⟨clean_append.mpr ⟨h.clean, closeBlocks_clean _ _ _ h.le⟩, ho⟩

theorem clean_one (o : BOp) (h : o.bad = false) : Clean [o] := clean_cons.mpr ⟨h, clean_nil⟩

theorem blankStep_clean (pm : PM) (h : PMok pm) (ln : Int) (next : Option Bytes) :
    Clean (blankStep pm ln next).2 := by
  unfold blankStep
  simp only []
  refine clean_append.mpr ⟨clean_append.mpr ⟨h.clean, ?_⟩, clean_closePara _ _⟩
  cases hni : pm.newItem <;> cases next <;> simp only [] <;> first
    | exact clean_nil
    | (split
       · exact clean_append.mpr ⟨clean_guard _ (by simpa using h.item hni), closeBlocks_clean _ _ _ (by omega)⟩
       · exact clean_nil)

theorem stepNormal_clean (st : BSt) (ln : Int) (line0 : Bytes) (next : Option Bytes) :
    Clean (stepNormal st ln line0 next).2 := by
  unfold stepNormal
  have hpm := processMarkers_ok st ln line0
  generalize processMarkers st ln line0 = pm at hpm
  simp only []
  split
  · split
    · rename_i i hi
      have := unmatchedQuote_lt _ _ _ _ hi
      exact clean_append.mpr ⟨hpm.clean, closeBlocks_clean _ _ _ (by omega)⟩
    · exact blankStep_clean pm hpm ln next
  · split
    · exact leafStep_clean pm hpm ln _ _ (clean_one _ rfl)
    · split
      · exact leafStep_clean pm hpm ln _ _ (clean_one _ (by unfold headingOp; simp only []; split <;> rfl))
      · split
        · exact leafStep_clean pm hpm ln _ _ clean_nil
        · split
          · exact leafStep_clean pm hpm ln _ _ clean_nil
          · split
            · split
              · exact clean_append.mpr ⟨hpm.clean, closeBlocks_clean _ _ _ hpm.le⟩
              · exact hpm.clean
            · exact leafStep_clean pm hpm ln _ _ clean_nil
            · split
              · exact leafStep_clean pm hpm ln _ _ (clean_one _ rfl)
              · exact leafStep_clean pm hpm ln _ _ clean_nil

theorem endWith_clean (st : BSt) (ln : Int) (m : Nat) (op : BOp) (ho : op.bad = false) :
    Clean (endWith st ln (unmatchedQuote st.ctrs 0 m) op).2 := by
  unfold endWith
  split
  · rename_i i hi
    have := unmatchedQuote_lt _ _ _ _ hi
    exact clean_cons.mpr ⟨ho, closeBlocks_clean _ _ _ (by simp only []; omega)⟩
  · exact clean_one _ ho

theorem again_clean (st : BSt) (ln : Int) (line0 : Bytes) (next : Option Bytes) (op : BOp) (ho : op.bad = false) :
    Clean (again st ln line0 next op).2 := by
  unfold again
  exact clean_cons.mpr ⟨ho, stepNormal_clean _ _ _ _⟩

theorem stepBlk_clean (st : BSt) (ln : Int) (line0 : Bytes) (next : Option Bytes) :
    Clean (stepBlk st ln line0 next).2 := by
  unfold stepBlk
  simp only []
  split
  · exact stepNormal_clean _ _ _ _
  · split
    · exact endWith_clean _ _ _ _ rfl
    · split
      · exact again_clean _ _ _ _ _ rfl
      · split
        · split
          · exact clean_one _ rfl
          · exact clean_nil
        · exact clean_nil
  · split
    · split
      · exact endWith_clean _ _ _ _ rfl
      · exact clean_nil
    · split
      · exact again_clean _ _ _ _ _ rfl
      · exact clean_nil
  · split
    · split
      · exact endWith_clean _ _ _ _ rfl
      · exact clean_nil
    · split
      · exact again_clean _ _ _ _ _ rfl
      · split
        · exact clean_one _ rfl
        · exact clean_nil
  · split
    · exact endWith_clean _ _ _ _ rfl
    · split
      · exact again_clean _ _ _ _ _ rfl
      · exact clean_nil

theorem finish_clean (st : BSt) (ln : Int) : Clean (finish st ln) := by
  unfold finish
  refine clean_append.mpr ⟨?_, closeBlocks_clean _ _ _ (Nat.zero_le _)⟩
  split
  · exact clean_nil
  all_goals exact clean_one _ rfl

theorem blockLoop_clean : ∀ (lines : List Bytes) (st : BSt) (ln : Int), Clean (blockLoop st ln lines) := by
  intro lines
  induction lines with
  | nil => intro st ln; exact finish_clean st ln
  | cons l rest ih =>
    intro st ln
    unfold blockLoop
    exact clean_append.mpr ⟨stepBlk_clean _ _ _ _, ih _ _⟩

end C35
