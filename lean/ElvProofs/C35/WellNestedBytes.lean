/-
C35 — from tokens back to BYTES.  `scanB` is a byte-level stack scanner (a
Lean rendering of the Go oracle `malformedHTML`, harness/c35/c35.go: at `<`
read `/`?, the tag name, skip to `>`, `/>` = void; push / pop-and-compare;
outside tags `<`-less text, where `>` and `"` are errors).  On the
serialisation of SAFE tokens it computes exactly what the token-level stack
checker `balanced` computes (`scanB_flat`) — this is the precise sense in which
`Safe` makes the token boundaries visible in the bytes.
-/
import ElvProofs.C35.WellNestedDefs
namespace C35
open Go

inductive LexSt where
  | text
  | name (closing : Bool) (acc : Bytes)
  | attrs (closing : Bool) (name : Bytes) (lastSlash : Bool)

/-- stack effect of a complete tag -/
def endTag (st : List Bytes) (closing void : Bool) (name : Bytes) : Option (List Bytes) :=
  if void then some st
  else if closing then
    (match st with
     | t :: st' => if name == t then some st' else none
     | [] => none)
  else some (name :: st)

def scanB : List Bytes → LexSt → Bytes → Bool
  | st, .text, [] => st.isEmpty
  | _, .name _ _, [] => false
  | _, .attrs _ _ _, [] => false
  | st, .text, b :: r =>
    if b == 0x3C then scanB st (.name false []) r
    else if b == 0x3E || b == 0x22 then false
    else scanB st .text r
  | st, .name cl acc, b :: r =>
    if b == 0x2F && acc.isEmpty && !cl then scanB st (.name true []) r
    else if isAlnumB b then scanB st (.name cl (acc ++ [b])) r
    else if b == 0x3E then
      (match endTag st cl false acc with
       | some st' => scanB st' .text r
       | none => false)
    else if b == 0x20 then scanB st (.attrs cl acc false) r
    else false
  | st, .attrs cl name ls, b :: r =>
    if b == 0x3E then
      (match endTag st cl ls name with
       | some st' => scanB st' .text r
       | none => false)
    else if b == 0x3C then false
    else scanB st (.attrs cl name (b == 0x2F)) r

/-! ### chunk lemmas -/

theorem scan_text {s : Bytes} (hs : TextSafe s) (st : List Bytes) (r : Bytes) :
    scanB st .text (s ++ r) = scanB st .text r := by
  induction s with
  | nil => rfl
  | cons b s ih =>
    have hb := hs b (List.mem_cons_self ..)
    have h1 : (b == 0x3C) = false := by simp [hb.1]
    have h2 : (b == 0x3E) = false := by simp [hb.2.1]
    have h3 : (b == 0x22) = false := by simp [hb.2.2]
    rw [List.cons_append, scanB]
    simp only [h1, h2, h3, Bool.false_eq_true, if_false, Bool.or_self]
    exact ih (fun x hx => hs x (List.mem_cons_of_mem _ hx))

theorem alnum_not_slash : ∀ n : Fin 256, isAlnumB (UInt8.ofNat n.val) = true →
    ((UInt8.ofNat n.val) == 0x2F) = false := by decide +kernel

theorem scan_name {t : Bytes} (ht : t.all isAlnumB = true) (st : List Bytes) (cl : Bool) (acc r : Bytes) :
    scanB st (.name cl acc) (t ++ r) = scanB st (.name cl (acc ++ t)) r := by
  induction t generalizing acc with
  | nil => simp
  | cons b t ih =>
    simp only [List.all_cons, Bool.and_eq_true] at ht
    have h1 : (b == 0x2F) = false := by
      have := alnum_not_slash ⟨b.toNat, b.toNat_lt⟩
      simp only [UInt8.ofNat_toNat] at this
      exact this ht.1
    rw [List.cons_append, scanB]
    simp only [h1, ht.1, Bool.false_and, Bool.false_eq_true, if_false, if_true]
    rw [ih ht.2]
    simp

/-- is the last byte a `/` (`ls` if there is none) -/
def lastSl : Bool → Bytes → Bool
  | ls, [] => ls
  | _, b :: x => lastSl (b == 0x2F) x

theorem lastSl_concat (ls : Bool) (x : Bytes) (c : UInt8) : lastSl ls (x ++ [c]) = (c == 0x2F) := by
  induction x generalizing ls with
  | nil => rfl
  | cons b x ih => exact ih _

def NoAngle (x : Bytes) : Prop := ∀ b ∈ x, b ≠ 0x3C ∧ b ≠ 0x3E

theorem scan_attrs {x : Bytes} (hx : NoAngle x) (st : List Bytes) (cl : Bool) (n : Bytes) (ls : Bool)
    (r : Bytes) : scanB st (.attrs cl n ls) (x ++ r) = scanB st (.attrs cl n (lastSl ls x)) r := by
  induction x generalizing ls with
  | nil => rfl
  | cons b x ih =>
    have hb := hx b (List.mem_cons_self ..)
    have h1 : (b == 0x3C) = false := by simp [hb.1]
    have h2 : (b == 0x3E) = false := by simp [hb.2]
    rw [List.cons_append, scanB]
    simp only [h1, h2, Bool.false_eq_true, if_false]
    exact ih (fun y hy => hx y (List.mem_cons_of_mem _ hy)) _

/-! ### facts about the fixed name lists and attribute strings -/

theorem names_alnum : ∀ t ∈ tagNames ++ voidNames, t.all isAlnumB = true := by decide +kernel

theorem attrNames_noAngle : ∀ n ∈ attrNames, ∀ b ∈ n, b ≠ 0x3C ∧ b ≠ 0x3E := by decide +kernel

theorem attrsBytes_cons (h : Bytes × Bytes) (tl : List (Bytes × Bytes)) :
    attrsBytes (h :: tl) = [0x20] ++ (h.1 ++ [0x3D, 0x22] ++ h.2) ++ [0x22] ++ attrsBytes tl := by
  simp [attrsBytes, attrBytes, SP]

theorem attrsBytes_noAngle {a : List (Bytes × Bytes)} (ha : AttrsSafe a) : NoAngle (attrsBytes a) := by
  induction a with
  | nil => intro b hb; cases hb
  | cons h tl ih =>
    have hh := ha h (List.mem_cons_self ..)
    have htl := ih (fun x hx => ha x (List.mem_cons_of_mem _ hx))
    intro b hb
    rw [attrsBytes_cons] at hb
    simp only [List.mem_append, List.mem_cons, List.not_mem_nil, or_false] at hb
    rcases hb with ((hb | (hb | hb | hb) | hb) | hb) | hb
    · subst hb; decide
    · exact attrNames_noAngle _ hh.1 b hb
    · subst hb; decide
    · subst hb; decide
    · exact ⟨(hh.2 b hb).1, (hh.2 b hb).2.1⟩
    · subst hb; decide
    · exact htl b hb

/-- a non-empty attribute string is a space, …, a closing quote -/
theorem attrsBytes_shape (h : Bytes × Bytes) (tl : List (Bytes × Bytes)) :
    ∃ y, attrsBytes (h :: tl) = 0x20 :: (y ++ [0x22]) := by
  have key : ∀ (tl : List (Bytes × Bytes)) (pre : Bytes), ∃ y, pre ++ [0x22] ++ attrsBytes tl = y ++ [0x22] := by
    intro tl
    induction tl with
    | nil => intro pre; exact ⟨pre, by simp [attrsBytes]⟩
    | cons g tl ih =>
      intro pre
      obtain ⟨y, ey⟩ := ih (pre ++ [0x22] ++ [0x20] ++ (g.1 ++ [0x3D, 0x22] ++ g.2))
      refine ⟨y, ?_⟩
      rw [← ey, attrsBytes_cons]
      simp only [List.append_assoc]
  obtain ⟨y, ey⟩ := key tl (h.1 ++ [0x3D, 0x22] ++ h.2)
  refine ⟨y, ?_⟩
  rw [attrsBytes_cons, ← ey]
  simp only [List.append_assoc, List.cons_append, List.nil_append]

/-! ### one token -/

theorem scan_enter (st : List Bytes) (r : Bytes) :
    scanB st .text (0x3C :: r) = scanB st (.name false []) r := by
  rw [scanB]; simp

theorem scan_name_gt (st : List Bytes) (cl : Bool) (t r : Bytes) :
    scanB st (.name cl t) (0x3E :: r) =
      (match endTag st cl false t with
       | some st' => scanB st' .text r
       | none => false) := by
  rw [scanB]
  have h1 : isAlnumB 0x3E = false := by decide
  simp [h1]

theorem scan_name_sp (st : List Bytes) (cl : Bool) (t r : Bytes) :
    scanB st (.name cl t) (0x20 :: r) = scanB st (.attrs cl t false) r := by
  rw [scanB]
  have h1 : isAlnumB 0x20 = false := by decide
  simp [h1]

theorem scan_attrs_gt (st : List Bytes) (cl : Bool) (t : Bytes) (ls : Bool) (r : Bytes) :
    scanB st (.attrs cl t ls) (0x3E :: r) =
      (match endTag st cl ls t with
       | some st' => scanB st' .text r
       | none => false) := by
  rw [scanB]; simp

theorem scan_open {t : Bytes} {a : List (Bytes × Bytes)} (ht : t ∈ tagNames) (ha : AttrsSafe a)
    (st : List Bytes) (r : Bytes) :
    scanB st .text (Ev.bytes (.open t a) ++ r) = scanB (t :: st) .text r := by
  have hal := names_alnum t (List.mem_append_left _ ht)
  simp only [Ev.bytes, List.append_assoc, List.cons_append, List.nil_append]
  rw [scan_enter, scan_name hal, List.nil_append]
  cases a with
  | nil =>
    simp only [attrsBytes, List.flatMap_nil, List.nil_append]
    rw [scan_name_gt]
    simp [endTag]
  | cons h tl =>
    obtain ⟨y, ey⟩ := attrsBytes_shape h tl
    have hna := attrsBytes_noAngle ha
    rw [ey] at hna ⊢
    have hy : NoAngle (y ++ [0x22]) := fun b hb => hna b (List.mem_cons_of_mem _ hb)
    rw [List.cons_append, scan_name_sp, scan_attrs hy, lastSl_concat, scan_attrs_gt]
    simp [endTag]

theorem scan_void {t : Bytes} {a : List (Bytes × Bytes)} (ht : t ∈ voidNames) (ha : AttrsSafe a)
    (st : List Bytes) (r : Bytes) :
    scanB st .text (Ev.bytes (.void t a) ++ r) = scanB st .text r := by
  have hal := names_alnum t (List.mem_append_right _ ht)
  simp only [Ev.bytes, List.append_assoc, List.cons_append, List.nil_append]
  rw [scan_enter, scan_name hal, List.nil_append]
  cases a with
  | nil =>
    simp only [attrsBytes, List.flatMap_nil, List.nil_append]
    have e : (0x2F : UInt8) :: 0x3E :: r = [0x2F] ++ (0x3E :: r) := rfl
    rw [scan_name_sp, e,
      scan_attrs (x := [0x2F]) (by intro b hb; simp only [List.mem_singleton] at hb; subst hb; decide),
      scan_attrs_gt]
    simp [endTag, lastSl]
  | cons h tl =>
    obtain ⟨y, ey⟩ := attrsBytes_shape h tl
    have hna := attrsBytes_noAngle ha
    rw [ey] at hna ⊢
    have hy : NoAngle ((y ++ [0x22, 0x20]) ++ [0x2F]) := by
      intro b hb
      simp only [List.mem_append, List.mem_cons, List.not_mem_nil, or_false] at hb
      rcases hb with (hb | hb | hb) | hb
      · exact hna b (List.mem_cons_of_mem _ (List.mem_append_left _ hb))
      · subst hb; decide
      · subst hb; decide
      · subst hb; decide
    have e : (0x20 :: (y ++ [0x22])) ++ (0x20 :: 0x2F :: 0x3E :: r) =
        0x20 :: (((y ++ [0x22, 0x20]) ++ [0x2F]) ++ (0x3E :: r)) := by simp
    rw [e, scan_name_sp, scan_attrs hy, lastSl_concat, scan_attrs_gt]
    simp [endTag]

theorem scan_close {t : Bytes} (ht : t ∈ tagNames) (st : List Bytes) (r : Bytes) :
    scanB st .text (Ev.bytes (.close t) ++ r) =
      (match st with
       | t' :: st' => t == t' && scanB st' .text r
       | [] => false) := by
  have hal := names_alnum t (List.mem_append_left _ ht)
  simp only [Ev.bytes, List.append_assoc, List.cons_append, List.nil_append]
  rw [scan_enter]
  have h2 : scanB st (.name false []) (0x2F :: (t ++ 0x3E :: r)) = scanB st (.name true []) (t ++ 0x3E :: r) := by
    rw [scanB]; simp
  rw [h2, scan_name hal, List.nil_append, scan_name_gt]
  cases st with
  | nil => simp [endTag]
  | cons t' st' =>
    by_cases htt : t = t'
    · subst htt; simp [endTag]
    · have : (t == t') = false := by simp [htt]
      simp [endTag, this]

/-! ### all tokens -/

/-- on the serialisation of safe tokens the byte scanner and the token-level
stack checker agree -/
theorem scanB_flat {evs : List Ev} (hs : ∀ e ∈ evs, e.Safe) :
    ∀ st, scanB st .text (flat evs) = balanced st evs := by
  induction evs with
  | nil => intro st; rfl
  | cons e evs ih =>
    intro st
    have he := hs e (List.mem_cons_self ..)
    have ih' := ih (fun x hx => hs x (List.mem_cons_of_mem _ hx))
    have hf : flat (e :: evs) = Ev.bytes e ++ flat evs := by simp [flat]
    rw [hf]
    cases e with
    | text s => rw [balanced]; exact (scan_text he st _).trans (ih' st)
    | void t a => rw [balanced, scan_void he.1 he.2]; exact ih' st
    | «open» t a => rw [balanced, scan_open he.1 he.2]; exact ih' _
    | close t =>
      rw [scan_close he]
      cases st with
      | nil => rfl
      | cons t' st' =>
        rw [balanced]
        show (t == t' && scanB st' .text (flat evs)) = _
        rw [ih' st']

/-- a well-nested list of safe tokens serialises to bytes the scanner accepts -/
theorem scanB_of_wellNested {evs : List Ev} (hw : WellNested evs) (hs : ∀ e ∈ evs, e.Safe) :
    scanB [] .text (flat evs) = true := by
  rw [scanB_flat hs]; exact balanced_of_wellNested hw

end C35
