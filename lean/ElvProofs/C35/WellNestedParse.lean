/-
C35 — the reference's block phase only builds headings of level 1…6:
`parseBlocks_lvlOK : parseBlocks doc = some rs → lvlOKs rs = true`
(an invariant of the frame stack, preserved by every line).
-/
import ElvProofs.C35.WellNestedBlocks
namespace C35
open Go

theorem lvlOKs_append (a b : List Raw) : lvlOKs (a ++ b) = (lvlOKs a && lvlOKs b) := by
  simp [lvlOKs_eq_all]

theorem lvlOKs_reverse (a : List Raw) : lvlOKs a.reverse = lvlOKs a := by
  simp [lvlOKs_eq_all]

theorem lvlOKs_cons (r : Raw) (a : List Raw) : lvlOKs (r :: a) = (r.lvlOK && lvlOKs a) := by
  simp [lvlOKs]

theorem lvlOKs_replicate_blank (n : Nat) : lvlOKs (List.replicate n .blank) = true := by
  induction n with
  | zero => simp [lvlOKs]
  | succ n ih => simp [List.replicate_succ, lvlOKs, ih, Raw.lvlOK]

/-- every child collected so far, in every open container, is fine -/
def FOK (fs : List Frame) : Prop := ∀ f ∈ fs, lvlOKs f.kids = true

def SOK (st : BState) : Prop := FOK st.frames

theorem FOK.pushKid {r : List Raw} {fs : List Frame} (hr : lvlOKs r = true) (h : FOK fs) :
    FOK (pushKid r fs) := by
  cases fs with
  | nil => exact h
  | cons f fs =>
    intro g hg
    simp only [C35.pushKid, List.mem_cons] at hg
    rcases hg with rfl | hg
    · simp [lvlOKs_append, hr, h f (List.mem_cons_self ..)]
    · exact h g (List.mem_cons_of_mem _ hg)

theorem SOK.addKids {st : BState} {r : List Raw} (hr : lvlOKs r = true) (h : SOK st) :
    SOK (addKids st r) := FOK.pushKid hr h

theorem SOK.pushFrame {st : BState} (k : FKind) (h : SOK st) : SOK (pushFrame st k) := by
  intro g hg
  simp only [C35.pushFrame, List.mem_cons] at hg
  rcases hg with rfl | hg
  · rfl
  · exact h g hg

theorem SOK.closeLeaf {st : BState} (h : SOK st) : SOK (closeLeaf st) := by
  unfold C35.closeLeaf
  split
  · exact h
  · exact FOK.pushKid (by simp [lvlOKs, Raw.lvlOK]) h
  · exact FOK.pushKid (by simp [lvlOKs, Raw.lvlOK]) h
  · exact FOK.pushKid (by simp [lvlOKs_append, lvlOKs_replicate_blank, lvlOKs, Raw.lvlOK]) h

theorem frameToRaw_ok {f : Frame} (h : lvlOKs f.kids = true) : (frameToRaw f).lvlOK = true := by
  unfold frameToRaw
  split <;> simp [Raw.lvlOK, lvlOKs_reverse, h]

theorem SOK.closeTop {st : BState} (h : SOK st) : SOK (closeTop st) := by
  unfold C35.closeTop
  split
  · rename_i f g fs hfs
    have hf := h f (by rw [hfs]; simp)
    have hg := h g (by rw [hfs]; simp)
    intro x hx
    simp only [List.mem_cons] at hx
    rcases hx with rfl | hx
    · simp [lvlOKs_cons, frameToRaw_ok hf, hg]
    · exact h x (by rw [hfs]; simp [hx])
  · exact h

theorem SOK.closeDown : ∀ (fuel : Nat) {st : BState} (keep : Nat), SOK st → SOK (closeDown fuel st keep) := by
  intro fuel
  induction fuel with
  | zero => intro st keep h; exact h
  | succ n ih =>
    intro st keep h
    rw [C35.closeDown]
    split
    · exact ih keep h.closeLeaf.closeTop
    · exact h

theorem SOK.closeUnmatched {st : BState} (m : Nat) (h : SOK st) : SOK (closeUnmatched st m) :=
  SOK.closeDown _ _ h

theorem SOK.prepareBlock {st : BState} (m : Nat) (h : SOK st) : SOK (prepareBlock st m) := by
  have h1 : SOK (C35.closeLeaf (C35.closeUnmatched st m)) := (h.closeUnmatched m).closeLeaf
  unfold C35.prepareBlock
  simp only []
  split
  · split
    · exact h1.closeTop
    · exact h1
  · exact h1

theorem SOK.addText {st : BState} (m : Nat) (rest : Bytes) (h : SOK st) : SOK (addText st m rest) := by
  unfold C35.addText
  split
  · exact h
  · exact h.prepareBlock m

theorem SOK.finishBlank {st : BState} (m : Nat) (h : SOK st) : SOK (finishBlank st m) := by
  have h1 : SOK (C35.closeLeaf (C35.closeUnmatched st m)) := (h.closeUnmatched m).closeLeaf
  have hb : lvlOKs [.blank] = true := by simp [lvlOKs, Raw.lvlOK]
  unfold C35.finishBlank
  simp only []
  split
  · split
    · split
      · exact h1
      · exact h1.addKids hb
    · exact h1.addKids hb
  · exact h1

theorem atxHeading_lvl {line : Bytes} {k : Nat} {c : Bytes} (h : atxHeading line = some (k, c)) :
    1 ≤ k ∧ k ≤ 6 := by
  unfold atxHeading at h
  simp only [] at h
  split at h
  · cases h
  · split at h
    · cases h
    · rename_i hk
      have hk' : 1 ≤ countWhile (fun x => x == 0x23) (List.drop (leadingSpaces line) line) ∧
          countWhile (fun x => x == 0x23) (List.drop (leadingSpaces line) line) ≤ 6 := by
        simp only [Bool.or_eq_true, decide_eq_true_eq, not_or] at hk
        omega
      split at h
      · injection h with h; injection h with h1 _; omega
      · split at h
        · cases h
        · injection h with h; injection h with h1 _; omega

theorem SOK.openBlocks : ∀ (fuel : Nat) {st : BState} (m : Nat) (rest : Bytes),
    SOK st → SOK (openBlocks fuel st m rest) := by
  intro fuel
  induction fuel with
  | zero => intro st m rest h; exact h
  | succ n ih =>
    intro st m rest h
    rw [C35.openBlocks]
    simp only []
    split
    · exact h.finishBlank m
    split
    · split
      · exact h.addText m rest
      · exact h.prepareBlock m
    split
    · exact ih _ _ ((h.prepareBlock m).pushFrame _)
    split
    · rename_i lvl raw hat
      have := atxHeading_lvl hat
      exact (h.prepareBlock m).addKids (by simp [lvlOKs, Raw.lvlOK, this.1, this.2])
    split
    · exact h.prepareBlock m
    split
    · exact (h.prepareBlock m).addKids (by simp [lvlOKs, Raw.lvlOK])
    split
    · exact h.addText m rest
    split
    · exact h.addText m rest
    have h1 : SOK (C35.closeLeaf (C35.closeUnmatched st m)) := (h.closeUnmatched m).closeLeaf
    apply ih
    apply SOK.pushFrame
    split
    · split
      · split
        · exact h1
        · exact h1.closeTop.pushFrame _
      · exact h1.pushFrame _
    · exact h1

theorem SOK.stepLine {st : BState} (line : Bytes) (h : SOK st) : SOK (stepLine st line) := by
  unfold C35.stepLine
  simp only []
  split
  · split
    · split
      · exact h.closeLeaf
      · exact h
    · exact SOK.openBlocks _ _ _ (h.closeUnmatched _)
  · split
    · split
      · exact h
      · split
        · exact h
        · exact SOK.openBlocks _ _ _ h.closeLeaf
    · exact SOK.openBlocks _ _ _ (h.closeUnmatched _)
  · exact SOK.openBlocks _ _ _ h

theorem SOK.foldl_stepLine (ls : List Bytes) : ∀ {st : BState}, SOK st → SOK (ls.foldl C35.stepLine st) := by
  induction ls with
  | nil => intro st h; exact h
  | cons l ls ih => intro st h; exact ih (h.stepLine l)

/-- the block phase only produces heading levels 1…6 -/
theorem parseBlocks_lvlOK {doc : Bytes} {rs : List Raw} (h : parseBlocks doc = some rs) :
    lvlOKs rs = true := by
  unfold parseBlocks at h
  simp only [] at h
  have h0 : SOK { frames := [{ kind := .doc, kids := [] }], leaf := .none, fuelOut := false } := by
    intro f hf
    simp only [List.mem_singleton] at hf
    subst hf; rfl
  have h1 := ((SOK.foldl_stepLine (docLines doc) h0).closeUnmatched 0).closeLeaf
  split at h
  · cases h
  · split at h
    · rename_i f hf
      injection h with h
      subst h
      rw [lvlOKs_reverse]
      exact h1 f (by rw [hf]; simp)
    · cases h

end C35
