import ElvModel.C35.Block
import ElvProofs.C35.BlockConcat
namespace C35
open Go

/-! ### a top-level paragraph followed by a blank line is independent of what follows -/

/-- the first byte starts no block: not a space or tab, none of ``- _ * # ` ~ > + <``, not a digit -/
def plainFirst (c : UInt8) : Bool :=
  !(c == SP || c == 0x09 || c == 0x2D || c == 0x5F || c == 0x2A || c == 0x23 || c == 0x60 ||
    c == 0x7E || c == 0x3E || c == 0x2B || c == 0x3C || isDigitB c)

/-- a line that cannot start or continue anything but a paragraph -/
def PlainLine (l : Bytes) : Prop := ∃ c t, l = c :: t ∧ plainFirst c = true

structure PF (c : UInt8) : Prop where
  sp : (c == SP) = false
  tab : (c == 0x09) = false
  dash : (c == 0x2D) = false
  us : (c == 0x5F) = false
  star : (c == 0x2A) = false
  hash : (c == 0x23) = false
  bt : (c == 0x60) = false
  tilde : (c == 0x7E) = false
  gt : (c == 0x3E) = false
  plus : (c == 0x2B) = false
  lt : (c == 0x3C) = false
  dig : isDigitB c = false

theorem plainFirst_pf (c : UInt8) (h : plainFirst c = true) : PF c := by
  unfold plainFirst at h
  simp only [Bool.not_eq_true', Bool.or_eq_false_iff] at h
  obtain ⟨⟨⟨⟨⟨⟨⟨⟨⟨⟨⟨h1, h2⟩, h3⟩, h4⟩, h5⟩, h6⟩, h7⟩, h8⟩, h9⟩, h10⟩, h11⟩, h12⟩ := h
  exact ⟨h1, h2, h3, h4, h5, h6, h7, h8, h9, h10, h11, h12⟩

section
variable {c : UInt8} {t : Bytes} (h : PF c)
include h

theorem pl_leadingSpaces : leadingSpaces (c :: t) = 0 := by
  simp [leadingSpaces, countWhile, h.sp]

theorem pl_isBlank : isBlank (c :: t) = false := by
  simp [isBlank, h.sp, h.tab]

theorem pl_thematic : thematicBreakRe (c :: t) = false := by
  simp [thematicBreakRe, pl_leadingSpaces h, h.dash, h.us, h.star]

theorem pl_quote : blockquoteMarkerLen (c :: t) = none := by
  simp [blockquoteMarkerLen, pl_leadingSpaces h, h.gt]

theorem pl_itemPrefix : itemPrefix (c :: t) = none := by
  simp [itemPrefix, pl_leadingSpaces h, h.dash, h.plus, h.star, countWhile, h.dig]

theorem pl_itemMarker : itemMarkerRe (c :: t) = none := by
  simp [itemMarkerRe, pl_itemPrefix h]

theorem pl_itemMarkerBlank : itemMarkerBlankRe (c :: t) = none := by
  simp [itemMarkerBlankRe, pl_itemPrefix h]

theorem pl_markers (fuel : Nat) (np : Bool) :
    startingMarkers (fuel + 1) (c :: t) np [] = some (c :: t, []) := by
  unfold startingMarkers
  simp [pl_thematic h, pl_quote h, pl_itemMarker h, pl_itemMarkerBlank h]

theorem pl_atx : atxHeadingRe (c :: t) = none := by
  simp [atxHeadingRe, pl_leadingSpaces h, countWhile, h.hash]

theorem pl_fence : codeFenceRe (c :: t) = none := by
  simp [codeFenceRe, pl_leadingSpaces h, h.bt, h.tilde]

theorem pl_indented : startsWith (c :: t) (bs "    ") = false := by
  have : bs "    " = [SP, SP, SP, SP] := by decide +kernel
  simp [startsWith, this, List.isPrefixOf, h.sp, BEq.comm]

theorem pl_html (np : Bool) : htmlStartKind (c :: t) np = 0 := by
  have : afterLt (c :: t) = none := by
    simp only [afterLt, pl_leadingSpaces h, List.drop_zero]
    split
    · omega
    · split
      · rename_i t' heq
        injection heq with hc _
        have := h.lt
        simp [hc] at this
      · rfl
  simp [htmlStartKind, this]

theorem pl_trimLeft : trimLeftSpTab (c :: t) = c :: t := by
  simp [trimLeftSpTab, List.dropWhile, h.sp, h.tab]

end

/-- top level, paragraph lines `p` (most recent first) open, no leaf block open -/
def pst (p : List Bytes) : BSt := { ctrs := [], para := p, mode := .normal }

theorem processMarkers_plain {c : UInt8} {t : Bytes} (h : PF c) (p : List Bytes) (ln : Int) :
    processMarkers (pst p) ln (c :: t) =
      { st := pst p, line := c :: t, matched := 0, newItem := false, ops := [] } := by
  simp [processMarkers, pst, matchCont, pl_markers h, guard, adjustMatched]

theorem stepNormal_plain {c : UInt8} {t : Bytes} (h : PF c) (p : List Bytes) (ln : Int) (nx : Option Bytes) :
    stepNormal (pst p) ln (c :: t) nx = (pst ((c :: t) :: p), []) := by
  unfold stepNormal
  rw [processMarkers_plain h]
  cases p with
  | nil =>
    simp [pl_isBlank h, pl_thematic h, pl_atx h, pl_fence h, pl_indented h, pl_html h, pl_trimLeft h,
      closeBlocks, closePara, guard, pst]
  | cons q p =>
    simp [pl_isBlank h, pl_thematic h, pl_atx h, pl_fence h, pl_indented h, pl_html h, pl_trimLeft h, pst]

theorem stepBlk_plain {c : UInt8} {t : Bytes} (h : PF c) (p : List Bytes) (ln : Int) (nx : Option Bytes) :
    stepBlk (pst p) ln (c :: t) nx = (pst ((c :: t) :: p), []) := by
  have : stepBlk (pst p) ln (c :: t) nx = stepNormal (pst p) ln (c :: t) nx := by
    simp [stepBlk, pst]
  rw [this, stepNormal_plain h]

theorem markers_empty (np : Bool) : startingMarkers 1 [] np [] = some ([], []) := by
  cases np <;> decide

theorem stepBlk_blank (q : List Bytes) (hq : q ≠ []) (ln : Int) (nx : Option Bytes) :
    stepBlk (pst q) ln [] nx =
      (initSt, [.para (ln - (q.length : Int)) (trimSpTab (joinNL q.reverse))]) := by
  have e : stepBlk (pst q) ln [] nx = stepNormal (pst q) ln [] nx := by simp [stepBlk, pst]
  rw [e]
  have hq' : q.isEmpty = false := by cases q <;> simp_all
  simp [stepNormal, processMarkers, pst, matchCont, markers_empty, guard, adjustMatched, isBlank,
    unmatchedQuote, blankStep, closePara, hq', initSt]

/-- plain lines only accumulate in the open paragraph -/
theorem runLines_plain : ∀ (ls : List Bytes) (p : List Bytes) (ln : Int) (nx : Option Bytes),
    (∀ l ∈ ls, PlainLine l) → runLines (pst p) ln ls nx = (pst (ls.reverse ++ p), []) := by
  intro ls
  induction ls with
  | nil => intro p ln nx _; simp [runLines]
  | cons l ls ih =>
    intro p ln nx hl
    obtain ⟨c, t, rfl, hc⟩ := hl l (List.mem_cons_self ..)
    have h := plainFirst_pf c hc
    simp only [runLines, stepBlk_plain h]
    rw [ih _ _ _ (fun l hl' => hl l (List.mem_cons_of_mem _ hl'))]
    simp

theorem runLines_append : ∀ (a b : List Bytes) (st : BSt) (ln : Int) (nx : Option Bytes),
    runLines st ln (a ++ b) nx =
      ((runLines (runLines st ln a (b.head?.or nx)).1 (ln + (a.length : Int)) b nx).1,
       (runLines st ln a (b.head?.or nx)).2 ++
         (runLines (runLines st ln a (b.head?.or nx)).1 (ln + (a.length : Int)) b nx).2) := by
  intro a
  induction a with
  | nil => intro b st ln nx; simp [runLines]
  | cons l a ih =>
    intro b st ln nx
    have hh : (a ++ b).head?.or nx = a.head?.or (b.head?.or nx) := by cases a <;> simp
    simp only [List.cons_append, runLines, hh, ih, List.append_assoc, List.length_cons]
    have e : ln + 1 + (a.length : Int) = ln + ((a.length + 1 : Nat) : Int) := by omega
    rw [e]

/-- a paragraph of plain lines followed by an empty line: one `para` op, and
the parser is back in its initial state whatever comes next -/
theorem runLines_paragraph (ls : List Bytes) (hne : ls ≠ []) (hl : ∀ l ∈ ls, PlainLine l)
    (nx : Option Bytes) :
    runLines initSt 1 (ls ++ [[]]) nx = (initSt, [.para 1 (trimSpTab (joinNL ls))]) := by
  have hi : initSt = pst [] := rfl
  rw [runLines_append, hi, runLines_plain ls [] 1 _ hl]
  have hq : ls.reverse ≠ [] := by simp [hne]
  simp only [runLines, List.append_nil, List.nil_append]
  rw [stepBlk_blank _ hq]
  simp only [List.length_reverse, List.reverse_reverse]
  have e : (1 : Int) + (ls.length : Int) - (ls.length : Int) = 1 := by omega
  rw [e]
  rfl

end C35
