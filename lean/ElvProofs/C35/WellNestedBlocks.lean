/-
C35 — well-nestedness of the reference renderer, BLOCK level:
`renderRaws_ext`: whatever `renderRaws` appends to its accumulator is the
serialisation of a well-nested list of safe tokens — for every fuel, every
tight/loose mode and every `Raw` forest whose heading levels are 1…6
(`lvlOKs`; `parseBlocks` only builds such forests, see WellNestedParse).
-/
import ElvProofs.C35.WellNestedInline
namespace C35
open Go

/-! ### heading levels -/

mutual
def Raw.lvlOK : Raw → Bool
  | .heading lvl _ => decide (1 ≤ lvl) && decide (lvl ≤ 6)
  | .quote c => lvlOKs c
  | .list _ _ _ items => lvlOKs items
  | .item c => lvlOKs c
  | _ => true
def lvlOKs : List Raw → Bool
  | [] => true
  | r :: rs => r.lvlOK && lvlOKs rs
end

theorem lvlOKs_eq_all (rs : List Raw) : lvlOKs rs = rs.all Raw.lvlOK := by
  induction rs with
  | nil => simp [lvlOKs]
  | cons r rs ih => simp [lvlOKs, ih]

theorem lvlOKs_mem {rs : List Raw} (h : lvlOKs rs = true) {r : Raw} (hr : r ∈ rs) : r.lvlOK = true := by
  rw [lvlOKs_eq_all, List.all_eq_true] at h
  exact h r hr

/-! ### literal table -/

theorem lit_lt : bs "<" = [0x3C] := by decide +kernel
theorem lit_lts : bs "</" = [0x3C, 0x2F] := by decide +kernel
theorem lit_gtnl : bs ">\n" = [0x3E, NL] := by decide +kernel
theorem lit_p : bs "<p>" = Ev.bytes (.open (bs "p") []) := by decide +kernel
theorem lit_p_close : bs "</p>\n" = Ev.bytes (.close (bs "p")) ++ [NL] := by decide +kernel
theorem lit_hr : bs "<hr />\n" = Ev.bytes (.void (bs "hr") []) ++ [NL] := by decide +kernel
theorem lit_precode : bs "<pre><code" = Ev.bytes (.open (bs "pre") []) ++ ([0x3C] ++ bs "code") := by
  decide +kernel
theorem lit_precode_close :
    bs "</code></pre>\n" = Ev.bytes (.close (bs "code")) ++ (Ev.bytes (.close (bs "pre")) ++ [NL]) := by
  decide +kernel
theorem lit_class :
    bs " class=\"language-" = [SP] ++ bs "class" ++ [0x3D, 0x22] ++ bs "language-" := by decide +kernel
theorem language_valSafe : ValSafe (bs "language-") := by decide +kernel
theorem lit_bq : bs "<blockquote>\n" = Ev.bytes (.open (bs "blockquote") []) ++ [NL] := by decide +kernel
theorem lit_bq_close : bs "</blockquote>\n" = Ev.bytes (.close (bs "blockquote")) ++ [NL] := by
  decide +kernel
theorem lit_ul : bs "<ul>\n" = Ev.bytes (.open (bs "ul") []) ++ [NL] := by decide +kernel
theorem lit_ul_close : bs "</ul>\n" = Ev.bytes (.close (bs "ul")) ++ [NL] := by decide +kernel
theorem lit_ol : bs "<ol>\n" = Ev.bytes (.open (bs "ol") []) ++ [NL] := by decide +kernel
theorem lit_ol_close : bs "</ol>\n" = Ev.bytes (.close (bs "ol")) ++ [NL] := by decide +kernel
theorem lit_ol_start : bs "<ol start=\"" = [0x3C] ++ bs "ol" ++ ([SP] ++ bs "start" ++ [0x3D, 0x22]) := by
  decide +kernel
theorem lit_qgtnl : bs "\">\n" = [0x22, 0x3E, NL] := by decide +kernel
theorem lit_li : bs "<li>" = Ev.bytes (.open (bs "li") []) := by decide +kernel
theorem lit_li_close : bs "</li>\n" = Ev.bytes (.close (bs "li")) ++ [NL] := by decide +kernel

theorem heading_tag_mem {lvl : Nat} (h1 : 1 ≤ lvl) (h6 : lvl ≤ 6) :
    [0x68, UInt8.ofNat (48 + lvl)] ∈ tagNames := by
  obtain rfl | rfl | rfl | rfl | rfl | rfl : lvl = 1 ∨ lvl = 2 ∨ lvl = 3 ∨ lvl = 4 ∨ lvl = 5 ∨ lvl = 6 := by
    omega
  all_goals decide +kernel

theorem infoClass_attrs {info cls : Bytes} (h : infoClass info = some cls) :
    ∃ a, cls = attrsBytes a ∧ AttrsSafe a := by
  unfold infoClass at h
  split at h
  · cases h
  · rename_i i _
    simp only [Option.some.injEq] at h
    generalize List.takeWhile _ i = w at h
    subst h
    split
    · exact ⟨[], rfl, AttrsSafe.nil⟩
    · refine ⟨[(bs "class", bs "language-" ++ escHtml w)], ?_, ?_⟩
      · rw [lit_class, lit_q]; simp [attrsBytes, attrBytes]
      · exact AttrsSafe.single (by simp [attrNames]) (language_valSafe.append (escHtml_valSafe w))

/-! ### the accumulator only grows, by fragments -/

/-- `o'` is `o` with a fragment appended -/
def Ext (o o' : ROut) : Prop := ∃ b, o'.out = o.out ++ b ∧ Frag b

theorem Ext.refl' {o o' : ROut} (h : o'.out = o.out) : Ext o o' := ⟨[], by simp [h], Frag.nil⟩

theorem Ext.trans {a b c : ROut} (h1 : Ext a b) (h2 : Ext b c) : Ext a c := by
  obtain ⟨x, ex, fx⟩ := h1
  obtain ⟨y, ey, fy⟩ := h2
  exact ⟨x ++ y, by rw [ey, ex, List.append_assoc], fx.append fy⟩

theorem cr_frag (out : Bytes) : ∃ c, cr out = out ++ c ∧ Frag c := by
  unfold cr
  split
  · exact ⟨[], by simp, Frag.nil⟩
  · split
    · exact ⟨[], by simp, Frag.nil⟩
    · exact ⟨[NL], rfl, nl_frag⟩

/-- a leaf block: new line, then a fragment -/
theorem Ext.leaf {o o' : ROut} {x : Bytes} (h : o'.out = cr o.out ++ x) (hx : Frag x) : Ext o o' := by
  obtain ⟨c, ec, fc⟩ := cr_frag o.out
  exact ⟨c ++ x, by rw [h, ec, List.append_assoc], fc.append hx⟩

/-- a container block: new line, start tag, `pre`, whatever the inner
rendering appends, `mid`, end tag, `post` -/
theorem Ext.container {o oin o1 o2 : ROut} {t : Bytes} {a : List (Bytes × Bytes)} {pre mid post : Bytes}
    (ht : t ∈ tagNames) (ha : AttrsSafe a) (hpre : Frag pre) (hmid : Frag mid) (hpost : Frag post)
    (hin : oin.out = cr o.out ++ (Ev.bytes (.open t a) ++ pre))
    (h : Ext oin o1)
    (hout : o2.out = o1.out ++ (mid ++ (Ev.bytes (.close t) ++ post))) : Ext o o2 := by
  obtain ⟨c, ec, fc⟩ := cr_frag o.out
  obtain ⟨b, eb, fb⟩ := h
  refine ⟨c ++ ((Ev.bytes (.open t a) ++ (pre ++ b ++ mid) ++ Ev.bytes (.close t)) ++ post), ?_, ?_⟩
  · rw [hout, eb, hin, ec]; simp only [List.append_assoc]
  · exact fc.append ((Frag.wrap ht ha ((hpre.append fb).append hmid)).append hpost)

theorem foldl_ext {α : Type} (f : ROut → α → ROut) (l : List α)
    (h : ∀ o, ∀ r ∈ l, Ext o (f o r)) : ∀ o, Ext o (l.foldl f o) := by
  induction l with
  | nil => intro o; exact Ext.refl' rfl
  | cons x xs ih =>
    intro o
    rw [List.foldl_cons]
    exact (h o x (List.mem_cons_self ..)).trans
      (ih (fun o r hr => h o r (List.mem_cons_of_mem _ hr)) _)

/-! ### the step functions of `renderRaws`, named -/

def itemStep (U : UClass) (loose : Bool) (fuel : Nat) (t : Bool) (o : ROut) (it : Raw) : ROut :=
  match it with
  | .item c =>
    let o2 := renderRaws U loose fuel t c
      { o with out := cr o.out ++ bs "<li>" ++ (if loose then [NL] else []) }
    { o2 with out := (if loose then cr o2.out else o2.out) ++ bs "</li>\n" }
  | _ => o

def olOpen (start : Nat) : Bytes :=
  if start == 1 then bs "<ol>\n" else bs "<ol start=\"" ++ bs (toString start) ++ bs "\">\n"

def rawStep (U : UClass) (loose : Bool) (fuel : Nat) (tight : Bool) (o : ROut) (r : Raw) : ROut :=
  match r with
  | .blank => o
  | .para lines =>
    match parseInlines U (paraText lines) with
    | none => { o with bad := true }
    | some inl =>
      let h := inlHtml loose (fuel + (paraText lines).length) inl
      if tight then { o with out := o.out ++ h }
      else { o with out := cr o.out ++ bs "<p>" ++ h ++ bs "</p>\n" }
  | .heading lvl raw =>
    match parseInlines U raw with
    | none => { o with bad := true }
    | some inl =>
      let tag := [0x68, UInt8.ofNat (48 + lvl)]
      { o with out := cr o.out ++ bs "<" ++ tag ++ bs ">" ++ inlHtml loose (fuel + raw.length) inl ++
                      bs "</" ++ tag ++ bs ">\n" }
  | .hr => { o with out := cr o.out ++ bs "<hr />\n" }
  | .code info lines =>
    match infoClass info with
    | none => { o with bad := true }
    | some cls =>
      { o with out := cr o.out ++ bs "<pre><code" ++ cls ++ bs ">" ++
                      lines.flatMap (fun l => escHtml l ++ [NL]) ++ bs "</code></pre>\n" }
  | .quote c =>
    let o1 := renderRaws U loose fuel false c { o with out := cr o.out ++ bs "<blockquote>\n" }
    { o1 with out := cr o1.out ++ bs "</blockquote>\n" }
  | .list ordered start _ items =>
    let t := !loose && !(looseItems fuel items)
    let openTag := if ordered then olOpen start else bs "<ul>\n"
    let o1 := items.foldl (itemStep U loose fuel t) { o with out := cr o.out ++ openTag }
    { o1 with out := cr o1.out ++ (if ordered then bs "</ol>\n" else bs "</ul>\n") }
  | .item _ => o

theorem renderRaws_zero (U : UClass) (loose tight : Bool) (rs : List Raw) (o : ROut) :
    renderRaws U loose 0 tight rs o = { o with bad := true } := by
  rw [renderRaws]

theorem renderRaws_succ (U : UClass) (loose : Bool) (fuel : Nat) (tight : Bool) (rs : List Raw) (o : ROut) :
    renderRaws U loose (fuel + 1) tight rs o = rs.foldl (rawStep U loose fuel tight) o := by
  rw [renderRaws]
  rfl

/-! ### the steps extend by fragments -/

section
variable (U : UClass) (loose : Bool) (n : Nat)
  (ih : ∀ (tight : Bool) (rs : List Raw) (o : ROut), lvlOKs rs = true → Ext o (renderRaws U loose n tight rs o))
include ih

theorem itemStep_ext (t : Bool) (o : ROut) (it : Raw) (hit : it.lvlOK = true) :
    Ext o (itemStep U loose n t o it) := by
  cases it with
  | item c =>
    have hc : lvlOKs c = true := by simpa [Raw.lvlOK] using hit
    simp only [itemStep]
    obtain ⟨c1, ec1, fc1⟩ := cr_frag
      (renderRaws U loose n t c { o with out := cr o.out ++ bs "<li>" ++ (if loose then [NL] else []) }).out
    refine Ext.container (t := bs "li") (a := []) (pre := if loose then [NL] else [])
      (mid := if loose then c1 else []) (post := [NL]) (by simp [tagNames]) AttrsSafe.nil ?_ ?_ nl_frag
      ?_ (ih t c { o with out := cr o.out ++ bs "<li>" ++ (if loose then [NL] else []) } hc) ?_
    · split
      · exact nl_frag
      · exact Frag.nil
    · split
      · exact fc1
      · exact Frag.nil
    · simp only [lit_li, List.append_assoc]
    · cases loose
      · simp only [lit_li_close, Bool.false_eq_true, if_false, List.nil_append]
      · simp only [if_true, List.append_assoc] at ec1
        simp only [lit_li_close, if_true, List.append_assoc]
        rw [ec1, List.append_assoc]
  | _ => exact Ext.refl' rfl

theorem rawStep_ext (tight : Bool) (o : ROut) (r : Raw) (hr : r.lvlOK = true) :
    Ext o (rawStep U loose n tight o r) := by
  cases r with
  | blank => exact Ext.refl' rfl
  | item c => exact Ext.refl' rfl
  | hr =>
    refine Ext.leaf (x := bs "<hr />\n") rfl ?_
    rw [lit_hr]
    exact (Frag.void (by simp [voidNames]) AttrsSafe.nil).append nl_frag
  | para lines =>
    simp only [rawStep]
    split
    · exact Ext.refl' rfl
    · rename_i inl _
      split
      · exact ⟨_, rfl, inl_frag loose _ inl⟩
      · refine Ext.leaf (x := bs "<p>" ++ inlHtml loose (n + (paraText lines).length) inl ++ bs "</p>\n")
          (by simp only [List.append_assoc]) ?_
        rw [lit_p, lit_p_close, ← List.append_assoc]
        exact (Frag.wrap (by simp [tagNames]) AttrsSafe.nil (inl_frag loose _ inl)).append nl_frag
  | heading lvl raw =>
    have h16 : 1 ≤ lvl ∧ lvl ≤ 6 := by simpa [Raw.lvlOK] using hr
    simp only [rawStep]
    split
    · exact Ext.refl' rfl
    · rename_i inl _
      refine Ext.leaf (x := (Ev.bytes (.open [0x68, UInt8.ofNat (48 + lvl)] []) ++
          inlHtml loose (n + raw.length) inl ++ Ev.bytes (.close [0x68, UInt8.ofNat (48 + lvl)])) ++ [NL])
        ?_ ?_
      · simp only [lit_lt, lit_lts, lit_gt, lit_gtnl]
        simp [Ev.bytes, attrsBytes]
      · exact (Frag.wrap (heading_tag_mem h16.1 h16.2) AttrsSafe.nil (inl_frag loose _ inl)).append nl_frag
  | code info lines =>
    simp only [rawStep]
    split
    · exact Ext.refl' rfl
    · rename_i cls hcls
      obtain ⟨a, ea, sa⟩ := infoClass_attrs hcls
      refine Ext.leaf (x := (Ev.bytes (.open (bs "pre") []) ++ (Ev.bytes (.open (bs "code") a) ++
          lines.flatMap (fun l => escHtml l ++ [NL]) ++ Ev.bytes (.close (bs "code"))) ++
          Ev.bytes (.close (bs "pre"))) ++ [NL]) ?_ ?_
      · simp only [lit_precode, lit_precode_close, lit_gt, ea]
        simp [Ev.bytes, attrsBytes]
      · refine (Frag.wrap (by simp [tagNames]) AttrsSafe.nil
          (Frag.wrap (by simp [tagNames]) sa (flatMap_frag _ _ (fun l _ => ?_)))).append nl_frag
        exact Frag.text ((escHtml_valSafe l).textSafe.append (by decide))
  | quote c =>
    have hc : lvlOKs c = true := by simpa [Raw.lvlOK] using hr
    simp only [rawStep]
    obtain ⟨c1, ec1, fc1⟩ := cr_frag
      (renderRaws U loose n false c { o with out := cr o.out ++ bs "<blockquote>\n" }).out
    refine Ext.container (t := bs "blockquote") (a := []) (pre := [NL]) (mid := c1) (post := [NL])
      (by simp [tagNames]) AttrsSafe.nil nl_frag fc1 nl_frag ?_
      (ih false c { o with out := cr o.out ++ bs "<blockquote>\n" } hc) ?_
    · simp only [lit_bq]
    · simp only [lit_bq_close, ec1, List.append_assoc]
  | list ordered start delim items =>
    have hitems : lvlOKs items = true := by simpa [Raw.lvlOK] using hr
    simp only [rawStep]
    generalize (!loose && !looseItems n items) = t
    have hfold : ∀ o, Ext o (items.foldl (itemStep U loose n t) o) :=
      foldl_ext _ _ (fun o it hit => itemStep_ext U loose n ih t o it (lvlOKs_mem hitems hit))
    cases ordered
    · -- bullet list
      simp only [Bool.false_eq_true, if_false]
      obtain ⟨c1, ec1, fc1⟩ := cr_frag
        (items.foldl (itemStep U loose n t) { o with out := cr o.out ++ bs "<ul>\n" }).out
      refine Ext.container (t := bs "ul") (a := []) (pre := [NL]) (mid := c1) (post := [NL])
        (by simp [tagNames]) AttrsSafe.nil nl_frag fc1 nl_frag ?_
        (hfold { o with out := cr o.out ++ bs "<ul>\n" }) ?_
      · simp only [lit_ul]
      · simp only [lit_ul_close, ec1, List.append_assoc]
    · simp only [if_true]
      obtain ⟨c1, ec1, fc1⟩ := cr_frag
        (items.foldl (itemStep U loose n t) { o with out := cr o.out ++ olOpen start }).out
      by_cases hs : (start == 1) = true
      · refine Ext.container (t := bs "ol") (a := []) (pre := [NL]) (mid := c1) (post := [NL])
          (by simp [tagNames]) AttrsSafe.nil nl_frag fc1 nl_frag ?_
          (hfold { o with out := cr o.out ++ olOpen start }) ?_
        · simp only [olOpen, hs, if_true, lit_ol]
        · simp only [lit_ol_close, ec1, List.append_assoc]
      · refine Ext.container (t := bs "ol") (a := [(bs "start", bs (toString start))]) (pre := [NL])
          (mid := c1) (post := [NL]) (by simp [tagNames])
          (AttrsSafe.single (by simp [attrNames]) (digits_safe start)) nl_frag fc1 nl_frag ?_
          (hfold { o with out := cr o.out ++ olOpen start }) ?_
        · simp only [olOpen, hs, lit_ol_start, lit_qgtnl]
          simp [Ev.bytes, attrsBytes, attrBytes]
        · simp only [lit_ol_close, ec1, List.append_assoc]

end

/-- BLOCK LEVEL: `renderRaws` only ever appends a fragment (a well-nested
list of safe tokens) to its accumulator -/
theorem renderRaws_ext (U : UClass) (loose : Bool) : ∀ (fuel : Nat) (tight : Bool) (rs : List Raw) (o : ROut),
    lvlOKs rs = true → Ext o (renderRaws U loose fuel tight rs o) := by
  intro fuel
  induction fuel with
  | zero => intro tight rs o _; rw [renderRaws_zero]; exact Ext.refl' rfl
  | succ n ih =>
    intro tight rs o hrs
    rw [renderRaws_succ]
    exact foldl_ext _ _ (fun o r hr => rawStep_ext U loose n ih tight o r (lvlOKs_mem hrs hr)) o

end C35
