import ElvModel.C35.Block
namespace C35
open Go

/-! ### the block phase is invariant under a shift of the line numbers -/

def BOp.shift (k : Int) : BOp → BOp
  | .hr ln => .hr (ln + k)
  | .heading ln lvl t a => .heading (ln + k) lvl t a
  | .code ln i ls => .code (ln + k) i ls
  | .html ln ls => .html (ln + k) ls
  | .para ln t => .para (ln + k) t
  | .opn ln t n => .opn (ln + k) t n
  | .cls ln t => .cls (ln + k) t
  | .fuel => .fuel
  | .panic => .panic

def Mode.shift (k : Int) : Mode → Mode
  | .normal => .normal
  | .fenced sl i c n info ls => .fenced (sl + k) i c n info ls
  | .indented sl ls sv => .indented (sl + k) ls sv
  | .htmlC sl kd ls sv => .htmlC (sl + k) kd ls sv
  | .htmlB sl ls => .htmlB (sl + k) ls

def BSt.shift (k : Int) (st : BSt) : BSt := { st with mode := st.mode.shift k }

/-- a step result with shifted line numbers -/
def shiftR (k : Int) (r : BSt × List BOp) : BSt × List BOp := (r.1.shift k, r.2.map (BOp.shift k))

@[simp] theorem BSt.shift_ctrs (k : Int) (st : BSt) : (st.shift k).ctrs = st.ctrs := rfl
@[simp] theorem BSt.shift_para (k : Int) (st : BSt) : (st.shift k).para = st.para := rfl
@[simp] theorem BSt.shift_mode (k : Int) (st : BSt) : (st.shift k).mode = st.mode.shift k := rfl

theorem guard_shift (k : Int) (b : Bool) : (guard b).map (BOp.shift k) = guard b := by
  cases b <;> rfl

theorem closePara_shift (k : Int) (st : BSt) (ln : Int) :
    closePara (st.shift k) (ln + k) = (closePara st ln).map (BOp.shift k) := by
  unfold closePara
  by_cases h : st.para.isEmpty = true
  · simp [h]
  · have e : ln + k - (st.para.length : Int) = ln - (st.para.length : Int) + k := by omega
    simp [h, BOp.shift, e]

theorem closeBlocks_shift (k : Int) (st : BSt) (keep : Nat) (ln : Int) :
    closeBlocks (st.shift k) keep (ln + k) = shiftR k (closeBlocks st keep ln) := by
  unfold closeBlocks shiftR
  simp only [BSt.shift_ctrs, closePara_shift, List.map_append, guard_shift, List.map_map]
  rfl

theorem openNew_shift (k : Int) (ln : Int) : ∀ (cs : List Cont) (cl : Bool),
    openNew (ln + k) cl cs = ((openNew ln cl cs).1, (openNew ln cl cs).2.map (BOp.shift k)) := by
  intro cs
  induction cs with
  | nil => intro cl; rfl
  | cons c cs ih =>
    intro cl
    cases c with
    | quote =>
      simp only [openNew]
      rw [ih cl]
      rfl
    | bullet p ind =>
      simp only [openNew]
      rw [ih false]
      cases cl <;> rfl
    | ordered p s ind =>
      simp only [openNew]
      rw [ih false]
      cases cl <;> rfl

def PM.shift (k : Int) (pm : PM) : PM :=
  { pm with st := pm.st.shift k, ops := pm.ops.map (BOp.shift k) }

theorem processMarkers_shift (k : Int) (st : BSt) (ln : Int) (line0 : Bytes) :
    processMarkers (st.shift k) (ln + k) line0 = (processMarkers st ln line0).shift k := by
  unfold processMarkers
  dsimp only [BSt.shift_ctrs, BSt.shift_para]
  generalize matchCont st.ctrs line0 0 = mc
  generalize startingMarkers _ _ _ _ = r
  cases r with
  | none => rfl
  | some sm =>
    simp only []
    by_cases he : sm.2.isEmpty = true
    · simp only [he, if_true, PM.shift, guard_shift]
    · simp only [he, Bool.false_eq_true, if_false, PM.shift, closeBlocks_shift, openNew_shift, shiftR,
        List.map_append, guard_shift]
      rfl

theorem leafStep_shift (k : Int) (pm : PM) (ln : Int) (m : Mode) (ops : List BOp) :
    leafStep (pm.shift k) (ln + k) (m.shift k) (ops.map (BOp.shift k)) = shiftR k (leafStep pm ln m ops) := by
  unfold leafStep
  simp only [PM.shift, closeBlocks_shift, shiftR, List.map_append]
  rfl

theorem blankStep_shift (k : Int) (pm : PM) (ln : Int) (next : Option Bytes) :
    blankStep (pm.shift k) (ln + k) next = shiftR k (blankStep pm ln next) := by
  unfold blankStep
  cases hni : pm.newItem <;> cases next <;>
    simp only [PM.shift, hni, shiftR, List.map_append, closePara_shift, BSt.shift_ctrs,
      List.append_nil] <;> try rfl
  split
  · simp only [closeBlocks_shift, shiftR, List.map_append, guard_shift, closePara_shift]
    rfl
  · simp only [List.map_nil, List.append_nil, closePara_shift]
    rfl

theorem headingOp_shift (k : Int) (ln : Int) (line : Bytes) (e l : Nat) :
    headingOp (ln + k) line e l = (headingOp ln line e l).shift k := by
  unfold headingOp
  simp only []
  split <;> rfl

theorem stepNormal_shift (k : Int) (st : BSt) (ln : Int) (line0 : Bytes) (next : Option Bytes) :
    stepNormal (st.shift k) (ln + k) line0 next = shiftR k (stepNormal st ln line0 next) := by
  unfold stepNormal
  rw [processMarkers_shift]
  generalize processMarkers st ln line0 = pm
  have e1 : (pm.shift k).line = pm.line := rfl
  have e2 : (pm.shift k).matched = pm.matched := rfl
  have e3 : (pm.shift k).st = pm.st.shift k := rfl
  have e4 : (pm.shift k).ops = pm.ops.map (BOp.shift k) := rfl
  simp only [e1, e2]
  by_cases hb : isBlank pm.line = true
  · simp only [hb, if_true]
    rw [e3, BSt.shift_ctrs]
    cases unmatchedQuote pm.st.ctrs 0 pm.matched with
    | some i => simp only [e4, closeBlocks_shift, shiftR, List.map_append]
    | none => exact blankStep_shift k pm ln next
  · simp only [hb, Bool.false_eq_true, if_false]
    by_cases ht : thematicBreakRe pm.line = true
    · simp only [ht, if_true]
      exact leafStep_shift k pm ln .normal [.hr ln]
    · simp only [ht, Bool.false_eq_true, if_false]
      cases atxHeadingRe pm.line with
      | some p =>
        obtain ⟨e, l⟩ := p
        simp only [headingOp_shift]
        exact leafStep_shift k pm ln .normal [headingOp ln pm.line e l]
      | none =>
        simp only []
        cases codeFenceRe pm.line with
        | some p =>
          obtain ⟨a, b, c, d⟩ := p
          exact leafStep_shift k pm ln (.fenced ln a c b (trimSpTab (processInfo 0 d)) []) []
        | none =>
          simp only [e3, BSt.shift_para]
          by_cases hi : (pm.st.para.isEmpty && startsWith pm.line (bs "    ")) = true
          · simp only [hi, if_true]
            exact leafStep_shift k pm ln (.indented ln [pm.line.drop 4] []) []
          · simp only [hi, Bool.false_eq_true, if_false]
            generalize htk : htmlStartKind pm.line pm.st.para.isEmpty = hk
            match hk with
            | 0 =>
              simp only []
              by_cases hp : pm.st.para.isEmpty = true
              · simp only [hp, if_true, e4, closeBlocks_shift, shiftR, List.map_append]
                rfl
              · simp only [hp, Bool.false_eq_true, if_false, e4, shiftR]
                rfl
            | 6 => exact leafStep_shift k pm ln (.htmlB ln [pm.line]) []
            | 1 | 2 | 3 | 4 | 5 | (n + 7) =>
              simp only []
              split
              · exact leafStep_shift k pm ln .normal [.html ln [pm.line]]
              · exact leafStep_shift k pm ln (.htmlC ln _ [pm.line] []) []

theorem endWith_shift (k : Int) (st : BSt) (ln : Int) (uq : Option Nat) (op : BOp) :
    endWith (st.shift k) (ln + k) uq (op.shift k) = shiftR k (endWith st ln uq op) := by
  unfold endWith
  cases uq with
  | none => rfl
  | some i =>
    have e : ({ st.shift k with mode := Mode.normal } : BSt) = BSt.shift k { st with mode := .normal } := rfl
    simp only [e, closeBlocks_shift, shiftR, List.map_cons]

theorem again_shift (k : Int) (st : BSt) (ln : Int) (line0 : Bytes) (next : Option Bytes) (op : BOp) :
    again (st.shift k) (ln + k) line0 next (op.shift k) = shiftR k (again st ln line0 next op) := by
  unfold again
  have e : ({ st.shift k with mode := Mode.normal } : BSt) = BSt.shift k { st with mode := .normal } := rfl
  simp only [e, stepNormal_shift, shiftR, List.map_cons]

theorem stepBlk_shift (k : Int) (st : BSt) (ln : Int) (line0 : Bytes) (next : Option Bytes) :
    stepBlk (st.shift k) (ln + k) line0 next = shiftR k (stepBlk st ln line0 next) := by
  obtain ⟨ctrs, para, mode⟩ := st
  cases mode with
  | normal => exact stepNormal_shift k _ ln line0 next
  | fenced sl indent ch n info lines =>
    unfold stepBlk
    simp only [BSt.shift, Mode.shift]
    have hE := endWith_shift k ⟨ctrs, para, .fenced sl indent ch n info lines⟩ ln (unmatchedQuote ctrs 0 (matchCont ctrs line0 0).2) (.code sl info lines.reverse)
    have hA := again_shift k ⟨ctrs, para, .fenced sl indent ch n info lines⟩ ln line0 next (.code sl info lines.reverse)
    simp only [BSt.shift, Mode.shift, BOp.shift] at hE hA
    by_cases h1 : (isBlank (matchCont ctrs line0 0).1 && (unmatchedQuote ctrs 0 (matchCont ctrs line0 0).2).isSome) = true
    · simp only [h1, if_true]; exact hE
    · simp only [h1, Bool.false_eq_true, if_false]
      by_cases h2 : (!isBlank (matchCont ctrs line0 0).1 && Nat.blt (matchCont ctrs line0 0).2 ctrs.length) = true
      · simp only [h2, if_true]; exact hA
      · simp only [h2, Bool.false_eq_true, if_false]
        cases fenceCloserRe (matchCont ctrs line0 0).1 with
        | none => rfl
        | some p =>
          obtain ⟨c, kk⟩ := p
          simp only []
          by_cases h3 : (c == ch && Nat.ble n kk) = true
          · simp only [h3, if_true]; rfl
          · simp only [h3, Bool.false_eq_true, if_false]; rfl
  | indented sl lines saved =>
    unfold stepBlk
    simp only [BSt.shift, Mode.shift]
    have hE := endWith_shift k ⟨ctrs, para, .indented sl lines saved⟩ ln (unmatchedQuote ctrs 0 (matchCont ctrs line0 0).2) (.code sl [] lines.reverse)
    have hA := again_shift k ⟨ctrs, para, .indented sl lines saved⟩ ln line0 next (.code sl [] lines.reverse)
    simp only [BSt.shift, Mode.shift, BOp.shift] at hE hA
    by_cases h1 : isBlank (matchCont ctrs line0 0).1 = true
    · simp only [h1, if_true]
      by_cases h2 : (unmatchedQuote ctrs 0 (matchCont ctrs line0 0).2).isSome = true
      · simp only [h2, if_true]; exact hE
      · simp only [h2, Bool.false_eq_true, if_false]; rfl
    · simp only [h1, Bool.false_eq_true, if_false]
      by_cases h2 : (Nat.blt (matchCont ctrs line0 0).2 ctrs.length || !startsWith (matchCont ctrs line0 0).1 (bs "    ")) = true
      · simp only [h2, if_true]; exact hA
      · simp only [h2, Bool.false_eq_true, if_false]; rfl
  | htmlC sl kind lines saved =>
    unfold stepBlk
    simp only [BSt.shift, Mode.shift]
    have hE := endWith_shift k ⟨ctrs, para, .htmlC sl kind lines saved⟩ ln (unmatchedQuote ctrs 0 (matchCont ctrs line0 0).2) (.html sl lines.reverse)
    have hA := again_shift k ⟨ctrs, para, .htmlC sl kind lines saved⟩ ln line0 next (.html sl lines.reverse)
    simp only [BSt.shift, Mode.shift, BOp.shift] at hE hA
    by_cases h1 : isBlank (matchCont ctrs line0 0).1 = true
    · simp only [h1, if_true]
      by_cases h2 : (unmatchedQuote ctrs 0 (matchCont ctrs line0 0).2).isSome = true
      · simp only [h2, if_true]; exact hE
      · simp only [h2, Bool.false_eq_true, if_false]; rfl
    · simp only [h1, Bool.false_eq_true, if_false]
      by_cases h2 : Nat.blt (matchCont ctrs line0 0).2 ctrs.length = true
      · simp only [h2, if_true]; exact hA
      · simp only [h2, Bool.false_eq_true, if_false]
        by_cases h3 : htmlCloser kind (matchCont ctrs line0 0).1 = true
        · simp only [h3, if_true]; rfl
        · simp only [h3, Bool.false_eq_true, if_false]; rfl
  | htmlB sl lines =>
    unfold stepBlk
    simp only [BSt.shift, Mode.shift]
    have hE := endWith_shift k ⟨ctrs, para, .htmlB sl lines⟩ ln (unmatchedQuote ctrs 0 (matchCont ctrs line0 0).2) (.html sl lines.reverse)
    have hA := again_shift k ⟨ctrs, para, .htmlB sl lines⟩ ln line0 next (.html sl lines.reverse)
    simp only [BSt.shift, Mode.shift, BOp.shift] at hE hA
    by_cases h1 : isBlank (matchCont ctrs line0 0).1 = true
    · simp only [h1, if_true]; exact hE
    · simp only [h1, Bool.false_eq_true, if_false]
      by_cases h2 : Nat.blt (matchCont ctrs line0 0).2 ctrs.length = true
      · simp only [h2, if_true]; exact hA
      · simp only [h2, Bool.false_eq_true, if_false]; rfl

theorem finish_shift (k : Int) (st : BSt) (ln : Int) :
    finish (st.shift k) (ln + k) = (finish st ln).map (BOp.shift k) := by
  unfold finish
  simp only [closeBlocks_shift, shiftR, List.map_append]
  congr 1
  obtain ⟨ctrs, para, mode⟩ := st
  cases mode <;> rfl

theorem blockLoop_shift (k : Int) : ∀ (lines : List Bytes) (st : BSt) (ln : Int),
    blockLoop (st.shift k) (ln + k) lines = (blockLoop st ln lines).map (BOp.shift k) := by
  intro lines
  induction lines with
  | nil => intro st ln; exact finish_shift k st ln
  | cons l rest ih =>
    intro st ln
    unfold blockLoop
    simp only [stepBlk_shift, shiftR, List.map_append]
    have e : ln + k + 1 = ln + 1 + k := by omega
    rw [e, ih]

/-! ### locality: the loop over `a ++ b` is the loop over `a` followed by the loop over `b` -/

/-- the loop over the lines `a` when the line after them is `nx` (the only
look-ahead of the block phase is one line) -/
def runLines : BSt → Int → List Bytes → Option Bytes → BSt × List BOp
  | st, _, [], _ => (st, [])
  | st, ln, l :: rest, nx =>
    let r := stepBlk st ln l (rest.head?.or nx)
    let r2 := runLines r.1 (ln + 1) rest nx
    (r2.1, r.2 ++ r2.2)

theorem blockLoop_append : ∀ (a b : List Bytes) (st : BSt) (ln : Int),
    blockLoop st ln (a ++ b) =
      (runLines st ln a b.head?).2 ++ blockLoop (runLines st ln a b.head?).1 (ln + (a.length : Int)) b := by
  intro a
  induction a with
  | nil => intro b st ln; simp [runLines]
  | cons l a ih =>
    intro b st ln
    have hh : (a ++ b).head? = a.head?.or b.head? := by cases a <;> simp
    simp only [List.cons_append, blockLoop, runLines, hh, ih, List.append_assoc, List.length_cons]
    have e : ln + 1 + (a.length : Int) = ln + ((a.length + 1 : Nat) : Int) := by omega
    rw [e]

theorem finish_init (ln : Int) : finish initSt ln = [] := rfl

theorem initSt_shift (k : Int) : initSt.shift k = initSt := rfl

/-- if the block parser is back in its initial state after the lines `a`
(no open container, paragraph or leaf block), the ops of `a ++ b` are the ops
of `a` followed by the ops of `b` with shifted line numbers -/
theorem blockLoop_concat (a b : List Bytes) (opsA : List BOp)
    (h : runLines initSt 1 a b.head? = (initSt, opsA)) :
    blockLoop initSt 1 (a ++ b) = opsA ++ (blockLoop initSt 1 b).map (BOp.shift a.length) := by
  rw [blockLoop_append, h]
  simp only []
  have := blockLoop_shift (a.length : Int) b initSt 1
  rw [initSt_shift] at this
  rw [this]

theorem blockLoop_alone (a : List Bytes) (opsA : List BOp)
    (h : runLines initSt 1 a none = (initSt, opsA)) : blockLoop initSt 1 a = opsA := by
  have := blockLoop_append a [] initSt 1
  simp only [List.append_nil, List.head?_nil, h] at this
  rw [this]
  simp [blockLoop, finish_init]

/-! ### lines of a concatenation -/

theorem splitNL_ne_nil : ∀ s : Bytes, splitNL s ≠ [] := by
  intro s
  induction s with
  | nil => simp [splitNL]
  | cons b t ih =>
    unfold splitNL
    split
    · simp
    · split <;> simp

theorem splitNL_append_nl : ∀ (x y : Bytes), splitNL (x ++ NL :: y) = splitNL x ++ splitNL y := by
  intro x y
  induction x with
  | nil =>
    simp only [List.nil_append]
    rw [splitNL]
    cases h : splitNL y with
    | nil => exact absurd h (splitNL_ne_nil y)
    | cons l ls => simp [splitNL, h]
  | cons c x ih =>
    simp only [List.cons_append]
    rw [splitNL, ih]
    cases h : splitNL x with
    | nil => exact absurd h (splitNL_ne_nil x)
    | cons l ls =>
      simp only [List.cons_append]
      rw [splitNL, h]
      by_cases hc : (c == NL) = true <;> simp [hc]

theorem docLines_snoc_nl (x : Bytes) : docLines (x ++ [NL]) = splitNL x := by
  unfold docLines
  have h1 : (x ++ [NL]).isEmpty = false := by cases x <;> rfl
  have h2 : (x ++ [NL]).getLast? = some NL := by simp
  simp only [h1, Bool.false_eq_true, if_false, h2]
  have := splitNL_append_nl x []
  simp only [splitNL] at this
  rw [this]
  simp

/-- a document that ends in a newline contributes exactly its own lines -/
theorem docLines_append (x y : Bytes) :
    docLines (x ++ [NL] ++ y) = docLines (x ++ [NL]) ++ docLines y := by
  rw [docLines_snoc_nl]
  cases y with
  | nil => rw [List.append_nil, docLines_snoc_nl]; simp [docLines]
  | cons c y =>
    unfold docLines
    have h1 : (x ++ [NL] ++ c :: y).isEmpty = false := by cases x <;> rfl
    have h2 : (x ++ [NL] ++ c :: y).getLast? = (c :: y).getLast? := by
      rw [List.getLast?_append]
      cases hg : (c :: y).getLast? with
      | none => simp at hg
      | some v => rfl
    simp only [h1, Bool.false_eq_true, if_false, h2, List.isEmpty_cons]
    have e : x ++ [NL] ++ c :: y = x ++ NL :: (c :: y) := by simp
    rw [e, splitNL_append_nl]
    split
    · rw [List.dropLast_append_of_ne_nil (splitNL_ne_nil _)]
    · rfl

/-- `d1` and `d2` do not interact: after the lines of `d1` the block parser is
back in its initial state (no open container, no open paragraph, no open leaf
block), whether the next line is the first line of `d2` or the end of input -/
def Separable (d1 d2 : Bytes) : Prop :=
  ∃ ops, runLines initSt 1 (docLines d1) (docLines d2).head? = (initSt, ops) ∧
         runLines initSt 1 (docLines d1) none = (initSt, ops)

theorem renderBlocks_concat (x d2 : Bytes) (h : Separable (x ++ [NL]) d2) :
    renderBlocks (x ++ [NL] ++ d2) =
      renderBlocks (x ++ [NL]) ++ (renderBlocks d2).map (BOp.shift (docLines (x ++ [NL])).length) := by
  obtain ⟨ops, h1, h2⟩ := h
  unfold renderBlocks
  rw [docLines_append, blockLoop_concat _ _ ops h1, blockLoop_alone _ ops h2]

end C35
