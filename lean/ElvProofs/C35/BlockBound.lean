import ElvModel.C35.Block
import ElvProofs.C35.Markers
import ElvProofs.C35.BlockConcat
namespace C35
open Go

/-! ### the container stack grows by at most 2·len(line) per line -/

/-- every container marker parsed by `parseStartingMarkers` consumes at least
one byte of the line -/
theorem startingMarkers_count (fuel : Nat) : ∀ (line : Bytes) (np : Bool) (acc : List Cont)
    (rest : Bytes) (cs : List Cont), startingMarkers fuel line np acc = some (rest, cs) →
    cs.length + rest.length ≤ acc.length + line.length := by
  induction fuel with
  | zero => intro line np acc rest cs h; simp [startingMarkers] at h
  | succ n ih =>
    intro line np acc rest cs h
    unfold startingMarkers at h
    split at h
    · injection h with h; injection h with h1 h2; subst h1; subst h2; simp
    · split at h
      · rename_i l hq
        have hp := blockquoteMarkerLen_pos line l hq
        have hlt := drop_lt line l hp.1 hp.2
        have := ih _ _ _ _ _ h
        simp only [List.length_cons] at this
        omega
      · simp only [] at h
        split at h
        · injection h with h; injection h with h1 h2; subst h1; subst h2; simp
        · rename_i m hm
          have hpos : line ≠ [] ∧ 1 ≤ m.len ∧ m.spaces ≤ m.len := by
            split at hm
            · rename_i m' hm'
              injection hm with hm; subst hm
              exact itemMarkerRe_pos line _ hm'
            · split at hm
              · have := itemMarkerBlankRe_pos line m hm
                exact ⟨this.1, this.2.1, by omega⟩
              · cases hm
          have hml : 1 ≤ (if m.spaces ≥ 5 then m.len - m.spaces + 1 else m.len) := by
            split <;> omega
          have hlt := drop_lt line _ hml hpos.1
          generalize (if m.spaces ≥ 5 then m.len - m.spaces + 1 else m.len) = ml at hml hlt h
          split at h
          · injection h with h; injection h with h1 h2; subst h1; subst h2; simp
          · split at h
            · have := ih _ _ _ _ _ h
              simp only [List.length_cons] at this
              omega
            · split at h
              · injection h with h; injection h with h1 h2; subst h1; subst h2; simp
              · have := ih _ _ _ _ _ h
                simp only [List.length_cons] at this
                omega

theorem openNew_len (ln : Int) : ∀ (cs : List Cont) (cl : Bool),
    (openNew ln cl cs).1.length ≤ 2 * cs.length := by
  intro cs
  induction cs with
  | nil => intro cl; simp [openNew]
  | cons c cs ih =>
    intro cl
    cases c with
    | quote => simp only [openNew, List.length_cons]; have := ih cl; omega
    | bullet p ind =>
      simp only [openNew]
      have := ih false
      split <;> simp only [List.length_cons] <;> omega
    | ordered p s ind =>
      simp only [openNew]
      have := ih false
      split <;> simp only [List.length_cons] <;> omega

theorem matchCont_len : ∀ (cs : List Ctr) (line : Bytes) (i : Nat),
    (matchCont cs line i).1.length ≤ line.length := by
  intro cs
  induction cs with
  | nil => intro line i; simp [matchCont]
  | cons c cs ih =>
    intro line i
    unfold matchCont
    split
    · split
      · rename_i l _
        have := ih (line.drop l) (i + 1); simp only [List.length_drop] at this; omega
      · exact Nat.le_refl _
    · exact ih line (i + 1)
    · exact ih line (i + 1)
    · split
      · have := ih (line.drop c.indent) (i + 1); simp only [List.length_drop] at this; omega
      · exact Nat.le_refl _

theorem closeBlocks_len (st : BSt) (keep : Nat) (ln : Int) :
    (closeBlocks st keep ln).1.ctrs.length ≤ st.ctrs.length := by
  show (st.ctrs.take keep).length ≤ _
  simp only [List.length_take]; omega

theorem processMarkers_grow (st : BSt) (ln : Int) (line0 : Bytes) :
    (processMarkers st ln line0).st.ctrs.length ≤ st.ctrs.length + 2 * line0.length := by
  unfold processMarkers
  have hmc := matchCont_len st.ctrs line0 0
  generalize matchCont st.ctrs line0 0 = mc at hmc
  simp only []
  cases hsm : startingMarkers (mc.1.length + 1) mc.1 (st.para.isEmpty || mc.2 != st.ctrs.length) [] with
  | none => simp only []; omega
  | some sm =>
    have hc := startingMarkers_count _ _ _ _ sm.1 sm.2 hsm
    simp only [List.length_nil] at hc
    simp only []
    split
    · simp only []; omega
    · simp only [List.length_append]
      have h1 := closeBlocks_len st (adjustMatched (if mc.2 > 0 then st.ctrs[mc.2 - 1]? else none) sm.2 mc.2).2 ln
      have h2 := openNew_len ln sm.2 (adjustMatched (if mc.2 > 0 then st.ctrs[mc.2 - 1]? else none) sm.2 mc.2).1
      omega

theorem leafStep_len (pm : PM) (ln : Int) (m : Mode) (ops : List BOp) :
    (leafStep pm ln m ops).1.ctrs.length ≤ pm.st.ctrs.length := closeBlocks_len _ _ ln

theorem blankStep_len (pm : PM) (ln : Int) (next : Option Bytes) :
    (blankStep pm ln next).1.ctrs.length ≤ pm.st.ctrs.length := by
  unfold blankStep
  cases pm.newItem <;> cases next <;> simp only [] <;> first
    | exact Nat.le_refl _
    | (split
       · exact closeBlocks_len _ _ ln
       · exact Nat.le_refl _)

theorem stepNormal_len (st : BSt) (ln : Int) (line0 : Bytes) (next : Option Bytes) :
    (stepNormal st ln line0 next).1.ctrs.length ≤ st.ctrs.length + 2 * line0.length := by
  unfold stepNormal
  have hpm := processMarkers_grow st ln line0
  generalize processMarkers st ln line0 = pm at hpm
  simp only []
  have L := fun m ops => Nat.le_trans (leafStep_len pm ln m ops) hpm
  split
  · split
    · exact Nat.le_trans (closeBlocks_len _ _ ln) hpm
    · exact Nat.le_trans (blankStep_len pm ln next) hpm
  · split
    · exact L _ _
    · split
      · exact L _ _
      · split
        · exact L _ _
        · split
          · exact L _ _
          · split
            · split
              · exact Nat.le_trans (closeBlocks_len _ _ ln) hpm
              · exact hpm
            · exact L _ _
            · split
              · exact L _ _
              · exact L _ _

theorem endWith_len (st : BSt) (ln : Int) (uq : Option Nat) (op : BOp) :
    (endWith st ln uq op).1.ctrs.length ≤ st.ctrs.length := by
  unfold endWith
  split
  · exact closeBlocks_len _ _ ln
  · exact Nat.le_refl _

theorem again_len (st : BSt) (ln : Int) (line0 : Bytes) (next : Option Bytes) (op : BOp) :
    (again st ln line0 next op).1.ctrs.length ≤ st.ctrs.length + 2 * line0.length :=
  stepNormal_len { st with mode := .normal } ln line0 next

theorem stepBlk_len (st : BSt) (ln : Int) (line0 : Bytes) (next : Option Bytes) :
    (stepBlk st ln line0 next).1.ctrs.length ≤ st.ctrs.length + 2 * line0.length := by
  have E := fun uq op => Nat.le_trans (endWith_len st ln uq op) (Nat.le_add_right _ (2 * line0.length))
  have A := fun op => again_len st ln line0 next op
  have R : st.ctrs.length ≤ st.ctrs.length + 2 * line0.length := Nat.le_add_right _ _
  unfold stepBlk
  simp only []
  split
  · exact stepNormal_len _ _ _ _
  · split
    · exact E _ _
    · split
      · exact A _
      · split
        · split <;> exact R
        · exact R
  · split
    · split
      · exact E _ _
      · exact R
    · split
      · exact A _
      · exact R
  · split
    · split
      · exact E _ _
      · exact R
    · split
      · exact A _
      · split <;> exact R
  · split
    · exact E _ _
    · split
      · exact A _
      · exact R

/-- after any lines, the container stack is at most twice the number of bytes read -/
theorem runLines_len : ∀ (a : List Bytes) (st : BSt) (ln : Int) (nx : Option Bytes),
    (runLines st ln a nx).1.ctrs.length ≤ st.ctrs.length + 2 * (a.map List.length).sum := by
  intro a
  induction a with
  | nil => intro st ln nx; simp [runLines]
  | cons l a ih =>
    intro st ln nx
    simp only [runLines, List.map_cons, List.sum_cons]
    generalize a.head?.or nx = nx'
    have h1 := stepBlk_len st ln l nx'
    have h2 := ih (stepBlk st ln l nx').1 (ln + 1) nx
    omega

end C35
