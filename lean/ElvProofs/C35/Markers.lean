import ElvModel.C35.Model
namespace C35
open Go

/-! ### termination of the model of `parseStartingMarkers` -/

theorem drop_lt (line : Bytes) (l : Nat) (h1 : 1 ≤ l) (h2 : line ≠ []) :
    (line.drop l).length < line.length := by
  have : 0 < line.length := List.length_pos_iff.mpr h2
  simp only [List.length_drop]; omega

theorem head?_some_ne_nil {α} (l : List α) (a : α) (h : l.head? = some a) : l ≠ [] := by
  intro hl; subst hl; simp at h

theorem blockquoteMarkerLen_pos (line : Bytes) (l : Nat) (h : blockquoteMarkerLen line = some l) :
    1 ≤ l ∧ line ≠ [] := by
  unfold blockquoteMarkerLen at h
  simp only [] at h
  split at h
  · rename_i hc
    simp only [Bool.and_eq_true] at hc
    have hne : line.drop (leadingSpaces line) ≠ [] := by
      intro hnil
      have := hc.2
      rw [hnil] at this
      simp at this
    have hline : line ≠ [] := by
      intro hl; subst hl; simp at hne
    injection h with h
    refine ⟨?_, hline⟩
    split at h <;> omega
  · cases h

theorem itemPrefix_pos (line : Bytes) (l : Nat) (b : Option UInt8) (s : Nat) (p : UInt8)
    (h : itemPrefix line = some (l, b, s, p)) : 1 ≤ l ∧ line ≠ [] := by
  unfold itemPrefix at h
  simp only [] at h
  split at h
  · cases h
  · cases hd : line.drop (leadingSpaces line) with
    | nil => simp [hd] at h
    | cons c rest =>
      have hline : line ≠ [] := by
        intro hl; subst hl; simp at hd
      simp only [hd] at h
      split at h
      · injection h with h; injection h with h
        exact ⟨by omega, hline⟩
      · split at h
        · cases h
        · split at h
          · split at h
            · injection h with h; injection h with h
              exact ⟨by omega, hline⟩
            · cases h
          · cases h

theorem itemMarkerRe_pos (line : Bytes) (m : ItemM) (h : itemMarkerRe line = some m) :
    line ≠ [] ∧ 1 ≤ m.len ∧ m.spaces ≤ m.len := by
  unfold itemMarkerRe at h
  split at h
  · cases h
  · rename_i l b s p hp
    have := itemPrefix_pos line l b s p hp
    simp only [] at h
    split at h
    · injection h with h
      subst h
      exact ⟨this.2, by simp only []; omega, by simp only []; omega⟩
    · cases h

theorem itemMarkerBlankRe_pos (line : Bytes) (m : ItemM) (h : itemMarkerBlankRe line = some m) :
    line ≠ [] ∧ 1 ≤ m.len ∧ m.spaces = 0 := by
  unfold itemMarkerBlankRe at h
  split at h
  · cases h
  · rename_i l b s p hp
    have := itemPrefix_pos line l b s p hp
    split at h
    · injection h with h
      subst h
      have : 0 < line.length := List.length_pos_iff.mpr this.2
      exact ⟨‹_ ∧ _›.2, by simp only []; omega, rfl⟩
    · cases h

theorem startingMarkers_fuel (fuel : Nat) : ∀ (line : Bytes) (np : Bool) (acc : List Cont),
    line.length < fuel → startingMarkers fuel line np acc ≠ none := by
  induction fuel with
  | zero => intro line np acc h; omega
  | succ n ih =>
    intro line np acc h
    unfold startingMarkers
    split
    · simp
    · split
      · rename_i l hq
        have := blockquoteMarkerLen_pos line l hq
        apply ih
        have := drop_lt line l this.1 this.2
        omega
      · -- list item marker
        simp only []
        split
        · simp
        · rename_i m hm
          have hpos : line ≠ [] ∧ 1 ≤ m.len ∧ m.spaces ≤ m.len := by
            split at hm
            · rename_i m' hm'
              injection hm with hm; subst hm
              exact itemMarkerRe_pos line _ hm'
            · split at hm
              · have := itemMarkerBlankRe_pos line m hm
                exact ⟨this.1, this.2.1, by omega⟩
              · cases hm
          have hml : 1 ≤ (if m.spaces ≥ 5 then m.len - m.spaces + 1 else m.len) := by
            split <;> omega
          have hlt := drop_lt line _ hml hpos.1
          generalize (if m.spaces ≥ 5 then m.len - m.spaces + 1 else m.len) = ml at hml hlt ⊢
          split
          · simp
          · split
            · apply ih; omega
            · split
              · simp
              · apply ih; omega

end C35
