/-
C35 — the HTML written by the CommonMark REFERENCE renderer is WELL NESTED.

Final statements (helpers: WellNestedDefs / Inline / Blocks / Parse / Bytes).  The
output of `render` is, byte for byte, the serialisation `flat evs` of a token
list `evs` (start tag with attributes / end tag / void element / text) that is
in the Dyck language (`WellNested`, hence accepted by the stack automaton
`balanced`) and all of whose tokens are `Safe`: text contains no `<`/`>`/`"`,
attribute values contain no `<`/`>`/`"`, tag and attribute names come from
fixed lists — so no byte of a text or attribute value can be mistaken for
markup and the token boundaries in the byte string are where `evs` puts them.
The per-document Go check of the same fact on elvish's real output is
`malformedHTML` in harness/c35/c35.go.
-/
import ElvProofs.C35.WellNestedParse
import ElvProofs.C35.WellNestedBytes
namespace C35
open Go

/-- INLINE LEVEL, for every inline tree, every fuel (also the `FUEL` fallback) -/
theorem ref_inline_well_nested (loose : Bool) (fuel : Nat) (l : List Inl) :
    ∃ evs : List Ev, flat evs = inlHtml loose fuel l ∧ WellNested evs ∧ (∀ e ∈ evs, e.Safe) :=
  inl_frag loose fuel l

/-- BLOCK LEVEL, for every forest with heading levels 1…6, every fuel, tight or
not, every accumulator: what is appended is well nested -/
theorem ref_blocks_well_nested (U : UClass) (loose : Bool) (fuel : Nat) (tight : Bool) (rs : List Raw)
    (o : ROut) (hl : lvlOKs rs = true) :
    ∃ evs : List Ev, (renderRaws U loose fuel tight rs o).out = o.out ++ flat evs ∧ WellNested evs ∧
      (∀ e ∈ evs, e.Safe) := by
  obtain ⟨b, eb, d, ed, wd, sd⟩ := renderRaws_ext U loose fuel tight rs o hl
  exact ⟨d, by rw [eb, ed], wd, sd⟩

/-- the hypothesis is satisfiable: a quote holding a heading and an ordered list -/
example : lvlOKs [.quote [.heading 2 (bs "x"), .list true 3 0x2E [.item [.para [bs "a"]]]]] = true := by
  decide +kernel

/-- the heading-level hypothesis of `ref_blocks_well_nested` is needed: level 14
would write the tag name `h>` -/
example : (renderRaws stdU true 3 false [.heading 14 []] { out := [], bad := false }).out =
    [0x3C, 0x68, 0x3E, 0x3E, 0x3C, 0x2F, 0x68, 0x3E, 0x3E, 0x0A] := by decide +kernel

/-- WHOLE DOCUMENTS: whenever the reference renders `doc` (any Unicode
classification, CommonMark or elvish serialisation), the HTML is the
serialisation of a well-nested list of safe tokens -/
theorem ref_well_nested (U : UClass) (loose : Bool) (doc h : Bytes) (hr : render U loose doc = some h) :
    ∃ evs : List Ev, flat evs = h ∧ WellNested evs ∧ (∀ e ∈ evs, e.Safe) := by
  unfold render at hr
  split at hr
  · cases hr
  · rename_i rs hrs
    simp only [] at hr
    split at hr
    · cases hr
    · injection hr with hr
      obtain ⟨d, ed, wd, sd⟩ := ref_blocks_well_nested U loose (doc.length + 2) false rs
        { out := [], bad := false } (parseBlocks_lvlOK hrs)
      exact ⟨d, by rw [← hr, ed]; rfl, wd, sd⟩

/-- the same, in terms of the executable stack checker -/
theorem ref_balanced (U : UClass) (loose : Bool) (doc h : Bytes) (hr : render U loose doc = some h) :
    ∃ evs : List Ev, flat evs = h ∧ balanced [] evs = true ∧ (∀ e ∈ evs, e.Safe) := by
  obtain ⟨d, ed, wd, sd⟩ := ref_well_nested U loose doc h hr
  exact ⟨d, ed, balanced_of_wellNested wd, sd⟩

/-- PURELY ABOUT THE BYTES: the byte-level stack scanner `scanB` (Lean rendering
of the Go oracle `malformedHTML`: tags found at `<`, names compared on a
stack, no bare `<`, `>`, `"` in text) accepts every output of the reference -/
theorem ref_bytes_balanced (U : UClass) (loose : Bool) (doc h : Bytes) (hr : render U loose doc = some h) :
    scanB [] .text h = true := by
  obtain ⟨d, ed, wd, sd⟩ := ref_well_nested U loose doc h hr
  rw [← ed]; exact scanB_of_wellNested wd sd

/-! ### non-vacuity -/

/-- `> - *a*`: a quote, a list, an item, a paragraph, emphasis -/
def exDoc : Bytes := bs "> - *a*\n"

def exHtml : Bytes := bs "<blockquote>\n<ul>\n<li>\n<p><em>a</em></p>\n</li>\n</ul>\n</blockquote>\n"

def exEvs : List Ev :=
  [.open (bs "blockquote") [], .text [NL], .open (bs "ul") [], .text [NL], .open (bs "li") [], .text [NL],
   .open (bs "p") [], .open (bs "em") [], .text (bs "a"), .close (bs "em"), .close (bs "p"), .text [NL],
   .close (bs "li"), .text [NL], .close (bs "ul"), .text [NL], .close (bs "blockquote"), .text [NL]]

/-- the hypothesis of `ref_well_nested` holds for it -/
example : render stdU true exDoc = some exHtml := by decide +kernel

/-- … and these are its tokens -/
example : flat exEvs = exHtml ∧ balanced [] exEvs = true ∧ (∀ e ∈ exEvs, e.Safe) := by decide +kernel

/-- attributes, a void element and a code block:
`3. ![x](/u "t")`, a heading, a fenced block with an info string -/
example : render stdU true (bs "3. ![x](/u \"t\")\n\n# h\n```go\n<\n```\n") = some (flat
    [.open (bs "ol") [(bs "start", bs "3")], .text [NL], .open (bs "li") [], .text [NL], .open (bs "p") [],
     .void (bs "img") [(bs "src", bs "/u"), (bs "alt", bs "x"), (bs "title", bs "t")], .close (bs "p"),
     .text [NL], .close (bs "li"), .text [NL], .close (bs "ol"), .text [NL],
     .open (bs "h1") [], .text (bs "h"), .close (bs "h1"), .text [NL],
     .open (bs "pre") [], .open (bs "code") [(bs "class", bs "language-go")], .text (bs "&lt;\n"),
     .close (bs "code"), .close (bs "pre"), .text [NL]]) := by decide +kernel

/-- `WellNested` is not trivially true: crossed tags are rejected -/
example : ¬ WellNested [.open (bs "p") [], .open (bs "em") [], .close (bs "p"), .close (bs "em")] := by
  intro h
  have := balanced_of_wellNested h
  revert this
  decide +kernel

/-- the byte scanner accepts the example and rejects crossed tags, an unclosed
tag, a stray end tag and bare `>` -/
example : scanB [] .text exHtml = true ∧
    scanB [] .text (bs "<p><em>a</p></em>") = false ∧
    scanB [] .text (bs "<ul>\n<li>a\n</ul>\n") = false ∧
    scanB [] .text (bs "a</p>") = false ∧
    scanB [] .text (bs "a > b") = false ∧
    scanB [] .text (bs "<p>a <img src=\"/u\" alt=\"\" /><br />\nb</p>\n") = true := by decide +kernel

/-- `Safe` is not trivially true -/
example : ¬ (Ev.text (bs "a<b")).Safe := by decide +kernel

example : ¬ (Ev.open (bs "a") [(bs "href", bs "\"><script>")]).Safe := by decide +kernel

end C35
